(* Generic facts about an executed batch: (1) every transaction of the batch ran against an intermediate database
   that is related to the database before and after the batch by the monotone relation Mid; (2) any property of
   pending submissions is preserved by set_batch_ready when the freshly completed ones satisfy it. *)
From RV Require Import Mon StoreLocks StorePromises StoreCallbacks Discipline SysInv.
From Coq Require Import Lia.

(* b is reachable from a by well-shaped transactions *)
Definition Mid (a b : db) : Prop := CbInv a /\ CbInv b /\ task_le a b /\ prom_le a b /\ conv_ok a b.

Lemma Mid_refl : forall d, CbInv d -> Mid d d.
Proof. intros d H. split; [exact H|split; [exact H|split; [apply task_le_refl|split; [apply prom_le_refl|apply conv_ok_refl]]]]. Qed.

Lemma Mid_trans : forall a b c, Mid a b -> Mid b c -> Mid a c.
Proof.
  intros a b c (A1&A2&A3&A4&A5) (B1&B2&B3&B4&B5). split; [exact A1|split; [exact B2|]]. split; [eapply task_le_trans; eassumption|].
  split; [apply (prom_le_trans a b c (proj1 A1) (proj1 A2) A4 B4)|eapply conv_ok_trans; eassumption].
Qed.

Lemma txn_Mid : forall cs hs d d' rs, txn_ok cs -> CbInv d -> exec_txn d cs hs = Some (d', rs) -> Mid d d'.
Proof.
  intros cs hs d d' rs Ht HI H. destruct (exec_txn_cbinv _ _ _ _ _ Ht HI H) as [HI' [TL [PL CV]]].
  split; [exact HI|split; [exact HI'|split; [exact TL|split; [exact PL|exact CV]]]].
Qed.

Lemma Forall2_weaken : forall {A B} (R R' : A -> B -> Prop) l l', (forall a b, R a b -> R' a b) -> Forall2 R l l' -> Forall2 R' l l'.
Proof. intros A B R R' l l' H F. induction F; constructor; auto. Qed.

(* every transaction of the batch, with the intermediate database it ran against *)
Definition ran (d d' : db) (x : list command * list (option (list string))) (rs : list result) : Prop :=
  exists dx dx', Mid d dx /\ exec_txn dx (fst x) (snd x) = Some (dx', rs) /\ Mid dx dx' /\ Mid dx' d'.

Lemma exec_batch_mid : forall txns d d' rss,
    Forall (fun x => txn_ok (fst x)) txns -> CbInv d -> exec_batch d txns = Some (d', rss) ->
    Mid d d' /\ Forall2 (ran d d') txns rss.
Proof.
  induction txns as [|[cs hs] txns IH]; intros d d' rss Ht HI H; cbn in H.
  - inversion H; subst. split; [apply Mid_refl; exact HI|constructor].
  - inversion Ht as [|? ? H1 H2]; subst. destruct (exec_txn d cs hs) as [[d1 rs]|] eqn:E; [|discriminate].
    destruct (exec_batch d1 txns) as [[d2 rss2]|] eqn:E2; [|discriminate]. inversion H; subst. cbn in H1.
    pose proof (txn_Mid _ _ _ _ _ H1 HI E) as M1'. pose proof (proj1 (proj2 M1')) as HI1.
    destruct (IH d1 d' rss2 H2 HI1 E2) as [M2 R2].
    split; [eapply Mid_trans; eassumption|]. constructor.
    + exists d, d1. cbn. split; [apply Mid_refl; exact HI|split; [exact E|split; [exact M1'|exact M2]]].
    + eapply Forall2_weaken; [|exact R2]. intros x r [dx [dx' [A [B [C D]]]]]. exists dx, dx'.
      split; [eapply Mid_trans; eassumption|tauto].
Qed.

(* ---------- set_batch_ready preserves any property of pending submissions ---------- *)
Section Ready.
  Variable P : pend -> Prop.
  Variable Q : list command * list (option (list string)) -> list result -> Prop.

  Lemma set_batch_ready_gen : forall batch txns rss pl,
      batch_txns batch pl = Some txns -> nodup_items batch = true ->
      Forall P pl ->
      match rss with Some l => Forall2 Q txns l | None => True end ->
      (* a submission of the batch that is given its completion *)
      (forall p cs hs c, In (cs, hs) txns -> pd_sub p = SStore cs -> pd_ready p = None -> P p ->
                         (c = CErr \/ exists rs, c = CStore rs /\ Q (cs, hs) rs) ->
                         P (mkPend (pd_id p) (pd_n p) (pd_sub p) (pd_group p) (Some c))) ->
      Forall P (set_batch_ready batch rss pl).
  Proof.
    induction batch as [|e batch IH]; intros txns rss pl Hb Hn Hp Hr Hnew; cbn; [exact Hp|].
    cbn in Hb, Hn. destruct (find_pend (ex_id e) (ex_n e) pl) as [p|] eqn:F; [|discriminate].
    destruct (pd_sub p) eqn:Es; try discriminate. destruct (pd_ready p) eqn:Er; [discriminate|].
    destruct (batch_txns batch pl) as [l|] eqn:Eb; [|discriminate]. inversion Hb; subst. clear Hb.
    apply andb_true_iff in Hn. destruct Hn as [Hn1 Hn2]. apply negb_true_iff in Hn1.
    eapply IH with (txns := l).
    - rewrite batch_txns_set_ready; [exact Eb|]. intros e' He'. unfold pend_is; cbn.
      destruct (String.eqb (ex_id e) (ex_id e') && Nat.eqb (ex_n e) (ex_n e')) eqn:E12.
      + exfalso. assert (existsb (fun e'0 => String.eqb (ex_id e) (ex_id e'0) && Nat.eqb (ex_n e) (ex_n e'0)) batch = true); [|congruence].
        apply existsb_exists. exists e'. tauto.
      + reflexivity.
    - exact Hn2.
    - apply set_ready_forall; [exact Hp|]. intros p' Hp'. rewrite F in Hp'. inversion Hp'; subst p'.
      apply find_some in F. destruct F as [Fin _]. pose proof (proj1 (Forall_forall _ _) Hp p Fin) as Pp.
      eapply (Hnew p t (ex_hints e)); [left; reflexivity|exact Es|exact Er|exact Pp|].
      destruct rss as [[|rs rss]|]; cbn; try (left; reflexivity).
      destruct (ex_lose e); [left; reflexivity|]. right. exists rs. split; [reflexivity|].
      inversion Hr as [|? ? ? ? Hhd Htl]; subst. exact Hhd.
    - destruct rss as [[|rs rss]|]; cbn; try exact I.
      + inversion Hr.
      + inversion Hr as [|? ? ? ? Hhd Htl]; subst. exact Htl.
    - intros p0 cs hs c Hin. apply Hnew. right. exact Hin.
  Qed.
End Ready.
