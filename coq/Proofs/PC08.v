(* C08, clause 803: when a promise leaves pending, every task of that root that existed before the commit is
   finished after it -- for every schedule.  Store lemmas are for arbitrary databases. *)
From RV Require Import Mon MonC07 MonC08 Framework StoreLocks StorePromises StoreCallbacks Discipline SysInv Eqb PC16 PC05 PC07.
From Coq Require Import Lia.

Definition fin_in (d : db) (id : string) : bool :=
  match find_task id d with Some t' => t_finished t' | None => false end.

(* ---------- find over the shapes the store functions produce ---------- *)

Lemma find_app_some : forall {A} (f : A -> bool) l l' x, find f l = Some x -> find f (l ++ l') = Some x.
Proof. induction l as [|y l IH]; intros l' x H; cbn in *; [discriminate|]. destruct (f y); [exact H|apply IH; exact H]. Qed.

Lemma find_map_id : forall (g : task -> task) id l,
    (forall t, t_id (g t) = t_id t) ->
    find (fun t => String.eqb (t_id t) id) (map g l) = option_map g (find (fun t => String.eqb (t_id t) id) l).
Proof.
  intros g id l Hg. induction l as [|t l IH]; cbn; [reflexivity|]. rewrite Hg.
  destruct (String.eqb (t_id t) id); [reflexivity|exact IH].
Qed.

Lemma find_promise_map : forall (g : promise -> promise) id l,
    (forall p, p_id (g p) = p_id p) ->
    find (fun p => String.eqb (p_id p) id) (map g l) = option_map g (find (fun p => String.eqb (p_id p) id) l).
Proof.
  intros g id l Hg. induction l as [|t l IH]; cbn; [reflexivity|]. rewrite Hg.
  destruct (String.eqb (p_id t) id); [reflexivity|exact IH].
Qed.

(* ---------- (A) a command other than the four completion commands keeps a pending promise pending ---------- *)

Lemma pending_create : forall d c P, pending_in d P = true -> pending_in (fst (ex_create_promise d c)) P = true.
Proof.
  intros d c P H. unfold ex_create_promise. destruct (find_promise (cp_id c) d); cbn; [exact H|].
  unfold pending_in, find_promise in *; cbn. destruct (find _ (promises d)) as [p|] eqn:E; [|discriminate].
  rewrite (find_app_some _ _ _ _ E). exact H.
Qed.

Lemma pending_frame : forall d d' P, promises d' = promises d -> pending_in d P = true -> pending_in d' P = true.
Proof. intros d d' P E H. unfold pending_in, find_promise in *. rewrite E. exact H. Qed.

Lemma exec_pending : forall d c h d' r P,
    is_up c = false -> exec d c h = Some (d', r) -> pending_in d P = true -> pending_in d' P = true.
Proof.
  intros d c h d' r P Hu H HP. destruct (is_promise_write c) eqn:W.
  - destruct c; cbn in W, Hu; try discriminate; cbn in H; unfold alter in H.
    + inversion H; subst. apply pending_create; exact HP.
    + unfold ex_create_promise_and_task in H. pose proof (pending_create d pc P HP) as H1.
      destruct (ex_create_promise d pc) as [d1 pr]. cbn in H1. destruct (pr =? 0).
      * inversion H; subst. exact H1.
      * pose proof (ct_promises d1 tc) as E. destruct (ex_create_task d1 tc) as [d2 tr]. cbn in E.
        inversion H; subst. eapply pending_frame; eassumption.
  - eapply pending_frame; [eapply exec_promises_frame; eassumption|exact HP].
Qed.

Lemma exec_pending_frame : forall d c h d' r P,
    is_promise_write c = false -> exec d c h = Some (d', r) -> pending_in d P = true -> pending_in d' P = true.
Proof. intros d c h d' r P W H HP. eapply pending_frame; [eapply exec_promises_frame; eassumption|exact HP]. Qed.

(* the update of ANOTHER promise keeps it pending too *)
Lemma update_pending_other : forall d u P, up_id u <> P -> pending_in d P = true -> pending_in (fst (ex_update_promise d u)) P = true.
Proof.
  intros d u P Hne H. unfold pending_in, find_promise, ex_update_promise in *; cbn.
  rewrite find_promise_map by (intros p; destruct (upd_guard u p); reflexivity).
  destruct (find _ (promises d)) as [p|] eqn:E; [|discriminate]. cbn.
  destruct (upd_guard u p) eqn:G; [|exact H]. exfalso. unfold upd_guard in G.
  apply andb_true_iff in G. destruct G as [G _]. apply String.eqb_eq in G.
  destruct (find_promise_in _ _ _ E) as [_ Hid]. congruence.
Qed.

(* ---------- (B) a finished task stays finished; (D) a task keeps its id and root ---------- *)

Lemma guard_false_finished : forall u t, ut_shape u -> t_finished t = true -> ut_guard u t = false.
Proof.
  intros u t [Ha _] Hf. unfold ut_guard. rewrite (finished_not_in_mask (t_state t) _ Ha (finished_states t Hf)).
  rewrite andb_false_r. reflexivity.
Qed.

Lemma ct_guard_false_finished : forall root t, t_finished t = true -> ct_guard root t = false.
Proof.
  intros root t Hf. unfold ct_guard. destruct (finished_states t Hf) as [E|E]; rewrite E; cbn; apply andb_false_r.
Qed.

Lemma hb_guard_false_finished : forall pid t, t_finished t = true -> hb_t_guard pid t = false.
Proof.
  intros pid t Hf. unfold hb_t_guard. destruct (finished_states t Hf) as [E|E]; rewrite E; cbn; apply andb_false_r.
Qed.

Definition keeps (d d' : db) : Prop :=
  forall id t, find_task id d = Some t ->
               exists t', find_task id d' = Some t' /\ t_root t' = t_root t /\ (t_finished t = true -> t' = t).

Lemma keeps_refl : forall d, keeps d d.
Proof. intros d id t H. exists t. tauto. Qed.

Lemma keeps_same : forall d d', tasks d' = tasks d -> keeps d d'.
Proof. intros d d' E id t H. exists t. unfold find_task in *. rewrite E. tauto. Qed.

Lemma keeps_app : forall d d' l, tasks d' = (tasks d ++ l)%list -> keeps d d'.
Proof.
  intros d d' l E id t H. exists t. unfold find_task in *. rewrite E. split; [apply find_app_some; exact H|tauto].
Qed.

Lemma keeps_map : forall d d' (g : task -> task),
    tasks d' = map g (tasks d) -> (forall t, t_id (g t) = t_id t /\ t_root (g t) = t_root t /\ (t_finished t = true -> g t = t)) ->
    keeps d d'.
Proof.
  intros d d' g E Hg id t H. exists (g t). unfold find_task in *. rewrite E.
  rewrite find_map_id by (intros x; apply Hg). rewrite H. cbn. destruct (Hg t) as [_ [H2 H3]]. tauto.
Qed.

Lemma keeps_trans : forall a b c, keeps a b -> keeps b c -> keeps a c.
Proof.
  intros a b c H1 H2 id t H. destruct (H1 id t H) as [t1 [F1 [R1 K1]]]. destruct (H2 id t1 F1) as [t2 [F2 [R2 K2]]].
  exists t2. split; [exact F2|]. split; [congruence|]. intros Hf. specialize (K1 Hf). subst t1. apply K2; exact Hf.
Qed.

Lemma exec_keeps : forall d c h d' r now d0, cmd_at d0 now c -> exec d c h = Some (d', r) -> keeps d d'.
Proof.
  intros d c h d' r now d0 Hc H. destruct (is_task_write c) eqn:W.
  - destruct c; cbn in W; try discriminate; cbn in H; unfold alter in H.
    + inversion H; subst. unfold ex_create_task. destruct (find_task (ct_id c) d); cbn.
      * apply keeps_same; reflexivity.
      * eapply keeps_app; reflexivity.
    + destruct (ex_create_tasks d pid created) as [x|] eqn:E; [|discriminate]. inversion H; subst.
      unfold ex_create_tasks in E. destruct (existsb _ _); [discriminate|]. inversion E; subst. eapply keeps_app; reflexivity.
    + inversion H; subst. eapply keeps_map; [reflexivity|]. intros t. cbn beta. destruct (ct_guard root t) eqn:G; cbn; [|tauto].
      split; [reflexivity|]. split; [reflexivity|]. intros Hf. rewrite (ct_guard_false_finished root t Hf) in G. discriminate.
    + inversion H; subst. eapply keeps_map; [reflexivity|]. intros t. cbn beta. destruct (ut_guard c t) eqn:G; cbn; [|tauto].
      split; [reflexivity|]. split; [reflexivity|]. intros Hf. cbn in Hc. destruct Hc as [Hs _].
      rewrite (guard_false_finished c t Hs Hf) in G. discriminate.
    + inversion H; subst. eapply keeps_map; [reflexivity|]. intros t. cbn beta. destruct (hb_t_guard pid t) eqn:G; cbn; [|tauto].
      split; [reflexivity|]. split; [reflexivity|]. intros Hf. rewrite (hb_guard_false_finished pid t Hf) in G. discriminate.
    + unfold ex_create_promise_and_task in H. pose proof (cp_tasks d pc) as H1.
      destruct (ex_create_promise d pc) as [d1 pr]. cbn in H1. destruct (pr =? 0).
      * inversion H; subst. apply keeps_same; exact H1.
      * unfold ex_create_task in H. destruct (find_task (ct_id tc) d1); inversion H; subst; cbn.
        -- apply keeps_same; exact H1.
        -- eapply keeps_app. cbn. rewrite H1. reflexivity.
  - apply keeps_same. eapply exec_tasks_frame; eassumption.
Qed.

Lemma keeps_fin : forall d d' id, keeps d d' -> fin_in d id = true -> fin_in d' id = true.
Proof.
  intros d d' id K H. unfold fin_in in *. destruct (find_task id d) as [t|] eqn:E; [|discriminate].
  destruct (K id t E) as [t' [F [_ Kf]]]. rewrite F. rewrite (Kf H). exact H.
Qed.

(* ---------- (C) CompleteTasks finishes every task of the root ---------- *)

Lemma complete_tasks_fin : forall d root now id t,
    TaskStates d -> find_task id d = Some t -> t_root t = root -> fin_in (fst (ex_complete_tasks d root now)) id = true.
Proof.
  intros d root now id t TS F R. unfold fin_in, find_task, ex_complete_tasks in *; cbn.
  rewrite find_map_id by (intros x; destruct (ct_guard root x); reflexivity). rewrite F. cbn.
  assert (Hin : In t (tasks d)) by (apply find_some in F; tauto).
  specialize (TS t Hin). unfold ct_guard. rewrite R, String.eqb_refl. cbn.
  unfold valid_tstate, TInit, TEnqueued, TClaimed, TCompleted, TTimedout in TS.
  destruct TS as [E|[E|[E|[E|E]]]]; rewrite E; cbn; try reflexivity; unfold t_finished; rewrite E; reflexivity.
Qed.

(* ---------- the invariant of a batch ---------- *)

Definition K (d0 dc : db) : Prop :=
  forall p, In p (promises d0) -> p_state p = Pending ->
            pending_in dc (p_id p) = true \/
            (forall t, In t (tasks d0) -> t_root t = p_id p -> fin_in dc (t_id t) = true).

Definition R (d0 dc : db) : Prop :=
  forall t, In t (tasks d0) -> exists t', find_task (t_id t) dc = Some t' /\ t_root t' = t_root t.

Lemma R_step : forall d0 d d', keeps d d' -> R d0 d -> R d0 d'.
Proof.
  intros d0 d d' Kp HR t Ht. destruct (HR t Ht) as [t1 [F1 R1]]. destruct (Kp _ _ F1) as [t2 [F2 [R2 _]]].
  exists t2. split; [exact F2|congruence].
Qed.

Definition cmd_fine (c : command) : Prop := (exists d t, cmd_at d t c) /\ cmd_ts c.

(* a list of commands none of which is one of the four completion commands *)
Lemma plain_cmds : forall cs hs d0 dc dn rs,
    Forall (fun c => is_up c = false) cs -> Forall cmd_fine cs ->
    K d0 dc -> R d0 dc -> TaskStates dc -> exec_txn dc cs hs = Some (dn, rs) ->
    K d0 dn /\ R d0 dn /\ TaskStates dn.
Proof.
  induction cs as [|c cs IH]; intros hs d0 dc dn rs Hu Hf HK HR TS H; cbn in H.
  - inversion H; subst. tauto.
  - inversion Hu; subst. inversion Hf as [|? ? [[dd [tt Hat]] Hts] Hf']; subst.
    destruct (exec dc c (hd None hs)) as [[d1 r]|] eqn:E; [|discriminate].
    destruct (exec_txn d1 cs (tl hs)) as [[d2 rs2]|] eqn:E2; [|discriminate]. injection H as Hd Hr. subst dn rs.
    pose proof (exec_keeps _ _ _ _ _ _ _ Hat E) as Kp.
    apply (IH (tl hs) d0 d1 d2 rs2); [assumption|assumption| | | |exact E2].
    + intros p Hp Hs. destruct (HK p Hp Hs) as [A|B].
      * left. eapply exec_pending; eassumption.
      * right. intros t Ht Hr. eapply keeps_fin; [exact Kp|apply B; assumption].
    + eapply R_step; eassumption.
    + eapply exec_tstates; eassumption.
Qed.

(* the completion transaction *)
Lemma exec_txn_cons : forall d c cs hs dn rs,
    exec_txn d (c :: cs) hs = Some (dn, rs) ->
    exists d1 r rs', exec d c (hd None hs) = Some (d1, r) /\ exec_txn d1 cs (tl hs) = Some (dn, rs').
Proof.
  intros d c cs hs dn rs H. cbn in H. destruct (exec d c (hd None hs)) as [[d1 r]|]; [|discriminate].
  destruct (exec_txn d1 cs (tl hs)) as [[d2 rs2]|] eqn:E2; [|discriminate]. injection H as Hd Hr. subst.
  exists d1, r, rs2. split; [reflexivity|exact E2].
Qed.

Lemma completion_cmds : forall u now hs d0 dc dn rs,
    Forall cmd_fine (completion_txn u now) ->
    K d0 dc -> R d0 dc -> TaskStates dc -> exec_txn dc (completion_txn u now) hs = Some (dn, rs) ->
    K d0 dn /\ R d0 dn /\ TaskStates dn.
Proof.
  intros u now hs d0 dc dn rs Hf HK HR TS H. unfold completion_txn in *.
  inversion Hf as [|? ? [[d1' [t1' A1]] S1] Hf1]; subst. inversion Hf1 as [|? ? [[d2' [t2' A2]] S2] Hf2]; subst.
  inversion Hf2 as [|? ? [[d3' [t3' A3]] S3] Hf3]; subst. inversion Hf3 as [|? ? [[d4' [t4' A4]] S4] _]; subst.
  destruct (exec_txn_cons _ _ _ _ _ _ H) as [d1 [r1 [rs1 [E1 H1]]]].
  destruct (exec_txn_cons _ _ _ _ _ _ H1) as [d2 [r2 [rs2 [E2 H2]]]].
  destruct (exec_txn_cons _ _ _ _ _ _ H2) as [d3 [r3 [rs3 [E3 H3]]]].
  destruct (exec_txn_cons _ _ _ _ _ _ H3) as [d4 [r4 [rs4 [E4 H4]]]].
  cbn in H4. injection H4 as Hd4 _. subst d4.
  pose proof (exec_keeps _ _ _ _ _ _ _ A1 E1) as K1. pose proof (exec_keeps _ _ _ _ _ _ _ A2 E2) as K2.
  pose proof (exec_keeps _ _ _ _ _ _ _ A3 E3) as K3. pose proof (exec_keeps _ _ _ _ _ _ _ A4 E4) as K4.
  assert (TS1 : TaskStates d1) by (eapply exec_tstates; [exact S1|exact TS|exact E1]).
  assert (TS2 : TaskStates d2) by (eapply exec_tstates; [exact S2|exact TS1|exact E2]).
  assert (TS3 : TaskStates d3) by (eapply exec_tstates; [exact S3|exact TS2|exact E3]).
  assert (TS4 : TaskStates dn) by (eapply exec_tstates; [exact S4|exact TS3|exact E4]).
  pose proof (keeps_trans _ _ _ K3 K4) as K34. pose proof (keeps_trans _ _ _ K2 K34) as K234.
  pose proof (keeps_trans _ _ _ K1 K234) as K1234.
  assert (D1 : d1 = fst (ex_update_promise dc u)) by (cbn in E1; unfold alter in E1; inversion E1; reflexivity).
  assert (D2 : d2 = fst (ex_complete_tasks d1 (up_id u) now)) by (cbn in E2; unfold alter in E2; inversion E2; reflexivity).
  split; [|split; [eapply R_step; eassumption|exact TS4]].
  intros p Hp Hs. destruct (String.eqb (up_id u) (p_id p)) eqn:Eid.
  - (* the promise this transaction addresses: its tasks are finished after CompleteTasks *)
    apply String.eqb_eq in Eid. right. intros t Ht Hr. destruct (HR t Ht) as [tc [Fc Rc]].
    destruct (K1 _ _ Fc) as [t1 [F1 [R1 _]]].
    eapply keeps_fin; [exact K34|]. rewrite D2. eapply complete_tasks_fin; [exact TS1|exact F1|congruence].
  - apply String.eqb_neq in Eid. destruct (HK p Hp Hs) as [A|B].
    + left. assert (P1 : pending_in d1 (p_id p) = true) by (rewrite D1; apply update_pending_other; assumption).
      assert (P2 : pending_in d2 (p_id p) = true) by (eapply exec_pending_frame; [|exact E2|exact P1]; reflexivity).
      assert (P3 : pending_in d3 (p_id p) = true) by (eapply exec_pending_frame; [|exact E3|exact P2]; reflexivity).
      eapply exec_pending_frame; [|exact E4|exact P3]. reflexivity.
    + right. intros t Ht Hr. eapply keeps_fin; [exact K1234|apply B; assumption].
Qed.

Lemma txn_K : forall cs hs d0 dc dn rs,
    txn_shape cs -> Forall cmd_fine cs ->
    K d0 dc -> R d0 dc -> TaskStates dc -> exec_txn dc cs hs = Some (dn, rs) ->
    K d0 dn /\ R d0 dn /\ TaskStates dn.
Proof.
  intros cs hs d0 dc dn rs [[u [t ->]]|Hp] Hf HK HR TS H.
  - eapply completion_cmds; eassumption.
  - eapply plain_cmds; eassumption.
Qed.

Lemma batch_K : forall txns d0 dc dn rss,
    Forall (fun x => txn_shape (fst x) /\ Forall cmd_fine (fst x)) txns ->
    K d0 dc -> R d0 dc -> TaskStates dc -> exec_batch dc txns = Some (dn, rss) ->
    K d0 dn.
Proof.
  induction txns as [|[cs hs] txns IH]; intros d0 dc dn rss Hf HK HR TS H; cbn in H.
  - inversion H; subst. exact HK.
  - inversion Hf as [|? ? [Hs Hc] Hf']; subst. cbn in Hs, Hc.
    destruct (exec_txn dc cs hs) as [[d1 rs]|] eqn:E1; [|discriminate].
    destruct (exec_batch d1 txns) as [[d2 rss2]|] eqn:E2; [|discriminate]. injection H as Hd Hr. subst dn rss.
    destruct (txn_K _ _ _ _ _ _ Hs Hc HK HR TS E1) as [K1 [R1 TS1]].
    exact (IH d0 d1 d2 rss2 Hf' K1 R1 TS1 E2).
Qed.

(* ---------- start of a batch ---------- *)

Lemma K_init : forall d, prom_uniq d -> K d d.
Proof.
  intros d U p Hp Hs. left. unfold pending_in, find_promise. rewrite (find_promise_uniq _ _ U Hp). rewrite Hs. reflexivity.
Qed.

Lemma R_init : forall d, task_uniq d -> R d d.
Proof.
  intros d U t Ht. exists t. split; [|reflexivity]. unfold find_task. apply find_task_uniq; assumption.
Qed.

(* ---------- the boolean of the monitor ---------- *)

Lemma K_803 : forall d d', K d d' -> c08_803 d d' = true.
Proof.
  intros d d' HK. unfold c08_803. apply forallb_forall. intros p Hp.
  destruct (p_state p =? Pending) eqn:Es; [|reflexivity]. cbn. apply Z.eqb_eq in Es.
  destruct (HK p Hp Es) as [A|B]; [rewrite A; reflexivity|]. apply orb_true_iff. right.
  apply forallb_forall. intros t Ht. destruct (String.eqb (t_root t) (p_id p)) eqn:Er; [|reflexivity]. cbn.
  apply String.eqb_eq in Er. exact (B t Ht Er).
Qed.

(* ---------- the 803 checker and the step lemma ---------- *)

Lemma cmd_fine_of : forall d t cs, Forall (cmd_at d t) cs -> Forall cmd_fine cs.
Proof.
  intros d t cs H. pose proof (sub_at_accepts d t cs H) as Ha. apply Forall_forall. intros c Hc.
  split; [exists d, t; eapply Forall_forall; eassumption|]. eapply Forall_forall in Ha; [|exact Hc]. tauto.
Qed.

Lemma c08p_step : forall cfg s d s' ob,
    Inv05 s -> dir_wf d -> step cfg s d = Some (s', ob) -> Inv05 s' /\ c08p_chk (s_now s) (s_db s) d ob = [].
Proof.
  intros cfg s d s' ob HI Hwf H. destruct (c05_step cfg s d s' ob HI Hwf H) as [HI' _]. split; [exact HI'|].
  destruct HI as [HS HC]. destruct d; try reflexivity.
  destruct (exec_obs cfg s batch s' ob HS H) as [txns [Ht [[rss [Ee ->]]|[Ee [Hdb ->]]]]]; cbn; rewrite app_nil_r.
  - assert (HK : K (s_db s) (s_db s')).
    { eapply batch_K; [| apply K_init; exact (SInv_uniq _ HS) | apply R_init; exact (proj1 (proj2 (proj2 HC))) | exact (SInv_tstates _ HS) | exact Ee].
      apply Forall_forall. intros x Hx. eapply Forall_forall in Ht; [|exact Hx]. destruct Ht as [t [_ [Hc Hs]]].
      split; [exact Hs|eapply cmd_fine_of; exact Hc]. }
    rewrite (K_803 _ _ HK). reflexivity.
  - rewrite (K_803 _ _ (K_init _ (SInv_uniq _ HS))). reflexivity.
Qed.

Theorem C08p_trace : forall cfg sch, sch_wf sch -> C08p_mon (events cfg sch) = [].
Proof.
  intros cfg sch Hw. unfold C08p_mon. apply mon_sound with (Inv := Inv05) (dir_ok := dir_wf).
  - intros s d s' ob HI Hd Hs. eapply c08p_step; eassumption.
  - apply Inv05_init.
  - exact Hw.
Qed.
