(* C04: timeouts are exact - for every schedule. *)
From RV Require Import Mon MonC04 Framework StoreLocks StorePromises Discipline SysInv Eqb.
From Coq Require Import Lia.

Definition compl_shape (now : Z) (q : promise) : Prop :=
  exists c, p_completed q = Some c /\
    ((c = p_timeout q /\ p_timeout q <= now /\ p_state q = timedout_state (p_tags q) /\
      p_vh q = [] /\ p_vd q = EmptyString /\ p_iku q = None) \/
     (c < p_timeout q /\ c <= now /\ user_state (p_state q) = true)).

Definition ShapeDb (now : Z) (d : db) : Prop :=
  forall q, In q (promises d) -> p_state q = Pending \/ compl_shape now q.

Lemma compl_shape_mono : forall now now' q, now <= now' -> compl_shape now q -> compl_shape now' q.
Proof. intros now now' q Hle [c [Hc H]]. exists c. split; [exact Hc|]. destruct H as [H|H]; [left|right]; intuition lia. Qed.

Lemma ShapeDb_mono : forall now now' d, now <= now' -> ShapeDb now d -> ShapeDb now' d.
Proof. intros now now' d Hle H q Hq. destruct (H q Hq) as [Hp|Hs]; [left; exact Hp|right; eapply compl_shape_mono; eassumption]. Qed.

Lemma exec_shape : forall now t d c h d' r,
    prom_uniq d -> cmd_at d t c -> t <= now -> exec d c h = Some (d', r) -> ShapeDb now d -> ShapeDb now d'.
Proof.
  intros now t d c h d' r U Hc Hle H S. destruct (is_promise_write c) eqn:W.
  - destruct c; cbn in W; try discriminate; cbn in H; unfold alter in H.
    + (* CreatePromise *)
      inversion H; subst. unfold ex_create_promise. destruct (find_promise (cp_id c) d); cbn; [exact S|].
      intros q Hq. apply in_app_or in Hq. destruct Hq as [Hq|[<-|[]]]; [apply S; exact Hq|left; reflexivity].
    + (* UpdatePromise *)
      inversion H; subst. cbn. intros q Hq. apply in_map_iff in Hq. destruct Hq as [p [Hq Hp]].
      destruct (upd_guard c p) eqn:G; [|subst q; apply S; exact Hp]. subst q. right.
      unfold upd_guard in G. apply andb_true_iff in G. destruct G as [G1 G2]. apply String.eqb_eq in G1.
      cbn in Hc. destruct Hc as [q0 [Hq0 [Hid Hk]]].
      assert (q0 = p) by (eapply prom_uniq_same; eauto; congruence). subst q0.
      exists (up_completed c). split; [reflexivity|]. cbn. destruct Hk as [Hk|Hk]; [left|right]; intuition lia.
    + (* CreatePromiseAndTask *)
      pose proof (cpt_promises d pc tc) as E. destruct (ex_create_promise_and_task d pc tc) as [d1 [pr tr]]. inversion H; subst.
      cbn in E. intros q Hq. rewrite E in Hq. unfold ex_create_promise in Hq. destruct (find_promise (cp_id pc) d); cbn in Hq; [apply S; exact Hq|].
      apply in_app_or in Hq. destruct Hq as [Hq|[<-|[]]]; [apply S; exact Hq|left; reflexivity].
  - intros q Hq. rewrite (exec_promises_frame _ _ _ _ _ H W) in Hq. apply S. exact Hq.
Qed.

Lemma cmd_at_accepts : forall d t c, cmd_at d t c -> accepts c = true.
Proof. intros d t c H. destruct c; cbn in *; try reflexivity. eapply up_ok_final; exact H. Qed.

Lemma exec_cmds_shape : forall now t cs d0 d d',
    prom_uniq d0 -> prom_uniq d -> prom_le d0 d -> Forall (fun x => cmd_at d0 t (fst x)) cs -> t <= now ->
    exec_cmds d cs = Some d' -> ShapeDb now d -> ShapeDb now d' /\ prom_le d0 d' /\ prom_uniq d'.
Proof.
  induction cs as [|[c h] cs IH]; intros d0 d d' U0 U L Hc Hle H S; cbn in H.
  - inversion H; subst. tauto.
  - inversion Hc as [|? ? Hc1 Hc2]; subst. cbn in Hc1. destruct (exec d c h) as [[d1 r]|] eqn:E; [|discriminate].
    assert (Hcd : cmd_at d t c) by (eapply cmd_at_mono_db; eassumption).
    destruct (exec_prom_le _ _ _ _ _ U (cmd_at_accepts _ _ _ Hcd) E) as [L1 U1].
    apply (IH d0 d1 d' U0 U1 (prom_le_trans d0 d d1 U0 U L L1) Hc2 Hle H).
    apply (exec_shape now t d c h d1 r U Hcd Hle E S).
Qed.

(* a batch: every transaction has its own emission tick t <= now *)
Lemma exec_batch_shape : forall now txns d0 d d' rss,
    prom_uniq d0 -> prom_uniq d -> prom_le d0 d ->
    Forall (fun x => exists t, t <= now /\ Forall (cmd_at d0 t) (fst x) /\ txn_shape (fst x)) txns ->
    exec_batch d txns = Some (d', rss) -> ShapeDb now d -> ShapeDb now d'.
Proof.
  induction txns as [|[cs hs] txns IH]; intros d0 d d' rss U0 U L Ht H S; cbn in H.
  - inversion H; subst. exact S.
  - inversion Ht as [|? ? H1 H2]; subst. destruct (exec_txn d cs hs) as [[d1 rs]|] eqn:E; [|discriminate].
    destruct (exec_batch d1 txns) as [[d2 rss2]|] eqn:E2; [|discriminate]. inversion H; subst.
    destruct H1 as [t [Hle [Hc _]]]. cbn in Hc.
    pose proof (exec_txn_cmds _ _ _ _ _ E) as Ec.
    assert (Hz : Forall (fun x => cmd_at d0 t (fst x)) (zip_hints cs hs)).
    { clear - Hc. revert hs. induction Hc; intros hs; cbn; constructor; auto. }
    destruct (exec_cmds_shape now t _ d0 d d1 U0 U L Hz Hle Ec S) as [S1 [L1 U1]].
    apply (IH d0 d1 d' rss2 U0 U1 L1 H2 E2 S1).
Qed.

(* ---------- booleans ---------- *)

Lemma user_state_b_of : forall s, user_state s = true -> user_state_b s = true.
Proof. intros s H. exact H. Qed.

Lemma compl_shape_b_of : forall now q, compl_shape now q -> compl_shape_b now q = true.
Proof.
  intros now q [c [Hc H]]. unfold compl_shape_b. rewrite Hc. destruct H as [(a&b&c0&e&f&g)|(a&b&c0)].
  - subst c. rewrite Z.eqb_refl. apply Z.leb_le in b. rewrite b, c0, Z.eqb_refl, e, f, g. cbn. reflexivity.
  - apply Z.ltb_lt in a. apply Z.leb_le in b. rewrite a, b, (user_state_b_of _ c0). cbn. apply orb_true_r.
Qed.

Lemma c04_exec_ok : forall now d, ShapeDb now d -> c04_exec now d = [].
Proof.
  intros now d S. unfold c04_exec.
  assert (forallb (fun q => (p_state q =? Pending) || compl_shape_b now q) (promises d) = true) as ->; [|reflexivity].
  apply forallb_forall. intros q Hq. destruct (S q Hq) as [Hp|Hs].
  - rewrite Hp. reflexivity.
  - rewrite (compl_shape_b_of _ _ Hs). apply orb_true_r.
Qed.

Lemma timed_bodies_same : forall r, timed_bodies_b r = timed_bodies r.
Proof. intros r. destruct r; reflexivity. Qed.

(* the local clause: what a coroutine step may answer at tick time t *)
Lemma c04_resp_ok : forall t r, resp_t t (Some r) -> filter (fun c => negb (c =? 402)) (c04_resp t r) = [].
Proof.
  intros t r H. unfold c04_resp. cbn in H.
  destruct (forallb (fun p => negb (p_state p =? Pending) || (t <? p_timeout p)) (timed_bodies_b r)) eqn:E; [reflexivity|].
  destruct H as [H|H].
  - rewrite H. cbn. reflexivity.
  - exfalso. assert (forallb (fun p => negb (p_state p =? Pending) || (t <? p_timeout p)) (timed_bodies_b r) = true); [|congruence].
    rewrite timed_bodies_same. apply forallb_forall. intros p Hp. eapply Forall_forall in H; [|exact Hp].
    destruct (p_state p =? Pending) eqn:Ep; [|reflexivity]. apply Z.eqb_eq in Ep. specialize (H Ep). apply Z.ltb_lt in H. rewrite H. reflexivity.
Qed.

(* ---------- invariant and step ---------- *)

Definition Inv04 (s : sys) : Prop := SInv s /\ ShapeDb (s_now s) (s_db s).

Lemma Inv04_init : Inv04 (sys0 db0).
Proof. split; [apply SInv_init|intros q []]. Qed.

Definition c04_chk_partial : checker := fun now d dir ob => filter (fun c => negb (c =? 402)) (c04_chk now d dir ob).

Lemma filter_flat_map_nil : forall {A} (f : A -> list Z) (g : Z -> bool) l,
    (forall x, In x l -> filter g (f x) = []) -> filter g (flat_map f l) = [].
Proof.
  induction l as [|x l IH]; intros H; cbn; [reflexivity|]. rewrite filter_app, H by (left; reflexivity).
  cbn. apply IH. intros; apply H; right; assumption.
Qed.

Lemma c04_step : forall cfg s d s' ob,
    Inv04 s -> dir_wf d -> step cfg s d = Some (s', ob) -> Inv04 s' /\ c04_chk_partial (s_now s) (s_db s) d ob = [].
Proof.
  intros cfg s d s' ob [HS HSh] Hwf H. pose proof (SInv_step cfg s d s' ob HS Hwf H) as HS'.
  pose proof (step_now cfg s d s' ob H) as Hnow.
  destruct d.
  - destruct (tick_obs_ok cfg s t deliver bgs arrive s' ob HS Hwf H) as [Hle [Hdb Hob]]. cbn in Hnow.
    split; [split; [exact HS'|rewrite Hnow, Hdb; eapply ShapeDb_mono; eassumption]|].
    unfold c04_chk_partial. cbn. apply filter_flat_map_nil. intros x Hx. eapply Forall_forall in Hob; [|exact Hx].
    destruct Hob as [id [out [next [-> Ho]]]]. destruct Ho as [_ [_ [_ [_ Ht]]]].
    destruct (o_resp out) as [r|] eqn:Er; cbn; [|reflexivity].
    destruct r; cbn; try reflexivity; apply c04_resp_ok; exact Ht.
  - cbn in Hnow. destruct (exec_obs cfg s batch s' ob HS H) as [txns [Ht [[rss [Ee ->]]|[Ee [Hdb ->]]]]];
      unfold c04_chk_partial; cbn; rewrite app_nil_r.
    + assert (S' : ShapeDb (s_now s) (s_db s')).
      { eapply exec_batch_shape with (d0 := s_db s); try eassumption; try exact (SInv_uniq _ HS). apply prom_le_refl. }
      split; [split; [exact HS'|rewrite Hnow; exact S']|]. rewrite c04_exec_ok by exact S'. reflexivity.
    + split; [split; [exact HS'|rewrite Hnow, Hdb; exact HSh]|]. rewrite c04_exec_ok by exact HSh. reflexivity.
  - destruct (other_steps_db cfg s _ s' ob H I) as [Hdb ->]. cbn in Hnow. split; [split; [exact HS'|rewrite Hnow, Hdb; exact HSh]|reflexivity].
  - destruct (other_steps_db cfg s _ s' ob H I) as [Hdb ->]. cbn in Hnow. split; [split; [exact HS'|rewrite Hnow, Hdb; exact HSh]|reflexivity].
  - destruct (other_steps_db cfg s _ s' ob H I) as [Hdb ->]. cbn in Hnow. split; [split; [exact HS'|rewrite Hnow, Hdb; exact HSh]|reflexivity].
  - destruct (other_steps_db cfg s _ s' ob H I) as [Hdb ->]. cbn in Hnow. split; [split; [exact HS'|rewrite Hnow, Hdb; exact HSh]|reflexivity].
Qed.

Lemma mon_from_filter : forall chk g now d i tr,
    mon_from (fun n db dir ob => filter g (chk n db dir ob)) now d i tr = filter (fun v => g (fst v)) (mon_from chk now d i tr).
Proof.
  intros chk g now d i tr. revert now d i. induction tr as [|[dir ob] tr IH]; intros now d i; cbn; [reflexivity|].
  rewrite filter_app, IH. f_equal. induction (chk now d dir ob) as [|c l IHl]; cbn; [reflexivity|].
  destruct (g c); cbn; [f_equal|]; exact IHl.
Qed.

Theorem C04_trace_partial : forall cfg sch, sch_wf sch -> C04_mon_partial (events cfg sch) = [].
Proof.
  intros cfg sch Hw. unfold C04_mon_partial, C04_mon, mon.
  rewrite <- (mon_from_filter c04_chk (fun c => negb (c =? 402))).
  change (mon c04_chk_partial (events cfg sch) = []).
  apply mon_sound with (Inv := Inv04) (dir_ok := dir_wf).
  - intros s d s' ob HI Hd Hs. eapply c04_step; eassumption.
  - apply Inv04_init.
  - exact Hw.
Qed.
