(* C18: the poll registry and delivery rule -- for every sequence of connects, disconnects, drains and messages. *)
From RV Require Import Poll.
From Coq Require Import Lia.

(* ---------- who may receive a message ---------- *)

Lemma allowed_in_group : forall st notify g id c, In c (allowed st notify g id) -> In c (ps_conns st) /\ pc_group c = g.
Proof.
  intros st notify g id c H. unfold allowed in H.
  set (grp := filter (in_group g) (ps_conns st)) in *.
  assert (Hg : forall x, In x grp -> In x (ps_conns st) /\ pc_group x = g).
  { intros x Hx. apply filter_In in Hx. destruct Hx as [A B]. split; [exact A|]. apply String.eqb_eq. exact B. }
  destruct (String.eqb id EmptyString).
  - cbn in H. destruct notify; [contradiction|]. apply Hg; exact H.
  - destruct (filter (fun c0 => String.eqb (pc_id c0) id) grp) as [|c0 rest] eqn:E.
    + destruct notify; [contradiction|]. apply Hg; exact H.
    + destruct H as [<-|[]]. assert (Hin : In c0 (filter (fun c1 => String.eqb (pc_id c1) id) grp)) by (rewrite E; left; reflexivity).
      apply filter_In in Hin. apply Hg. tauto.
Qed.

(* a notification goes only to the exact id; a message whose id is connected goes to that id *)
Lemma allowed_exact : forall st notify g id c,
    In c (allowed st notify g id) ->
    (notify = true -> pc_id c = id /\ id <> EmptyString) /\
    ((exists c', In c' (ps_conns st) /\ pc_group c' = g /\ pc_id c' = id) -> id <> EmptyString -> pc_id c = id).
Proof.
  intros st notify g id c H. unfold allowed in H.
  set (grp := filter (in_group g) (ps_conns st)) in *.
  destruct (String.eqb id EmptyString) eqn:Ee.
  - apply String.eqb_eq in Ee. cbn in H. destruct notify; [contradiction|]. split; [discriminate|]. intros _ Hne. contradiction.
  - apply String.eqb_neq in Ee.
    destruct (filter (fun c0 => String.eqb (pc_id c0) id) grp) as [|c0 rest] eqn:E.
    + destruct notify; [contradiction|]. split; [discriminate|]. intros [c' [Hin [Hg Hi]]] _. exfalso.
      assert (Hc' : In c' (filter (fun c0 => String.eqb (pc_id c0) id) grp)).
      { apply filter_In. split; [apply filter_In; split; [exact Hin|unfold in_group; rewrite Hg; apply String.eqb_refl]|rewrite Hi; apply String.eqb_refl]. }
      rewrite E in Hc'. contradiction.
    + destruct H as [<-|[]]. assert (Hin : In c0 (filter (fun c1 => String.eqb (pc_id c1) id) grp)) by (rewrite E; left; reflexivity).
      apply filter_In in Hin. destruct Hin as [_ Hid]. apply String.eqb_eq in Hid. split; [intros _; tauto|intros _ _; exact Hid].
Qed.

(* ---------- delivery ---------- *)

Theorem send_right_listener : forall st notify g id body ok cid st',
    p_send st notify g id body ok (Some cid) = Some st' ->
    exists c, In c (ps_conns st) /\ pc_cid c = cid /\ pc_group c = g /\
              (notify = true -> pc_id c = id) /\
              ((exists c', In c' (ps_conns st) /\ pc_group c' = g /\ pc_id c' = id) -> id <> EmptyString -> pc_id c = id) /\
              ok = true /\ (List.length (pc_buf c) < pc_cap c)%nat /\
              ps_conns st' = map (push cid body) (ps_conns st) /\ ps_max st' = ps_max st.
Proof.
  intros st notify g id body ok cid st' H. unfold p_send in H.
  destruct (find (fun c => Nat.eqb (pc_cid c) cid) (allowed st notify g id)) as [c|] eqn:F; [|discriminate].
  apply find_some in F. destruct F as [Hin Hc]. apply Nat.eqb_eq in Hc.
  destruct (ok && Nat.ltb (List.length (pc_buf c)) (pc_cap c)) eqn:E; [|discriminate]. inversion H; subst; clear H.
  apply andb_true_iff in E. destruct E as [E1 E2]. apply Nat.ltb_lt in E2.
  destruct (allowed_in_group _ _ _ _ _ Hin) as [A B]. destruct (allowed_exact _ _ _ _ _ Hin) as [N X].
  exists c. repeat split; try assumption; try reflexivity. intros Hn. apply N; exact Hn.
Qed.

(* only the buffer of the chosen connection number changes, by exactly the body *)
Theorem send_only_one : forall cid body c,
    (pc_cid c <> cid -> push cid body c = c) /\
    (pc_cid c = cid -> pc_buf (push cid body c) = (pc_buf c ++ [body])%list /\ pc_group (push cid body c) = pc_group c /\ pc_id (push cid body c) = pc_id c).
Proof.
  intros cid body c. unfold push. split; intros H.
  - apply Nat.eqb_neq in H. rewrite H. reflexivity.
  - apply Nat.eqb_eq in H. rewrite H. cbn. tauto.
Qed.

(* reported delivered only if some listener's buffer accepted the body *)
Theorem delivered_means_accepted : forall st notify g id body st',
    p_send st notify g id body true None = Some st' -> False.
Proof. intros st notify g id body st' H. cbn in H. discriminate. Qed.

Theorem undelivered_changes_nothing : forall st notify g id body st',
    p_send st notify g id body false None = Some st' -> st' = st.
Proof.
  intros st notify g id body st' H. unfold p_send in H. destruct (allowed st notify g id) as [|c cs]; [inversion H; reflexivity|].
  destruct (existsb (fun c0 => negb (Nat.ltb (List.length (pc_buf c0)) (pc_cap c0))) (c :: cs)); [inversion H; reflexivity|discriminate].
Qed.

(* ---------- the registry invariant ---------- *)

Definition slot_uniq (cs : list pconn) : Prop := NoDup (map (fun c => (pc_group c, pc_id c)) cs).
Definition wf (st : pstate) : Prop := slot_uniq (ps_conns st) /\ (List.length (ps_conns st) <= ps_max st)%nat.

Lemma remove_first_in : forall {A} (f : A -> bool) l x, In x (remove_first f l) -> In x l.
Proof. induction l as [|y l IH]; intros x H; cbn in *; [contradiction|]. destruct (f y); [tauto|]. destruct H as [H|H]; [tauto|right; apply IH; exact H]. Qed.

Lemma remove_first_length : forall {A} (f : A -> bool) l, (List.length (remove_first f l) <= List.length l)%nat.
Proof. induction l as [|y l IH]; cbn; [lia|]. destruct (f y); cbn; lia. Qed.

Lemma remove_first_nodup : forall {A B} (k : A -> B) (f : A -> bool) l, NoDup (map k l) -> NoDup (map k (remove_first f l)).
Proof.
  induction l as [|y l IH]; intros H; cbn in *; [constructor|]. inversion H; subst. destruct (f y); [assumption|].
  cbn. constructor; [|apply IH; assumption]. intros Hin. apply in_map_iff in Hin. destruct Hin as [x [E Hx]].
  apply H2. apply in_map_iff. exists x. split; [exact E|eapply remove_first_in; exact Hx].
Qed.

(* after removing the first connection of a slot from a registry with unique slots, the slot is free *)
Lemma remove_first_slot_free : forall g id cs, slot_uniq cs ->
    ~ In (g, id) (map (fun c => (pc_group c, pc_id c)) (remove_first (same_slot g id) cs)).
Proof.
  induction cs as [|y cs IH]; intros U; cbn; [tauto|]. inversion U; subst.
  destruct (same_slot g id y) eqn:E.
  - unfold same_slot in E. apply andb_true_iff in E. destruct E as [E1 E2]. apply String.eqb_eq in E1, E2. subst. exact H1.
  - cbn. intros [H|H].
    + inversion H; subst. unfold same_slot in E. rewrite !String.eqb_refl in E. discriminate.
    + apply IH; assumption.
Qed.

Lemma NoDup_app_one : forall {A} (l : list A) x, NoDup l -> ~ In x l -> NoDup (l ++ [x]).
Proof.
  induction l as [|y l IH]; intros x H Hn; cbn; [constructor; [tauto|constructor]|].
  inversion H; subst. constructor.
  - intros Hin. apply in_app_or in Hin. destruct Hin as [Hin|[->|[]]]; [contradiction|]. apply Hn. left; reflexivity.
  - apply IH; [assumption|]. intros Hin. apply Hn. right; exact Hin.
Qed.

Theorem connect_wf : forall st g id cid cap, wf st -> wf (p_connect st g id cid cap).
Proof.
  intros st g id cid cap [U L]. unfold p_connect. set (cs := remove_first (same_slot g id) (ps_conns st)).
  assert (Ucs : slot_uniq cs) by (apply remove_first_nodup; exact U).
  assert (Lcs : (List.length cs <= ps_max st)%nat) by (pose proof (remove_first_length (same_slot g id) (ps_conns st)); unfold cs; lia).
  destruct (Nat.leb (ps_max st) (List.length cs)) eqn:E; split; cbn; try assumption.
  - unfold slot_uniq. rewrite map_app. cbn. apply NoDup_app_one; [exact Ucs|]. apply remove_first_slot_free; exact U.
  - apply Nat.leb_gt in E. rewrite app_length. cbn. lia.
Qed.

Theorem disconnect_wf : forall st cid, wf st -> wf (p_disconnect st cid).
Proof.
  intros st cid [U L]. split; cbn.
  - apply remove_first_nodup; exact U.
  - pose proof (remove_first_length (fun c => Nat.eqb (pc_cid c) cid) (ps_conns st)). lia.
Qed.

Lemma map_slots_same : forall (f : pconn -> pconn) cs, (forall c, pc_group (f c) = pc_group c /\ pc_id (f c) = pc_id c) ->
    map (fun c => (pc_group c, pc_id c)) (map f cs) = map (fun c => (pc_group c, pc_id c)) cs.
Proof. intros f cs H. rewrite map_map. apply map_ext. intros c. destruct (H c) as [-> ->]. reflexivity. Qed.

Theorem send_wf : forall st notify g id body ok got st', wf st -> p_send st notify g id body ok got = Some st' -> wf st'.
Proof.
  intros st notify g id body ok got st' [U L] H. destruct got as [cid|].
  - destruct (send_right_listener _ _ _ _ _ _ _ _ H) as [c [_ [_ [_ [_ [_ [_ [_ [E1 E2]]]]]]]]].
    split; [unfold slot_uniq; rewrite E1, map_slots_same; [exact U|]|rewrite E1, map_length, E2; exact L].
    intros x. unfold push. destruct (Nat.eqb (pc_cid x) cid); cbn; tauto.
  - destruct ok; [exfalso; eapply delivered_means_accepted; exact H|]. rewrite (undelivered_changes_nothing _ _ _ _ _ _ H). split; assumption.
Qed.

Theorem drain_wf : forall st cid, wf st -> wf (fst (fst (p_drain st cid))).
Proof.
  intros st cid [U L]. unfold p_drain. destruct (find _ _); cbn [fst]; [|split; assumption]. split; cbn [ps_conns ps_max].
  - unfold slot_uniq. rewrite map_slots_same; [exact U|]. intros x. destruct (Nat.eqb (pc_cid x) cid); cbn; tauto.
  - rewrite map_length. exact L.
Qed.

(* a reconnect with the same id replaces the older connection: afterwards the slot holds the new connection only
   (when the limit allows registering it) *)
Theorem reconnect_replaces : forall st g id cid cap c,
    wf st -> In c (ps_conns (p_connect st g id cid cap)) -> pc_group c = g -> pc_id c = id -> pc_cid c = cid /\ pc_buf c = [].
Proof.
  intros st g id cid cap c [U L] Hin Hg Hi. unfold p_connect in Hin.
  set (cs := remove_first (same_slot g id) (ps_conns st)) in *.
  assert (Hfree : ~ In (g, id) (map (fun c => (pc_group c, pc_id c)) cs)) by (apply remove_first_slot_free; exact U).
  assert (Hnot : ~ In c cs).
  { intros Hc. apply Hfree. apply in_map_iff. exists c. rewrite Hg, Hi. tauto. }
  destruct (Nat.leb (ps_max st) (List.length cs)); cbn in Hin; [contradiction|].
  apply in_app_or in Hin. destruct Hin as [Hc|[<-|[]]]; [contradiction|]. cbn. tauto.
Qed.

(* ---------- the address a long-poll request names ---------- *)
Fixpoint no_slash (s : string) : Prop :=
  match s with
  | EmptyString => True
  | String c s' => Ascii.eqb c "/" = false /\ no_slash s'
  end.

Lemma cut_slash_exact : forall g id, no_slash g -> cut_slash (g ++ String "/" id) = (g, Some id).
Proof.
  induction g as [|c g IH]; intros id H; cbn.
  - reflexivity.
  - destruct H as [Hc Hg]. rewrite Hc. rewrite (IH id Hg). reflexivity.
Qed.

Lemma poll_path_exact : forall g id, no_slash g -> poll_path (String "/" (g ++ String "/" id)) = Some (g, id).
Proof. intros g id H. cbn. rewrite (cut_slash_exact g id H). reflexivity. Qed.

Lemma cut_slash_none : forall g, no_slash g -> cut_slash g = (g, None).
Proof.
  induction g as [|c g IH]; intros H; cbn; [reflexivity|]. destruct H as [Hc Hg]. rewrite Hc, (IH Hg). reflexivity.
Qed.

Lemma poll_path_needs_id : forall g, no_slash g -> poll_path (String "/" g) = None.
Proof. intros g H. cbn. rewrite (cut_slash_none g H). reflexivity. Qed.
