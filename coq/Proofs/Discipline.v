From RV Require Import Mon.
From Coq Require Import Lia.

Definition cmd_at (now : Z) (c : command) : Prop :=
  match c with
  | TimeoutLocks t => t = now
  | HeartbeatLocks _ t => t = now
  | HeartbeatTasks _ t => t = now
  | ReadPromises t _ => t = now
  | ReadSchedules t _ => t = now
  | ReadTasks _ t _ => t = now
  | AcquireLock _ _ _ ttl exp => exp = add64 now ttl
  | CompleteTasks _ t => t = now
  | CreateTasks _ t => t = now
  | _ => True
  end.
Definition sub_at (now : Z) (s : sub) : Prop :=
  match s with SStore cs => Forall (cmd_at now) cs | _ => True end.






Definition extra_ok (s : slot) : Prop :=
  match s with SlRouter _ _ extra => forall now, Forall (cmd_at now) extra | _ => True end.
Definition fk_ok (k : fkont) : Prop :=
  match k with FBgEnqueue _ _ _ pre => forall now, Forall (cmd_at now) pre | _ => True end.
Definition st_ok (st : cstate) : Prop :=
  match st with CFan k slots _ => Forall extra_ok slots /\ fk_ok k | _ => True end.
Definition out_ok (now : Z) (o : step_out) : Prop := Forall (sub_at now) (o_subs o) /\ st_ok (o_state o).

Ltac head_split :=
  match goal with
  | |- out_ok _ (match ?x with _ => _ end) => destruct x eqn:?
  end.

Lemma spawn_timeouts_at : forall ps now next, Forall (sub_at now) (snd (spawn_timeouts ps now next)).
Proof.
  induction ps as [|p ps IH]; intros now next; cbn; [constructor|].
  specialize (IH now (S next)). destruct (spawn_timeouts ps now (S next)) as [sl sb]. cbn in *.
  constructor; [|exact IH]. cbn. repeat constructor.
Qed.

Lemma spawn_schedules_at : forall cfg now ss next, Forall (sub_at now) (snd (spawn_schedules cfg now ss next)).
Proof.
  induction ss as [|s ss IH]; intros next; cbn; [constructor|].
  destruct (schedule_child cfg now s) as [[pc extra]|].
  - specialize (IH (S next)). destruct (spawn_schedules cfg now ss (S next)) as [sl sb]. cbn in *. constructor; [exact I|exact IH].
  - specialize (IH next). destruct (spawn_schedules cfg now ss next) as [sl sb]. cbn in *. exact IH.
Qed.

Lemma spawn_sends_at : forall cfg now exp ts rs next, Forall (sub_at now) (snd (fst (spawn_sends cfg now exp ts rs next))).
Proof.
  induction ts as [|t ts IH]; intros rs next; cbn; [constructor|].
  destruct (now <? t_timeout t).
  - specialize (IH (tl rs) (S next)). destruct (spawn_sends cfg now exp ts (tl rs) (S next)) as [[sl sb] pre]. cbn in *.
    constructor; [exact I|exact IH].
  - specialize (IH (tl rs) next). destruct (spawn_sends cfg now exp ts (tl rs) next) as [[sl sb] pre]. cbn in *. exact IH.
Qed.


Lemma spawn_sends_pre_any : forall cfg now exp ts rs next now', Forall (cmd_at now') (snd (spawn_sends cfg now exp ts rs next)).
Proof.
  induction ts as [|t ts IH]; intros rs next now'; cbn; [constructor|].
  destruct (now <? t_timeout t).
  - specialize (IH (tl rs) (S next) now'). destruct (spawn_sends cfg now exp ts (tl rs) (S next)) as [[sl sb] pre]. cbn in *. exact IH.
  - specialize (IH (tl rs) next now'). destruct (spawn_sends cfg now exp ts (tl rs) next) as [[sl sb] pre]. cbn in *.
    constructor; [exact I|exact IH].
Qed.

Lemma spawn_sends_pre_at : forall cfg now exp ts rs next, Forall (cmd_at now) (snd (spawn_sends cfg now exp ts rs next)).
Proof.
  induction ts as [|t ts IH]; intros rs next; cbn; [constructor|].
  destruct (now <? t_timeout t).
  - specialize (IH (tl rs) (S next)). destruct (spawn_sends cfg now exp ts (tl rs) (S next)) as [[sl sb] pre]. cbn in *. exact IH.
  - specialize (IH (tl rs) next). destruct (spawn_sends cfg now exp ts (tl rs) next) as [[sl sb] pre]. cbn in *.
    constructor; [exact I|exact IH].
Qed.

Lemma spawn_timeouts_slots : forall ps now next, Forall extra_ok (fst (spawn_timeouts ps now next)).
Proof.
  induction ps as [|p ps IH]; intros now next; cbn; [constructor|].
  specialize (IH now (S next)). destruct (spawn_timeouts ps now (S next)) as [sl sb]. cbn in *. constructor; [exact I|exact IH].
Qed.
Lemma spawn_schedules_slots : forall cfg now ss next, Forall extra_ok (fst (spawn_schedules cfg now ss next)).
Proof.
  induction ss as [|s ss IH]; intros next; cbn; [constructor|].
  destruct (schedule_child cfg now s) as [[pc extra]|] eqn:E.
  - specialize (IH (S next)). destruct (spawn_schedules cfg now ss (S next)) as [sl sb]. cbn in *. constructor; [|exact IH].
    cbn. intros now'. unfold schedule_child in E. destruct (c_next cfg (s_cron s) (s_next s)); [|discriminate].
    destruct (expand _ _ _); [|discriminate]. inversion E; subst. repeat constructor.
  - specialize (IH next). destruct (spawn_schedules cfg now ss next) as [sl sb]. cbn in *. constructor; [exact I|exact IH].
Qed.
Lemma spawn_sends_slots : forall cfg now exp ts rs next, Forall extra_ok (fst (fst (spawn_sends cfg now exp ts rs next))).
Proof.
  induction ts as [|t ts IH]; intros rs next; cbn; [constructor|].
  destruct (now <? t_timeout t).
  - specialize (IH (tl rs) (S next)). destruct (spawn_sends cfg now exp ts (tl rs) (S next)) as [[sl sb] pre]. cbn in *. constructor; [exact I|exact IH].
  - specialize (IH (tl rs) next). destruct (spawn_sends cfg now exp ts (tl rs) next) as [[sl sb] pre]. cbn in *. constructor; [exact I|exact IH].
Qed.

Local Arguments spawn_timeouts : simpl never.
Local Arguments spawn_schedules : simpl never.
Local Arguments spawn_sends : simpl never.

Ltac close_emit :=
  match goal with
  | H : spawn_timeouts ?ps ?now ?next = (_, ?sb) |- Forall _ ?sb =>
    let H2 := fresh in pose proof (spawn_timeouts_at ps now next) as H2; rewrite H in H2; exact H2
  | H : spawn_schedules ?cfg ?now ?ss ?next = (_, ?sb) |- Forall _ ?sb =>
    let H2 := fresh in pose proof (spawn_schedules_at cfg now ss next) as H2; rewrite H in H2; exact H2
  | H : spawn_sends ?cfg ?now ?exp ?ts ?rs ?next = (_, ?sb, _) |- Forall _ ?sb =>
    let H2 := fresh in pose proof (spawn_sends_at cfg now exp ts rs next) as H2; rewrite H in H2; exact H2
  | H : spawn_sends ?cfg ?now ?exp ?ts ?rs ?next = (_, ?s :: ?sb, _) |- Forall _ (?s :: ?sb) =>
    let H2 := fresh in pose proof (spawn_sends_at cfg now exp ts rs next) as H2; rewrite H in H2; exact H2
  end.

Ltac map_cmds :=
  apply Forall_forall; let x := fresh "x" in let Hx := fresh "Hx" in
  intros x Hx; apply in_map_iff in Hx; destruct Hx as [? [? _]]; subst; cbn;
  repeat match goal with |- context [if ?b then _ else _] => destruct b end; cbn; auto.

Ltac close_slots :=
  match goal with
  | H : spawn_timeouts ?ps ?now ?next = (?sl, _) |- Forall extra_ok ?sl =>
    let H2 := fresh in pose proof (spawn_timeouts_slots ps now next) as H2; rewrite H in H2; exact H2
  | H : spawn_schedules ?cfg ?now ?ss ?next = (?sl, _) |- Forall extra_ok ?sl =>
    let H2 := fresh in pose proof (spawn_schedules_slots cfg now ss next) as H2; rewrite H in H2; exact H2
  | H : spawn_sends ?cfg ?now ?exp ?ts ?rs ?next = (?sl, _, _) |- Forall extra_ok ?sl =>
    let H2 := fresh in pose proof (spawn_sends_slots cfg now exp ts rs next) as H2; rewrite H in H2; exact H2
  end.

Lemma create_cmd_at : forall now pc tc c cmd tc', create_cmd pc tc c = Some (cmd, tc') -> cmd_at now cmd.
Proof.
  intros now pc tc c cmd tc' H. unfold create_cmd in H.
  destruct c; try (destruct tc; inversion H; subst; exact I).
  destruct recv; destruct tc; inversion H; subst; exact I.
Qed.

Lemma start_req_ok : forall q now next, out_ok now (start_req q now next).
Proof.
  intros q now next. destruct q; cbn; try (split; [repeat constructor|exact I]).
  destruct (String.eqb pid root); cbn; (split; [repeat constructor|exact I]).
Qed.

Lemma start_bg_ok : forall cfg b now next, out_ok now (start_bg cfg b now next).
Proof. intros cfg b now next. destruct b; cbn; (split; [repeat constructor|exact I]). Qed.

Lemma resume_seq_ok : forall cfg k c now next, out_ok now (resume_seq cfg k c now next).
Proof.
  intros cfg k c now next.
  destruct k; cbn; repeat (head_split; cbn); try apply start_req_ok;
    (split; cbn; [|try exact I; try (split; [close_slots|try exact I])]); try (repeat constructor; fail); try close_emit.
  all: try (repeat constructor; eapply create_cmd_at; eassumption).
  all: try (repeat constructor; destruct (_ =? _)%string; repeat constructor; fail).
  all: try (repeat constructor; map_cmds; fail).
  all: try (match goal with H : spawn_sends ?cfg ?now ?exp ?ts ?rs ?next = (_, _, ?pre) |- Forall _ [SStore ?pre] =>
      pose proof (spawn_sends_pre_at cfg now exp ts rs next) as H2; rewrite H in H2; cbn in H2 end;
    repeat constructor; inversion H2; assumption).
  all: try (repeat constructor; [destruct (now <? _); exact I|map_cmds]; fail).
  all: try (intros now'; match goal with H : spawn_sends ?cfg ?now ?exp ?ts ?rs ?next = (_, _, ?pre) |- Forall _ ?pre =>
      pose proof (spawn_sends_pre_any cfg now exp ts rs next now') as H2; rewrite H in H2; exact H2 end).
Qed.

Lemma wake_slot_at : forall s c next now, extra_ok s -> Forall (sub_at now) (snd (wake_slot s c next)).
Proof.
  intros s c next now He. destruct s; cbn; try constructor.
  destruct (create_cmd pc None c) as [[cmd tc]|] eqn:E; cbn; [|constructor].
  repeat constructor; [eapply create_cmd_at; eassumption|apply He].
Qed.

Lemma wake_slot_extra : forall s c next, extra_ok s -> extra_ok (fst (wake_slot s c next)).
Proof.
  intros s c next He. destruct s; cbn; auto. destruct (create_cmd pc None c) as [[cmd tc]|]; cbn; exact I.
Qed.

Lemma set_nth_forall : forall {A} (P : A -> Prop) i x l, Forall P l -> P x -> Forall P (set_nth i x l).
Proof.
  induction i as [|i IH]; intros x l Hl Hx; destruct l as [|y l]; cbn; try constructor; inversion Hl; subst; auto.
Qed.

Lemma nth_error_forall : forall {A} (P : A -> Prop) l i x, Forall P l -> nth_error l i = Some x -> P x.
Proof. intros A P l i x Hl H. eapply Forall_forall; [exact Hl|]. eapply nth_error_In; eassumption. Qed.

Lemma run_wake_at : forall wake slots dl next now,
    Forall extra_ok slots ->
    let '(sl, w, rq, sb, nx) := run_wake wake slots dl next in Forall (sub_at now) sb /\ Forall extra_ok sl.
Proof.
  induction wake as [|i wake IH]; intros slots dl next now He; cbn; [split; [constructor|exact He]|].
  destruct (nth_error slots i) as [s|] eqn:En; [|apply IH; exact He].
  destruct (find (fun d => slot_waits (fst d) s) dl) as [d|].
  - pose proof (wake_slot_at s (snd d) next now (nth_error_forall _ _ _ _ He En)) as Hw.
    pose proof (wake_slot_extra s (snd d) next (nth_error_forall _ _ _ _ He En)) as Hx.
    destruct (wake_slot s (snd d) next) as [s' subs]. cbn in Hw, Hx.
    specialize (IH (set_nth i s' slots) dl (next + List.length subs)%nat now (set_nth_forall _ _ _ _ He Hx)).
    destruct (run_wake wake (set_nth i s' slots) dl (next + List.length subs)%nat) as [[[[sl w] rq] sb] nx].
    destruct IH as [IH1 IH2]. destruct s'; (split; [apply Forall_app; split; assumption|assumption]).
  - specialize (IH slots dl next now He). destruct (run_wake wake slots dl next) as [[[[sl w] rq] sb] nx]. exact IH.
Qed.

Lemma enq_final_at : forall ts now0 exp slots now, Forall (cmd_at now) (enq_final ts now0 exp slots).
Proof.
  induction ts as [|t ts IH]; intros now0 exp slots now; cbn; [constructor|].
  destruct slots as [|s sl]; [constructor|]. destruct s; try apply IH.
  destruct (now0 <? t_timeout t); [|apply IH]. constructor; [|apply IH].
  unfold enq_update. destruct (is_notify t); [exact I|]. destruct c; try exact I. destruct ok; exact I.
Qed.

Lemma run_fan_ok : forall cfg k slots wake dl now next,
    Forall extra_ok slots -> fk_ok k -> out_ok now (run_fan cfg k slots wake dl now next).
Proof.
  intros cfg k slots wake dl now next He Hk. unfold run_fan.
  pose proof (run_wake_at wake slots dl next now He) as Hw.
  destruct (run_wake wake slots dl next) as [[[[sl w] rq] sb] nx]. destruct Hw as [Hsb Hsl].
  destruct k.
  - destruct (await_in_order true sl); cbn; try (split; [assumption|cbn; auto]).
    pose proof (start_req_ok (QSearchPromises idq states tags limit sortid) now nx) as [H1 H2].
    split; cbn; [apply Forall_app; split; assumption|assumption].
  - destruct (await_in_order false sl); cbn; (split; [assumption|cbn; auto]).
  - destruct (await_in_order false sl); cbn; (split; [assumption|cbn; auto]).
  - destruct (await_in_order false sl); cbn; try (split; [assumption|cbn; auto]).
    destruct (pre ++ enq_final ts now0 exp sl)%list eqn:E; cbn; (split; [|cbn; auto]); [assumption|].
    apply Forall_app; split; [assumption|]. constructor; [|constructor]. cbn. rewrite <- E.
    apply Forall_app; split; [apply Hk|apply enq_final_at].
Qed.

Lemma run_inst_ok : forall cfg st dl now next, st_ok st -> out_ok now (run_inst cfg st dl now next).
Proof.
  intros cfg st dl now next Hs. destruct st; cbn.
  - destruct (find _ dl); [apply resume_seq_ok|]. split; cbn; [constructor|exact I].
  - destruct Hs. apply run_fan_ok; assumption.
  - split; cbn; [constructor|exact I].
Qed.
