(* Emission discipline: what every submission a coroutine hands to the AIO satisfies at the tick it is
   emitted, relative to the durable state at that moment; and the state invariant of coroutine instances
   (the promise records a coroutine holds are rows of the database, up to completion). *)
From RV Require Import Mon StoreLocks StorePromises.
From Coq Require Import Lia.

(* ---------- records a coroutine holds vs. rows ---------- *)

Definition ceq (p q : promise) : Prop :=
  p_id p = p_id q /\ p_ph p = p_ph q /\ p_pd p = p_pd q /\ p_timeout p = p_timeout q /\
  p_ikc p = p_ikc q /\ p_tags p = p_tags q /\ p_created p = p_created q.

Definition compl_eq (p q : promise) : Prop :=
  p_state p = p_state q /\ p_vh p = p_vh q /\ p_vd p = p_vd q /\ p_iku p = p_iku q /\ p_completed p = p_completed q.

(* p is (a possibly older view of) a row of d: creation fields agree; if p shows a completed state the
   completion fields agree too (write-once) *)
Definition prec (d : db) (p : promise) : Prop :=
  exists q, In q (promises d) /\ ceq p q /\ (p_state p <> Pending -> compl_eq p q).

Lemma prec_mono : forall d d' p, prom_le d d' -> prec d p -> prec d' p.
Proof.
  intros d d' p [A _] [q [Hq [C K]]]. destruct (A q Hq) as [q' [Hq' [Cq [Nq Pq]]]].
  exists q'. split; [exact Hq'|]. split.
  - unfold ceq, creation_eq in *. destruct C as (a&b&c&e&f&g&h), Cq as (a'&_&b'&c'&e'&f'&g'&h'). repeat split; congruence.
  - intros Hn. specialize (K Hn). assert (Hqn : p_state q <> Pending) by (destruct K as [K1 _]; congruence).
    rewrite (Nq Hqn). exact K.
Qed.

Lemma prec_of_row : forall d q, In q (promises d) -> prec d (p_unsorted q) /\ prec d q.
Proof.
  intros d q Hq. split; exists q; (split; [exact Hq|]); (split; [unfold ceq; cbn; tauto|intros _; unfold compl_eq; cbn; tauto]).
Qed.

(* ---------- what an UpdatePromise command must look like relative to the row it names ---------- *)

Definition user_state (s : Z) : bool := (s =? Resolved) || (s =? Rejected) || (s =? Canceled).

Definition up_ok (d : db) (now : Z) (u : update_promise_cmd) : Prop :=
  exists q, In q (promises d) /\ p_id q = up_id u /\
    ((up_completed u = p_timeout q /\ p_timeout q <= now /\ up_state u = timedout_state (p_tags q) /\
      up_vh u = [] /\ up_vd u = EmptyString /\ up_ikey u = None) \/
     (up_completed u = now /\ now < p_timeout q /\ user_state (up_state u) = true)).

Lemma up_ok_mono : forall d d' now u, prom_le d d' -> up_ok d now u -> up_ok d' now u.
Proof.
  intros d d' now u [A _] [q [Hq [Hid H]]]. destruct (A q Hq) as [q' [Hq' [Cq _]]].
  destruct Cq as (a&_&b&c&e&f&g&h). exists q'. split; [exact Hq'|]. split; [congruence|].
  rewrite <- e, <- g. destruct H as [H|H]; [left|right]; intuition lia.
Qed.

Lemma timedout_state_final : forall tags, final_state (timedout_state tags) = true.
Proof. intros tags. unfold timedout_state. destruct (opt_eqb _ _ _); reflexivity. Qed.

Lemma user_state_final : forall s, user_state s = true -> final_state s = true.
Proof. intros s H. unfold user_state, final_state in *. rewrite H. reflexivity. Qed.

Lemma up_ok_final : forall d now u, up_ok d now u -> final_state (up_state u) = true.
Proof.
  intros d now u [q [_ [_ [H|H]]]].
  - destruct H as (_&_&->&_). apply timedout_state_final.
  - apply user_state_final. tauto.
Qed.

(* ---------- emission discipline ---------- *)

(* the shapes of the UpdateTask commands coroutines issue: the guard names active states only, the counter
   never goes down and goes up (by one) only when a lease sweep puts an enqueued/claimed task back to init *)
Definition active_state (s : Z) : Prop := s = TInit \/ s = TEnqueued \/ s = TClaimed.
Definition ut_shape (u : update_task_cmd) : Prop :=
  Forall active_state (ut_cur_states u) /\
  ((ut_counter u = ut_cur_counter u) \/
   (ut_counter u = ut_cur_counter u + 1 /\ ut_state u = TInit /\
    exists s, ut_cur_states u = [s] /\ (s = TEnqueued \/ s = TClaimed))) /\
  (ut_state u = TClaimed -> ut_cur_states u = [TInit; TEnqueued] /\ ut_pid u <> None /\ ut_counter u = ut_cur_counter u) /\
  (ut_state u = TCompleted -> ut_cur_states u = [TClaimed] \/ ut_cur_states u = [TInit]) /\
  (ut_state u = TEnqueued -> ut_cur_states u = [TInit]) /\
  (ut_state u = TInit -> ut_counter u = ut_cur_counter u -> ut_cur_states u = [TInit]) /\
  (ut_state u = TTimedout -> ut_counter u = ut_cur_counter u) /\
  (ut_state u = TInit \/ ut_state u = TEnqueued \/ ut_state u = TClaimed \/ ut_state u = TCompleted \/ ut_state u = TTimedout).

Definition valid_tstate (s : Z) : Prop := s = TInit \/ s = TEnqueued \/ s = TClaimed \/ s = TCompleted \/ s = TTimedout.

Definition cmd_at (d : db) (now : Z) (c : command) : Prop :=
  match c with
  | UpdateTask u => ut_shape u /\ (ut_state u = TClaimed -> ut_exp u = add64 now (ut_ttl u))
  | CreateTask tc => ct_state tc = TInit \/ ct_state tc = TClaimed
  | CreatePromiseAndTask _ tc => ct_state tc = TInit \/ ct_state tc = TClaimed
  | TimeoutLocks t => t = now
  | HeartbeatLocks _ t => t = now
  | HeartbeatTasks _ t => t = now
  | ReadPromises t _ => t = now
  | ReadSchedules t _ => t = now
  | ReadTasks _ t _ => t = now
  | AcquireLock _ _ _ ttl exp => exp = add64 now ttl
  | CompleteTasks _ t => t = now
  | CreateTasks _ t => t = now
  | UpdatePromise u => up_ok d now u
  | _ => True
  end.

Definition sub_at (d : db) (now : Z) (s : sub) : Prop :=
  match s with
  | SStore cs => Forall (cmd_at d now) cs /\ txn_shape cs
  | SSender m => match sd_promise m with Some p => prec d p | None => True end
  | SRouter _ => True
  end.

(* time-independent commands (stored inside coroutine state and emitted at a later tick) *)
Definition cmd_any (c : command) : Prop :=
  match c with
  | TimeoutLocks _ | HeartbeatLocks _ _ | HeartbeatTasks _ _ | ReadPromises _ _ | ReadSchedules _ _ | ReadTasks _ _ _
  | AcquireLock _ _ _ _ _ | CompleteTasks _ _ | CreateTasks _ _ | UpdatePromise _ | DeleteCallbacks _ => False
  | UpdateTask u => ut_shape u /\ ut_state u <> TClaimed
  | CreateTask tc => ct_state tc = TInit \/ ct_state tc = TClaimed
  | CreatePromiseAndTask _ tc => ct_state tc = TInit \/ ct_state tc = TClaimed
  | _ => True
  end.

Lemma cmd_any_at : forall d now c, cmd_any c -> cmd_at d now c.
Proof. intros d now c H. destruct c; cbn in *; try contradiction; try exact I; try exact H. destruct H as [H1 H2]. split; [exact H1|]. intros E. contradiction. Qed.

(* ---------- completions ---------- *)

Definition res_ok (d : db) (r : result) : Prop :=
  match r with RPromises _ _ recs => Forall (prec d) recs | _ => True end.
Definition cpl_ok (d : db) (c : cpl) : Prop :=
  match c with CStore rs => Forall (res_ok d) rs | _ => True end.

Lemma res_ok_mono : forall d d' r, prom_le d d' -> res_ok d r -> res_ok d' r.
Proof.
  intros d d' r L H. destruct r; cbn in *; try exact I. eapply Forall_impl; [|exact H]. intros p. apply prec_mono; exact L.
Qed.
Lemma cpl_ok_mono : forall d d' c, prom_le d d' -> cpl_ok d c -> cpl_ok d' c.
Proof.
  intros d d' c L H. destruct c; cbn in *; try exact I. eapply Forall_impl; [|exact H]. intros r. apply res_ok_mono; exact L.
Qed.

(* ---------- requests as the front ends let them through ---------- *)

Definition req_wf (q : request) : Prop :=
  match q with
  | QCompletePromise r => user_state (cmr_state r) = true
  | _ => True
  end.

(* ---------- coroutine state invariant ---------- *)

Definition tc_ok (o : option create_task_cmd) : Prop :=
  match o with Some tc => ct_state tc = TInit \/ ct_state tc = TClaimed | None => True end.

(* a create-with-task request (wt) carries its task command through every program point *)
Definition wtc_ok (wt : bool) (o : option create_task_cmd) : Prop := tc_ok o /\ (wt = true -> o <> None).

Definition k_ok (d : db) (k : kont) : Prop :=
  match k with
  | KReadP_to _ p cmd => prec d p /\ up_id cmd = p_id p /\ final_state (up_state cmd) = true
  | KCreate _ tc wt => wtc_ok wt tc
  | KCreate_router _ tc wt _ => wtc_ok wt tc
  | KCreate_store _ tc0 wt _ tc => wtc_ok wt tc0 /\ wtc_ok wt tc
  | KCreate_to _ tc wt p cmd => (prec d p /\ up_id cmd = p_id p /\ final_state (up_state cmd) = true) /\ wtc_ok wt tc
  | KComplete r => user_state (cmr_state r) = true
  | KComplete_up r p cmd _ => prec d p /\ up_id cmd = p_id p /\ user_state (cmr_state r) = true /\ final_state (up_state cmd) = true
  | KCallback_ins p _ => prec d p
  | _ => True
  end.

Definition extra_ok (s : slot) : Prop :=
  match s with SlRouter _ _ extra => Forall cmd_any extra | _ => True end.
Definition fk_ok (k : fkont) : Prop :=
  match k with FBgEnqueue _ _ _ pre => Forall cmd_any pre | _ => True end.
Definition st_ok (d : db) (st : cstate) : Prop :=
  match st with
  | CSeq k _ => k_ok d k
  | CFan k slots _ => Forall extra_ok slots /\ fk_ok k
  | CDone => True
  end.

Lemma k_ok_mono : forall d d' k, prom_le d d' -> k_ok d k -> k_ok d' k.
Proof.
  intros d d' k L H. destruct k; cbn in *; try exact H; try (eapply prec_mono; eassumption);
    try (destruct H as [[H1 H2] H3]; split; [split; [eapply prec_mono; eassumption|assumption]|assumption]);
    destruct H; (split; [eapply prec_mono; eassumption|assumption]).
Qed.
Lemma st_ok_mono : forall d d' st, prom_le d d' -> st_ok d st -> st_ok d' st.
Proof. intros d d' st L H. destruct st; cbn in *; try exact H. eapply k_ok_mono; eassumption. Qed.

Lemma cmd_at_mono_db : forall d d' now c, prom_le d d' -> cmd_at d now c -> cmd_at d' now c.
Proof. intros d d' now c L H. destruct c; cbn in *; try exact H. apply (up_ok_mono d d' now _ L H). Qed.
Lemma sub_at_mono_db : forall d d' now s, prom_le d d' -> sub_at d now s -> sub_at d' now s.
Proof.
  intros d d' now s L H. destruct s; cbn in *; try exact I.
  - destruct H as [H Hsh]. split; [|exact Hsh]. eapply Forall_impl; [|exact H]. intros c. apply cmd_at_mono_db; exact L.
  - destruct (sd_promise m); [eapply prec_mono; eassumption|exact I].
Qed.

Lemma any_no_up : forall cs, Forall cmd_any cs -> Forall (fun c => is_up c = false) cs.
Proof. intros cs H. eapply Forall_impl; [|exact H]. intros c Hc. destruct c; cbn in *; try reflexivity; contradiction. Qed.




(* ---------- results vs. the commands they answer ---------- *)

Definition ucompl (u : update_promise_cmd) (q : promise) : Prop :=
  p_state q = up_state u /\ p_vh q = up_vh u /\ p_vd q = up_vd u /\ p_iku q = up_ikey u /\
  p_completed q = Some (up_completed u) /\ final_state (up_state u) = true.

Definition res_for (d : db) (c : command) (r : result) : Prop :=
  match c, r with
  | ReadPromise id, RPromises _ _ recs => Forall (fun p => prec d p /\ p_id p = id) recs
  | ReadPromises _ _, RPromises _ _ recs => Forall (prec d) recs
  | SearchPromises _ _ _ _ _, RPromises _ _ recs => Forall (prec d) recs
  | UpdatePromise u, RAlter n => n = 1 -> exists q, In q (promises d) /\ p_id q = up_id u /\ ucompl u q
  | ReadTasks st _ _, RTasks _ recs => Forall (fun t => in_mask (t_state t) (mask_of st) = true /\ valid_tstate (t_state t)) recs
  | CreatePromise pc, _ => exists n, r = RAlter n /\ (n = 0 \/ prec d (created_promise pc))
  | CreatePromiseAndTask pc _, _ => exists n m, r = RAlter2 n m /\ (n = 0 \/ prec d (created_promise pc))
  | _, _ => True
  end.

Definition rdy_ok (d : db) (s : sub) (c : cpl) : Prop :=
  match s, c with
  | SStore cs, CStore rs => Forall2 (res_for d) cs rs
  | _, _ => True
  end.

Lemma res_for_mono : forall d d' c r, prom_le d d' -> res_for d c r -> res_for d' c r.
Proof.
  intros d d' c r L H.
  destruct c; try exact H;
    try (cbn in *; destruct H as [n [E [H|H]]]; exists n; (split; [exact E|]); [left; exact H|right; eapply prec_mono; eassumption]);
    try (cbn in *; destruct H as [n [m [E [H|H]]]]; exists n, m; (split; [exact E|]); [left; exact H|right; eapply prec_mono; eassumption]);
    destruct r; cbn in *; try exact I; try exact H.
  - eapply Forall_impl; [|exact H]. intros p [Hp Hi]. split; [eapply prec_mono; eassumption|exact Hi].
  - eapply Forall_impl; [|exact H]. intros p. apply prec_mono; exact L.
  - eapply Forall_impl; [|exact H]. intros p. apply prec_mono; exact L.
  - intros Hn. destruct (H Hn) as [q [Hq [Hid U]]]. destruct L as [A _]. destruct (A q Hq) as [q' [Hq' [Cq [Nq _]]]].
    assert (Hne : p_state q <> Pending).
    { destruct U as (s1&_&_&_&_&s6). rewrite s1. apply final_not_pending. exact s6. }
    rewrite (Nq Hne) in Hq'. exists q. tauto.
Qed.

Lemma rdy_ok_mono : forall d d' s c, prom_le d d' -> rdy_ok d s c -> rdy_ok d' s c.
Proof.
  intros d d' s c L H. destruct s, c; cbn in *; try exact I.
  induction H; constructor; [eapply res_for_mono; eassumption|assumption].
Qed.

(* ---------- what a sequential coroutine is waiting for ---------- *)

Definition k_expects (k : kont) (s : sub) : Prop :=
  match k with
  | KReadP id => s = SStore [ReadPromise id]
  | KCreate r _ _ => s = SStore [ReadPromise (cpr_id r)]
  | KComplete r => s = SStore [ReadPromise (cmr_id r)]
  | KCallback pid _ _ _ _ => s = SStore [ReadPromise pid]
  | KCallback_reread pid => s = SStore [ReadPromise pid]
  | KCallback_ins _ cc => s = SStore [CreateCallback cc]
  | KReadP_to _ _ cmd => exists t, s = SStore (completion_txn cmd t)
  | KCreate_to _ _ _ _ cmd => exists t, s = SStore (completion_txn cmd t)
  | KComplete_up _ _ cmd _ => exists t, s = SStore (completion_txn cmd t)
  | KSearchP q st tg lim sid => s = SStore [SearchPromises q st tg lim sid]
  | KBgTimeoutP => exists t l, s = SStore [ReadPromises t l]
  | KBgTimeoutT => exists t l, s = SStore [ReadTasks [TEnqueued; TClaimed] t l]
  | KCreate_store _ _ _ pc tc => match tc with Some t => s = SStore [CreatePromiseAndTask pc t] | None => s = SStore [CreatePromise pc] end
  | KClaim_read t =>
    s = SStore (ReadPromise (m_root (t_mesg t)) ::
                (if String.eqb (m_type (t_mesg t)) "resume" then [ReadPromise (m_leaf (t_mesg t))] else []))
  | KBgEnqueue_promises ts => s = SStore (map (fun t => ReadPromise (t_root t)) ts)
  | _ => True
  end.

(* a new state that awaits submission n awaits one of the submissions emitted in this very step *)
Definition link_ok (next : nat) (o : step_out) : Prop :=
  match o_state o with
  | CSeq k n => (next <= n)%nat /\ exists s, nth_error (o_subs o) (n - next) = Some s /\ k_expects k s
  | _ => True
  end.

(* every promise body a response shows is (a view of) a durable row *)
Definition opt_list {A} (o : option A) : list A := match o with Some x => [x] | None => [] end.
Definition resp_promises (r : response) : list promise :=
  match r with
  | RspPromise _ p => opt_list p
  | RspPromiseTask _ p _ => opt_list p
  | RspSearchP _ ps _ => ps
  | RspCallback _ p _ => opt_list p
  | RspClaim _ _ rp lp _ _ => opt_list rp ++ opt_list lp
  | _ => []
  end.
Definition resp_ok (d : db) (r : option response) : Prop :=
  match r with Some x => Forall (prec d) (resp_promises x) | None => True end.

(* no read / create / complete / search answer shows a promise pending once the clock has reached its timeout
   (except the answer 20100 to the create itself: DESIGN D12) *)
Definition timed_bodies (r : response) : list promise :=
  match r with
  | RspPromise _ p => opt_list p
  | RspPromiseTask _ p _ => opt_list p
  | RspSearchP _ ps _ => ps
  | _ => []
  end.
Definition resp_t (now : Z) (r : option response) : Prop :=
  match r with
  | Some x => status_of x = 20100 \/ Forall (fun p => p_state p = Pending -> now < p_timeout p) (timed_bodies x)
  | None => True
  end.

Definition out_ok (d : db) (now : Z) (next : nat) (o : step_out) : Prop :=
  Forall (sub_at d now) (o_subs o) /\ st_ok d (o_state o) /\ link_ok next o /\ resp_ok d (o_resp o) /\ resp_t now (o_resp o).

Lemma out_wait_ok : forall d now next k s,
    sub_at d now s -> k_ok d k -> k_expects k s -> out_ok d now next (out_wait k next s).
Proof.
  intros d now next k s Hs Hk He. unfold out_ok, out_wait, link_ok; cbn. split; [repeat constructor; exact Hs|].
  split; [exact Hk|]. split; [|split; exact I]. split; [lia|]. exists s. rewrite Nat.sub_diag. cbn. split; [reflexivity|exact He].
Qed.

Lemma out_fin_ok : forall d now next r,
    Forall (prec d) (resp_promises r) ->
    (status_of r = 20100 \/ Forall (fun p => p_state p = Pending -> now < p_timeout p) (timed_bodies r)) ->
    out_ok d now next (out_fin r).
Proof. intros. unfold out_ok, out_fin, link_ok; cbn. split; [constructor|split; [exact I|split; [exact I|split; assumption]]]. Qed.

Lemma out_fin_nil : forall d now next r, resp_promises r = [] -> timed_bodies r = [] -> out_ok d now next (out_fin r).
Proof. intros d now next r E E2. apply out_fin_ok; [rewrite E; constructor|right; rewrite E2; constructor]. Qed.

Lemma not_overdue : forall now p, overdue now p = false -> p_state p = Pending -> now < p_timeout p.
Proof.
  intros now p H Hp. unfold overdue in H. rewrite Hp in H. cbn in H. apply Z.leb_gt in H. exact H.
Qed.

Lemma merged_not_pending : forall p cmd, final_state (up_state cmd) = true -> p_state (merged p cmd) = Pending -> False.
Proof. intros p cmd Hf H. cbn in H. apply (final_not_pending _ Hf). exact H. Qed.

(* ---------- facts a coroutine learns from a delivered completion ---------- *)

Lemma read_fact : forall d id c p,
    rdy_ok d (SStore [ReadPromise id]) c -> one_promise c = Some (Some p) -> prec d p /\ p_id p = id.
Proof.
  intros d id c p H Ho. destruct c; cbn in Ho; try discriminate. destruct rs as [|r rs]; [discriminate|].
  destruct r; try discriminate. cbn in H. inversion H; subst. cbn in H3.
  destruct recs as [|x recs]; cbn in Ho; [discriminate|]. inversion Ho; subst. inversion H3; subst. exact H2.
Qed.

Lemma timeout_cmd_ok : forall d now p, prec d p -> overdue now p = true -> up_ok d now (timeout_cmd p).
Proof.
  intros d now p [q [Hq [C _]]] Ho. unfold overdue in Ho. apply andb_true_iff in Ho. destruct Ho as [_ Ho].
  apply Z.leb_le in Ho. destruct C as (a&b&c&e&f&g&h). exists q. split; [exact Hq|]. split; [cbn; congruence|].
  left. cbn. rewrite <- e, <- g. tauto.
Qed.

Lemma completion_txn_at : forall d now cmd, up_ok d now cmd -> sub_at d now (SStore (completion_txn cmd now)).
Proof. intros d now cmd H. cbn. split; [repeat constructor; cbn; auto|left; eauto]. Qed.

(* ---------- start ---------- *)

(* a store submission whose commands are all listed explicitly and contain no UpdatePromise *)
Ltac sub_store := cbn; split; [repeat constructor; auto | right; repeat constructor].
Ltac wtc := unfold wtc_ok; cbn; split; [auto | intros Hwt; try discriminate Hwt; intros Hc; discriminate Hc].
Ltac wait_ok := apply out_wait_ok; [sub_store | first [solve [cbn; auto] | solve [cbn; wtc] | cbn; auto] | cbn; eauto].
Ltac timed :=
  first [ left; reflexivity
        | right; cbn; repeat constructor; intros;
          first [ eapply not_overdue; eassumption
                | exfalso; eapply merged_not_pending; eassumption
                | match goal with E : (p_state ?p =? Pending) = false, H : p_state ?p = Pending |- _ =>
                    rewrite H in E; cbn in E; discriminate end ] ].
Ltac fin := first [apply out_fin_nil; reflexivity | (apply out_fin_ok; [cbn; repeat constructor; auto | timed]; fail)].
Ltac fin1 := apply out_fin_ok; [cbn; repeat constructor; auto | timed].

Lemma start_req_ok : forall d q now next, req_wf q -> out_ok d now next (start_req q now next).
Proof.
  intros d q now next Hq. destruct q; cbn; try (wait_ok; fail).
  destruct (String.eqb pid root); [fin|]. wait_ok.
Qed.

Lemma start_bg_ok : forall d cfg b now next, out_ok d now next (start_bg cfg b now next).
Proof. intros d cfg b now next. destruct b; cbn; wait_ok. Qed.

Lemma prec_unsorted : forall d p, prec d p -> prec d (p_unsorted p).
Proof. intros d p [q [Hq [C K]]]. exists q. split; [exact Hq|]. split; [exact C|exact K]. Qed.

Lemma prom_uniq_same : forall d q q', prom_uniq d -> In q (promises d) -> In q' (promises d) -> p_id q = p_id q' -> q = q'.
Proof.
  intros d q q' U. unfold prom_uniq in U. revert U. generalize (promises d) as ps.
  induction ps as [|x ps IH]; cbn; intros U Hq Hq' E; [contradiction|]. inversion U; subst.
  destruct Hq as [Hq|Hq], Hq' as [Hq'|Hq']; subst; auto.
  - exfalso. apply H1. rewrite E. apply in_map. exact Hq'.
  - exfalso. apply H1. rewrite <- E. apply in_map. exact Hq.
Qed.

(* the body a coroutine builds after its conditional update took effect is the durable row *)
Lemma merged_prec : forall d p cmd,
    prom_uniq d -> prec d p -> up_id cmd = p_id p ->
    (exists q, In q (promises d) /\ p_id q = up_id cmd /\ ucompl cmd q) -> prec d (merged p cmd).
Proof.
  intros d p cmd U [q' [Hq' [C _]]] Hid [q [Hq [Hqid Hu]]].
  assert (q = q') by (eapply prom_uniq_same; eauto; destruct C as (a&_); congruence). subst q'.
  exists q. split; [exact Hq|]. split.
  - unfold ceq in *. cbn. tauto.
  - intros _. unfold compl_eq, ucompl in *. cbn. destruct Hu as (a&b&c&e&f&g). repeat split; congruence.
Qed.

Lemma alter_fact : forall d cmd t c n,
    rdy_ok d (SStore (completion_txn cmd t)) c -> one_alter c = Some n -> n = 1 ->
    exists q, In q (promises d) /\ p_id q = up_id cmd /\ ucompl cmd q.
Proof.
  intros d cmd t c n H Ho Hn. destruct c; cbn in Ho; try discriminate. destruct rs as [|r rs]; [discriminate|].
  destruct r; try discriminate. inversion Ho; subst. cbn in H. inversion H; subst. cbn in H3. apply H3. reflexivity.
Qed.

(* ---------- the promise coroutines, one lemma per program point ---------- *)

Section Resume.
  Variable cfg : config.
  Variable d : db.
  Variable now : Z.
  Variable next : nat.
  Hypothesis Ud : prom_uniq d.

  Lemma r_KReadP : forall id s c, k_expects (KReadP id) s -> rdy_ok d s c -> out_ok d now next (resume_seq cfg (KReadP id) c now next).
  Proof.
    intros id s c He Hr. cbn in He. subst s. cbn.
    destruct (one_promise c) as [[p|]|] eqn:E; try fin.
    destruct (read_fact d id c p Hr E) as [Hp Hid].
    destruct (overdue now p) eqn:Eo; [|fin].
    apply out_wait_ok; [apply completion_txn_at; apply timeout_cmd_ok; assumption|cbn; repeat split; auto; apply timedout_state_final|cbn; eauto].
  Qed.

  Lemma r_KReadP_to : forall id p cmd s c, k_ok d (KReadP_to id p cmd) -> k_expects (KReadP_to id p cmd) s -> rdy_ok d s c ->
                                           out_ok d now next (resume_seq cfg (KReadP_to id p cmd) c now next).
  Proof.
    intros id p cmd s c [Hp [Hid Hfin]] [t He] Hr. subst s. cbn. destruct (one_alter c) as [n|] eqn:Eo; [|fin].
    destruct (n =? 1) eqn:En; [|exact (start_req_ok d (QReadPromise id) now next I)].
    apply Z.eqb_eq in En. fin1. apply merged_prec; auto. eapply alter_fact; eassumption.
  Qed.

  Lemma r_KCreate : forall r tc wt s c, k_ok d (KCreate r tc wt) -> k_expects (KCreate r tc wt) s -> rdy_ok d s c ->
                                        out_ok d now next (resume_seq cfg (KCreate r tc wt) c now next).
  Proof.
    intros r tc wt s c Htc He Hr. cbn in He, Htc. subst s. cbn.
    destruct (one_promise c) as [[p|]|] eqn:E; try fin.
    - destruct (read_fact d _ c p Hr E) as [Hp Hid].
      destruct (overdue now p) eqn:Eo; [|destruct wt; fin].
      apply out_wait_ok; [apply completion_txn_at; apply timeout_cmd_ok; assumption| |cbn; eauto].
      cbn. split; [repeat split; auto; apply timedout_state_final|exact Htc].
    - apply out_wait_ok; cbn; auto.
  Qed.

  Lemma create_cmd_any : forall pc tc c cmd tc', tc_ok tc -> create_cmd pc tc c = Some (cmd, tc') -> cmd_any cmd /\ tc_ok tc'.
  Proof.
    intros pc tc c cmd tc' Htc H. unfold create_cmd in H.
    destruct c; try (destruct tc; inversion H; subst; split; exact I).
    destruct recv; destruct tc; inversion H; subst; cbn; try (split; exact I); split; cbn in *; auto.
  Qed.

  Lemma create_cmd_shape : forall pc tc c cmd tc', create_cmd pc tc c = Some (cmd, tc') ->
                                                   match tc' with
                                                   | Some t => cmd = CreatePromiseAndTask pc t
                                                   | None => cmd = CreatePromise pc /\ tc = None
                                                   end.
  Proof.
    intros pc tc c cmd tc' H. unfold create_cmd in H.
    destruct c; try (destruct tc; inversion H; subst; auto; fail).
    destruct recv; destruct tc; inversion H; subst; auto.
  Qed.

  Lemma r_KCreate_router : forall r tc wt pc c, k_ok d (KCreate_router r tc wt pc) ->
                                               out_ok d now next (resume_seq cfg (KCreate_router r tc wt pc) c now next).
  Proof.
    intros r tc wt pc c Htc. cbn in Htc. cbn. destruct (create_cmd pc tc c) as [[cmd tc']|] eqn:E; [|fin].
    destruct (create_cmd_any _ _ _ _ _ (proj1 Htc) E) as [Hany Htc'].
    pose proof (create_cmd_shape _ _ _ _ _ E) as Hsh.
    apply out_wait_ok; cbn.
    - split; [repeat constructor; apply cmd_any_at; exact Hany|right; apply any_no_up; repeat constructor; exact Hany].
    - split; [exact Htc|]. split; [exact Htc'|]. intros Hwt. destruct tc' as [t|]; [discriminate|].
      destruct Hsh as [_ Hn]. exfalso. exact (proj2 Htc Hwt Hn).
    - destruct tc' as [t|]; [rewrite Hsh; reflexivity|rewrite (proj1 Hsh); reflexivity].
  Qed.

  Lemma req_of_create_ok : forall r tc wt, wtc_ok wt tc -> out_ok d now next (req_of_create r tc wt now next).
  Proof. intros r tc wt H. unfold req_of_create. apply out_wait_ok; [sub_store|exact H|cbn; eauto]. Qed.

  Lemma r_KCreate_store : forall r tc0 wt pc tc s c, k_ok d (KCreate_store r tc0 wt pc tc) -> k_expects (KCreate_store r tc0 wt pc tc) s -> rdy_ok d s c ->
                                                     out_ok d now next (resume_seq cfg (KCreate_store r tc0 wt pc tc) c now next).
  Proof.
    intros r tc0 wt pc tc s c [Htc0 Htc] He Hr. cbn in He. cbn. destruct c; try fin. destruct rs as [|x rs]; [fin|].
    destruct x; try fin.
    - destruct wt; [fin|]. destruct (rows =? 0) eqn:E0; [apply req_of_create_ok; exact Htc0|]. fin1.
      apply Z.eqb_neq in E0.
      destruct tc as [t|]; subst s; cbn in Hr; inversion Hr as [|? ? ? ? Hhd Htl]; subst.
      + destruct Hhd as [n [m [E _]]]. discriminate.
      + destruct Hhd as [n [E [Hn|Hn]]]; inversion E; subst; [contradiction|exact Hn].
    - destruct (negb (prows =? trows)); [fin|]. destruct (prows =? 0) eqn:E0; [apply req_of_create_ok; destruct wt; assumption|].
      apply Z.eqb_neq in E0.
      assert (Hc : prec d (created_promise pc)).
      { destruct tc as [t|]; subst s; cbn in Hr; inversion Hr as [|? ? ? ? Hhd Htl]; subst.
        - destruct Hhd as [n [m [E [Hn|Hn]]]]; inversion E; subst; [contradiction|exact Hn].
        - destruct Hhd as [n [E _]]. discriminate. }
      destruct wt; fin.
  Qed.

  Lemma r_KCreate_to : forall r tc wt p cmd s c, k_ok d (KCreate_to r tc wt p cmd) -> k_expects (KCreate_to r tc wt p cmd) s ->
                                                 rdy_ok d s c -> out_ok d now next (resume_seq cfg (KCreate_to r tc wt p cmd) c now next).
  Proof.
    intros r tc wt p cmd s c [[Hp [Hid Hfin]] Htc] [t He] Hr. subst s. cbn. destruct (one_alter c) as [n|] eqn:Eo; [|fin].
    destruct (n =? 1) eqn:En; [|apply req_of_create_ok; exact Htc]. apply Z.eqb_eq in En.
    assert (Hm : prec d (merged p cmd)) by (apply merged_prec; auto; eapply alter_fact; eassumption).
    destruct wt; fin.
  Qed.

  Lemma r_KComplete : forall r s c, k_ok d (KComplete r) -> k_expects (KComplete r) s -> rdy_ok d s c ->
                                    out_ok d now next (resume_seq cfg (KComplete r) c now next).
  Proof.
    intros r s c Hk He Hr. cbn in He, Hk. subst s. cbn.
    destruct (one_promise c) as [[p|]|] eqn:E; try fin.
    destruct (read_fact d _ c p Hr E) as [Hp Hid].
    destruct (p_state p =? Pending) eqn:Es; [|fin].
    destruct (now <? p_timeout p) eqn:Et.
    - apply out_wait_ok; [|cbn; repeat split; auto; apply user_state_final; exact Hk|cbn; eauto]. apply completion_txn_at.
      destruct Hp as [q [Hq [C _]]]. destruct C as (a&b&c0&e&f&g&h). exists q. split; [exact Hq|]. split; [cbn; congruence|].
      right. cbn. apply Z.ltb_lt in Et. rewrite <- e. split; [reflexivity|split; [exact Et|exact Hk]].
    - apply out_wait_ok; [|cbn; repeat split; auto; apply timedout_state_final|cbn; eauto]. apply completion_txn_at.
      destruct Hp as [q [Hq [C _]]]. destruct C as (a&b&c0&e&f&g&h). exists q. split; [exact Hq|]. split; [cbn; congruence|].
      left. cbn. apply Z.ltb_ge in Et. rewrite <- e, <- g. tauto.
  Qed.

  Lemma r_KComplete_up : forall r p cmd st s c, k_ok d (KComplete_up r p cmd st) -> k_expects (KComplete_up r p cmd st) s ->
                                               rdy_ok d s c -> out_ok d now next (resume_seq cfg (KComplete_up r p cmd st) c now next).
  Proof.
    intros r p cmd st s c [Hp [Hid [Hu Hfin]]] [t He] Hr. subst s. cbn. destruct (one_alter c) as [n|] eqn:Eo; [|fin].
    destruct (n =? 1) eqn:En; [|exact (start_req_ok d (QCompletePromise r) now next Hu)].
    apply Z.eqb_eq in En. fin1. apply merged_prec; auto. eapply alter_fact; eassumption.
  Qed.

  Lemma r_KCallback : forall pid cbid m timeout recv s c, k_expects (KCallback pid cbid m timeout recv) s -> rdy_ok d s c ->
                      out_ok d now next (resume_seq cfg (KCallback pid cbid m timeout recv) c now next).
  Proof.
    intros pid cbid m timeout recv s c He Hr. cbn in He. subst s. cbn.
    destruct (one_promise c) as [[p|]|] eqn:E; try fin.
    destruct (read_fact d _ c p Hr E) as [Hp Hid].
    destruct (p_state p =? Pending); [|fin]. wait_ok.
  Qed.

  Lemma r_KCallback_ins : forall p cc c, k_ok d (KCallback_ins p cc) -> out_ok d now next (resume_seq cfg (KCallback_ins p cc) c now next).
  Proof. intros p cc c Hp. cbn in Hp. cbn. destruct (one_alter c) as [n|]; [|fin]. destruct (n =? 1); [fin|wait_ok]. Qed.

  Lemma r_KCallback_reread : forall pid s c, k_expects (KCallback_reread pid) s -> rdy_ok d s c ->
                                             out_ok d now next (resume_seq cfg (KCallback_reread pid) c now next).
  Proof.
    intros pid s c He Hr. cbn in He. subst s. cbn. destruct (one_promise c) as [[p|]|] eqn:E; try fin.
    destruct (read_fact d _ c p Hr E) as [Hp Hid]. fin.
  Qed.

  Lemma r_KClaim_read : forall t s c, k_expects (KClaim_read t) s -> rdy_ok d s c -> out_ok d now next (resume_seq cfg (KClaim_read t) c now next).
  Proof.
    intros t s c He Hr. cbn in He. subst s. cbn. destruct c; try fin. destruct rs as [|x rs]; [fin|]. destruct x; try fin.
    cbn in Hr. inversion Hr as [|? ? ? ? Hhd Htl]; subst. cbn in Hhd.
    apply out_fin_ok; [|right; constructor]. cbn. apply Forall_app. split.
    - destruct recs as [|x recs]; cbn; [constructor|]. inversion Hhd; subst. constructor; [tauto|constructor].
    - destruct (String.eqb (m_type (t_mesg t)) "resume"); cbn; [|constructor].
      destruct rs as [|y rs]; cbn; [constructor|]. destruct y; cbn; try constructor.
      inversion Htl as [|? ? ? ? Hhd2 Htl2]; subst. cbn in Hhd2.
      destruct recs0 as [|z recs0]; cbn; [constructor|]. inversion Hhd2; subst. constructor; [tauto|constructor].
  Qed.
End Resume.

(* ---------- fan-outs ---------- *)

Lemma spawn_timeouts_at : forall d ps now next,
    Forall (fun p => prec d p /\ overdue now p = true) ps -> Forall (sub_at d now) (snd (spawn_timeouts ps now next)).
Proof.
  induction ps as [|p ps IH]; intros now next H; cbn; [constructor|]. inversion H; subst.
  specialize (IH now (S next) H3). destruct (spawn_timeouts ps now (S next)) as [sl sb]. cbn in *.
  constructor; [|exact IH]. apply completion_txn_at. apply timeout_cmd_ok; tauto.
Qed.

Lemma spawn_timeouts_slots : forall ps now next, Forall extra_ok (fst (spawn_timeouts ps now next)).
Proof.
  induction ps as [|p ps IH]; intros now next; cbn; [constructor|].
  specialize (IH now (S next)). destruct (spawn_timeouts ps now (S next)) as [sl sb]. cbn in *. constructor; [exact I|exact IH].
Qed.

Lemma spawn_schedules_at : forall d cfg now ss next, Forall (sub_at d now) (snd (spawn_schedules cfg now ss next)).
Proof.
  induction ss as [|s ss IH]; intros next; cbn; [constructor|].
  destruct (schedule_child cfg now s) as [[pc extra]|].
  - specialize (IH (S next)). destruct (spawn_schedules cfg now ss (S next)) as [sl sb]. cbn in *. constructor; [exact I|exact IH].
  - specialize (IH next). destruct (spawn_schedules cfg now ss next) as [sl sb]. cbn in *. exact IH.
Qed.

Lemma spawn_schedules_slots : forall cfg now ss next, Forall extra_ok (fst (spawn_schedules cfg now ss next)).
Proof.
  induction ss as [|s ss IH]; intros next; cbn; [constructor|].
  destruct (schedule_child cfg now s) as [[pc extra]|] eqn:E.
  - specialize (IH (S next)). destruct (spawn_schedules cfg now ss (S next)) as [sl sb]. cbn in *. constructor; [|exact IH].
    cbn. unfold schedule_child in E. destruct (c_next cfg (s_cron s) (s_next s)); [|discriminate].
    destruct (expand _ _ _); [|discriminate]. inversion E; subst. repeat constructor.
  - specialize (IH next). destruct (spawn_schedules cfg now ss next) as [sl sb]. cbn in *. constructor; [exact I|exact IH].
Qed.

Lemma spawn_sends_at : forall d cfg now exp ts rs next,
    Forall (res_ok d) rs -> Forall (sub_at d now) (snd (fst (spawn_sends cfg now exp ts rs next))).
Proof.
  induction ts as [|t ts IH]; intros rs next Hrs; cbn; [constructor|].
  assert (Htl : Forall (res_ok d) (tl rs)) by (destruct rs; [constructor|inversion Hrs; assumption]).
  destruct (now <? t_timeout t).
  - specialize (IH (tl rs) (S next) Htl). destruct (spawn_sends cfg now exp ts (tl rs) (S next)) as [[sl sb] pre]. cbn in *.
    constructor; [|exact IH]. cbn. destruct rs as [|r rs]; cbn; [exact I|]. destruct r; cbn; try exact I.
    destruct recs as [|p recs]; cbn; [exact I|]. inversion Hrs; subst. cbn in H1. inversion H1; assumption.
  - specialize (IH (tl rs) next Htl). destruct (spawn_sends cfg now exp ts (tl rs) next) as [[sl sb] pre]. cbn in *. exact IH.
Qed.

Lemma spawn_sends_slots : forall cfg now exp ts rs next, Forall extra_ok (fst (fst (spawn_sends cfg now exp ts rs next))).
Proof.
  induction ts as [|t ts IH]; intros rs next; cbn; [constructor|].
  destruct (now <? t_timeout t).
  - specialize (IH (tl rs) (S next)). destruct (spawn_sends cfg now exp ts (tl rs) (S next)) as [[sl sb] pre]. cbn in *. constructor; [exact I|exact IH].
  - specialize (IH (tl rs) next). destruct (spawn_sends cfg now exp ts (tl rs) next) as [[sl sb] pre]. cbn in *. constructor; [exact I|exact IH].
Qed.

Ltac shape_auto :=
  unfold ut_shape, active_state, TInit, TEnqueued, TClaimed, TCompleted, TTimedout; cbn;
  repeat split; auto; try (intros; discriminate); try (intros; lia); try (repeat constructor; auto; fail).

Lemma ut_timedout_any : forall t, cmd_any (UpdateTask (ut_timedout t)).
Proof. intros t. cbn. split; [shape_auto|unfold TTimedout, TClaimed; discriminate]. Qed.

Lemma enq_update_any : forall t exp c, cmd_any (enq_update t exp c).
Proof.
  intros t exp c. unfold enq_update. destruct (is_notify t); [cbn; split; [shape_auto|unfold TCompleted, TClaimed; discriminate]|].
  destruct c; try (cbn; split; [shape_auto|unfold TInit, TClaimed; discriminate]).
  destruct ok; cbn; (split; [shape_auto|unfold TInit, TEnqueued, TClaimed; discriminate]).
Qed.

Lemma spawn_sends_pre : forall cfg now exp ts rs next, Forall cmd_any (snd (spawn_sends cfg now exp ts rs next)).
Proof.
  induction ts as [|t ts IH]; intros rs next; cbn; [constructor|].
  destruct (now <? t_timeout t).
  - specialize (IH (tl rs) (S next)). destruct (spawn_sends cfg now exp ts (tl rs) (S next)) as [[sl sb] pre]. cbn in *. exact IH.
  - specialize (IH (tl rs) next). destruct (spawn_sends cfg now exp ts (tl rs) next) as [[sl sb] pre]. cbn in *.
    constructor; [apply ut_timedout_any|exact IH].
Qed.

Lemma Forall_any_at : forall d now cs, Forall cmd_any cs -> Forall (cmd_at d now) cs.
Proof. intros d now cs H. eapply Forall_impl; [|exact H]. intros c. apply cmd_any_at. Qed.

Section Resume2.
  Variable cfg : config.
  Variable d : db.
  Variable now : Z.
  Variable next : nat.

  Hypothesis Ud : prom_uniq d.

  Lemma fan_out_ok : forall k sl wake sb,
      Forall (sub_at d now) sb -> Forall extra_ok sl -> fk_ok k -> out_ok d now next (mkOut (CFan k sl wake) sb None).
  Proof. intros. unfold out_ok, link_ok; cbn. tauto. Qed.

  Lemma r_KSearchP : forall q st tg lim sid s c, k_expects (KSearchP q st tg lim sid) s -> rdy_ok d s c ->
                     out_ok d now next (resume_seq cfg (KSearchP q st tg lim sid) c now next).
  Proof.
    intros q st tg lim sid s c He Hr. cbn in He. subst s. cbn.
    destruct c; try fin. destruct rs as [|x rs]; [fin|]. destruct x; try fin.
    cbn in Hr. inversion Hr; subst. cbn in H2.
    destruct (filter (overdue now) recs) as [|p od] eqn:Ef.
    { apply out_fin_ok.
      - cbn. apply Forall_forall. intros x Hx. apply in_map_iff in Hx. destruct Hx as [y [<- Hy]].
        apply prec_unsorted. eapply Forall_forall in H2; eassumption.
      - right. cbn. apply Forall_forall. intros x Hx Hpend. apply in_map_iff in Hx. destruct Hx as [y [<- Hy]]. cbn in *.
        apply not_overdue; [|exact Hpend]. destruct (overdue now y) eqn:Eo; [|reflexivity]. exfalso.
        assert (Hin : In y (filter (overdue now) recs)) by (apply filter_In; tauto). rewrite Ef in Hin. exact Hin. }
    assert (Hod : Forall (fun p => prec d p /\ overdue now p = true) (p :: od)).
    { rewrite <- Ef. apply Forall_forall. intros x Hx. apply filter_In in Hx. destruct Hx as [Hx Ho]. split; [|exact Ho].
      eapply Forall_forall in H2; eassumption. }
    pose proof (spawn_timeouts_at d (p :: od) now next Hod) as H1.
    pose proof (spawn_timeouts_slots (p :: od) now next) as H3.
    destruct (spawn_timeouts (p :: od) now next) as [sl sb]. apply fan_out_ok; cbn; auto.
  Qed.

  Lemma r_KBgTimeoutP : forall s c, k_expects KBgTimeoutP s -> rdy_ok d s c ->
                                   out_ok d now next (resume_seq cfg KBgTimeoutP c now next).
  Proof.
    intros s c [t [l He]] Hr. subst s. cbn.
    destruct c; try fin. destruct rs as [|x rs]; [fin|]. destruct x; try fin.
    cbn in Hr. inversion Hr; subst. cbn in H2.
    destruct (forallb (overdue now) recs) eqn:Ea; cbn; [|fin].
    assert (Hod : Forall (fun p => prec d p /\ overdue now p = true) recs).
    { apply Forall_forall. intros x Hx. split; [eapply Forall_forall in H2; eassumption|].
      eapply forallb_forall in Ea; eassumption. }
    pose proof (spawn_timeouts_at d recs now next Hod) as H1.
    pose proof (spawn_timeouts_slots recs now next) as H3.
    destruct (spawn_timeouts recs now next) as [sl sb]. destruct sl; [fin|]. apply fan_out_ok; cbn; auto.
  Qed.

  Lemma r_KBgSchedule : forall c, out_ok d now next (resume_seq cfg KBgSchedule c now next).
  Proof.
    intros c. cbn. destruct c; try fin. destruct rs as [|x rs]; [fin|]. destruct x; try fin.
    pose proof (spawn_schedules_at d cfg now recs next) as H1.
    pose proof (spawn_schedules_slots cfg now recs next) as H3.
    destruct (spawn_schedules cfg now recs next) as [sl sb].
    destruct (forallb _ sl); [fin|]. apply fan_out_ok; cbn; auto.
  Qed.

  Lemma reads_res_ok : forall cs rs, Forall2 (res_for d) cs rs -> (forall c, In c cs -> exists id, c = ReadPromise id) -> Forall (res_ok d) rs.
  Proof.
    intros cs rs H. induction H; intros Hc; constructor.
    - destruct (Hc x (or_introl eq_refl)) as [id ->]. destruct y; cbn in *; try exact I.
      eapply Forall_impl; [|exact H]. intros p [Hp _]. exact Hp.
    - apply IHForall2. intros c Hin. apply Hc. right. exact Hin.
  Qed.

  Lemma r_KBgEnqueue_promises : forall ts s c, k_expects (KBgEnqueue_promises ts) s -> rdy_ok d s c ->
                                                out_ok d now next (resume_seq cfg (KBgEnqueue_promises ts) c now next).
  Proof.
    intros ts s c He Hr. cbn in He. subst s. cbn. destruct c; try fin.
    assert (Hrs : Forall (res_ok d) rs).
    { cbn in Hr. eapply reads_res_ok; [exact Hr|]. intros c Hc. apply in_map_iff in Hc. destruct Hc as [t [<- _]]. eauto. }
    pose proof (spawn_sends_at d cfg now (add64 now (c_enq_delay cfg)) ts rs next Hrs) as H1.
    pose proof (spawn_sends_slots cfg now (add64 now (c_enq_delay cfg)) ts rs next) as H3.
    pose proof (spawn_sends_pre cfg now (add64 now (c_enq_delay cfg)) ts rs next) as H4.
    destruct (spawn_sends cfg now (add64 now (c_enq_delay cfg)) ts rs next) as [[sl sb] pre]. cbn in *.
    destruct sb as [|s0 sb].
    - destruct pre as [|c0 pre]; [fin|]. apply out_wait_ok; cbn; auto.
      split; [apply Forall_any_at; exact H4|right; apply any_no_up; exact H4].
    - apply fan_out_ok; cbn; auto.
  Qed.

  Lemma map_any : forall {A} (f : A -> command) l, (forall x, cmd_any (f x)) -> Forall cmd_any (map f l).
  Proof. intros A f l H. apply Forall_forall. intros c Hc. apply in_map_iff in Hc. destruct Hc as [x [<- _]]. apply H. Qed.

  Lemma any_sub : forall cs, Forall cmd_any cs -> sub_at d now (SStore cs).
  Proof. intros cs H. cbn. split; [apply Forall_any_at; exact H|right; apply any_no_up; exact H]. Qed.

  Lemma one_cmd_sub : forall c, cmd_at d now c -> is_up c = false -> sub_at d now (SStore [c]).
  Proof. intros c H Hu. cbn. split; [repeat constructor; exact H|right; repeat constructor; exact Hu]. Qed.

  Lemma r_KClaim : forall id counter pid ttl c, out_ok d now next (resume_seq cfg (KClaim id counter pid ttl) c now next).
  Proof.
    intros id counter pid ttl c. cbn. destruct c; try fin. destruct rs as [|x rs]; [fin|]. destruct x; try fin.
    destruct recs as [|t recs]; [fin|].
    destruct (t_state t =? TClaimed); [fin|]. destruct ((t_state t =? TCompleted) || (t_state t =? TTimedout)); [fin|].
    destruct (negb (t_counter t =? counter)); [fin|].
    apply out_wait_ok; [|exact I|exact I]. apply one_cmd_sub; [|reflexivity]. cbn. split; [|reflexivity].
    shape_auto.
  Qed.

  Lemma r_KCompleteT : forall id counter c, out_ok d now next (resume_seq cfg (KCompleteT id counter) c now next).
  Proof.
    intros id counter c. cbn. destruct c; try fin. destruct rs as [|x rs]; [fin|]. destruct x; try fin.
    destruct recs as [|t recs]; [fin|].
    destruct ((t_state t =? TCompleted) || (t_state t =? TTimedout)); [fin|].
    destruct ((t_state t =? TInit) || (t_state t =? TEnqueued)); [fin|].
    destruct (negb (t_counter t =? counter)); [fin|].
    apply out_wait_ok; [|exact I|exact I]. apply one_cmd_sub; [|reflexivity]. cbn. split; [shape_auto|].
    unfold TCompleted, TClaimed. discriminate.
  Qed.

  Lemma sweep_cmd_any : forall t, in_mask (t_state t) (mask_of [TEnqueued; TClaimed]) = true -> valid_tstate (t_state t) ->
      cmd_any (if now <? t_timeout t
               then UpdateTask (mkUT (t_id t) None TInit (t_counter t + 1) 0 0 0 None [t_state t] (t_counter t))
               else UpdateTask (mkUT (t_id t) None TTimedout (t_counter t) (t_attempt t) 0 0 (Some (t_timeout t)) [t_state t] (t_counter t))).
  Proof.
    intros t Hm Hv.
    assert (Hs : t_state t = TEnqueued \/ t_state t = TClaimed).
    { unfold valid_tstate, TInit, TEnqueued, TClaimed, TCompleted, TTimedout in *.
      destruct Hv as [E|[E|[E|[E|E]]]]; rewrite E in *; cbn in Hm; try discriminate; tauto. }
    destruct (now <? t_timeout t); cbn.
    - split; [|unfold TInit, TClaimed; discriminate]. unfold ut_shape; cbn. split.
      + constructor; [|constructor]. unfold active_state. tauto.
      + split; [right; split; [reflexivity|split; [reflexivity|eauto]]|]. shape_auto.
    - split; [|unfold TTimedout, TClaimed; discriminate]. unfold ut_shape; cbn. split.
      + constructor; [|constructor]. unfold active_state. tauto.
      + split; [left; reflexivity|]. shape_auto.
  Qed.

  Lemma r_KBgTimeoutT : forall s c, k_expects KBgTimeoutT s -> rdy_ok d s c -> out_ok d now next (resume_seq cfg KBgTimeoutT c now next).
  Proof.
    intros s c [t [l He]] Hr. subst s. cbn. destruct c; try fin. destruct rs as [|x rs]; [fin|]. destruct x; try fin.
    destruct recs as [|t0 recs]; [fin|]. cbn in Hr. inversion Hr as [|? ? ? ? Hhd Htl]; subst. cbn in Hhd.
    apply out_wait_ok; [apply any_sub|exact I|exact I].
    change (Forall cmd_any (map (fun t1 => if now <? t_timeout t1
               then UpdateTask (mkUT (t_id t1) None TInit (t_counter t1 + 1) 0 0 0 None [t_state t1] (t_counter t1))
               else UpdateTask (mkUT (t_id t1) None TTimedout (t_counter t1) (t_attempt t1) 0 0 (Some (t_timeout t1)) [t_state t1] (t_counter t1))) (t0 :: recs))).
    apply Forall_forall. intros c Hc. apply in_map_iff in Hc. destruct Hc as [t1 [<- Hin]].
    eapply Forall_forall in Hhd; [|exact Hin]. destruct Hhd as [Hm Hv]. apply sweep_cmd_any; assumption.
  Qed.

  Lemma resume_seq_ok : forall k s c, k_ok d k -> k_expects k s -> rdy_ok d s c -> out_ok d now next (resume_seq cfg k c now next).
  Proof.
    intros k s c Hk He Hr. destruct k;
      try (eapply r_KReadP; eassumption); try (eapply r_KReadP_to; eassumption); try (eapply r_KCreate; eassumption);
      try (apply r_KCreate_router; assumption); try (eapply r_KCreate_store; eassumption); try (eapply r_KCreate_to; eassumption);
      try (eapply r_KComplete; eassumption); try (eapply r_KComplete_up; eassumption);
      try (eapply r_KCallback; eassumption); try (apply r_KCallback_ins; assumption); try (eapply r_KCallback_reread; eassumption);
      try (eapply r_KSearchP; eassumption);
      try (eapply r_KClaim_read; eassumption); try apply r_KClaim; try apply r_KCompleteT; try (eapply r_KBgTimeoutT; eassumption);
      try (eapply r_KBgTimeoutP; eassumption); try apply r_KBgSchedule; try (eapply r_KBgEnqueue_promises; eassumption).
    all: cbn.
    all: repeat match goal with
                | |- out_ok _ _ _ (match ?x with _ => _ end) => destruct x eqn:?
                end.
    all: try fin.
    all: try (wait_ok; fail).
    all: try (exact (start_req_ok d _ now next I)).
    - apply out_wait_ok; [apply any_sub|cbn; auto|cbn; auto]. constructor; [exact I|]. destruct (_ =? _)%string; repeat constructor.
    - apply out_wait_ok; [apply any_sub|cbn; auto|cbn; auto]. constructor; [exact I|].
      apply (map_any (fun t0 => ReadPromise (t_root t0))). intros; exact I.
  Qed.
End Resume2.

Lemma wake_slot_at : forall d s c next now, extra_ok s -> Forall (sub_at d now) (snd (wake_slot s c next)).
Proof.
  intros d s c next now He. destruct s; cbn; try constructor.
  destruct (create_cmd pc None c) as [[cmd tc]|] eqn:E; cbn; [|constructor].
  destruct (create_cmd_any pc None c cmd tc I E) as [Hany _].
  constructor; [|constructor]. cbn. split; [constructor; [apply cmd_any_at; exact Hany|apply Forall_any_at; exact He]|].
  right. apply any_no_up. constructor; assumption.
Qed.

Lemma wake_slot_extra : forall s c next, extra_ok s -> extra_ok (fst (wake_slot s c next)).
Proof.
  intros s c next He. destruct s; cbn; auto. destruct (create_cmd pc None c) as [[cmd tc]|]; cbn; exact I.
Qed.

Lemma set_nth_forall : forall {A} (P : A -> Prop) i x l, Forall P l -> P x -> Forall P (set_nth i x l).
Proof.
  induction i as [|i IH]; intros x l Hl Hx; destruct l as [|y l]; cbn; try constructor; inversion Hl; subst; auto.
Qed.

Lemma nth_error_forall : forall {A} (P : A -> Prop) l i x, Forall P l -> nth_error l i = Some x -> P x.
Proof. intros A P l i x Hl H. eapply Forall_forall; [exact Hl|]. eapply nth_error_In; eassumption. Qed.

Lemma run_wake_at : forall d wake slots dl next now,
    Forall extra_ok slots ->
    let '(sl, w, rq, sb, nx) := run_wake wake slots dl next in
    Forall (sub_at d now) sb /\ Forall extra_ok sl /\ nx = (next + List.length sb)%nat.
Proof.
  induction wake as [|i wake IH]; intros slots dl next now He; cbn; [split; [constructor|split; [exact He|lia]]|].
  destruct (nth_error slots i) as [s|] eqn:En; [|apply IH; exact He].
  destruct (find (fun x => slot_waits (fst x) s) dl) as [x|].
  - pose proof (wake_slot_at d s (snd x) next now (nth_error_forall _ _ _ _ He En)) as Hw.
    pose proof (wake_slot_extra s (snd x) next (nth_error_forall _ _ _ _ He En)) as Hx.
    destruct (wake_slot s (snd x) next) as [s' subs]. cbn in Hw, Hx.
    specialize (IH (set_nth i s' slots) dl (next + List.length subs)%nat now (set_nth_forall _ _ _ _ He Hx)).
    destruct (run_wake wake (set_nth i s' slots) dl (next + List.length subs)%nat) as [[[[sl w] rq] sb] nx].
    destruct IH as [IH1 [IH2 IH3]].
    destruct s'; (split; [apply Forall_app; split; assumption|split; [assumption|rewrite app_length; lia]]).
  - specialize (IH slots dl next now He). destruct (run_wake wake slots dl next) as [[[[sl w] rq] sb] nx]. exact IH.
Qed.

Lemma enq_final_any : forall ts now0 exp slots, Forall cmd_any (enq_final ts now0 exp slots).
Proof.
  induction ts as [|t ts IH]; intros now0 exp slots; cbn; [constructor|].
  destruct slots as [|s sl]; [constructor|]. destruct s; try apply IH.
  destruct (now0 <? t_timeout t); [|apply IH]. constructor; [apply enq_update_any|apply IH].
Qed.

Lemma nth_error_app_len : forall {A} (l : list A) x n, n = List.length l -> nth_error (l ++ [x]) n = Some x.
Proof. intros A l x n ->. rewrite nth_error_app2 by lia. rewrite Nat.sub_diag. reflexivity. Qed.

Lemma run_fan_ok : forall d cfg k slots wake dl now next,
    Forall extra_ok slots -> fk_ok k -> out_ok d now next (run_fan cfg k slots wake dl now next).
Proof.
  intros d cfg k slots wake dl now next He Hk. unfold run_fan.
  pose proof (run_wake_at d wake slots dl next now He) as Hw.
  destruct (run_wake wake slots dl next) as [[[[sl w] rq] sb] nx]. destruct Hw as [Hsb [Hsl Hnx]].
  destruct k.
  - destruct (await_in_order true sl); cbn; try (unfold out_ok, link_ok; cbn; repeat split; auto; fail).
    unfold out_ok, link_ok; cbn. split; [apply Forall_app; split; [assumption|]|].
    { constructor; [|constructor]. sub_store. }
    split; [exact I|]. split; [|split; exact I]. split; [lia|]. eexists. split; [apply nth_error_app_len; lia|reflexivity].
  - destruct (await_in_order false sl); cbn; unfold out_ok, link_ok; cbn; repeat split; auto.
  - destruct (await_in_order false sl); cbn; unfold out_ok, link_ok; cbn; repeat split; auto.
  - destruct (await_in_order false sl); cbn; try (unfold out_ok, link_ok; cbn; repeat split; auto; fail).
    destruct (pre ++ enq_final ts now0 exp sl)%list eqn:E; cbn; unfold out_ok, link_ok; cbn; [repeat split; auto|].
    split; [|split; [exact I|split; [|split; exact I]]].
    + apply Forall_app; split; [assumption|]. constructor; [|constructor]. rewrite <- E.
      assert (Hall : Forall cmd_any (pre ++ enq_final ts now0 exp sl)%list) by (apply Forall_app; split; [exact Hk|apply enq_final_any]).
      cbn. split; [apply Forall_any_at; exact Hall|right; apply any_no_up; exact Hall].
    + split; [lia|]. eexists. split; [apply nth_error_app_len; lia|exact I].
Qed.

Lemma run_inst_ok : forall d cfg st dl now next,
    prom_uniq d -> st_ok d st ->
    (forall n c, In (n, c) dl -> exists s, rdy_ok d s c /\ (forall k, st = CSeq k n -> k_expects k s)) ->
    run_inst cfg st dl now next = mkOut st [] None \/ out_ok d now next (run_inst cfg st dl now next).
Proof.
  intros d cfg st dl now next Ud Hs Hdl. destruct st; cbn.
  - destruct (find (fun x => Nat.eqb (fst x) n) dl) as [[m c]|] eqn:F; [|left; reflexivity]. right.
    apply find_some in F. destruct F as [Fin Fe]. cbn in Fe. apply Nat.eqb_eq in Fe. subst m.
    destruct (Hdl n c Fin) as [s [Hr He]]. eapply resume_seq_ok; [exact Ud|exact Hs|apply He; reflexivity|exact Hr].
  - right. destruct Hs. apply run_fan_ok; assumption.
  - left. reflexivity.
Qed.
