(* C01: write-once completion, immutable creation fields, and every body shown to anybody is a view of the
   durable row - for every schedule. *)
From RV Require Import Mon MonC01 Framework StoreLocks StorePromises Discipline SysInv Eqb.
From Coq Require Import Lia.

Lemma creation_eqb_of : forall p q, creation_eq p q -> creation_eqb p q = true.
Proof.
  intros p q (a&b&c&d&e&f&g&h). unfold creation_eqb. rewrite a, b, c, d, e, f, g, h.
  rewrite !String.eqb_refl, !Z.eqb_refl, !smap_eqb_refl, opt_str_refl. reflexivity.
Qed.

Lemma final_b_of : forall s, final_state s = true -> final_b s = true.
Proof. intros s H. exact H. Qed.

Lemma row_le_b_of : forall p q, row_le p q -> row_le_b p q = true.
Proof.
  intros p q [C [N P]]. unfold row_le_b. rewrite (creation_eqb_of _ _ C). cbn.
  destruct (p_state p =? Pending) eqn:E.
  - apply Z.eqb_eq in E. destruct (P E) as [->|[Hf Hc]]; [rewrite promise_eqb_refl; reflexivity|].
    rewrite (final_b_of _ Hf). destruct (p_completed q); [|contradiction]. cbn. apply orb_true_r.
  - apply Z.eqb_neq in E. rewrite (N E). apply promise_eqb_refl.
Qed.

Lemma uniq_ids_of : forall l, NoDup l -> uniq_ids l = true.
Proof.
  induction l as [|x l IH]; intros H; cbn; [reflexivity|]. inversion H; subst. rewrite IH by assumption.
  rewrite andb_true_r. apply negb_true_iff. apply not_true_is_false. intros Hex. apply existsb_exists in Hex.
  destruct Hex as [y [Hy Heq]]. apply String.eqb_eq in Heq. subst. contradiction.
Qed.

Lemma new_ok_b_of : forall q, new_ok q -> new_ok_b q = true.
Proof.
  intros q [(a&b&c&d&e)|[Hf Hc]]; unfold new_ok_b.
  - unfold fresh_b. rewrite a, b, c, d, e. cbn. reflexivity.
  - rewrite (final_b_of _ Hf). destruct (p_completed q); [|contradiction]. cbn. apply orb_true_r.
Qed.

Lemma c01_exec_ok : forall d d', prom_uniq d' -> prom_le d d' -> c01_exec d d' = [].
Proof.
  intros d d' U' [A B]. unfold c01_exec.
  assert (forallb (fun p => match find_promise (p_id p) d' with Some q => row_le_b p q | None => false end) (promises d) = true) as ->.
  { apply forallb_forall. intros p Hp. destruct (A p Hp) as [q [Hq L]].
    assert (Hid : p_id p = p_id q) by (destruct L as [(a&_) _]; exact a).
    unfold find_promise. rewrite Hid. rewrite (find_promise_uniq _ q U' Hq). apply row_le_b_of. exact L. }
  rewrite (uniq_ids_of _ U'). cbn.
  assert (forallb (fun q => match find_promise (p_id q) d with Some _ => true | None => new_ok_b q end) (promises d') = true) as ->; [|reflexivity].
  apply forallb_forall. intros q Hq. destruct (find_promise (p_id q) d) as [pp|] eqn:F; [reflexivity|].
  destruct (B q Hq) as [[p0 [Hp L]]|[Hn _]]; [|apply new_ok_b_of; exact Hn].
  exfalso. apply (find_promise_none_in _ _ p0 F Hp). destruct L as [(a&_) _]. exact a.
Qed.

Lemma body_ok_of : forall d p, prom_uniq d -> prec d p -> body_ok d p = true.
Proof.
  intros d p U [q [Hq [C K]]]. unfold body_ok. destruct C as (a&b&c&e&f&g&h).
  unfold find_promise. rewrite a. rewrite (find_promise_uniq _ q U Hq).
  unfold ceq_b. rewrite a, b, c, e, f, g, h. rewrite !String.eqb_refl, !Z.eqb_refl, !smap_eqb_refl, opt_str_refl. cbn.
  destruct (p_state p =? Pending) eqn:E; [reflexivity|]. apply Z.eqb_neq in E. destruct (K E) as (s1&s2&s3&s4&s5).
  unfold compl_eqb. rewrite s1, s2, s3, s4, s5. rewrite Z.eqb_refl, smap_eqb_refl, String.eqb_refl, opt_str_refl, opt_z_refl. reflexivity.
Qed.

Lemma resp_bodies_same : forall r, resp_bodies r = resp_promises r.
Proof. intros r. destruct r; reflexivity. Qed.

Lemma c01_inst_ok : forall d t next o, prom_uniq d -> out_ok d t next o -> c01_inst d (o_subs o) (visible_resp (o_resp o)) = [].
Proof.
  intros d t next o U [Hs [_ [_ [Hr _]]]]. unfold c01_inst.
  assert (forallb (body_ok d) (match visible_resp (o_resp o) with Some x => resp_bodies x | None => [] end) = true) as ->.
  { destruct (o_resp o) as [r|]; cbn; [|reflexivity]. destruct r; cbn in *; try reflexivity;
      apply forallb_forall; intros pb Hpb; apply body_ok_of; auto; eapply Forall_forall; eassumption. }
  cbn.
  assert (forallb (body_ok d) (flat_map sub_bodies (o_subs o)) = true) as ->; [|reflexivity].
  apply forallb_forall. intros pb Hp. apply in_flat_map in Hp. destruct Hp as [s [Hsin Hp]].
  eapply Forall_forall in Hs; [|exact Hsin]. destruct s; cbn in Hp; try contradiction.
  cbn in Hs. destruct (sd_promise m); cbn in Hp; [|contradiction]. destruct Hp as [<-|[]]. apply body_ok_of; assumption.
Qed.

Lemma c01_step : forall cfg s d s' ob,
    SInv s -> dir_wf d -> step cfg s d = Some (s', ob) -> SInv s' /\ c01_chk (s_now s) (s_db s) d ob = [].
Proof.
  intros cfg s d s' ob HS Hwf H. pose proof (SInv_step cfg s d s' ob HS Hwf H) as HS'. split; [exact HS'|].
  destruct d.
  - destruct (tick_obs_ok cfg s t deliver bgs arrive s' ob HS Hwf H) as [_ [_ Hob]].
    cbn. apply flat_map_nil. intros x Hx. eapply Forall_forall in Hob; [|exact Hx].
    destruct Hob as [id [out [next [-> Ho]]]]. eapply c01_inst_ok; [exact (SInv_uniq _ HS)|exact Ho].
  - destruct (exec_obs cfg s batch s' ob HS H) as [txns [Ht [[rss [Ee ->]]|[Ee [Hdb ->]]]]]; cbn; rewrite app_nil_r.
    + assert (Hacc : Forall (fun x => sub_accepts (fst x)) txns).
      { eapply Forall_impl; [|exact Ht]. intros x [t [_ [Hx _]]]. eapply sub_at_accepts; exact Hx. }
      destruct (exec_batch_spec _ _ _ _ (SInv_uniq _ HS) (SInv_tstates _ HS) Hacc Ee) as [L [U' _]]. apply c01_exec_ok; assumption.
    + apply c01_exec_ok; [exact (SInv_uniq _ HS)|apply prom_le_refl].
  - reflexivity.
  - reflexivity.
  - reflexivity.
  - reflexivity.
Qed.


Theorem C01_trace : forall cfg sch, sch_wf sch -> C01_mon (events cfg sch) = [].
Proof.
  intros cfg sch Hw. unfold C01_mon. apply mon_sound with (Inv := SInv) (dir_ok := dir_wf).
  - intros s d s' ob HI Hd Hs. eapply c01_step; eassumption.
  - apply SInv_init.
  - exact Hw.
Qed.

(* store level: for ARBITRARY accepted command sequences a row only grows and ids stay unique *)
Lemma exec_cmds_prom_le : forall cs d d',
    prom_uniq d -> Forall (fun x => accepts (fst x) = true) cs -> exec_cmds d cs = Some d' -> prom_le d d' /\ prom_uniq d'.
Proof.
  induction cs as [|[c h] cs IH]; intros d d' U A H; cbn in H.
  - inversion H; subst. split; [apply prom_le_refl|exact U].
  - inversion A; subst. destruct (exec d c h) as [[d1 r]|] eqn:E; [|discriminate].
    destruct (exec_prom_le _ _ _ _ _ U H2 E) as [L1 U1]. destruct (IH _ _ U1 H3 H) as [L2 U2].
    split; [apply (prom_le_trans d d1 d' U U1 L1 L2)|exact U2].
Qed.
