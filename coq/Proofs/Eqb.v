(* Reflexivity of the boolean equalities used by the monitors (the only direction the proofs need). *)
From RV Require Import Mon.
From Coq Require Import Lia.

Lemma list_eqb_refl : forall {A} (e : A -> A -> bool) l, (forall x, e x x = true) -> list_eqb e l l = true.
Proof. intros A e l H. induction l as [|x l IH]; cbn; [reflexivity|]. rewrite H, IH. reflexivity. Qed.

Lemma smap_eqb_refl : forall m, smap_eqb m m = true.
Proof. intros m. apply list_eqb_refl. intros [a b]. unfold pair_eqb. cbn. rewrite !String.eqb_refl. reflexivity. Qed.

Lemma opt_eqb_refl : forall {A} (e : A -> A -> bool) o, (forall x, e x x = true) -> opt_eqb e o o = true.
Proof. intros A e o H. destruct o; cbn; auto. Qed.

Lemma opt_str_refl : forall o, opt_eqb String.eqb o o = true.
Proof. intros. apply opt_eqb_refl. apply String.eqb_refl. Qed.
Lemma opt_z_refl : forall o, opt_eqb Z.eqb o o = true.
Proof. intros. apply opt_eqb_refl. apply Z.eqb_refl. Qed.

Lemma promise_eqb_refl : forall p, promise_eqb p p = true.
Proof.
  intros p. unfold promise_eqb. rewrite !String.eqb_refl, !Z.eqb_refl, !smap_eqb_refl, !opt_str_refl, opt_z_refl. reflexivity.
Qed.

Lemma mesg_eqb_refl : forall m, mesg_eqb m m = true.
Proof. intros m. unfold mesg_eqb. rewrite !String.eqb_refl. reflexivity. Qed.

Lemma task_eqb_refl : forall t, task_eqb t t = true.
Proof.
  intros t. unfold task_eqb. rewrite !String.eqb_refl, !Z.eqb_refl, mesg_eqb_refl, opt_str_refl, opt_z_refl. reflexivity.
Qed.

Lemma callback_eqb_refl : forall c, callback_eqb c c = true.
Proof. intros c. unfold callback_eqb. rewrite !String.eqb_refl, !Z.eqb_refl, mesg_eqb_refl. reflexivity. Qed.

Lemma flat_map_nil : forall {A B} (f : A -> list B) l, (forall x, In x l -> f x = []) -> flat_map f l = [].
Proof. induction l as [|x l IH]; intros H; cbn; [reflexivity|]. rewrite H by (left; reflexivity). apply IH. intros; apply H; right; assumption. Qed.
