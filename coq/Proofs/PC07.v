(* C07: task transitions - for every schedule. *)
From RV Require Import Mon MonC07 Framework StoreLocks StorePromises StoreCallbacks Discipline SysInv Eqb PC16 PC05.
From Coq Require Import Lia.

(* ---------- masks over the one-hot states ---------- *)

Lemma active_mask : forall l, Forall active_state l -> Z.land (mask_of l) 24 = 0.
Proof.
  induction l as [|x l IH]; intros H; cbn; [reflexivity|]. inversion H; subst.
  rewrite Z.land_lor_distr_l, (IH H3). unfold active_state, TInit, TEnqueued, TClaimed in H2.
  destruct H2 as [-> | [-> | ->]]; reflexivity.
Qed.

Lemma finished_not_in_mask : forall s l, Forall active_state l -> (s = TCompleted \/ s = TTimedout) -> in_mask s (mask_of l) = false.
Proof.
  intros s l H Hs. unfold in_mask. apply negb_false_iff. apply Z.eqb_eq.
  pose proof (active_mask l H) as Hm.
  assert (Hsub : Z.land s (mask_of l) = Z.land (Z.land s 24) (mask_of l)).
  { unfold TCompleted, TTimedout in Hs. destruct Hs as [-> | ->]; reflexivity. }
  rewrite Hsub, <- Z.land_assoc, (Z.land_comm 24), Hm. apply Z.land_0_r.
Qed.

Lemma claimed_in_mask : forall l, Forall active_state l -> in_mask TClaimed (mask_of l) = true -> existsb (Z.eqb TClaimed) l = true.
Proof.
  induction l as [|x l IH]; intros H Hm; cbn in *; [discriminate|]. inversion H; subst.
  unfold active_state, TInit, TEnqueued, TClaimed in *. destruct H2 as [-> | [-> | ->]]; cbn.
  - apply IH; [assumption|]. unfold in_mask in *. rewrite Z.land_lor_distr_r in Hm. cbn in Hm. exact Hm.
  - apply IH; [assumption|]. unfold in_mask in *. rewrite Z.land_lor_distr_r in Hm. cbn in Hm. exact Hm.
  - reflexivity.
Qed.

(* ---------- one command ---------- *)

Definition row_rel (cmds : list command) (t t' : task) : Prop :=
  t_counter t <= t_counter t' /\
  (t_finished t = true -> t' = t) /\
  (t_counter t < t_counter t' -> existsb (is_sweep (t_id t)) cmds = true) /\
  (claimed_with (t_counter t') t' = true -> claimed_with (t_counter t') t = false ->
   existsb (is_claim (t_id t) (t_counter t')) cmds = true) /\
  (t_state t = TClaimed -> claimed_with (t_counter t) t' = false ->
   existsb (is_leave (t_id t) (t_root t) (t_counter t)) cmds = true) /\
  (t_state t = TClaimed -> claimed_with (t_counter t) t' = true -> t_pid t' = t_pid t) /\
  (t_state t = TClaimed -> claimed_with (t_counter t) t' = false -> t_finished t' = true \/ t_counter t < t_counter t').

Lemma row_rel_refl : forall cmds t, row_rel cmds t t.
Proof.
  intros cmds t. unfold row_rel. split; [lia|]. split; [auto|]. split; [lia|]. split; [|split; [|split]].
  - intros H1 H2. congruence.
  - intros H1 H2. unfold claimed_with in H2. rewrite H1 in H2. cbn in H2. rewrite Z.eqb_refl in H2. discriminate.
  - auto.
  - intros H1 H2. unfold claimed_with in H2. rewrite H1 in H2. cbn in H2. rewrite Z.eqb_refl in H2. discriminate.
Qed.

Lemma finished_states : forall t, t_finished t = true -> t_state t = TCompleted \/ t_state t = TTimedout.
Proof. intros t H. unfold t_finished in H. apply orb_true_iff in H. destruct H as [H|H]; apply Z.eqb_eq in H; tauto. Qed.

Lemma update_row : forall now d u t,
    cmd_at d now (UpdateTask u) -> ut_guard u t = true -> row_rel [UpdateTask u] t (update_t u t).
Proof.
  intros now d u t [Hs _] G. apply update_task_guard in G. destruct G as [Gid [Gm Gc]].
  destruct Hs as (Hact & Hcnt & Hcl & Hco & Hen & Hin & Hto & Hv).
  unfold row_rel; cbn. split; [|split; [|split; [|split; [|split; [|split]]]]].
  - destruct Hcnt as [E|[E _]]; lia.
  - intros Hf. exfalso. rewrite (finished_not_in_mask _ _ Hact (finished_states _ Hf)) in Gm. discriminate.
  - intros Hlt. destruct Hcnt as [E|[E [Est _]]]; [lia|]. rewrite Gid, String.eqb_refl, Est, E, !Z.eqb_refl. reflexivity.
  - intros H1 H2. unfold claimed_with in H1. cbn in H1. apply andb_true_iff in H1. destruct H1 as [H1 _]. apply Z.eqb_eq in H1.
    destruct (Hcl H1) as [Ecur [_ Ecnt]]. rewrite Gid, String.eqb_refl, H1, Ecnt, Ecur, !Z.eqb_refl. reflexivity.
  - intros Hst Hnc. rewrite Gid, String.eqb_refl, Gc, Z.eqb_refl. cbn.
    rewrite Hst in Gm. rewrite (claimed_in_mask _ Hact Gm). cbn.
    destruct (ut_state u =? TClaimed) eqn:E; [|reflexivity]. exfalso. apply Z.eqb_eq in E.
    destruct (Hcl E) as [Ecur _]. rewrite Ecur in Gm. cbn in Gm. discriminate.
  - intros Hst Hc. exfalso. unfold claimed_with in Hc. cbn in Hc. apply andb_true_iff in Hc. destruct Hc as [Hc _]. apply Z.eqb_eq in Hc.
    destruct (Hcl Hc) as [Ecur _]. rewrite Hst, Ecur in Gm. cbn in Gm. discriminate.
  - intros Hst Hnc. unfold t_finished; cbn. unfold claimed_with in Hnc. cbn in Hnc.
    destruct Hv as [E|[E|[E|[E|E]]]]; rewrite E in *; cbn in *.
    + (* back to init: only the sweep does that from claimed, with counter + 1 *)
      destruct Hcnt as [Ec|[Ec _]]; [|right; lia].
      (* init with the same counter from a claimed row: no coroutine command has this shape; the guard of an
         init-with-same-counter command is [init] *)
      exfalso. rewrite (Hin eq_refl Ec) in Gm. rewrite Hst in Gm. cbn in Gm. discriminate.
    + exfalso. rewrite (Hen eq_refl) in Gm. rewrite Hst in Gm. cbn in Gm. discriminate.
    + exfalso. destruct (Hcl eq_refl) as [Ecur _]. rewrite Hst, Ecur in Gm. cbn in Gm. discriminate.
    + left. reflexivity.
    + left. reflexivity.
Qed.

Lemma complete_tasks_row : forall root completed t, ct_guard root t = true -> row_rel [CompleteTasks root completed] t (finish_t completed t).
Proof.
  intros root completed t G. unfold ct_guard in G. apply andb_true_iff in G. destruct G as [Gr Gs]. apply String.eqb_eq in Gr.
  unfold row_rel; cbn. split; [lia|]. split; [|split; [lia|split; [|split; [|split]]]].
  - intros Hf. exfalso. destruct (finished_states _ Hf) as [E|E]; rewrite E in Gs; cbn in Gs; discriminate.
  - intros H1. unfold claimed_with in H1. cbn in H1. discriminate.
  - intros _ _. rewrite Gr, String.eqb_refl. reflexivity.
  - intros _ H1. unfold claimed_with in H1. cbn in H1. discriminate.
  - intros _ _. left. reflexivity.
Qed.

(* every row of d has a row in d' with the same identity and an explained transition *)
Definition tasks_rel (cmds : list command) (d d' : db) : Prop :=
  forall t, In t (tasks d) -> exists t', In t' (tasks d') /\ tid_eq t t' /\ row_rel cmds t t'.

Lemma tasks_rel_map : forall cmds d d' (g : task -> task),
    tasks d' = map g (tasks d) -> (forall t, tid_eq t (g t) /\ row_rel cmds t (g t)) -> tasks_rel cmds d d'.
Proof. intros cmds d d' g E H t Ht. exists (g t). split; [rewrite E; apply in_map; exact Ht|apply H]. Qed.

Lemma tasks_rel_incl : forall cmds d d', (forall t, In t (tasks d) -> In t (tasks d')) -> tasks_rel cmds d d'.
Proof. intros cmds d d' H t Ht. exists t. split; [apply H; exact Ht|split; [apply tid_eq_refl|apply row_rel_refl]]. Qed.

Lemma exec_tasks_rel : forall now d c h d' r,
    cmd_at d now c -> exec d c h = Some (d', r) -> tasks_rel [c] d d'.
Proof.
  intros now d c h d' r Hc H. destruct (is_task_write c) eqn:W.
  - destruct c; cbn in W; try discriminate; cbn in H; unfold alter in H.
    + inversion H; subst. apply tasks_rel_incl. intros t Ht. unfold ex_create_task. destruct (find_task _ _); cbn; [exact Ht|apply in_or_app; tauto].
    + destruct (ex_create_tasks d pid created) as [x|] eqn:E; [|discriminate]. inversion H; subst.
      unfold ex_create_tasks in E. destruct (existsb _ _); [discriminate|]. inversion E; subst. apply tasks_rel_incl.
      intros t Ht. cbn. apply in_or_app. tauto.
    + inversion H; subst. eapply tasks_rel_map; [reflexivity|]. intros t. cbn. destruct (ct_guard root t) eqn:G.
      * split; [unfold tid_eq; cbn; repeat split; reflexivity|apply complete_tasks_row; exact G].
      * split; [apply tid_eq_refl|apply row_rel_refl].
    + inversion H; subst. eapply tasks_rel_map; [reflexivity|]. intros t. cbn. destruct (ut_guard c t) eqn:G.
      * split; [unfold tid_eq; cbn; repeat split; reflexivity|eapply update_row; eassumption].
      * split; [apply tid_eq_refl|apply row_rel_refl].
    + inversion H; subst. eapply tasks_rel_map; [reflexivity|]. intros t. cbn. destruct (hb_t_guard pid t) eqn:G.
      * split; [unfold tid_eq; cbn; repeat split; reflexivity|].
        unfold hb_t_guard in G. apply andb_true_iff in G. destruct G as [_ G]. apply Z.eqb_eq in G.
        unfold row_rel; cbn. split; [lia|]. split; [|split; [lia|split; [|split; [|split]]]].
        -- intros Hf. exfalso. destruct (finished_states _ Hf) as [E|E]; rewrite E in G; discriminate.
        -- intros H1 H2. unfold claimed_with in *. cbn in *. congruence.
        -- intros Hs H2. unfold claimed_with in H2. cbn in H2. rewrite Hs in H2. cbn in H2. rewrite Z.eqb_refl in H2. discriminate.
        -- auto.
        -- intros Hs H2. unfold claimed_with in H2. cbn in H2. rewrite Hs in H2. cbn in H2. rewrite Z.eqb_refl in H2. discriminate.
      * split; [apply tid_eq_refl|apply row_rel_refl].
    + apply tasks_rel_incl. intros t Ht. unfold ex_create_promise_and_task in H. pose proof (cp_tasks d pc) as H1.
      destruct (ex_create_promise d pc) as [d1 pr]. cbn in H1. destruct (pr =? 0).
      * inversion H; subst. rewrite H1. exact Ht.
      * unfold ex_create_task in H. destruct (find_task (ct_id tc) d1); inversion H; subst; cbn; rewrite H1; [exact Ht|apply in_or_app; tauto].
  - apply tasks_rel_incl. intros t Ht. rewrite (exec_tasks_frame _ _ _ _ _ H W). exact Ht.
Qed.

(* ---------- composition along a command list ---------- *)

Lemma existsb_cons_r : forall {A} (f : A -> bool) x l, existsb f l = true -> existsb f (x :: l) = true.
Proof. intros. cbn. rewrite H. apply orb_true_r. Qed.
Lemma existsb_cons_l : forall {A} (f : A -> bool) x l, existsb f [x] = true -> existsb f (x :: l) = true.
Proof. intros A f x l H. cbn in *. rewrite orb_false_r in H. rewrite H. reflexivity. Qed.

Lemma row_rel_comp : forall c cs t t1 t',
    tid_eq t t1 -> row_rel [c] t t1 -> row_rel cs t1 t' -> row_rel (c :: cs) t t'.
Proof.
  intros c cs t t1 t' E (A1&B1&C1&D1&E1&F1&G1) (A2&B2&C2&D2&E2&F2&G2).
  assert (Hid : t_id t1 = t_id t) by (destruct E as [a _]; congruence).
  assert (Hroot : t_root t1 = t_root t) by (destruct E as (_&_&a&_); congruence).
  assert (Hgone : t_state t = TClaimed -> claimed_with (t_counter t) t1 = false -> claimed_with (t_counter t) t' = false).
  { intros Hs Hn. destruct (G1 Hs Hn) as [Hf|Hlt].
    - rewrite (B2 Hf). exact Hn.
    - unfold claimed_with. assert ((t_counter t' =? t_counter t) = false) as -> by (apply Z.eqb_neq; lia). apply andb_false_r. }
  unfold row_rel. split; [lia|]. split; [|split; [|split; [|split; [|split]]]].
  - intros Hf. rewrite (B1 Hf) in *. apply B2. exact Hf.
  - intros Hlt. destruct (Z.lt_ge_cases (t_counter t) (t_counter t1)) as [H|H].
    + apply existsb_cons_l. apply C1. exact H.
    + apply existsb_cons_r. rewrite <- Hid. apply C2. lia.
  - intros H1 H2. destruct (claimed_with (t_counter t') t1) eqn:Em.
    + apply existsb_cons_l.
      assert (Hc : t_counter t1 = t_counter t').
      { unfold claimed_with in Em. apply andb_true_iff in Em. destruct Em as [_ Em]. apply Z.eqb_eq in Em. exact Em. }
      rewrite <- Hc. apply D1.
      * rewrite Hc. exact Em.
      * rewrite Hc. exact H2.
    + apply existsb_cons_r. rewrite <- Hid. apply D2; [assumption|reflexivity].
  - intros Hs Hn. destruct (claimed_with (t_counter t) t1) eqn:Em.
    + apply existsb_cons_r.
      assert (Hc : t_counter t1 = t_counter t /\ t_state t1 = TClaimed).
      { unfold claimed_with in Em. apply andb_true_iff in Em. destruct Em as [Em1 Em2]. apply Z.eqb_eq in Em1, Em2. tauto. }
      destruct Hc as [Hc Hst]. rewrite <- Hid, <- Hroot, <- Hc. apply E2; [exact Hst|]. rewrite Hc. exact Hn.
    + apply existsb_cons_l. apply E1; [assumption|reflexivity].
  - intros Hs Hc. destruct (claimed_with (t_counter t) t1) eqn:Em.
    + assert (Hc1 : t_counter t1 = t_counter t /\ t_state t1 = TClaimed).
      { unfold claimed_with in Em. apply andb_true_iff in Em. destruct Em as [Em1 Em2]. apply Z.eqb_eq in Em1, Em2. tauto. }
      destruct Hc1 as [Hc1 Hst]. rewrite <- (F1 Hs eq_refl). apply F2; [exact Hst|]. rewrite Hc1. exact Hc.
    + rewrite (Hgone Hs eq_refl) in Hc. discriminate.
  - intros Hs Hn. destruct (claimed_with (t_counter t) t1) eqn:Em.
    + assert (Hc1 : t_counter t1 = t_counter t /\ t_state t1 = TClaimed).
      { unfold claimed_with in Em. apply andb_true_iff in Em. destruct Em as [Em1 Em2]. apply Z.eqb_eq in Em1, Em2. tauto. }
      destruct Hc1 as [Hc1 Hst]. rewrite <- Hc1. apply G2; [exact Hst|]. rewrite Hc1. exact Hn.
    + destruct (G1 Hs eq_refl) as [Hf|Hlt]; [left; rewrite (B2 Hf); exact Hf|right; lia].
Qed.

Lemma tid_eq_trans : forall a b c, tid_eq a b -> tid_eq b c -> tid_eq a c.
Proof. intros a b c (a1&a2&a3&a4&a5&a6&a7) (b1&b2&b3&b4&b5&b6&b7). unfold tid_eq. repeat split; congruence. Qed.

Lemma exec_cmds_tasks_rel : forall now cs d0 d d',
    prom_uniq d0 -> prom_uniq d -> prom_le d0 d ->
    Forall (fun x => exists t, t <= now /\ cmd_at d0 t (fst x)) cs ->
    exec_cmds d cs = Some d' -> tasks_rel (map fst cs) d d'.
Proof.
  induction cs as [|[c h] cs IH]; intros d0 d d' U0 U L Hc H; cbn in H.
  - inversion H; subst. apply tasks_rel_incl. auto.
  - inversion Hc as [|? ? [t [Hle Hc1]] Hc2]; subst. cbn in Hc1. destruct (exec d c h) as [[d1 r]|] eqn:E; [|discriminate].
    assert (Hcd : cmd_at d t c) by (eapply cmd_at_mono_db; eassumption).
    assert (Hacc : accepts c = true).
    { destruct c; try reflexivity. cbn in Hcd. cbn. eapply up_ok_final; exact Hcd. }
    destruct (exec_prom_le _ _ _ _ _ U Hacc E) as [L1 U1].
    pose proof (exec_tasks_rel t d c h d1 r Hcd E) as R1.
    pose proof (IH d0 d1 d' U0 U1 (prom_le_trans d0 d d1 U0 U L L1) Hc2 H) as R2.
    intros x Hx. destruct (R1 x Hx) as [x1 [Hx1 [E1 Rel1]]]. destruct (R2 x1 Hx1) as [x' [Hx' [E2 Rel2]]].
    exists x'. split; [exact Hx'|]. split; [eapply tid_eq_trans; eassumption|]. cbn. eapply row_rel_comp; eassumption.
Qed.

(* ---------- booleans of the monitor ---------- *)

Lemma find_task_uniq : forall ts t, NoDup (map t_id ts) -> In t ts -> find (fun x => String.eqb (t_id x) (t_id t)) ts = Some t.
Proof.
  induction ts as [|x ts IH]; cbn; intros t U Hin; [contradiction|]. inversion U; subst.
  destruct Hin as [->|Hin].
  - rewrite String.eqb_refl. reflexivity.
  - destruct (String.eqb (t_id x) (t_id t)) eqn:E.
    + apply String.eqb_eq in E. exfalso. apply H1. rewrite E. apply in_map. exact Hin.
    + apply IH; assumption.
Qed.

Lemma c07_row_ok : forall cmds t t', tid_eq t t' -> row_rel cmds t t' -> c07_row cmds t t' = [].
Proof.
  intros cmds t t' (a&b&c&e&f&g&h) (A&B&C&D&E&F&G). unfold c07_row.
  assert (H1 : String.eqb (t_id t) (t_id t') && (t_sort t =? t_sort t') && String.eqb (t_root t) (t_root t') &&
               String.eqb (t_recv t) (t_recv t') && mesg_eqb (t_mesg t) (t_mesg t') && (t_timeout t =? t_timeout t') &&
               (t_created t =? t_created t') = true).
  { rewrite a, b, c, e, f, g, h, !String.eqb_refl, !Z.eqb_refl, mesg_eqb_refl. reflexivity. }
  rewrite H1. clear H1.
  assert (H2 : (t_counter t <=? t_counter t') = true) by (apply Z.leb_le; exact A). rewrite H2. clear H2.
  assert (H3 : (if t_finished t then if task_eqb t t' then [] else [702] else []) = @nil Z).
  { destruct (t_finished t) eqn:Ef; [|reflexivity]. rewrite (B eq_refl), task_eqb_refl. reflexivity. }
  rewrite H3. clear H3.
  assert (H4 : (t_counter t <? t_counter t') && negb (existsb (is_sweep (t_id t)) cmds) = false).
  { destruct (t_counter t <? t_counter t') eqn:El; [|reflexivity]. apply Z.ltb_lt in El. rewrite (C El). reflexivity. }
  rewrite H4. clear H4.
  assert (H5 : claimed_with (t_counter t') t' && negb (claimed_with (t_counter t') t) &&
               negb (existsb (is_claim (t_id t) (t_counter t')) cmds) = false).
  { destruct (claimed_with (t_counter t') t') eqn:E1; [|reflexivity]. destruct (claimed_with (t_counter t') t) eqn:E2; [reflexivity|].
    rewrite (D eq_refl eq_refl). reflexivity. }
  rewrite H5. clear H5.
  assert (H6 : (t_state t =? TClaimed) && negb (claimed_with (t_counter t) t') &&
               negb (existsb (is_leave (t_id t) (t_root t) (t_counter t)) cmds) = false).
  { destruct (t_state t =? TClaimed) eqn:Es; [|reflexivity]. destruct (claimed_with (t_counter t) t') eqn:E3; [reflexivity|].
    apply Z.eqb_eq in Es. rewrite (E Es eq_refl). reflexivity. }
  rewrite H6. clear H6.
  assert (H7 : (t_state t =? TClaimed) && claimed_with (t_counter t) t' && negb (opt_eqb String.eqb (t_pid t) (t_pid t')) = false).
  { destruct (t_state t =? TClaimed) eqn:Es; [|reflexivity]. destruct (claimed_with (t_counter t) t') eqn:E3; [|reflexivity].
    apply Z.eqb_eq in Es. rewrite (F Es eq_refl), opt_str_refl. reflexivity. }
  rewrite H7. clear H7.
  assert (H8 : (t_state t =? TClaimed) && negb (claimed_with (t_counter t) t') && negb (t_finished t' || (t_counter t <? t_counter t')) = false).
  { destruct (t_state t =? TClaimed) eqn:Es; [|reflexivity]. destruct (claimed_with (t_counter t) t') eqn:E3; [reflexivity|].
    apply Z.eqb_eq in Es. destruct (G Es eq_refl) as [Hf|Hlt]; [rewrite Hf; reflexivity|].
    apply Z.ltb_lt in Hlt. rewrite Hlt, orb_true_r. reflexivity. }
  rewrite H8. reflexivity.
Qed.

Lemma c07_exec_ok : forall cmds d d', task_uniq d' -> tasks_rel cmds d d' -> c07_exec cmds d d' = [].
Proof.
  intros cmds d d' TU R. unfold c07_exec. apply flat_map_nil. intros t Ht. destruct (R t Ht) as [t' [Ht' [E Rel]]].
  assert (Hid : t_id t = t_id t') by (destruct E as [a _]; exact a).
  unfold find_task. rewrite Hid. rewrite (find_task_uniq _ t' TU Ht'). apply c07_row_ok; assumption.
Qed.

Lemma cmd_at_c07 : forall d t c, cmd_at d t c -> c07_cmd t c = true.
Proof.
  intros d t c H. destruct c; cbn in *; try reflexivity; try (subst; apply Z.eqb_refl).
  destruct H as [_ H]. destruct (ut_state c =? TClaimed) eqn:E; [|reflexivity]. apply Z.eqb_eq in E. rewrite (H E), Z.eqb_refl. reflexivity.
Qed.

Lemma sub_at_c07 : forall d t s, sub_at d t s -> c07_sub t s = true.
Proof.
  intros d t s H. destruct s; cbn in *; try reflexivity. destruct H as [H _]. apply forallb_forall. intros c Hc.
  eapply cmd_at_c07. eapply Forall_forall; eassumption.
Qed.

(* ---------- step ---------- *)

Lemma flat_batch_cmd_at : forall d now (txns : list (list command * list (option (list string)))),
    Forall (fun x => exists t, t <= now /\ Forall (cmd_at d t) (fst x) /\ txn_shape (fst x)) txns ->
    Forall (fun x => exists t, t <= now /\ cmd_at d t (fst x)) (flat_batch txns).
Proof.
  intros d now txns H. unfold flat_batch. apply Forall_forall. intros x Hx. apply in_flat_map in Hx.
  destruct Hx as [[cs hs] [Hin Hx]]. eapply Forall_forall in H; [|exact Hin]. destruct H as [t [Hle [Hc _]]]. cbn in *.
  exists t. split; [exact Hle|]. clear - Hc Hx. revert hs Hx. induction Hc; intros hs Hx; cbn in Hx; [contradiction|].
  destruct Hx as [<-|Hx]; [exact H|]. eapply IHHc; exact Hx.
Qed.

Lemma c07_step : forall cfg s d s' ob,
    Inv05 s -> dir_wf d -> step cfg s d = Some (s', ob) -> Inv05 s' /\ c07_chk (s_now s) (s_db s) d ob = [].
Proof.
  intros cfg s d s' ob HI Hwf H. destruct (c05_step cfg s d s' ob HI Hwf H) as [HI' _]. split; [exact HI'|].
  destruct HI as [HS HC]. destruct d; try reflexivity.
  - destruct (tick_obs_ok cfg s t deliver bgs arrive s' ob HS Hwf H) as [_ [_ Hob]].
    cbn. apply flat_map_nil. intros x Hx. eapply Forall_forall in Hob; [|exact Hx].
    destruct Hob as [id [out [next [-> [Hsubs _]]]]].
    assert (forallb (c07_sub t) (o_subs out) = true) as ->; [|reflexivity].
    apply forallb_forall. intros sb Hsb. eapply sub_at_c07. eapply Forall_forall; eassumption.
  - destruct (exec_obs cfg s batch s' ob HS H) as [txns [Ht [[rss [Ee ->]]|[Ee [Hdb ->]]]]]; cbn; rewrite app_nil_r.
    + rewrite <- flat_batch_fst. apply c07_exec_ok; [exact (proj1 (proj2 (proj2 (proj2 HI'))))|].
      eapply exec_cmds_tasks_rel with (d0 := s_db s) (now := s_now s).
      * exact (SInv_uniq _ HS).
      * exact (SInv_uniq _ HS).
      * apply prom_le_refl.
      * apply flat_batch_cmd_at. exact Ht.
      * eapply exec_batch_cmds. exact Ee.
    + apply c07_exec_ok; [exact (proj1 (proj2 (proj2 HC)))|apply tasks_rel_incl; auto].
Qed.

Theorem C07_trace : forall cfg sch, sch_wf sch -> C07_mon (events cfg sch) = [].
Proof.
  intros cfg sch Hw. unfold C07_mon. apply mon_sound with (Inv := Inv05) (dir_ok := dir_wf).
  - intros s d s' ob HI Hd Hs. eapply c07_step; eassumption.
  - apply Inv05_init.
  - exact Hw.
Qed.
