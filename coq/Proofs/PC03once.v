(* C03, clause 302 at store level: over the whole life of a database - any number of batches, each any number of
   transactions of any accepted commands, failed batches rolled back - at most ONE create of an id and at most ONE
   completion of an id report that they took effect (rows affected <> 0).  "Took effect" is the only thing the create /
   complete coroutines turn into the answer 201 (C03_create_answers / C03_complete_answers), so a second 201 for one id
   needs a second report here. *)
From RV Require Import Mon StorePromises.
From Coq Require Import Lia.

(* what a command reports to have done to the promise table: (true, id) = created id, (false, id) = completed id *)
Definition took (c : command) (r : result) : list (bool * string) :=
  match c, r with
  | CreatePromise pc, RAlter n => if n =? 0 then [] else [(true, cp_id pc)]
  | CreatePromiseAndTask pc _, RAlter2 n _ => if n =? 0 then [] else [(true, cp_id pc)]
  | UpdatePromise u, RAlter n => if n =? 0 then [] else [(false, up_id u)]
  | _, _ => []
  end.

Fixpoint txn_took (cs : list command) (rs : list result) : list (bool * string) :=
  match cs, rs with
  | c :: cs', r :: rs' => (took c r ++ txn_took cs' rs')%list
  | _, _ => []
  end.

Fixpoint batch_took (txns : list (list command * list (option (list string)))) (rss : list (list result)) : list (bool * string) :=
  match txns, rss with
  | x :: txns', rs :: rss' => (txn_took (fst x) rs ++ batch_took txns' rss')%list
  | _, _ => []
  end.

(* the life of a database: a batch that fails leaves it as it was and reports nothing *)
Fixpoint life (d : db) (bs : list (list (list command * list (option (list string))))) : db * list (bool * string) :=
  match bs with
  | [] => (d, [])
  | b :: bs' =>
    match exec_batch d b with
    | Some (d1, rss) => let x := life d1 bs' in (fst x, (batch_took b rss ++ snd x)%list)
    | None => life d bs'
    end
  end.

(* the durable, monotone fact behind each report *)
Definition fact (d : db) (k : bool * string) : Prop :=
  exists q, In q (promises d) /\ p_id q = snd k /\ (fst k = false -> p_state q <> Pending).

Definition Step (d : db) (l : list (bool * string)) (d' : db) : Prop :=
  NoDup l /\ (forall k, In k l -> ~ fact d k) /\ (forall k, In k l -> fact d' k) /\ (forall k, fact d k -> fact d' k) /\
  prom_uniq d'.

Lemma Step_nil : forall d, prom_uniq d -> Step d [] d.
Proof. intros d U. split; [constructor|]. split; [intros k []|]. split; [intros k []|]. split; [tauto|exact U]. Qed.

Lemma Step_app : forall d l1 d1 l2 d2, Step d l1 d1 -> Step d1 l2 d2 -> Step d (l1 ++ l2) d2.
Proof.
  intros d l1 d1 l2 d2 (N1 & B1 & A1 & M1 & U1) (N2 & B2 & A2 & M2 & U2). split; [|split; [|split; [|split]]].
  - revert N1 A1. induction l1 as [|k l1 IH]; intros N1 A1; cbn; [exact N2|]. inversion N1 as [|? ? Hn Hl]; subst. constructor.
    + intros Hin. apply in_app_or in Hin. destruct Hin as [Hin|Hin]; [exact (Hn Hin)|].
      apply (B2 k Hin). apply A1. left. reflexivity.
    + apply IH; [|exact Hl|intros k' Hk'; apply A1; right; exact Hk'].
      intros k' Hk'. apply B1. right. exact Hk'.
  - intros k Hin Hf. apply in_app_or in Hin. destruct Hin as [Hin|Hin]; [exact (B1 k Hin Hf)|]. exact (B2 k Hin (M1 k Hf)).
  - intros k Hin. apply in_app_or in Hin. destruct Hin as [Hin|Hin]; [apply M2; exact (A1 k Hin)|exact (A2 k Hin)].
  - intros k Hf. apply M2. apply M1. exact Hf.
  - exact U2.
Qed.

Lemma fact_mono : forall d d' k, prom_le d d' -> fact d k -> fact d' k.
Proof.
  intros d d' k [PL _] [q [Hq [Hid Hs]]]. destruct (PL q Hq) as [q' [Hq' [Ce [Hfin _]]]]. exists q'. split; [exact Hq'|].
  destruct Ce as [E _]. split; [congruence|]. intros Hk. rewrite (Hfin (Hs Hk)). exact (Hs Hk).
Qed.

Lemma find_promise_some_in : forall id d p, find_promise id d = Some p -> In p (promises d) /\ p_id p = id.
Proof.
  intros id d p H. unfold find_promise in H. apply find_some in H. destruct H as [A B]. split; [exact A|].
  apply String.eqb_eq in B. exact B.
Qed.

Lemma create_took : forall d pc, let x := ex_create_promise d pc in
    snd x <> 0 -> ~ fact d (true, cp_id pc) /\ fact (fst x) (true, cp_id pc).
Proof.
  intros d pc x Hn. unfold x, ex_create_promise in *. destruct (find_promise (cp_id pc) d) as [p|] eqn:F; cbn in *; [contradiction Hn; reflexivity|].
  split.
  - intros [q [Hq [Hid _]]]. cbn in Hid. unfold find_promise in F. exact (find_promise_none_in _ _ q F Hq Hid).
  - exists (new_promise pc (next_p d)). split; [apply in_or_app; right; left; reflexivity|]. split; [reflexivity|]. cbn. discriminate.
Qed.

Lemma update_took : forall d u, prom_uniq d -> final_state (up_state u) = true -> let x := ex_update_promise d u in
    snd x <> 0 -> ~ fact d (false, up_id u) /\ fact (fst x) (false, up_id u).
Proof.
  intros d u U Hf x Hn. unfold x, ex_update_promise in *. cbn [fst snd] in *.
  destruct (filter (upd_guard u) (promises d)) as [|p l] eqn:E; [contradiction Hn; reflexivity|].
  assert (Hp : In p (filter (upd_guard u) (promises d))) by (rewrite E; left; reflexivity).
  apply filter_In in Hp. destruct Hp as [Hp Hg]. unfold upd_guard in Hg. apply andb_true_iff in Hg. destruct Hg as [Hid Hst].
  apply String.eqb_eq in Hid. apply Z.eqb_eq in Hst. split.
  - intros [q [Hq [Hqid Hqs]]]. cbn in Hqid, Hqs. apply (Hqs eq_refl).
    assert (q = p); [|subst q; exact Hst]. unfold prom_uniq in U. clear -U Hq Hp Hqid Hid.
    induction (promises d) as [|y ps IH]; [contradiction|]. cbn in U. inversion U as [|? ? Hn Hl]; subst.
    destruct Hq as [->|Hq], Hp as [->|Hp]; try reflexivity.
    + exfalso. apply Hn. rewrite Hqid, <- Hid. apply in_map. exact Hp.
    + exfalso. apply Hn. rewrite Hid, <- Hqid. apply in_map. exact Hq.
    + apply IH; assumption.
  - exists (complete_p u p). split.
    + cbn. apply in_map_iff. exists p. split; [|exact Hp]. unfold upd_guard. rewrite Hid, String.eqb_refl, Hst. reflexivity.
    + split; [exact Hid|]. intros _. cbn. apply final_not_pending. exact Hf.
Qed.

Lemma exec_Step : forall d c h d' r, prom_uniq d -> accepts c = true -> exec d c h = Some (d', r) -> Step d (took c r) d'.
Proof.
  intros d c h d' r U A H. destruct (exec_prom_le _ _ _ _ _ U A H) as [PL U'].
  assert (Hm : forall k, fact d k -> fact d' k) by (intros k; apply fact_mono; exact PL).
  assert (Hnil : took c r = [] -> Step d (took c r) d').
  { intros ->. split; [constructor|]. split; [intros k []|]. split; [intros k []|]. split; assumption. }
  assert (Hone : forall k, took c r = [k] -> ~ fact d k -> fact d' k -> Step d (took c r) d').
  { intros k -> Hb Ha. split; [constructor; [intros []|constructor]|]. split; [intros k' [<-|[]]; exact Hb|].
    split; [intros k' [<-|[]]; exact Ha|]. split; assumption. }
  destruct c; try (apply Hnil; destruct r; reflexivity).
  - (* CreatePromise *)
    cbn [exec] in H. unfold alter in H. injection H as Hd Hr. subst r. destruct (snd (ex_create_promise d c) =? 0) eqn:E.
    + apply Hnil. cbn [took]. rewrite E. reflexivity.
    + apply Z.eqb_neq in E. destruct (create_took d c E) as [Hb Ha]. rewrite Hd in Ha.
      apply (Hone (true, cp_id c)); [cbn [took]; apply Z.eqb_neq in E; rewrite E; reflexivity|exact Hb|exact Ha].
  - (* UpdatePromise *)
    assert (Hd : fst (ex_update_promise d c) = d') by (cbn [exec] in H; unfold alter in H; congruence).
    assert (Hr : r = RAlter (snd (ex_update_promise d c))) by (cbn [exec] in H; unfold alter in H; congruence).
    subst r. cbn in A. destruct (snd (ex_update_promise d c) =? 0) eqn:E.
    + apply Hnil. cbn [took]. rewrite E. reflexivity.
    + apply Z.eqb_neq in E. destruct (update_took d c U A E) as [Hb Ha]. rewrite Hd in Ha.
      apply (Hone (false, up_id c)); [cbn [took]; apply Z.eqb_neq in E; rewrite E; reflexivity|exact Hb|exact Ha].
  - (* CreatePromiseAndTask *)
    cbn [exec] in H. pose proof (cpt_promises d pc tc) as Ep. unfold ex_create_promise_and_task in *.
    destruct (ex_create_promise d pc) as [d1 pr] eqn:Ec. destruct (pr =? 0) eqn:E.
    + injection H as Hd Hr. subst r. apply Hnil. reflexivity.
    + destruct (ex_create_task d1 tc) as [d2 tr] eqn:Et. injection H as Hd Hr. subst r. pose proof E as E0. apply Z.eqb_neq in E. pose proof (create_took d pc) as Hc. rewrite Ec in Hc. cbn in Hc. destruct (Hc E) as [Hb Ha].
      apply (Hone (true, cp_id pc)); [cbn [took]; rewrite E0; reflexivity|exact Hb|].
      destruct Ha as [q [Hq Hr]]. exists q. split; [|exact Hr]. rewrite <- Hd. cbn in Ep. rewrite Ep. exact Hq.
Qed.

Lemma txn_Step : forall cs hs d d' rs, prom_uniq d -> Forall (fun c => accepts c = true) cs -> exec_txn d cs hs = Some (d', rs) ->
    Step d (txn_took cs rs) d'.
Proof.
  induction cs as [|c cs IH]; intros hs d d' rs U A H; cbn in H.
  - injection H as <- <-. apply Step_nil. exact U.
  - inversion A as [|? ? A1 A2]; subst. destruct (exec d c (hd None hs)) as [[d1 r]|] eqn:E; [|discriminate].
    destruct (exec_txn d1 cs (tl hs)) as [[d2 rs2]|] eqn:E2; [|discriminate]. injection H as <- <-. cbn [txn_took].
    pose proof (exec_Step _ _ _ _ _ U A1 E) as S1. eapply Step_app; [exact S1|]. apply (IH (tl hs)); [exact (proj2 (proj2 (proj2 (proj2 S1))))|exact A2|exact E2].
Qed.

Definition batch_accepted (b : list (list command * list (option (list string)))) : Prop :=
  Forall (fun x => Forall (fun c => accepts c = true) (fst x)) b.

Lemma batch_Step : forall txns d d' rss, prom_uniq d -> batch_accepted txns -> exec_batch d txns = Some (d', rss) ->
    Step d (batch_took txns rss) d'.
Proof.
  induction txns as [|[cs hs] txns IH]; intros d d' rss U A H; cbn in H.
  - injection H as <- <-. apply Step_nil. exact U.
  - inversion A as [|? ? A1 A2]; subst. destruct (exec_txn d cs hs) as [[d1 rs]|] eqn:E; [|discriminate].
    destruct (exec_batch d1 txns) as [[d2 rss2]|] eqn:E2; [|discriminate]. injection H as <- <-. cbn [batch_took fst].
    pose proof (txn_Step _ _ _ _ _ U A1 E) as S1. eapply Step_app; [exact S1|]. apply IH; [exact (proj2 (proj2 (proj2 (proj2 S1))))|exact A2|exact E2].
Qed.

Theorem life_Step : forall bs d, prom_uniq d -> Forall batch_accepted bs -> Step d (snd (life d bs)) (fst (life d bs)).
Proof.
  induction bs as [|b bs IH]; intros d U A; cbn [life].
  - apply Step_nil. exact U.
  - inversion A as [|? ? A1 A2]; subst. destruct (exec_batch d b) as [[d1 rss]|] eqn:E.
    + cbn [fst snd]. pose proof (batch_Step _ _ _ _ U A1 E) as S1. eapply Step_app; [exact S1|].
      apply IH; [exact (proj2 (proj2 (proj2 (proj2 S1))))|exact A2].
    + apply IH; assumption.
Qed.

(* the statement: no id is reported created twice, none completed twice; nothing that already exists is reported
   created, nothing already completed is reported completed *)
Theorem took_effect_once : forall bs, Forall batch_accepted bs ->
    NoDup (snd (life db0 bs)) /\
    forall d, prom_uniq d -> (forall id, In (true, id) (snd (life d bs)) -> forall q, In q (promises d) -> p_id q <> id) /\
                             (forall id, In (false, id) (snd (life d bs)) -> forall q, In q (promises d) -> p_id q = id -> p_state q = Pending).
Proof.
  intros bs A. split.
  - apply (life_Step bs db0); [constructor|exact A].
  - intros d U. destruct (life_Step bs d U A) as (_ & B & _). split.
    + intros id Hin q Hq Hid. apply (B _ Hin). exists q. split; [exact Hq|]. split; [exact Hid|]. cbn. discriminate.
    + intros id Hin q Hq Hid. destruct (Z.eq_dec (p_state q) Pending) as [e|ne]; [exact e|]. exfalso.
      apply (B _ Hin). exists q. split; [exact Hq|]. split; [exact Hid|]. intros _. exact ne.
Qed.

(* the transactions the coroutines submit are accepted ones *)
Lemma completion_accepted : forall u t, final_state (up_state u) = true -> Forall (fun c => accepts c = true) (completion_txn u t).
Proof. intros u t H. unfold completion_txn. repeat constructor. exact H. Qed.

(* ---------- the coroutines answer "took effect" (201) only on such a report ---------- *)
From RV Require Import MonC03 PC03.

Definition reports (c : cpl) : bool :=
  match c with
  | CStore (RAlter n :: _) => negb (n =? 0)
  | CStore (RAlter2 n _ :: _) => negb (n =? 0)
  | _ => false
  end.

Lemma created_needs_report : forall cfg k c now next r rsp,
    kcreate k r -> o_resp (resume_seq cfg k c now next) = Some rsp -> status_of rsp = 20100 ->
    reports c = true /\ exists tc0 wt pc tc, k = KCreate_store r tc0 wt pc tc /\ cp_id pc = cpr_id r.
Proof.
  intros cfg k c now next r rsp Hk H Hs. destruct k; cbn in Hk; try contradiction; cbn [resume_seq] in H.
  - (* the first read *)
    exfalso. destruct (one_promise c) as [[p|]|]; cbn in H.
    + destruct (overdue now p); cbn in H; [discriminate|].
      destruct (negb (cpr_strict r0 && negb (p_state p =? Pending)) && ikey_match (p_ikc p) (cpr_ikey r0)), with_task;
        injection H as <-; cbn in Hs; discriminate.
    + discriminate.
    + injection H as <-. cbn in Hs. discriminate.
  - (* the router answered *)
    exfalso. destruct (create_cmd pc tc c) as [[cmd tc']|]; cbn in H; [discriminate|]. injection H as <-. destruct c; cbn in Hs; discriminate.
  - (* the insert answered *)
    destruct Hk as [-> [_ [_ Hpc]]]. split; [|do 4 eexists; split; [reflexivity|exact (proj1 Hpc)]].
    destruct c as [rs| | |]; try (injection H as <-; cbn in Hs; discriminate).
    destruct rs as [|r0 rs]; [injection H as <-; cbn in Hs; discriminate|].
    destruct r0; try (injection H as <-; cbn in Hs; discriminate).
    + destruct with_task; [injection H as <-; cbn in Hs; discriminate|]. cbn. destruct (rows =? 0); [discriminate|reflexivity].
    + destruct (negb (prows =? trows)); [injection H as <-; cbn in Hs; discriminate|]. cbn. destruct (prows =? 0); [discriminate|reflexivity].
  - (* the lazy time-out answered *)
    exfalso. destruct (one_alter c) as [n|]; [|injection H as <-; cbn in Hs; discriminate].
    destruct (n =? 1); [|discriminate].
    destruct (negb (cpr_strict r0) && ikey_match (p_ikc p) (cpr_ikey r0)), with_task; injection H as <-; cbn in Hs; discriminate.
Qed.

Lemma completed_needs_report : forall cfg k c now next r rsp,
    kcomplete k r -> o_resp (resume_seq cfg k c now next) = Some rsp -> status_of rsp = 20100 ->
    reports c = true /\ exists p cmd, k = KComplete_up r p cmd 20100 /\ up_state cmd = cmr_state r.
Proof.
  intros cfg k c now next r rsp Hk H Hs. destruct k; cbn in Hk; try contradiction; cbn [resume_seq] in H.
  - exfalso. subst r0. destruct (one_promise c) as [[p|]|]; cbn in H.
    + destruct (p_state p =? Pending) eqn:Ep.
      * destruct (now <? p_timeout p); discriminate.
      * injection H as <-. cbn in Hs. unfold already_completed_status in Hs.
        destruct ((negb (cmr_strict r && negb (p_state p =? cmr_state r)) && ikey_match (p_iku p) (cmr_ikey r)) || negb (cmr_strict r) && (p_state p =? Timedout));
          [discriminate|]. destruct (p_state p =? Resolved); [discriminate|]. destruct (p_state p =? Rejected); [discriminate|].
        destruct (p_state p =? Canceled); discriminate.
    + injection H as <-. cbn in Hs. discriminate.
    + injection H as <-. cbn in Hs. discriminate.
  - destruct Hk as [-> [_ Hd]]. destruct (one_alter c) as [n|] eqn:Ea; [|injection H as <-; cbn in Hs; discriminate].
    destruct (n =? 1) eqn:En; [|discriminate]. injection H as <-. cbn in Hs. subst status.
    destruct c as [rs| | |]; cbn in Ea; try discriminate. destruct rs as [|r0 rs]; [discriminate|]. destruct r0; try discriminate.
    injection Ea as ->. apply Z.eqb_eq in En. subst n. split; [reflexivity|].
    destruct Hd as [[Hst _]|[_ Hst]].
    + do 2 eexists. split; [reflexivity|exact Hst].
    + exfalso. destruct (timedout_state (p_tags p) =? Resolved); [discriminate|]. destruct (cmr_strict r); discriminate.
Qed.
