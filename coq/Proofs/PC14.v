(* C14: following the cursors of a search returns exactly the matching set, once each, newest first.
   Part 1: paging over any strictly descending list (pure list theory).
   Part 2: the store's SearchPromises is that paging over the matching rows, and every reachable database keeps
           its promises strictly ascending by sort id (so "newest first" is well defined). *)
From RV Require Import Mon Eqb StorePromises.
From Coq Require Import Lia Sorting.Sorted.

(* ================= Part 1: paging ================= *)
Section Paging.
  Variable A : Type.
  Variable key : A -> Z.

  Definition desc (l : list A) : Prop := StronglySorted (fun a b => key b < key a) l.
  Definition belowk (s : option Z) (a : A) : bool := match s with None => true | Some s => key a <? s end.
  Definition last_key (l : list A) : Z := last (map key l) 0.

  Definition page (lim : nat) (s : option Z) (D : list A) : list A := firstn lim (filter (belowk s) D).

  (* the client: ask for a page; while the page is full, ask again with the cursor = sort id of its last row *)
  Fixpoint trav (fuel lim : nat) (s : option Z) (D : list A) : list (list A) :=
    match fuel with
    | O => []
    | S f => let pg := page lim s D in
             if Nat.eqb (List.length pg) lim then pg :: trav f lim (Some (last_key pg)) D else [pg]
    end.

  Lemma desc_filter : forall f l, desc l -> desc (filter f l).
  Proof.
    intros f l H. induction H as [|a l Hl IH Ha]; cbn; [constructor|].
    destruct (f a); [|exact IH]. constructor; [exact IH|].
    apply Forall_forall. intros x Hx. apply filter_In in Hx. destruct Hx as [Hx _].
    eapply Forall_forall in Ha; eassumption.
  Qed.

  Lemma desc_app : forall l1 l2, desc (l1 ++ l2) -> desc l1 /\ desc l2 /\ (forall a b, In a l1 -> In b l2 -> key b < key a).
  Proof.
    induction l1 as [|x l1 IH]; intros l2 H; cbn in *.
    - split; [constructor|]. split; [exact H|]. intros a b [].
    - inversion H as [|? ? Hs Hf]; subst. destruct (IH l2 Hs) as [D1 [D2 D3]]. split; [|split; [exact D2|]].
      + constructor; [exact D1|]. apply Forall_forall. intros y Hy. eapply Forall_forall in Hf; [exact Hf|]. apply in_or_app; tauto.
      + intros a b [<-|Ha] Hb; [|apply D3; assumption]. eapply Forall_forall in Hf; [exact Hf|]. apply in_or_app; tauto.
  Qed.

  Lemma filter_all : forall (f : A -> bool) l, (forall x, In x l -> f x = true) -> filter f l = l.
  Proof. induction l as [|x l IH]; intros H; cbn; [reflexivity|]. rewrite H by (left; reflexivity). rewrite IH; [reflexivity|]. intros; apply H; right; assumption. Qed.

  Lemma filter_none : forall (f : A -> bool) l, (forall x, In x l -> f x = false) -> filter f l = [].
  Proof. induction l as [|x l IH]; intros H; cbn; [reflexivity|]. rewrite H by (left; reflexivity). apply IH. intros; apply H; right; assumption. Qed.

  (* in a strictly descending list, "below the key of a" selects exactly what follows a *)
  Lemma filter_below_split : forall P a S, desc (P ++ a :: S) -> filter (belowk (Some (key a))) (P ++ a :: S) = S.
  Proof.
    intros P a S H. destruct (desc_app _ _ H) as [_ [D2 D3]]. inversion D2 as [|? ? Hs Hf]; subst.
    rewrite filter_app. rewrite filter_none.
    - cbn. assert ((key a <? key a) = false) as -> by (apply Z.ltb_ge; lia).
      apply filter_all. intros x Hx. cbn. apply Z.ltb_lt. eapply Forall_forall in Hf; eassumption.
    - intros x Hx. cbn. apply Z.ltb_ge. specialize (D3 x a Hx (or_introl eq_refl)). lia.
  Qed.

  Lemma last_key_app : forall P a, last_key (P ++ [a]) = key a.
  Proof. intros P a. unfold last_key. rewrite map_app. cbn. apply last_last. Qed.

  Lemma firstn_split_last : forall n (B : list A), List.length (firstn (S n) B) = S n ->
      exists P a, firstn (S n) B = P ++ [a] /\ B = P ++ a :: skipn (S n) B.
  Proof.
    intros n B H. destruct (exists_last (l := firstn (S n) B)) as [P [a E]].
    { intros E. rewrite E in H. discriminate. }
    exists P, a. split; [exact E|]. rewrite <- (firstn_skipn (S n) B) at 1. rewrite E, <- app_assoc. reflexivity.
  Qed.

  (* the next page continues exactly where the full page stopped *)
  Lemma next_cursor : forall n s D, desc D ->
      let B := filter (belowk s) D in
      List.length (firstn (S n) B) = S n ->
      filter (belowk (Some (last_key (firstn (S n) B)))) D = skipn (S n) B.
  Proof.
    intros n s D HD B Hlen. destruct (firstn_split_last n B Hlen) as [P [a [E1 E2]]].
    rewrite E1, last_key_app.
    assert (HB : desc B) by (apply desc_filter; exact HD).
    assert (Ha : In a B) by (rewrite E2; apply in_or_app; right; left; reflexivity).
    assert (Hsa : belowk s a = true) by (apply filter_In in Ha; tauto).
    (* below (key a) in D = below (key a) in B *)
    assert (Hsame : filter (belowk (Some (key a))) D = filter (belowk (Some (key a))) B).
    { unfold B. clear - Hsa. induction D as [|x D IH]; cbn; [reflexivity|].
      destruct (belowk s x) eqn:Ex; cbn; destruct (key x <? key a) eqn:Ek; try (rewrite IH; reflexivity).
      exfalso. destruct s as [s|]; unfold belowk in Hsa, Ex; [|discriminate]. apply Z.ltb_lt in Ek. apply Z.ltb_lt in Hsa. apply Z.ltb_ge in Ex. lia. }
    rewrite Hsame. rewrite E2 in HB |- * at 1. rewrite (filter_below_split P a _ HB). reflexivity.
  Qed.

  Theorem trav_complete : forall fuel lim s D,
      desc D -> (1 <= lim)%nat -> (List.length (filter (belowk s) D) < fuel)%nat ->
      List.concat (trav fuel lim s D) = filter (belowk s) D.
  Proof.
    induction fuel as [|f IH]; intros lim s D HD Hl Hf; [lia|]. cbn [trav]. unfold page.
    set (B := filter (belowk s) D) in *.
    destruct (Nat.eqb (List.length (firstn lim B)) lim) eqn:E.
    - apply Nat.eqb_eq in E. destruct lim as [|n]; [lia|]. cbn [List.concat].
      rewrite IH; [| exact HD | lia |].
      + unfold B. rewrite (next_cursor n s D HD E). apply firstn_skipn.
      + subst B. rewrite (next_cursor n s D HD E). rewrite skipn_length.
        rewrite firstn_length in E. lia.
    - apply Nat.eqb_neq in E. cbn. rewrite app_nil_r. apply firstn_all2. rewrite firstn_length in E. lia.
  Qed.

  (* every page is at most lim long, pages are pairwise disjoint and descending across page boundaries: all by
     trav_complete + desc; a cursor is handed out exactly when the page is full: by definition of trav *)
  Lemma page_length : forall lim s D, (List.length (page lim s D) <= lim)%nat.
  Proof. intros. unfold page. rewrite firstn_length. lia. Qed.
End Paging.

(* ================= Part 2: the store ================= *)

Definition matches (idq : string) (states : list Z) (tags : smap) (p : promise) : bool :=
  like (star_to_pct idq) (p_id p) && in_mask (p_state p) (mask_of states) &&
  match tags_match (p_tags p) tags with Some true => true | _ => false end.

Definition tags_total (tags : smap) (d : db) : Prop := forall p, In p (promises d) -> tags_match (p_tags p) tags <> None.

Lemma take_firstn : forall {A} n (l : list A), take n l = firstn n l.
Proof. induction n as [|n IH]; intros l; destruct l; cbn; try reflexivity. rewrite IH. reflexivity. Qed.

Lemma search_fold : forall idq states tags sid ps,
    (forall p, In p ps -> tags_match (p_tags p) tags <> None) ->
    fold_right (fun (p : promise) (acc : option (list promise)) =>
                  match acc with
                  | None => None
                  | Some l =>
                    if below sid (p_sort p) && like (star_to_pct idq) (p_id p) && in_mask (p_state p) (mask_of states) then
                      match tags_match (p_tags p) tags with
                      | Some true => Some (p :: l)
                      | Some false => Some l
                      | None => None
                      end
                    else Some l
                  end) (Some []) ps
    = Some (filter (fun p => below sid (p_sort p) && matches idq states tags p) ps).
Proof.
  intros idq states tags sid ps. induction ps as [|p ps IH]; intros Ht; cbn; [reflexivity|].
  rewrite IH by (intros; apply Ht; right; assumption). unfold matches.
  specialize (Ht p (or_introl eq_refl)).
  destruct (below sid (p_sort p)); cbn; [|reflexivity].
  destruct (like _ _); cbn; [|reflexivity]. destruct (in_mask _ _); cbn; [|reflexivity].
  destruct (tags_match (p_tags p) tags) as [[|]|]; [reflexivity|reflexivity|contradiction].
Qed.

Lemma filter_rev : forall {A} (f : A -> bool) l, filter f (rev l) = rev (filter f l).
Proof.
  induction l as [|x l IH]; cbn; [reflexivity|]. rewrite filter_app, IH. cbn. destruct (f x); cbn; [reflexivity|apply app_nil_r].
Qed.

Lemma filter_filter : forall {A} (f g : A -> bool) l, filter f (filter g l) = filter (fun x => f x && g x) l.
Proof. induction l as [|x l IH]; cbn; [reflexivity|]. destruct (g x); cbn; [destruct (f x); cbn; rewrite IH; reflexivity|rewrite IH, andb_false_r; reflexivity]. Qed.

(* the matching set of a database, newest first *)
Definition matching (d : db) (idq : string) (states : list Z) (tags : smap) : list promise :=
  filter (matches idq states tags) (rev (promises d)).

(* SearchPromises = one page over the matching set *)
Theorem search_is_page : forall d idq states tags lim sid,
    tags_total tags d -> 0 <= lim ->
    ex_search_promises d idq states tags lim sid =
    let pg := page promise p_sort (Z.to_nat lim) sid (matching d idq states tags) in
    Some (RPromises (Z.of_nat (List.length pg)) (last_key promise p_sort pg) pg).
Proof.
  intros d idq states tags lim sid Ht Hl. unfold ex_search_promises. rewrite search_fold by exact Ht.
  unfold limit_take. assert ((lim <? 0) = false) as -> by (apply Z.ltb_ge; lia).
  rewrite take_firstn. cbn zeta. unfold page, matching.
  rewrite <- filter_rev, filter_filter.
  assert (E : forall l, filter (fun p => below sid (p_sort p) && matches idq states tags p) l =
                        filter (fun x => belowk promise p_sort sid x && matches idq states tags x) l).
  { intros l. apply filter_ext. intros p. destruct sid; reflexivity. }
  rewrite E. reflexivity.
Qed.

(* ---------- sort ids: ascending in table order, below the counter, in every reachable database ---------- *)

Definition sort_ok (d : db) : Prop :=
  StronglySorted (fun a b => p_sort a < p_sort b) (promises d) /\ Forall (fun p => p_sort p < next_p d) (promises d).

Lemma sort_ok_init : sort_ok db0.
Proof. split; constructor. Qed.

Lemma sorted_app_one : forall l (x : promise),
    StronglySorted (fun a b => p_sort a < p_sort b) l -> Forall (fun p => p_sort p < p_sort x) l ->
    StronglySorted (fun a b => p_sort a < p_sort b) (l ++ [x]).
Proof.
  induction l as [|y l IH]; intros x Hs Hf; cbn; [constructor; constructor|].
  inversion Hs; subst. inversion Hf; subst. constructor; [apply IH; assumption|].
  apply Forall_app. split; [assumption|constructor; [assumption|constructor]].
Qed.

Lemma sorted_map_same : forall (g : promise -> promise) l,
    (forall p, p_sort (g p) = p_sort p) ->
    StronglySorted (fun a b => p_sort a < p_sort b) l -> StronglySorted (fun a b => p_sort a < p_sort b) (map g l).
Proof.
  intros g l Hg H. induction H as [|a l Hl IH Ha]; cbn; [constructor|]. constructor; [exact IH|].
  apply Forall_forall. intros x Hx. apply in_map_iff in Hx. destruct Hx as [y [<- Hy]]. rewrite !Hg.
  eapply Forall_forall in Ha; eassumption.
Qed.

Lemma create_sort_ok : forall d c, sort_ok d -> sort_ok (fst (ex_create_promise d c)).
Proof.
  intros d c [S F]. unfold ex_create_promise. destruct (find_promise (cp_id c) d); cbn.
  - split; [exact S|]. eapply Forall_impl; [|exact F]. cbn. intros; lia.
  - split.
    + apply sorted_app_one; [exact S|]. cbn. exact F.
    + apply Forall_app. split; [eapply Forall_impl; [|exact F]; cbn; intros; lia|]. constructor; [cbn; lia|constructor].
Qed.

Lemma sort_ok_same : forall d d', promises d' = promises d -> next_p d' = next_p d -> sort_ok d -> sort_ok d'.
Proof. intros d d' E1 E2 [S F]. unfold sort_ok. rewrite E1, E2. tauto. Qed.

Lemma exec_next_p_frame : forall d c h d' r, exec d c h = Some (d', r) -> is_promise_write c = false -> next_p d' = next_p d.
Proof.
  intros d c h d' r H W. destruct c; cbn in W; try discriminate; cbn in H; unfold alter in H;
    try (inversion H; subst; reflexivity).
  - destruct (ex_search_promises _ _ _ _ _ _); inversion H; reflexivity.
  - inversion H; subst. unfold ex_create_callback. destruct (_ && _); reflexivity.
  - destruct (ex_search_schedules _ _ _ _ _); inversion H; reflexivity.
  - inversion H; subst. unfold ex_create_schedule. destruct (find_schedule _ _); reflexivity.
  - destruct (ex_read_enqueueable _ _ _); inversion H; reflexivity.
  - inversion H; subst. unfold ex_create_task. destruct (find_task _ _); reflexivity.
  - destruct (ex_create_tasks d pid created) as [x|] eqn:E; [|discriminate]. inversion H; subst.
    unfold ex_create_tasks in E. destruct (existsb _ _); [discriminate|]. inversion E; reflexivity.
  - inversion H; subst. unfold ex_acquire_lock. destruct (find_lock _ _); [destruct (String.eqb _ _)|]; reflexivity.
Qed.

Theorem exec_sort_ok : forall d c h d' r, exec d c h = Some (d', r) -> sort_ok d -> sort_ok d'.
Proof.
  intros d c h d' r H HS. destruct (is_promise_write c) eqn:W.
  - destruct c; cbn in W; try discriminate; cbn in H; unfold alter in H.
    + inversion H; subst. apply create_sort_ok; exact HS.
    + inversion H; subst. destruct HS as [S F]. unfold ex_update_promise; cbn. split.
      * apply sorted_map_same; [intros p; destruct (upd_guard c p); reflexivity|exact S].
      * apply Forall_forall. intros x Hx. apply in_map_iff in Hx. destruct Hx as [y [<- Hy]].
        eapply Forall_forall in F; [|exact Hy]. destruct (upd_guard c y); exact F.
    + unfold ex_create_promise_and_task in H. pose proof (create_sort_ok d pc HS) as H1.
      destruct (ex_create_promise d pc) as [d1 pr]. cbn in H1. destruct (pr =? 0).
      * inversion H; subst. exact H1.
      * unfold ex_create_task in H. destruct (find_task (ct_id tc) d1); inversion H; subst; (eapply sort_ok_same; [| |exact H1]; reflexivity).
  - eapply sort_ok_same; [eapply exec_promises_frame; eassumption|eapply exec_next_p_frame; eassumption|exact HS].
Qed.

Lemma desc_snoc : forall r (a : promise),
    desc promise p_sort r -> Forall (fun x => p_sort a < p_sort x) r -> desc promise p_sort (r ++ [a]).
Proof.
  unfold desc. intros r a IH Hr. induction IH as [|y r Hs IHr Hy]; cbn; [constructor; constructor|].
  inversion Hr; subst. constructor; [apply IHr; assumption|]. apply Forall_app. split; [exact Hy|constructor; [assumption|constructor]].
Qed.

Lemma asc_rev_desc : forall l, StronglySorted (fun a b => p_sort a < p_sort b) l -> desc promise p_sort (rev l).
Proof.
  intros l H. induction H as [|a l Hl IH Ha]; cbn; [constructor|].
  apply desc_snoc; [exact IH|]. apply Forall_forall. intros x Hx. eapply Forall_forall in Ha; [exact Ha|]. apply in_rev. exact Hx.
Qed.

Lemma matching_desc : forall d idq states tags, sort_ok d -> desc promise p_sort (matching d idq states tags).
Proof. intros d idq states tags [S _]. unfold matching. apply desc_filter. apply asc_rev_desc. exact S. Qed.

(* ---------- the traversal of a database that does not change ---------- *)
Theorem search_traversal_complete : forall d idq states tags lim fuel,
    sort_ok d -> (1 <= lim)%nat -> (List.length (matching d idq states tags) < fuel)%nat ->
    List.concat (trav promise p_sort fuel lim None (matching d idq states tags)) = matching d idq states tags.
Proof.
  intros d idq states tags lim fuel HS Hl Hf.
  rewrite (trav_complete promise p_sort fuel lim None _ (matching_desc d idq states tags HS) Hl).
  - apply filter_all. intros; reflexivity.
  - rewrite filter_all by (intros; reflexivity). exact Hf.
Qed.
