(* Store lemmas about the locks table: what each of the 27 commands can and cannot do to it. *)
From RV Require Import Mon MonC09.
From Coq Require Import Lia.

(* ---------- sequential execution of a command list, ignoring results ---------- *)

Fixpoint exec_cmds (d : db) (cs : list (command * option (list string))) : option db :=
  match cs with
  | [] => Some d
  | (c, h) :: cs' => match exec d c h with
                     | Some (d1, _) => exec_cmds d1 cs'
                     | None => None
                     end
  end.

Fixpoint zip_hints (cs : list command) (hs : list (option (list string))) : list (command * option (list string)) :=
  match cs with
  | [] => []
  | c :: cs' => (c, hd None hs) :: zip_hints cs' (tl hs)
  end.

Definition flat_batch (txns : list (list command * list (option (list string)))) :=
  flat_map (fun x => zip_hints (fst x) (snd x)) txns.

Lemma exec_cmds_app : forall a b d, exec_cmds d (a ++ b) = match exec_cmds d a with Some d1 => exec_cmds d1 b | None => None end.
Proof.
  induction a as [|[c h] a IH]; intros b d; cbn; [reflexivity|].
  destruct (exec d c h) as [[d1 r]|]; [apply IH|reflexivity].
Qed.

Lemma exec_txn_cmds : forall cs hs d d' rs, exec_txn d cs hs = Some (d', rs) -> exec_cmds d (zip_hints cs hs) = Some d'.
Proof.
  induction cs as [|c cs IH]; intros hs d d' rs H; cbn in *.
  - inversion H; reflexivity.
  - destruct (exec d c (hd None hs)) as [[d1 r]|]; [|discriminate].
    destruct (exec_txn d1 cs (tl hs)) as [[d2 rs2]|] eqn:E; [|discriminate].
    inversion H; subst. eapply IH; eassumption.
Qed.

Lemma exec_batch_cmds : forall txns d d' rss, exec_batch d txns = Some (d', rss) -> exec_cmds d (flat_batch txns) = Some d'.
Proof.
  induction txns as [|[cs hs] txns IH]; intros d d' rss H; cbn in *.
  - inversion H; reflexivity.
  - destruct (exec_txn d cs hs) as [[d1 rs]|] eqn:E1; [|discriminate].
    destruct (exec_batch d1 txns) as [[d2 rss2]|] eqn:E2; [|discriminate].
    inversion H; subst. unfold flat_batch in *. cbn. rewrite exec_cmds_app.
    rewrite (exec_txn_cmds _ _ _ _ _ E1). eapply IH; eassumption.
Qed.

Lemma zip_hints_fst : forall cs hs, map fst (zip_hints cs hs) = cs.
Proof. induction cs as [|c cs IH]; intros hs; cbn; [reflexivity|]. f_equal; apply IH. Qed.

Lemma flat_batch_fst : forall txns, map fst (flat_batch txns) = List.concat (map fst txns).
Proof.
  induction txns as [|[cs hs] txns IH]; cbn; [reflexivity|].
  unfold flat_batch in *; cbn. rewrite map_app, zip_hints_fst, IH. reflexivity.
Qed.

(* ---------- which commands leave the locks table alone ---------- *)

Definition is_lock_write (c : command) : bool :=
  match c with
  | AcquireLock _ _ _ _ _ | ReleaseLock _ _ | HeartbeatLocks _ _ | TimeoutLocks _ => true
  | _ => false
  end.

Lemma cp_locks d c : locks (fst (ex_create_promise d c)) = locks d.
Proof. unfold ex_create_promise. destruct (find_promise _ _); reflexivity. Qed.
Lemma ct_locks d c : locks (fst (ex_create_task d c)) = locks d.
Proof. unfold ex_create_task. destruct (find_task _ _); reflexivity. Qed.
Lemma cs_locks d c : locks (fst (ex_create_schedule d c)) = locks d.
Proof. unfold ex_create_schedule. destruct (find_schedule _ _); reflexivity. Qed.
Lemma cc_locks d c : locks (fst (ex_create_callback d c)) = locks d.
Proof. unfold ex_create_callback. destruct (_ && _); reflexivity. Qed.
Lemma cpt_locks d pc tc : locks (fst (ex_create_promise_and_task d pc tc)) = locks d.
Proof.
  unfold ex_create_promise_and_task. pose proof (cp_locks d pc) as H1.
  destruct (ex_create_promise d pc) as [d1 pr]. cbn in H1. destruct (pr =? 0); cbn; [exact H1|].
  pose proof (ct_locks d1 tc) as H2. destruct (ex_create_task d1 tc) as [d2 tr]. cbn in *. congruence.
Qed.
Lemma cts_locks d pid cr x : ex_create_tasks d pid cr = Some x -> locks (fst x) = locks d.
Proof. unfold ex_create_tasks. destruct (existsb _ _); [discriminate|]. intros H; inversion H; reflexivity. Qed.

Lemma exec_locks_frame : forall d c h d' r, exec d c h = Some (d', r) -> is_lock_write c = false -> locks d' = locks d.
Proof.
  intros d c h d' r H Hw. destruct c; cbn in Hw; try discriminate; cbn in H; unfold alter in H;
    try (inversion H; subst; reflexivity).
  - destruct (ex_search_promises _ _ _ _ _ _); inversion H; reflexivity.
  - inversion H; subst. apply cp_locks.
  - inversion H; subst. apply cc_locks.
  - destruct (ex_search_schedules _ _ _ _ _); inversion H; reflexivity.
  - inversion H; subst. apply cs_locks.
  - destruct (ex_read_enqueueable _ _ _); inversion H; reflexivity.
  - inversion H; subst. apply ct_locks.
  - destruct (ex_create_tasks d pid created) as [x|] eqn:E; [|discriminate]. inversion H; subst.
    eapply cts_locks; eassumption.
  - pose proof (cpt_locks d pc tc) as H1. destruct (ex_create_promise_and_task d pc tc) as [d1 [pr tr]].
    inversion H; subst. exact H1.
Qed.

(* ---------- uniqueness of the resource key ---------- *)

Definition locks_uniq (d : db) : Prop := NoDup (map l_res (locks d)).

Lemma find_lock_none : forall res ls, find (fun l => String.eqb (l_res l) res) ls = None -> ~ In res (map l_res ls).
Proof.
  induction ls as [|l ls IH]; cbn; intros H; [tauto|].
  destruct (String.eqb (l_res l) res) eqn:E; [discriminate|]. apply String.eqb_neq in E.
  intros [H1|H1]; [congruence|]. apply IH; assumption.
Qed.

Lemma find_lock_some : forall res ls l, find (fun l => String.eqb (l_res l) res) ls = Some l -> In l ls /\ l_res l = res.
Proof.
  induction ls as [|x ls IH]; cbn; intros l H; [discriminate|].
  destruct (String.eqb (l_res x) res) eqn:E.
  - inversion H; subst. apply String.eqb_eq in E. tauto.
  - destruct (IH l H); tauto.
Qed.

Lemma NoDup_map_filter : forall (f : lock -> bool) ls, NoDup (map l_res ls) -> NoDup (map l_res (filter f ls)).
Proof.
  induction ls as [|x ls IH]; cbn; intros H; [constructor|]. inversion H; subst.
  destruct (f x); cbn; [constructor|]; auto.
  intros Hin. apply H2. apply in_map_iff in Hin. destruct Hin as [y [Hy Hin]]. apply filter_In in Hin.
  apply in_map_iff. exists y; tauto.
Qed.

Lemma map_res_map : forall (g : lock -> lock) ls, (forall l, l_res (g l) = l_res l) -> map l_res (map g ls) = map l_res ls.
Proof. intros g ls H. rewrite map_map. apply map_ext. exact H. Qed.

Lemma uniq_same_res : forall ls a b, NoDup (map l_res ls) -> In a ls -> In b ls -> l_res a = l_res b -> a = b.
Proof.
  induction ls as [|x ls IH]; cbn; intros a b H Ha Hb E; [contradiction|]. inversion H; subst.
  destruct Ha as [Ha|Ha], Hb as [Hb|Hb]; subst; auto.
  - exfalso. apply H2. rewrite E. apply in_map; assumption.
  - exfalso. apply H2. rewrite <- E. apply in_map; assumption.
Qed.

Lemma exec_uniq : forall d c h d' r, locks_uniq d -> exec d c h = Some (d', r) -> locks_uniq d'.
Proof.
  intros d c h d' r U H. destruct (is_lock_write c) eqn:W.
  - destruct c; cbn in W; try discriminate; cbn in H; unfold alter in H; inversion H; subst; clear H; unfold locks_uniq in *.
    + unfold ex_acquire_lock. destruct (find_lock res d) as [l|] eqn:F; cbn.
      * destruct (String.eqb (l_exec l) exec); cbn; [|exact U].
        rewrite map_res_map; [exact U|]. intros x. destruct (String.eqb (l_res x) res); reflexivity.
      * rewrite map_app. cbn.
        assert (Hn : ~ In res (map l_res (locks d))) by (apply find_lock_none; exact F).
        clear F. revert U Hn. generalize (map l_res (locks d)) as xs.
        induction xs as [|x xs IH]; cbn; intros U Hn; [constructor; [tauto|constructor]|].
        inversion U; subst. constructor.
        -- rewrite in_app_iff. cbn. intros [Hx|[Hx|[]]]; [tauto|]. apply Hn. left; congruence.
        -- apply IH; [assumption|tauto].
    + cbn. apply NoDup_map_filter; exact U.
    + cbn. rewrite map_res_map; [exact U|]. intros x. destruct (String.eqb (l_proc x) proc); reflexivity.
    + cbn. apply NoDup_map_filter; exact U.
  - unfold locks_uniq. rewrite (exec_locks_frame _ _ _ _ _ H W). exact U.
Qed.

Lemma exec_cmds_uniq : forall cs d d', locks_uniq d -> exec_cmds d cs = Some d' -> locks_uniq d'.
Proof.
  induction cs as [|[c h] cs IH]; cbn; intros d d' U H; [inversion H; subst; exact U|].
  destruct (exec d c h) as [[d1 r]|] eqn:E; [|discriminate]. eapply IH; [|eassumption]. eapply exec_uniq; eassumption.
Qed.

(* ---------- what may happen to a lock row ---------- *)

Definition same4 (l l' : lock) : Prop :=
  l_res l = l_res l' /\ l_exec l = l_exec l' /\ l_proc l = l_proc l' /\ l_ttl l = l_ttl l'.
Definition cmd_time_ok (now : Z) (c : command) : Prop :=
  match c with TimeoutLocks t => t <= now | _ => True end.

Lemma lock_kept_or_justified : forall now d c h d' r l,
    locks_uniq d -> exec d c h = Some (d', r) -> cmd_time_ok now c -> In l (locks d) ->
    In l (locks d') \/ l_exp l <= now \/ touches l c = true.
Proof.
  intros now d c h d' r l U H T Hl. destruct (is_lock_write c) eqn:W.
  - destruct c; cbn in W; try discriminate; cbn in H; unfold alter in H; inversion H; subst; clear H; cbn.
    + unfold ex_acquire_lock. destruct (find_lock res d) as [l0|] eqn:F; cbn.
      * destruct (find_lock_some _ _ _ F) as [Hin0 Hres0].
        destruct (String.eqb (l_exec l0) exec) eqn:E; cbn; [|tauto].
        destruct (String.eqb res (l_res l)) eqn:Er.
        -- apply String.eqb_eq in Er. assert (l = l0) by (eapply uniq_same_res; eauto; congruence). subst l0.
           apply String.eqb_eq in E. right; right. rewrite <- E. rewrite String.eqb_refl. reflexivity.
        -- left. apply in_map_iff. exists l. split; [|assumption].
           rewrite String.eqb_sym in Er. rewrite Er. reflexivity.
      * left. apply in_or_app. tauto.
    + destruct (rl_guard res exec l) eqn:G.
      * right; right. unfold rl_guard in G. rewrite (String.eqb_sym res), (String.eqb_sym exec). exact G.
      * left. apply filter_In. rewrite G. tauto.
    + destruct (String.eqb proc (l_proc l)) eqn:E; [tauto|]. left. apply in_map_iff. exists l.
      rewrite String.eqb_sym in E. rewrite E. tauto.
    + cbn in T. destruct (l_exp l <=? time) eqn:E.
      * right; left. apply Z.leb_le in E. lia.
      * left. apply filter_In. rewrite E. tauto.
  - left. rewrite (exec_locks_frame _ _ _ _ _ H W). exact Hl.
Qed.

Lemma lock_new_justified : forall d c h d' r l',
    locks_uniq d -> exec d c h = Some (d', r) -> In l' (locks d') ->
    In l' (locks d) \/ acq_exact l' c = true \/ (hb_for l' c = true /\ exists l, In l (locks d) /\ same4 l l').
Proof.
  intros d c h d' r l' U H Hl. destruct (is_lock_write c) eqn:W.
  - destruct c; cbn in W; try discriminate; cbn in H; unfold alter in H; inversion H; subst; clear H; cbn in *.
    + unfold ex_acquire_lock in Hl. destruct (find_lock res d) as [l0|] eqn:F; cbn in Hl.
      * destruct (String.eqb (l_exec l0) exec) eqn:E; cbn in Hl; [|tauto].
        apply in_map_iff in Hl. destruct Hl as [x [Hx Hin]].
        destruct (String.eqb (l_res x) res) eqn:Er; [|subst; tauto].
        right; left. subst l'. cbn. apply String.eqb_eq in Er.
        destruct (find_lock_some _ _ _ F) as [Hin0 Hres0].
        rewrite Er, !String.eqb_refl. cbn.
        assert (x = l0) by (eapply uniq_same_res; eauto; congruence). subst x.
        apply String.eqb_eq in E. rewrite E, !String.eqb_refl, !Z.eqb_refl. reflexivity.
      * apply in_app_or in Hl. destruct Hl as [Hl|[Hl|[]]]; [tauto|]. subst l'. right; left. cbn.
        rewrite !String.eqb_refl, !Z.eqb_refl. reflexivity.
    + apply filter_In in Hl. tauto.
    + apply in_map_iff in Hl. destruct Hl as [x [Hx Hin]].
      destruct (String.eqb (l_proc x) proc) eqn:E; [|subst; tauto].
      right; right. subst l'. cbn. apply String.eqb_eq in E. subst proc. rewrite String.eqb_refl, Z.eqb_refl. split; [reflexivity|].
      exists x. unfold same4; cbn. tauto.
    + apply filter_In in Hl. tauto.
  - left. rewrite <- (exec_locks_frame _ _ _ _ _ H W). exact Hl.
Qed.
