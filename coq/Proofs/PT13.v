(* C13, internal assertions of the model for EVERY schedule - the sweep's: "every promise the time-out sweep was handed
   is overdue".  A submission that reads the overdue promises at time t is answered with rows that are pending and
   due at t, and it is delivered at a clock that is not before t. *)
From RV Require Import Mon Framework StoreLocks StorePromises StoreCallbacks Discipline SysInv Eqb PC05 Batch.
From Coq Require Import Lia.

(* what is known about a time-out read that has its completion *)
Definition sweep_fact (now : Z) (pe : pend) : Prop :=
  match pd_sub pe, pd_ready pe with
  | SStore [ReadPromises t _], Some (CStore (RPromises _ _ recs :: _)) =>
    t <= now /\ Forall (fun p => p_state p = Pending /\ p_timeout p <= t) recs
  | _, _ => True
  end.

Definition WInv (s : sys) : Prop := Forall (sweep_fact (s_now s)) (s_pend s).

Lemma sweep_fact_later : forall now now' pe, now <= now' -> sweep_fact now pe -> sweep_fact now' pe.
Proof.
  intros now now' pe H F. unfold sweep_fact in *. destruct (pd_sub pe) as [cs| |]; try exact I.
  destruct cs as [|c cs]; try exact I. destruct c; try exact I. destruct cs; try exact I.
  destruct (pd_ready pe) as [c|]; try exact I. destruct c as [rs| | |]; try exact I. destruct rs as [|r rs]; try exact I.
  destruct r; try exact I. destruct F as [A B]. split; [lia|exact B].
Qed.

Lemma limit_take_in : forall {A} lim (l : list A) x, In x (limit_take lim l) -> In x l.
Proof.
  intros A lim l x H. unfold limit_take in H. destruct (lim <? 0); [exact H|].
  revert l H. induction (Z.to_nat lim) as [|n IH]; intros l H; destruct l; cbn in H; try contradiction.
  destruct H as [<-|H]; [left; reflexivity|right; apply IH; exact H].
Qed.

Lemma read_promises_rows : forall d t lim rows last recs,
    ex_read_promises d t lim = RPromises rows last recs -> Forall (fun p => p_state p = Pending /\ p_timeout p <= t) recs.
Proof.
  intros d t lim rows last recs H. unfold ex_read_promises in H. injection H as _ _ <-.
  apply Forall_forall. intros p Hp. apply limit_take_in in Hp. apply filter_In in Hp. destruct Hp as [_ Hp].
  apply andb_true_iff in Hp. destruct Hp as [A B]. split; [apply Z.eqb_eq in A; exact A|apply Z.leb_le in B; exact B].
Qed.

(* the sweep never hits its assertion *)
Lemma sweep_no_panic : forall cfg now next t l c pe,
    pd_sub pe = SStore [ReadPromises t l] -> pd_ready pe = Some c -> sweep_fact now pe ->
    o_resp (resume_seq cfg KBgTimeoutP c now next) <> Some RspPanic.
Proof.
  intros cfg now next t l c pe Hs Hr F. unfold sweep_fact in F. rewrite Hs, Hr in F. cbn [resume_seq].
  destruct c as [rs| | |]; cbn; try discriminate. destruct rs as [|r rs]; cbn; try discriminate. destruct r; cbn; try discriminate.
  destruct F as [Ht Hrecs].
  assert (Ho : forallb (overdue now) recs = true).
  { apply forallb_forall. intros p Hp. destruct (proj1 (Forall_forall _ _) Hrecs p Hp) as [A B]. unfold overdue. rewrite A.
    cbn. apply Z.leb_le. lia. }
  rewrite Ho. cbn. destruct (spawn_timeouts recs now next) as [sl sb]. destruct sl; cbn; discriminate.
Qed.

(* ---------- the invariant along every schedule ---------- *)
Definition P13 (now : Z) (pe : pend) : Prop :=
  sweep_fact now pe /\ (pd_ready pe = None -> forall t l, pd_sub pe = SStore [ReadPromises t l] -> t <= now).

Lemma pend_ok_read_time : forall d now pe t l,
    pend_ok d now pe -> pd_ready pe = None -> pd_sub pe = SStore [ReadPromises t l] -> t <= now.
Proof.
  intros d now pe t l H Hr Hs. unfold pend_ok in H. rewrite Hr in H. destruct H as [t0 [Ht0 Hat]]. rewrite Hs in Hat.
  cbn in Hat. destruct Hat as [Hc _]. inversion Hc as [|? ? Hc1 _]; subst. cbn in Hc1. lia.
Qed.

Lemma exec_batch_each : forall txns d d' rss,
    exec_batch d txns = Some (d', rss) ->
    Forall2 (fun x rs => exists dx dx', exec_txn dx (fst x) (snd x) = Some (dx', rs)) txns rss.
Proof.
  induction txns as [|[cs hs] txns IH]; intros d d' rss H; cbn in H.
  - injection H as _ <-. constructor.
  - destruct (exec_txn d cs hs) as [[d1 rs]|] eqn:E; [|discriminate].
    destruct (exec_batch d1 txns) as [[d2 rss2]|] eqn:E2; [|discriminate]. injection H as _ <-.
    constructor; [exists d, d1; exact E|eapply IH; exact E2].
Qed.

Lemma sweep_fact_not_store : forall now pe c,
    match c with CStore _ => False | _ => True end ->
    sweep_fact now (mkPend (pd_id pe) (pd_n pe) (pd_sub pe) (pd_group pe) (Some c)).
Proof.
  intros now pe c H. unfold sweep_fact. cbn. destruct (pd_sub pe) as [cs| |]; try exact I.
  destruct cs as [|c0 cs]; try exact I. destruct c0; try exact I. destruct cs; try exact I. destruct c; try exact I. contradiction.
Qed.

Lemma WInv_step : forall cfg s d s' ob,
    SInv s -> WInv s -> dir_wf d -> step cfg s d = Some (s', ob) -> WInv s'.
Proof.
  intros cfg s d s' ob HS HW Hwf H. pose proof HS as [[U TS] [HP [HI ND]]]. unfold WInv in *. destruct d; cbn in H.
  - (* tick *)
    destruct (t <? s_now s) eqn:Et; [discriminate|]. apply Z.ltb_ge in Et.
    destruct (negb (ids_fresh s (map fst bgs ++ map fst arrive))); [discriminate|].
    destruct (take_deliveries deliver (s_pend s)) as [[ds pl]|] eqn:Etd; [|discriminate].
    destruct (take_deliveries_spec _ _ _ _ Etd) as [Hsub _].
    destruct (run_insts cfg t (s_group s) ds (s_insts s)) as [[il1 pl1] ob1] eqn:E1.
    match type of H with context [start_insts ?st ?g] => set (starts := st) in * end.
    destruct (start_insts starts (s_group s)) as [[il2 pl2] ob2] eqn:E2.
    injection H as <- _. cbn [s_now s_pend].
    pose proof (run_insts_spec cfg t (s_group s) ds (s_insts s)) as R1. rewrite E1 in R1. destruct R1 as [_ [R1p _]].
    pose proof (start_insts_spec starts (s_group s)) as R2. rewrite E2 in R2. destruct R2 as [_ [R2p _]].
    apply Forall_forall. intros pe Hpe. apply in_app_or in Hpe. destruct Hpe as [Hpe|Hpe]; [|apply in_app_or in Hpe; destruct Hpe as [Hpe|Hpe]].
    + eapply sweep_fact_later; [exact Et|]. exact (proj1 (Forall_forall _ _) HW pe (Hsub pe Hpe)).
    + destruct (R1p pe Hpe) as [i [_ Hn]]. destruct (number_subs_in _ _ _ _ _ Hn) as [_ [_ [_ Hr]]].
      unfold sweep_fact. rewrite Hr. destruct (pd_sub pe) as [cs| |]; try exact I. destruct cs as [|c cs]; try exact I.
      destruct c; try exact I. destruct cs; exact I.
    + destruct (R2p pe Hpe) as [id [o [_ Hn]]]. destruct (number_subs_in _ _ _ _ _ Hn) as [_ [_ [_ Hr]]].
      unfold sweep_fact. rewrite Hr. destruct (pd_sub pe) as [cs| |]; try exact I. destruct cs as [|c cs]; try exact I.
      destruct c; try exact I. destruct cs; exact I.
  - (* exec *)
    destruct (batch_txns batch (s_pend s)) as [txns|] eqn:Eb; [|discriminate].
    destruct (nodup_items batch) eqn:En; cbn in H; [|discriminate].
    destruct (c_fifo cfg && negb (fifo_ok batch (s_pend s))); [discriminate|].
    assert (HP13 : Forall (P13 (s_now s)) (s_pend s)).
    { apply Forall_forall. intros pe Hpe. split; [exact (proj1 (Forall_forall _ _) HW pe Hpe)|].
      intros Hr t l Hs. eapply pend_ok_read_time; [exact (proj1 (Forall_forall _ _) HP pe Hpe)|exact Hr|exact Hs]. }
    assert (Hnew : forall p cs hs c, pd_sub p = SStore cs -> pd_ready p = None -> P13 (s_now s) p ->
                                 (c = CErr \/ exists rs, c = CStore rs /\ exists dx dx', exec_txn dx cs hs = Some (dx', rs)) ->
                                 P13 (s_now s) (mkPend (pd_id p) (pd_n p) (pd_sub p) (pd_group p) (Some c))).
    { intros p cs hs c Hsub Hrdy [_ Ht] Hc. split; [|cbn; discriminate].
      destruct Hc as [->|[rs [-> [dx [dx' Ex]]]]]; [apply sweep_fact_not_store; exact I|].
      unfold sweep_fact. cbn [pd_sub pd_ready]. rewrite Hsub.
      destruct cs as [|c0 cs]; try exact I. destruct c0; try exact I. destruct cs; try exact I.
      destruct rs as [|r rs]; try exact I. destruct r; try exact I.
      split; [eapply Ht; [exact Hrdy|exact Hsub]|].
      assert (Hr : ex_read_promises dx time limit = RPromises rows last recs).
      { cbn [exec_txn exec hd tl] in Ex. inversion Ex. reflexivity. }
      eapply read_promises_rows. exact Hr. }
    destruct (exec_batch (s_db s) txns) as [[d' rss]|] eqn:Ee; injection H as <- _; cbn [s_now s_pend].
    + apply (Forall_impl (sweep_fact (s_now s)) (fun pe (Hpe : P13 (s_now s) pe) => proj1 Hpe)).
      apply (set_batch_ready_gen (P13 (s_now s)) (fun x rs => exists dx dx', exec_txn dx (fst x) (snd x) = Some (dx', rs))
                                 batch txns (Some rss) (s_pend s) Eb En HP13 (exec_batch_each _ _ _ _ Ee)).
      intros p cs hs c Hin Hsub Hrdy HPp Hc. apply (Hnew p cs hs c Hsub Hrdy HPp).
      destruct Hc as [->|[rs [-> Hq]]]; [left; reflexivity|right; exists rs; split; [reflexivity|exact Hq]].
    + apply (Forall_impl (sweep_fact (s_now s)) (fun pe (Hpe : P13 (s_now s) pe) => proj1 Hpe)).
      apply (set_batch_ready_gen (P13 (s_now s)) (fun _ _ => False) batch txns None (s_pend s) Eb En HP13 I).
      intros p cs hs c Hin Hsub Hrdy HPp Hc. apply (Hnew p cs hs c Hsub Hrdy HPp).
      destruct Hc as [->|[rs [_ []]]]. left; reflexivity.
  - (* drop *)
    destruct (find_pend id n (s_pend s)) as [p|] eqn:F; [|discriminate]. destruct (unready p); [|discriminate].
    injection H as <- _. cbn [s_now s_pend]. apply set_ready_forall; [exact HW|]. intros q0 _. apply sweep_fact_not_store. exact I.
  - destruct (find_pend id n (s_pend s)) as [p|] eqn:F; [|discriminate]. destruct (pd_sub p); try discriminate.
    destruct (pd_ready p); [discriminate|]. injection H as <- _. cbn [s_now s_pend]. apply set_ready_forall; [exact HW|].
    intros q0 _. apply sweep_fact_not_store. destruct res; exact I.
  - destruct (find_pend id n (s_pend s)) as [p|] eqn:F; [|discriminate]. destruct (pd_sub p); try discriminate.
    destruct (pd_ready p); [discriminate|]. injection H as <- _. cbn [s_now s_pend]. apply set_ready_forall; [exact HW|].
    intros q0 _. apply sweep_fact_not_store. destruct res; exact I.
  - injection H as <- _. constructor.
Qed.

(* ---------- every reachable state ---------- *)
Fixpoint state_after (cfg : config) (s : sys) (sch : list directive) : sys :=
  match sch with
  | [] => s
  | d :: sch' => match step cfg s d with Some (s', _) => state_after cfg s' sch' | None => s end
  end.

Lemma reach_inv : forall cfg sch s, SInv s -> WInv s -> Forall dir_wf sch ->
                                    SInv (state_after cfg s sch) /\ WInv (state_after cfg s sch).
Proof.
  intros cfg sch. induction sch as [|d sch IH]; intros s HS HW Hwf; cbn; [split; assumption|].
  inversion Hwf as [|? ? Hd Hrest]; subst. destruct (step cfg s d) as [[s' ob]|] eqn:E; [|split; assumption].
  apply IH; [eapply SInv_step; eassumption|eapply WInv_step; eassumption|exact Hrest].
Qed.

(* in every state any schedule of well-formed requests can reach, whenever the completion of a time-out read is handed
   to the sweep (at the clock of that state or later), the sweep does not hit its assertion *)
Theorem sweep_never_asserts : forall cfg sch pe t l c now' next,
    sch_wf sch ->
    let s := state_after cfg (sys0 db0) sch in
    In pe (s_pend s) -> pd_sub pe = SStore [ReadPromises t l] -> pd_ready pe = Some c -> s_now s <= now' ->
    o_resp (resume_seq cfg KBgTimeoutP c now' next) <> Some RspPanic.
Proof.
  intros cfg sch pe t l c now' next Hw s Hin Hs Hr Hn.
  destruct (reach_inv cfg sch (sys0 db0) SInv_init (Forall_nil _) Hw) as [_ HW].
  eapply sweep_no_panic; [exact Hs|exact Hr|]. eapply sweep_fact_later; [exact Hn|].
  exact (proj1 (Forall_forall _ _) HW pe Hin).
Qed.

(* ---------- a third assertion site: "the completion of a create-with-task must be a create-with-task result" ----------
   The discipline (Discipline.k_ok / k_expects, part of SInv) records that a create-with-task request carries its task
   command through every program point and that the submission awaited at KCreate_store IS the command its
   continuation names; a completion tells the truth about the command it answers (rdy_ok).  So a coroutine created
   by a create-with-task request is never handed the result of a plain create. *)
Lemma create_task_result_shape : forall d r tc0 wt pc tc s c,
    k_ok d (KCreate_store r tc0 wt pc tc) -> k_expects (KCreate_store r tc0 wt pc tc) s -> rdy_ok d s c -> wt = true ->
    forall n rs, c <> CStore (RAlter n :: rs).
Proof.
  intros d r tc0 wt pc tc s c [_ [_ Hwt]] He Hr -> n rs ->. cbn in He. destruct tc as [t|]; [|exact (Hwt eq_refl eq_refl)].
  subst s. cbn in Hr. inversion Hr as [|? ? ? ? Hhd _]; subst. destruct Hhd as [a [b [E _]]]. discriminate.
Qed.

Theorem create_with_task_never_asserts : forall cfg sch i r tc0 wt pc tc n pe c,
    sch_wf sch ->
    let s := state_after cfg (sys0 db0) sch in
    In i (s_insts s) -> i_st i = CSeq (KCreate_store r tc0 wt pc tc) n ->
    In pe (s_pend s) -> pd_id pe = i_id i -> pd_n pe = n -> pd_ready pe = Some c ->
    wt = true -> forall m rs, c <> CStore (RAlter m :: rs).
Proof.
  intros cfg sch i r tc0 wt pc tc n pe c Hw s Hi Hst Hpe Hid Hn Hr Hwt.
  destruct (reach_inv cfg sch (sys0 db0) SInv_init (Forall_nil _) Hw) as [[_ [HP [HI _]]] _]. fold s in HP, HI.
  pose proof (proj1 (Forall_forall _ _) HI i Hi) as [Hok [_ Hexp]]. rewrite Hst in Hok. cbn in Hok.
  destruct (Hexp _ _ Hst) as [_ Hke]. specialize (Hke pe Hpe Hid Hn).
  pose proof (proj1 (Forall_forall _ _) HP pe Hpe) as Hpk. unfold pend_ok in Hpk. rewrite Hr in Hpk.
  eapply create_task_result_shape; eassumption.
Qed.
