(* The aio layer completes every submission exactly once: for EVERY operation sequence and queue size, the ids that
   were dispatched are, as a multiset, exactly the ids answered so far plus the ids on the completion queue plus the
   ids still with the subsystem; and every call returns. *)
From RV Require Import Aio.
From Coq Require Import Permutation.

Definition disp_ids (ops : list aop) : list nat :=
  flat_map (fun o => match o with ADispatch id _ => [id] | _ => [] end) ops.

Lemma astep_returns : forall size s o, snd (fst (astep size s o)) = true.
Proof.
  intros size s o. destruct o as [id [|]|id|n]; cbn; try reflexivity.
  destruct (existsb (Nat.eqb id) (a_inflight s) && (Z.of_nat (length (a_cq s)) <? size)); reflexivity.
Qed.

Lemma NoDup_app_remove_l : forall {A} (l l' : list A), NoDup (l ++ l') -> NoDup l'.
Proof. intros A l l' H. induction l as [|x l IH]; [exact H|]. cbn in H. inversion H; subst. apply IH. assumption. Qed.

Lemma remove_id_notin : forall id l, ~ In id l -> remove_id id l = l.
Proof.
  intros id l Hn. unfold remove_id. induction l as [|y l IH]; [reflexivity|]. cbn.
  destruct (Nat.eqb y id) eqn:E; cbn.
  - apply Nat.eqb_eq in E. subst y. exfalso. apply Hn. left. reflexivity.
  - f_equal. apply IH. intros H. apply Hn. right. exact H.
Qed.

Lemma remove_id_cons : forall id x l, remove_id id (x :: l) = if Nat.eqb x id then remove_id id l else x :: remove_id id l.
Proof. intros id x l. unfold remove_id. cbn. destruct (Nat.eqb x id); reflexivity. Qed.

Lemma remove_id_perm : forall id l, NoDup l -> In id l -> Permutation l (id :: remove_id id l).
Proof.
  intros id l. induction l as [|x l IH]; intros ND Hin; [contradiction|]. inversion ND as [|? ? Hn ND']; subst.
  rewrite remove_id_cons. destruct (Nat.eqb x id) eqn:E.
  - apply Nat.eqb_eq in E. subst x. rewrite (remove_id_notin id l Hn). apply Permutation_refl.
  - destruct Hin as [->|Hin]; [rewrite Nat.eqb_refl in E; discriminate|].
    eapply Permutation_trans; [apply perm_skip; apply IH; assumption|]. apply perm_swap.
Qed.

(* ids in flight, queued or answered: one step adds exactly the dispatched id *)
Definition acct (s : astate) (answered : list nat) : list nat := (answered ++ a_cq s ++ a_inflight s)%list.

Lemma astep_acct : forall size s o s' r ans answered,
    NoDup (acct s answered) -> (forall id acc, o = ADispatch id acc -> ~ In id (acct s answered)) ->
    astep size s o = (s', r, ans) ->
    Permutation (acct s' (answered ++ map fst ans)) (match o with ADispatch id _ => [id] | _ => [] end ++ acct s answered).
Proof.
  intros size s o s' r ans answered ND Hfresh H. unfold acct. destruct o as [id [|]|id|n]; cbn in H.
  - injection H as <- _ <-. cbn. rewrite app_nil_r. apply Permutation_sym.
    rewrite (app_assoc answered (a_cq s) (id :: a_inflight s)). rewrite (app_assoc answered (a_cq s) (a_inflight s)).
    apply Permutation_middle.
  - injection H as <- _ <-. cbn. rewrite <- app_assoc. cbn. apply Permutation_sym. apply Permutation_middle.
  - destruct (existsb (Nat.eqb id) (a_inflight s) && (Z.of_nat (length (a_cq s)) <? size)) eqn:E; injection H as <- _ <-; cbn; rewrite app_nil_r.
    + apply andb_true_iff in E. destruct E as [E _]. apply existsb_exists in E. destruct E as [x [Hx Ex]]. apply Nat.eqb_eq in Ex. subst x.
      apply Permutation_app_head. rewrite <- app_assoc. apply Permutation_app_head. cbn. apply Permutation_sym. apply remove_id_perm; [|exact Hx].
      apply NoDup_app_remove_l in ND. apply NoDup_app_remove_l in ND. exact ND.
    + apply Permutation_refl.
  - injection H as <- _ <-. cbn. rewrite map_map. cbn. rewrite map_id. rewrite <- app_assoc. apply Permutation_app_head.
    rewrite app_assoc. rewrite firstn_skipn. apply Permutation_refl.
Qed.

Fixpoint arun_all (size : Z) (s : astate) (ops : list aop) : astate * list nat :=
  match ops with
  | [] => (s, [])
  | o :: ops' =>
    let '(s1, _, ans) := astep size s o in
    let '(s2, ans') := arun_all size s1 ops' in (s2, (map fst ans ++ ans')%list)
  end.

Theorem aio_accounting : forall size ops s answered,
    NoDup (disp_ids ops ++ acct s answered) ->
    let '(s', ans) := arun_all size s ops in
    Permutation (acct s' (answered ++ ans)) (disp_ids ops ++ acct s answered).
Proof.
  intros size ops. induction ops as [|o ops IH]; intros s answered ND; cbn.
  - rewrite app_nil_r. apply Permutation_refl.
  - destruct (astep size s o) as [[s1 r] ans] eqn:E. specialize (IH s1 (answered ++ map fst ans)%list).
    destruct (arun_all size s1 ops) as [s2 ans'] eqn:E2.
    assert (NDs : NoDup (acct s answered)).
    { cbn in ND. rewrite <- app_assoc in ND. apply NoDup_app_remove_l in ND. apply NoDup_app_remove_l in ND. exact ND. }
    assert (Hfresh : forall id acc, o = ADispatch id acc -> ~ In id (acct s answered)).
    { intros id acc -> Hin. cbn in ND. inversion ND as [|? ? Hn _]; subst. apply Hn. apply in_or_app. right. exact Hin. }
    pose proof (astep_acct size s o s1 r ans answered NDs Hfresh E) as P1.
    assert (ND1 : NoDup (disp_ids ops ++ acct s1 (answered ++ map fst ans))).
    { cbn in ND. rewrite <- app_assoc in ND.
      eapply Permutation_NoDup; [|exact ND]. apply Permutation_sym.
      eapply Permutation_trans; [apply Permutation_app_head; exact P1|].
      rewrite !app_assoc. apply Permutation_app_tail. apply Permutation_app_comm. }
    specialize (IH ND1). rewrite <- app_assoc in IH.
    eapply Permutation_trans; [exact IH|]. cbn. rewrite <- app_assoc.
    eapply Permutation_trans; [apply Permutation_app_head; exact P1|].
    rewrite !app_assoc. apply Permutation_app_tail. apply Permutation_app_comm.
Qed.

(* the statement in its usual form: from the empty state, once nothing is queued or in flight any more (the
   subsystems have completed what they accepted and the kernel has collected it), every dispatched id has been answered
   exactly once *)
Corollary aio_exactly_once : forall size ops s' ans,
    NoDup (disp_ids ops) -> arun_all size a0 ops = (s', ans) -> a_cq s' = [] -> a_inflight s' = [] ->
    Permutation ans (disp_ids ops).
Proof.
  intros size ops s' ans ND H Hc Hi. pose proof (aio_accounting size ops a0 []) as A. cbn in A. rewrite app_nil_r in A.
  specialize (A ND). rewrite H in A. unfold acct in A. rewrite Hc, Hi in A. cbn in A. rewrite app_nil_r in A. exact A.
Qed.
