(* C06: a crash loses the kernel's volatile state and nothing else; an execution round without commands shows the
   tables unchanged -- for every schedule. *)
From RV Require Import Mon MonC06 MonC01 MonC05 MonC08 Framework StoreLocks StorePromises StoreCallbacks Discipline SysInv Eqb PC16 PC05 PC01 PC08.
From Coq Require Import Lia.

Lemma schedule_eqb_refl : forall s, schedule_eqb s s = true.
Proof.
  intros s. unfold schedule_eqb. rewrite !String.eqb_refl, !Z.eqb_refl, !smap_eqb_refl, opt_str_refl, opt_z_refl. reflexivity.
Qed.

Lemma lock_eqb_refl' : forall l, lock_eqb l l = true.
Proof. intros l. unfold lock_eqb. rewrite !String.eqb_refl, !Z.eqb_refl. reflexivity. Qed.

Lemma db_eqb_refl : forall d, db_eqb d d = true.
Proof.
  intros d. unfold db_eqb.
  rewrite (list_eqb_refl promise_eqb _ promise_eqb_refl), (list_eqb_refl callback_eqb _ callback_eqb_refl),
          (list_eqb_refl schedule_eqb _ schedule_eqb_refl), (list_eqb_refl lock_eqb _ lock_eqb_refl'),
          (list_eqb_refl task_eqb _ task_eqb_refl). reflexivity.
Qed.

Theorem crash_keeps_db : forall cfg s s' ob,
    step cfg s DCrash = Some (s', ob) -> s_db s' = s_db s /\ s_insts s' = [] /\ s_pend s' = [] /\ ob = [].
Proof. intros cfg s s' ob H. cbn in H. inversion H; subst. cbn. tauto. Qed.

Lemma exec_batch_concat_nil : forall txns d d' rss,
    map fst txns = [] -> exec_batch d txns = Some (d', rss) -> d' = d.
Proof. intros txns d d' rss H E. destruct txns; [cbn in E; inversion E; reflexivity|discriminate]. Qed.

Lemma c06_step : forall cfg s d s' ob,
    SInv s -> dir_wf d -> step cfg s d = Some (s', ob) -> SInv s' /\ c06_chk (s_now s) (s_db s) d ob = [].
Proof.
  intros cfg s d s' ob HS Hwf H. split; [eapply SInv_step; eassumption|]. destruct d; try reflexivity.
  destruct (exec_obs cfg s batch s' ob HS H) as [txns [Ht [[rss [Ee ->]]|[Ee [Hdb ->]]]]]; cbn; rewrite app_nil_r.
  - destruct (map fst txns) eqn:Em; [|reflexivity].
    rewrite (exec_batch_concat_nil _ _ _ _ Em Ee). rewrite db_eqb_refl. reflexivity.
  - destruct (map fst txns); [|reflexivity]. rewrite db_eqb_refl. reflexivity.
Qed.

Theorem C06_trace : forall cfg sch, sch_wf sch -> C06_mon (events cfg sch) = [].
Proof.
  intros cfg sch Hw. unfold C06_mon. apply mon_sound with (Inv := SInv) (dir_ok := dir_wf).
  - intros s d s' ob HI Hd Hs. eapply c06_step; eassumption.
  - apply SInv_init.
  - exact Hw.
Qed.
