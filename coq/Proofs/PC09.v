(* C09: the lock theorems.  Store lemmas are for ARBITRARY command sequences; the trace theorem is for every
   schedule of the system model. *)
From RV Require Import Mon MonC09 Framework StoreLocks StorePromises Discipline SysInv Eqb.
From Coq Require Import Lia.

(* ---------- chains over a command list ---------- *)

Lemma cmds_kept : forall now cs d d' l,
    locks_uniq d -> exec_cmds d cs = Some d' -> Forall (cmd_time_ok now) (map fst cs) -> In l (locks d) ->
    In l (locks d') \/ l_exp l <= now \/ existsb (touches l) (map fst cs) = true.
Proof.
  induction cs as [|[c h] cs IH]; intros d d' l U H T Hl; cbn in *.
  - inversion H; subst; tauto.
  - destruct (exec d c h) as [[d1 r]|] eqn:E; [|discriminate]. inversion T; subst.
    destruct (lock_kept_or_justified now d c h d1 r l U E H2 Hl) as [K|[K|K]].
    + destruct (IH d1 d' l (exec_uniq _ _ _ _ _ U E) H H3 K) as [K2|[K2|K2]]; [tauto|tauto|].
      right; right. rewrite K2. apply orb_true_r.
    + tauto.
    + right; right. rewrite K. reflexivity.
Qed.

Lemma acq_exact_creates : forall l1 l' c, acq_exact l1 c = true -> same4 l1 l' -> creates l' c = true.
Proof.
  intros l1 l' c H [a [b [c0 d0]]]. destruct c; cbn in *; try discriminate.
  rewrite <- a, <- b, <- c0, <- d0. apply andb_true_iff in H. tauto.
Qed.

Lemma same4_trans : forall a b c, same4 a b -> same4 b c -> same4 a c.
Proof. intros a b c [a1 [a2 [a3 a4]]] [b1 [b2 [b3 b4]]]. repeat split; congruence. Qed.

Lemma cmds_new : forall cs d d' l',
    locks_uniq d -> exec_cmds d cs = Some d' -> In l' (locks d') ->
    In l' (locks d) \/ existsb (acq_exact l') (map fst cs) = true \/
    (existsb (creates l') (map fst cs) = true /\ existsb (hb_for l') (map fst cs) = true) \/
    (existsb (hb_for l') (map fst cs) = true /\ exists l, In l (locks d) /\ same4 l l').
Proof.
  induction cs as [|[c h] cs IH]; intros d d' l' U H Hl; cbn in *.
  - inversion H; subst; tauto.
  - destruct (exec d c h) as [[d1 r]|] eqn:E; [|discriminate].
    destruct (IH d1 d' l' (exec_uniq _ _ _ _ _ U E) H Hl) as [K|[K|[[K1 K2]|[K [l1 [Hl1 S1]]]]]].
    + destruct (lock_new_justified d c h d1 r l' U E K) as [J|[J|[J [l0 [Hl0 S0]]]]]; [tauto| |].
      * right; left. rewrite J. reflexivity.
      * right; right; right. split; [rewrite J; reflexivity|]. exists l0. tauto.
    + right; left. rewrite K. apply orb_true_r.
    + right; right; left. rewrite K1, K2, !orb_true_r. tauto.
    + destruct (lock_new_justified d c h d1 r l1 U E Hl1) as [J|[J|[J [l0 [Hl0 S0]]]]].
      * right; right; right. split; [rewrite K; apply orb_true_r|]. exists l1. tauto.
      * right; right; left. rewrite (acq_exact_creates l1 l' c J S1), K, orb_true_r. tauto.
      * right; right; right. split; [rewrite K; apply orb_true_r|]. exists l0. split; [assumption|].
        eapply same4_trans; eassumption.
Qed.

(* ---------- booleans of the monitor ---------- *)

Lemma uniq_b_of_NoDup : forall l, NoDup l -> uniq_b l = true.
Proof.
  induction l as [|x l IH]; intros H; cbn; [reflexivity|]. inversion H; subst. rewrite IH by assumption.
  rewrite andb_true_r. apply negb_true_iff. apply not_true_is_false. intros Hex. apply existsb_exists in Hex.
  destruct Hex as [y [Hy Heq]]. apply String.eqb_eq in Heq. subst. contradiction.
Qed.

Lemma lock_eqb_refl : forall l, lock_eqb l l = true.
Proof. intros l. unfold lock_eqb. rewrite !String.eqb_refl, !Z.eqb_refl. reflexivity. Qed.

Lemma in_existsb_lock : forall l ls, In l ls -> existsb (lock_eqb l) ls = true.
Proof. intros l ls H. apply existsb_exists. exists l. split; [assumption|apply lock_eqb_refl]. Qed.

Lemma same4_b : forall l l', same4 l l' -> same4b l' l = true.
Proof. intros l l' [a [b [c d]]]. unfold same4b. rewrite a, b, c, d, !String.eqb_refl, Z.eqb_refl. reflexivity. Qed.

Lemma cmd_at_c09 : forall d t c, cmd_at d t c -> c09_cmd t c = true.
Proof. intros d t c H. destruct c; cbn in *; try reflexivity; subst; apply Z.eqb_refl. Qed.

Lemma sub_at_c09 : forall d t s, sub_at d t s -> c09_sub t s = true.
Proof.
  intros d t s H. destruct s; cbn in *; try reflexivity. destruct H as [H _]. apply forallb_forall. intros c Hc.
  eapply cmd_at_c09. eapply Forall_forall; eassumption.
Qed.

Lemma cmd_at_time_ok : forall d t now c, t <= now -> cmd_at d t c -> cmd_time_ok now c.
Proof. intros d t now c Hle H. destruct c; cbn in *; try exact I. lia. Qed.

Lemma c09_exec_ok : forall now txns d d',
    locks_uniq d -> exec_cmds d (flat_batch txns) = Some d' ->
    Forall (fun x => exists t, t <= now /\ Forall (cmd_at d t) (fst x) /\ txn_shape (fst x)) txns ->
    c09_exec now d (List.concat (map fst txns)) d' = [].
Proof.
  intros now txns d d' U H Ht. rewrite <- flat_batch_fst.
  assert (Htime : Forall (cmd_time_ok now) (map fst (flat_batch txns))).
  { rewrite flat_batch_fst. apply Forall_forall. intros c Hc. apply in_concat in Hc. destruct Hc as [cs [Hcs Hc]].
    apply in_map_iff in Hcs. destruct Hcs as [x [Hx Hin]]. subst.
    pose proof (proj1 (Forall_forall _ _) Ht x Hin) as [t [Hle [Hall _]]].
    eapply cmd_at_time_ok; [exact Hle|]. eapply Forall_forall; eassumption. }
  unfold c09_exec.
  rewrite uniq_b_of_NoDup by (eapply exec_cmds_uniq; eassumption). cbn.
  match goal with |- (if ?b then _ else _) ++ _ = _ => assert (Hb : b = true) end.
  { apply forallb_forall. intros l Hl. destruct (cmds_kept now _ d d' l U H Htime Hl) as [K|[K|K]].
    - rewrite in_existsb_lock by assumption. reflexivity.
    - apply Z.leb_le in K. rewrite K. rewrite orb_true_r. reflexivity.
    - rewrite K. apply orb_true_r. }
  rewrite Hb. cbn.
  match goal with |- (if ?b then _ else _) = _ => assert (Hc : b = true) end.
  { apply forallb_forall. intros l' Hl'. destruct (cmds_new _ d d' l' U H Hl') as [K|[K|[[K1 K2]|[K [l [Hl S]]]]]].
    - rewrite in_existsb_lock by assumption. reflexivity.
    - rewrite K. rewrite orb_true_r. reflexivity.
    - rewrite K1, K2. cbn. rewrite orb_true_r. reflexivity.
    - rewrite K. cbn. assert (existsb (same4b l') (locks d) = true) as ->.
      { apply existsb_exists. exists l. split; [assumption|apply same4_b; assumption]. }
      apply orb_true_r. }
  rewrite Hc. reflexivity.
Qed.

Lemma c09_exec_same : forall now cmds d, locks_uniq d -> c09_exec now d cmds d = [].
Proof.
  intros now cmds d U. unfold c09_exec. rewrite uniq_b_of_NoDup by exact U. cbn.
  assert (forallb (fun l => existsb (lock_eqb l) (locks d) || (l_exp l <=? now) || existsb (touches l) cmds) (locks d) = true) as ->.
  { apply forallb_forall. intros l Hl. rewrite in_existsb_lock by assumption. reflexivity. }
  cbn.
  assert (forallb (fun l' => existsb (lock_eqb l') (locks d) || existsb (acq_exact l') cmds ||
                             (existsb (creates l') cmds && existsb (hb_for l') cmds) ||
                             (existsb (hb_for l') cmds && existsb (same4b l') (locks d))) (locks d) = true) as ->.
  { apply forallb_forall. intros l Hl. rewrite in_existsb_lock by assumption. reflexivity. }
  reflexivity.
Qed.

(* ---------- the invariant and the step lemma ---------- *)

Definition Inv09 (s : sys) : Prop := SInv s /\ locks_uniq (s_db s).

Lemma Inv09_init : Inv09 (sys0 db0).
Proof. split; [apply SInv_init|constructor]. Qed.

Lemma c09_step : forall cfg s d s' ob,
    Inv09 s -> dir_wf d -> step cfg s d = Some (s', ob) -> Inv09 s' /\ c09_chk (s_now s) (s_db s) d ob = [].
Proof.
  intros cfg s d s' ob [HS HU] Hwf H. pose proof (SInv_step cfg s d s' ob HS Hwf H) as HS'.
  destruct d.
  - (* tick *)
    destruct (tick_obs_ok cfg s t deliver bgs arrive s' ob HS Hwf H) as [Hle [Hdb Hob]].
    split; [split; [exact HS'|rewrite Hdb; exact HU]|].
    cbn. apply flat_map_nil. intros x Hx. eapply Forall_forall in Hob; [|exact Hx].
    destruct Hob as [id [out [next [-> [Hsubs _]]]]].
    assert (forallb (c09_sub t) (o_subs out) = true) as ->; [|reflexivity].
    apply forallb_forall. intros sb Hsb. eapply sub_at_c09. eapply Forall_forall; eassumption.
  - (* exec *)
    destruct (exec_obs cfg s batch s' ob HS H) as [txns [Ht [[rss [Ee ->]]|[Ee [Hdb ->]]]]]; cbn; rewrite app_nil_r.
    + pose proof (exec_batch_cmds _ _ _ _ Ee) as Hc. split.
      * split; [exact HS'|]. eapply exec_cmds_uniq; eassumption.
      * apply c09_exec_ok; assumption.
    + split; [split; [exact HS'|rewrite Hdb; exact HU]|]. apply c09_exec_same; exact HU.
  - destruct (other_steps_db cfg s _ s' ob H I) as [Hdb ->]. split; [split; [exact HS'|rewrite Hdb; exact HU]|reflexivity].
  - destruct (other_steps_db cfg s _ s' ob H I) as [Hdb ->]. split; [split; [exact HS'|rewrite Hdb; exact HU]|reflexivity].
  - destruct (other_steps_db cfg s _ s' ob H I) as [Hdb ->]. split; [split; [exact HS'|rewrite Hdb; exact HU]|reflexivity].
  - destruct (other_steps_db cfg s _ s' ob H I) as [Hdb ->]. split; [split; [exact HS'|rewrite Hdb; exact HU]|reflexivity].
Qed.


Theorem C09_trace : forall cfg sch, sch_wf sch -> C09_mon (events cfg sch) = [].
Proof.
  intros cfg sch Hw. unfold C09_mon. apply mon_sound with (Inv := Inv09) (dir_ok := dir_wf).
  - intros s d s' ob HI Hd Hs. eapply c09_step; eassumption.
  - apply Inv09_init.
  - exact Hw.
Qed.

(* ---------- store-level facts for arbitrary arguments ---------- *)

Lemma acquire_other_refused : forall d res exec proc ttl exp l,
    find_lock res d = Some l -> l_exec l <> exec -> ex_acquire_lock d res exec proc ttl exp = (d, 0).
Proof.
  intros d res exec proc ttl exp l F Hne. unfold ex_acquire_lock. rewrite F.
  destruct (String.eqb (l_exec l) exec) eqn:E; [apply String.eqb_eq in E; contradiction|reflexivity].
Qed.

Lemma release_other_noop : forall d res exec,
    (forall l, In l (locks d) -> l_res l = res -> l_exec l <> exec) ->
    locks (fst (ex_release_lock d res exec)) = locks d /\ snd (ex_release_lock d res exec) = 0.
Proof.
  intros d res exec H. unfold ex_release_lock; cbn.
  assert (Hf : forall ls, (forall l, In l ls -> l_res l = res -> l_exec l <> exec) ->
                          filter (fun l => negb (rl_guard res exec l)) ls = ls /\ filter (rl_guard res exec) ls = []).
  { induction ls as [|x ls IH]; intros Hx; cbn; [split; reflexivity|].
    destruct (IH (fun l Hl => Hx l (or_intror Hl))) as [I1 I2].
    assert (G : rl_guard res exec x = false).
    { unfold rl_guard. destruct (String.eqb (l_res x) res) eqn:E1; [|reflexivity].
      destruct (String.eqb (l_exec x) exec) eqn:E2; [|reflexivity].
      apply String.eqb_eq in E1, E2. exfalso. exact (Hx x (or_introl eq_refl) E1 E2). }
    rewrite G. cbn. rewrite I1, I2. split; reflexivity. }
  destruct (Hf (locks d) H) as [F1 F2]. rewrite F1, F2. split; reflexivity.
Qed.

Lemma heartbeat_keeps_owners : forall d proc time,
    map (fun l => (l_res l, l_exec l, l_proc l, l_ttl l)) (locks (fst (ex_heartbeat_locks d proc time))) =
    map (fun l => (l_res l, l_exec l, l_proc l, l_ttl l)) (locks d).
Proof.
  intros d proc time. cbn. rewrite map_map. apply map_ext. intros l. destruct (String.eqb (l_proc l) proc); reflexivity.
Qed.

Lemma sweep_only_expired : forall d time l,
    In l (locks d) -> (In l (locks (fst (ex_timeout_locks d time))) <-> time < l_exp l).
Proof.
  intros d time l Hl. cbn. rewrite filter_In. split.
  - intros [_ H]. apply negb_true_iff in H. apply Z.leb_gt in H. exact H.
  - intros H. split; [exact Hl|]. apply negb_true_iff. apply Z.leb_gt. exact H.
Qed.
