(* C12: every request handed to the kernel is answered exactly once -- for every sequence of enqueues, shutdown
   requests, IO completions and ticks, and every size of the submission queue, coroutine pool and batches. *)
From RV Require Import Kernel.
From Coq Require Import Lia Sorting.Permutation.

Inductive kop := OEnq (id : string) (now : bool) | OShutdown | OComplete (id : string) | OTick.

Definition kapply (st : kst) (o : kop) : kst * list (string * Z) :=
  match o with
  | OEnq id now => let '(st', r) := k_enq st id now in (st', match r with Some c => [(id, c)] | None => [] end)
  | OShutdown => (k_shutdown st, [])
  | OComplete id => (k_complete st id, [])
  | OTick => k_tick st
  end.

Fixpoint krun_ops (st : kst) (ops : list kop) : kst * list (string * Z) :=
  match ops with
  | [] => (st, [])
  | o :: ops' => let '(st1, r1) := kapply st o in let '(st2, r2) := krun_ops st1 ops' in (st2, (r1 ++ r2)%list)
  end.

Definition enq_ids (ops : list kop) : list string :=
  flat_map (fun o => match o with OEnq id _ => [id] | _ => [] end) ops.

Definition pending (st : kst) : list string := (map fst (k_sq st) ++ k_live st)%list.

(* what holds of every reachable state: ids handed in so far = ids answered so far + ids still inside, as
   multisets; the IOs reported finished belong to waiting coroutines, once each *)
Definition Acc (E : list string) (R : list string) (st : kst) : Prop :=
  Permutation E (R ++ pending st) /\ NoDup (k_ready st) /\ (forall i, In i (k_ready st) -> In i (k_live st)).

(* ---------- lists ---------- *)

(* permutations between append-combinations of the same blocks: by counting occurrences *)
Ltac perm_blocks :=
  apply (Permutation_count_occ string_dec); intros ?x; repeat rewrite count_occ_app; lia.

Lemma pool_admit_perm : forall reqs slots a rej, pool_admit slots reqs = (a, rej) -> Permutation (map fst reqs) (map fst a ++ map fst rej).
Proof.
  induction reqs as [|r reqs IH]; intros slots a rej H; cbn in H.
  - inversion H; subst. constructor.
  - destruct slots as [|s].
    + destruct (pool_admit 0 reqs) as [a0 rej0] eqn:E. inversion H; subst. cbn.
      eapply Permutation_trans; [apply perm_skip; eapply IH; exact E|]. apply Permutation_middle.
    + destruct (pool_admit s reqs) as [a0 rej0] eqn:E. inversion H; subst. cbn. apply perm_skip. eapply IH; exact E.
Qed.

Lemma pool_admit_rejected_code : forall reqs slots a rej x, pool_admit slots reqs = (a, rej) -> In x rej -> snd x = SchedulerQueueFull.
Proof.
  induction reqs as [|r reqs IH]; intros slots a rej x H Hx; cbn in H.
  - inversion H; subst. contradiction.
  - destruct slots as [|s].
    + destruct (pool_admit 0 reqs) as [a0 rej0] eqn:E. inversion H; subst. destruct Hx as [<-|Hx]; [reflexivity|eapply IH; eassumption].
    + destruct (pool_admit s reqs) as [a0 rej0] eqn:E. inversion H; subst. eapply IH; eassumption.
Qed.

Lemma partition_perm : forall (l : list (string * bool)),
    Permutation (map fst l) (map fst (filter snd l) ++ map fst (filter (fun r => negb (snd r)) l)).
Proof.
  induction l as [|[i b] l IH]; cbn; [constructor|]. destruct b; cbn.
  - apply perm_skip. exact IH.
  - eapply Permutation_trans; [apply perm_skip; exact IH|]. apply Permutation_middle.
Qed.

Lemma filter_true : forall {A} (l : list A), filter (fun _ => true) l = l.
Proof. induction l as [|x l IH]; cbn; [reflexivity|rewrite IH; reflexivity]. Qed.

Lemma filter_negb_nil : forall live : list string, filter (fun i => negb (existsb (String.eqb i) [])) live = live.
Proof. intros live. rewrite <- (filter_true live) at 2. apply filter_ext. intros; reflexivity. Qed.

Lemma remove_sub_perm : forall (live del : list string),
    NoDup del -> (forall i, In i del -> In i live) -> NoDup live ->
    Permutation live (del ++ filter (fun i => negb (existsb (String.eqb i) del)) live).
Proof.
  intros live del. revert live. induction del as [|d del IH]; intros live Hn Hs Hl; cbn.
  - rewrite filter_negb_nil. apply Permutation_refl.
  - inversion Hn; subst. assert (Hd : In d live) by (apply Hs; left; reflexivity).
    destruct (in_split _ _ Hd) as [l1 [l2 ->]].
    assert (Hl' : NoDup (l1 ++ l2)) by (eapply NoDup_remove_1; exact Hl).
    assert (Hdn : ~ In d (l1 ++ l2)) by (eapply NoDup_remove_2; exact Hl).
    assert (Hs' : forall i, In i del -> In i (l1 ++ l2)).
    { intros i Hi. assert (In i (l1 ++ d :: l2)) by (apply Hs; right; exact Hi).
      apply in_app_or in H. apply in_or_app. destruct H as [H|[H|H]]; [tauto|subst; contradiction|tauto]. }
    eapply Permutation_trans; [apply Permutation_sym; apply Permutation_middle|]. apply perm_skip.
    eapply Permutation_trans; [apply (IH (l1 ++ l2) H2 Hs' Hl')|]. apply Permutation_app_head.
    (* the two filters agree: d is not in l1 ++ l2, and on l1 ++ d :: l2 the element d is dropped *)
    rewrite !filter_app. cbn. rewrite String.eqb_refl. cbn.
    assert (Hf : forall l, ~ In d l -> filter (fun i => negb (existsb (String.eqb i) del)) l =
                                       filter (fun i => negb ((i =? d)%string || existsb (String.eqb i) del)) l).
    { induction l as [|x l IHl]; intros Hx; cbn; [reflexivity|].
      assert ((x =? d)%string = false) as -> by (apply String.eqb_neq; intros ->; apply Hx; left; reflexivity).
      cbn. rewrite IHl by (intros Hc; apply Hx; right; exact Hc). reflexivity. }
    rewrite <- (Hf l1), <- (Hf l2); [apply Permutation_refl| |]; intros Hc; apply Hdn; apply in_or_app; tauto.
Qed.

Lemma in_firstn : forall {A} n (l : list A) x, In x (firstn n l) -> In x l.
Proof. induction n as [|n IH]; intros l x H; destruct l; cbn in *; try tauto. destruct H as [H|H]; [tauto|right; eapply IH; exact H]. Qed.

Lemma firstn_nodup : forall {A} n (l : list A), NoDup l -> NoDup (firstn n l).
Proof.
  induction n as [|n IH]; intros l H; destruct l; cbn; try constructor.
  - inversion H; subst. intros Hc. apply H2. eapply in_firstn; exact Hc.
  - inversion H; subst. apply IH; assumption.
Qed.

Lemma skipn_nodup : forall {A} n (l : list A), NoDup l -> NoDup (skipn n l).
Proof.
  induction n as [|n IH]; intros l H; destruct l; cbn; try assumption. inversion H; subst. apply IH; assumption.
Qed.

Lemma in_skipn : forall {A} n (l : list A) x, In x (skipn n l) -> In x l.
Proof. induction n as [|n IH]; intros l x H; destruct l; cbn in *; try tauto. right. eapply IH; exact H. Qed.

Lemma firstn_skipn_disjoint : forall {A} n (l : list A) x, NoDup l -> In x (firstn n l) -> In x (skipn n l) -> False.
Proof.
  intros A n l x H H1 H2. rewrite <- (firstn_skipn n l) in H. revert H1 H2 H. generalize (firstn n l) (skipn n l).
  induction l0 as [|y l0 IH]; intros l1 H1 H2 H; [contradiction|]. cbn in H. inversion H; subst.
  destruct H1 as [->|H1]; [apply H4; apply in_or_app; tauto|eapply IH; eassumption].
Qed.

(* ---------- one step ---------- *)

Lemma NoDup_app_one_s : forall (l : list string) x, NoDup l -> ~ In x l -> NoDup (l ++ [x]).
Proof.
  induction l as [|y l IH]; intros x H Hn; cbn; [constructor; [tauto|constructor]|].
  inversion H; subst. constructor.
  - intros Hin. apply in_app_or in Hin. destruct Hin as [Hin|[->|[]]]; [contradiction|]. apply Hn. left; reflexivity.
  - apply IH; [assumption|]. intros Hin. apply Hn. right; exact Hin.
Qed.


Lemma NoDup_app_remove_l : forall {A} (l l' : list A), NoDup (l ++ l') -> NoDup l'.
Proof. induction l as [|x l IH]; intros l' H; cbn in H; [exact H|]. inversion H; subst. apply IH; assumption. Qed.
Lemma NoDup_app_remove_r : forall {A} (l l' : list A), NoDup (l ++ l') -> NoDup l.
Proof.
  induction l as [|x l IH]; intros l' H; cbn in H; [constructor|]. inversion H; subst. constructor.
  - intros Hc. apply H2. apply in_or_app. tauto.
  - eapply IH; eassumption.
Qed.


Lemma perm_nodup_pending : forall E R st, Permutation E (R ++ pending st) -> NoDup E -> NoDup (pending st) /\ NoDup R.
Proof.
  intros E R st P N. assert (N' : NoDup (R ++ pending st)) by (eapply Permutation_NoDup; eassumption).
  split; [eapply NoDup_app_remove_l; exact N'|eapply NoDup_app_remove_r; exact N'].
Qed.

Lemma tick_acc : forall E R st st' rs,
    NoDup E -> Acc E R st -> k_tick st = (st', rs) -> Acc E (R ++ map fst rs) st'.
Proof.
  intros E R st st' rs NE [P [Nr Sr]] H. unfold k_tick in H.
  set (delivered := firstn (k_cbatch st) (k_ready st)) in *.
  set (n := dequeue_count (k_batch st) (List.length (k_sq st))) in *.
  destruct (pool_admit (k_pool st) (firstn n (k_sq st))) as [admitted rejected] eqn:Ea. inversion H; subst; clear H.
  destruct (perm_nodup_pending _ _ _ P NE) as [Np _]. unfold pending in Np.
  assert (Nlive : NoDup (k_live st)) by (eapply NoDup_app_remove_l; exact Np).
  assert (Ndel : NoDup delivered) by (apply firstn_nodup; exact Nr).
  assert (Sdel : forall i, In i delivered -> In i (k_live st)) by (intros i Hi; apply Sr; eapply in_firstn; exact Hi).
  split; [|split].
  - (* the multiset equation *)
    unfold pending; cbn [k_sq k_live].
    rewrite !map_app, !map_map. cbn [fst]. rewrite !map_id.
    assert (Hsq : Permutation (map fst (k_sq st))
                              ((map fst rejected ++ map fst (filter snd admitted)) ++
                               map fst (skipn n (k_sq st)) ++ map fst (filter (fun r => negb (snd r)) admitted))).
    { rewrite <- (firstn_skipn n (k_sq st)) at 1. rewrite map_app.
      eapply Permutation_trans; [apply Permutation_app_tail; eapply pool_admit_perm; exact Ea|].
      eapply Permutation_trans; [apply Permutation_app_tail; apply Permutation_app_tail; apply partition_perm|].
      set (A1 := map fst (filter snd admitted)). set (A2 := map fst (filter (fun r => negb (snd r)) admitted)).
      set (Rj := map fst rejected). set (Sk := map fst (skipn n (k_sq st))).
      (* ((A1 ++ A2) ++ Rj) ++ Sk  ~  (Rj ++ A1) ++ Sk ++ A2 *)
      perm_blocks. }
    assert (Hlive : Permutation (k_live st) (delivered ++ filter (fun i => negb (existsb (String.eqb i) delivered)) (k_live st)))
      by (apply remove_sub_perm; assumption).
    eapply Permutation_trans; [exact P|]. unfold pending.
    eapply Permutation_trans; [apply Permutation_app_head; apply Permutation_app; [exact Hsq|exact Hlive]|].
    change (fun x : string * bool => fst x) with (@fst string bool). perm_blocks.
  - apply skipn_nodup; exact Nr.
  - intros i Hi. cbn [k_ready k_live] in *. apply in_or_app. left. apply filter_In. split; [apply Sr; eapply in_skipn; exact Hi|].
    apply negb_true_iff. apply not_true_is_false. intros Hc. apply existsb_exists in Hc. destruct Hc as [j [Hj Hij]].
    apply String.eqb_eq in Hij. subst j. apply (firstn_skipn_disjoint (k_cbatch st) (k_ready st) i Nr); [exact Hj|exact Hi].
Qed.

Lemma enq_acc : forall E R st id now st' r,
    ~ In id E -> Acc E R st -> k_enq st id now = (st', r) ->
    Acc (E ++ [id]) (R ++ match r with Some _ => [id] | None => [] end) st'.
Proof.
  intros E R st id now st' r Hn [P [Nr Sr]] H. unfold k_enq in H.
  destruct (k_done st).
  - inversion H; subst. split; [|tauto]. eapply Permutation_trans; [apply Permutation_app_tail; exact P|]. perm_blocks.
  - destruct (Nat.ltb (List.length (k_sq st)) (k_cap st)); inversion H; subst; (split; [|tauto]).
    + unfold pending; cbn [k_sq k_live]. rewrite map_app. cbn [map fst]. rewrite app_nil_r.
      eapply Permutation_trans; [apply Permutation_app_tail; exact P|]. unfold pending. perm_blocks.
    + eapply Permutation_trans; [apply Permutation_app_tail; exact P|]. perm_blocks.
Qed.

Lemma shutdown_acc : forall E R st, Acc E R st -> Acc E R (k_shutdown st).
Proof. intros E R st [P H]. split; [exact P|exact H]. Qed.

Lemma complete_acc : forall E R st id, Acc E R st -> Acc E R (k_complete st id).
Proof.
  intros E R st id [P [Nr Sr]]. unfold k_complete.
  destruct (existsb (String.eqb id) (k_live st) && negb (existsb (String.eqb id) (k_ready st))) eqn:G; [|split; [exact P|tauto]].
  apply andb_true_iff in G. destruct G as [G1 G2]. split; [exact P|]. cbn [k_ready k_live]. split.
  - apply NoDup_app_one_s; [exact Nr|]. intros Hc. apply negb_true_iff in G2. apply not_true_iff_false in G2. apply G2.
    apply existsb_exists. exists id. split; [exact Hc|apply String.eqb_refl].
  - intros i Hi. apply in_app_or in Hi. destruct Hi as [Hi|[<-|[]]]; [apply Sr; exact Hi|].
    apply existsb_exists in G1. destruct G1 as [j [Hj Hij]]. apply String.eqb_eq in Hij. subst. exact Hj.
Qed.

Theorem run_acc : forall ops st E R,
    Acc E R st -> NoDup (E ++ enq_ids ops) ->
    Acc (E ++ enq_ids ops) (R ++ map fst (snd (krun_ops st ops))) (fst (krun_ops st ops)).
Proof.
  induction ops as [|o ops IH]; intros st E R HA HN; cbn [krun_ops enq_ids flat_map].
  - cbn. rewrite !app_nil_r. exact HA.
  - destruct (kapply st o) as [st1 r1] eqn:E1. destruct (krun_ops st1 ops) as [st2 r2] eqn:E2. cbn [fst snd].
    rewrite map_app, app_assoc.
    assert (Hgoal : forall E1' R1', Acc E1' R1' st1 -> NoDup (E1' ++ enq_ids ops) ->
                                    Acc (E1' ++ enq_ids ops) (R1' ++ map fst r2) st2).
    { intros E1' R1' HA' HN'. specialize (IH st1 E1' R1' HA' HN'). rewrite E2 in IH. exact IH. }
    destruct o as [id now| |id|]; cbn [kapply] in E1; cbn [enq_ids flat_map app] in HN |- *.
    + destruct (k_enq st id now) as [st' r] eqn:Ek. inversion E1; subst; clear E1.
      assert (Hcons : forall l, (E ++ id :: l = (E ++ [id]) ++ l)%list) by (intros l; rewrite <- app_assoc; reflexivity).
      assert (Hfresh : ~ In id E).
      { intros Hc. apply NoDup_remove_2 in HN. apply HN. apply in_or_app. tauto. }
      pose proof (enq_acc E R st id now st1 r Hfresh HA Ek) as HA1.
      assert (map fst match r with Some c => [(id, c)] | None => [] end = match r with Some _ => [id] | None => [] end) as -> by (destruct r; reflexivity).
      change (enq_ids ops) with (flat_map (fun o => match o with OEnq id0 _ => [id0] | _ => [] end) ops) in Hgoal.
      rewrite Hcons.
      set (M := match r with Some _ => [id] | None => [] end) in *.
      assert (Hre : forall X Y : list string, (R ++ M ++ X) ++ Y = ((R ++ M) ++ X) ++ Y) by (intros; rewrite !app_assoc; reflexivity).
      repeat rewrite app_nil_r. rewrite (app_assoc R M).
      apply (Hgoal (E ++ [id])%list (R ++ M)%list); [exact HA1|]. rewrite <- Hcons. exact HN.
    + inversion E1; subst. cbn. rewrite app_nil_r. apply Hgoal; [apply shutdown_acc; exact HA|exact HN].
    + inversion E1; subst. cbn. rewrite app_nil_r. apply Hgoal; [apply complete_acc; exact HA|exact HN].
    + rewrite app_nil_r, (app_assoc R). apply (Hgoal E (R ++ map fst r1)%list); [|exact HN]. eapply tick_acc; [|exact HA|exact E1].
      eapply NoDup_app_remove_r. exact HN.
Qed.

Lemma acc_init : forall cap pool batch cbatch, Acc [] [] (k_init cap pool batch cbatch).
Proof. intros. split; [constructor|]. split; [constructor|intros i []]. Qed.

(* never two, and once the kernel reports done, never none: every request handed in has been answered exactly once *)
Theorem exactly_once : forall cap pool batch cbatch ops,
    NoDup (enq_ids ops) ->
    let st := fst (krun_ops (k_init cap pool batch cbatch) ops) in
    let answered := map fst (snd (krun_ops (k_init cap pool batch cbatch) ops)) in
    NoDup answered /\ (forall id, In id answered -> In id (enq_ids ops)) /\
    (k_is_done st = true -> Permutation (enq_ids ops) answered).
Proof.
  intros cap pool batch cbatch ops HN st answered.
  pose proof (run_acc ops (k_init cap pool batch cbatch) [] [] (acc_init _ _ _ _) HN) as [P _]. cbn [app] in P.
  fold st in P. fold answered in P.
  assert (HN' : NoDup (answered ++ pending st)) by (eapply Permutation_NoDup; eassumption).
  split; [eapply NoDup_app_remove_r; exact HN'|]. split.
  - intros id Hid. eapply Permutation_in; [apply Permutation_sym; exact P|]. apply in_or_app. tauto.
  - intros Hd. unfold k_is_done in Hd. apply andb_true_iff in Hd. destruct Hd as [Hd Hl]. apply andb_true_iff in Hd. destruct Hd as [_ Hs].
    unfold pending in P. destruct (k_sq st); [|discriminate]. destruct (k_live st); [|discriminate]. cbn in P. rewrite app_nil_r in P. exact P.
Qed.

(* after shutdown has been requested, a request is refused with the shutting-down error and changes nothing *)
Theorem shutdown_refuses : forall st id now, k_done st = true -> k_enq st id now = (st, Some ShuttingDown).
Proof. intros st id now H. unfold k_enq. rewrite H. reflexivity. Qed.

Theorem shutdown_sticky : forall st o, k_done st = true -> k_done (fst (kapply st o)) = true.
Proof.
  intros st o H. destruct o as [id now| |id|]; cbn.
  - unfold k_enq. rewrite H. exact H.
  - reflexivity.
  - unfold k_complete. destruct (_ && _); exact H.
  - unfold k_tick. destruct (pool_admit _ _). exact H.
Qed.

(* every tick with a non-empty submission queue takes at least one request out of it (and answers or admits it) *)
Theorem tick_progress : forall st, (1 <= k_batch st)%nat -> k_sq st <> [] ->
    (List.length (k_sq (fst (k_tick st))) < List.length (k_sq st))%nat.
Proof.
  intros st Hb Hs. unfold k_tick. destruct (pool_admit (k_pool st) _) as [adm rej]. cbn [fst k_sq]. rewrite skipn_length.
  unfold dequeue_count.
  assert (Hlen : (1 <= List.length (k_sq st))%nat) by (destruct (k_sq st); [contradiction|cbn; lia]).
  assert (1 <= Nat.div (k_batch st + 1) 2)%nat.
  { destruct (k_batch st) as [|b]; [lia|]. replace (S b + 1)%nat with (b + 1 * 2)%nat by lia. rewrite Nat.div_add by lia. lia. }
  lia.
Qed.
