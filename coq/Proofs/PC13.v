(* C13: what the front ends let through is what the kernel can take and what the trace theorems assume. *)
From RV Require Import Mon Valid Discipline SysInv.

Theorem wf_implies_asserts : forall q, req_wf_b q = true -> req_asserts q = true.
Proof. intros q H. unfold req_wf_b in H. apply andb_true_iff in H. tauto. Qed.

Theorem wf_implies_req_wf : forall q, req_wf_b q = true -> req_wf q.
Proof.
  intros q H. unfold req_wf_b in H. apply andb_true_iff in H. destruct H as [_ H]. destruct q; cbn; try exact I.
  unfold user_state_b in H. unfold user_state. exact H.
Qed.

(* a tick whose arrivals all passed the front ends is a well-formed directive: the hypothesis of the trace theorems *)
Theorem arrivals_wf : forall t dl bgs arrive,
    forallb (fun x => req_wf_b (snd x)) arrive = true -> dir_wf (DTick t dl bgs arrive).
Proof.
  intros t dl bgs arrive H. cbn. apply Forall_forall. intros x Hx. apply wf_implies_req_wf.
  eapply forallb_forall in H; eassumption.
Qed.
