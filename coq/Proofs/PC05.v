(* C05: registrations live only on pending promises and the completion transaction converts each of them
   into exactly one task in the same atomic step - for every schedule. *)
From RV Require Import Mon MonC05 Framework StoreLocks StorePromises StoreCallbacks Discipline SysInv Eqb.
From Coq Require Import Lia.

Lemma uniq_str_of : forall l, NoDup l -> uniq_str l = true.
Proof.
  induction l as [|x l IH]; intros H; cbn; [reflexivity|]. inversion H; subst. rewrite IH by assumption.
  rewrite andb_true_r. apply negb_true_iff. apply not_true_is_false. intros Hex. apply existsb_exists in Hex.
  destruct Hex as [y [Hy Heq]]. apply String.eqb_eq in Heq. subst. contradiction.
Qed.

Lemma task_for_b_of : forall c t, task_for c t -> task_for_b c t = true.
Proof.
  intros c t (a&b&c0&e&f). unfold task_for_b. rewrite a, b, c0, e, f.
  rewrite !String.eqb_refl, mesg_eqb_refl, Z.eqb_refl. reflexivity.
Qed.

Lemma c05_exec_ok : forall d d', CbInv d' -> conv_ok d d' -> c05_exec d d' = [].
Proof.
  intros d d' [PU [CU [TU CP]]] CV. unfold c05_exec.
  assert (forallb (fun c => has_pending d' (cb_pid c)) (callbacks d') = true) as ->.
  { apply forallb_forall. intros c Hc. destruct (CP c Hc) as [p [Hp [Hid Hst]]]. unfold has_pending.
    apply existsb_exists. exists p. split; [exact Hp|]. rewrite Hid, Hst, String.eqb_refl. reflexivity. }
  rewrite (uniq_str_of _ CU), (uniq_str_of _ TU). cbn.
  assert (forallb (fun c => existsb (callback_eqb c) (callbacks d') || existsb (task_for_b c) (tasks d')) (callbacks d) = true) as ->; [|reflexivity].
  apply forallb_forall. intros c Hc. destruct (CV c Hc) as [H|[x [Hx Hf]]].
  - assert (existsb (callback_eqb c) (callbacks d') = true) as ->; [|reflexivity].
    apply existsb_exists. exists c. split; [exact H|apply callback_eqb_refl].
  - assert (existsb (task_for_b c) (tasks d') = true) as ->; [|apply orb_true_r].
    apply existsb_exists. exists x. split; [exact Hx|apply task_for_b_of; exact Hf].
Qed.

Definition Inv05 (s : sys) : Prop := SInv s /\ CbInv (s_db s).

Lemma Inv05_init : Inv05 (sys0 db0).
Proof. split; [apply SInv_init|apply CbInv_init]. Qed.

(* the emission discipline makes every executed transaction a completion transaction or free of its commands *)
Lemma txns_ok : forall d now (txns : list (list command * list (option (list string)))),
    Forall (fun x => exists t, t <= now /\ Forall (cmd_at d t) (fst x) /\ txn_shape (fst x)) txns ->
    Forall (fun x => txn_ok (fst x)) txns.
Proof.
  intros d now txns H. eapply Forall_impl; [|exact H]. intros x [t [_ [Hc Hs]]]. destruct Hs as [[u [t0 E]]|Hs]; [|right; exact Hs].
  left. exists u, t0. split; [exact E|]. rewrite E in Hc. unfold completion_txn in Hc. inversion Hc; subst.
  cbn in H2. eapply up_ok_final; exact H2.
Qed.

Lemma c05_step : forall cfg s d s' ob,
    Inv05 s -> dir_wf d -> step cfg s d = Some (s', ob) -> Inv05 s' /\ c05_chk (s_now s) (s_db s) d ob = [].
Proof.
  intros cfg s d s' ob [HS HC] Hwf H. pose proof (SInv_step cfg s d s' ob HS Hwf H) as HS'.
  destruct d.
  - destruct (tick_obs_ok cfg s t deliver bgs arrive s' ob HS Hwf H) as [_ [Hdb _]].
    split; [split; [exact HS'|rewrite Hdb; exact HC]|reflexivity].
  - destruct (exec_obs cfg s batch s' ob HS H) as [txns [Ht [[rss [Ee ->]]|[Ee [Hdb ->]]]]]; cbn; rewrite app_nil_r.
    + destruct (exec_batch_cbinv _ _ _ _ (txns_ok _ _ _ Ht) HC Ee) as [HC' [_ [_ CV]]].
      split; [split; assumption|]. apply c05_exec_ok; assumption.
    + split; [split; [exact HS'|rewrite Hdb; exact HC]|]. apply c05_exec_ok; [exact HC|apply conv_ok_refl].
  - destruct (other_steps_db cfg s _ s' ob H I) as [Hdb ->]. split; [split; [exact HS'|rewrite Hdb; exact HC]|reflexivity].
  - destruct (other_steps_db cfg s _ s' ob H I) as [Hdb ->]. split; [split; [exact HS'|rewrite Hdb; exact HC]|reflexivity].
  - destruct (other_steps_db cfg s _ s' ob H I) as [Hdb ->]. split; [split; [exact HS'|rewrite Hdb; exact HC]|reflexivity].
  - destruct (other_steps_db cfg s _ s' ob H I) as [Hdb ->]. split; [split; [exact HS'|rewrite Hdb; exact HC]|reflexivity].
Qed.

Theorem C05_trace : forall cfg sch, sch_wf sch -> C05_mon (events cfg sch) = [].
Proof.
  intros cfg sch Hw. unfold C05_mon. apply mon_sound with (Inv := Inv05) (dir_ok := dir_wf).
  - intros s d s' ob HI Hd Hs. eapply c05_step; eassumption.
  - apply Inv05_init.
  - exact Hw.
Qed.

(* derived ids: the callback id of (root, leaf) and the subscription id of (promise, id) are injective when
   the first component contains no ':' - and not otherwise (DESIGN D2) *)
Fixpoint has_colon (s : string) : bool :=
  match s with EmptyString => false | String c s' => Ascii.eqb c ":"%char || has_colon s' end.

Lemma append_colon_inj : forall a b a' b',
    has_colon a = false -> has_colon a' = false -> (a ++ ":" ++ b)%string = (a' ++ ":" ++ b')%string -> a = a' /\ b = b'.
Proof.
  induction a as [|x a IH]; intros b a' b' Ha Ha' H; destruct a' as [|y a']; cbn in *.
  - inversion H; tauto.
  - inversion H; subst. rewrite Ascii.eqb_refl in Ha'. discriminate.
  - inversion H; subst. rewrite Ascii.eqb_refl in Ha. discriminate.
  - inversion H; subst. apply orb_false_iff in Ha, Ha'. destruct (IH b a' b' (proj2 Ha) (proj2 Ha') H2). subst. tauto.
Qed.

Lemma callback_id_inj : forall r l r' l', has_colon r = false -> has_colon r' = false ->
                                        callback_id r l = callback_id r' l' -> r = r' /\ l = l'.
Proof.
  intros r l r' l' Hr Hr' H. unfold callback_id in H. cbn in H. inversion H. eapply append_colon_inj; eassumption.
Qed.

Lemma subscription_id_inj : forall p i p' i', has_colon p = false -> has_colon p' = false ->
                                            subscription_id p i = subscription_id p' i' -> p = p' /\ i = i'.
Proof.
  intros p i p' i' Hp Hp' H. unfold subscription_id in H. cbn in H. inversion H. eapply append_colon_inj; eassumption.
Qed.
