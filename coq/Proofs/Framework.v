(* The proof skeleton every trace theorem uses: a system invariant preserved by every step under which
   the per-step check of a monitor is empty gives, by induction over the schedule, that the monitor is
   empty on the model's trace of EVERY schedule. *)
From RV Require Import Mon.
From Coq Require Import Lia.

Section Sound.
  Variable cfg : config.
  Variable chk : checker.
  Variable Inv : sys -> Prop.

  Variable dir_ok : directive -> Prop.     (* what the theorem assumes of the schedule, e.g. well-formed requests *)

  Hypothesis step_ok : forall s d s' ob,
      Inv s -> dir_ok d -> step cfg s d = Some (s', ob) -> Inv s' /\ chk (s_now s) (s_db s) d ob = [].

  Lemma step_now : forall s d s' ob, step cfg s d = Some (s', ob) -> s_now s' = mon_now (s_now s) d.
  Proof.
    intros s d s' ob H. destruct d; cbn in H.
    - destruct (t <? s_now s); [discriminate|].
      destruct (negb (ids_fresh s _)); [discriminate|].
      destruct (take_deliveries deliver (s_pend s)) as [[ds pl]|]; [|discriminate].
      destruct (run_insts cfg t (s_group s) ds (s_insts s)) as [[il1 pl1] ob1].
      destruct (start_insts _ _) as [[il2 pl2] ob2]. inversion H; reflexivity.
    - destruct (batch_txns batch (s_pend s)); [|discriminate].
      destruct (negb (nodup_items batch)); [discriminate|].
      destruct (c_fifo cfg && negb (fifo_ok batch (s_pend s))); [discriminate|].
      destruct (exec_batch (s_db s) l) as [[d' rss]|]; inversion H; reflexivity.
    - destruct (find_pend id n (s_pend s)); [|discriminate].
      destruct (unready p); inversion H; reflexivity.
    - destruct (find_pend id n (s_pend s)); [|discriminate].
      destruct (pd_sub p); try discriminate. destruct (pd_ready p); inversion H; reflexivity.
    - destruct (find_pend id n (s_pend s)); [|discriminate].
      destruct (pd_sub p); try discriminate. destruct (pd_ready p); inversion H; reflexivity.
    - inversion H; reflexivity.
  Qed.

  Lemma last_snap_no_exec : forall ob d, (forall o, In o ob -> match o with OExec _ _ _ => False | _ => True end) ->
                                         last_snap d ob = d.
  Proof.
    induction ob as [|o ob IH]; intros d H; cbn; [reflexivity|].
    pose proof (H o (or_introl eq_refl)) as Ho. destruct o; try contradiction; apply IH; intros; apply H; right; assumption.
  Qed.

  Lemma inst_obs_no_exec : forall id o x, In x (inst_obs id o) -> match x with OExec _ _ _ => False | _ => True end.
  Proof.
    intros id o x H. unfold inst_obs in H. destruct (o_subs o); destruct (visible_resp (o_resp o)); cbn in H;
      repeat (destruct H as [H|H]; [subst; exact I|]); try contradiction.
  Qed.

  Lemma run_insts_no_exec : forall now g ds il x, In x (snd (run_insts cfg now g ds il)) ->
                                                 match x with OExec _ _ _ => False | _ => True end.
  Proof.
    induction il as [|i il IH]; intros x H; cbn in H; [contradiction|].
    destruct (run_insts cfg now g ds il) as [[il2 pl2] ob2] eqn:E. cbn in H.
    apply in_app_or in H. destruct H as [H|H]; [eapply inst_obs_no_exec; eassumption|]. apply IH; exact H.
  Qed.

  Lemma start_insts_no_exec : forall starts g x, In x (snd (start_insts starts g)) ->
                                                 match x with OExec _ _ _ => False | _ => True end.
  Proof.
    induction starts as [|[id o] rest IH]; intros g x H; cbn in H; [contradiction|].
    destruct (start_insts rest g) as [[il pl] ob] eqn:E. cbn in H.
    apply in_app_or in H. destruct H as [H|H]; [eapply inst_obs_no_exec; eassumption|].
    apply (IH g). rewrite E. exact H.
  Qed.

  Lemma step_db : forall s d s' ob, step cfg s d = Some (s', ob) -> s_db s' = last_snap (s_db s) ob.
  Proof.
    intros s d s' ob H. destruct d; cbn in H.
    - destruct (t <? s_now s); [discriminate|].
      destruct (negb (ids_fresh s _)); [discriminate|].
      destruct (take_deliveries deliver (s_pend s)) as [[ds pl]|]; [|discriminate].
      destruct (run_insts cfg t (s_group s) ds (s_insts s)) as [[il1 pl1] ob1] eqn:E1.
      destruct (start_insts _ _) as [[il2 pl2] ob2] eqn:E2. inversion H; subst; cbn.
      symmetry; apply last_snap_no_exec. intros o Ho. apply in_app_or in Ho. destruct Ho as [Ho|Ho].
      + apply (run_insts_no_exec t (s_group s) ds (s_insts s)). rewrite E1. exact Ho.
      + eapply start_insts_no_exec. rewrite E2. exact Ho.
    - destruct (batch_txns batch (s_pend s)); [|discriminate].
      destruct (negb (nodup_items batch)); [discriminate|].
      destruct (c_fifo cfg && negb (fifo_ok batch (s_pend s))); [discriminate|].
      destruct (exec_batch (s_db s) l) as [[d' rss]|]; inversion H; reflexivity.
    - destruct (find_pend id n (s_pend s)); [|discriminate].
      destruct (unready p); inversion H; reflexivity.
    - destruct (find_pend id n (s_pend s)); [|discriminate].
      destruct (pd_sub p); try discriminate. destruct (pd_ready p); inversion H; reflexivity.
    - destruct (find_pend id n (s_pend s)); [|discriminate].
      destruct (pd_sub p); try discriminate. destruct (pd_ready p); inversion H; reflexivity.
    - inversion H; reflexivity.
  Qed.

  Lemma mon_from_sound : forall sch s i,
      Inv s -> Forall dir_ok sch -> mon_from chk (s_now s) (s_db s) i (events_from cfg s sch) = [].
  Proof.
    induction sch as [|d sch IH]; intros s i HI Hd; cbn; [reflexivity|]. inversion Hd; subst.
    destruct (step cfg s d) as [[s' ob]|] eqn:E; cbn; [|reflexivity].
    destruct (step_ok s d s' ob HI H1 E) as [HI' Hc]. rewrite Hc; cbn.
    rewrite <- (step_now s d s' ob E), <- (step_db s d s' ob E). apply IH; assumption.
  Qed.

  Theorem mon_sound : Inv (sys0 db0) -> forall sch, Forall dir_ok sch -> mon chk (events cfg sch) = [].
  Proof. intros H0 sch Hd. unfold mon, events. apply (mon_from_sound sch (sys0 db0) 0 H0 Hd). Qed.
End Sound.
