(* C04, clause 404 at trace level: for EVERY schedule, whatever completion a coroutine hands to the store at tick t
   is the time-out of a promise whose deadline has been reached, or installs a caller's state decided at t, strictly
   before the deadline. *)
From RV Require Import Mon MonC04 Framework StorePromises Discipline SysInv Eqb.
From Coq Require Import Lia.

Lemma user_state_same : forall s, user_state_b s = Discipline.user_state s.
Proof. reflexivity. Qed.

Lemma up_ok_emit : forall d t u, prom_uniq d -> up_ok d t u -> c04_emit t d u = true.
Proof.
  intros d t u U [q [Hq [Hid H]]]. unfold c04_emit, find_promise. rewrite <- Hid.
  rewrite (find_promise_uniq (promises d) q U Hq).
  destruct H as [(H1&H2&H3&H4&H5&H6)|(H1&H2&H3)].
  - apply orb_true_iff. left. rewrite H1, H3, H4, H5, H6. rewrite !Z.eqb_refl. cbn.
    assert ((p_timeout q <=? t) = true) as -> by (apply Z.leb_le; exact H2). reflexivity.
  - apply orb_true_iff. right. rewrite H1, Z.eqb_refl. cbn.
    assert ((t <? p_timeout q) = true) as -> by (apply Z.ltb_lt; exact H2). cbn. rewrite user_state_same. exact H3.
Qed.

Lemma c04e_step : forall cfg s d s' ob,
    SInv s -> dir_wf d -> step cfg s d = Some (s', ob) -> SInv s' /\ c04e_chk (s_now s) (s_db s) d ob = [].
Proof.
  intros cfg s d s' ob HS Hwf H. pose proof (SInv_step cfg s d s' ob HS Hwf H) as HS'. split; [exact HS'|].
  destruct d; try reflexivity.
  destruct (tick_obs_ok cfg s t deliver bgs arrive s' ob HS Hwf H) as [_ [_ Hob]]. cbn.
  apply flat_map_nil. intros x Hx. destruct (proj1 (Forall_forall _ _) Hob x Hx) as [id [o [next [-> [Hsubs _]]]]].
  apply flat_map_nil. intros sb Hsb. pose proof (proj1 (Forall_forall _ _) Hsubs sb Hsb) as Hat.
  destruct sb as [cs| |]; try reflexivity. destruct Hat as [Hcs _].
  apply flat_map_nil. intros c Hc. pose proof (proj1 (Forall_forall _ _) Hcs c Hc) as Hcat.
  destruct c; try reflexivity. cbn in Hcat. rewrite (up_ok_emit _ _ _ (SInv_uniq s HS) Hcat). reflexivity.
Qed.

Theorem C04e_trace : forall cfg sch, sch_wf sch -> C04e_mon (events cfg sch) = [].
Proof.
  intros cfg sch Hw. unfold C04e_mon. apply mon_sound with (Inv := SInv) (dir_ok := dir_wf).
  - intros s d s' ob HI Hd Hs. eapply c04e_step; eassumption.
  - apply SInv_init.
  - exact Hw.
Qed.
