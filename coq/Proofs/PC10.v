(* C10: what can happen to a schedule row (store level, arbitrary commands and databases) and what the firing
   coroutine asks for (coroutine level, arbitrary records and clocks). *)
From RV Require Import Mon MonC10 Eqb.
From Coq Require Import Lia.

Definition is_schedule_write (c : command) : bool :=
  match c with CreateSchedule _ | UpdateSchedule _ _ _ | DeleteSchedule _ => true | _ => false end.

Lemma exec_schedules_frame : forall d c h d' r, exec d c h = Some (d', r) -> is_schedule_write c = false -> schedules d' = schedules d.
Proof.
  intros d c h d' r H W. destruct c; cbn in W; try discriminate; cbn in H; unfold alter in H;
    try (inversion H; subst; reflexivity).
  - destruct (ex_search_promises _ _ _ _ _ _); inversion H; reflexivity.
  - inversion H; subst. unfold ex_create_promise. destruct (find_promise _ _); reflexivity.
  - inversion H; subst. unfold ex_create_callback. destruct (_ && _); reflexivity.
  - destruct (ex_search_schedules _ _ _ _ _); inversion H; reflexivity.
  - destruct (ex_read_enqueueable _ _ _); inversion H; reflexivity.
  - inversion H; subst. unfold ex_create_task. destruct (find_task _ _); reflexivity.
  - destruct (ex_create_tasks d pid created) as [x|] eqn:E; [|discriminate]. inversion H; subst.
    unfold ex_create_tasks in E. destruct (existsb _ _); [discriminate|]. inversion E; reflexivity.
  - unfold ex_create_promise_and_task in H.
    assert (E1 : schedules (fst (ex_create_promise d pc)) = schedules d) by (unfold ex_create_promise; destruct (find_promise _ _); reflexivity).
    destruct (ex_create_promise d pc) as [d1 pr]. cbn in E1. destruct (pr =? 0).
    + inversion H; subst. exact E1.
    + assert (E2 : schedules (fst (ex_create_task d1 tc)) = schedules d1) by (unfold ex_create_task; destruct (find_task _ _); reflexivity).
      destruct (ex_create_task d1 tc) as [d2 tr]. cbn in E2. inversion H; subst. congruence.
  - inversion H; subst. unfold ex_acquire_lock. destruct (find_lock _ _); [destruct (String.eqb _ _)|]; reflexivity.
Qed.

(* every old row: still there, advanced by an update that names exactly its current occurrence, or deleted *)
Theorem schedule_row_fate : forall d c h d' r s,
    exec d c h = Some (d', r) -> In s (schedules d) ->
    In s (schedules d') \/
    (exists n, c = UpdateSchedule (s_id s) (Some (s_next s)) n /\ In (advance_s n s) (schedules d')) \/
    c = DeleteSchedule (s_id s).
Proof.
  intros d c h d' r s H Hs. destruct (is_schedule_write c) eqn:W.
  - destruct c; cbn in W; try discriminate; cbn in H; unfold alter in H; inversion H; subst; clear H.
    + left. unfold ex_create_schedule. destruct (find_schedule _ _); cbn; [exact Hs|apply in_or_app; tauto].
    + cbn. destruct (us_guard id last s) eqn:G.
      * right; left. unfold us_guard in G. apply andb_true_iff in G. destruct G as [G1 G2]. apply String.eqb_eq in G1.
        destruct last as [l|]; [|discriminate]. apply Z.eqb_eq in G2. subst. exists next. split; [reflexivity|].
        apply in_map_iff. exists s. split; [|exact Hs]. cbn beta. unfold us_guard. rewrite String.eqb_refl, Z.eqb_refl. reflexivity.
      * left. apply in_map_iff. exists s. split; [|exact Hs]. cbn beta. rewrite G. reflexivity.
    + cbn. destruct (String.eqb (s_id s) id) eqn:E.
      * right; right. apply String.eqb_eq in E. subst. reflexivity.
      * left. apply filter_In. rewrite E. tauto.
  - left. rewrite (exec_schedules_frame _ _ _ _ _ H W). exact Hs.
Qed.

(* every new row: an old row, an old row advanced from its occurrence, or the row a create command carries *)
Theorem schedule_row_origin : forall d c h d' r s',
    exec d c h = Some (d', r) -> In s' (schedules d') ->
    In s' (schedules d) \/
    (exists s n, In s (schedules d) /\ c = UpdateSchedule (s_id s) (Some (s_next s)) n /\ s' = advance_s n s) \/
    (exists cc, c = CreateSchedule cc /\ s' = new_schedule cc (next_s d) /\ find_schedule (cs_id cc) d = None).
Proof.
  intros d c h d' r s' H Hs. destruct (is_schedule_write c) eqn:W.
  - destruct c; cbn in W; try discriminate; cbn in H; unfold alter in H; inversion H; subst; clear H.
    + unfold ex_create_schedule in Hs. destruct (find_schedule (cs_id c) d) eqn:F; cbn in Hs; [tauto|].
      apply in_app_or in Hs. destruct Hs as [Hs|[Hs|[]]]; [tauto|]. right; right. exists c. subst s'. tauto.
    + cbn in Hs. apply in_map_iff in Hs. destruct Hs as [s [E Hin]]. destruct (us_guard id last s) eqn:G.
      * right; left. unfold us_guard in G. apply andb_true_iff in G. destruct G as [G1 G2]. apply String.eqb_eq in G1.
        destruct last as [l|]; [|discriminate]. apply Z.eqb_eq in G2. subst. exists s, next. tauto.
      * subst. tauto.
    + cbn in Hs. apply filter_In in Hs. tauto.
  - left. rewrite <- (exec_schedules_frame _ _ _ _ _ H W). exact Hs.
Qed.

(* advancing keeps every column but last/next run time, and records the occurrence that fired *)
Lemma advance_static : forall n s, sched_static_eqb s (advance_s n s) = true /\ s_last (advance_s n s) = Some (s_next s) /\
                                   s_next (advance_s n s) = n /\ same_sched s (advance_s n s) = true.
Proof.
  intros n s. unfold sched_static_eqb, same_sched, advance_s; cbn.
  rewrite !String.eqb_refl, !smap_eqb_refl, !Z.eqb_refl, opt_str_refl. tauto.
Qed.

(* the firing coroutine: for ANY record and clock, the child it spawns asks for exactly the promise of the record's
   current occurrence and for the advance to the cron successor OF THAT OCCURRENCE (not of the clock) *)
Theorem schedule_child_spec : forall cfg now s pc extra,
    schedule_child cfg now s = Some (pc, extra) ->
    exists n id,
      c_next cfg (s_cron s) (s_next s) = Some n /\
      expand (s_pid s) (s_id s) (dec (s_next s)) = Some id /\
      extra = [UpdateSchedule (s_id s) (Some (s_next s)) n] /\
      expected_cp s id pc = true /\ cp_created pc = now.
Proof.
  intros cfg now s pc extra H. unfold schedule_child in H.
  destruct (c_next cfg (s_cron s) (s_next s)) as [n|]; [|discriminate].
  destruct (expand (s_pid s) (s_id s) (dec (s_next s))) as [id|]; [|discriminate].
  inversion H; subst. exists n, id. repeat split; try reflexivity.
  unfold expected_cp; cbn. rewrite String.eqb_refl, Z.eqb_refl, !smap_eqb_refl, String.eqb_refl. reflexivity.
Qed.

(* and the transaction the child submits once the router has answered is a firing transaction *)
Theorem firing_txn_spec : forall cfg now s pc extra c next sl subs id,
    schedule_child cfg now s = Some (pc, extra) ->
    expand (s_pid s) (s_id s) (dec (s_next s)) = Some id ->
    wake_slot (SlRouter 0 pc extra) c next = (sl, subs) ->
    subs = [] \/ exists t, subs = [SStore t] /\ firing_txn s id t = true.
Proof.
  intros cfg now s pc extra c next sl subs id H He Hw.
  destruct (schedule_child_spec _ _ _ _ _ H) as [n [id' [Hn [He' [-> [Hcp _]]]]]].
  rewrite He in He'. inversion He'; subst id'. cbn in Hw.
  destruct c as [rs|[recv|]|b|]; cbn in Hw; inversion Hw; subst; try (left; reflexivity).
  - right. eexists. split; [reflexivity|]. cbn. rewrite Hcp, !String.eqb_refl, Z.eqb_refl. cbn.
    unfold expected_cp in Hcp. apply andb_true_iff in Hcp. destruct Hcp as [Hcp _].
    repeat (apply andb_true_iff in Hcp; destruct Hcp as [Hcp ?]). apply String.eqb_eq in Hcp. rewrite Hcp. apply String.eqb_refl.
  - right. eexists. split; [reflexivity|]. cbn. rewrite Hcp, !String.eqb_refl, Z.eqb_refl. reflexivity.
Qed.
