(* C03, clause 302 at trace level: for EVERY schedule, at most one create and at most one complete of an id is answered
   "took effect" (201).  A report (rows affected <> 0 for the promise write at the head of a transaction) lives in
   exactly one place at a time: in the completion of one submission slot waiting in the completion queue, or - once
   the coroutine that owns the slot has turned it into its answer - in the monitor's list.  A second report of the
   same kind for the same id cannot be produced because the first one left a durable, monotone fact behind
   (PC03once.Step). *)
From RV Require Import Mon MonC03 Framework StoreLocks StorePromises StoreCallbacks Discipline SysInv Eqb PC03 Hist PT03 PC03once.
From Coq Require Import Lia.

Definition key := (bool * string)%type.

Definition sub_key (s : sub) : option key :=
  match s with
  | SStore (CreatePromise pc :: _) => Some (true, cp_id pc)
  | SStore (CreatePromiseAndTask pc _ :: _) => Some (true, cp_id pc)
  | SStore (UpdatePromise u :: _) => Some (false, up_id u)
  | _ => None
  end.

(* the report a waiting completion carries *)
Definition rep (p : pend) : option key :=
  match pd_ready p with
  | Some c => if reports c then sub_key (pd_sub p) else None
  | None => None
  end.

Definition same_slot (p q : pend) : Prop := pd_id p = pd_id q /\ pd_n p = pd_n q.

Definition PInv (dn : list key) (d : db) (pl : list pend) : Prop :=
  NoDup dn /\ (forall k, In k dn -> fact d k) /\
  (forall p k, In p pl -> rep p = Some k -> fact d k /\ ~ In k dn) /\
  (forall p q k, In p pl -> In q pl -> rep p = Some k -> rep q = Some k -> same_slot p q).

(* ---------- set_ready ---------- *)
Lemma set_ready_in : forall id n c pl p p', find_pend id n pl = Some p -> In p' (set_ready id n c pl) ->
    In p' pl \/ p' = mkPend (pd_id p) (pd_n p) (pd_sub p) (pd_group p) (Some c).
Proof.
  intros id n c pl p p'. unfold find_pend. induction pl as [|x pl IH]; cbn; intros F H; [discriminate|].
  destruct (pend_is id n x) eqn:E.
  - injection F as <-. destruct H as [<-|H]; [right; reflexivity|left; right; exact H].
  - destruct H as [<-|H]; [left; left; reflexivity|]. destruct (IH F H) as [A|A]; [left; right; exact A|right; exact A].
Qed.

Lemma set_ready_none : forall id n c pl, find_pend id n pl = None -> set_ready id n c pl = pl.
Proof.
  intros id n c pl. unfold find_pend. induction pl as [|x pl IH]; cbn; intros F; [reflexivity|].
  destruct (pend_is id n x); [discriminate|]. rewrite (IH F). reflexivity.
Qed.

Lemma rep_unready : forall p, pd_ready p = None -> rep p = None.
Proof. intros p H. unfold rep. rewrite H. reflexivity. Qed.

(* a completion that reports nothing changes nothing *)
Lemma PInv_set_ready_silent : forall dn d pl id n c, reports c = false -> PInv dn d pl -> PInv dn d (set_ready id n c pl).
Proof.
  intros dn d pl id n c Hc (N & F & A & U). destruct (find_pend id n pl) as [p0|] eqn:Ef; [|rewrite (set_ready_none _ _ _ _ Ef); exact (conj N (conj F (conj A U)))].
  assert (Hold : forall p' k, In p' (set_ready id n c pl) -> rep p' = Some k -> In p' pl).
  { intros p' k Hin Hr. destruct (set_ready_in _ _ _ _ _ _ Ef Hin) as [H| ->]; [exact H|]. unfold rep in Hr. cbn in Hr. rewrite Hc in Hr. discriminate. }
  split; [exact N|]. split; [exact F|]. split.
  - intros p' k Hin Hr. apply (A p' k); [eapply Hold; eassumption|exact Hr].
  - intros p' q' k Hp Hq Rp Rq. apply (U p' q' k); try assumption; eapply Hold; eassumption.
Qed.

(* ---------- an executed batch ---------- *)
Lemma head_report : forall d cs hs d1 rs k, exec_txn d cs hs = Some (d1, rs) -> reports (CStore rs) = true -> sub_key (SStore cs) = Some k ->
    In k (txn_took cs rs).
Proof.
  intros d cs hs d1 rs k H Hr Hk. destruct cs as [|cmd cs]; [discriminate|]. cbn [exec_txn] in H.
  destruct (exec d cmd (hd None hs)) as [[dx r]|] eqn:E; [|discriminate].
  destruct (exec_txn dx cs (tl hs)) as [[dy rs']|]; [|discriminate]. injection H as _ <-. cbn [txn_took]. apply in_or_app. left.
  destruct cmd; cbn in Hk; try discriminate; injection Hk as <-.
  - assert (Hx : r = RAlter (snd (ex_create_promise d c))) by (cbn [exec] in E; unfold alter in E; congruence). subst r.
    cbn in Hr. cbn [took]. destruct (snd (ex_create_promise d c) =? 0); [discriminate|left; reflexivity].
  - assert (Hx : r = RAlter (snd (ex_update_promise d c))) by (cbn [exec] in E; unfold alter in E; congruence). subst r.
    cbn [reports] in Hr. cbn [took]. destruct (snd (ex_update_promise d c) =? 0); [discriminate|left; reflexivity].
  - cbn [exec] in E. destruct (ex_create_promise_and_task d pc tc) as [d' [pr tr]]. injection E as _ <-.
    cbn in Hr. cbn [took]. destruct (pr =? 0); [discriminate|left; reflexivity].
Qed.

Lemma PInv_txn : forall dn d pl id n p cs hs d1 rs lose,
    prom_uniq d -> Forall (fun c => accepts c = true) cs -> find_pend id n pl = Some p -> pd_sub p = SStore cs -> pd_ready p = None ->
    exec_txn d cs hs = Some (d1, rs) -> PInv dn d pl ->
    PInv dn d1 (set_ready id n (if lose : bool then CErr else CStore rs) pl) /\ prom_uniq d1.
Proof.
  intros dn d pl id n p cs hs d1 rs lose U A Ef Es Er H (N & F & P & S).
  pose proof (txn_Step _ _ _ _ _ U A H) as (TN & TB & TA & TM & TU). split; [|exact TU].
  set (c := if lose then CErr else CStore rs).
  assert (Hcase : forall p' k, In p' (set_ready id n c pl) -> rep p' = Some k ->
                    (In p' pl /\ rep p' = Some k) \/
                    (p' = mkPend (pd_id p) (pd_n p) (pd_sub p) (pd_group p) (Some c) /\ ~ fact d k /\ fact d1 k)).
  { intros p' k Hin Hr. destruct (set_ready_in _ _ _ _ _ _ Ef Hin) as [Hold| ->]; [left; split; assumption|]. right.
    split; [reflexivity|]. unfold rep in Hr. cbn [pd_ready pd_sub] in Hr. unfold c in Hr. destruct lose; [cbn in Hr; discriminate|].
    destruct (reports (CStore rs)) eqn:Erp; [|discriminate]. rewrite Es in Hr.
    pose proof (head_report _ _ _ _ _ _ H Erp Hr) as Hin'. split; [apply TB; exact Hin'|apply TA; exact Hin']. }
  split; [exact N|]. split; [intros k Hk; apply TM; apply F; exact Hk|]. split.
  - intros p' k Hin Hr. destruct (Hcase p' k Hin Hr) as [[Hold Hr']|[_ [Hnf Hf]]].
    + destruct (P p' k Hold Hr') as [Hf Hn]. split; [apply TM; exact Hf|exact Hn].
    + split; [exact Hf|]. intros Hd. apply Hnf. apply F. exact Hd.
  - intros p' q' k Hp Hq Rp Rq. destruct (Hcase p' k Hp Rp) as [[Hop Rp']|[-> [Hnf _]]], (Hcase q' k Hq Rq) as [[Hoq Rq']|[-> [Hnf' _]]].
    + apply (S p' q' k); assumption.
    + exfalso. apply Hnf'. apply (P p' k Hop Rp').
    + exfalso. apply Hnf. apply (P q' k Hoq Rq').
    + split; reflexivity.
Qed.

Lemma batch_reports : forall batch txns rss d d' pl dn,
    batch_txns batch pl = Some txns -> nodup_items batch = true -> exec_batch d txns = Some (d', rss) ->
    prom_uniq d -> batch_accepted txns -> PInv dn d pl -> PInv dn d' (set_batch_ready batch (Some rss) pl).
Proof.
  induction batch as [|e batch IH]; intros txns rss d d' pl dn Hb Hn He U A HP; cbn in Hb.
  - injection Hb as <-. cbn in He. injection He as <- <-. exact HP.
  - cbn in Hn. destruct (find_pend (ex_id e) (ex_n e) pl) as [p|] eqn:F; [|discriminate].
    destruct (pd_sub p) as [cs| |] eqn:Es; try discriminate. destruct (pd_ready p) eqn:Er; [discriminate|].
    destruct (batch_txns batch pl) as [l|] eqn:Eb; [|discriminate]. injection Hb as <-.
    apply andb_true_iff in Hn. destruct Hn as [Hn1 Hn2]. apply negb_true_iff in Hn1.
    cbn in He. destruct (exec_txn d cs (ex_hints e)) as [[d1 rs]|] eqn:E; [|discriminate].
    destruct (exec_batch d1 l) as [[d2 rss2]|] eqn:E2; [|discriminate]. injection He as <- <-.
    inversion A as [|? ? A1 A2]; subst. cbn in A1.
    destruct (PInv_txn dn d pl (ex_id e) (ex_n e) p cs (ex_hints e) d1 rs (ex_lose e) U A1 F Es Er E HP) as [HP1 U1].
    cbn [set_batch_ready option_map tl]. eapply (IH l rss2 d1 d2); try eassumption.
    rewrite batch_txns_set_ready; [exact Eb|]. intros e' He'. unfold pend_is; cbn.
    destruct (String.eqb (ex_id e) (ex_id e') && Nat.eqb (ex_n e) (ex_n e')) eqn:E12; [|reflexivity].
    exfalso. assert (existsb (fun e'0 => String.eqb (ex_id e) (ex_id e'0) && Nat.eqb (ex_n e) (ex_n e'0)) batch = true); [|congruence].
    apply existsb_exists. exists e'. tauto.
Qed.

Lemma batch_fail_reports : forall batch pl dn d, PInv dn d pl -> PInv dn d (set_batch_ready batch None pl).
Proof.
  induction batch as [|e batch IH]; intros pl dn d HP; cbn; [exact HP|]. apply IH. apply PInv_set_ready_silent; [reflexivity|exact HP].
Qed.

(* ---------- the tick ---------- *)
Lemma key_eqb_eq : forall a b, key_eqb a b = true <-> a = b.
Proof.
  intros [a1 a2] [b1 b2]. unfold key_eqb. cbn. rewrite andb_true_iff, Bool.eqb_true_iff, String.eqb_eq. split.
  - intros [-> ->]. reflexivity.
  - intros H. injection H as -> ->. split; reflexivity.
Qed.

Lemma existsb_key : forall k l, existsb (key_eqb k) l = true <-> In k l.
Proof.
  intros k l. rewrite existsb_exists. split.
  - intros [x [Hx E]]. apply key_eqb_eq in E. subst x. exact Hx.
  - intros H. exists k. split; [exact H|apply key_eqb_eq; reflexivity].
Qed.

Definition akey (cfg : config) (t : Z) (ds : list (string * (nat * cpl))) (m : rmap) (i : inst) : list (string * key) :=
  match visible_resp (o_resp (inst_step cfg t ds i)) with
  | Some rsp => match lookup_req (i_id i) m with
                | Some q => match took_effect q rsp with Some k => [(i_id i, k)] | None => [] end
                | None => []
                end
  | None => []
  end.

Definition add_key (acc : list key * list Z) (x : string * key) : list key * list Z :=
  if existsb (key_eqb (snd x)) (fst acc) then (fst acc, 302 :: snd acc) else (snd x :: fst acc, snd acc).

Lemma run_insts_fold : forall cfg t g ds m il acc,
    fold_left (obs302 m) (snd (run_insts cfg t g ds il)) acc = fold_left add_key (flat_map (akey cfg t ds m) il) acc.
Proof.
  induction il as [|i il IH]; intros acc; cbn [run_insts flat_map]; [reflexivity|].
  destruct (run_insts cfg t g ds il) as [[il2 pl2] ob2] eqn:E. cbn [snd] in *. rewrite !fold_left_app. rewrite <- IH. f_equal.
  change (run_inst cfg (i_st i) (deliveries_for (i_id i) ds) t (i_next i)) with (inst_step cfg t ds i).
  unfold inst_obs, akey. destruct (o_subs (inst_step cfg t ds i)) as [|sb subs], (visible_resp (o_resp (inst_step cfg t ds i))) as [rsp|]; cbn [fold_left obs302];
    try reflexivity; destruct (lookup_req (i_id i) m) as [q|]; try reflexivity; destruct (took_effect q rsp) as [k|]; reflexivity.
Qed.

Lemma fold_add_keys : forall L acc, NoDup (map snd L) -> (forall x, In x L -> ~ In (snd x) (fst acc)) ->
    fold_left add_key L acc = (rev (map snd L) ++ fst acc, snd acc)%list.
Proof.
  induction L as [|x L IH]; intros acc N H; cbn [fold_left map rev]; [destruct acc; reflexivity|].
  inversion N as [|? ? Hn Hl]; subst. unfold add_key at 2.
  destruct (existsb (key_eqb (snd x)) (fst acc)) eqn:E; [exfalso; apply existsb_key in E; exact (H x (or_introl eq_refl) E)|].
  rewrite IH; [|exact Hl|].
  - cbn [fst snd]. rewrite <- app_assoc. reflexivity.
  - intros y Hy. cbn [fst]. intros [Heq|Hin]; [apply Hn; rewrite Heq; apply in_map; exact Hy|exact (H y (or_intror Hy) Hin)].
Qed.

Lemma fold_silent : forall m ob acc, (forall x a, In x ob -> obs302 m a x = a) -> fold_left (obs302 m) ob acc = acc.
Proof.
  induction ob as [|x ob IH]; intros acc H; cbn; [reflexivity|]. rewrite (H x acc (or_introl eq_refl)). apply IH.
  intros y a Hy. apply H. right. exact Hy.
Qed.

Lemma took_noncc : forall q rsp, is_cc q = false -> took_effect q rsp = None.
Proof. intros q rsp H. destruct q; cbn in H; try discriminate; destruct rsp; reflexivity. Qed.

Lemma start_no_took : forall q t rsp, o_resp (start_req q t 0) = Some rsp -> took_effect q rsp = None.
Proof.
  intros q t rsp H. destruct (is_cc q) eqn:E; [|apply took_noncc; exact E].
  destruct q; cbn in E; try discriminate; cbn in H; discriminate.
Qed.

Lemma took_status : forall q rsp k, took_effect q rsp = Some k ->
    status_of rsp = 20100 /\
    ((exists r, (q = QCreatePromise r \/ exists pid ttl, q = QCreatePromiseAndTask r pid ttl) /\ k = (true, cpr_id r)) \/
     (exists r, q = QCompletePromise r /\ k = (false, cmr_id r))).
Proof.
  intros q rsp k H. destruct q; try (destruct rsp; discriminate).
  - destruct rsp; cbn in H; try discriminate. destruct (status =? 20100) eqn:E; [|discriminate]. apply Z.eqb_eq in E. injection H as <-.
    split; [exact E|]. left. exists r. split; [left; reflexivity|reflexivity].
  - destruct rsp; cbn in H; try discriminate. destruct (status =? 20100) eqn:E; [|discriminate]. apply Z.eqb_eq in E. injection H as <-.
    split; [exact E|]. left. exists r. split; [right; do 2 eexists; reflexivity|reflexivity].
  - destruct rsp; cbn in H; try discriminate. destruct (status =? 20100) eqn:E; [|discriminate]. apply Z.eqb_eq in E. injection H as <-.
    split; [exact E|]. right. exists r. split; reflexivity.
Qed.

(* an answer "took effect" is made of a report delivered to the slot of the answering instance *)
Lemma answer_key : forall cfg s t ds m i q rsp k,
    SInv s -> RInv m s -> In i (s_insts s) ->
    (forall id n c, In (id, (n, c)) ds -> exists p, In p (s_pend s) /\ pd_id p = id /\ pd_n p = n /\ pd_ready p = Some c) ->
    lookup_req (i_id i) m = Some q -> o_resp (inst_step cfg t ds i) = Some rsp -> took_effect q rsp = Some k ->
    exists p c, In p (s_pend s) /\ pd_id p = i_id i /\ In (i_id i, (pd_n p, c)) ds /\ rep p = Some k.
Proof.
  intros cfg s t ds m i q rsp k [_ [_ [HI _]]] HR Hi Hdel Hq Hrsp Ht.
  pose proof (proj1 (Forall_forall _ _) HI i Hi) as [Hst [_ Hexp]]. pose proof (HR i q Hi Hq) as Hs.
  unfold inst_step, run_inst in Hrsp. destruct (i_st i) as [kk n|fk sl wk|] eqn:Es; cbn in Hs.
  - destruct (find (fun d => Nat.eqb (fst d) n) (deliveries_for (i_id i) ds)) as [[n' c]|] eqn:F; [|discriminate].
    apply find_some in F. destruct F as [Fin Fe]. cbn in Fe. apply Nat.eqb_eq in Fe. subst n'. cbn [snd] in Hrsp.
    apply deliveries_for_in in Fin. destruct (Hdel _ _ _ Fin) as [p [Hp [Hid [Hn Hrdy]]]].
    destruct (Hexp kk n eq_refl) as [_ Hke]. specialize (Hke p Hp Hid Hn). cbn in Hst.
    exists p, c. split; [exact Hp|]. split; [exact Hid|]. split; [rewrite Hn; exact Fin|].
    destruct (took_status _ _ _ Ht) as [Hstat [[r [Hqr ->]]|[r [-> ->]]]].
    + assert (Hk : kcreate kk r) by (destruct Hqr as [->|[pid [ttl ->]]]; exact Hs).
      destruct (created_needs_report cfg kk c t (i_next i) r rsp Hk Hrsp Hstat) as [Hrep [tc0 [wt [pc [tc [-> Hpc]]]]]].
      unfold rep. rewrite Hrdy, Hrep. cbn in Hke. destruct tc as [tc'|]; rewrite Hke; cbn; rewrite Hpc; reflexivity.
    + cbn in Hs. destruct (completed_needs_report cfg kk c t (i_next i) r rsp Hs Hrsp Hstat) as [Hrep [p0 [cmd [-> _]]]].
      unfold rep. rewrite Hrdy, Hrep. cbn in Hke. destruct Hke as [t' ->]. cbn. destruct Hs as [_ [Hp0 _]]. destruct Hst as [_ [Hup _]].
      rewrite Hup, Hp0. reflexivity.
  - rewrite (took_noncc q rsp Hs) in Ht. discriminate.
  - discriminate.
Qed.

Lemma take_deliveries_rest : forall dl pl ds pl', take_deliveries dl pl = Some (ds, pl') ->
    forall p id n c, In p pl' -> In (id, (n, c)) ds -> ~ (pd_id p = id /\ pd_n p = n).
Proof.
  induction dl as [|[id0 n0] dl IH]; intros pl ds pl' H p id n c Hp Hin; cbn in H.
  - injection H as <- <-. contradiction.
  - destruct (find_pend id0 n0 pl) as [q|]; [|discriminate]. destruct (pd_ready q) as [c0|]; [|discriminate].
    destruct (take_deliveries dl (remove_pend id0 n0 pl)) as [[ds2 pl2]|] eqn:E; [|discriminate]. injection H as <- <-.
    destruct Hin as [Heq|Hin].
    + injection Heq as <- <- <-. destruct (take_deliveries_spec _ _ _ _ E) as [Hsub _]. pose proof (Hsub p Hp) as Hr.
      unfold remove_pend in Hr. apply filter_In in Hr. destruct Hr as [_ Hr]. apply negb_true_iff in Hr. unfold pend_is in Hr.
      intros [<- <-]. rewrite String.eqb_refl, Nat.eqb_refl in Hr. discriminate.
    + eapply IH; eassumption.
Qed.

Lemma NoDup_app_intro : forall {A} (l l' : list A), NoDup l -> NoDup l' -> (forall x, In x l -> ~ In x l') -> NoDup (l ++ l').
Proof.
  intros A l l' N N' D. induction l as [|x l IH]; cbn; [exact N'|]. inversion N as [|? ? Hn Hl]; subst. constructor.
  - intros H. apply in_app_or in H. destruct H as [H|H]; [exact (Hn H)|exact (D x (or_introl eq_refl) H)].
  - apply IH; [exact Hl|]. intros y Hy. apply D. right. exact Hy.
Qed.

Lemma r302_tick : forall cfg s t dl bgs arr s' ob m dn,
    SInv s -> RInv m s -> PInv dn (s_db s) (s_pend s) -> dir_wf (DTick t dl bgs arr) ->
    step cfg s (DTick t dl bgs arr) = Some (s', ob) ->
    PInv (snd (fst (h302 (m, dn) (s_now s) (s_db s) (DTick t dl bgs arr) ob))) (s_db s') (s_pend s') /\
    snd (h302 (m, dn) (s_now s) (s_db s) (DTick t dl bgs arr) ob) = [].
Proof.
  intros cfg s t dl bgs arr s' ob m dn HS HR (N & F & P & S) Hwf H. pose proof HS as [[U TS] [HP [HI ND]]].
  cbn [h302 fst snd]. fold (ext bgs arr m). cbn in H.
  destruct (t <? s_now s) eqn:Et; [discriminate|].
  destruct (ids_fresh s (map fst bgs ++ map fst arr)) eqn:Ef; cbn in H; [|discriminate].
  destruct (ids_fresh_spec s _ Ef) as [Hnd Hfresh]. destruct (NoDup_app_l _ _ Hnd) as [Nb [Na Hdisj]].
  destruct (take_deliveries dl (s_pend s)) as [[ds pl]|] eqn:Etd; [|discriminate].
  destruct (take_deliveries_spec _ _ _ _ Etd) as [Hsub Hdel].
  pose proof (run_insts_fold cfg t (s_group s) ds (ext bgs arr m) (s_insts s)) as Rf.
  destruct (run_insts cfg t (s_group s) ds (s_insts s)) as [[il1 pl1] ob1] eqn:E1.
  match type of H with context [start_insts ?st ?g] => set (starts := st) in * end.
  destruct (start_insts starts (s_group s)) as [[il2 pl2] ob2] eqn:E2.
  inversion H; subst; clear H. cbn [s_db s_pend s_insts]. cbn [snd] in Rf.
  pose proof (run_insts_spec cfg t (s_group s) ds (s_insts s)) as R1. rewrite E1 in R1. destruct R1 as [_ [R1p _]].
  pose proof (start_insts_spec starts (s_group s)) as R2. rewrite E2 in R2. destruct R2 as [_ [R2p _]].
  assert (Hlive : forall i, In i (s_insts s) -> lookup_req (i_id i) (ext bgs arr m) = lookup_req (i_id i) m).
  { intros i Hi. apply lookup_ext_other; intros Hc; (assert (Hin : In (i_id i) (map fst bgs ++ map fst arr)) by (apply in_or_app; tauto));
      destruct (Hfresh _ Hin) as [F0 _]; exact (F0 i Hi eq_refl). }
  set (L := flat_map (akey cfg t ds (ext bgs arr m)) (s_insts s)).
  (* every answered key is a report delivered to the slot of the answering instance *)
  assert (HL : forall id k, In (id, k) L -> exists i p c, In i (s_insts s) /\ i_id i = id /\ In p (s_pend s) /\ pd_id p = id /\
                                                         In (id, (pd_n p, c)) ds /\ rep p = Some k).
  { intros id k Hin. unfold L in Hin. apply in_flat_map in Hin. destruct Hin as [i [Hi Hin]]. unfold akey in Hin.
    destruct (visible_resp (o_resp (inst_step cfg t ds i))) as [rsp|] eqn:Ev; [|contradiction].
    rewrite (Hlive i Hi) in Hin. destruct (lookup_req (i_id i) m) as [q|] eqn:Eq; [|contradiction].
    destruct (took_effect q rsp) as [k'|] eqn:Ek; [|contradiction]. destruct Hin as [Heq|[]]. injection Heq as <- <-.
    destruct (answer_key cfg s t ds m i q rsp k' HS HR Hi Hdel Eq (visible_some _ _ Ev) Ek) as [p [c [A1 [A2 [A3 A4]]]]].
    exists i, p, c. tauto. }
  (* at most one key per instance, instances have distinct ids: the keys are distinct *)
  assert (HLn : NoDup (map snd L)).
  { unfold L. clear Rf. assert (Hsubl : forall i, In i (s_insts s) -> In i (s_insts s)) by auto. revert Hsubl ND.
    generalize (s_insts s) at 1 3 4. intros il. induction il as [|i il IH]; intros Hsubl ND0; cbn [flat_map map]; [constructor|].
    cbn in ND0. inversion ND0 as [|? ? Hnin Hnd0]; subst. rewrite map_app. apply NoDup_app_intro.
    - unfold akey. destruct (visible_resp (o_resp (inst_step cfg t ds i))) as [rsp0|]; [|constructor].
      destruct (lookup_req (i_id i) (ext bgs arr m)) as [q0|]; [|constructor]. destruct (took_effect q0 rsp0); [|constructor]. cbn. constructor; [intros []|constructor].
    - apply IH; [intros j Hj; apply Hsubl; right; exact Hj|exact Hnd0].
    - intros k Hk1 Hk2. apply in_map_iff in Hk1. destruct Hk1 as [[id1 k1] [Hs1 Hk1]]. cbn in Hs1. subst k1.
      apply in_map_iff in Hk2. destruct Hk2 as [[id2 k2] [Hs2 Hk2]]. cbn in Hs2. subst k2.
      assert (Hid1 : id1 = i_id i).
      { unfold akey in Hk1. destruct (visible_resp (o_resp (inst_step cfg t ds i))) as [rsp0|]; [|contradiction].
        destruct (lookup_req (i_id i) (ext bgs arr m)) as [q0|]; [|contradiction]. destruct (took_effect q0 rsp0); [|contradiction].
        destruct Hk1 as [Heq|[]]. injection Heq as <- _. reflexivity. }
      assert (Hid2 : In id2 (map i_id il)).
      { apply in_flat_map in Hk2. destruct Hk2 as [j [Hj Hk2]]. unfold akey in Hk2.
        destruct (visible_resp (o_resp (inst_step cfg t ds j))) as [rsp0|]; [|contradiction].
        destruct (lookup_req (i_id j) (ext bgs arr m)) as [q0|]; [|contradiction]. destruct (took_effect q0 rsp0); [|contradiction].
        destruct Hk2 as [Heq|[]]. injection Heq as <- _. apply in_map. exact Hj. }
      assert (H1 : In (id1, k) L).
      { unfold L. apply in_flat_map. exists i. split; [apply Hsubl; left; reflexivity|exact Hk1]. }
      assert (H2 : In (id2, k) L).
      { unfold L. apply in_flat_map in Hk2. destruct Hk2 as [j [Hj Hk2]]. apply in_flat_map. exists j. split; [apply Hsubl; right; exact Hj|exact Hk2]. }
      destruct (HL _ _ H1) as [_ [p1 [_ [_ [_ [Hp1 [Hp1id [_ Hr1]]]]]]]]. destruct (HL _ _ H2) as [_ [p2 [_ [_ [_ [Hp2 [Hp2id [_ Hr2]]]]]]]].
      destruct (S p1 p2 k Hp1 Hp2 Hr1 Hr2) as [Hsame _]. apply Hnin. rewrite <- Hid1, <- Hp1id, Hsame, Hp2id. exact Hid2. }
  (* no answered key is in the list yet *)
  assert (HLd : forall x, In x L -> ~ In (snd x) dn).
  { intros [id k] Hin. destruct (HL _ _ Hin) as [_ [p [_ [_ [_ [Hp [_ [_ Hr]]]]]]]]. exact (proj2 (P p k Hp Hr)). }
  (* the coroutines started in this tick answer nothing that counts *)
  assert (Hob2 : forall acc, fold_left (obs302 (ext bgs arr m)) ob2 acc = acc).
  { intros acc. apply fold_silent. intros x a Hx.
    pose proof (start_insts_obs starts (s_group s) x) as R. rewrite E2 in R. destruct (R Hx) as [id [o [Hin Hobs]]].
    destruct (inst_obs_cases _ _ _ Hobs) as [-> _]. cbn [obs302]. destruct (visible_resp (o_resp o)) as [rsp|] eqn:Ev; [|reflexivity].
    unfold starts in Hin. apply in_app_or in Hin. destruct Hin as [Hin|Hin]; apply in_map_iff in Hin; destruct Hin as [y [Hy Hin]]; injection Hy as Hid Ho.
    - rewrite <- Hid. rewrite lookup_ext_bg by (apply in_map; exact Hin). reflexivity.
    - assert (Hnb : ~ In (fst y) (map fst bgs)) by (intros Hc; apply (Hdisj _ Hc); apply in_map; exact Hin).
      rewrite <- Hid. rewrite (lookup_ext_arr bgs arr m (fst y) (snd y) Hnb Na) by (destruct y; exact Hin).
      rewrite <- Ho in Ev. rewrite (start_no_took (snd y) t rsp (visible_some _ _ Ev)). reflexivity. }
  rewrite fold_left_app, Hob2, Rf. fold L. match goal with |- context [fold_left add_key L ?a] => rewrite (fold_add_keys L a HLn HLd) end. cbn [fst snd]. split; [|reflexivity].
  (* the invariant after the tick *)
  assert (HK : forall k, In k (rev (map snd L)) -> exists id p c, In p (s_pend s) /\ pd_id p = id /\ In (id, (pd_n p, c)) ds /\ rep p = Some k).
  { intros k Hk. apply in_rev in Hk. apply in_map_iff in Hk. destruct Hk as [[id k'] [Hs Hin]]. cbn in Hs. subst k'.
    destruct (HL _ _ Hin) as [_ [p [c [_ [_ [A [B [C D]]]]]]]]. exists id, p, c. tauto. }
  split; [|split; [|split]].
  - apply NoDup_app_intro; [apply NoDup_rev; exact HLn|exact N|]. intros k Hk. destruct (HK k Hk) as [_ [p [_ [Hp [_ [_ Hr]]]]]]. exact (proj2 (P p k Hp Hr)).
  - intros k Hk. apply in_app_or in Hk. destruct Hk as [Hk|Hk]; [|apply F; exact Hk]. destruct (HK k Hk) as [_ [p [_ [Hp [_ [_ Hr]]]]]]. exact (proj1 (P p k Hp Hr)).
  - intros p k Hp Hr. apply in_app_or in Hp. destruct Hp as [Hp|Hp].
    + destruct (P p k (Hsub p Hp) Hr) as [Hf Hn]. split; [exact Hf|]. intros Hin. apply in_app_or in Hin. destruct Hin as [Hin|Hin]; [|exact (Hn Hin)].
      destruct (HK k Hin) as [id [p' [c [Hp' [Hid' [Hds Hr']]]]]]. destruct (S p p' k (Hsub p Hp) Hp' Hr Hr') as [S1 S2].
      apply (take_deliveries_rest _ _ _ _ Etd p id (pd_n p') c Hp Hds). split; congruence.
    + exfalso. apply in_app_or in Hp. destruct Hp as [Hp|Hp].
      * destruct (R1p p Hp) as [j [_ Hn]]. destruct (number_subs_in _ _ _ _ _ Hn) as [_ [_ [_ Hrdy]]]. rewrite (rep_unready p Hrdy) in Hr. discriminate.
      * destruct (R2p p Hp) as [id [o [_ Hn]]]. destruct (number_subs_in _ _ _ _ _ Hn) as [_ [_ [_ Hrdy]]]. rewrite (rep_unready p Hrdy) in Hr. discriminate.
  - intros p q k Hp Hq Rp Rq.
    assert (Hold : forall x, In x (pl ++ pl1 ++ pl2) -> rep x <> None -> In x (s_pend s)).
    { intros x Hx Hr. apply in_app_or in Hx. destruct Hx as [Hx|Hx]; [exact (Hsub x Hx)|]. exfalso. apply Hr. apply in_app_or in Hx. destruct Hx as [Hx|Hx].
      - destruct (R1p x Hx) as [j [_ Hn]]. destruct (number_subs_in _ _ _ _ _ Hn) as [_ [_ [_ Hrdy]]]. apply rep_unready. exact Hrdy.
      - destruct (R2p x Hx) as [id [o [_ Hn]]]. destruct (number_subs_in _ _ _ _ _ Hn) as [_ [_ [_ Hrdy]]]. apply rep_unready. exact Hrdy. }
    apply (S p q k); try assumption; apply Hold; try assumption; congruence.
Qed.

(* ---------- every step ---------- *)
Definition Inv302 (st : rmap * list key) (s : sys) : Prop := Inv301 (fst st) s /\ PInv (snd st) (s_db s) (s_pend s).

Lemma r302_step : forall cfg st s d s' ob,
    Inv302 st s -> dir_wf d -> step cfg s d = Some (s', ob) ->
    Inv302 (fst (h302 st (s_now s) (s_db s) d ob)) s' /\ snd (h302 st (s_now s) (s_db s) d ob) = [].
Proof.
  intros cfg [m dn] s d s' ob [H1 HP] Hwf H. cbn [fst snd] in H1, HP.
  destruct (r301_step cfg m s d s' ob H1 Hwf H) as [H1' _]. pose proof H1 as [HS HR]. pose proof HS as [[U TS] [HPd [HI ND]]].
  destruct d.
  - destruct (r302_tick cfg s t deliver bgs arrive s' ob m dn HS HR HP Hwf H) as [A B]. split; [split; [exact H1'|exact A]|exact B].
  - cbn [h302 fst snd]. cbn [h301 fst] in H1'. split; [split; [exact H1'|]|reflexivity]. cbn in H.
    destruct (batch_txns batch (s_pend s)) as [txns|] eqn:Eb; [|discriminate].
    destruct (nodup_items batch) eqn:En; cbn in H; [|discriminate].
    destruct (c_fifo cfg && negb (fifo_ok batch (s_pend s))); [discriminate|].
    assert (Hacc : batch_accepted txns).
    { pose proof (batch_txns_spec _ _ _ _ _ HPd Eb) as Ht. eapply Forall_impl; [|exact Ht]. intros x [t [_ [Hx _]]].
      pose proof (sub_at_accepts _ _ _ Hx) as Hsa. eapply Forall_impl; [|exact Hsa]. intros c [Hc _]. exact Hc. }
    destruct (exec_batch (s_db s) txns) as [[d' rss]|] eqn:Ee; injection H as <- _; cbn [s_db s_pend].
    + eapply batch_reports; eassumption.
    + apply batch_fail_reports. exact HP.
  - cbn [h302 fst snd]. cbn [h301 fst] in H1'. split; [split; [exact H1'|]|reflexivity]. cbn in H. destruct (find_pend id n (s_pend s)); [|discriminate].
    destruct (unready p); [|discriminate]. injection H as <- _. cbn [s_db s_pend]. apply PInv_set_ready_silent; [reflexivity|exact HP].
  - cbn [h302 fst snd]. cbn [h301 fst] in H1'. split; [split; [exact H1'|]|reflexivity]. cbn in H. destruct (find_pend id n (s_pend s)); [|discriminate].
    destruct (pd_sub p); try discriminate. destruct (pd_ready p); [discriminate|]. injection H as <- _. cbn [s_db s_pend].
    apply PInv_set_ready_silent; [destruct res; reflexivity|exact HP].
  - cbn [h302 fst snd]. cbn [h301 fst] in H1'. split; [split; [exact H1'|]|reflexivity]. cbn in H. destruct (find_pend id n (s_pend s)); [|discriminate].
    destruct (pd_sub p); try discriminate. destruct (pd_ready p); [discriminate|]. injection H as <- _. cbn [s_db s_pend].
    apply PInv_set_ready_silent; [destruct res; reflexivity|exact HP].
  - cbn [h302 fst snd]. cbn [h301 fst] in H1'. split; [split; [exact H1'|]|reflexivity]. cbn in H. injection H as <- _. cbn [s_db s_pend].
    destruct HP as (N & F & _ & _). split; [exact N|]. split; [exact F|]. split; [intros p k []|intros p q k []].
Qed.

Theorem C03b_trace : forall cfg sch, sch_wf sch -> C03b_mon (events cfg sch) = [].
Proof.
  intros cfg sch Hw. unfold C03b_mon, events.
  apply (hmon_from_sound cfg (rmap * list key)%type h302 Inv302 dir_wf) with (m := ([], [])) (s := sys0 db0) (i := 0%nat).
  - intros st s d s' ob HI Hd Hs. eapply r302_step; eassumption.
  - split; [split; [apply SInv_init|intros i q []]|]. split; [constructor|]. split; [intros k []|]. split; [intros p k []|intros p q k []].
  - exact Hw.
Qed.
