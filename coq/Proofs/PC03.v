(* C03: whatever the store answers, the response a create / complete coroutine gives is the one the idempotency
   rule prescribes for the promise it shows.  A coroutine-level invariant: established by start_req, preserved by
   every resumption (including the restarts after a lost conditional write), for every completion value. *)
From RV Require Import Mon MonC03 Eqb.
From Coq Require Import Lia.

Definition pc_of (r : create_promise_req) (pc : create_promise_cmd) : Prop :=
  cp_id pc = cpr_id r /\ cp_ph pc = cpr_ph r /\ cp_pd pc = cpr_pd r /\ cp_timeout pc = cpr_timeout r /\
  cp_ikey pc = cpr_ikey r /\ cp_tags pc = cpr_tags r.

Definition wt_ok (wt : bool) (tc : option create_task_cmd) : Prop := wt = true -> tc <> None.

Definition kcreate (k : kont) (r : create_promise_req) : Prop :=
  match k with
  | KCreate r' tc wt => r' = r /\ wt_ok wt tc
  | KCreate_router r' tc wt pc => r' = r /\ wt_ok wt tc /\ pc_of r pc
  | KCreate_store r' tc0 wt pc tc => r' = r /\ wt_ok wt tc0 /\ wt_ok wt tc /\ pc_of r pc
  | KCreate_to r' tc wt p cmd => r' = r /\ wt_ok wt tc /\ p_id p = cpr_id r /\ cmd = timeout_cmd p
  | _ => False
  end.

Definition kcomplete (k : kont) (r : complete_promise_req) : Prop :=
  match k with
  | KComplete r' => r' = r
  | KComplete_up r' p cmd st =>
    r' = r /\ p_id p = cmr_id r /\
    ((up_state cmd = cmr_state r /\ up_vh cmd = cmr_vh r /\ up_vd cmd = cmr_vd r /\ up_ikey cmd = cmr_ikey r /\ st = 20100) \/
     (cmd = timeout_cmd p /\
      st = (if timedout_state (p_tags p) =? Resolved then StAlreadyResolved else if cmr_strict r then StAlreadyTimedout else StOK)))
  | _ => False
  end.

(* the only thing assumed of the completion: a promise returned by the read is the promise that was asked for *)
Definition c_ok (k : kont) (c : cpl) : Prop :=
  match k with
  | KCreate r _ _ => forall p, one_promise c = Some (Some p) -> p_id p = cpr_id r
  | KComplete r => forall p, one_promise c = Some (Some p) -> p_id p = cmr_id r
  | _ => True
  end.

Lemma timedout_state_cases : forall tags, timedout_state tags = Resolved \/ timedout_state tags = Timedout.
Proof. intros tags. unfold timedout_state. destruct (opt_eqb _ _ _); tauto. Qed.

Lemma created_ok : forall r pc, pc_of r pc -> c03_created r (created_promise pc) = true.
Proof.
  intros r pc (a&b&c&d&e&f). unfold c03_created, created_promise; cbn. rewrite a, b, c, d, e, f.
  rewrite !String.eqb_refl, !smap_eqb_refl, Z.eqb_refl, opt_str_refl. reflexivity.
Qed.

Lemma create_spec_merged : forall r p,
    p_state (merged p (timeout_cmd p)) <> Pending /\
    create_spec r (merged p (timeout_cmd p)) =
    (if negb (cpr_strict r) && ikey_match (p_ikc p) (cpr_ikey r) then StOK else StPromiseAlreadyExists).
Proof.
  intros r p. unfold create_spec, merged, timeout_cmd; cbn.
  destruct (timedout_state_cases (p_tags p)) as [E|E]; rewrite E; cbn; (split; [discriminate|]);
    destruct (cpr_strict r), (ikey_match (p_ikc p) (cpr_ikey r)); reflexivity.
Qed.

Lemma create_refused_ok : forall r p st,
    p_id p = cpr_id r -> st = create_spec r p ->
    c03_create r (RspPromise st (Some p)) = true /\ c03_create r (RspPromiseTask st (Some p) None) = true.
Proof.
  intros r p st Hid ->. unfold c03_create, create_spec. rewrite Hid, String.eqb_refl.
  destruct (ikey_match (p_ikc p) (cpr_ikey r) && negb (cpr_strict r && negb (p_state p =? Pending))); cbn; split; reflexivity.
Qed.

Lemma create_status_eq : forall r p,
    (if negb (cpr_strict r && negb (p_state p =? Pending)) && ikey_match (p_ikc p) (cpr_ikey r) then StOK else StPromiseAlreadyExists)
    = create_spec r p.
Proof. intros r p. unfold create_spec. rewrite andb_comm. reflexivity. Qed.

Lemma create_cmd_wt : forall pc tc c cmd tc' wt, wt_ok wt tc -> create_cmd pc tc c = Some (cmd, tc') -> wt_ok wt tc'.
Proof.
  intros pc tc c cmd tc' wt Hw H Hwt. specialize (Hw Hwt). unfold create_cmd in H.
  destruct c as [| [recv|] | |]; try discriminate.
  - inversion H; subst. discriminate.
  - destruct tc; [discriminate|contradiction].
Qed.

Theorem create_step : forall cfg k c now next r,
    kcreate k r -> c_ok k c ->
    (forall rsp, o_resp (resume_seq cfg k c now next) = Some rsp -> c03_create r rsp = true) /\
    (forall k' n, o_state (resume_seq cfg k c now next) = CSeq k' n -> kcreate k' r).
Proof.
  intros cfg k c now next r Hk Hc. destruct k; try contradiction; cbn in Hk.
  - (* KCreate *)
    destruct Hk as [-> Hw]. cbn [resume_seq]. destruct (one_promise c) as [[p|]|] eqn:E; cbn.
    + pose proof (Hc p E) as Hid. destruct (overdue now p) eqn:Eo; cbn.
      * split; [intros rsp H; discriminate|]. intros k' n H. inversion H; subst. cbn. tauto.
      * split; [|intros k' n H; destruct with_task; discriminate].
        intros rsp H. destruct (create_refused_ok r p _ Hid (create_status_eq r p)) as [A B].
        destruct with_task; inversion H; subst; assumption.
    + split; [intros rsp H; discriminate|]. intros k' n H. inversion H; subst. cbn. split; [reflexivity|]. split; [exact Hw|]. unfold pc_of; cbn. tauto.
    + split; [intros rsp H; inversion H; reflexivity|intros k' n H; discriminate].
  - (* KCreate_router *)
    destruct Hk as [-> [Hw Hpc]]. cbn [resume_seq]. destruct (create_cmd pc tc c) as [[cmd tc']|] eqn:Ec; cbn.
    + split; [intros rsp H; discriminate|]. intros k' n H. inversion H; subst. cbn.
      pose proof (create_cmd_wt _ _ _ _ _ _ Hw Ec). tauto.
    + split; [intros rsp H; inversion H; reflexivity|intros k' n H; discriminate].
  - (* KCreate_store *)
    destruct Hk as [-> [Hw0 [Hw Hpc]]]. cbn [resume_seq].
    destruct c as [rs| | |]; try (split; [intros rsp H; inversion H; reflexivity|intros k' n H; discriminate]).
    destruct rs as [|res rs]; [split; [intros rsp H; inversion H; reflexivity|intros k' n H; discriminate]|].
    destruct res as [a1 a2 a3|a1 a2 a3|a1 a2|a1 a2|n|pr tr]; try (split; [intros rsp H; inversion H; reflexivity|intros k' n0 H; discriminate]).
    + (* RAlter *)
      destruct with_task; cbn; [split; [intros rsp H; inversion H; reflexivity|intros k' n' H; discriminate]|].
      destruct (n =? 0); cbn.
      * split; [intros rsp H; discriminate|]. intros k' n' H. inversion H; subst. cbn. tauto.
      * split; [|intros k' n' H; discriminate]. intros rsp H. inversion H; subst. cbn. apply created_ok; exact Hpc.
    + (* RAlter2 *)
      destruct (negb (pr =? tr)); cbn; [split; [intros rsp H; inversion H; reflexivity|intros k' n' H; discriminate]|].
      destruct (pr =? 0); cbn.
      * split; [intros rsp H; discriminate|]. intros k' n' H. inversion H; subst. cbn. destruct with_task; tauto.
      * split; [|intros k' n' H; destruct with_task; discriminate]. intros rsp H.
        destruct with_task; inversion H; subst; cbn; rewrite (created_ok _ _ Hpc); cbn; [|reflexivity].
        destruct tc; cbn; [reflexivity|]. exfalso. apply (Hw eq_refl). reflexivity.
  - (* KCreate_to *)
    destruct Hk as [-> [Hw [Hid ->]]]. cbn [resume_seq]. destruct (one_alter c) as [n|]; cbn.
    + destruct (n =? 1); cbn.
      * split; [|intros k' n' H; destruct with_task; discriminate]. intros rsp H.
        destruct (create_spec_merged r p) as [Hnp Hsp].
        assert (Hid' : p_id (merged p (timeout_cmd p)) = cpr_id r) by (cbn; exact Hid).
        destruct (create_refused_ok r (merged p (timeout_cmd p)) _ Hid' (eq_sym Hsp)) as [A B].
        destruct with_task; inversion H; subst; assumption.
      * split; [intros rsp H; discriminate|]. intros k' n' H. inversion H; subst. cbn. tauto.
    + split; [intros rsp H; inversion H; reflexivity|intros k' n' H; discriminate].
Qed.

(* ---------- complete ---------- *)

Lemma complete_refused_ok : forall r p st,
    p_id p = cmr_id r -> p_state p <> Pending -> st = complete_spec r p -> c03_complete r (RspPromise st (Some p)) = true.
Proof.
  intros r p st Hid Hnp ->. unfold c03_complete. rewrite Hid, String.eqb_refl. cbn.
  assert (Hne : (complete_spec r p =? 20100) = false).
  { unfold complete_spec, already_completed_status. destruct (_ || _); [reflexivity|].
    destruct (p_state p =? Resolved); [reflexivity|]. destruct (p_state p =? Rejected); [reflexivity|].
    destruct (p_state p =? Canceled); reflexivity. }
  rewrite Hne. assert ((p_state p =? Pending) = false) as -> by (apply Z.eqb_neq; exact Hnp). cbn. apply Z.eqb_refl.
Qed.

Lemma complete_spec_nokey : forall r p, p_iku p = None ->
    complete_spec r p = if negb (cmr_strict r) && (p_state p =? Timedout) then 20000 else already_completed_status (p_state p).
Proof. intros r p H. unfold complete_spec. rewrite H. cbn [ikey_match]. rewrite andb_false_r. reflexivity. Qed.

Theorem complete_step : forall cfg k c now next r,
    kcomplete k r -> c_ok k c ->
    (forall rsp, o_resp (resume_seq cfg k c now next) = Some rsp -> c03_complete r rsp = true) /\
    (forall k' n, o_state (resume_seq cfg k c now next) = CSeq k' n -> kcomplete k' r).
Proof.
  intros cfg k c now next r Hk Hc. destruct k; try contradiction; cbn in Hk.
  - (* KComplete *)
    subst r0. cbn [resume_seq]. destruct (one_promise c) as [[p|]|] eqn:E; cbn.
    + pose proof (Hc p E) as Hid. destruct (p_state p =? Pending) eqn:Ep; cbn.
      * destruct (now <? p_timeout p); cbn.
        -- split; [intros rsp H; discriminate|]. intros k' n H. inversion H; subst. cbn. tauto.
        -- split; [intros rsp H; discriminate|]. intros k' n H. inversion H; subst. cbn.
           split; [reflexivity|]. split; [exact Hid|]. right. split; [unfold timeout_cmd; rewrite Hid; reflexivity|reflexivity].
      * split; [|intros k' n H; discriminate]. intros rsp H. inversion H; subst.
        apply complete_refused_ok; [exact Hid|apply Z.eqb_neq; exact Ep|reflexivity].
    + split; [intros rsp H; inversion H; reflexivity|intros k' n H; discriminate].
    + split; [intros rsp H; inversion H; reflexivity|intros k' n H; discriminate].
  - (* KComplete_up *)
    destruct Hk as [-> [Hid Hcmd]]. cbn [resume_seq]. destruct (one_alter c) as [n|]; cbn.
    + destruct (n =? 1); cbn.
      * split; [|intros k' n' H; discriminate]. intros rsp H. inversion H; subst.
        destruct Hcmd as [(a&b&c0&d&->)|[-> ->]].
        -- unfold c03_complete, merged; cbn. rewrite Hid, a, b, c0, d, String.eqb_refl, Z.eqb_refl, smap_eqb_refl, String.eqb_refl, opt_str_refl. reflexivity.
        -- apply complete_refused_ok; [cbn; exact Hid| |].
           ++ cbn. destruct (timedout_state_cases (p_tags p)) as [E|E]; rewrite E; discriminate.
           ++ rewrite complete_spec_nokey by reflexivity. cbn [merged timeout_cmd p_state up_state].
              destruct (timedout_state_cases (p_tags p)) as [E|E]; rewrite E; cbn; destruct (cmr_strict r); reflexivity.
      * split; [intros rsp H; discriminate|]. intros k' n' H. inversion H; subst. reflexivity.
    + split; [intros rsp H; inversion H; reflexivity|intros k' n' H; discriminate].
Qed.

(* ---------- start ---------- *)

Lemma start_create : forall r now next k n, o_state (start_req (QCreatePromise r) now next) = CSeq k n -> kcreate k r.
Proof. intros r now next k n H. cbn in H. inversion H; subst. cbn. split; [reflexivity|]. intros E; discriminate. Qed.

Lemma start_create_task : forall r pid ttl now next k n,
    o_state (start_req (QCreatePromiseAndTask r pid ttl) now next) = CSeq k n -> kcreate k r.
Proof. intros r pid ttl now next k n H. cbn in H. inversion H; subst. cbn. split; [reflexivity|]. intros _ E; discriminate. Qed.

Lemma start_complete : forall r now next k n, o_state (start_req (QCompletePromise r) now next) = CSeq k n -> kcomplete k r.
Proof. intros r now next k n H. cbn in H. inversion H; subst. reflexivity. Qed.
