(* C08, clause 805 at store level: what a dispatch cycle selects (ReadEnqueueableTasks), for ARBITRARY databases,
   limits >= 0 and whichever legal choice the SQL engine makes among the tasks of one root: only unclaimed (init) tasks,
   at most [limit], at most one per root promise, none whose root has a task recorded enqueued or claimed. *)
From RV Require Import Mon MonC08 StoreCallbacks.
From Coq Require Import Lia Sorting.Sorted OrderedTypeEx.

(* ---------- the order on root ids ---------- *)
Definition sle (a b : string) : Prop := String.compare a b <> Gt.

Lemma sle_refl : forall a, sle a a.
Proof. intros a H. assert (String.compare a a = Eq) by (apply String_as_OT.cmp_eq; reflexivity). congruence. Qed.

Lemma cmp_gt_lt : forall a b, String.compare a b = Gt -> String.compare b a = Lt.
Proof. intros a b H. pose proof (String_as_OT.cmp_antisym b a) as A. unfold String_as_OT.cmp in A. rewrite H in A. exact A. Qed.

Lemma cmp_lt_gt : forall a b, String.compare a b = Lt -> String.compare b a = Gt.
Proof. intros a b H. pose proof (String_as_OT.cmp_antisym b a) as A. unfold String_as_OT.cmp in A. rewrite H in A. exact A. Qed.

Lemma sle_trans : forall a b c, sle a b -> sle b c -> sle a c.
Proof.
  intros a b c H1 H2 H. apply cmp_gt_lt in H.
  destruct (String.compare a b) eqn:E1; [|clear H1|exfalso; exact (H1 E1)].
  - apply String_as_OT.cmp_eq in E1. subst b. apply H2. apply cmp_lt_gt. exact H.
  - destruct (String.compare b c) eqn:E2; [|clear H2|exfalso; exact (H2 E2)].
    + apply String_as_OT.cmp_eq in E2. subst c. apply cmp_lt_gt in H. congruence.
    + apply String_as_OT.cmp_lt in E1, E2, H. pose proof (String_as_OT.lt_trans _ _ _ E1 E2) as L.
      pose proof (String_as_OT.lt_trans _ _ _ L H) as L2. exact (String_as_OT.lt_not_eq _ _ L2 eq_refl).
Qed.

Lemma sle_antisym : forall a b, sle a b -> sle b a -> a = b.
Proof.
  intros a b H1 H2. destruct (String.compare a b) eqn:E.
  - apply String_as_OT.cmp_eq. exact E.
  - exfalso. apply H2. apply cmp_lt_gt. exact E.
  - exfalso. exact (H1 E).
Qed.

(* ---------- sorting by root ---------- *)
Definition rle (a b : task) : Prop := sle (t_root a) (t_root b).
Definition rsorted (l : list task) : Prop := StronglySorted rle l.

Lemma task_le_rle : forall a b, Store.task_le a b = true -> rle a b.
Proof. intros a b H. unfold Store.task_le in H. unfold rle, sle. destruct (String.compare (t_root a) (t_root b)); congruence. Qed.

Lemma task_le_false_rle : forall a b, Store.task_le a b = false -> rle b a.
Proof.
  intros a b H. unfold Store.task_le in H. unfold rle, sle. destruct (String.compare (t_root a) (t_root b)) eqn:E.
  - apply String_as_OT.cmp_eq in E. rewrite E. apply sle_refl.
  - discriminate.
  - apply cmp_gt_lt in E. congruence.
Qed.

Lemma insert_rsorted : forall x l, rsorted l -> rsorted (insert_by Store.task_le x l).
Proof.
  intros x l. induction l as [|y l IH]; intros H; cbn; [repeat constructor|].
  inversion H as [|? ? Hs Hf]; subst. destruct (Store.task_le x y) eqn:E.
  - constructor; [exact H|]. constructor; [apply task_le_rle; exact E|].
    eapply Forall_impl; [|exact Hf]. intros z Hz. unfold rle in *. eapply sle_trans; [apply task_le_rle; exact E|exact Hz].
  - constructor; [apply IH; exact Hs|]. apply Forall_forall. intros z Hz.
    assert (Hin : z = x \/ In z l).
    { clear -Hz. induction l as [|w l IH]; cbn in Hz; [destruct Hz as [<-|[]]; left; reflexivity|].
      destruct (Store.task_le x w); cbn in Hz.
      - destruct Hz as [<-|Hz]; [left; reflexivity|right; exact Hz].
      - destruct Hz as [<-|Hz]; [right; left; reflexivity|]. destruct (IH Hz) as [->|H]; [left; reflexivity|right; right; exact H]. }
    destruct Hin as [->|Hin]; [apply task_le_false_rle; exact E|exact (proj1 (Forall_forall _ _) Hf z Hin)].
Qed.

Lemma sort_rsorted : forall l, rsorted (sort_by Store.task_le l).
Proof. induction l as [|x l IH]; cbn; [constructor|apply insert_rsorted; exact IH]. Qed.

(* ---------- one root per group ---------- *)
Lemma dedup_in : forall l r, In r (dedup_roots l) -> exists t, In t l /\ t_root t = r.
Proof.
  induction l as [|t l IH]; intros r H; [contradiction|]. cbn in H. destruct l as [|t' l'].
  - destruct H as [<-|[]]. exists t. split; [left; reflexivity|reflexivity].
  - destruct (String.eqb (t_root t) (t_root t')).
    + destruct (IH r H) as [x [Hx Hr]]. exists x. split; [right; exact Hx|exact Hr].
    + destruct H as [<-|H]; [exists t; split; [left; reflexivity|reflexivity]|].
      destruct (IH r H) as [x [Hx Hr]]. exists x. split; [right; exact Hx|exact Hr].
Qed.

Lemma dedup_nodup : forall l, rsorted l -> NoDup (dedup_roots l).
Proof.
  induction l as [|t l IH]; intros H; [constructor|]. inversion H as [|? ? Hs Hf]; subst. cbn. destruct l as [|t' l'].
  - constructor; [intros []|constructor].
  - destruct (String.eqb (t_root t) (t_root t')) eqn:E; [apply IH; exact Hs|].
    constructor; [|apply IH; exact Hs]. intros Hin. destruct (dedup_in _ _ Hin) as [x [Hx Hr]].
    apply String.eqb_neq in E. apply E.
    (* root t <= root t' <= root x = root t *)
    pose proof (proj1 (Forall_forall _ _) Hf t' (or_introl eq_refl)) as L1.
    assert (L2 : rle t' x).
    { destruct Hx as [<-|Hx]; [apply sle_refl|]. inversion Hs as [|? ? _ Hf']; subst. exact (proj1 (Forall_forall _ _) Hf' x Hx). }
    unfold rle in *. apply sle_antisym; [exact L1|]. rewrite <- Hr. exact L2.
Qed.

Lemma take_incl : forall {A} n (l : list A) x, In x (take n l) -> In x l.
Proof. induction n as [|n IH]; intros l x H; destruct l; cbn in H; try contradiction. destruct H as [<-|H]; [left; reflexivity|right; apply IH; exact H]. Qed.

Lemma take_nodup : forall {A} n (l : list A), NoDup l -> NoDup (take n l).
Proof.
  induction n as [|n IH]; intros l H; destruct l; cbn; try constructor. 
  - inversion H; subst. intros Hc. apply take_incl in Hc. contradiction.
  - inversion H; subst. apply IH. assumption.
Qed.

Lemma take_length : forall {A} n (l : list A), (List.length (take n l) <= n)%nat.
Proof. induction n as [|n IH]; intros l; destruct l; cbn; try lia. specialize (IH l). lia. Qed.

Lemma limit_take_incl : forall {A} lim (l : list A) x, In x (limit_take lim l) -> In x l.
Proof. intros A lim l x H. unfold limit_take in H. destruct (lim <? 0); [exact H|eapply take_incl; exact H]. Qed.

Lemma limit_take_nodup : forall {A} lim (l : list A), NoDup l -> NoDup (limit_take lim l).
Proof. intros A lim l H. unfold limit_take. destruct (lim <? 0); [exact H|apply take_nodup; exact H]. Qed.

Lemma limit_take_length : forall {A} lim (l : list A), 0 <= lim -> Z.of_nat (List.length (limit_take lim l)) <= lim.
Proof.
  intros A lim l H. unfold limit_take. destruct (lim <? 0) eqn:E; [apply Z.ltb_lt in E; lia|].
  pose proof (take_length (Z.to_nat lim) l). lia.
Qed.

Lemma enq_roots_spec : forall d lim,
    NoDup (enq_roots d lim) /\
    (forall r, In r (enq_roots d lim) -> exists t, In t (tasks d) /\ enqueueable d t = true /\ t_root t = r) /\
    (0 <= lim -> Z.of_nat (List.length (enq_roots d lim)) <= lim).
Proof.
  intros d lim. unfold enq_roots. split; [apply limit_take_nodup; apply dedup_nodup; apply sort_rsorted|]. split.
  - intros r H. apply limit_take_incl in H. destruct (dedup_in _ _ H) as [t [Ht Hr]].
    apply sort_by_in in Ht. apply filter_In in Ht. exists t. tauto.
  - apply limit_take_length.
Qed.

(* ---------- the rows a dispatch cycle gets ---------- *)
Definition sel_ok (d : db) (ts : list task) : Prop :=
  Forall (fun t => In t (tasks d) /\ enqueueable d t = true) ts.

Lemma uniq_s_of : forall l, NoDup l -> uniq_s l = true.
Proof.
  induction l as [|x l IH]; intros H; [reflexivity|]. inversion H; subst. cbn. rewrite IH by assumption. rewrite andb_true_r.
  apply negb_true_iff. destruct (existsb (String.eqb x) l) eqn:E; [|reflexivity]. apply existsb_exists in E.
  destruct E as [y [Hy Ey]]. apply String.eqb_eq in Ey. subst y. contradiction.
Qed.

Lemma root_busy_same : forall d r, root_busy_in d r = root_busy d r.
Proof. reflexivity. Qed.

Lemma select_ok : forall d lim ts,
    0 <= lim -> sel_ok d ts -> NoDup (map t_root ts) -> Z.of_nat (List.length ts) <= lim ->
    c08_select d true lim (map t_unsorted ts) = [].
Proof.
  intros d lim ts Hl Hs Hn Hlen. unfold c08_select.
  assert (A1 : forallb (fun t => t_state t =? TInit) (map t_unsorted ts) = true).
  { apply forallb_forall. intros t Ht. apply in_map_iff in Ht. destruct Ht as [t0 [<- Ht0]].
    destruct (proj1 (Forall_forall _ _) Hs t0 Ht0) as [_ E]. unfold enqueueable in E. apply andb_true_iff in E. cbn. exact (proj1 E). }
  assert (A2 : uniq_s (map t_root (map t_unsorted ts)) = true).
  { rewrite map_map. cbn. apply uniq_s_of. exact Hn. }
  assert (A3 : (Z.of_nat (List.length (map t_unsorted ts)) <=? Z.max lim 0) = true).
  { rewrite map_length. apply Z.leb_le. lia. }
  assert (A4 : forallb (fun t => negb (root_busy_in d (t_root t)) &&
                                 existsb (fun t' => String.eqb (t_id t') (t_id t) && (t_state t' =? TInit) && (t_counter t' =? t_counter t)) (tasks d))
                       (map t_unsorted ts) = true).
  { apply forallb_forall. intros t Ht. apply in_map_iff in Ht. destruct Ht as [t0 [<- Ht0]].
    destruct (proj1 (Forall_forall _ _) Hs t0 Ht0) as [Hin E]. unfold enqueueable in E. apply andb_true_iff in E. destruct E as [E1 E2].
    cbn. rewrite root_busy_same, E2. cbn. apply existsb_exists. exists t0. split; [exact Hin|].
    rewrite String.eqb_refl, Z.eqb_refl. cbn. rewrite andb_true_r. exact E1. }
  rewrite A1, A2, A3. cbn. rewrite A4. reflexivity.
Qed.

Lemma hint_sel : forall d lim h ts, enq_by_hint d lim h = Some ts -> sel_ok d ts /\ map t_root ts = enq_roots d lim.
Proof.
  intros d lim h ts H. unfold enq_by_hint in H.
  destruct ((List.length h =? List.length (enq_roots d lim))%nat &&
            forallb (fun x => match x with (Some t, r) => enqueueable d t && String.eqb (t_root t) r | (None, _) => false end)
                    (combine (map (fun id => find_task id d) h) (enq_roots d lim))) eqn:E; [|discriminate].
  injection H as <-. apply andb_true_iff in E. destruct E as [El Ef]. apply Nat.eqb_eq in El.
  revert El Ef. generalize (enq_roots d lim) as roots. induction h as [|id h IH]; intros roots El Ef; destruct roots as [|r roots]; cbn in El; try discriminate.
  - split; [constructor|reflexivity].
  - cbn in Ef |- *. destruct (find_task id d) as [t|] eqn:F; [|discriminate]. apply andb_true_iff in Ef. destruct Ef as [E1 Ef].
    apply andb_true_iff in E1. destruct E1 as [Ee Er]. apply String.eqb_eq in Er.
    destruct (IH roots (eq_add_S _ _ El) Ef) as [A B]. cbn. split.
    + constructor; [|exact A]. split; [|exact Ee]. unfold find_task in F. apply find_some in F. exact (proj1 F).
    + f_equal; assumption.
Qed.

Lemma default_sel : forall d lim, sel_ok d (enq_default d lim) /\ map t_root (enq_default d lim) = enq_roots d lim.
Proof.
  intros d lim. unfold enq_default. destruct (enq_roots_spec d lim) as [_ [Hr _]]. revert Hr.
  generalize (enq_roots d lim) as roots. induction roots as [|r roots IH]; intros Hr; cbn; [split; [constructor|reflexivity]|].
  destruct (IH (fun r0 H => Hr r0 (or_intror H))) as [A B].
  destruct (Hr r (or_introl eq_refl)) as [t [Ht [He Hroot]]].
  set (elig := sort_by Store.task_le (filter (enqueueable d) (tasks d))).
  set (dflt := mkT EmptyString 0 None 0 r EmptyString (mkMesg EmptyString EmptyString EmptyString) 0 0 0 0 0 0 None).
  assert (Hne : filter (fun t0 => String.eqb (t_root t0) r) elig <> []).
  { intros Hc. assert (In t (filter (fun t0 => String.eqb (t_root t0) r) elig)); [|rewrite Hc in H; contradiction].
    apply filter_In. split; [apply sort_by_in; apply filter_In; tauto|rewrite Hroot; apply String.eqb_refl]. }
  assert (Hlast : In (last (filter (fun t0 => String.eqb (t_root t0) r) elig) dflt) (filter (fun t0 => String.eqb (t_root t0) r) elig)).
  { destruct (exists_last Hne) as [l' [x ->]]. rewrite last_last. apply in_or_app. right. left. reflexivity. }
  apply filter_In in Hlast. destruct Hlast as [Hin Hrt]. apply sort_by_in in Hin. apply filter_In in Hin. apply String.eqb_eq in Hrt.
  split; [constructor; [exact Hin|exact A]|]. cbn. f_equal; [exact Hrt|exact B].
Qed.

(* what a dispatch cycle selects *)
Theorem selection_spec : forall d lim hint d' r,
    0 <= lim -> exec d (ReadEnqueueableTasks lim) hint = Some (d', r) ->
    d' = d /\ exists n recs, r = RTasks n recs /\ c08_select d true lim recs = [].
Proof.
  intros d lim hint d' r Hl H. cbn in H. unfold ex_read_enqueueable in H. destruct (enq_roots_spec d lim) as [Nd [_ Hlen]].
  destruct hint as [h|].
  - destruct (enq_by_hint d lim h) as [ts|] eqn:E; [|discriminate]. injection H as <- <-. split; [reflexivity|].
    destruct (hint_sel _ _ _ _ E) as [A B]. do 2 eexists. split; [reflexivity|]. apply select_ok; try assumption.
    + rewrite B. exact Nd.
    + rewrite <- (map_length t_root), B. apply Hlen. exact Hl.
  - injection H as <- <-. split; [reflexivity|]. destruct (default_sel d lim) as [A B]. do 2 eexists. split; [reflexivity|].
    apply select_ok; try assumption.
    + rewrite B. exact Nd.
    + rewrite <- (map_length t_root), B. apply Hlen. exact Hl.
Qed.

(* ---------- a whole batch ---------- *)
Lemma writes_tasks_same : forall c, writes_tasks c = is_task_write c.
Proof. destruct c; reflexivity. Qed.

Lemma txn_tasks_frame : forall cs hs d d' rs,
    exec_txn d cs hs = Some (d', rs) -> existsb writes_tasks cs = false -> tasks d' = tasks d.
Proof.
  induction cs as [|c cs IH]; intros hs d d' rs H Hw; cbn in H.
  - injection H as <- _. reflexivity.
  - cbn in Hw. apply orb_false_iff in Hw. destruct Hw as [Hc Hcs].
    destruct (exec d c (hd None hs)) as [[d1 r]|] eqn:E; [|discriminate].
    destruct (exec_txn d1 cs (tl hs)) as [[d2 rs2]|] eqn:E2; [|discriminate]. injection H as <- _.
    rewrite (IH _ _ _ _ E2 Hcs). eapply exec_tasks_frame; [exact E|]. rewrite <- writes_tasks_same. exact Hc.
Qed.

Lemma select_tasks_only : forall d d' q lim recs, tasks d' = tasks d -> c08_select d' q lim recs = c08_select d q lim recs.
Proof. intros d d' q lim recs H. unfold c08_select, root_busy_in. rewrite H. reflexivity. Qed.

Lemma select_unquiet : forall d d' lim recs, c08_select d true lim recs = [] -> c08_select d' false lim recs = [].
Proof.
  intros d d' lim recs H. unfold c08_select in *. cbn [negb orb] in *.
  destruct (forallb (fun t => t_state t =? TInit) recs && uniq_s (map t_root recs) && (Z.of_nat (List.length recs) <=? Z.max lim 0)) eqn:E.
  - reflexivity.
  - cbn in H. discriminate.
Qed.

(* the limits the dispatch cycles of a batch ask for are not negative (the configured task batch size) *)
Definition limits_ok (txns : list (list command)) : Prop :=
  Forall (fun t => match t with [ReadEnqueueableTasks lim] => 0 <= lim | _ => True end) txns.

Theorem batch_selections_ok : forall txns d dx q d' rss,
    (q = true -> tasks dx = tasks d) -> limits_ok (map fst txns) -> exec_batch dx txns = Some (d', rss) ->
    c08_selects d q (map fst txns) rss = [].
Proof.
  induction txns as [|[cs hs] txns IH]; intros d dx q d' rss Hq Hl H; cbn in H.
  - injection H as _ <-. reflexivity.
  - destruct (exec_txn dx cs hs) as [[d1 rs]|] eqn:E; [|discriminate].
    destruct (exec_batch d1 txns) as [[d2 rss2]|] eqn:E2; [|discriminate]. injection H as _ <-.
    cbn in Hl. inversion Hl as [|? ? Hl1 Hl2]; subst. cbn [map fst c08_selects].
    assert (Hrest : c08_selects d (q && negb (existsb writes_tasks cs)) (map fst txns) rss2 = []).
    { eapply IH; [|exact Hl2|exact E2]. intros Hq'. apply andb_true_iff in Hq'. destruct Hq' as [Hq1 Hq2].
      apply negb_true_iff in Hq2. rewrite (txn_tasks_frame _ _ _ _ _ E Hq2). apply Hq. exact Hq1. }
    rewrite Hrest, app_nil_r.
    destruct cs as [|c cs']; [reflexivity|]. destruct c; try reflexivity. destruct cs' as [|c2 cs2]; [|reflexivity].
    destruct rs as [|r rs']; [reflexivity|]. destruct r; try reflexivity. destruct rs' as [|r2 rs2]; [|reflexivity].
    cbn in E. destruct (ex_read_enqueueable dx limit (hd None hs)) as [r0|] eqn:Er; [|discriminate]. injection E as <- ->.
    assert (Hex : exec dx (ReadEnqueueableTasks limit) (hd None hs) = Some (dx, RTasks rows recs)) by (cbn; rewrite Er; reflexivity).
    destruct (selection_spec _ _ _ _ _ Hl1 Hex) as [_ [n [recs' [Hr Hs]]]]. injection Hr as -> ->.
    destruct q.
    + rewrite <- (select_tasks_only d dx true limit recs' (Hq eq_refl)). exact Hs.
    + eapply select_unquiet. exact Hs.
Qed.
