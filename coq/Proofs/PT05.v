(* C05, clause 507 at trace level: for EVERY schedule, a registration (callback / subscription) that is answered
   "nothing new" with the promise still pending is durably registered at that moment - as the callback row with the
   derived id or as the task that row became. *)
From RV Require Import Mon MonC05 MonC03 MonC05h Framework StoreLocks StorePromises StoreCallbacks Discipline SysInv Eqb PC03 PC05 Hist PT03 Batch.
From Coq Require Import Lia.

(* ---------- the durable facts, monotone along executions ---------- *)
Definition reg_of (q : request) : option (string * string) :=
  match q with
  | QCreateCallback pid root _ _ => Some (callback_id root pid, pid)
  | QCreateSubscription id pid _ _ => Some (subscription_id pid id, pid)
  | _ => None
  end.

Lemma reg_of_id : forall q rid pid, reg_of q = Some (rid, pid) -> reg_id q = Some rid.
Proof. intros q rid pid H. destruct q; cbn in *; try discriminate; inversion H; reflexivity. Qed.
Lemma reg_id_of : forall q rid, reg_id q = Some rid -> exists pid, reg_of q = Some (rid, pid).
Proof. intros q rid H. destruct q; cbn in *; try discriminate; inversion H; eexists; reflexivity. Qed.

Definition has_row (d : db) (pid : string) : Prop := exists q, In q (promises d) /\ p_id q = pid.
Definition Freg (d : db) (rid pid : string) : Prop :=
  registered d rid = true \/ exists q, In q (promises d) /\ p_id q = pid /\ p_state q <> Pending.

Lemma registered_mono : forall a b rid, Mid a b -> registered a rid = true -> registered b rid = true.
Proof.
  intros a b rid (_&_&TL&_&CV) H. unfold registered in *. apply orb_true_iff in H. apply orb_true_iff. destruct H as [H|H].
  - apply existsb_exists in H. destruct H as [c [Hc E]]. destruct (CV c Hc) as [Hc'|[x [Hx Hf]]].
    + left. apply existsb_exists. exists c. tauto.
    + right. apply existsb_exists. exists x. split; [exact Hx|]. destruct Hf as [Hid _]. rewrite Hid. exact E.
  - apply existsb_exists in H. destruct H as [t [Ht E]]. destruct (TL t Ht) as [t' [Ht' Eq]]. right. apply existsb_exists.
    exists t'. split; [exact Ht'|]. destruct Eq as [Hid _]. rewrite <- Hid. exact E.
Qed.

Lemma has_row_mono : forall a b pid, Mid a b -> has_row a pid -> has_row b pid.
Proof.
  intros a b pid (_&_&_&[PL _]&_) [q [Hq Hid]]. destruct (PL q Hq) as [q' [Hq' [Ce _]]]. exists q'. split; [exact Hq'|].
  destruct Ce as [E _]. congruence.
Qed.

Lemma Freg_mono : forall a b rid pid, Mid a b -> Freg a rid pid -> Freg b rid pid.
Proof.
  intros a b rid pid M [H|[q [Hq [Hid Hs]]]]; [left; eapply registered_mono; eassumption|]. right.
  destruct M as (_&_&_&[PL _]&_). destruct (PL q Hq) as [q' [Hq' [_ [Hfin _]]]]. rewrite (Hfin Hs) in Hq'. exists q. tauto.
Qed.

(* a guarded callback insert that writes nothing, on a database that holds the promise *)
Lemma create_callback_none : forall d cc hs d' r,
    exec_txn d [CreateCallback cc] hs = Some (d', [r]) -> has_row d (cc_pid cc) ->
    exists n, r = RAlter n /\ (n <> 1 -> Freg d (cc_id cc) (cc_pid cc)).
Proof.
  intros d cc hs d' r H [q [Hq Hid]]. cbn in H. unfold alter, ex_create_callback in H.
  destruct (existsb (fun p => String.eqb (p_id p) (cc_pid cc) && (p_state p =? 1)) (promises d)) eqn:E1;
    destruct (existsb (fun x => String.eqb (cb_id x) (cc_id cc)) (callbacks d)) eqn:E2; cbn in H; injection H as _ Hr; subst r;
      eexists; (split; [reflexivity|]); intros Hn; try (exfalso; apply Hn; reflexivity).
  - left. unfold registered. rewrite E2. reflexivity.
  - left. unfold registered. rewrite E2. reflexivity.
  - right. exists q. split; [exact Hq|]. split; [exact Hid|]. intros Hp.
    assert (existsb (fun p => String.eqb (p_id p) (cc_pid cc) && (p_state p =? 1)) (promises d) = true); [|congruence].
    apply existsb_exists. exists q. split; [exact Hq|]. rewrite Hid, String.eqb_refl, Hp. reflexivity.
Qed.

Lemma find_promise_in : forall id d p, find_promise id d = Some p -> In p (promises d) /\ p_id p = id.
Proof.
  intros id d p H. unfold find_promise in H. apply find_some in H. destruct H as [A B]. split; [exact A|].
  apply String.eqb_eq in B. exact B.
Qed.

(* a promise read shows a row of the database it ran against *)
Lemma read_promise_row : forall d pid hs d' r,
    exec_txn d [ReadPromise pid] hs = Some (d', [r]) ->
    d' = d /\ exists rows last recs, r = RPromises rows last recs /\
              forall p, hd_error recs = Some p -> exists q, In q (promises d) /\ p_id q = pid /\ p_state q = p_state p.
Proof.
  intros d pid hs d' r H. cbn in H. injection H as Hd Hr. split; [symmetry; exact Hd|]. subst r. unfold ex_read_promise.
  destruct (find_promise pid d) as [q|] eqn:F.
  - do 3 eexists. split; [reflexivity|]. intros p Hp. cbn in Hp. injection Hp as <-. destruct (find_promise_in _ _ _ F) as [A B].
    exists q. split; [exact A|]. split; [exact B|reflexivity].
  - do 3 eexists. split; [reflexivity|]. intros p Hp. discriminate.
Qed.

Lemma uniq_state : forall d q q', prom_uniq d -> In q (promises d) -> In q' (promises d) -> p_id q = p_id q' -> q = q'.
Proof.
  intros d q q' U. unfold prom_uniq in U. revert U. induction (promises d) as [|x l IH]; intros U Hq Hq' E; [contradiction|].
  cbn in U. inversion U as [|? ? Hn Hl]; subst. destruct Hq as [->|Hq], Hq' as [->|Hq'].
  - reflexivity.
  - exfalso. apply Hn. rewrite E. apply in_map. exact Hq'.
  - exfalso. apply Hn. rewrite <- E. apply in_map. exact Hq.
  - apply IH; assumption.
Qed.

(* a re-read that shows the promise pending, on a database where the registration fact holds *)
Lemma reread_pending : forall d rid pid q, prom_uniq d -> Freg d rid pid -> In q (promises d) -> p_id q = pid -> p_state q = Pending ->
    registered d rid = true.
Proof.
  intros d rid pid q U [H|[q' [Hq' [Hid Hs]]]] Hq Hi Hp; [exact H|]. exfalso. apply Hs.
  rewrite <- (uniq_state d q q' U Hq Hq') by congruence. exact Hp.
Qed.

(* ---------- the link between a live registration instance, its submissions and the durable facts ---------- *)
Definition pend_fact (d : db) (rid pid : string) (k : kont) (pe : pend) : Prop :=
  match k with
  | KCallback_ins _ _ =>
    match pd_ready pe with
    | None => True
    | Some c => forall n, one_alter c = Some n -> n <> 1 -> Freg d rid pid
    end
  | KCallback_reread _ =>
    match pd_ready pe with
    | None => Freg d rid pid
    | Some c => one_promise c <> Some None /\
                forall p, one_promise c = Some (Some p) -> p_state p = Pending -> registered d rid = true
    end
  | _ => True
  end.

Definition kont_fact (d : db) (rid pid : string) (k : kont) : Prop :=
  match k with
  | KCallback pid' cbid _ _ _ => pid' = pid /\ cbid = rid
  | KCallback_ins _ cc => cc_id cc = rid /\ cc_pid cc = pid /\ has_row d pid
  | KCallback_reread pid' => pid' = pid /\ has_row d pid
  | _ => False
  end.

Definition st_fact (d : db) (pl : list pend) (id rid pid : string) (st : cstate) : Prop :=
  match st with
  | CSeq k n => kont_fact d rid pid k /\ forall pe, In pe pl -> pd_id pe = id -> pd_n pe = n -> pend_fact d rid pid k pe
  | CFan _ _ _ => False
  | CDone => True
  end.

Definition YInv (m : rmap) (s : sys) : Prop :=
  forall i q rid pid, In i (s_insts s) -> lookup_req (i_id i) m = Some q -> reg_of q = Some (rid, pid) ->
                      st_fact (s_db s) (s_pend s) (i_id i) rid pid (i_st i).

Lemma pend_fact_mono : forall a b rid pid k pe, Mid a b -> pend_fact a rid pid k pe -> pend_fact b rid pid k pe.
Proof.
  intros a b rid pid k pe M H. destruct k; cbn in *; try exact I; destruct (pd_ready pe); try exact I.
  - intros n Hn Hne. eapply Freg_mono; [exact M|]. eapply H; eassumption.
  - destruct H as [H0 H]. split; [exact H0|]. intros p Hp Hs. eapply registered_mono; [exact M|]. eapply H; eassumption.
  - eapply Freg_mono; eassumption.
Qed.

Lemma kont_fact_mono : forall a b rid pid k, Mid a b -> kont_fact a rid pid k -> kont_fact b rid pid k.
Proof.
  intros a b rid pid k M H. destruct k; cbn in *; try exact H.
  - destruct H as [A [B C]]. split; [exact A|]. split; [exact B|]. eapply has_row_mono; eassumption.
  - destruct H as [A C]. split; [exact A|]. eapply has_row_mono; eassumption.
Qed.

(* what the completion handed to a registration coroutine is known to say *)
Definition cpl_fact (d : db) (rid pid : string) (k : kont) (c : cpl) : Prop :=
  match k with
  | KCallback_ins _ _ => forall n, one_alter c = Some n -> n <> 1 -> Freg d rid pid
  | KCallback_reread _ => one_promise c <> Some None /\
                          forall p, one_promise c = Some (Some p) -> p_state p = Pending -> registered d rid = true
  | _ => True
  end.

(* the fact a fresh (not yet executed) submission of the new continuation must satisfy *)
Definition new_fact (d : db) (rid pid : string) (k : kont) : Prop :=
  match k with KCallback_reread _ => Freg d rid pid | _ => True end.

Lemma prec_row : forall d p, prec d p -> has_row d (p_id p).
Proof. intros d p [q [Hq [[E _] _]]]. exists q. split; [exact Hq|symmetry; exact E]. Qed.

(* one resumption of a registration coroutine *)
Lemma resume_reg : forall cfg d k s c now next q rid pid,
    reg_of q = Some (rid, pid) -> kont_fact d rid pid k -> k_expects k s -> rdy_ok d s c -> cpl_fact d rid pid k c ->
    (forall rsp, o_resp (resume_seq cfg k c now next) = Some rsp -> c507_resp d q rsp = true) /\
    match o_state (resume_seq cfg k c now next) with
    | CSeq k' n' => n' = next /\ kont_fact d rid pid k' /\ new_fact d rid pid k'
    | CFan _ _ _ => False
    | CDone => True
    end.
Proof.
  intros cfg d k s c now next q rid pid Hq Hk He Hr Hc. pose proof (reg_of_id _ _ _ Hq) as Hrid.
  destruct k; cbn in Hk; try contradiction; cbn [resume_seq].
  - (* first read *)
    destruct Hk as [-> ->]. cbn in He. subst s.
    destruct (one_promise c) as [[p|]|] eqn:E1; cbn; try (split; [intros rsp Hrsp; inversion Hrsp; reflexivity|exact I]).
    destruct (p_state p =? Pending) eqn:Ep; cbn.
    + split; [intros rsp Hrsp; discriminate|]. split; [reflexivity|]. split; [|exact I]. split; [reflexivity|]. split; [reflexivity|].
      destruct c as [rs| | |]; cbn in E1; try discriminate. destruct rs as [|r0 rs]; [discriminate|]. destruct r0; try discriminate.
      cbn in Hr. inversion Hr as [|? ? ? ? Hh _]; subst. cbn in Hh. destruct recs as [|p0 recs]; [discriminate|]. cbn in E1.
      injection E1 as ->. inversion Hh as [|? ? Hhd _]; subst. destruct Hhd as [Hp Hi]. rewrite <- Hi. apply prec_row. exact Hp.
    + split; [|exact I]. intros rsp Hrsp. inversion Hrsp; subst. cbn. rewrite Ep. reflexivity.
  - (* the guarded insert answered *)
    destruct Hk as [Hid [Hpid Hrow]]. cbn in Hc.
    destruct (one_alter c) as [n|] eqn:E1; cbn; try (split; [intros rsp Hrsp; inversion Hrsp; reflexivity|exact I]).
    destruct (n =? 1) eqn:En; cbn.
    + split; [|exact I]. intros rsp Hrsp. inversion Hrsp; subst. reflexivity.
    + split; [intros rsp Hrsp; discriminate|]. split; [reflexivity|]. split; [split; [exact Hpid|exact Hrow]|]. cbn. apply (Hc n eq_refl). lia.
  - (* the second read answered *)
    cbn in Hc. destruct Hc as [Hnn Hc]. destruct (one_promise c) as [[p|]|] eqn:E1; cbn;
      [|exfalso; apply Hnn; reflexivity|split; [intros rsp Hrsp; inversion Hrsp; reflexivity|exact I]].
    split; [|exact I]. intros rsp Hrsp. inversion Hrsp; subst. cbn. destruct (p_state p =? Pending) eqn:Ep; cbn; [|reflexivity].
    rewrite Hrid. apply (Hc p eq_refl). lia.
Qed.

Lemma start_reg : forall q t d rid pid, reg_of q = Some (rid, pid) ->
    (forall rsp, o_resp (start_req q t 0) = Some rsp -> c507_resp d q rsp = true) /\
    match o_state (start_req q t 0) with
    | CSeq k n => kont_fact d rid pid k /\ forall pe, pend_fact d rid pid k pe
    | CFan _ _ _ => False
    | CDone => True
    end.
Proof.
  intros q t d rid pid H. destruct q as [ | | | | |p0 root timeout recv|id0 p0 timeout recv| | | | | | | | | |]; cbn in H; try discriminate;
    injection H as <- <-; cbn.
  - destruct (String.eqb p0 root); cbn.
    + split; [intros rsp Hr; inversion Hr; reflexivity|exact I].
    + split; [intros rsp Hr; discriminate|]. split; [split; reflexivity|intros pe; exact I].
  - split; [intros rsp Hr; discriminate|]. split; [split; reflexivity|intros pe; exact I].
Qed.

Lemma c507_nonreg : forall d q rsp, reg_of q = None -> c507_resp d q rsp = true.
Proof.
  intros d q rsp H. assert (Hn : reg_id q = None).
  { destruct (reg_id q) as [rid|] eqn:Ei; [|reflexivity]. destruct (reg_id_of _ _ Ei) as [pid Hc]. congruence. }
  unfold c507_resp. rewrite Hn. destruct rsp; try reflexivity. destruct p; [|reflexivity]. destruct cb; [reflexivity|].
  destruct ((status =? 20000) && (p_state p =? Pending)); reflexivity.
Qed.

(* ---------- the tick ---------- *)
Lemma r507_tick : forall cfg s t dl bgs arr s' ob m,
    SInv s -> YInv m s -> dir_wf (DTick t dl bgs arr) -> step cfg s (DTick t dl bgs arr) = Some (s', ob) ->
    YInv (fst (h507 m (s_now s) (s_db s) (DTick t dl bgs arr) ob)) s' /\
    snd (h507 m (s_now s) (s_db s) (DTick t dl bgs arr) ob) = [].
Proof.
  intros cfg s t dl bgs arr s' ob m [[U TS] [HP [HI ND]]] HY Hwf H. cbn [h507 fst snd]. fold (ext bgs arr m). cbn in H.
  destruct (t <? s_now s) eqn:Et; [discriminate|].
  destruct (ids_fresh s (map fst bgs ++ map fst arr)) eqn:Ef; cbn in H; [|discriminate].
  destruct (ids_fresh_spec s _ Ef) as [Hnd Hfresh]. destruct (NoDup_app_l _ _ Hnd) as [Nb [Na Hdisj]].
  destruct (take_deliveries dl (s_pend s)) as [[ds pl]|] eqn:Etd; [|discriminate].
  destruct (take_deliveries_spec _ _ _ _ Etd) as [Hsub Hdel].
  destruct (run_insts cfg t (s_group s) ds (s_insts s)) as [[il1 pl1] ob1] eqn:E1.
  match type of H with context [start_insts ?st ?g] => set (starts := st) in * end.
  destruct (start_insts starts (s_group s)) as [[il2 pl2] ob2] eqn:E2.
  inversion H; subst; clear H. cbn [s_db s_pend s_insts].
  pose proof (run_insts_spec cfg t (s_group s) ds (s_insts s)) as R1. rewrite E1 in R1. destruct R1 as [R1a [R1p _]].
  pose proof (start_insts_spec starts (s_group s)) as R2. rewrite E2 in R2. destruct R2 as [R2a [R2p _]].
  (* a live instance keeps its entry *)
  assert (Hlive : forall i, In i (s_insts s) -> lookup_req (i_id i) (ext bgs arr m) = lookup_req (i_id i) m).
  { intros i Hi. apply lookup_ext_other; intros Hc; (assert (Hin : In (i_id i) (map fst bgs ++ map fst arr)) by (apply in_or_app; tauto));
      destruct (Hfresh _ Hin) as [F _]; exact (F i Hi eq_refl). }
  (* the ids of started coroutines are new *)
  assert (Hstart_id : forall id o, In (id, o) starts -> In id (map fst bgs ++ map fst arr)).
  { intros id o Hin. unfold starts in Hin. apply in_app_or in Hin. apply in_or_app.
    destruct Hin as [Hin|Hin]; apply in_map_iff in Hin; destruct Hin as [y [Hy Hin]]; injection Hy as Hid _; subst id;
      [left|right]; apply in_map; exact Hin. }
  (* what one step of a live registration instance does *)
  assert (Hstep : forall i q rid pid, In i (s_insts s) -> lookup_req (i_id i) m = Some q -> reg_of q = Some (rid, pid) ->
                   (forall rsp, o_resp (inst_step cfg t ds i) = Some rsp -> c507_resp (s_db s) q rsp = true) /\
                   match o_state (inst_step cfg t ds i) with
                   | CSeq k' n' =>
                     kont_fact (s_db s) rid pid k' /\
                     ((o_subs (inst_step cfg t ds i) = [] /\ i_st i = CSeq k' n') \/
                      (n' = i_next i /\ new_fact (s_db s) rid pid k'))
                   | CFan _ _ _ => False
                   | CDone => True
                   end).
  { intros i q rid pid Hi Hq Hreg. pose proof (HY i q rid pid Hi Hq Hreg) as Hs.
    pose proof (proj1 (Forall_forall _ _) HI i Hi) as [Hst [_ Hexp]].
    unfold inst_step. destruct (i_st i) as [k n|fk sl wk|] eqn:Es; cbn [run_inst]; cbn in Hs; [|contradiction|].
    - destruct Hs as [Hk Hpf].
      destruct (find (fun d => Nat.eqb (fst d) n) (deliveries_for (i_id i) ds)) as [[n' c]|] eqn:F.
      + apply find_some in F. destruct F as [Fin Fe]. cbn in Fe. apply Nat.eqb_eq in Fe. subst n'.
        apply deliveries_for_in in Fin. destruct (Hdel _ _ _ Fin) as [p [Hp [Hid [Hn Hrdy]]]].
        pose proof (proj1 (Forall_forall _ _) HP p Hp) as Hpk. unfold pend_ok in Hpk. rewrite Hrdy in Hpk.
        destruct (Hexp k n eq_refl) as [_ Hke]. specialize (Hke p Hp Hid Hn).
        assert (Hcf : cpl_fact (s_db s) rid pid k c).
        { pose proof (Hpf p Hp Hid Hn) as Hf. destruct k; cbn in Hf |- *; try exact I; rewrite Hrdy in Hf; exact Hf. }
        cbn. destruct (resume_reg cfg (s_db s) k (pd_sub p) c t (i_next i) q rid pid Hreg Hk Hke Hpk Hcf) as [A B].
        split; [exact A|]. destruct (o_state (resume_seq cfg k c t (i_next i))) as [k' n'|? ? ?|]; try exact B.
        destruct B as [B1 [B2 B3]]. split; [exact B2|]. right. split; assumption.
      + cbn. split; [intros rsp Hc; discriminate|]. split; [exact Hk|]. left. split; reflexivity.
    - cbn. split; [intros rsp Hc; discriminate|exact I]. }
  split.
  - (* the invariant after the tick *)
    intros i' q rid pid Hi' Hq Hreg. apply in_app_or in Hi'. destruct Hi' as [Hi'|Hi'].
    + destruct (R1a i' Hi') as [i [Hi [Hid [Hst Hnx]]]]. rewrite Hid in Hq |- *. rewrite Hlive in Hq by exact Hi.
      destruct (Hstep i q rid pid Hi Hq Hreg) as [_ B]. rewrite Hst. pose proof (proj1 (Forall_forall _ _) HI i Hi) as [_ [Hlt _]].
      destruct (o_state (inst_step cfg t ds i)) as [k' n'|? ? ?|] eqn:Eo; cbn; [|contradiction|exact I].
      destruct B as [Bk Bc]. split; [exact Bk|]. intros pe Hpe Hpid Hpn.
      apply in_app_or in Hpe. destruct Hpe as [Hpe|Hpe]; [|apply in_app_or in Hpe; destruct Hpe as [Hpe|Hpe]].
      * (* a submission that was already in flight *)
        pose proof (Hsub pe Hpe) as Hold. destruct Bc as [[_ Est]|[En _]].
        -- pose proof (HY i q rid pid Hi Hq Hreg) as Hs. rewrite Est in Hs. destruct Hs as [_ Hpf]. apply Hpf; assumption.
        -- exfalso. pose proof (Hlt pe Hold Hpid). lia.
      * (* a submission made in this tick by a running instance *)
        destruct (R1p pe Hpe) as [j [Hj Hn]]. destruct (number_subs_in _ _ _ _ _ Hn) as [Hjid [Hrange [_ Hrdy]]].
        assert (j = i).
        { assert (Eid : i_id j = i_id i) by congruence. clear -ND Hj Hi Eid. induction (s_insts s) as [|x l IH]; [contradiction|].
          cbn in ND. inversion ND as [|? ? Hnin Hnd]; subst. destruct Hj as [->|Hj], Hi as [->|Hi]; try reflexivity.
          - exfalso. apply Hnin. rewrite Eid. apply in_map. exact Hi.
          - exfalso. apply Hnin. rewrite <- Eid. apply in_map. exact Hj.
          - apply IH; assumption. }
        subst j. destruct Bc as [[Enil _]|[En Hnf]].
        -- rewrite Enil in Hn. contradiction.
        -- destruct k'; cbn; try exact I; rewrite Hrdy; try exact I. exact Hnf.
      * (* a submission of a coroutine started in this tick: other id *)
        exfalso. destruct (R2p pe Hpe) as [id [o [Hin Hn]]]. destruct (number_subs_in _ _ _ _ _ Hn) as [Hjid _].
        destruct (Hfresh _ (Hstart_id _ _ Hin)) as [F _]. apply (F i Hi). congruence.
    + destruct (R2a i' Hi') as [o [Hin [Hst _]]]. unfold starts in Hin. apply in_app_or in Hin. destruct Hin as [Hin|Hin];
        apply in_map_iff in Hin; destruct Hin as [y [Hy Hin]]; injection Hy as Hid Ho.
      * rewrite <- Hid in Hq. rewrite lookup_ext_bg in Hq by (apply in_map; exact Hin). discriminate.
      * assert (Hnb : ~ In (fst y) (map fst bgs)).
        { intros Hc. apply (Hdisj _ Hc). apply in_map. exact Hin. }
        rewrite <- Hid in Hq. rewrite (lookup_ext_arr bgs arr m (fst y) (snd y) Hnb Na) in Hq by (destruct y; exact Hin).
        inversion Hq; subst q. rewrite Hst, <- Ho. destruct (start_reg (snd y) t (s_db s) rid pid Hreg) as [_ B].
        destruct (o_state (start_req (snd y) t 0)) as [k' n'|? ? ?|]; cbn; [|contradiction|exact I].
        destruct B as [Bk Bp]. split; [exact Bk|]. intros pe _ _ _. apply Bp.
  - (* no violation *)
    apply flat_map_nil. intros x Hx. apply in_app_or in Hx. destruct Hx as [Hx|Hx].
    + pose proof (run_insts_obs cfg t (s_group s) ds (s_insts s) x) as R. rewrite E1 in R. destruct (R Hx) as [i [Hi Hin]].
      destruct (inst_obs_cases _ _ _ Hin) as [-> _]. destruct (visible_resp (o_resp (inst_step cfg t ds i))) as [rsp|] eqn:Ev; [|reflexivity].
      rewrite Hlive by exact Hi. destruct (lookup_req (i_id i) m) as [q|] eqn:Eq; [|reflexivity].
      destruct (reg_of q) as [[rid pid]|] eqn:Er.
      * rewrite (proj1 (Hstep i q rid pid Hi Eq Er) rsp (visible_some _ _ Ev)). reflexivity.
      * rewrite (c507_nonreg (s_db s) q rsp Er). reflexivity.
    + pose proof (start_insts_obs starts (s_group s) x) as R. rewrite E2 in R. destruct (R Hx) as [id [o [Hin Hobs]]].
      destruct (inst_obs_cases _ _ _ Hobs) as [-> _]. destruct (visible_resp (o_resp o)) as [rsp|] eqn:Ev; [|reflexivity].
      unfold starts in Hin. apply in_app_or in Hin. destruct Hin as [Hin|Hin]; apply in_map_iff in Hin; destruct Hin as [y [Hy Hin]]; injection Hy as Hid Ho.
      * rewrite <- Hid. rewrite lookup_ext_bg by (apply in_map; exact Hin). reflexivity.
      * assert (Hnb : ~ In (fst y) (map fst bgs)).
        { intros Hc. apply (Hdisj _ Hc). apply in_map. exact Hin. }
        rewrite <- Hid. rewrite (lookup_ext_arr bgs arr m (fst y) (snd y) Hnb Na) by (destruct y; exact Hin).
        destruct (reg_of (snd y)) as [[rid pid]|] eqn:Er.
        -- rewrite <- Ho in Ev. rewrite (proj1 (start_reg (snd y) t (s_db s) rid pid Er) rsp (visible_some _ _ Ev)). reflexivity.
        -- rewrite (c507_nonreg (s_db s) (snd y) rsp Er). reflexivity.
Qed.

(* ---------- the other steps ---------- *)
Lemma exec_txn_single : forall d c hs d' rs, exec_txn d [c] hs = Some (d', rs) -> exists r, rs = [r].
Proof.
  intros d c hs d' rs H. cbn in H. destruct (exec d c (hd None hs)) as [[d1 r]|]; [|discriminate]. injection H as _ <-. exists r. reflexivity.
Qed.

(* what is known about one submission, relative to the instances and the request map (which an execution does not
   touch): the fact about a submission that has not run refers to the database before the batch, the fact about a
   submission that has its completion to the database after it *)
Definition PF (m : rmap) (s : sys) (d' : db) (pe : pend) : Prop :=
  forall i q rid pid k, In i (s_insts s) -> lookup_req (i_id i) m = Some q -> reg_of q = Some (rid, pid) ->
                        pd_id pe = i_id i -> i_st i = CSeq k (pd_n pe) ->
                        k_expects k (pd_sub pe) /\
                        pend_fact (match pd_ready pe with None => s_db s | Some _ => d' end) rid pid k pe.

Lemma YInv_from_PF : forall m s d' pl',
    Mid (s_db s) d' -> YInv m s -> Forall (PF m s d') pl' ->
    YInv m (mkSys d' (s_now s) (s_group s) (s_insts s) pl').
Proof.
  intros m s d' pl' M HY HF i q rid pid Hi Hq Hreg. cbn [s_db s_pend s_insts] in *.
  pose proof (HY i q rid pid Hi Hq Hreg) as Hs. destruct (i_st i) as [k n|? ? ?|] eqn:Es; cbn in *; [|contradiction|exact I].
  destruct Hs as [Hk _]. split; [eapply kont_fact_mono; eassumption|].
  intros pe Hpe Hid Hn. pose proof (proj1 (Forall_forall _ _) HF pe Hpe i q rid pid k Hi Hq Hreg Hid) as Hf.
  rewrite Hn in Hf. destruct (Hf Es) as [_ Hp]. destruct (pd_ready pe) eqn:Er; [exact Hp|].
  eapply pend_fact_mono; [exact M|]. exact Hp.
Qed.

Lemma PF_initial : forall m s d', SInv s -> Mid (s_db s) d' -> YInv m s -> Forall (PF m s d') (s_pend s).
Proof.
  intros m s d' [_ [_ [HI _]]] M HY. apply Forall_forall. intros pe Hpe i q rid pid k Hi Hq Hreg Hid Hst.
  pose proof (proj1 (Forall_forall _ _) HI i Hi) as [_ [_ Hexp]]. destruct (Hexp k (pd_n pe) Hst) as [_ Hke].
  split; [apply Hke; [exact Hpe|exact Hid|reflexivity]|].
  pose proof (HY i q rid pid Hi Hq Hreg) as Hs. rewrite Hst in Hs. cbn in Hs. destruct Hs as [_ Hpf].
  pose proof (Hpf pe Hpe Hid eq_refl) as Hp. destruct (pd_ready pe); [eapply pend_fact_mono; eassumption|exact Hp].
Qed.

Lemma r507_exec : forall cfg s batch s' ob m,
    Inv05 s -> YInv m s -> step cfg s (DExec batch) = Some (s', ob) -> YInv m s'.
Proof.
  intros cfg s batch s' ob m [HS HC] HY H. pose proof HS as [[U TS] [HP [HI ND]]]. cbn in H.
  destruct (batch_txns batch (s_pend s)) as [txns|] eqn:Eb; [|discriminate].
  destruct (nodup_items batch) eqn:En; cbn in H; [|discriminate].
  destruct (c_fifo cfg && negb (fifo_ok batch (s_pend s))); [discriminate|].
  pose proof (txns_ok _ _ _ (batch_txns_spec _ _ _ _ _ HP Eb)) as Htok.
  destruct (exec_batch (s_db s) txns) as [[d' rss]|] eqn:Ee; injection H as <- _.
  - destruct (exec_batch_mid _ _ _ _ Htok HC Ee) as [M R].
    apply YInv_from_PF; [exact M|exact HY|].
    apply (set_batch_ready_gen (PF m s d') (ran (s_db s) d') batch txns (Some rss) (s_pend s) Eb En);
      [apply PF_initial; assumption|exact R|].
    intros p cs hs c Hin Hsub Hrdy HPp Hc i q rid pid k Hi Hq Hreg Hid Hst. cbn [pd_id pd_n pd_sub pd_ready] in *.
    destruct (HPp i q rid pid k Hi Hq Hreg Hid Hst) as [Hke Hpf]. rewrite Hrdy in Hpf. split; [exact Hke|].
    pose proof (HY i q rid pid Hi Hq Hreg) as Hs. rewrite Hst in Hs. cbn in Hs. destruct Hs as [Hk _].
    destruct k; cbn; try exact I.
    + (* the guarded insert *)
      intros n Hn Hne. destruct Hc as [->|[rs [-> [dx [dx' [M1 [Ex [M2 M3]]]]]]]]; [discriminate|].
      cbn in Hke. rewrite Hsub in Hke. injection Hke as ->. cbn in Hk. destruct Hk as [Hcid [Hcpid Hrow]].
      cbn [fst snd] in Ex. destruct (exec_txn_single _ _ _ _ _ Ex) as [r ->].
      destruct (create_callback_none _ _ _ _ _ Ex) as [n0 [-> Hf]]; [rewrite Hcpid; eapply has_row_mono; eassumption|].
      cbn in Hn. injection Hn as ->. rewrite Hcid, Hcpid in Hf.
      eapply Freg_mono; [exact M3|]. eapply Freg_mono; [exact M2|]. apply Hf. exact Hne.
    + (* the second read *)
      destruct Hc as [->|[rs [-> [dx [dx' [M1 [Ex [M2 M3]]]]]]]]; [split; [discriminate|intros; discriminate]|].
      cbn in Hke. rewrite Hsub in Hke. injection Hke as ->. cbn in Hk. destruct Hk as [Hpid Hrow0]. subst pid0.
      cbn [fst snd] in Ex. destruct (exec_txn_single _ _ _ _ _ Ex) as [r ->].
      pose proof Ex as Ex0. cbn in Ex0. injection Ex0 as _ Hr0.
      destruct (read_promise_row _ _ _ _ _ Ex) as [-> [rows [lst [recs [-> Hrow]]]]]. split.
      * (* the promise exists where the read runs: it is found *)
        cbn. destruct (has_row_mono _ _ _ M1 Hrow0) as [q1 [Hq1 Hq1id]]. unfold ex_read_promise in Hr0.
        destruct (find_promise pid dx) as [q2|] eqn:F.
        -- injection Hr0 as _ _ <-. cbn. discriminate.
        -- exfalso. unfold find_promise in F. apply (find_promise_none_in _ _ q1 F Hq1). exact Hq1id.
      * intros p1 Hp1 Hpend. cbn in Hp1. injection Hp1 as Hp1.
        destruct (Hrow p1 Hp1) as [q0 [Hq0 [Hq0id Hq0s]]].
        eapply registered_mono; [exact M3|]. cbn in Hpf. rewrite Hrdy in Hpf.
        eapply reread_pending; [exact (proj1 (proj1 (proj2 M1)))|eapply Freg_mono; [exact M1|exact Hpf]|exact Hq0|exact Hq0id|congruence].
  - (* the batch failed as a whole: every submission of it is answered with an error *)
    apply (YInv_from_PF m s (s_db s) _ (Mid_refl _ HC) HY).
    apply (set_batch_ready_gen (PF m s (s_db s)) (fun _ _ => False) batch txns None (s_pend s) Eb En);
      [apply PF_initial; [exact HS|apply Mid_refl; exact HC|exact HY]|exact I|].
    intros p cs hs c Hin Hsub Hrdy HPp Hc i q rid pid k Hi Hq Hreg Hid Hst. cbn [pd_id pd_n pd_sub pd_ready] in *.
    destruct (HPp i q rid pid k Hi Hq Hreg Hid Hst) as [Hke _]. split; [exact Hke|].
    destruct Hc as [->|[rs [_ []]]]. destruct k; cbn; try exact I; try (split; [discriminate|]); intros; discriminate.
Qed.

(* a completion that is not a store result says nothing *)
Lemma YInv_set_ready : forall m s id n c,
    one_alter c = None -> one_promise c = None -> SInv s -> CbInv (s_db s) -> YInv m s ->
    YInv m (mkSys (s_db s) (s_now s) (s_group s) (s_insts s) (set_ready id n c (s_pend s))).
Proof.
  intros m s id n c Ha Hp HS HC HY. apply (YInv_from_PF m s (s_db s) _ (Mid_refl _ HC) HY).
  apply set_ready_forall; [apply PF_initial; [exact HS|apply Mid_refl; exact HC|exact HY]|].
  intros p F i q rid pid k Hi Hq Hreg Hid Hst. cbn [pd_id pd_n pd_sub pd_ready] in *.
  apply find_some in F. destruct F as [Fin _].
  pose proof (PF_initial m s (s_db s) HS (Mid_refl _ HC) HY) as HF.
  destruct (proj1 (Forall_forall _ _) HF p Fin i q rid pid k Hi Hq Hreg Hid Hst) as [Hke _]. split; [exact Hke|].
  destruct k; cbn; try exact I; try (split; [congruence|]); intros; congruence.
Qed.

Definition Inv507 (m : rmap) (s : sys) : Prop := Inv05 s /\ YInv m s.

Lemma r507_step : forall cfg m s d s' ob,
    Inv507 m s -> dir_wf d -> step cfg s d = Some (s', ob) ->
    Inv507 (fst (h507 m (s_now s) (s_db s) d ob)) s' /\ snd (h507 m (s_now s) (s_db s) d ob) = [].
Proof.
  intros cfg m s d s' ob [H5 HY] Hwf H. destruct (c05_step cfg s d s' ob H5 Hwf H) as [H5' _]. pose proof H5 as [HS HC].
  destruct d.
  - destruct (r507_tick cfg s t deliver bgs arrive s' ob m HS HY Hwf H) as [A B]. split; [split; assumption|exact B].
  - cbn [h507 fst snd]. split; [split; [exact H5'|]|reflexivity]. exact (r507_exec cfg s batch s' ob m H5 HY H).
  - cbn [h507 fst snd]. split; [split; [exact H5'|]|reflexivity]. cbn in H. destruct (find_pend id n (s_pend s)); [|discriminate].
    destruct (unready p); [|discriminate]. injection H as <- _. apply YInv_set_ready; try assumption; reflexivity.
  - cbn [h507 fst snd]. split; [split; [exact H5'|]|reflexivity]. cbn in H. destruct (find_pend id n (s_pend s)); [|discriminate].
    destruct (pd_sub p); try discriminate. destruct (pd_ready p); [discriminate|]. injection H as <- _.
    apply YInv_set_ready; try assumption; destruct res; reflexivity.
  - cbn [h507 fst snd]. split; [split; [exact H5'|]|reflexivity]. cbn in H. destruct (find_pend id n (s_pend s)); [|discriminate].
    destruct (pd_sub p); try discriminate. destruct (pd_ready p); [discriminate|]. injection H as <- _.
    apply YInv_set_ready; try assumption; destruct res; reflexivity.
  - cbn [h507 fst snd]. split; [split; [exact H5'|]|reflexivity]. cbn in H. injection H as <- _. intros i q rid pid [].
Qed.

Theorem C05ya_trace : forall cfg sch, sch_wf sch -> C05ya_mon (events cfg sch) = [].
Proof.
  intros cfg sch Hw. unfold C05ya_mon, events.
  apply (hmon_from_sound cfg rmap h507 Inv507 dir_wf) with (m := []) (s := sys0 db0) (i := 0%nat).
  - intros m s d s' ob HI Hd Hs. eapply r507_step; eassumption.
  - split; [apply Inv05_init|intros i q rid pid []].
  - exact Hw.
Qed.
