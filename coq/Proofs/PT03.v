(* C03, clause 301 at trace level: for EVERY schedule, the answer to every create / create-with-task / complete
   request is the one the idempotency rule prescribes for the promise it shows. *)
From RV Require Import Mon MonC03 Framework StoreLocks StorePromises StoreCallbacks Discipline SysInv Eqb PC03 Hist.
From Coq Require Import Lia.

(* ---------- the link between a live instance and the request it carries ---------- *)
Definition is_cc (q : request) : bool :=
  match q with QCreatePromise _ | QCreatePromiseAndTask _ _ _ | QCompletePromise _ => true | _ => false end.

Definition kreq (k : kont) (q : request) : Prop :=
  match q with
  | QCreatePromise r => kcreate k r
  | QCreatePromiseAndTask r _ _ => kcreate k r
  | QCompletePromise r => kcomplete k r
  | _ => True
  end.

Definition sreq (st : cstate) (q : request) : Prop :=
  match st with
  | CSeq k _ => kreq k q
  | CFan _ _ _ => is_cc q = false
  | CDone => True
  end.

Definition RInv (m : rmap) (s : sys) : Prop :=
  forall i q, In i (s_insts s) -> lookup_req (i_id i) m = Some q -> sreq (i_st i) q.

(* ---------- completions tell the truth about ids ---------- *)
Lemma c_ok_from : forall d k s c, k_expects k s -> rdy_ok d s c -> c_ok k c.
Proof.
  intros d k s c He Hr. destruct k; cbn; try exact I; cbn in He; subst s.
  - intros p Hp. destruct c as [rs| | |]; cbn in Hp; try discriminate. destruct rs as [|r0 rs]; [discriminate|].
    cbn in Hr. inversion Hr; subst. destruct r0; cbn in Hp; try discriminate. inversion Hp as [Hh].
    destruct recs as [|p0 recs]; [discriminate|]. cbn in Hh. inversion Hh; subst. cbn in H2. inversion H2; subst. tauto.
  - intros p Hp. destruct c as [rs| | |]; cbn in Hp; try discriminate. destruct rs as [|r0 rs]; [discriminate|].
    cbn in Hr. inversion Hr; subst. destruct r0; cbn in Hp; try discriminate. inversion Hp as [Hh].
    destruct recs as [|p0 recs]; [discriminate|]. cbn in Hh. inversion Hh; subst. cbn in H2. inversion H2; subst. tauto.
Qed.

(* ---------- the shape of what a create / complete coroutine moves to ---------- *)
Lemma create_not_fan : forall cfg k c now next r, kcreate k r ->
    match o_state (resume_seq cfg k c now next) with CFan _ _ _ => False | _ => True end.
Proof.
  intros cfg k c now next r Hk. destruct k; try contradiction; cbn [resume_seq].
  - destruct (one_promise c) as [[p|]|]; cbn; try exact I. destruct (overdue now p); cbn; [exact I|]. destruct with_task; exact I.
  - destruct (create_cmd pc tc c) as [[cmd tc']|]; cbn; exact I.
  - destruct c as [rs| | |]; cbn; try exact I. destruct rs as [|res rs]; cbn; try exact I.
    destruct res; cbn; try exact I.
    + destruct with_task; cbn; [exact I|]. destruct (rows =? 0); cbn; exact I.
    + destruct (negb (prows =? trows)); cbn; [exact I|]. destruct (prows =? 0); cbn; [exact I|]. destruct with_task; exact I.
  - destruct (one_alter c) as [n|]; cbn; [|exact I]. destruct (n =? 1); cbn; [destruct with_task; exact I|exact I].
Qed.

Lemma complete_not_fan : forall cfg k c now next r, kcomplete k r ->
    match o_state (resume_seq cfg k c now next) with CFan _ _ _ => False | _ => True end.
Proof.
  intros cfg k c now next r Hk. destruct k; try contradiction; cbn [resume_seq].
  - destruct (one_promise c) as [[p|]|]; cbn; try exact I. destruct (p_state p =? Pending); cbn; [|exact I].
    destruct (now <? p_timeout p); cbn; exact I.
  - destruct (one_alter c) as [n|]; cbn; [|exact I]. destruct (n =? 1); cbn; exact I.
Qed.

(* one resumption of an instance that carries request q *)
Lemma resume_req : forall cfg k c now next q,
    kreq k q -> c_ok k c ->
    (forall rsp, o_resp (resume_seq cfg k c now next) = Some rsp -> c03_resp q rsp = true) /\
    sreq (o_state (resume_seq cfg k c now next)) q.
Proof.
  intros cfg k c now next q Hk Hc. destruct q; cbn in Hk |- *; try (split; [intros; reflexivity|]);
    try (destruct (o_state (resume_seq cfg k c now next)); cbn; try exact I; reflexivity).
  - destruct (create_step cfg k c now next r Hk Hc) as [A B]. split; [exact A|].
    pose proof (create_not_fan cfg k c now next r Hk) as F.
    destruct (o_state (resume_seq cfg k c now next)) eqn:E; cbn; [eapply B; reflexivity|contradiction|exact I].
  - destruct (create_step cfg k c now next r Hk Hc) as [A B]. split; [exact A|].
    pose proof (create_not_fan cfg k c now next r Hk) as F.
    destruct (o_state (resume_seq cfg k c now next)) eqn:E; cbn; [eapply B; reflexivity|contradiction|exact I].
  - destruct (complete_step cfg k c now next r Hk Hc) as [A B]. split; [exact A|].
    pose proof (complete_not_fan cfg k c now next r Hk) as F.
    destruct (o_state (resume_seq cfg k c now next)) eqn:E; cbn; [eapply B; reflexivity|contradiction|exact I].
Qed.

(* the start of a request *)
Lemma start_req_sreq : forall q t,
    sreq (o_state (start_req q t 0)) q /\ (is_cc q = true -> o_resp (start_req q t 0) = None).
Proof.
  intros q t. destruct q; cbn; try (split; [exact I|discriminate]); try (split; [|intros; reflexivity]).
  - split; [reflexivity|]. intros E; discriminate.
  - split; [reflexivity|]. intros _ E; discriminate.
  - reflexivity.
  - destruct (String.eqb pid root); cbn; (split; [exact I|discriminate]).
Qed.

(* ---------- lookups in the extended map ---------- *)
Lemma find_app_none : forall {A} (f : A -> bool) l l', (forall x, In x l -> f x = false) -> find f (l ++ l') = find f l'.
Proof. induction l as [|y l IH]; intros l' H; cbn; [reflexivity|]. rewrite H by (left; reflexivity). apply IH. intros; apply H; right; assumption. Qed.

Definition ext (bgs : list (string * bgkind)) (arr : list (string * request)) (m : rmap) : rmap :=
  (map (fun x => (fst x, None)) bgs ++ map (fun x => (fst x, Some (snd x))) arr ++ m)%list.

Lemma lookup_ext_other : forall bgs arr m id,
    ~ In id (map fst bgs) -> ~ In id (map fst arr) -> lookup_req id (ext bgs arr m) = lookup_req id m.
Proof.
  intros bgs arr m id Hb Ha. unfold lookup_req, ext. rewrite find_app_none.
  - rewrite find_app_none; [reflexivity|]. intros x Hx. apply in_map_iff in Hx. destruct Hx as [y [<- Hy]]. cbn.
    apply String.eqb_neq. intros E. apply Ha. rewrite <- E. apply in_map. exact Hy.
  - intros x Hx. apply in_map_iff in Hx. destruct Hx as [y [<- Hy]]. cbn.
    apply String.eqb_neq. intros E. apply Hb. rewrite <- E. apply in_map. exact Hy.
Qed.

Lemma lookup_ext_bg : forall bgs arr m id, In id (map fst bgs) -> lookup_req id (ext bgs arr m) = None.
Proof.
  intros bgs arr m id H. unfold lookup_req, ext.
  assert (Hf : exists e, find (fun e => String.eqb (fst e) id) (map (fun x : string * bgkind => (fst x, @None request)) bgs) = Some e /\ snd e = None).
  { induction bgs as [|b bgs IH]; [contradiction|]. cbn. destruct (String.eqb (fst b) id) eqn:E.
    - eexists. split; [reflexivity|reflexivity].
    - apply IH. destruct H as [H|H]; [apply String.eqb_neq in E; contradiction|exact H]. }
  destruct Hf as [[i0 o0] [Hf Ho]]. cbn in Ho. subst o0.
  assert (Hfa : forall l l' e, find (fun e : string * option request => String.eqb (fst e) id) l = Some e -> find (fun e => String.eqb (fst e) id) (l ++ l') = Some e).
  { induction l as [|y l IHl]; intros l' e Hl; cbn in *; [discriminate|]. destruct (String.eqb (fst y) id); [exact Hl|apply IHl; exact Hl]. }
  rewrite (Hfa _ _ _ Hf). reflexivity.
Qed.

Lemma lookup_ext_arr : forall bgs arr m id q,
    ~ In id (map fst bgs) -> NoDup (map fst arr) -> In (id, q) arr -> lookup_req id (ext bgs arr m) = Some q.
Proof.
  intros bgs arr m id q Hb Hn Hin. unfold lookup_req, ext. rewrite find_app_none.
  - assert (Hf : find (fun e => String.eqb (fst e) id) (map (fun x : string * request => (fst x, Some (snd x))) arr ++ m) = Some (id, Some q)).
    { clear Hb. induction arr as [|a arr IH]; [contradiction|]. cbn. inversion Hn; subst. destruct Hin as [->|Hin].
      - cbn. rewrite String.eqb_refl. reflexivity.
      - destruct (String.eqb (fst a) id) eqn:E.
        + exfalso. apply String.eqb_eq in E. apply H1. rewrite E. change id with (fst (id, q)). apply in_map. exact Hin.
        + apply IH; assumption. }
    rewrite Hf. reflexivity.
  - intros x Hx. apply in_map_iff in Hx. destruct Hx as [y [<- Hy]]. cbn.
    apply String.eqb_neq. intros E. apply Hb. rewrite <- E. apply in_map. exact Hy.
Qed.

Lemma NoDup_app_l : forall {A} (l l' : list A), NoDup (l ++ l') -> NoDup l /\ NoDup l' /\ (forall x, In x l -> ~ In x l').
Proof.
  induction l as [|x l IH]; intros l' H; cbn in *; [split; [constructor|split; [exact H|intros ? []]]|].
  inversion H; subst. destruct (IH l' H3) as [A0 [B0 C0]]. split; [|split; [exact B0|]].
  - constructor; [|exact A0]. intros Hc. apply H2. apply in_or_app. tauto.
  - intros y [<-|Hy]; [intros Hc; apply H2; apply in_or_app; tauto|apply C0; exact Hy].
Qed.

(* ---------- the tick ---------- *)
Lemma visible_some : forall r rsp, visible_resp r = Some rsp -> r = Some rsp.
Proof. intros r rsp H. destruct r as [x|]; cbn in H; [|discriminate]. destruct x; cbn in H; try exact H. discriminate. Qed.

Lemma r301_tick : forall cfg s t dl bgs arr s' ob m,
    SInv s -> RInv m s -> dir_wf (DTick t dl bgs arr) -> step cfg s (DTick t dl bgs arr) = Some (s', ob) ->
    RInv (fst (h301 m (s_now s) (s_db s) (DTick t dl bgs arr) ob)) s' /\
    snd (h301 m (s_now s) (s_db s) (DTick t dl bgs arr) ob) = [].
Proof.
  intros cfg s t dl bgs arr s' ob m [[U TS] [HP [HI ND]]] HR Hwf H. cbn [h301 fst snd]. fold (ext bgs arr m). cbn in H.
  destruct (t <? s_now s) eqn:Et; [discriminate|].
  destruct (ids_fresh s (map fst bgs ++ map fst arr)) eqn:Ef; cbn in H; [|discriminate].
  destruct (ids_fresh_spec s _ Ef) as [Hnd Hfresh]. destruct (NoDup_app_l _ _ Hnd) as [Nb [Na Hdisj]].
  destruct (take_deliveries dl (s_pend s)) as [[ds pl]|] eqn:Etd; [|discriminate].
  destruct (take_deliveries_spec _ _ _ _ Etd) as [Hsub Hdel].
  destruct (run_insts cfg t (s_group s) ds (s_insts s)) as [[il1 pl1] ob1] eqn:E1.
  match type of H with context [start_insts ?st ?g] => set (starts := st) in * end.
  destruct (start_insts starts (s_group s)) as [[il2 pl2] ob2] eqn:E2.
  inversion H; subst; clear H.
  (* a live instance keeps its entry *)
  assert (Hlive : forall i, In i (s_insts s) -> lookup_req (i_id i) (ext bgs arr m) = lookup_req (i_id i) m).
  { intros i Hi. apply lookup_ext_other; intros Hc; (assert (Hin : In (i_id i) (map fst bgs ++ map fst arr)) by (apply in_or_app; tauto));
      destruct (Hfresh _ Hin) as [F _]; exact (F i Hi eq_refl). }
  (* what one step of a live instance that carries q does *)
  assert (Hstep : forall i q, In i (s_insts s) -> lookup_req (i_id i) m = Some q ->
                              (forall rsp, o_resp (inst_step cfg t ds i) = Some rsp -> c03_resp q rsp = true) /\
                              sreq (o_state (inst_step cfg t ds i)) q).
  { intros i q Hi Hq. pose proof (HR i q Hi Hq) as Hs. pose proof (proj1 (Forall_forall _ _) HI i Hi) as [Hst [_ Hexp]].
    unfold inst_step. destruct (i_st i) as [k n|fk sl wk|] eqn:Es; cbn [run_inst].
    - destruct (find (fun d => Nat.eqb (fst d) n) (deliveries_for (i_id i) ds)) as [[n' c]|] eqn:F.
      + apply find_some in F. destruct F as [Fin Fe]. cbn in Fe. apply Nat.eqb_eq in Fe. subst n'.
        apply deliveries_for_in in Fin. destruct (Hdel _ _ _ Fin) as [p [Hp [Hid [Hn Hrdy]]]].
        pose proof (proj1 (Forall_forall _ _) HP p Hp) as Hpk. unfold pend_ok in Hpk. rewrite Hrdy in Hpk.
        destruct (Hexp k n eq_refl) as [_ Hk]. specialize (Hk p Hp Hid Hn).
        cbn. apply resume_req; [exact Hs|eapply c_ok_from; eassumption].
      + cbn. split; [intros rsp Hc; discriminate|exact Hs].
    - (* a fan-out never carries a create / complete request *)
      cbn in Hs. split.
      + intros rsp _. destruct q; try reflexivity; discriminate.
      + destruct (o_state (run_fan cfg fk sl wk (deliveries_for (i_id i) ds) t (i_next i))); cbn; try exact I; try exact Hs.
        destruct q; cbn; try exact I; discriminate.
    - cbn. split; [intros rsp Hc; discriminate|exact I]. }
  split.
  - (* the invariant for the instances after the tick *)
    intros i' q Hi' Hq. cbn [s_insts] in Hi'. apply in_app_or in Hi'. destruct Hi' as [Hi'|Hi'].
    + pose proof (run_insts_spec cfg t (s_group s) ds (s_insts s)) as R. rewrite E1 in R. destruct R as [A _].
      destruct (A i' Hi') as [i [Hi [Hid [Hst _]]]]. rewrite Hid in Hq. rewrite Hlive in Hq by exact Hi.
      rewrite Hst. exact (proj2 (Hstep i q Hi Hq)).
    + pose proof (start_insts_spec starts (s_group s)) as R. rewrite E2 in R. destruct R as [A _].
      destruct (A i' Hi') as [o [Hin [Hst _]]]. unfold starts in Hin. apply in_app_or in Hin. destruct Hin as [Hin|Hin];
        apply in_map_iff in Hin; destruct Hin as [y [Hy Hin]]; injection Hy as Hid Ho.
      * rewrite <- Hid in Hq. rewrite lookup_ext_bg in Hq by (apply in_map; exact Hin). discriminate.
      * assert (Hnb : ~ In (fst y) (map fst bgs)).
        { intros Hc. apply (Hdisj _ Hc). apply in_map. exact Hin. }
        rewrite <- Hid in Hq. rewrite (lookup_ext_arr bgs arr m (fst y) (snd y) Hnb Na) in Hq by (destruct y; exact Hin).
        inversion Hq; subst q. rewrite Hst, <- Ho. exact (proj1 (start_req_sreq (snd y) t)).
  - (* no violation *)
    apply flat_map_nil. intros x Hx. apply in_app_or in Hx. destruct Hx as [Hx|Hx].
    + pose proof (run_insts_obs cfg t (s_group s) ds (s_insts s) x) as R. rewrite E1 in R. destruct (R Hx) as [i [Hi Hin]].
      destruct (inst_obs_cases _ _ _ Hin) as [-> _]. destruct (visible_resp (o_resp (inst_step cfg t ds i))) as [rsp|] eqn:Ev; [|reflexivity].
      rewrite Hlive by exact Hi. destruct (lookup_req (i_id i) m) as [q|] eqn:Eq; [|reflexivity].
      rewrite (proj1 (Hstep i q Hi Eq) rsp (visible_some _ _ Ev)). reflexivity.
    + pose proof (start_insts_obs starts (s_group s) x) as R. rewrite E2 in R. destruct (R Hx) as [id [o [Hin Hobs]]].
      destruct (inst_obs_cases _ _ _ Hobs) as [-> _]. destruct (visible_resp (o_resp o)) as [rsp|] eqn:Ev; [|reflexivity].
      unfold starts in Hin. apply in_app_or in Hin. destruct Hin as [Hin|Hin]; apply in_map_iff in Hin; destruct Hin as [y [Hy Hin]]; injection Hy as Hid Ho.
      * rewrite <- Hid. rewrite lookup_ext_bg by (apply in_map; exact Hin). reflexivity.
      * assert (Hnb : ~ In (fst y) (map fst bgs)).
        { intros Hc. apply (Hdisj _ Hc). apply in_map. exact Hin. }
        rewrite <- Hid. rewrite (lookup_ext_arr bgs arr m (fst y) (snd y) Hnb Na) by (destruct y; exact Hin).
        destruct (is_cc (snd y)) eqn:Ecc.
        -- rewrite <- Ho in Ev. rewrite (proj2 (start_req_sreq (snd y) t) Ecc) in Ev. discriminate.
        -- destruct (snd y); try reflexivity; discriminate.
Qed.

Definition Inv301 (m : rmap) (s : sys) : Prop := SInv s /\ RInv m s.

Lemma r301_step : forall cfg m s d s' ob,
    Inv301 m s -> dir_wf d -> step cfg s d = Some (s', ob) ->
    Inv301 (fst (h301 m (s_now s) (s_db s) d ob)) s' /\ snd (h301 m (s_now s) (s_db s) d ob) = [].
Proof.
  intros cfg m s d s' ob [HS HR] Hwf H. pose proof (SInv_step cfg s d s' ob HS Hwf H) as HS'.
  destruct d.
  - destruct (r301_tick cfg s t deliver bgs arrive s' ob m HS HR Hwf H) as [A B]. split; [split; assumption|exact B].
  - cbn. split; [split; [exact HS'|]|reflexivity]. cbn in H.
    destruct (batch_txns batch (s_pend s)); [|discriminate]. destruct (negb (nodup_items batch)); [discriminate|].
    destruct (c_fifo cfg && negb (fifo_ok batch (s_pend s))); [discriminate|].
    destruct (exec_batch (s_db s) l) as [[d' rss]|]; inversion H; subst; exact HR.
  - cbn. split; [split; [exact HS'|]|reflexivity]. cbn in H. destruct (find_pend id n (s_pend s)); [|discriminate].
    destruct (unready p); inversion H; subst; exact HR.
  - cbn. split; [split; [exact HS'|]|reflexivity]. cbn in H. destruct (find_pend id n (s_pend s)); [|discriminate].
    destruct (pd_sub p); try discriminate. destruct (pd_ready p); inversion H; subst; exact HR.
  - cbn. split; [split; [exact HS'|]|reflexivity]. cbn in H. destruct (find_pend id n (s_pend s)); [|discriminate].
    destruct (pd_sub p); try discriminate. destruct (pd_ready p); inversion H; subst; exact HR.
  - cbn. split; [split; [exact HS'|]|reflexivity]. cbn in H. inversion H; subst. intros i q [].
Qed.

Theorem C03a_trace : forall cfg sch, sch_wf sch -> C03a_mon (events cfg sch) = [].
Proof.
  intros cfg sch Hw. unfold C03a_mon, events.
  apply (hmon_from_sound cfg rmap h301 Inv301 dir_wf) with (m := []) (s := sys0 db0) (i := 0%nat).
  - intros m s d s' ob HI Hd Hs. eapply r301_step; eassumption.
  - split; [apply SInv_init|intros i q []].
  - exact Hw.
Qed.
