(* C02: the requests whose coroutine is ONE store transaction are linearizable by construction: their answer is
   exactly the sequential answer on the database state their transaction ran against (that transaction is the
   linearization point), whatever ran before or after it. *)
From RV Require Import Mon MonC02.

Definition one_shot (q : request) : bool :=
  match q with
  | QAcquireLock _ _ _ _ | QReleaseLock _ _ | QHeartbeatLocks _ | QReadSchedule _ | QDeleteSchedule _ | QHeartbeatTasks _ => true
  | _ => false
  end.

Lemma exec_txn_one : forall d c hs,
    exec_txn d [c] hs = match Store.exec d c (hd None hs) with Some (d1, r) => Some (d1, [r]) | None => None end.
Proof. intros. cbn. destruct (Store.exec d c (hd None hs)) as [[d1 r]|]; reflexivity. Qed.

Lemma seq_go_unfold : forall f cfg d o t rv,
    seq_go (S f) cfg d o t rv =
    match o_resp o with
    | Some r => Some r
    | None => match o_state o, o_subs o with
              | CSeq k n, [s] => match seq_sub d s rv with
                                 | Some (d', c) => seq_go f cfg d' (resume_seq cfg k c t (S n)) t rv
                                 | None => None end
              | _, _ => None end
    end.
Proof. reflexivity. Qed.

Theorem one_shot_linearizable : forall cfg q t n t' next d hs d' rs rv,
    one_shot q = true ->
    exists k c, start_req q t n = out_wait k n (SStore [c]) /\
                (exec_txn d [c] hs = Some (d', rs) ->
                 seq_answer cfg d q t t' rv = o_resp (resume_seq cfg k (CStore rs) t' next) /\
                 o_resp (resume_seq cfg k (CStore rs) t' next) <> None).
Proof.
  intros cfg q t n t' next d hs d' rs rv H.
  destruct q as [| | | | | | | id | | | id | res ex pr ttl | res ex | pr | | | pid]; try discriminate; cbn [start_req];
    eexists; eexists; (split; [reflexivity|]); intros E; rewrite exec_txn_one in E; cbn [Store.exec] in E; unfold alter in E; inversion E; subst; clear E;
    unfold seq_answer; cbn [start_req]; rewrite seq_go_unfold; cbn [o_resp o_state o_subs out_wait]; unfold seq_sub;
    rewrite exec_txn_one; cbn [Store.exec hd]; unfold alter; rewrite seq_go_unfold.
  all: try (split; [reflexivity|discriminate]).
  - unfold ex_read_schedule. destruct (find_schedule id d'); (split; [reflexivity|discriminate]).
  - cbn [resume_seq one_alter]. destruct (snd (ex_acquire_lock d res ex pr ttl (add64 t ttl)) =? 0); (split; [reflexivity|discriminate]).
Qed.
