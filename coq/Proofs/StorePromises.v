(* Store lemmas about the promises table: for ARBITRARY accepted commands, a promise row only ever grows
   (creation fields immutable, completion write-once) and ids stay unique. *)
From RV Require Import Mon.
From RV Require Import StoreLocks.
From Coq Require Import Lia.

(* the util.Assert preconditions of the store worker (a command that violates them panics the worker and is
   the subject of C13, not of the data properties) *)
Definition final_state (s : Z) : bool := (s =? Resolved) || (s =? Rejected) || (s =? Canceled) || (s =? Timedout).
Definition accepts (c : command) : bool :=
  match c with
  | UpdatePromise u => final_state (up_state u)
  | _ => true
  end.

(* a promise is only ever completed by the four-command completion transaction, in one atomic step; its four
   commands never occur on their own *)
Definition is_up (c : command) : bool :=
  match c with UpdatePromise _ | CompleteTasks _ _ | CreateTasks _ _ | DeleteCallbacks _ => true | _ => false end.
Definition txn_shape (cs : list command) : Prop :=
  (exists u t, cs = completion_txn u t) \/ Forall (fun c => is_up c = false) cs.

Definition creation_eq (p q : promise) : Prop :=
  p_id p = p_id q /\ p_sort p = p_sort q /\ p_ph p = p_ph q /\ p_pd p = p_pd q /\ p_timeout p = p_timeout q /\
  p_ikc p = p_ikc q /\ p_tags p = p_tags q /\ p_created p = p_created q.

Definition row_le (p q : promise) : Prop :=
  creation_eq p q /\
  (p_state p <> Pending -> q = p) /\
  (p_state p = Pending -> q = p \/ (final_state (p_state q) = true /\ p_completed q <> None)).

Definition prom_uniq (d : db) : Prop := NoDup (map p_id (promises d)).

Definition fresh_row (q : promise) : Prop :=
  p_state q = Pending /\ p_vh q = [] /\ p_vd q = EmptyString /\ p_iku q = None /\ p_completed q = None.

(* a row that did not exist before: created pending with no value, possibly completed (once) since *)
Definition new_ok (q : promise) : Prop :=
  fresh_row q \/ (final_state (p_state q) = true /\ p_completed q <> None).

Definition prom_le (d d' : db) : Prop :=
  (forall p, In p (promises d) -> exists q, In q (promises d') /\ row_le p q) /\
  (forall q, In q (promises d') -> (exists p, In p (promises d) /\ row_le p q) \/
                                   (new_ok q /\ find_promise (p_id q) d = None)).

Lemma creation_eq_refl : forall p, creation_eq p p.
Proof. intros p. unfold creation_eq. tauto. Qed.

Lemma row_le_refl : forall p, row_le p p.
Proof. intros p. split; [apply creation_eq_refl|]. split; intros; tauto. Qed.

Lemma final_not_pending : forall s, final_state s = true -> s <> Pending.
Proof.
  intros s H. unfold final_state, Resolved, Rejected, Canceled, Timedout, Pending in *.
  intros ->. cbn in H. discriminate.
Qed.

Lemma row_le_trans : forall p q r, row_le p q -> row_le q r -> row_le p r.
Proof.
  intros p q r [C1 [N1 P1]] [C2 [N2 P2]]. split.
  - unfold creation_eq in *. destruct C1 as (a&b&c&d&e&f&g&h), C2 as (a'&b'&c'&d'&e'&f'&g'&h'). repeat split; congruence.
  - split.
    + intros Hn. rewrite (N1 Hn) in *. apply N2. exact Hn.
    + intros Hp. destruct (P1 Hp) as [->|[Hf Hc]]; [apply P2; exact Hp|].
      right. rewrite (N2 (final_not_pending _ Hf)). tauto.
Qed.

Lemma prom_le_refl : forall d, prom_le d d.
Proof. intros d. split; intros x Hx; [|left]; exists x; split; [assumption|apply row_le_refl|assumption|apply row_le_refl]. Qed.

Lemma find_promise_in : forall id ps p, find (fun p => String.eqb (p_id p) id) ps = Some p -> In p ps /\ p_id p = id.
Proof.
  induction ps as [|x ps IH]; cbn; intros p H; [discriminate|].
  destruct (String.eqb (p_id x) id) eqn:E; [inversion H; subst; apply String.eqb_eq in E; tauto|].
  destruct (IH p H); tauto.
Qed.

Lemma find_promise_none : forall id ps, find (fun p => String.eqb (p_id p) id) ps = None -> ~ In id (map p_id ps).
Proof.
  induction ps as [|x ps IH]; cbn; intros H; [tauto|].
  destruct (String.eqb (p_id x) id) eqn:E; [discriminate|]. apply String.eqb_neq in E.
  intros [H1|H1]; [congruence|]. apply IH; assumption.
Qed.

Lemma find_promise_none_in : forall id ps p, find (fun p => String.eqb (p_id p) id) ps = None -> In p ps -> p_id p <> id.
Proof.
  intros id ps p H Hin E. apply (find_promise_none id ps H). rewrite <- E. apply in_map. exact Hin.
Qed.

Lemma find_promise_uniq : forall ps p, NoDup (map p_id ps) -> In p ps -> find (fun x => String.eqb (p_id x) (p_id p)) ps = Some p.
Proof.
  induction ps as [|x ps IH]; cbn; intros p U Hin; [contradiction|]. inversion U; subst.
  destruct Hin as [->|Hin].
  - rewrite String.eqb_refl. reflexivity.
  - destruct (String.eqb (p_id x) (p_id p)) eqn:E.
    + apply String.eqb_eq in E. exfalso. apply H1. rewrite E. apply in_map. exact Hin.
    + apply IH; assumption.
Qed.

(* ---------- frame: commands that leave the promises table alone ---------- *)

Definition is_promise_write (c : command) : bool :=
  match c with
  | CreatePromise _ | UpdatePromise _ | CreatePromiseAndTask _ _ => true
  | _ => false
  end.

Lemma ct_promises d c : promises (fst (ex_create_task d c)) = promises d.
Proof. unfold ex_create_task. destruct (find_task _ _); reflexivity. Qed.
Lemma cs_promises d c : promises (fst (ex_create_schedule d c)) = promises d.
Proof. unfold ex_create_schedule. destruct (find_schedule _ _); reflexivity. Qed.
Lemma cc_promises d c : promises (fst (ex_create_callback d c)) = promises d.
Proof. unfold ex_create_callback. destruct (_ && _); reflexivity. Qed.
Lemma cts_promises d pid cr x : ex_create_tasks d pid cr = Some x -> promises (fst x) = promises d.
Proof. unfold ex_create_tasks. destruct (existsb _ _); [discriminate|]. intros H; inversion H; reflexivity. Qed.
Lemma acq_promises d a b c e f : promises (fst (ex_acquire_lock d a b c e f)) = promises d.
Proof. unfold ex_acquire_lock. destruct (find_lock _ _); [destruct (String.eqb _ _)|]; reflexivity. Qed.

Lemma exec_promises_frame : forall d c h d' r, exec d c h = Some (d', r) -> is_promise_write c = false -> promises d' = promises d.
Proof.
  intros d c h d' r H Hw. destruct c; cbn in Hw; try discriminate; cbn in H; unfold alter in H;
    try (inversion H; subst; reflexivity).
  - destruct (ex_search_promises _ _ _ _ _ _); inversion H; reflexivity.
  - inversion H; subst. apply cc_promises.
  - destruct (ex_search_schedules _ _ _ _ _); inversion H; reflexivity.
  - inversion H; subst. apply cs_promises.
  - destruct (ex_read_enqueueable _ _ _); inversion H; reflexivity.
  - inversion H; subst. apply ct_promises.
  - destruct (ex_create_tasks d pid created) as [x|] eqn:E; [|discriminate]. inversion H; subst.
    eapply cts_promises; eassumption.
  - inversion H; subst. apply acq_promises.
Qed.

(* ---------- the three writers ---------- *)

Lemma prom_le_same_promises : forall d d1 d2, promises d1 = promises d2 -> prom_le d d2 -> prom_le d d1.
Proof. intros d d1 d2 E [H1 H2]. split; intros x Hx; rewrite E in *; auto. Qed.

Lemma prom_le_left : forall d0 d d', promises d0 = promises d -> prom_le d d' -> prom_le d0 d'.
Proof.
  intros d0 d d' E [H1 H2]. split.
  - intros p Hp. rewrite E in Hp. auto.
  - intros q Hq. destruct (H2 q Hq) as [[p [Hp L]]|[F N]]; [left; exists p; rewrite E; tauto|right].
    split; [exact F|]. unfold find_promise in *. rewrite E. exact N.
Qed.



Lemma create_promise_le : forall d c, prom_uniq d ->
    prom_le d (fst (ex_create_promise d c)) /\ prom_uniq (fst (ex_create_promise d c)).
Proof.
  intros d c U. unfold ex_create_promise. destruct (find_promise (cp_id c) d) as [p|] eqn:F; cbn.
  - split; [|exact U]. eapply prom_le_same_promises; [|apply prom_le_refl]. reflexivity.
  - split.
    + split.
      * intros p Hp. exists p. split; [apply in_or_app; tauto|apply row_le_refl].
      * intros q Hq. apply in_app_or in Hq. destruct Hq as [Hq|[Hq|[]]].
        -- left. exists q. split; [assumption|apply row_le_refl].
        -- right. subst q. cbn. split; [left; unfold fresh_row; cbn; tauto|exact F].
    + unfold prom_uniq in *. cbn. rewrite map_app. cbn.
      pose proof (find_promise_none _ _ F) as Hn. clear F. revert U Hn. generalize (map p_id (promises d)) as xs.
      induction xs as [|x xs IH]; cbn; intros U Hn; [constructor; [tauto|constructor]|].
      inversion U; subst. constructor.
      * rewrite in_app_iff. cbn. intros [Hx|[Hx|[]]]; [tauto|]. apply Hn. left; congruence.
      * apply IH; [assumption|tauto].
Qed.

Lemma update_promise_le : forall d c, final_state (up_state c) = true ->
    prom_le d (fst (ex_update_promise d c)) /\ (prom_uniq d -> prom_uniq (fst (ex_update_promise d c))).
Proof.
  intros d c Hf. unfold ex_update_promise; cbn. split.
  - split.
    + intros p Hp. exists (if upd_guard c p then complete_p c p else p). split.
      * apply in_map_iff. exists p. tauto.
      * destruct (upd_guard c p) eqn:G; [|apply row_le_refl].
        unfold upd_guard in G. apply andb_true_iff in G. destruct G as [_ G]. apply Z.eqb_eq in G.
        split; [unfold creation_eq; cbn; tauto|]. split.
        -- intros Hn. unfold Pending in Hn. contradiction.
        -- intros _. right. cbn. split; [exact Hf|discriminate].
    + intros q Hq. left. apply in_map_iff in Hq. destruct Hq as [p [Hq Hp]]. exists p. split; [exact Hp|]. subst q.
      destruct (upd_guard c p) eqn:G; [|apply row_le_refl].
      unfold upd_guard in G. apply andb_true_iff in G. destruct G as [_ G]. apply Z.eqb_eq in G.
      split; [unfold creation_eq; cbn; tauto|]. split.
      * intros Hn. unfold Pending in Hn. contradiction.
      * intros _. right. cbn. split; [exact Hf|discriminate].
  - unfold prom_uniq. cbn. intros U. rewrite map_map.
    erewrite map_ext; [exact U|]. intros p. destruct (upd_guard c p); reflexivity.
Qed.

Lemma cpt_promises : forall d pc tc, promises (fst (ex_create_promise_and_task d pc tc)) = promises (fst (ex_create_promise d pc)).
Proof.
  intros d pc tc. unfold ex_create_promise_and_task. destruct (ex_create_promise d pc) as [d1 pr] eqn:E. cbn.
  destruct (pr =? 0); cbn; [reflexivity|].
  pose proof (ct_promises d1 tc) as H. destruct (ex_create_task d1 tc) as [d2 tr]. cbn in *. exact H.
Qed.

Lemma exec_prom_le : forall d c h d' r,
    prom_uniq d -> accepts c = true -> exec d c h = Some (d', r) -> prom_le d d' /\ prom_uniq d'.
Proof.
  intros d c h d' r U A H. destruct (is_promise_write c) eqn:W.
  - destruct c; cbn in W; try discriminate; cbn in H; unfold alter in H.
    + inversion H; subst. apply create_promise_le; exact U.
    + inversion H; subst. cbn in A. destruct (update_promise_le d c A) as [L K]. split; [exact L|apply K; exact U].
    + pose proof (cpt_promises d pc tc) as E. destruct (ex_create_promise_and_task d pc tc) as [d1 [pr tr]].
      inversion H; subst. cbn in E. destruct (create_promise_le d pc U) as [L K]. split.
      * eapply prom_le_same_promises; eassumption.
      * unfold prom_uniq in *. rewrite E. exact K.
  - pose proof (exec_promises_frame _ _ _ _ _ H W) as E. split.
    + eapply prom_le_same_promises; [exact E|apply prom_le_refl].
    + unfold prom_uniq. rewrite E. exact U.
Qed.

Lemma prom_le_trans : forall d1 d2 d3, prom_uniq d1 -> prom_uniq d2 -> prom_le d1 d2 -> prom_le d2 d3 -> prom_le d1 d3.
Proof.
  intros d1 d2 d3 U1 U2 [A1 B1] [A2 B2]. split.
  - intros p Hp. destruct (A1 p Hp) as [q [Hq L1]]. destruct (A2 q Hq) as [r [Hr L2]].
    exists r. split; [exact Hr|eapply row_le_trans; eassumption].
  - intros r Hr. destruct (B2 r Hr) as [[q [Hq L2]]|[F N]].
    + destruct (B1 q Hq) as [[p [Hp L1]]|[Fq Nq]].
      * left. exists p. split; [exact Hp|eapply row_le_trans; eassumption].
      * right. destruct L2 as [C [Nn Pp]]. destruct C as [Cid _]. rewrite <- Cid. split; [|exact Nq].
        destruct Fq as [(s1&s2&s3&s4&s5)|[Hf Hc]].
        -- destruct (Pp s1) as [->|[Hf Hc]]; [left; unfold fresh_row; tauto|right; tauto].
        -- rewrite (Nn (final_not_pending _ Hf)). right; tauto.
    + right. split; [exact F|]. destruct (find_promise (p_id r) d1) as [p|] eqn:E; [|reflexivity].
      exfalso. destruct (find_promise_in _ _ _ E) as [Hp Hid]. destruct (A1 p Hp) as [q [Hq [C _]]].
      apply (find_promise_none_in _ _ q N Hq). destruct C as [Ci _]. congruence.
Qed.
