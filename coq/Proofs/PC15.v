(* C15 (second half): the two front-end models translate every well-formed logical request into the same kernel
   request, and that request is the one the client meant. *)
From RV Require Import Equiv.
From Coq Require Import Lia.
Arguments cron_good : simpl never.
Arguments nonempty : simpl never.

Lemma guard_some : forall b q q', guard b q = Some q' -> b = true /\ q' = q.
Proof. intros b q q' H. unfold guard in H. destruct b; [inversion H; auto|discriminate]. Qed.

Lemma guard_true : forall q, guard true q = Some q.
Proof. reflexivity. Qed.

Lemma cron_good_nonempty : forall c, cron_good c = true -> nonempty c = true.
Proof.
  intros c H. unfold nonempty. destruct (String.eqb c "") eqn:E; [|reflexivity].
  apply String.eqb_eq in E. subst c. vm_compute in H. discriminate.
Qed.

Ltac bools :=
  repeat match goal with
         | H : _ && _ = true |- _ => apply andb_true_iff in H; destruct H
         | |- _ && _ = true => apply andb_true_iff; split
         end.

(* everything the HTTP front end lets through, the gRPC front end translates identically *)
Theorem http_implies_grpc : forall l q, http_front l = Some q -> grpc_front l = Some q.
Proof.
  intros [q0 cbid|idq st tags lim|idq tags lim] q H; cbn in *; [|exact H|exact H].
  destruct q0; cbn in *; try discriminate; apply guard_some in H; destruct H as [Hb Hq]; subst q; bools;
    repeat match goal with H : ?x = true |- context [?x] => rewrite H end; cbn; try reflexivity.
Qed.

(* the HTTP front end accepts exactly the well-formed logical requests *)
Theorem http_accepts_iff_wf : forall l, lreq_wf l = true <-> http_front l <> None.
Proof.
  intros [q0 cbid|idq st tags lim|idq tags lim]; cbn.
  - destruct q0; cbn; unfold guard;
      try (split; [intro H; rewrite H; discriminate|intro H; match goal with |- ?b = true => destruct b; [reflexivity|exfalso; apply H; reflexivity] end]);
      try (split; [discriminate|intro H; exfalso; apply H; reflexivity]).
    (* create schedule: a valid cron is non-empty *)
    split.
    + intro H. bools. rewrite (cron_good_nonempty _ H0). repeat match goal with H : ?x = true |- context [?x] => rewrite H end. discriminate.
    + intro H. destruct (nonempty (csr_id r)); cbn in *; [|exfalso; apply H; reflexivity].
      destruct (nonempty (csr_cron r)); cbn in *; [|exfalso; apply H; reflexivity].
      destruct (nonempty (csr_pid r)); cbn in *; [|exfalso; apply H; reflexivity].
      destruct (cron_good (csr_cron r)); cbn in *; [reflexivity|exfalso; apply H; reflexivity].
  - unfold helper_search_p, search_states, search_limit. split.
    + intro H. bools. rewrite H. cbn.
      assert (st = 0 \/ st = 1 \/ st = 2 \/ st = 3) as Hs by lia.
      assert ((if lim =? 0 then 100 else lim) <? 1 = false /\ (100 <? (if lim =? 0 then 100 else lim)) = false) as [L1 L2]
          by (destruct (lim =? 0) eqn:E; lia).
      rewrite L1, L2. destruct Hs as [Hs|[Hs|[Hs|Hs]]]; subst st; cbn; discriminate.
    + intro H. destruct (nonempty idq); cbn in *; [|exfalso; apply H; reflexivity].
      destruct (st =? 0) eqn:E0; [|destruct (st =? 1) eqn:E1; [|destruct (st =? 2) eqn:E2; [|destruct (st =? 3) eqn:E3; [|exfalso; apply H; reflexivity]]]];
        (destruct ((if lim =? 0 then 100 else lim) <? 1) eqn:L1; cbn in H; [exfalso; apply H; reflexivity|];
         destruct (100 <? (if lim =? 0 then 100 else lim)) eqn:L2; cbn in H; [exfalso; apply H; reflexivity|];
         destruct (lim =? 0) eqn:EL; lia).
  - unfold helper_search_s, search_limit. split.
    + intro H. bools. rewrite H. cbn.
      assert ((if lim =? 0 then 100 else lim) <? 1 = false /\ (100 <? (if lim =? 0 then 100 else lim)) = false) as [L1 L2]
          by (destruct (lim =? 0) eqn:E; lia).
      rewrite L1, L2. cbn. discriminate.
    + intro H. destruct (nonempty idq); cbn in *; [|exfalso; apply H; reflexivity].
      destruct ((if lim =? 0 then 100 else lim) <? 1) eqn:L1; cbn in H; [exfalso; apply H; reflexivity|].
      destruct (100 <? (if lim =? 0 then 100 else lim)) eqn:L2; cbn in H; [exfalso; apply H; reflexivity|].
      destruct (lim =? 0) eqn:EL; lia.
Qed.

(* C15: equivalent requests are translated into the same kernel request *)
Theorem front_equiv : forall l, lreq_wf l = true -> exists q, http_front l = Some q /\ grpc_front l = Some q.
Proof.
  intros l H. apply http_accepts_iff_wf in H. destruct (http_front l) as [q|] eqn:E; [|contradiction].
  exists q. split; [reflexivity|apply http_implies_grpc; exact E].
Qed.

(* ... and, outside search (where the page size and the state filter are normalised), that request is the logical one *)
Theorem front_is_identity : forall q cbid q', http_front (LReq q cbid) = Some q' \/ grpc_front (LReq q cbid) = Some q' -> q' = q.
Proof.
  intros q cbid q' [H|H]; cbn in H; destruct q; try discriminate; try (apply guard_some in H; tauto); inversion H; reflexivity.
Qed.

(* search: the kernel request both front ends submit *)
Theorem front_search_p : forall idq st tags lim q,
    http_front (LSearchP idq st tags lim) = Some q \/ grpc_front (LSearchP idq st tags lim) = Some q ->
    exists sts, search_states st = Some sts /\ q = QSearchPromises idq sts tags (if lim =? 0 then 100 else lim) None /\ nonempty idq = true /\
                1 <= (if lim =? 0 then 100 else lim) <= 100.
Proof.
  intros idq st tags lim q H. assert (helper_search_p idq st tags lim = Some q) as H' by (destruct H; exact H). clear H.
  unfold helper_search_p, search_limit in H'. destruct (nonempty idq); cbn in H'; [|discriminate].
  destruct (search_states st) as [sts|]; [|discriminate].
  destruct ((if lim =? 0 then 100 else lim) <? 1) eqn:L1; cbn in H'; [discriminate|].
  destruct (100 <? (if lim =? 0 then 100 else lim)) eqn:L2; cbn in H'; [discriminate|].
  inversion H'. exists sts. repeat split; lia.
Qed.

(* whatever either front end submits is something the kernel can take (the link to C13) *)
Theorem front_reaches_wf : forall l q, http_front l = Some q \/ grpc_front l = Some q -> req_wf_b q = true.
Proof.
  intros l q H. assert (grpc_front l = Some q) as G by (destruct H as [H|H]; [apply http_implies_grpc; exact H|exact H]). clear H.
  destruct l as [q0 cbid|idq st tags lim|idq tags lim]; cbn in G.
  - destruct q0; try discriminate; try (inversion G; subst; reflexivity); apply guard_some in G; destruct G as [Hb ->]; unfold req_wf_b, req_asserts; bools;
      repeat match goal with H : ?x = true |- context [?x] => rewrite H end; try reflexivity.
  - unfold helper_search_p, search_limit in G. destruct (nonempty idq) eqn:N; cbn in G; [|discriminate].
    destruct (search_states st); [|discriminate].
    destruct ((if lim =? 0 then 100 else lim) <? 1) eqn:L1; cbn in G; [discriminate|].
    destruct (100 <? (if lim =? 0 then 100 else lim)) eqn:L2; cbn in G; [discriminate|]. inversion G; subst.
    unfold req_wf_b, req_asserts. rewrite N. cbn. rewrite andb_true_r. lia.
  - unfold helper_search_s, search_limit in G. destruct (nonempty idq) eqn:N; cbn in G; [|discriminate].
    destruct ((if lim =? 0 then 100 else lim) <? 1) eqn:L1; cbn in G; [discriminate|].
    destruct (100 <? (if lim =? 0 then 100 else lim)) eqn:L2; cbn in G; [discriminate|]. inversion G; subst.
    unfold req_wf_b, req_asserts. rewrite N. cbn. rewrite andb_true_r. lia.
Qed.
