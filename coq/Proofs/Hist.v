(* Soundness scheme for monitors with state: an invariant relating the monitor state to the system state, preserved
   by every step under which the monitor reports nothing, makes the monitor empty on the trace of every schedule. *)
From RV Require Import Mon Framework.
From Coq Require Import Lia.

(* ---------- monitors with state ---------- *)
Section HSound.
  Variable cfg : config.
  Variable M : Type.
  Variable hstep : M -> Z -> db -> directive -> list obs -> M * list Z.

  Variable Inv : M -> sys -> Prop.
  Variable dir_ok : directive -> Prop.
  Hypothesis step_ok : forall m s d s' ob,
      Inv m s -> dir_ok d -> step cfg s d = Some (s', ob) ->
      Inv (fst (hstep m (s_now s) (s_db s) d ob)) s' /\ snd (hstep m (s_now s) (s_db s) d ob) = [].

  Lemma hmon_from_sound : forall sch m s i,
      Inv m s -> Forall dir_ok sch -> hmon_from M hstep m (s_now s) (s_db s) i (events_from cfg s sch) = [].
  Proof.
    induction sch as [|d sch IH]; intros m s i HI Hd; cbn; [reflexivity|]. inversion Hd; subst.
    destruct (step cfg s d) as [[s' ob]|] eqn:E; cbn; [|reflexivity].
    destruct (step_ok m s d s' ob HI H1 E) as [HI' Hc].
    destruct (hstep m (s_now s) (s_db s) d ob) as [m' vs]. cbn in HI', Hc. subst vs. cbn.
    rewrite <- (step_now cfg s d s' ob E), <- (step_db cfg s d s' ob E). apply IH; assumption.
  Qed.
End HSound.

