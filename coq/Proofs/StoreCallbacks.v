(* Store lemmas about callbacks and tasks: registrations live only on pending promises, and the completion
   transaction converts every registration into exactly one task in one atomic step. *)
From RV Require Import Mon StoreLocks StorePromises.
From Coq Require Import Lia.

(* ---------- insertion sort facts ---------- *)

Lemma insert_by_in : forall {A} (le : A -> A -> bool) x l y, In y (insert_by le x l) <-> y = x \/ In y l.
Proof.
  intros A le x l y. induction l as [|z l IH]; cbn; [intuition|].
  destruct (le x z); cbn; [intuition|]. rewrite IH. intuition.
Qed.

Lemma sort_by_in : forall {A} (le : A -> A -> bool) l y, In y (sort_by le l) <-> In y l.
Proof.
  intros A le l y. unfold sort_by. induction l as [|x l IH]; cbn; [tauto|]. rewrite insert_by_in, IH. intuition.
Qed.

Lemma insert_by_nodup : forall {A B} (f : A -> B) (le : A -> A -> bool) x l,
    NoDup (map f l) -> ~ In (f x) (map f l) -> NoDup (map f (insert_by le x l)).
Proof.
  intros A B f le x l. induction l as [|z l IH]; cbn; intros U Hn; [constructor; [tauto|constructor]|].
  inversion U; subst. destruct (le x z); cbn.
  - constructor; [cbn; exact Hn|exact U].
  - constructor.
    + intros Hin. apply in_map_iff in Hin. destruct Hin as [w [Hw Hin]]. apply insert_by_in in Hin. destruct Hin as [->|Hin].
      * apply Hn. left. congruence.
      * apply H1. rewrite <- Hw. apply in_map. exact Hin.
    + apply IH; [assumption|]. intros Hin. apply Hn. right. exact Hin.
Qed.

Lemma sort_by_nodup : forall {A B} (f : A -> B) (le : A -> A -> bool) l, NoDup (map f l) -> NoDup (map f (sort_by le l)).
Proof.
  intros A B f le l. unfold sort_by. induction l as [|x l IH]; cbn; intros U; [constructor|]. inversion U; subst.
  apply insert_by_nodup; [apply IH; assumption|]. intros Hin. apply H1. apply in_map_iff in Hin.
  destruct Hin as [w [Hw Hin]]. apply sort_by_in in Hin. rewrite <- Hw. apply in_map. exact Hin.
Qed.

Lemma filter_nodup_map : forall {A B} (f : A -> B) (g : A -> bool) l, NoDup (map f l) -> NoDup (map f (filter g l)).
Proof.
  intros A B f g l. induction l as [|x l IH]; cbn; intros U; [constructor|]. inversion U; subst.
  destruct (g x); cbn; [constructor|]; auto.
  intros Hin. apply H1. apply in_map_iff in Hin. destruct Hin as [y [Hy Hin]]. apply filter_In in Hin.
  apply in_map_iff. exists y; tauto.
Qed.

(* ---------- the invariant ---------- *)

Definition cb_uniq (d : db) : Prop := NoDup (map cb_id (callbacks d)).
Definition task_uniq (d : db) : Prop := NoDup (map t_id (tasks d)).
Definition cb_pending (d : db) : Prop :=
  forall c, In c (callbacks d) -> exists p, In p (promises d) /\ p_id p = cb_pid c /\ p_state p = Pending.
Definition CbInv (d : db) : Prop := prom_uniq d /\ cb_uniq d /\ task_uniq d /\ cb_pending d.

Lemma CbInv_init : CbInv db0.
Proof. repeat split; try constructor. intros c []. Qed.

(* identity columns of a task never change and a task never disappears *)
Definition tid_eq (t t' : task) : Prop :=
  t_id t = t_id t' /\ t_sort t = t_sort t' /\ t_root t = t_root t' /\ t_recv t = t_recv t' /\ t_mesg t = t_mesg t' /\
  t_timeout t = t_timeout t' /\ t_created t = t_created t'.
Definition task_le (d d' : db) : Prop := forall t, In t (tasks d) -> exists t', In t' (tasks d') /\ tid_eq t t'.

Lemma tid_eq_refl : forall t, tid_eq t t.
Proof. intros t. unfold tid_eq. tauto. Qed.
Lemma task_le_refl : forall d, task_le d d.
Proof. intros d t Ht. exists t. split; [exact Ht|apply tid_eq_refl]. Qed.
Lemma task_le_trans : forall d1 d2 d3, task_le d1 d2 -> task_le d2 d3 -> task_le d1 d3.
Proof.
  intros d1 d2 d3 A B t Ht. destruct (A t Ht) as [t1 [H1 E1]]. destruct (B t1 H1) as [t2 [H2 E2]].
  exists t2. split; [exact H2|]. unfold tid_eq in *. destruct E1 as (a&b&c&e&f&g&h), E2 as (a'&b'&c'&e'&f'&g'&h'). repeat split; congruence.
Qed.

Lemma task_le_map : forall d d' (g : task -> task),
    tasks d' = map g (tasks d) -> (forall t, tid_eq t (g t)) -> task_le d d'.
Proof. intros d d' g E H t Ht. exists (g t). split; [rewrite E; apply in_map; exact Ht|apply H]. Qed.

Lemma task_le_app : forall d d' extra, tasks d' = (tasks d ++ extra)%list -> task_le d d'.
Proof. intros d d' extra E t Ht. exists t. split; [rewrite E; apply in_or_app; tauto|apply tid_eq_refl]. Qed.

Lemma task_le_same : forall d d', tasks d' = tasks d -> task_le d d'.
Proof. intros d d' E t Ht. exists t. split; [rewrite E; exact Ht|apply tid_eq_refl]. Qed.

(* ---------- frames ---------- *)

Definition is_cb_write (c : command) : bool :=
  match c with CreateCallback _ | DeleteCallbacks _ => true | _ => false end.
Definition is_task_write (c : command) : bool :=
  match c with
  | CreateTask _ | CreateTasks _ _ | CompleteTasks _ _ | UpdateTask _ | HeartbeatTasks _ _ | CreatePromiseAndTask _ _ => true
  | _ => false
  end.

Lemma cp_callbacks d c : callbacks (fst (ex_create_promise d c)) = callbacks d.
Proof. unfold ex_create_promise. destruct (find_promise _ _); reflexivity. Qed.
Lemma ct_callbacks d c : callbacks (fst (ex_create_task d c)) = callbacks d.
Proof. unfold ex_create_task. destruct (find_task _ _); reflexivity. Qed.
Lemma cs_callbacks d c : callbacks (fst (ex_create_schedule d c)) = callbacks d.
Proof. unfold ex_create_schedule. destruct (find_schedule _ _); reflexivity. Qed.
Lemma cts_callbacks d pid cr x : ex_create_tasks d pid cr = Some x -> callbacks (fst x) = callbacks d.
Proof. unfold ex_create_tasks. destruct (existsb _ _); [discriminate|]. intros H; inversion H; reflexivity. Qed.
Lemma acq_callbacks d a b c e f : callbacks (fst (ex_acquire_lock d a b c e f)) = callbacks d.
Proof. unfold ex_acquire_lock. destruct (find_lock _ _); [destruct (String.eqb _ _)|]; reflexivity. Qed.
Lemma cpt_callbacks d pc tc : callbacks (fst (ex_create_promise_and_task d pc tc)) = callbacks d.
Proof.
  unfold ex_create_promise_and_task. pose proof (cp_callbacks d pc) as H1.
  destruct (ex_create_promise d pc) as [d1 pr]. cbn in H1. destruct (pr =? 0); cbn; [exact H1|].
  pose proof (ct_callbacks d1 tc) as H2. destruct (ex_create_task d1 tc) as [d2 tr]. cbn in *. congruence.
Qed.

Lemma exec_callbacks_frame : forall d c h d' r, exec d c h = Some (d', r) -> is_cb_write c = false -> callbacks d' = callbacks d.
Proof.
  intros d c h d' r H Hw. destruct c; cbn in Hw; try discriminate; cbn in H; unfold alter in H;
    try (inversion H; subst; reflexivity).
  - destruct (ex_search_promises _ _ _ _ _ _); inversion H; reflexivity.
  - inversion H; subst. apply cp_callbacks.
  - destruct (ex_search_schedules _ _ _ _ _); inversion H; reflexivity.
  - inversion H; subst. apply cs_callbacks.
  - destruct (ex_read_enqueueable _ _ _); inversion H; reflexivity.
  - inversion H; subst. apply ct_callbacks.
  - destruct (ex_create_tasks d pid created) as [x|] eqn:E; [|discriminate]. inversion H; subst. eapply cts_callbacks; eassumption.
  - pose proof (cpt_callbacks d pc tc) as H1. destruct (ex_create_promise_and_task d pc tc) as [d1 [pr tr]]. inversion H; subst. exact H1.
  - inversion H; subst. apply acq_callbacks.
Qed.

Lemma cp_tasks d c : tasks (fst (ex_create_promise d c)) = tasks d.
Proof. unfold ex_create_promise. destruct (find_promise _ _); reflexivity. Qed.
Lemma cs_tasks d c : tasks (fst (ex_create_schedule d c)) = tasks d.
Proof. unfold ex_create_schedule. destruct (find_schedule _ _); reflexivity. Qed.
Lemma cc_tasks d c : tasks (fst (ex_create_callback d c)) = tasks d.
Proof. unfold ex_create_callback. destruct (_ && _); reflexivity. Qed.
Lemma acq_tasks d a b c e f : tasks (fst (ex_acquire_lock d a b c e f)) = tasks d.
Proof. unfold ex_acquire_lock. destruct (find_lock _ _); [destruct (String.eqb _ _)|]; reflexivity. Qed.

Lemma exec_tasks_frame : forall d c h d' r, exec d c h = Some (d', r) -> is_task_write c = false -> tasks d' = tasks d.
Proof.
  intros d c h d' r H Hw. destruct c; cbn in Hw; try discriminate; cbn in H; unfold alter in H;
    try (inversion H; subst; reflexivity).
  - destruct (ex_search_promises _ _ _ _ _ _); inversion H; reflexivity.
  - inversion H; subst. apply cp_tasks.
  - inversion H; subst. apply cc_tasks.
  - destruct (ex_search_schedules _ _ _ _ _); inversion H; reflexivity.
  - inversion H; subst. apply cs_tasks.
  - destruct (ex_read_enqueueable _ _ _); inversion H; reflexivity.
  - inversion H; subst. apply acq_tasks.
Qed.

(* ---------- tasks: ids stay unique, identity columns fixed, nothing disappears ---------- *)

Lemma find_task_none : forall id ts, find (fun t => String.eqb (t_id t) id) ts = None -> ~ In id (map t_id ts).
Proof.
  induction ts as [|x ts IH]; cbn; intros H; [tauto|].
  destruct (String.eqb (t_id x) id) eqn:E; [discriminate|]. apply String.eqb_neq in E.
  intros [H1|H1]; [congruence|]. apply IH; assumption.
Qed.

Lemma NoDup_snoc : forall {A} (l : list A) x, NoDup l -> ~ In x l -> NoDup (l ++ [x]).
Proof.
  induction l as [|y l IH]; cbn; intros x U Hn; [constructor; [tauto|constructor]|]. inversion U; subst. constructor.
  - rewrite in_app_iff. cbn. intros [H|[H|[]]]; [tauto|]. apply Hn. left. congruence.
  - apply IH; [assumption|tauto].
Qed.

Lemma create_task_ok : forall d c, task_uniq d -> task_uniq (fst (ex_create_task d c)) /\ task_le d (fst (ex_create_task d c)).
Proof.
  intros d c U. unfold ex_create_task. destruct (find_task (ct_id c) d) eqn:F; cbn.
  - split; [exact U|apply task_le_same; reflexivity].
  - split; [|eapply task_le_app; reflexivity]. unfold task_uniq. cbn. rewrite map_app. cbn.
    apply NoDup_snoc; [exact U|]. apply find_task_none. exact F.
Qed.

Lemma number_from_ids : forall created cbs n, map t_id (number_from (task_of_cb created) n cbs) = map cb_id cbs.
Proof. induction cbs as [|c cbs IH]; intros n; cbn; [reflexivity|]. rewrite IH. reflexivity. Qed.

Lemma NoDup_app_intro : forall {A} (l1 l2 : list A), NoDup l1 -> NoDup l2 -> (forall x, In x l1 -> ~ In x l2) -> NoDup (l1 ++ l2).
Proof.
  induction l1 as [|x l1 IH]; cbn; intros l2 U1 U2 D; [exact U2|]. inversion U1; subst. constructor.
  - rewrite in_app_iff. intros [H|H]; [contradiction|]. apply (D x (or_introl eq_refl) H).
  - apply IH; [assumption|assumption|]. intros y Hy. apply D. right. exact Hy.
Qed.

Lemma create_tasks_ok : forall d pid created x,
    cb_uniq d -> task_uniq d -> ex_create_tasks d pid created = Some x ->
    task_uniq (fst x) /\ task_le d (fst x) /\
    (forall c, In c (callbacks d) -> cb_pid c = pid ->
               exists t, In t (tasks (fst x)) /\ t_id t = cb_id c /\ t_root t = cb_root c /\ t_recv t = cb_recv c /\
                         t_mesg t = cb_mesg c /\ t_timeout t = cb_timeout c).
Proof.
  intros d pid created x CU TU H. unfold ex_create_tasks in H.
  set (cbs := sort_by cb_le (filter (fun c => String.eqb (cb_pid c) pid) (callbacks d))) in *.
  destruct (existsb (fun c => match find_task (cb_id c) d with Some _ => true | None => false end) cbs) eqn:E; [discriminate|].
  inversion H; subst; clear H. cbn. split; [|split].
  - unfold task_uniq. cbn. rewrite map_app, number_from_ids. apply NoDup_app_intro.
    + exact TU.
    + unfold cbs. apply sort_by_nodup. apply filter_nodup_map. exact CU.
    + intros id Hid Hin. apply in_map_iff in Hin. destruct Hin as [c [Hc Hin]].
      assert (Hf : match find_task (cb_id c) d with Some _ => true | None => false end = false).
      { destruct (find_task (cb_id c) d) eqn:F; [|reflexivity].
        assert (existsb (fun c => match find_task (cb_id c) d with Some _ => true | None => false end) cbs = true); [|congruence].
        apply existsb_exists. exists c. rewrite F. tauto. }
      destruct (find_task (cb_id c) d) eqn:F; [discriminate|]. apply (find_task_none _ _ F). rewrite Hc. exact Hid.
  - eapply task_le_app. reflexivity.
  - intros c Hc Hp. assert (Hin : In c cbs).
    { unfold cbs. apply sort_by_in. apply filter_In. split; [exact Hc|]. apply String.eqb_eq. exact Hp. }
    clear E. revert Hin. generalize (next_t d) as n. generalize cbs as l.
    induction l as [|y l IH]; intros n Hin; [contradiction|]. cbn. destruct Hin as [->|Hin].
    + exists (task_of_cb created c n). split; [apply in_or_app; right; left; reflexivity|]. cbn. tauto.
    + destruct (IH (n + 1) Hin) as [t [Ht Hrest]]. exists t. split; [|exact Hrest].
      apply in_app_or in Ht. apply in_or_app. destruct Ht as [Ht|Ht]; [left; exact Ht|right; right; exact Ht].
Qed.

Lemma map_task_ok : forall d d' (g : task -> task),
    tasks d' = map g (tasks d) -> (forall t, tid_eq t (g t)) -> task_uniq d -> task_uniq d' /\ task_le d d'.
Proof.
  intros d d' g E H U. split; [|eapply task_le_map; eassumption]. unfold task_uniq in *. rewrite E, map_map.
  erewrite map_ext; [exact U|]. intros t. destruct (H t) as [a _]. symmetry. exact a.
Qed.

Lemma exec_task_ok : forall d c h d' r,
    cb_uniq d -> task_uniq d -> exec d c h = Some (d', r) -> task_uniq d' /\ task_le d d'.
Proof.
  intros d c h d' r CU TU H. destruct (is_task_write c) eqn:W.
  - destruct c; cbn in W; try discriminate; cbn in H; unfold alter in H.
    + inversion H; subst. apply create_task_ok; exact TU.
    + destruct (ex_create_tasks d pid created) as [x|] eqn:E; [|discriminate]. inversion H; subst.
      destruct (create_tasks_ok _ _ _ _ CU TU E) as [A [B _]]. tauto.
    + inversion H; subst. eapply map_task_ok; [reflexivity| |exact TU]. intros t. cbn. destruct (ct_guard root t); unfold tid_eq; cbn; repeat split; reflexivity.
    + inversion H; subst. eapply map_task_ok; [reflexivity| |exact TU]. intros t. cbn. destruct (ut_guard c t); unfold tid_eq; cbn; repeat split; reflexivity.
    + inversion H; subst. eapply map_task_ok; [reflexivity| |exact TU]. intros t. cbn. destruct (hb_t_guard pid t); unfold tid_eq; cbn; repeat split; reflexivity.
    + unfold ex_create_promise_and_task in H. pose proof (cp_tasks d pc) as H1.
      destruct (ex_create_promise d pc) as [d1 pr]. cbn in H1. destruct (pr =? 0).
      * inversion H; subst. split; [unfold task_uniq; rewrite H1; exact TU|apply task_le_same; exact H1].
      * assert (TU1 : task_uniq d1) by (unfold task_uniq; rewrite H1; exact TU).
        destruct (create_task_ok d1 tc TU1) as [A B]. destruct (ex_create_task d1 tc) as [d2 tr]. inversion H; subst. cbn in *.
        split; [exact A|]. eapply task_le_trans; [apply task_le_same; exact H1|exact B].
  - pose proof (exec_tasks_frame _ _ _ _ _ H W) as E. split; [unfold task_uniq; rewrite E; exact TU|apply task_le_same; exact E].
Qed.

(* ---------- commands other than UpdatePromise keep the invariant ---------- *)

Lemma exec_promises_incl : forall d c h d' r, exec d c h = Some (d', r) -> is_up c = false ->
                                              forall p, In p (promises d) -> In p (promises d').
Proof.
  intros d c h d' r H Hu p Hp. destruct (is_promise_write c) eqn:W.
  - destruct c; cbn in W, Hu; try discriminate; cbn in H; unfold alter in H.
    + inversion H; subst. unfold ex_create_promise. destruct (find_promise _ _); cbn; [exact Hp|apply in_or_app; tauto].
    + pose proof (cpt_promises d pc tc) as E. destruct (ex_create_promise_and_task d pc tc) as [d1 [pr tr]]. inversion H; subst.
      cbn in E. rewrite E. unfold ex_create_promise. destruct (find_promise _ _); cbn; [exact Hp|apply in_or_app; tauto].
  - rewrite (exec_promises_frame _ _ _ _ _ H W). exact Hp.
Qed.

Lemma not_up_accepts : forall c, is_up c = false -> accepts c = true.
Proof. intros c H. destruct c; cbn in *; try reflexivity; discriminate. Qed.

Lemma exec_cbinv : forall d c h d' r, is_up c = false -> CbInv d -> exec d c h = Some (d', r) ->
    CbInv d' /\ task_le d d' /\ (forall x, In x (callbacks d) -> In x (callbacks d')).
Proof.
  intros d c h d' r Hu [PU [CU [TU CP]]] H.
  destruct (exec_prom_le _ _ _ _ _ PU (not_up_accepts c Hu) H) as [_ PU'].
  destruct (exec_task_ok _ _ _ _ _ CU TU H) as [TU' TL].
  split; [|split; [exact TL|]].
  2:{ destruct (is_cb_write c) eqn:W.
      - destruct c; cbn in W, Hu; try discriminate; cbn in H; unfold alter in H; inversion H; subst.
        unfold ex_create_callback. destruct (_ && _); cbn; intros x Hx; [apply in_or_app; tauto|exact Hx].
      - rewrite (exec_callbacks_frame _ _ _ _ _ H W). auto. }
  split; [exact PU'|]. split; [|split; [exact TU'|]].
  - (* callback ids *)
    destruct (is_cb_write c) eqn:W.
    + destruct c; cbn in W, Hu; try discriminate; cbn in H; unfold alter in H; inversion H; subst; clear H; unfold cb_uniq in *.
      unfold ex_create_callback. destruct (existsb _ (promises d) && negb (existsb (fun x => String.eqb (cb_id x) (cc_id c)) (callbacks d))) eqn:E; cbn; [|exact CU].
        rewrite map_app. cbn. apply NoDup_snoc; [exact CU|]. apply andb_true_iff in E. destruct E as [_ E]. apply negb_true_iff in E.
        intros Hin. apply in_map_iff in Hin. destruct Hin as [x [Hx Hin]].
        assert (existsb (fun x => String.eqb (cb_id x) (cc_id c)) (callbacks d) = true); [|congruence].
        apply existsb_exists. exists x. split; [exact Hin|]. rewrite Hx. apply String.eqb_refl.
    + unfold cb_uniq. rewrite (exec_callbacks_frame _ _ _ _ _ H W). exact CU.
  - (* registrations live on pending promises *)
    pose proof (exec_promises_incl _ _ _ _ _ H Hu) as Inc.
    destruct (is_cb_write c) eqn:W.
    + destruct c; cbn in W, Hu; try discriminate; cbn in H; unfold alter in H; inversion H; subst; clear H; unfold cb_pending in *.
      unfold ex_create_callback in *. destruct (existsb (fun p => String.eqb (p_id p) (cc_pid c) && (p_state p =? 1)) (promises d) && negb (existsb (fun x => String.eqb (cb_id x) (cc_id c)) (callbacks d))) eqn:E; cbn in *.
        -- intros x Hx. apply in_app_or in Hx. destruct Hx as [Hx|[<-|[]]]; [apply CP; exact Hx|].
           apply andb_true_iff in E. destruct E as [E _]. apply existsb_exists in E. destruct E as [p [Hp Hg]].
           apply andb_true_iff in Hg. destruct Hg as [G1 G2]. apply String.eqb_eq in G1. apply Z.eqb_eq in G2.
           exists p. cbn. tauto.
        -- exact CP.
    + unfold cb_pending. rewrite (exec_callbacks_frame _ _ _ _ _ H W). intros x Hx.
      destruct (CP x Hx) as [p [Hp Hrest]]. exists p. split; [apply Inc; exact Hp|exact Hrest].
Qed.

(* ---------- the completion transaction ---------- *)

Definition task_for (c : callback) (t : task) : Prop :=
  t_id t = cb_id c /\ t_root t = cb_root c /\ t_recv t = cb_recv c /\ t_mesg t = cb_mesg c /\ t_timeout t = cb_timeout c.

Lemma task_for_le : forall c t t', task_for c t -> tid_eq t t' -> task_for c t'.
Proof. intros c t t' (a&b&c0&e&f) (a'&_&b'&c'&e'&f'&_). unfold task_for. repeat split; congruence. Qed.

Lemma completion_txn_ok : forall d u t hs d' rs,
    CbInv d -> final_state (up_state u) = true ->
    exec_txn d (completion_txn u t) hs = Some (d', rs) ->
    CbInv d' /\ task_le d d' /\ prom_le d d' /\
    (forall c, In c (callbacks d) -> cb_pid c = up_id u -> exists x, In x (tasks d') /\ task_for c x) /\
    (forall c, In c (callbacks d') <-> (In c (callbacks d) /\ cb_pid c <> up_id u)).
Proof.
  intros d u t hs d' rs [PU [CU [TU CP]]] Hf H. unfold completion_txn in H.
  cbn [exec_txn exec alter] in H. cbn [fst snd ex_update_promise] in H.
  set (d1 := set_promises d (map (fun p => if upd_guard u p then complete_p u p else p) (promises d))) in *.
  cbn [ex_complete_tasks fst snd] in H.
  set (d2 := set_tasks d1 (map (fun x => if ct_guard (up_id u) x then finish_t t x else x) (tasks d1))) in *.
  destruct (ex_create_tasks d2 (up_id u) t) as [[d3 n3]|] eqn:E3; [|discriminate].
  cbn [fst snd ex_delete_callbacks] in H. inversion H; subst; clear H.
  destruct (update_promise_le d u Hf) as [L1 K1]. specialize (K1 PU).
  assert (CU2 : cb_uniq d2) by exact CU.
  assert (TU2 : task_uniq d2).
  { unfold task_uniq, d2, d1. cbn. rewrite map_map. erewrite map_ext; [exact TU|]. intros x. destruct (ct_guard (up_id u) x); reflexivity. }
  destruct (create_tasks_ok d2 (up_id u) t _ CU2 TU2 E3) as [TU3 [TL3 Conv]]. cbn in TU3, TL3, Conv.
  pose proof (cts_promises _ _ _ _ E3) as P3. pose proof (cts_callbacks _ _ _ _ E3) as C3. cbn in P3, C3.
  assert (TL12 : task_le d d2).
  { eapply task_le_map; [reflexivity|]. intros x. cbn. destruct (ct_guard (up_id u) x); unfold tid_eq; cbn; repeat split; reflexivity. }
  split; [|split; [|split; [|split]]].
  - (* invariant *)
    split; [unfold prom_uniq; cbn; rewrite P3; exact K1|]. split; [|split].
    + unfold cb_uniq. cbn. rewrite C3. apply filter_nodup_map. exact CU.
    + unfold task_uniq. cbn. exact TU3.
    + intros c Hc. cbn in Hc. rewrite C3 in Hc. apply filter_In in Hc. destruct Hc as [Hc Hne].
      apply negb_true_iff in Hne. apply String.eqb_neq in Hne.
      destruct (CP c Hc) as [p [Hp [Hid Hst]]]. exists p. cbn. rewrite P3. split; [|tauto].
      unfold d2, d1. cbn. apply in_map_iff. exists p. split; [|exact Hp].
      assert (upd_guard u p = false) as ->; [|reflexivity].
      unfold upd_guard. destruct (String.eqb (p_id p) (up_id u)) eqn:E; [|reflexivity]. apply String.eqb_eq in E. congruence.
  - eapply task_le_trans; [exact TL12|]. intros x Hx. destruct (TL3 x Hx) as [x' [Hx' Ex]]. exists x'. cbn. tauto.
  - eapply prom_le_same_promises; [|exact L1]. cbn. rewrite P3. reflexivity.
  - intros c Hc Hp. destruct (Conv c Hc Hp) as [x [Hx Hrest]]. exists x. cbn. split; [exact Hx|exact Hrest].
  - intros c. cbn. rewrite C3. cbn. rewrite filter_In. split.
    + intros [Hc Hne]. apply negb_true_iff in Hne. apply String.eqb_neq in Hne. tauto.
    + intros [Hc Hne]. split; [exact Hc|]. apply negb_true_iff. apply String.eqb_neq. exact Hne.
Qed.

(* ---------- transactions and batches ---------- *)

(* every registration of d is still registered in d' or has its task in d' *)
Definition conv_ok (d d' : db) : Prop :=
  forall c, In c (callbacks d) -> In c (callbacks d') \/ exists x, In x (tasks d') /\ task_for c x.

Lemma conv_ok_refl : forall d, conv_ok d d.
Proof. intros d c Hc. left. exact Hc. Qed.

Lemma conv_ok_trans : forall d1 d2 d3, conv_ok d1 d2 -> conv_ok d2 d3 -> task_le d2 d3 -> conv_ok d1 d3.
Proof.
  intros d1 d2 d3 A B TL c Hc. destruct (A c Hc) as [H|[x [Hx Hf]]].
  - apply B. exact H.
  - right. destruct (TL x Hx) as [x' [Hx' E]]. exists x'. split; [exact Hx'|eapply task_for_le; eassumption].
Qed.

Lemma exec_cmds_cbinv : forall cs hs d d' rs,
    Forall (fun c => is_up c = false) cs -> CbInv d -> exec_txn d cs hs = Some (d', rs) ->
    CbInv d' /\ task_le d d' /\ prom_le d d' /\ conv_ok d d'.
Proof.
  induction cs as [|c cs IH]; intros hs d d' rs Hu HI H; cbn in H.
  - inversion H; subst. split; [exact HI|]. split; [apply task_le_refl|split; [apply prom_le_refl|apply conv_ok_refl]].
  - inversion Hu as [|? ? H1 H2]; subst. destruct (exec d c (hd None hs)) as [[d1 r]|] eqn:E; [|discriminate].
    destruct (exec_txn d1 cs (tl hs)) as [[d2 rs2]|] eqn:E2; [|discriminate]. inversion H; subst.
    destruct (exec_cbinv _ _ _ _ _ H1 HI E) as [HI1 [TL1 Inc1]].
    destruct (IH _ _ _ _ H2 HI1 E2) as [HI2 [TL2 [PL2 CV2]]].
    destruct (exec_prom_le _ _ _ _ _ (proj1 HI) (not_up_accepts c H1) E) as [PL1 _].
    split; [exact HI2|]. split; [eapply task_le_trans; eassumption|]. split.
    + apply (prom_le_trans d d1 d' (proj1 HI) (proj1 HI1) PL1 PL2).
    + intros x Hx. apply CV2. apply Inc1. exact Hx.
Qed.

Definition txn_ok (cs : list command) : Prop :=
  (exists u t, cs = completion_txn u t /\ final_state (up_state u) = true) \/ Forall (fun c => is_up c = false) cs.

Lemma exec_txn_cbinv : forall cs hs d d' rs,
    txn_ok cs -> CbInv d -> exec_txn d cs hs = Some (d', rs) ->
    CbInv d' /\ task_le d d' /\ prom_le d d' /\ conv_ok d d'.
Proof.
  intros cs hs d d' rs [[u [t [-> Hf]]]|Hu] HI H.
  - destruct (completion_txn_ok _ _ _ _ _ _ HI Hf H) as [HI' [TL [PL [Conv Cbs]]]].
    split; [exact HI'|]. split; [exact TL|]. split; [exact PL|].
    intros c Hc. destruct (String.eqb (cb_pid c) (up_id u)) eqn:E.
    + apply String.eqb_eq in E. right. apply Conv; assumption.
    + apply String.eqb_neq in E. left. apply Cbs. tauto.
  - eapply exec_cmds_cbinv; eassumption.
Qed.

Lemma exec_batch_cbinv : forall txns d d' rss,
    Forall (fun x => txn_ok (fst x)) txns -> CbInv d -> exec_batch d txns = Some (d', rss) ->
    CbInv d' /\ task_le d d' /\ prom_le d d' /\ conv_ok d d'.
Proof.
  induction txns as [|[cs hs] txns IH]; intros d d' rss Ht HI H; cbn in H.
  - inversion H; subst. split; [exact HI|]. split; [apply task_le_refl|split; [apply prom_le_refl|apply conv_ok_refl]].
  - inversion Ht as [|? ? H1 H2]; subst. destruct (exec_txn d cs hs) as [[d1 rs]|] eqn:E; [|discriminate].
    destruct (exec_batch d1 txns) as [[d2 rss2]|] eqn:E2; [|discriminate]. inversion H; subst.
    destruct (exec_txn_cbinv _ _ _ _ _ H1 HI E) as [HI1 [TL1 [PL1 CV1]]].
    destruct (IH _ _ _ H2 HI1 E2) as [HI2 [TL2 [PL2 CV2]]].
    split; [exact HI2|]. split; [eapply task_le_trans; eassumption|]. split.
    + apply (prom_le_trans d d1 d' (proj1 HI) (proj1 HI1) PL1 PL2).
    + eapply conv_ok_trans; eassumption.
Qed.
