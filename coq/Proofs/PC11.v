(* C11: each background cycle makes progress that is bounded below for every batch size >= 1, for every database. *)
From RV Require Import Mon MonC11 StorePromises Eqb.
From Coq Require Import Lia.

Lemma filter_none' : forall {A} (f : A -> bool) l, (forall x, In x l -> f x = false) -> filter f l = [].
Proof. induction l as [|x l IH]; intros H; cbn; [reflexivity|]. rewrite H by (left; reflexivity). apply IH. intros; apply H; right; assumption. Qed.

(* ---------- promises: what the sweep reads, and what one winning time-out does ---------- *)

Definition due (now : Z) (p : promise) : bool := (p_state p =? Pending) && (p_timeout p <=? now).
Definition due_rows (now : Z) (ps : list promise) : list promise := filter (due now) ps.

Lemma take_length : forall {A} n (l : list A), List.length (take n l) = Nat.min n (List.length l).
Proof. induction n as [|n IH]; intros l; destruct l; cbn; try reflexivity. rewrite IH. reflexivity. Qed.

(* the sweep reads exactly the first min(batch, #due) due rows *)
Theorem read_promises_due : forall d now lim,
    0 <= lim ->
    exists rs, ex_read_promises d now lim = RPromises (Z.of_nat (List.length rs)) (last_sort_p rs) rs /\
               rs = take (Z.to_nat lim) (due_rows now (promises d)) /\
               List.length rs = Nat.min (Z.to_nat lim) (List.length (due_rows now (promises d))).
Proof.
  intros d now lim Hl. unfold ex_read_promises, limit_take. assert ((lim <? 0) = false) as -> by (apply Z.ltb_ge; lia).
  eexists. split; [reflexivity|]. split; [reflexivity|apply take_length].
Qed.

Lemma timedout_not_pending : forall tags, (timedout_state tags =? Pending) = false.
Proof. intros tags. unfold timedout_state. destruct (opt_eqb _ _ _); reflexivity. Qed.

(* one winning time-out of a due row removes exactly that row from the due set (ids are unique) *)
Lemma due_after_update : forall now ps p,
    NoDup (map p_id ps) -> In p ps -> due now p = true ->
    List.length (due_rows now (map (fun q => if upd_guard (timeout_cmd p) q then complete_p (timeout_cmd p) q else q) ps))
    = (List.length (due_rows now ps) - 1)%nat /\ (1 <= List.length (due_rows now ps))%nat.
Proof.
  induction ps as [|q ps IH]; intros p HN Hin Hd; [contradiction|]. inversion HN as [|? ? Hq HN']; subst. cbn [map due_rows filter].
  destruct Hin as [->|Hin].
  - (* the row itself: it leaves the due set; no later row has its id *)
    assert (Hg : upd_guard (timeout_cmd p) p = true).
    { unfold upd_guard, timeout_cmd; cbn. rewrite String.eqb_refl. unfold due in Hd. apply andb_true_iff in Hd. tauto. }
    rewrite Hg. assert (Hnd : due now (complete_p (timeout_cmd p) p) = false).
    { unfold due, complete_p, timeout_cmd; cbn. rewrite timedout_not_pending. reflexivity. }
    rewrite Hnd, Hd. cbn [List.length].
    assert (Hrest : map (fun q => if upd_guard (timeout_cmd p) q then complete_p (timeout_cmd p) q else q) ps = ps).
    { rewrite <- (map_id ps) at 2. apply map_ext_in. intros x Hx. destruct (upd_guard (timeout_cmd p) x) eqn:G; [|reflexivity].
      exfalso. unfold upd_guard, timeout_cmd in G; cbn in G. apply andb_true_iff in G. destruct G as [G _]. apply String.eqb_eq in G.
      apply Hq. rewrite <- G. apply in_map. exact Hx. }
    rewrite Hrest. fold (due_rows now ps). split; lia.
  - (* a later row *)
    assert (Hne : upd_guard (timeout_cmd p) q = false).
    { unfold upd_guard, timeout_cmd; cbn. destruct (String.eqb (p_id q) (p_id p)) eqn:E; [|reflexivity]. exfalso.
      apply String.eqb_eq in E. apply Hq. rewrite E. apply in_map. exact Hin. }
    rewrite Hne. destruct (IH p HN' Hin Hd) as [IH1 IH2]. fold (due_rows now ps).
    fold (due_rows now (map (fun q0 => if upd_guard (timeout_cmd p) q0 then complete_p (timeout_cmd p) q0 else q0) ps)).
    destruct (due now q); cbn [List.length]; split; lia.
Qed.

(* in the store: the update of the completion transaction of a due row *)
Theorem timeout_update_progress : forall d now p,
    prom_uniq d -> In p (promises d) -> due now p = true ->
    snd (ex_update_promise d (timeout_cmd p)) = 1 /\
    List.length (due_rows now (promises (fst (ex_update_promise d (timeout_cmd p))))) = (List.length (due_rows now (promises d)) - 1)%nat.
Proof.
  intros d now p U Hin Hd. unfold ex_update_promise; cbn [fst snd set_promises promises]. split.
  - (* exactly one row is guarded *)
    assert (Hf : forall ps, NoDup (map p_id ps) -> In p ps -> filter (upd_guard (timeout_cmd p)) ps = [p]).
    { induction ps as [|q ps IH]; intros HN Hi; [contradiction|]. inversion HN as [|? ? Hq HN']; subst. cbn.
      destruct Hi as [->|Hi].
      - assert (upd_guard (timeout_cmd p) p = true) as ->.
        { unfold upd_guard, timeout_cmd; cbn. rewrite String.eqb_refl. unfold due in Hd. apply andb_true_iff in Hd. tauto. }
        f_equal. apply filter_none'. intros x Hx. unfold upd_guard, timeout_cmd; cbn.
        destruct (String.eqb (p_id x) (p_id p)) eqn:E; [|reflexivity]. exfalso. apply String.eqb_eq in E. apply Hq. rewrite <- E. apply in_map; exact Hx.
      - assert (upd_guard (timeout_cmd p) q = false) as ->.
        { unfold upd_guard, timeout_cmd; cbn. destruct (String.eqb (p_id q) (p_id p)) eqn:E; [|reflexivity]. exfalso.
          apply String.eqb_eq in E. apply Hq. rewrite E. apply in_map. exact Hi. }
        apply IH; assumption. }
    unfold blen. rewrite (Hf (promises d) U Hin). reflexivity.
  - apply due_after_update; assumption.
Qed.

(* ---------- locks: one sweep command clears everything that is due ---------- *)
Theorem lock_sweep_clears : forall d time l, In l (locks (fst (ex_timeout_locks d time))) -> time < l_exp l.
Proof. intros d time l H. cbn in H. apply filter_In in H. destruct H as [_ H]. apply negb_true_iff in H. apply Z.leb_gt in H. exact H. Qed.

(* ---------- tasks: the lease sweep reads min(batch, #expired) expired enqueued / claimed tasks ---------- *)
Definition expired_active (time : Z) (t : task) : bool :=
  in_mask (t_state t) (mask_of [TEnqueued; TClaimed]) && ((t_exp t <=? time) || (t_timeout t <=? time)).

Lemma sort_by_length : forall {A} (le : A -> A -> bool) l, List.length (sort_by le l) = List.length l.
Proof.
  intros A le. assert (Hi : forall x l, List.length (insert_by le x l) = S (List.length l)).
  { induction l as [|y l IH]; cbn; [reflexivity|]. destruct (le x y); cbn; [reflexivity|rewrite IH; reflexivity]. }
  unfold sort_by. induction l as [|x l IH]; cbn; [reflexivity|]. rewrite Hi, IH. reflexivity.
Qed.

Theorem read_tasks_due : forall d time lim, 0 <= lim ->
    exists recs, ex_read_tasks d [TEnqueued; TClaimed] time lim = RTasks (Z.of_nat (List.length recs)) recs /\
                 List.length recs = Nat.min (Z.to_nat lim) (List.length (filter (expired_active time) (tasks d))).
Proof.
  intros d time lim Hl. unfold ex_read_tasks, limit_take. assert ((lim <? 0) = false) as -> by (apply Z.ltb_ge; lia).
  eexists. split; [unfold blen; rewrite map_length; reflexivity|]. rewrite map_length, take_length, sort_by_length. reflexivity.
Qed.

(* ---------- every background coroutine asks with the configured batch size, read at the tick time ---------- *)
Theorem bg_uses_config : forall cfg now next,
    o_subs (start_bg cfg BTimeoutPromises now next) = [SStore [ReadPromises now (c_pbatch cfg)]] /\
    o_subs (start_bg cfg BSchedulePromises now next) = [SStore [ReadSchedules now (c_sbatch cfg)]] /\
    o_subs (start_bg cfg BTimeoutLocks now next) = [SStore [TimeoutLocks now]] /\
    o_subs (start_bg cfg BEnqueueTasks now next) = [SStore [ReadEnqueueableTasks (c_tbatch cfg)]] /\
    o_subs (start_bg cfg BTimeoutTasks now next) = [SStore [ReadTasks [TEnqueued; TClaimed] now (c_tbatch cfg)]].
Proof. intros. repeat split; reflexivity. Qed.

(* the time-out sweep submits one completion transaction per row it read *)
Theorem sweep_spawns_all : forall ps now next, List.length (snd (spawn_timeouts ps now next)) = List.length ps.
Proof.
  induction ps as [|p ps IH]; intros now next; cbn; [reflexivity|].
  specialize (IH now (S next)). destruct (spawn_timeouts ps now (S next)) as [sl sb]. cbn in *. rewrite IH. reflexivity.
Qed.
