(* The database-independent part of the system invariant: every submission that is still waiting for
   its subsystem was emitted at some tick t <= now and satisfies the emission discipline [sub_at t];
   every fan-out instance keeps well-formed child slots.  Preserved by every step. *)
From RV Require Import Mon Discipline.
From Coq Require Import Lia.

Definition pend_ok (now : Z) (p : pend) : Prop :=
  pd_ready p = None -> exists t, t <= now /\ sub_at t (pd_sub p).

Definition SInv (s : sys) : Prop :=
  Forall (pend_ok (s_now s)) (s_pend s) /\ Forall (fun i => st_ok (i_st i)) (s_insts s).

Lemma pend_ok_mono : forall now now' p, now <= now' -> pend_ok now p -> pend_ok now' p.
Proof. intros now now' p Hle H Hr. destruct (H Hr) as [t [Ht Hs]]. exists t. split; [lia|exact Hs]. Qed.

Lemma remove_pend_sub : forall id n pl p, In p (remove_pend id n pl) -> In p pl.
Proof. intros id n pl p H. apply filter_In in H. tauto. Qed.

Lemma take_deliveries_sub : forall dl pl ds pl', take_deliveries dl pl = Some (ds, pl') -> forall p, In p pl' -> In p pl.
Proof.
  induction dl as [|[id n] dl IH]; intros pl ds pl' H p Hp; cbn in H.
  - inversion H; subst; exact Hp.
  - destruct (find_pend id n pl) as [q|]; [|discriminate]. destruct (pd_ready q); [|discriminate].
    destruct (take_deliveries dl (remove_pend id n pl)) as [[ds2 pl2]|] eqn:E; [|discriminate].
    inversion H; subst. eapply remove_pend_sub. eapply IH; eassumption.
Qed.

Lemma set_ready_ok : forall now id n c pl, Forall (pend_ok now) pl -> Forall (pend_ok now) (set_ready id n c pl).
Proof.
  intros now id n c pl H. unfold set_ready. apply Forall_forall. intros p Hp. apply in_map_iff in Hp.
  destruct Hp as [q [Hq Hin]]. destruct (pend_is id n q); subst.
  - intros Hr; cbn in Hr; discriminate.
  - eapply Forall_forall; eassumption.
Qed.

Lemma set_batch_ready_ok : forall now batch rss pl, Forall (pend_ok now) pl -> Forall (pend_ok now) (set_batch_ready batch rss pl).
Proof.
  induction batch as [|e batch IH]; intros rss pl H; cbn; [exact H|]. apply IH. apply set_ready_ok. exact H.
Qed.

Lemma number_subs_ok : forall id g subs n t, Forall (sub_at t) subs -> Forall (pend_ok t) (number_subs id g n subs).
Proof.
  induction subs as [|s subs IH]; intros n t H; cbn; [constructor|]. inversion H; subst.
  constructor; [|apply IH; assumption]. intros _. exists t. cbn. split; [lia|assumption].
Qed.

Lemma run_insts_ok : forall cfg now g ds il,
    Forall (fun i => st_ok (i_st i)) il ->
    let '(il', pl, ob) := run_insts cfg now g ds il in
    Forall (fun i => st_ok (i_st i)) il' /\ Forall (pend_ok now) pl.
Proof.
  induction il as [|i il IH]; intros H; cbn; [split; constructor|]. inversion H; subst.
  specialize (IH H3). destruct (run_insts cfg now g ds il) as [[il2 pl2] ob2]. destruct IH as [IH1 IH2].
  pose proof (run_inst_ok cfg (i_st i) (deliveries_for (i_id i) ds) now (i_next i) H2) as [Ho1 Ho2].
  split.
  - destruct (o_state _) eqn:E; try exact IH1; constructor; cbn; try exact IH1; exact Ho2.
  - apply Forall_app; split; [apply number_subs_ok; exact Ho1|exact IH2].
Qed.

Lemma start_insts_ok : forall now starts g,
    Forall (fun x => out_ok now (snd x)) starts ->
    let '(il', pl, ob) := start_insts starts g in
    Forall (fun i => st_ok (i_st i)) il' /\ Forall (pend_ok now) pl.
Proof.
  induction starts as [|[id o] rest IH]; intros g H; cbn; [split; constructor|]. inversion H; subst.
  specialize (IH g H3). destruct (start_insts rest g) as [[il pl] ob]. destruct IH as [IH1 IH2].
  destruct H2 as [Ho1 Ho2]. cbn in *. split.
  - destruct (o_state o) eqn:E; try exact IH1; constructor; cbn; try exact IH1; exact Ho2.
  - apply Forall_app; split; [apply number_subs_ok; exact Ho1|exact IH2].
Qed.

Lemma SInv_init : forall d, SInv (sys0 d).
Proof. intros d. split; constructor. Qed.

Lemma SInv_step : forall cfg s d s' ob, SInv s -> step cfg s d = Some (s', ob) -> SInv s'.
Proof.
  intros cfg s d s' ob [Hp Hi] H. destruct d; cbn in H.
  - destruct (t <? s_now s) eqn:Et; [discriminate|]. apply Z.ltb_ge in Et.
    destruct (take_deliveries deliver (s_pend s)) as [[ds pl]|] eqn:Etd; [|discriminate].
    pose proof (run_insts_ok cfg t (s_group s) ds (s_insts s) Hi) as H1.
    destruct (run_insts cfg t (s_group s) ds (s_insts s)) as [[il1 pl1] ob1]. destruct H1 as [H1a H1b].
    match type of H with context [start_insts ?st ?g] =>
      assert (Hst : Forall (fun x => out_ok t (snd x)) st) end.
    { apply Forall_app; split; apply Forall_forall; intros x Hx; apply in_map_iff in Hx;
        destruct Hx as [y [Hy _]]; subst; cbn; [apply start_bg_ok|apply start_req_ok]. }
    pose proof (start_insts_ok t _ (s_group s) Hst) as H2.
    destruct (start_insts _ (s_group s)) as [[il2 pl2] ob2]. destruct H2 as [H2a H2b].
    inversion H; subst; clear H. split; cbn.
    + apply Forall_app; split; [|apply Forall_app; split; assumption].
      apply Forall_forall. intros p Hin. eapply pend_ok_mono; [exact Et|].
      eapply Forall_forall; [exact Hp|]. eapply take_deliveries_sub; eassumption.
    + apply Forall_app; split; assumption.
  - destruct (batch_txns batch (s_pend s)); [|discriminate].
    destruct (negb (nodup_items batch)); [discriminate|].
    destruct (c_fifo cfg && negb (fifo_ok batch (s_pend s))); [discriminate|].
    destruct (exec_batch (s_db s) l) as [[d' rss]|]; inversion H; subst; clear H; (split; cbn; [|exact Hi]);
      apply set_batch_ready_ok; exact Hp.
  - destruct (find_pend id n (s_pend s)); [|discriminate].
    destruct (unready p); inversion H; subst; clear H. split; cbn; [apply set_ready_ok; exact Hp|exact Hi].
  - destruct (find_pend id n (s_pend s)); [|discriminate].
    destruct (pd_sub p); try discriminate. destruct (pd_ready p); inversion H; subst; clear H.
    split; cbn; [apply set_ready_ok; exact Hp|exact Hi].
  - destruct (find_pend id n (s_pend s)); [|discriminate].
    destruct (pd_sub p); try discriminate. destruct (pd_ready p); inversion H; subst; clear H.
    split; cbn; [apply set_ready_ok; exact Hp|exact Hi].
  - inversion H; subst. split; constructor.
Qed.

(* the transactions of an executed batch were waiting submissions: each was emitted at some t <= now *)
Lemma batch_txns_ok : forall now batch pl txns,
    Forall (pend_ok now) pl -> batch_txns batch pl = Some txns ->
    Forall (fun x => exists t, t <= now /\ Forall (cmd_at t) (fst x)) txns.
Proof.
  induction batch as [|e batch IH]; intros pl txns Hp H; cbn in H.
  - inversion H; constructor.
  - destruct (find_pend (ex_id e) (ex_n e) pl) as [p|] eqn:F; [|discriminate].
    destruct (pd_sub p) eqn:Es; try discriminate. destruct (pd_ready p) eqn:Er; [discriminate|].
    destruct (batch_txns batch pl) as [l|] eqn:Eb; [|discriminate]. inversion H; subst.
    constructor; [|eapply IH; eauto]. cbn.
    apply find_some in F. destruct F as [Fin _].
    pose proof (proj1 (Forall_forall _ _) Hp p Fin Er) as [t0 [Ht Hs]]. rewrite Es in Hs. exists t0. split; assumption.
Qed.

(* ---------- what a tick can show: every observation is the output of one coroutine step at time t ---------- *)

Definition tick_out (cfg : config) (s : sys) (t : Z) (o : step_out) : Prop :=
  (exists i dls, In i (s_insts s) /\ o = run_inst cfg (i_st i) dls t (i_next i)) \/
  (exists b, o = start_bg cfg b t 0) \/ (exists q, o = start_req q t 0).

Definition obs_of_out (x : obs) (o : step_out) : Prop :=
  exists id, x = OInst id (o_subs o) (visible_resp (o_resp o)).

Lemma inst_obs_shape : forall id o x, In x (inst_obs id o) -> obs_of_out x o.
Proof.
  intros id o x H. unfold inst_obs in H. exists id.
  destruct (o_subs o) eqn:E1; destruct (visible_resp (o_resp o)) eqn:E2; cbn in H;
    try contradiction; destruct H as [H|[]]; subst; reflexivity.
Qed.

Lemma run_insts_obs : forall cfg now g ds il x,
    In x (snd (run_insts cfg now g ds il)) ->
    exists i dls, In i il /\ obs_of_out x (run_inst cfg (i_st i) dls now (i_next i)).
Proof.
  induction il as [|i il IH]; intros x H; cbn in H; [contradiction|].
  destruct (run_insts cfg now g ds il) as [[il2 pl2] ob2] eqn:E. cbn in H. apply in_app_or in H. destruct H as [H|H].
  - exists i, (deliveries_for (i_id i) ds). split; [left; reflexivity|]. eapply inst_obs_shape; eassumption.
  - destruct (IH x H) as [j [dls [Hj Ho]]]. exists j, dls. split; [right; assumption|assumption].
Qed.

Lemma start_insts_obs : forall starts g x,
    In x (snd (start_insts starts g)) -> exists id o, In (id, o) starts /\ obs_of_out x o.
Proof.
  induction starts as [|[id o] rest IH]; intros g x H; cbn in H; [contradiction|].
  destruct (start_insts rest g) as [[il pl] ob] eqn:E. cbn in H. apply in_app_or in H. destruct H as [H|H].
  - exists id, o. split; [left; reflexivity|]. eapply inst_obs_shape; eassumption.
  - specialize (IH g x). rewrite E in IH. destruct (IH H) as [id' [o' [Hin Ho]]]. exists id', o'. split; [right; assumption|assumption].
Qed.

Lemma tick_obs : forall cfg s t dl bgs arr s' ob,
    step cfg s (DTick t dl bgs arr) = Some (s', ob) ->
    s_now s <= t /\ Forall (fun x => exists o, tick_out cfg s t o /\ obs_of_out x o) ob.
Proof.
  intros cfg s t dl bgs arr s' ob H. cbn in H.
  destruct (t <? s_now s) eqn:Et; [discriminate|]. apply Z.ltb_ge in Et. split; [exact Et|].
  destruct (take_deliveries dl (s_pend s)) as [[ds pl]|]; [|discriminate].
  destruct (run_insts cfg t (s_group s) ds (s_insts s)) as [[il1 pl1] ob1] eqn:E1.
  destruct (start_insts _ (s_group s)) as [[il2 pl2] ob2] eqn:E2. inversion H; subst; clear H.
  apply Forall_forall. intros x Hx. apply in_app_or in Hx. destruct Hx as [Hx|Hx].
  - pose proof (run_insts_obs cfg t (s_group s) ds (s_insts s) x) as H1. rewrite E1 in H1.
    destruct (H1 Hx) as [i [dls [Hi Ho]]]. eexists. split; [|exact Ho]. left. exists i, dls. tauto.
  - match type of E2 with start_insts ?st _ = _ => pose proof (start_insts_obs st (s_group s) x) as H2 end.
    rewrite E2 in H2. destruct (H2 Hx) as [id [o [Hin Ho]]].
    exists o. split; [|exact Ho]. apply in_app_or in Hin. destruct Hin as [Hin|Hin]; apply in_map_iff in Hin;
      destruct Hin as [y [Hy _]]; inversion Hy; subst; [right; left; eexists; reflexivity|right; right; eexists; reflexivity].
Qed.

Lemma tick_out_ok : forall cfg s t o, SInv s -> tick_out cfg s t o -> out_ok t o.
Proof.
  intros cfg s t o [_ Hi] [[i [dls [Hin Ho]]]|[[b Ho]|[q Ho]]]; subst.
  - apply run_inst_ok. eapply Forall_forall in Hi; [exact Hi|exact Hin].
  - apply start_bg_ok.
  - apply start_req_ok.
Qed.
