(* The system invariant: (1) promise ids are unique; (2) every submission still waiting for its subsystem
   was emitted at some tick t <= now under the emission discipline, and every completion waiting in the
   completion queue tells the truth about the durable state (monotonically); (3) every coroutine instance
   holds only records that are rows of the database and, if it awaits submission n, the submission (id, n)
   in flight is the one its program point expects.  Preserved by every step of every schedule. *)
From RV Require Import Mon StoreLocks StorePromises StoreCallbacks Discipline.
From Coq Require Import Lia.

Definition pend_ok (d : db) (now : Z) (p : pend) : Prop :=
  match pd_ready p with
  | None => exists t, t <= now /\ sub_at d t (pd_sub p)
  | Some c => rdy_ok d (pd_sub p) c
  end.

Definition inst_ok (d : db) (pl : list pend) (i : inst) : Prop :=
  st_ok d (i_st i) /\
  (forall p, In p pl -> pd_id p = i_id i -> (pd_n p < i_next i)%nat) /\
  (forall k n, i_st i = CSeq k n ->
               (n < i_next i)%nat /\ forall p, In p pl -> pd_id p = i_id i -> pd_n p = n -> k_expects k (pd_sub p)).

(* every task row carries one of the five task states *)
Definition TaskStates (d : db) : Prop := forall t, In t (tasks d) -> valid_tstate (t_state t).

(* the state a command may write into a task row *)
Definition cmd_ts (c : command) : Prop :=
  match c with
  | UpdateTask u => valid_tstate (ut_state u)
  | CreateTask tc => valid_tstate (ct_state tc)
  | CreatePromiseAndTask _ tc => valid_tstate (ct_state tc)
  | _ => True
  end.

Definition SInv (s : sys) : Prop :=
  (prom_uniq (s_db s) /\ TaskStates (s_db s)) /\
  Forall (pend_ok (s_db s) (s_now s)) (s_pend s) /\
  Forall (inst_ok (s_db s) (s_pend s)) (s_insts s) /\
  NoDup (map i_id (s_insts s)).

Lemma SInv_init : SInv (sys0 db0).
Proof. split; [split; [constructor|intros x []]|]. repeat split; constructor. Qed.

Lemma SInv_uniq : forall s, SInv s -> prom_uniq (s_db s).
Proof. intros s H. exact (proj1 (proj1 H)). Qed.
Lemma SInv_tstates : forall s, SInv s -> TaskStates (s_db s).
Proof. intros s H. exact (proj2 (proj1 H)). Qed.

(* ---------- monotonicity ---------- *)

Lemma pend_ok_mono : forall d d' now now' p, prom_le d d' -> now <= now' -> pend_ok d now p -> pend_ok d' now' p.
Proof.
  intros d d' now now' p L Hle H. unfold pend_ok in *. destruct (pd_ready p).
  - eapply rdy_ok_mono; eassumption.
  - destruct H as [t [Ht Hs]]. exists t. split; [lia|eapply sub_at_mono_db; eassumption].
Qed.

Lemma inst_ok_mono : forall d d' pl i, prom_le d d' -> inst_ok d pl i -> inst_ok d' pl i.
Proof. intros d d' pl i L [A [B C]]. split; [eapply st_ok_mono; eassumption|split; assumption]. Qed.

Lemma inst_ok_sub : forall d pl pl' i, (forall p, In p pl' -> In p pl) -> inst_ok d pl i -> inst_ok d pl' i.
Proof.
  intros d pl pl' i S [A [B C]]. split; [exact A|]. split.
  - intros p Hp. apply B. apply S. exact Hp.
  - intros k n E. destruct (C k n E) as [C1 C2]. split; [exact C1|]. intros p Hp. apply C2. apply S. exact Hp.
Qed.

(* ---------- pending list manipulations ---------- *)

Lemma remove_pend_sub : forall id n pl p, In p (remove_pend id n pl) -> In p pl.
Proof. intros id n pl p H. apply filter_In in H. tauto. Qed.

Lemma take_deliveries_spec : forall dl pl ds pl',
    take_deliveries dl pl = Some (ds, pl') ->
    (forall p, In p pl' -> In p pl) /\
    (forall id n c, In (id, (n, c)) ds -> exists p, In p pl /\ pd_id p = id /\ pd_n p = n /\ pd_ready p = Some c).
Proof.
  induction dl as [|[id n] dl IH]; intros pl ds pl' H; cbn in H.
  - inversion H; subst. split; [auto|]. intros ? ? ? [].
  - destruct (find_pend id n pl) as [q|] eqn:F; [|discriminate]. destruct (pd_ready q) as [c|] eqn:R; [|discriminate].
    destruct (take_deliveries dl (remove_pend id n pl)) as [[ds2 pl2]|] eqn:E; [|discriminate].
    inversion H; subst. destruct (IH _ _ _ E) as [I1 I2]. split.
    + intros p Hp. eapply remove_pend_sub. apply I1. exact Hp.
    + intros id' n' c' [Hin|Hin].
      * inversion Hin; subst. apply find_some in F. destruct F as [F1 F2]. unfold pend_is in F2.
        apply andb_true_iff in F2. destruct F2 as [F2 F3]. apply String.eqb_eq in F2. apply Nat.eqb_eq in F3.
        exists q. tauto.
      * destruct (I2 id' n' c' Hin) as [p [Hp Hrest]]. exists p. split; [eapply remove_pend_sub; exact Hp|exact Hrest].
Qed.

Lemma set_ready_forall : forall (P : pend -> Prop) id n c pl,
    Forall P pl ->
    (forall p, find_pend id n pl = Some p -> P (mkPend (pd_id p) (pd_n p) (pd_sub p) (pd_group p) (Some c))) ->
    Forall P (set_ready id n c pl).
Proof.
  induction pl as [|p pl IH]; intros H Hf; cbn; [constructor|]. inversion H; subst. unfold find_pend in Hf. cbn in Hf.
  destruct (pend_is id n p) eqn:E.
  - constructor; [apply Hf; reflexivity|assumption].
  - constructor; [assumption|]. apply IH; [assumption|]. exact Hf.
Qed.

Lemma set_ready_keys : forall id n c pl, map (fun p => (pd_id p, pd_n p, pd_sub p)) (set_ready id n c pl) = map (fun p => (pd_id p, pd_n p, pd_sub p)) pl.
Proof.
  induction pl as [|p pl IH]; cbn; [reflexivity|]. destruct (pend_is id n p); cbn; [reflexivity|]. rewrite IH. reflexivity.
Qed.

Lemma find_pend_set_ready_other : forall id n c id' n' pl,
    pend_is id' n' (mkPend id n (SStore []) 0 None) = false ->
    option_map (fun p => (pd_id p, pd_n p, pd_sub p, pd_ready p)) (find_pend id' n' (set_ready id n c pl)) =
    option_map (fun p => (pd_id p, pd_n p, pd_sub p, pd_ready p)) (find_pend id' n' pl).
Proof.
  intros id n c id' n' pl Hne. unfold find_pend. induction pl as [|p pl IH]; cbn; [reflexivity|].
  destruct (pend_is id n p) eqn:E; cbn.
  - assert (pend_is id' n' p = false) as ->.
    { unfold pend_is in *. cbn in Hne. apply andb_true_iff in E. destruct E as [E1 E2].
      apply String.eqb_eq in E1. apply Nat.eqb_eq in E2. subst. exact Hne. }
    assert (pend_is id' n' (mkPend (pd_id p) (pd_n p) (pd_sub p) (pd_group p) (Some c)) = false) as ->.
    { unfold pend_is in *. cbn in *. apply andb_true_iff in E. destruct E as [E1 E2].
      apply String.eqb_eq in E1. apply Nat.eqb_eq in E2. subst. exact Hne. }
    reflexivity.
  - destruct (pend_is id' n' p); [reflexivity|exact IH].
Qed.

Lemma number_subs_in : forall id g subs n p,
    In p (number_subs id g n subs) ->
    pd_id p = id /\ (n <= pd_n p < n + List.length subs)%nat /\ nth_error subs (pd_n p - n) = Some (pd_sub p) /\ pd_ready p = None.
Proof.
  induction subs as [|s subs IH]; intros n p H; cbn in H; [contradiction|]. destruct H as [H|H].
  - subst p. cbn. rewrite Nat.sub_diag. cbn. repeat split; lia.
  - destruct (IH (S n) p H) as [A [B [C D]]]. cbn. split; [exact A|]. split; [lia|]. split; [|exact D].
    replace (pd_n p - n)%nat with (S (pd_n p - S n)) by lia. cbn. exact C.
Qed.

(* ---------- what run_insts / start_insts produce ---------- *)

Definition inst_step (cfg : config) (now : Z) (ds : list (string * (nat * cpl))) (i : inst) : step_out :=
  run_inst cfg (i_st i) (deliveries_for (i_id i) ds) now (i_next i).

Lemma run_insts_spec : forall cfg now g ds il,
    let '(il', pl', ob) := run_insts cfg now g ds il in
    (forall i', In i' il' -> exists i, In i il /\ i_id i' = i_id i /\ i_st i' = o_state (inst_step cfg now ds i) /\
                              i_next i' = (i_next i + List.length (o_subs (inst_step cfg now ds i)))%nat) /\
    (forall p, In p pl' -> exists i, In i il /\ In p (number_subs (i_id i) g (i_next i) (o_subs (inst_step cfg now ds i)))) /\
    (forall id, In id (map i_id il') -> In id (map i_id il)) /\
    (NoDup (map i_id il) -> NoDup (map i_id il')).
Proof.
  induction il as [|i il IH]; cbn; [repeat split; intros; try contradiction; constructor|].
  destruct (run_insts cfg now g ds il) as [[il2 pl2] ob2]. destruct IH as [A [B [C D]]].
  change (run_inst cfg (i_st i) (deliveries_for (i_id i) ds) now (i_next i)) with (inst_step cfg now ds i).
  set (o := inst_step cfg now ds i) in *.
  assert (Hkeep : forall i', In i' (match o_state o with CDone => il2 | _ => mkInst (i_id i) (o_state o) (i_next i + List.length (o_subs o)) :: il2 end) ->
                             i' = mkInst (i_id i) (o_state o) (i_next i + List.length (o_subs o)) \/ In i' il2).
  { intros i' H. destruct (o_state o); cbn in H; try tauto; destruct H as [H|H]; auto. }
  split; [|split; [|split]].
  - intros i' Hi'. destruct (Hkeep i' Hi') as [->|Hin].
    + exists i. cbn. repeat split; auto.
    + destruct (A i' Hin) as [j [Hj Hrest]]. exists j. tauto.
  - intros p Hp. apply in_app_or in Hp. destruct Hp as [Hp|Hp].
    + exists i. tauto.
    + destruct (B p Hp) as [j [Hj Hrest]]. exists j. tauto.
  - intros id Hid. apply in_map_iff in Hid. destruct Hid as [i' [Hid Hi']]. destruct (Hkeep i' Hi') as [->|Hin].
    + left. subst id. reflexivity.
    + right. apply C. apply in_map_iff. exists i'. tauto.
  - intros U. inversion U; subst. specialize (D H2).
    destruct (o_state o); try exact D; cbn; constructor; try exact D; intros Hc; apply H1; apply C; exact Hc.
Qed.

Lemma start_insts_spec : forall starts g,
    let '(il', pl', ob) := start_insts starts g in
    (forall i', In i' il' -> exists o, In (i_id i', o) starts /\ i_st i' = o_state o /\ i_next i' = List.length (o_subs o)) /\
    (forall p, In p pl' -> exists id o, In (id, o) starts /\ In p (number_subs id g 0 (o_subs o))) /\
    (forall id, In id (map i_id il') -> In id (map fst starts)) /\
    (NoDup (map fst starts) -> NoDup (map i_id il')).
Proof.
  induction starts as [|[id o] rest IH]; intros g; cbn; [repeat split; intros; try contradiction; constructor|].
  specialize (IH g). destruct (start_insts rest g) as [[il pl] ob]. destruct IH as [A [B [C D]]].
  assert (Hkeep : forall i', In i' (match o_state o with CDone => il | _ => mkInst id (o_state o) (List.length (o_subs o)) :: il end) ->
                             i' = mkInst id (o_state o) (List.length (o_subs o)) \/ In i' il).
  { intros i' H. destruct (o_state o); cbn in H; try tauto; destruct H as [H|H]; auto. }
  split; [|split; [|split]].
  - intros i' Hi'. destruct (Hkeep i' Hi') as [->|Hin].
    + exists o. cbn. repeat split; auto.
    + destruct (A i' Hin) as [o' [Ho' Hrest]]. exists o'. tauto.
  - intros p Hp. apply in_app_or in Hp. destruct Hp as [Hp|Hp].
    + exists id, o. tauto.
    + destruct (B p Hp) as [id' [o' [Ho' Hrest]]]. exists id', o'. tauto.
  - intros id' Hid. apply in_map_iff in Hid. destruct Hid as [i' [Hid Hi']]. destruct (Hkeep i' Hi') as [->|Hin].
    + left. subst id'. reflexivity.
    + right. apply C. apply in_map_iff. exists i'. tauto.
  - intros U. inversion U; subst. specialize (D H2).
    destruct (o_state o); try exact D; cbn; constructor; try exact D; intros Hc; apply H1; apply C; exact Hc.
Qed.

(* ---------- id freshness ---------- *)

Lemma ids_fresh_spec : forall s ids, ids_fresh s ids = true ->
    NoDup ids /\ forall id, In id ids -> (forall i, In i (s_insts s) -> i_id i <> id) /\ (forall p, In p (s_pend s) -> pd_id p <> id).
Proof.
  induction ids as [|id ids IH]; cbn; intros H; [split; [constructor|intros ? []]|].
  apply andb_true_iff in H. destruct H as [H H3]. apply andb_true_iff in H. destruct H as [H1 H2].
  destruct (IH H3) as [N F]. apply negb_true_iff in H1, H2. split.
  - constructor; [|exact N]. intros Hin. assert (existsb (String.eqb id) ids = true); [|congruence].
    apply existsb_exists. exists id. split; [exact Hin|apply String.eqb_refl].
  - intros id' [<-|Hin]; [|apply F; exact Hin]. unfold id_used in H1. apply orb_false_iff in H1. destruct H1 as [U1 U2]. split.
    + intros i Hi E. assert (existsb (fun i => String.eqb (i_id i) id) (s_insts s) = true); [|congruence].
      apply existsb_exists. exists i. split; [exact Hi|]. rewrite E. apply String.eqb_refl.
    + intros p Hp E. assert (existsb (fun p => String.eqb (pd_id p) id) (s_pend s) = true); [|congruence].
      apply existsb_exists. exists p. split; [exact Hp|]. rewrite E. apply String.eqb_refl.
Qed.

(* ---------- an instance after its step, against the final pending list ---------- *)

Lemma inst_after : forall d now g id next st o PL,
    st_ok d st ->
    (o = mkOut st [] None \/ out_ok d now next o) ->
    (forall k n, st = CSeq k n -> (n < next)%nat) ->
    (* every pending submission of this id is an old one (numbered below next, and expected by st) or one of
       the submissions of this very step *)
    (forall p, In p PL -> pd_id p = id ->
               ((pd_n p < next)%nat /\ (forall k, st = CSeq k (pd_n p) -> k_expects k (pd_sub p))) \/
               In p (number_subs id g next (o_subs o))) ->
    inst_ok d PL (mkInst id (o_state o) (next + List.length (o_subs o))).
Proof.
  intros d now g id next st o PL Hst Ho Hlt Hp. unfold inst_ok; cbn. destruct Ho as [->|[Hsub [Hso [Hl _]]]]; cbn in *.
  - split; [exact Hst|]. split.
    + intros p Hin Hid. destruct (Hp p Hin Hid) as [[A _]|[]]. lia.
    + intros k n E. split; [specialize (Hlt k n E); lia|]. intros p Hin Hid Hn. destruct (Hp p Hin Hid) as [[_ B]|[]].
      subst n. apply B. exact E.
  - split; [exact Hso|]. split.
    + intros p Hin Hid. destruct (Hp p Hin Hid) as [[A _]|Hn]; [lia|].
      destruct (number_subs_in _ _ _ _ _ Hn) as [_ [B _]]. lia.
    + intros k n E. unfold link_ok in Hl. rewrite E in Hl. destruct Hl as [Hle [s [Hs He]]]. split.
      * assert (n - next < List.length (o_subs o))%nat by (apply nth_error_Some; congruence). lia.
      * intros p Hin Hid Hn. destruct (Hp p Hin Hid) as [[A _]|Hnew]; [lia|].
        destruct (number_subs_in _ _ _ _ _ Hnew) as [_ [_ [C _]]]. subst n. rewrite C in Hs. inversion Hs; subst. exact He.
Qed.

Lemma new_pend_ok : forall d now id g next o p,
    Forall (sub_at d now) (o_subs o) -> In p (number_subs id g next (o_subs o)) -> pend_ok d now p.
Proof.
  intros d now id g next o p Hs Hin. destruct (number_subs_in _ _ _ _ _ Hin) as [_ [_ [C D]]].
  unfold pend_ok. rewrite D. exists now. split; [lia|]. eapply Forall_forall; [exact Hs|]. eapply nth_error_In; exact C.
Qed.

Lemma inst_same_id : forall il i j, NoDup (map i_id il) -> In i il -> In j il -> i_id i = i_id j -> i = j.
Proof.
  induction il as [|x il IH]; cbn; intros i j U Hi Hj E; [contradiction|]. inversion U; subst.
  destruct Hi as [Hi|Hi], Hj as [Hj|Hj]; subst; auto.
  - exfalso. apply H1. rewrite E. apply in_map. exact Hj.
  - exfalso. apply H1. rewrite <- E. apply in_map. exact Hi.
Qed.

Lemma starts_same_id : forall (starts : list (string * step_out)) id o o',
    NoDup (map fst starts) -> In (id, o) starts -> In (id, o') starts -> o = o'.
Proof.
  induction starts as [|[x y] starts IH]; cbn; intros id o o' U H1 H2; [contradiction|]. inversion U; subst.
  destruct H1 as [H1|H1], H2 as [H2|H2].
  - congruence.
  - inversion H1; subst. exfalso. apply H3. apply in_map_iff. exists (id, o'). tauto.
  - inversion H2; subst. exfalso. apply H3. apply in_map_iff. exists (id, o). tauto.
  - eapply IH; eassumption.
Qed.

Lemma deliveries_for_in : forall id ds n c, In (n, c) (deliveries_for id ds) -> In (id, (n, c)) ds.
Proof.
  intros id ds n c H. unfold deliveries_for in H. apply in_map_iff in H. destruct H as [[id' x] [Hx Hin]].
  apply filter_In in Hin. destruct Hin as [Hin He]. cbn in *. apply String.eqb_eq in He. subst. exact Hin.
Qed.

Definition dir_wf (d : directive) : Prop :=
  match d with DTick _ _ _ arrive => Forall (fun x => req_wf (snd x)) arrive | _ => True end.

(* a schedule whose arriving requests are what the front ends let through (Discipline.req_wf) *)
Definition sch_wf (sch : list directive) : Prop := Forall dir_wf sch.

Lemma SInv_tick : forall cfg s t dl bgs arr s' ob,
    SInv s -> dir_wf (DTick t dl bgs arr) -> step cfg s (DTick t dl bgs arr) = Some (s', ob) -> SInv s'.
Proof.
  intros cfg s t dl bgs arr s' ob [[U TS] [HP [HI ND]]] Hwf H. cbn in H, Hwf.
  destruct (t <? s_now s) eqn:Et; [discriminate|]. apply Z.ltb_ge in Et.
  destruct (negb (ids_fresh s (map fst bgs ++ map fst arr))) eqn:Ef; [discriminate|]. apply negb_false_iff in Ef.
  destruct (take_deliveries dl (s_pend s)) as [[ds pl]|] eqn:Etd; [|discriminate].
  destruct (take_deliveries_spec _ _ _ _ Etd) as [Hsub Hdel].
  pose proof (run_insts_spec cfg t (s_group s) ds (s_insts s)) as R1.
  destruct (run_insts cfg t (s_group s) ds (s_insts s)) as [[il1 pl1] ob1]. destruct R1 as [R1a [R1b [R1c R1d]]].
  set (starts := (map (fun x => (fst x, start_bg cfg (snd x) t 0)) bgs ++ map (fun x => (fst x, start_req (snd x) t 0)) arr)%list) in *.
  pose proof (start_insts_spec starts (s_group s)) as R2.
  destruct (start_insts starts (s_group s)) as [[il2 pl2] ob2]. destruct R2 as [R2a [R2b [R2c R2d]]].
  inversion H; subst; clear H. cbn.
  destruct (ids_fresh_spec _ _ Ef) as [Fnd Ffr].
  assert (Hfst : map fst starts = (map fst bgs ++ map fst arr)%list).
  { unfold starts. rewrite map_app, !map_map. cbn. reflexivity. }
  assert (Hstart_ok : forall id o, In (id, o) starts -> out_ok (s_db s) t 0 o).
  { intros id o Hin. unfold starts in Hin. apply in_app_or in Hin. destruct Hin as [Hin|Hin]; apply in_map_iff in Hin;
      destruct Hin as [x [Hx Hin]]; inversion Hx; subst.
    - apply start_bg_ok.
    - apply start_req_ok. eapply Forall_forall in Hwf; [exact Hwf|exact Hin]. }
  (* every old instance's step is either "nothing happened" or satisfies the discipline *)
  assert (Hstep : forall i, In i (s_insts s) ->
                            inst_step cfg t ds i = mkOut (i_st i) [] None \/ out_ok (s_db s) t (i_next i) (inst_step cfg t ds i)).
  { intros i Hi. unfold inst_step. pose proof (proj1 (Forall_forall _ _) HI i Hi) as [Hst [_ Hexp]].
    apply run_inst_ok; [exact U|exact Hst|].
    intros n c Hin. apply deliveries_for_in in Hin. destruct (Hdel _ _ _ Hin) as [p [Hp [Hid [Hn Hr]]]].
    exists (pd_sub p). split.
    - pose proof (proj1 (Forall_forall _ _) HP p Hp) as Hpk. unfold pend_ok in Hpk. rewrite Hr in Hpk. exact Hpk.
    - intros k E. destruct (Hexp k n E) as [_ Hk]. apply Hk; assumption. }
  set (PL := (pl ++ pl1 ++ pl2)%list).
  assert (HPL : forall p, In p PL -> In p (s_pend s) \/
               (exists i, In i (s_insts s) /\ In p (number_subs (i_id i) (s_group s) (i_next i) (o_subs (inst_step cfg t ds i)))) \/
               (exists id o, In (id, o) starts /\ In p (number_subs id (s_group s) 0 (o_subs o)))).
  { intros p Hp. unfold PL in Hp. apply in_app_or in Hp. destruct Hp as [Hp|Hp]; [left; apply Hsub; exact Hp|].
    apply in_app_or in Hp. destruct Hp as [Hp|Hp]; [right; left; apply R1b; exact Hp|right; right; apply R2b; exact Hp]. }
  split; [split; [exact U|exact TS]|]. split; [|split].
  - (* pending submissions *)
    apply Forall_forall. intros p Hp. destruct (HPL p Hp) as [Hold|[[i [Hi Hn]]|[id [o [Ho Hn]]]]].
    + eapply pend_ok_mono; [apply prom_le_refl|exact Et|]. eapply Forall_forall; [exact HP|exact Hold].
    + destruct (Hstep i Hi) as [E|[Hs _]].
      * rewrite E in Hn. cbn in Hn. contradiction.
      * eapply new_pend_ok; eassumption.
    + destruct (Hstart_ok id o Ho) as [Hs _]. eapply new_pend_ok; eassumption.
  - (* instances *)
    cbn. apply Forall_app. split; apply Forall_forall; intros i' Hi'.
    + destruct (R1a i' Hi') as [i [Hi [Eid [Est Enx]]]]. destruct i' as [id' st' nx']. cbn in *. subst id' st' nx'.
      pose proof (proj1 (Forall_forall _ _) HI i Hi) as [Hst [Hlt Hexp]].
      eapply inst_after with (g := s_group s) (st := i_st i); [exact Hst|apply Hstep; exact Hi| |].
      * intros k n E. apply (Hexp k n E).
      * intros p Hp Hid. destruct (HPL p Hp) as [Hold|[[j [Hj Hn]]|[id [o [Ho Hn]]]]].
        -- left. split; [apply Hlt; assumption|]. intros k E. destruct (Hexp k _ E) as [_ Hk]. apply Hk; auto.
        -- right. destruct (number_subs_in _ _ _ _ _ Hn) as [Hpid _].
           assert (i = j) by (eapply inst_same_id; eauto; congruence). subst j. exact Hn.
        -- exfalso. destruct (number_subs_in _ _ _ _ _ Hn) as [Hpid _].
           assert (Hin : In id (map fst starts)) by (apply in_map_iff; exists (id, o); tauto). rewrite Hfst in Hin.
           destruct (Ffr id Hin) as [Fi _]. apply (Fi i Hi). congruence.
    + destruct (R2a i' Hi') as [o [Ho [Est Enx]]]. destruct i' as [id' st' nx']. cbn in *. subst st' nx'.
      assert (Hin : In id' (map fst starts)) by (apply in_map_iff; exists (id', o); tauto). rewrite Hfst in Hin.
      destruct (Ffr id' Hin) as [Fi Fp].
      change (List.length (o_subs o)) with (0 + List.length (o_subs o))%nat.
      eapply inst_after with (g := s_group s) (st := CDone); [exact I|right; eapply Hstart_ok; exact Ho|intros; discriminate|].
      intros p Hp Hid. destruct (HPL p Hp) as [Hold|[[j [Hj Hn]]|[id [o' [Ho' Hn]]]]].
      * exfalso. apply (Fp p Hold Hid).
      * exfalso. destruct (number_subs_in _ _ _ _ _ Hn) as [Hpid _]. apply (Fi j Hj). congruence.
      * right. destruct (number_subs_in _ _ _ _ _ Hn) as [Hpid _]. assert (Eid : id = id') by congruence.
        rewrite Eid in Ho', Hn.
        assert (Hnd : NoDup (map fst starts)) by (rewrite Hfst; exact Fnd).
        assert (o = o') by (apply (starts_same_id starts id' o o' Hnd Ho Ho')). subst o'. exact Hn.
  - (* instance ids stay distinct *)
    cbn. rewrite map_app.
    assert (Hnd : NoDup (map fst starts)) by (rewrite Hfst; exact Fnd).
    specialize (R1d ND). specialize (R2d Hnd).
    clear - R1d R2d R1c R2c Ffr Hfst. revert R1d R1c. generalize (map i_id il1) as xs.
    induction xs as [|x xs IH]; cbn; intros N1 C1; [exact R2d|]. inversion N1; subst. constructor.
    + rewrite in_app_iff. intros [Hx|Hx]; [contradiction|].
      apply R2c in Hx. rewrite Hfst in Hx. destruct (Ffr x Hx) as [Fi _].
      specialize (C1 x (or_introl eq_refl)). apply in_map_iff in C1. destruct C1 as [i [Ei Hi]]. apply (Fi i Hi Ei).
    + apply IH; [assumption|]. intros id Hid. apply C1. right. exact Hid.
Qed.

(* ---------- executing a batch ---------- *)

Lemma limit_take_in : forall {A} lim (l : list A) x, In x (limit_take lim l) -> In x l.
Proof.
  intros A lim l x H. unfold limit_take in H. destruct (lim <? 0); [exact H|].
  revert l H. induction (Z.to_nat lim) as [|n IH]; intros l H; cbn in H; [contradiction|].
  destruct l as [|y l]; [contradiction|]. destruct H as [H|H]; [left; exact H|right; apply IH; exact H].
Qed.

Lemma search_promises_in : forall d q st tg lim sid rows last recs,
    ex_search_promises d q st tg lim sid = Some (RPromises rows last recs) -> forall p, In p recs -> In p (promises d).
Proof.
  intros d q st tg lim sid rows last recs H p Hp. unfold ex_search_promises in H.
  match type of H with context [fold_right ?f ?a ?l] => remember (fold_right f a l) as fr eqn:Efr end.
  destruct fr as [asc|]; [|discriminate]. inversion H; subst. apply limit_take_in in Hp. apply in_rev in Hp.
  clear H. revert asc Efr Hp. generalize (promises d) as ps.
  induction ps as [|x ps IH]; cbn; intros asc Efr Hp.
  - inversion Efr; subst. contradiction.
  - match type of Efr with context [fold_right ?f ?a ps] => destruct (fold_right f a ps) as [l|] eqn:E end; [|discriminate].
    destruct (below sid (p_sort x) && like (star_to_pct q) (p_id x) && in_mask (p_state x) (mask_of st)).
    + destruct (tags_match (p_tags x) tg) as [[|]|]; inversion Efr; subst.
      * destruct Hp as [Hp|Hp]; [left; exact Hp|right; eapply IH; [reflexivity|exact Hp]].
      * right. eapply IH; [reflexivity|exact Hp].
    + inversion Efr; subst. right. eapply IH; [reflexivity|exact Hp].
Qed.

Lemma created_prec : forall d pc, find_promise (cp_id pc) d = None ->
    prec (fst (ex_create_promise d pc)) (created_promise pc).
Proof.
  intros d pc F. unfold ex_create_promise. rewrite F. cbn. exists (new_promise pc (next_p d)). split.
  - apply in_or_app. right. left. reflexivity.
  - split; [unfold ceq; cbn; tauto|]. intros Hn. cbn in Hn. unfold Pending in Hn. contradiction.
Qed.

Lemma exec_res_for : forall d c h d' r, prom_uniq d -> TaskStates d -> accepts c = true -> exec d c h = Some (d', r) -> res_for d' c r.
Proof.
  intros d c h d' r U TS A H. destruct c; cbn in H; unfold alter in H;
    try (inversion H; subst; exact I);
    try (destruct (ex_search_schedules _ _ _ _ _); inversion H; subst; exact I);
    try (destruct (ex_read_enqueueable _ _ _); inversion H; subst; exact I);
    try (destruct (ex_create_tasks _ _ _); inversion H; subst; exact I).
  - (* ReadPromise *)
    inversion H; subst. unfold ex_read_promise. destruct (find_promise id d') as [p|] eqn:F; cbn; [|constructor].
    destruct (find_promise_in _ _ _ F) as [Hin Hid]. constructor; [|constructor]. split; [apply (prec_of_row d' p Hin)|exact Hid].
  - (* ReadPromises *)
    inversion H; subst. cbn. apply Forall_forall. intros p Hp. apply limit_take_in in Hp. apply filter_In in Hp.
    apply prec_of_row. tauto.
  - (* SearchPromises *)
    destruct (ex_search_promises d idq states tags limit sortid) as [r0|] eqn:E; [|discriminate]. inversion H; subst.
    destruct r; try exact I. cbn. apply Forall_forall. intros p Hp. apply prec_of_row. eapply search_promises_in; eassumption.
  - (* CreatePromise *)
    inversion H; subst. cbn. eexists. split; [reflexivity|].
    unfold ex_create_promise. destruct (find_promise (cp_id c) d) as [p|] eqn:F; cbn; [left; reflexivity|right].
    pose proof (created_prec d c F) as Hc. unfold ex_create_promise in Hc. rewrite F in Hc. exact Hc.
  - (* UpdatePromise *)
    inversion H; subst. cbn. intros Hn. cbn in A.
    destruct (filter (upd_guard c) (promises d)) as [|p l] eqn:Ef; [cbn in Hn; discriminate|].
    assert (Hp : In p (filter (upd_guard c) (promises d))) by (rewrite Ef; left; reflexivity).
    apply filter_In in Hp. destruct Hp as [Hp Hg]. exists (complete_p c p). split.
    + apply in_map_iff. exists p. rewrite Hg. tauto.
    + unfold upd_guard in Hg. apply andb_true_iff in Hg. destruct Hg as [Hg _]. apply String.eqb_eq in Hg.
      split; [cbn; exact Hg|]. unfold ucompl; cbn. tauto.
  - (* ReadTasks *)
    inversion H; subst. cbn. apply Forall_forall. intros t Ht. apply in_map_iff in Ht. destruct Ht as [t0 [<- Ht]].
    apply limit_take_in in Ht. apply sort_by_in in Ht. apply filter_In in Ht. destruct Ht as [Ht Hg].
    apply andb_true_iff in Hg. cbn. split; [tauto|apply TS; exact Ht].
  - (* CreatePromiseAndTask *)
    unfold ex_create_promise_and_task in H.
    destruct (find_promise (cp_id pc) d) as [p|] eqn:F.
    + unfold ex_create_promise in H. rewrite F in H. cbn in H. inversion H; subst. cbn. eexists _, _. split; [reflexivity|left; reflexivity].
    + pose proof (created_prec d pc F) as Hc. destruct (ex_create_promise d pc) as [d1 pr] eqn:E1.
      assert (pr = 1) by (unfold ex_create_promise in E1; rewrite F in E1; inversion E1; reflexivity). subst pr. cbn in H, Hc.
      pose proof (ct_promises d1 tc) as Hct. destruct (ex_create_task d1 tc) as [d2 tr]. cbn in Hct. inversion H; subst.
      cbn. eexists _, _. split; [reflexivity|right]. destruct Hc as [q [Hq Hrest]]. exists q. rewrite Hct. tauto.
Qed.

Definition sub_accepts (cs : list command) : Prop := Forall (fun c => accepts c = true /\ cmd_ts c) cs.

Lemma valid_init : valid_tstate TInit. Proof. unfold valid_tstate; tauto. Qed.
Lemma valid_completed : valid_tstate TCompleted. Proof. unfold valid_tstate; tauto. Qed.

Lemma exec_tstates : forall d c h d' r, cmd_ts c -> TaskStates d -> exec d c h = Some (d', r) -> TaskStates d'.
Proof.
  intros d c h d' r Hc TS H. destruct (is_task_write c) eqn:W.
  - destruct c; cbn in W; try discriminate; cbn in H; unfold alter in H.
    + inversion H; subst. unfold ex_create_task. destruct (find_task (ct_id c) d); cbn; [exact TS|].
      intros x Ht. apply in_app_or in Ht. destruct Ht as [Ht|[<-|[]]]; [apply TS; exact Ht|exact Hc].
    + destruct (ex_create_tasks d pid created) as [x|] eqn:E; [|discriminate]. inversion H; subst.
      unfold ex_create_tasks in E. destruct (existsb _ _); [discriminate|]. inversion E; subst. cbn.
      intros x Ht. apply in_app_or in Ht. destruct Ht as [Ht|Ht]; [apply TS; exact Ht|].
      clear - Ht. revert Ht. generalize (next_t d) as n.
      generalize (sort_by cb_le (filter (fun c => String.eqb (cb_pid c) pid) (callbacks d))) as l.
      induction l as [|y l IH]; intros n Ht; cbn in Ht; [contradiction|]. destruct Ht as [<-|Ht]; [apply valid_init|eapply IH; exact Ht].
    + inversion H; subst. cbn. intros x Ht. apply in_map_iff in Ht. destruct Ht as [t0 [<- Ht]].
      destruct (ct_guard root t0); [apply valid_completed|apply TS; exact Ht].
    + inversion H; subst. cbn. intros x Ht. apply in_map_iff in Ht. destruct Ht as [t0 [<- Ht]].
      destruct (ut_guard c t0); [exact Hc|apply TS; exact Ht].
    + inversion H; subst. cbn. intros x Ht. apply in_map_iff in Ht. destruct Ht as [t0 [<- Ht]].
      destruct (hb_t_guard pid t0); [cbn; apply TS; exact Ht|apply TS; exact Ht].
    + unfold ex_create_promise_and_task in H. pose proof (cp_tasks d pc) as H1.
      destruct (ex_create_promise d pc) as [d1 pr]. cbn in H1. destruct (pr =? 0).
      * inversion H; subst. intros x Ht. rewrite H1 in Ht. apply TS; exact Ht.
      * assert (TS1 : TaskStates d1) by (intros x Hx; rewrite H1 in Hx; apply TS; exact Hx).
        unfold ex_create_task in H. destruct (find_task (ct_id tc) d1); inversion H; subst; cbn; intros x Ht.
        -- apply TS1; exact Ht.
        -- apply in_app_or in Ht. destruct Ht as [Ht|[<-|[]]]; [apply TS1; exact Ht|exact Hc].
  - intros x Ht. rewrite (exec_tasks_frame _ _ _ _ _ H W) in Ht. apply TS; exact Ht.
Qed.

Lemma exec_txn_spec : forall cs hs d d' rs,
    prom_uniq d -> TaskStates d -> sub_accepts cs -> exec_txn d cs hs = Some (d', rs) ->
    prom_le d d' /\ prom_uniq d' /\ TaskStates d' /\ Forall2 (res_for d') cs rs.
Proof.
  induction cs as [|c cs IH]; intros hs d d' rs U TS A H; cbn in H.
  - inversion H; subst. split; [apply prom_le_refl|split; [exact U|split; [exact TS|constructor]]].
  - inversion A as [|? ? [H2 H2t] H3]; subst. destruct (exec d c (hd None hs)) as [[d1 r]|] eqn:E; [|discriminate].
    destruct (exec_txn d1 cs (tl hs)) as [[d2 rs2]|] eqn:E2; [|discriminate]. inversion H; subst.
    destruct (exec_prom_le _ _ _ _ _ U H2 E) as [L1 U1]. pose proof (exec_tstates _ _ _ _ _ H2t TS E) as TS1.
    destruct (IH _ _ _ _ U1 TS1 H3 E2) as [L2 [U2 [TS2 R2]]].
    split; [apply (prom_le_trans d d1 d' U U1 L1 L2)|]. split; [exact U2|]. split; [exact TS2|]. constructor; [|exact R2].
    eapply res_for_mono; [exact L2|]. exact (exec_res_for d c (hd None hs) d1 r U TS H2 E).
Qed.

Lemma Forall2_res_mono : forall d d' cs rs, prom_le d d' -> Forall2 (res_for d) cs rs -> Forall2 (res_for d') cs rs.
Proof. intros d d' cs rs L H. induction H; constructor; [eapply res_for_mono; eassumption|assumption]. Qed.

Lemma exec_batch_spec : forall txns d d' rss,
    prom_uniq d -> TaskStates d -> Forall (fun x => sub_accepts (fst x)) txns -> exec_batch d txns = Some (d', rss) ->
    prom_le d d' /\ prom_uniq d' /\ TaskStates d' /\ Forall2 (fun x rs => Forall2 (res_for d') (fst x) rs) txns rss.
Proof.
  induction txns as [|[cs hs] txns IH]; intros d d' rss U TS A H; cbn in H.
  - inversion H; subst. split; [apply prom_le_refl|split; [exact U|split; [exact TS|constructor]]].
  - inversion A; subst. destruct (exec_txn d cs hs) as [[d1 rs]|] eqn:E; [|discriminate].
    destruct (exec_batch d1 txns) as [[d2 rss2]|] eqn:E2; [|discriminate]. inversion H; subst.
    destruct (exec_txn_spec _ _ _ _ _ U TS H2 E) as [L1 [U1 [TS1 R1]]]. destruct (IH _ _ _ U1 TS1 H3 E2) as [L2 [U2 [TS2 R2]]].
    split; [apply (prom_le_trans d d1 d' U U1 L1 L2)|]. split; [exact U2|]. split; [exact TS2|]. constructor; [|exact R2]. cbn.
    eapply Forall2_res_mono; eassumption.
Qed.

Lemma ut_shape_valid : forall u, ut_shape u -> valid_tstate (ut_state u).
Proof. intros u (_&_&_&_&_&_&_&H). exact H. Qed.

Lemma sub_at_accepts : forall d t cs, Forall (cmd_at d t) cs -> sub_accepts cs.
Proof.
  intros d t cs H. eapply Forall_impl; [|exact H]. intros c Hc. destruct c; cbn in *; try (split; [reflexivity|exact I]).
  - split; [eapply up_ok_final; eassumption|exact I].
  - split; [reflexivity|]. unfold valid_tstate. tauto.
  - split; [reflexivity|]. apply ut_shape_valid. tauto.
  - split; [reflexivity|]. unfold valid_tstate. tauto.
Qed.

Lemma batch_txns_spec : forall d now batch pl txns,
    Forall (pend_ok d now) pl -> batch_txns batch pl = Some txns ->
    Forall (fun x => exists t, t <= now /\ Forall (cmd_at d t) (fst x) /\ txn_shape (fst x)) txns.
Proof.
  induction batch as [|e batch IH]; intros pl txns Hp H; cbn in H.
  - inversion H; constructor.
  - destruct (find_pend (ex_id e) (ex_n e) pl) as [p|] eqn:F; [|discriminate].
    destruct (pd_sub p) eqn:Es; try discriminate. destruct (pd_ready p) eqn:Er; [discriminate|].
    destruct (batch_txns batch pl) as [l|] eqn:Eb; [|discriminate]. inversion H; subst.
    constructor; [|eapply IH; eauto]. cbn. apply find_some in F. destruct F as [Fin _].
    pose proof (proj1 (Forall_forall _ _) Hp p Fin) as Hk. unfold pend_ok in Hk. rewrite Er, Es in Hk. exact Hk.
Qed.

Lemma batch_txns_set_ready : forall batch id n c pl,
    (forall e, In e batch -> pend_is (ex_id e) (ex_n e) (mkPend id n (SStore []) 0 None) = false) ->
    batch_txns batch (set_ready id n c pl) = batch_txns batch pl.
Proof.
  induction batch as [|e batch IH]; intros id n c pl H; cbn; [reflexivity|].
  pose proof (find_pend_set_ready_other id n c (ex_id e) (ex_n e) pl (H e (or_introl eq_refl))) as Hf.
  rewrite (IH id n c pl) by (intros; apply H; right; assumption).
  destruct (find_pend (ex_id e) (ex_n e) (set_ready id n c pl)) as [p1|], (find_pend (ex_id e) (ex_n e) pl) as [p2|];
    cbn in Hf; try discriminate; [|reflexivity].
  inversion Hf. rewrite H3, H4. reflexivity.
Qed.

Lemma set_batch_ready_ok : forall d now batch txns rss pl,
    batch_txns batch pl = Some txns -> nodup_items batch = true ->
    Forall (pend_ok d now) pl ->
    match rss with Some l => Forall2 (fun x rs => Forall2 (res_for d) (fst x) rs) txns l | None => True end ->
    Forall (pend_ok d now) (set_batch_ready batch rss pl).
Proof.
  induction batch as [|e batch IH]; intros txns rss pl Hb Hn Hp Hr; cbn; [exact Hp|].
  cbn in Hb, Hn. destruct (find_pend (ex_id e) (ex_n e) pl) as [p|] eqn:F; [|discriminate].
  destruct (pd_sub p) eqn:Es; try discriminate. destruct (pd_ready p) eqn:Er; [discriminate|].
  destruct (batch_txns batch pl) as [l|] eqn:Eb; [|discriminate]. inversion Hb; subst. clear Hb.
  apply andb_true_iff in Hn. destruct Hn as [Hn1 Hn2]. apply negb_true_iff in Hn1.
  eapply IH with (txns := l).
  - rewrite batch_txns_set_ready; [exact Eb|]. intros e' He'. unfold pend_is; cbn.
    destruct (String.eqb (ex_id e) (ex_id e') && Nat.eqb (ex_n e) (ex_n e')) eqn:E12.
    + exfalso. assert (existsb (fun e'0 => String.eqb (ex_id e) (ex_id e'0) && Nat.eqb (ex_n e) (ex_n e'0)) batch = true); [|congruence].
      apply existsb_exists. exists e'. tauto.
    + reflexivity.
  - exact Hn2.
  - apply set_ready_forall; [exact Hp|]. intros p' Hp'. rewrite F in Hp'. inversion Hp'; subst p'.
    unfold pend_ok; cbn. rewrite Es. destruct rss as [[|rs rss]|]; cbn; try exact I.
    destruct (ex_lose e); [exact I|]. inversion Hr as [|? ? ? ? Hhd Htl]; subst. exact Hhd.
  - destruct rss as [[|rs rss]|]; cbn; try exact I.
    + inversion Hr.
    + inversion Hr as [|? ? ? ? Hhd Htl]; subst. exact Htl.
Qed.


(* an instance's obligations towards the pending list only mention (id, n, submission) *)
Definition key3 (p : pend) := (pd_id p, pd_n p, pd_sub p).

Lemma in_keys : forall pl pl' p, map key3 pl = map key3 pl' -> In p pl' -> exists q, In q pl /\ key3 q = key3 p.
Proof.
  intros pl pl' p E Hp. assert (Hk : In (key3 p) (map key3 pl')) by (apply in_map; exact Hp).
  rewrite <- E in Hk. apply in_map_iff in Hk. destruct Hk as [q [Hq Hin]]. exists q. tauto.
Qed.

Lemma inst_ok_keys : forall d pl pl' i, map key3 pl = map key3 pl' -> inst_ok d pl i -> inst_ok d pl' i.
Proof.
  intros d pl pl' i E [A [B C]]. split; [exact A|]. split.
  - intros p Hp Hid. destruct (in_keys _ _ _ E Hp) as [q [Hq Hk]]. unfold key3 in Hk. inversion Hk as [[K1 K2 K3]].
    assert (Hq2 : pd_id q = i_id i) by congruence. pose proof (B q Hq Hq2). lia.
  - intros k n Es. destruct (C k n Es) as [C1 C2]. split; [exact C1|]. intros p Hp Hid Hn.
    destruct (in_keys _ _ _ E Hp) as [q [Hq Hk]]. unfold key3 in Hk. inversion Hk as [[K1 K2 K3]].
    assert (Hq2 : pd_id q = i_id i) by congruence. assert (Hq3 : pd_n q = n) by congruence.
    pose proof (C2 q Hq Hq2 Hq3) as HH. first [exact HH|rewrite K3 in HH; exact HH|rewrite <- K3; exact HH].
Qed.

Lemma set_batch_ready_keys : forall batch rss pl, map key3 (set_batch_ready batch rss pl) = map key3 pl.
Proof.
  induction batch as [|e batch IH]; intros rss pl; cbn; [reflexivity|]. rewrite IH. apply set_ready_keys.
Qed.

Lemma SInv_exec : forall cfg s batch s' ob, SInv s -> step cfg s (DExec batch) = Some (s', ob) -> SInv s'.
Proof.
  intros cfg s batch s' ob [[U TS] [HP [HI ND]]] H. cbn in H.
  destruct (batch_txns batch (s_pend s)) as [txns|] eqn:Eb; [|discriminate].
  destruct (negb (nodup_items batch)) eqn:En; [discriminate|]. apply negb_false_iff in En.
  destruct (c_fifo cfg && negb (fifo_ok batch (s_pend s))); [discriminate|].
  pose proof (batch_txns_spec _ _ _ _ _ HP Eb) as Ht.
  assert (Hacc : Forall (fun x => sub_accepts (fst x)) txns).
  { eapply Forall_impl; [|exact Ht]. intros x [t [_ [Hx _]]]. eapply sub_at_accepts; exact Hx. }
  destruct (exec_batch (s_db s) txns) as [[d' rss]|] eqn:Ee; inversion H; subst; clear H; unfold SInv; cbn.
  - destruct (exec_batch_spec _ _ _ _ U TS Hacc Ee) as [L [U' [TS' R]]].
    split; [split; [exact U'|exact TS']|]. split; [|split; [|exact ND]].
    + eapply set_batch_ready_ok; [exact Eb|exact En| |exact R].
      eapply Forall_impl; [|exact HP]. intros p. apply pend_ok_mono; [exact L|lia].
    + eapply Forall_impl; [|exact HI]. intros i Hi. eapply inst_ok_keys; [symmetry; apply set_batch_ready_keys|].
      eapply inst_ok_mono; eassumption.
  - split; [split; [exact U|exact TS]|]. split; [|split; [|exact ND]].
    + eapply set_batch_ready_ok; [exact Eb|exact En|exact HP|exact I].
    + eapply Forall_impl; [|exact HI]. intros i Hi. eapply inst_ok_keys; [symmetry; apply set_batch_ready_keys|exact Hi].
Qed.

Lemma SInv_set_ready : forall s id n c p,
    SInv s -> find_pend id n (s_pend s) = Some p -> rdy_ok (s_db s) (pd_sub p) c ->
    SInv (mkSys (s_db s) (s_now s) (s_group s) (s_insts s) (set_ready id n c (s_pend s))).
Proof.
  intros s id n c p [[U TS] [HP [HI ND]]] F Hr. unfold SInv; cbn. split; [split; [exact U|exact TS]|]. split; [|split; [|exact ND]].
  - apply set_ready_forall; [exact HP|]. intros p' Hp'. rewrite F in Hp'. inversion Hp'; subst p'. unfold pend_ok; cbn. exact Hr.
  - eapply Forall_impl; [|exact HI]. intros i Hi. eapply inst_ok_keys; [symmetry; apply set_ready_keys|exact Hi].
Qed.

Lemma SInv_step : forall cfg s d s' ob, SInv s -> dir_wf d -> step cfg s d = Some (s', ob) -> SInv s'.
Proof.
  intros cfg s d s' ob HS Hwf H. destruct d.
  - eapply SInv_tick; eassumption.
  - eapply SInv_exec; eassumption.
  - cbn in H. destruct (find_pend id n (s_pend s)) as [p|] eqn:F; [|discriminate].
    destruct (unready p); inversion H; subst. eapply SInv_set_ready; [exact HS|exact F|].
    destruct (pd_sub p); exact I.
  - cbn in H. destruct (find_pend id n (s_pend s)) as [p|] eqn:F; [|discriminate].
    destruct (pd_sub p) eqn:Es; try discriminate. destruct (pd_ready p); inversion H; subst.
    eapply SInv_set_ready; [exact HS|exact F|]. rewrite Es. destruct res; exact I.
  - cbn in H. destruct (find_pend id n (s_pend s)) as [p|] eqn:F; [|discriminate].
    destruct (pd_sub p) eqn:Es; try discriminate. destruct (pd_ready p); inversion H; subst.
    eapply SInv_set_ready; [exact HS|exact F|]. rewrite Es. destruct res; exact I.
  - cbn in H. inversion H; subst. destruct HS as [U _]. unfold SInv; cbn. split; [exact U|]. repeat split; constructor.
Qed.

(* ---------- what a tick can show ---------- *)

Definition obs_out (d : db) (t : Z) (x : obs) : Prop :=
  exists id o next, x = OInst id (o_subs o) (visible_resp (o_resp o)) /\ out_ok d t next o.

Lemma inst_obs_cases : forall id o x, In x (inst_obs id o) -> x = OInst id (o_subs o) (visible_resp (o_resp o)) /\ (o_subs o <> [] \/ visible_resp (o_resp o) <> None).
Proof.
  intros id o x H. unfold inst_obs in H.
  destruct (o_subs o) eqn:E1; destruct (visible_resp (o_resp o)) eqn:E2; cbn in H; try contradiction;
    destruct H as [H|[]]; subst; (split; [reflexivity|]); try (left; discriminate); right; discriminate.
Qed.

Lemma run_insts_obs : forall cfg now g ds il x,
    In x (snd (run_insts cfg now g ds il)) ->
    exists i, In i il /\ In x (inst_obs (i_id i) (inst_step cfg now ds i)).
Proof.
  induction il as [|i il IH]; intros x H; cbn in H; [contradiction|].
  destruct (run_insts cfg now g ds il) as [[il2 pl2] ob2] eqn:E. cbn in H. apply in_app_or in H. destruct H as [H|H].
  - exists i. split; [left; reflexivity|exact H].
  - destruct (IH x H) as [j [Hj Ho]]. exists j. split; [right; assumption|assumption].
Qed.

Lemma start_insts_obs : forall starts g x,
    In x (snd (start_insts starts g)) -> exists id o, In (id, o) starts /\ In x (inst_obs id o).
Proof.
  induction starts as [|[id o] rest IH]; intros g x H; cbn in H; [contradiction|].
  destruct (start_insts rest g) as [[il pl] ob] eqn:E. cbn in H. apply in_app_or in H. destruct H as [H|H].
  - exists id, o. split; [left; reflexivity|exact H].
  - specialize (IH g x). rewrite E in IH. destruct (IH H) as [id' [o' [Hin Ho]]]. exists id', o'. split; [right; assumption|assumption].
Qed.

Lemma tick_obs_ok : forall cfg s t dl bgs arr s' ob,
    SInv s -> dir_wf (DTick t dl bgs arr) -> step cfg s (DTick t dl bgs arr) = Some (s', ob) ->
    s_now s <= t /\ s_db s' = s_db s /\ Forall (obs_out (s_db s) t) ob.
Proof.
  intros cfg s t dl bgs arr s' ob [[U TS] [HP [HI ND]]] Hwf H. cbn in H, Hwf.
  destruct (t <? s_now s) eqn:Et; [discriminate|]. apply Z.ltb_ge in Et. split; [exact Et|].
  destruct (negb (ids_fresh s (map fst bgs ++ map fst arr))); [discriminate|].
  destruct (take_deliveries dl (s_pend s)) as [[ds pl]|] eqn:Etd; [|discriminate].
  destruct (take_deliveries_spec _ _ _ _ Etd) as [Hsub Hdel].
  destruct (run_insts cfg t (s_group s) ds (s_insts s)) as [[il1 pl1] ob1] eqn:E1.
  match type of H with context [start_insts ?st ?g] => set (starts := st) in * end.
  destruct (start_insts starts (s_group s)) as [[il2 pl2] ob2] eqn:E2.
  inversion H; subst; clear H. split; [reflexivity|].
  apply Forall_forall. intros x Hx. apply in_app_or in Hx. destruct Hx as [Hx|Hx].
  - pose proof (run_insts_obs cfg t (s_group s) ds (s_insts s) x) as R. rewrite E1 in R. destruct (R Hx) as [i [Hi Hin]].
    destruct (inst_obs_cases _ _ _ Hin) as [Ex Hne]. exists (i_id i), (inst_step cfg t ds i), (i_next i). split; [exact Ex|].
    pose proof (proj1 (Forall_forall _ _) HI i Hi) as [Hst [_ Hexp]].
    assert (Hr : inst_step cfg t ds i = mkOut (i_st i) [] None \/ out_ok (s_db s) t (i_next i) (inst_step cfg t ds i)).
    { unfold inst_step. apply run_inst_ok; [exact U|exact Hst|].
      intros n c Hc. apply deliveries_for_in in Hc. destruct (Hdel _ _ _ Hc) as [p [Hp [Hid [Hn Hr]]]].
      exists (pd_sub p). split.
      - pose proof (proj1 (Forall_forall _ _) HP p Hp) as Hpk. unfold pend_ok in Hpk. rewrite Hr in Hpk. exact Hpk.
      - intros k E. destruct (Hexp k n E) as [_ Hk]. apply Hk; assumption. }
    destruct Hr as [Hr|Hr]; [|exact Hr]. rewrite Hr in Hne. cbn in Hne. destruct Hne as [Hne|Hne]; contradiction.
  - pose proof (start_insts_obs starts (s_group s) x) as R. rewrite E2 in R. destruct (R Hx) as [id [o [Hin Hobs]]].
    destruct (inst_obs_cases _ _ _ Hobs) as [Ex _]. exists id, o, 0%nat. split; [exact Ex|].
    unfold starts in Hin. apply in_app_or in Hin. destruct Hin as [Hin|Hin]; apply in_map_iff in Hin;
      destruct Hin as [y [Hy Hin]]; inversion Hy; subst.
    + apply start_bg_ok.
    + apply start_req_ok. eapply Forall_forall in Hwf; [exact Hwf|exact Hin].
Qed.

(* the transactions of an executed batch *)
Lemma exec_obs : forall cfg s batch s' ob,
    SInv s -> step cfg s (DExec batch) = Some (s', ob) ->
    exists txns, Forall (fun x => exists t, t <= s_now s /\ Forall (cmd_at (s_db s) t) (fst x) /\ txn_shape (fst x)) txns /\
                 ((exists rss, exec_batch (s_db s) txns = Some (s_db s', rss) /\ ob = [OExec (map fst txns) (Some rss) (s_db s')]) \/
                  (exec_batch (s_db s) txns = None /\ s_db s' = s_db s /\ ob = [OExec (map fst txns) None (s_db s)])).
Proof.
  intros cfg s batch s' ob [[U TS] [HP _]] H. cbn in H.
  destruct (batch_txns batch (s_pend s)) as [txns|] eqn:Eb; [|discriminate].
  destruct (negb (nodup_items batch)); [discriminate|].
  destruct (c_fifo cfg && negb (fifo_ok batch (s_pend s))); [discriminate|].
  exists txns. split; [eapply batch_txns_spec; eassumption|].
  destruct (exec_batch (s_db s) txns) as [[d' rss]|] eqn:Ee; inversion H; subst; cbn.
  - left. exists rss. tauto.
  - right. tauto.
Qed.

Lemma other_steps_db : forall cfg s d s' ob,
    step cfg s d = Some (s', ob) -> match d with DTick _ _ _ _ | DExec _ => False | _ => True end -> s_db s' = s_db s /\ ob = [].
Proof.
  intros cfg s d s' ob H Hd. destruct d; try contradiction; cbn in H.
  - destruct (find_pend id n (s_pend s)); [|discriminate]. destruct (unready p); inversion H; subst; tauto.
  - destruct (find_pend id n (s_pend s)); [|discriminate]. destruct (pd_sub p); try discriminate.
    destruct (pd_ready p); inversion H; subst; tauto.
  - destruct (find_pend id n (s_pend s)); [|discriminate]. destruct (pd_sub p); try discriminate.
    destruct (pd_ready p); inversion H; subst; tauto.
  - inversion H; subst; tauto.
Qed.
