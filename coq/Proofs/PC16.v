(* C16: the store commands are conditional writes; transactions run in order; batches are all-or-nothing. *)
From RV Require Import Mon StoreLocks StorePromises Eqb.
From Coq Require Import Lia.

(* create only if absent *)
Lemma create_iff_absent : forall d c,
    (find_promise (cp_id c) d = None ->
     snd (ex_create_promise d c) = 1 /\ promises (fst (ex_create_promise d c)) = (promises d ++ [new_promise c (next_p d)])%list) /\
    (find_promise (cp_id c) d <> None ->
     snd (ex_create_promise d c) = 0 /\ promises (fst (ex_create_promise d c)) = promises d).
Proof.
  intros d c. unfold ex_create_promise. destruct (find_promise (cp_id c) d); split; intros H; try congruence; cbn; tauto.
Qed.

(* complete only if pending; exactly the matching rows change; the count reported is the count changed *)
Lemma complete_iff_pending : forall d c,
    snd (ex_update_promise d c) = blen (filter (fun p => String.eqb (p_id p) (up_id c) && (p_state p =? 1)) (promises d)) /\
    promises (fst (ex_update_promise d c)) =
      map (fun p => if String.eqb (p_id p) (up_id c) && (p_state p =? 1) then complete_p c p else p) (promises d).
Proof. intros d c. unfold ex_update_promise, upd_guard. cbn. split; reflexivity. Qed.

Lemma complete_not_pending_noop : forall d c,
    (forall p, In p (promises d) -> p_id p = up_id c -> p_state p <> 1) ->
    promises (fst (ex_update_promise d c)) = promises d /\ snd (ex_update_promise d c) = 0.
Proof.
  intros d c H. unfold ex_update_promise; cbn.
  assert (Hf : forall ps, (forall p, In p ps -> p_id p = up_id c -> p_state p <> 1) ->
                          map (fun p => if upd_guard c p then complete_p c p else p) ps = ps /\ filter (upd_guard c) ps = []).
  { induction ps as [|x ps IH]; intros Hx; cbn; [split; reflexivity|].
    destruct (IH (fun p Hp => Hx p (or_intror Hp))) as [I1 I2].
    assert (G : upd_guard c x = false).
    { unfold upd_guard. destruct (String.eqb (p_id x) (up_id c)) eqn:E1; [|reflexivity].
      destruct (p_state x =? 1) eqn:E2; [|reflexivity]. apply String.eqb_eq in E1. apply Z.eqb_eq in E2.
      exfalso. exact (Hx x (or_introl eq_refl) E1 E2). }
    rewrite G, I1, I2. split; reflexivity. }
  destruct (Hf (promises d) H) as [F1 F2]. rewrite F1, F2. split; reflexivity.
Qed.

(* register a callback only on a pending promise and only once *)
Lemma callback_iff_pending_and_new : forall d c,
    let ok := existsb (fun p => String.eqb (p_id p) (cc_pid c) && (p_state p =? 1)) (promises d) &&
              negb (existsb (fun x => String.eqb (cb_id x) (cc_id c)) (callbacks d)) in
    (ok = true -> ex_create_callback d c = (set_callbacks d (callbacks d ++ [new_callback c]), 1)) /\
    (ok = false -> ex_create_callback d c = (d, 0)).
Proof. intros d c ok. unfold ex_create_callback. fold ok. destruct ok; split; intros H; try discriminate; reflexivity. Qed.

(* update a task only if its state is in the mask and its counter matches *)
Lemma update_task_iff_state_counter : forall d c,
    snd (ex_update_task d c) = blen (filter (ut_guard c) (tasks d)) /\
    tasks (fst (ex_update_task d c)) = map (fun t => if ut_guard c t then update_t c t else t) (tasks d).
Proof. intros d c. unfold ex_update_task. cbn. split; reflexivity. Qed.

Lemma update_task_guard : forall c t,
    ut_guard c t = true <-> (t_id t = ut_id c /\ in_mask (t_state t) (mask_of (ut_cur_states c)) = true /\ t_counter t = ut_cur_counter c).
Proof.
  intros c t. unfold ut_guard. rewrite !andb_true_iff, String.eqb_eq, Z.eqb_eq. tauto.
Qed.

(* acquire only if free or held by the same execution *)
Lemma acquire_iff_free_or_same_exec : forall d res exec proc ttl exp,
    match find_lock res d with
    | None => ex_acquire_lock d res exec proc ttl exp = (set_locks d (locks d ++ [mkL res exec proc ttl exp]), 1)
    | Some l => if String.eqb (l_exec l) exec then snd (ex_acquire_lock d res exec proc ttl exp) = 1
                else ex_acquire_lock d res exec proc ttl exp = (d, 0)
    end.
Proof.
  intros. unfold ex_acquire_lock. destruct (find_lock res d) as [l|]; [|reflexivity].
  destruct (String.eqb (l_exec l) exec); reflexivity.
Qed.

(* a transaction applies its commands in submission order *)
Lemma txn_in_order : forall d c cs hs,
    exec_txn d (c :: cs) hs =
    match exec d c (hd None hs) with
    | Some (d1, r) => match exec_txn d1 cs (tl hs) with Some (d2, rs) => Some (d2, r :: rs) | None => None end
    | None => None
    end.
Proof. reflexivity. Qed.

(* a batch is the sequential execution of all its commands, or nothing at all *)
Lemma batch_is_sequential : forall txns d d' rss, exec_batch d txns = Some (d', rss) -> exec_cmds d (flat_batch txns) = Some d'.
Proof. exact exec_batch_cmds. Qed.

Lemma batch_results_aligned : forall txns d d' rss, exec_batch d txns = Some (d', rss) -> List.length rss = List.length txns.
Proof.
  induction txns as [|[cs hs] txns IH]; intros d d' rss H; cbn in H.
  - inversion H; reflexivity.
  - destruct (exec_txn d cs hs) as [[d1 rs]|]; [|discriminate]. destruct (exec_batch d1 txns) as [[d2 rss2]|] eqn:E; [|discriminate].
    inversion H; subst. cbn. f_equal. eapply IH; eassumption.
Qed.

(* all or nothing at the system level: a failing command fails every submission of the batch and the database
   is unchanged *)
Lemma batch_all_or_nothing : forall cfg s batch s' ob txns,
    batch_txns batch (s_pend s) = Some txns -> exec_batch (s_db s) txns = None ->
    step cfg s (DExec batch) = Some (s', ob) ->
    s_db s' = s_db s /\ ob = [OExec (map fst txns) None (s_db s)] /\ s_pend s' = set_batch_ready batch None (s_pend s).
Proof.
  intros cfg s batch s' ob txns Eb Ee H. cbn in H. rewrite Eb in H.
  destruct (negb (nodup_items batch)); [discriminate|].
  destruct (c_fifo cfg && negb (fifo_ok batch (s_pend s))); [discriminate|].
  rewrite Ee in H. inversion H; subst. cbn. tauto.
Qed.

Lemma set_ready_in_err : forall id n pl p, In p (set_ready id n CErr pl) -> In p pl \/ pd_ready p = Some CErr.
Proof.
  induction pl as [|x pl IH]; cbn; intros p H; [contradiction|]. destruct (pend_is id n x).
  - destruct H as [<-|H]; [right; reflexivity|left; right; exact H].
  - destruct H as [<-|H]; [left; left; reflexivity|]. destruct (IH p H); [left; right; assumption|right; assumption].
Qed.

Lemma failed_batch_only_errors : forall batch pl p, In p (set_batch_ready batch None pl) -> In p pl \/ pd_ready p = Some CErr.
Proof.
  induction batch as [|e batch IH]; intros pl p H; cbn in H; [left; exact H|].
  destruct (IH _ _ H) as [H1|H1]; [|right; exact H1]. apply set_ready_in_err in H1. exact H1.
Qed.
