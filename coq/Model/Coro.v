(* L2: the 17 request coroutines and the 5 background coroutines of internal/app/coroutines as
   resumption machines.  A coroutine instance is a state; [start] gives its first step, [deliver]
   hands it the completion of one of its submissions, [run] lets it proceed as far as it can at the
   time of the current tick.  Executable Gallina only; no proofs here. *)
From RV Require Export Store.

(* ---------- configuration ---------- *)

Record config := mkCfg {
  c_url : string;
  c_pbatch : Z; c_sbatch : Z; c_tbatch : Z;      (* promise / schedule / task batch sizes *)
  c_enq_delay : Z;                                (* TaskEnqueueDelay in ms *)
  c_next : string -> Z -> option Z;               (* util.Next(curr, cron); None = error *)
  c_fifo : bool                                   (* store executes earlier tick groups first *)
}.

(* ---------- requests and responses ---------- *)

Record create_promise_req := mkCPR {
  cpr_id : string; cpr_ikey : option string; cpr_strict : bool; cpr_ph : smap; cpr_pd : string;
  cpr_timeout : Z; cpr_tags : smap }.

Record complete_promise_req := mkCMR {
  cmr_id : string; cmr_ikey : option string; cmr_strict : bool; cmr_state : Z; cmr_vh : smap; cmr_vd : string }.

Record create_schedule_req := mkCSR {
  csr_id : string; csr_desc : string; csr_cron : string; csr_tags : smap; csr_pid : string;
  csr_ptimeout : Z; csr_pph : smap; csr_ppd : string; csr_ptags : smap; csr_ikey : option string }.

Inductive request :=
| QReadPromise (id : string)
| QSearchPromises (idq : string) (states : list Z) (tags : smap) (limit : Z) (sortid : option Z)
| QCreatePromise (r : create_promise_req)
| QCreatePromiseAndTask (r : create_promise_req) (pid : string) (ttl : Z)
| QCompletePromise (r : complete_promise_req)
| QCreateCallback (pid root : string) (timeout : Z) (recv : string)
| QCreateSubscription (id pid : string) (timeout : Z) (recv : string)
| QReadSchedule (id : string)
| QSearchSchedules (idq : string) (tags : smap) (limit : Z) (sortid : option Z)
| QCreateSchedule (r : create_schedule_req)
| QDeleteSchedule (id : string)
| QAcquireLock (res exec proc : string) (ttl : Z)
| QReleaseLock (res exec : string)
| QHeartbeatLocks (proc : string)
| QClaimTask (id : string) (counter : Z) (pid : string) (ttl : Z)
| QCompleteTask (id : string) (counter : Z)
| QHeartbeatTasks (pid : string).

Inductive bgkind := BTimeoutPromises | BSchedulePromises | BTimeoutLocks | BEnqueueTasks | BTimeoutTasks.

Inductive response :=
| RspPromise (status : Z) (p : option promise)
| RspPromiseTask (status : Z) (p : option promise) (t : option task)
| RspSearchP (status : Z) (ps : list promise) (cursor : option Z)
| RspCallback (status : Z) (p : option promise) (cb : option callback)
| RspSchedule (status : Z) (s : option schedule)
| RspSearchS (status : Z) (ss : list schedule) (cursor : option Z)
| RspStatus (status : Z)
| RspLock (status : Z) (l : option lock)
| RspCount (status : Z) (n : Z)
| RspClaim (status : Z) (t : option task) (rp lp : option promise) (rh lh : string)
| RspTask (status : Z) (t : option task)
| RspError (code : Z)
| RspPanic
| RspBgDone.

Definition status_of (r : response) : Z :=
  match r with
  | RspPromise s _ | RspPromiseTask s _ _ | RspSearchP s _ _ | RspCallback s _ _ | RspSchedule s _
  | RspSearchS s _ _ | RspStatus s | RspLock s _ | RspCount s _ | RspClaim s _ _ _ _ _ | RspTask s _ => s
  | RspError c => c
  | RspPanic => -1
  | RspBgDone => 0
  end.

Definition response_eqb (a b : response) : bool :=
  match a, b with
  | RspPromise s p, RspPromise s' p' => (s =? s') && opt_eqb promise_eqb p p'
  | RspPromiseTask s p t, RspPromiseTask s' p' t' => (s =? s') && opt_eqb promise_eqb p p' && opt_eqb task_eqb t t'
  | RspSearchP s ps c, RspSearchP s' ps' c' => (s =? s') && list_eqb promise_eqb ps ps' && opt_eqb Z.eqb c c'
  | RspCallback s p c, RspCallback s' p' c' => (s =? s') && opt_eqb promise_eqb p p' && opt_eqb callback_eqb c c'
  | RspSchedule s x, RspSchedule s' x' => (s =? s') && opt_eqb schedule_eqb x x'
  | RspSearchS s xs c, RspSearchS s' xs' c' => (s =? s') && list_eqb schedule_eqb xs xs' && opt_eqb Z.eqb c c'
  | RspStatus s, RspStatus s' => s =? s'
  | RspLock s l, RspLock s' l' => (s =? s') && opt_eqb lock_eqb l l'
  | RspCount s n, RspCount s' n' => (s =? s') && (n =? n')
  | RspClaim s t rp lp rh lh, RspClaim s' t' rp' lp' rh' lh' =>
    (s =? s') && opt_eqb task_eqb t t' && opt_eqb promise_eqb rp rp' && opt_eqb promise_eqb lp lp' &&
    String.eqb rh rh' && String.eqb lh lh'
  | RspTask s t, RspTask s' t' => (s =? s') && opt_eqb task_eqb t t'
  | RspError c, RspError c' => c =? c'
  | RspPanic, RspPanic => true
  | RspBgDone, RspBgDone => true
  | _, _ => false
  end.

(* ---------- submissions and completions ---------- *)

Record send_req := mkSend {
  sd_task : task; sd_promise : option promise; sd_claim : string; sd_complete : string; sd_heartbeat : string }.

Inductive sub :=
| SStore (t : list command)
| SRouter (p : promise)
| SSender (m : send_req).

Inductive cpl :=
| CStore (rs : list result)
| CRouter (recv : option string)       (* Matched + recv bytes, or not matched *)
| CSender (ok : bool)
| CErr.

(* ---------- status codes used by the coroutines ---------- *)
Definition StOK : Z := 20000.
Definition StCreated : Z := 20100.
Definition StNoContent : Z := 20400.
Definition StCallbackInvalidPromise : Z := 40001.
Definition StAlreadyResolved : Z := 40300.
Definition StAlreadyRejected : Z := 40301.
Definition StAlreadyCanceled : Z := 40302.
Definition StAlreadyTimedout : Z := 40303.
Definition StLockAlreadyAcquired : Z := 40304.
Definition StTaskAlreadyClaimed : Z := 40305.
Definition StTaskAlreadyCompleted : Z := 40306.
Definition StTaskInvalidCounter : Z := 40307.
Definition StTaskInvalidState : Z := 40308.
Definition StPromiseNotFound : Z := 40400.
Definition StScheduleNotFound : Z := 40401.
Definition StLockNotFound : Z := 40402.
Definition StTaskNotFound : Z := 40403.
Definition StRecvNotFound : Z := 40404.
Definition StMatchError : Z := 50002.
Definition StPromiseAlreadyExists : Z := 40900.
Definition StScheduleAlreadyExists : Z := 40901.
Definition StStoreError : Z := 50004.

(* ---------- helpers mirrored from the Go code ---------- *)

Definition timedout_state (tags : smap) : Z :=   (* promise.GetTimedoutState *)
  if opt_eqb String.eqb (lookup "resonate:timeout"%string tags) (Some "true"%string) then Resolved else Timedout.

Definition timeout_cmd (p : promise) : update_promise_cmd :=
  mkUP (p_id p) (timedout_state (p_tags p)) [] EmptyString None (p_timeout p).

(* completePromise(): the four commands, always in one transaction *)
Definition completion_txn (cmd : update_promise_cmd) (now : Z) : list command :=
  [UpdatePromise cmd; CompleteTasks (up_id cmd) now; CreateTasks (up_id cmd) now; DeleteCallbacks (up_id cmd)].

(* the record as the response shows it after a successful completion *)
Definition merged (p : promise) (cmd : update_promise_cmd) : promise :=
  mkP (p_id p) 0 (up_state cmd) (p_ph p) (p_pd p) (up_vh cmd) (up_vd cmd) (p_timeout p) (p_ikc p)
      (up_ikey cmd) (p_tags p) (p_created p) (Some (up_completed cmd)).

Definition already_completed_status (state : Z) : Z :=
  if state =? Resolved then StAlreadyResolved
  else if state =? Rejected then StAlreadyRejected
  else if state =? Canceled then StAlreadyCanceled
  else StAlreadyTimedout.

Definition invoke_task_id (pid : string) : string := ("__invoke:" ++ pid)%string.
Definition callback_id (root pid : string) : string := ("__resume:" ++ root ++ ":" ++ pid)%string.
Definition subscription_id (pid id : string) : string := ("__notify:" ++ pid ++ ":" ++ id)%string.

(* decimal rendering of an integer (fmt %d) *)
Definition digit (n : Z) : ascii := ascii_of_nat (48 + Z.to_nat n).
Fixpoint dec_pos (fuel : nat) (n : Z) (acc : string) : string :=
  match fuel with
  | O => acc
  | S f => let acc' := String (digit (n mod 10)) acc in
           if n / 10 =? 0 then acc' else dec_pos f (n / 10) acc'
  end.
Definition dec (n : Z) : string :=
  if n <? 0 then String "-"%char (dec_pos 25 (- n) EmptyString) else dec_pos 25 n EmptyString.

Definition href (url kind id : string) (counter : Z) : string :=
  (url ++ "/tasks/" ++ kind ++ "/" ++ id ++ "/" ++ dec counter)%string.
Definition promise_href (url id : string) : string := (url ++ "/promises/" ++ id)%string.

(* text/template expansion of the promise id template, restricted to the two documented actions
   {{.id}} and {{.timestamp}}; any other action is outside the model (None). *)
Fixpoint prefix_rest (p s : string) : option string :=
  match p with
  | EmptyString => Some s
  | String a p' => match s with
                   | String b s' => if Ascii.eqb a b then prefix_rest p' s' else None
                   | EmptyString => None
                   end
  end.

Fixpoint expand_fuel (fuel : nat) (tpl id ts : string) : option string :=
  match fuel with
  | O => None
  | S f =>
    match tpl with
    | EmptyString => Some EmptyString
    | String c tpl' =>
      match prefix_rest "{{.id}}" tpl with
      | Some rest => option_map (fun r => id ++ r)%string (expand_fuel f rest id ts)
      | None =>
        match prefix_rest "{{.timestamp}}" tpl with
        | Some rest => option_map (fun r => ts ++ r)%string (expand_fuel f rest id ts)
        | None =>
          match prefix_rest "{{" tpl with
          | Some _ => None
          | None => option_map (String c) (expand_fuel f tpl' id ts)
          end
        end
      end
    end
  end.
Definition expand (tpl id ts : string) : option string := expand_fuel (S (String.length tpl)) tpl id ts.

(* map insertion keeping keys sorted (Go maps have no order; the harness sorts) *)
Fixpoint smap_set (k v : string) (m : smap) : smap :=
  match m with
  | [] => [(k, v)]
  | (k', v') :: m' =>
    match String.compare k k' with
    | Lt => (k, v) :: m
    | Eq => (k, v) :: m'
    | Gt => (k', v') :: smap_set k v m'
    end
  end.

(* ---------- coroutine state ---------- *)

(* a child coroutine of a fan-out *)
Inductive slot :=
| SlWait (n : nat)                                           (* awaiting the completion of its submission n *)
| SlRouter (n : nat) (pc : create_promise_cmd) (extra : list command)   (* createPromise child awaiting the router *)
| SlDone (c : cpl).                                          (* finished: store completion, sender completion, or error *)

Inductive kont :=
(* promises *)
| KReadP (id : string)
| KReadP_to (id : string) (p : promise) (cmd : update_promise_cmd)
| KCreate (r : create_promise_req) (tc : option create_task_cmd) (with_task : bool)
| KCreate_router (r : create_promise_req) (tc : option create_task_cmd) (with_task : bool) (pc : create_promise_cmd)
| KCreate_store (r : create_promise_req) (tc0 : option create_task_cmd) (with_task : bool)
                (pc : create_promise_cmd) (tc : option create_task_cmd)
| KCreate_to (r : create_promise_req) (tc : option create_task_cmd) (with_task : bool) (p : promise) (cmd : update_promise_cmd)
| KComplete (r : complete_promise_req)
| KComplete_up (r : complete_promise_req) (p : promise) (cmd : update_promise_cmd) (status : Z)
| KCallback (pid : string) (cbid : string) (m : mesg) (timeout : Z) (recv : string)
| KCallback_ins (p : promise) (c : create_callback_cmd)
| KCallback_reread (pid : string)
| KSearchP (idq : string) (states : list Z) (tags : smap) (limit : Z) (sortid : option Z)
(* schedules *)
| KReadS
| KSearchS (limit : Z)
| KCreateS (r : create_schedule_req)
| KCreateS_ins (r : create_schedule_req) (c : create_schedule_cmd)
| KDeleteS
(* locks *)
| KAcquire (res exec proc : string) (ttl exp : Z)
| KRelease
| KHeartbeatL
(* tasks *)
| KClaim (id : string) (counter : Z) (pid : string) (ttl : Z)
| KClaim_up (id : string) (counter : Z) (pid : string) (ttl : Z) (t : task) (exp : Z)
| KClaim_read (t : task)
| KCompleteT (id : string) (counter : Z)
| KCompleteT_up (id : string) (counter : Z) (t : task) (completed : Z)
| KHeartbeatT
(* background *)
| KBgTimeoutP
| KBgSchedule
| KBgLocks
| KBgEnqueue
| KBgEnqueue_promises (ts : list task)
| KBgFinal
| KBgTimeoutT.

Inductive fkont :=
| FSearchP (idq : string) (states : list Z) (tags : smap) (limit : Z) (sortid : option Z)
| FBgTimeoutP
| FBgSchedule
| FBgEnqueue (ts : list task) (now0 : Z) (exp : Z) (pre : list command).
    (* ts: the records read, one slot per record; a record already past its timeout has slot SlDone CErr
       and its Timedout command is in [pre] *)

Inductive cstate :=
| CSeq (k : kont) (n : nat)          (* awaiting submission n, then continue with k *)
| CFan (k : fkont) (slots : list slot) (wake : list nat)   (* wake: slot indexes in awaiting-queue order *)
| CDone.

Record step_out := mkOut {
  o_state : cstate;
  o_subs : list sub;              (* new submissions, in dispatch order *)
  o_resp : option response }.

Definition out_wait (k : kont) (next : nat) (s : sub) : step_out := mkOut (CSeq k next) [s] None.
Definition out_fin (r : response) : step_out := mkOut CDone [] (Some r).

(* ---------- starting a coroutine at tick time [now]; [next] is its next submission number ---------- *)

Definition create_task_cmd_for (r : create_promise_req) (pid : string) (ttl : Z) (now : Z) : create_task_cmd :=
  mkCT (invoke_task_id (cpr_id r)) EmptyString (mkMesg "invoke" (cpr_id r) (cpr_id r)) (cpr_timeout r)
       (Some pid) TClaimed ttl (add64 now ttl) now.

Definition start_req (q : request) (now : Z) (next : nat) : step_out :=
  match q with
  | QReadPromise id => out_wait (KReadP id) next (SStore [ReadPromise id])
  | QSearchPromises idq st tg lim sid =>
    out_wait (KSearchP idq st tg lim sid) next (SStore [SearchPromises idq st tg lim sid])
  | QCreatePromise r => out_wait (KCreate r None false) next (SStore [ReadPromise (cpr_id r)])
  | QCreatePromiseAndTask r pid ttl =>
    out_wait (KCreate r (Some (create_task_cmd_for r pid ttl now)) true) next (SStore [ReadPromise (cpr_id r)])
  | QCompletePromise r => out_wait (KComplete r) next (SStore [ReadPromise (cmr_id r)])
  | QCreateCallback pid root timeout recv =>
    if String.eqb pid root then out_fin (RspCallback StCallbackInvalidPromise None None)
    else out_wait (KCallback pid (callback_id root pid) (mkMesg "resume" root pid) timeout recv) next
                  (SStore [ReadPromise pid])
  | QCreateSubscription id pid timeout recv =>
    out_wait (KCallback pid (subscription_id pid id) (mkMesg "notify" pid EmptyString) timeout recv) next
             (SStore [ReadPromise pid])
  | QReadSchedule id => out_wait KReadS next (SStore [ReadSchedule id])
  | QSearchSchedules idq tg lim sid => out_wait (KSearchS lim) next (SStore [SearchSchedules idq tg lim sid])
  | QCreateSchedule r => out_wait (KCreateS r) next (SStore [ReadSchedule (csr_id r)])
  | QDeleteSchedule id => out_wait KDeleteS next (SStore [DeleteSchedule id])
  | QAcquireLock res ex pr ttl =>
    let exp := add64 now ttl in
    out_wait (KAcquire res ex pr ttl exp) next (SStore [AcquireLock res ex pr ttl exp])
  | QReleaseLock res ex => out_wait KRelease next (SStore [ReleaseLock res ex])
  | QHeartbeatLocks pr => out_wait KHeartbeatL next (SStore [HeartbeatLocks pr now])
  | QClaimTask id c pid ttl => out_wait (KClaim id c pid ttl) next (SStore [ReadTask id])
  | QCompleteTask id c => out_wait (KCompleteT id c) next (SStore [ReadTask id])
  | QHeartbeatTasks pid => out_wait KHeartbeatT next (SStore [HeartbeatTasks pid now])
  end.

Definition start_bg (cfg : config) (b : bgkind) (now : Z) (next : nat) : step_out :=
  match b with
  | BTimeoutPromises => out_wait KBgTimeoutP next (SStore [ReadPromises now (c_pbatch cfg)])
  | BSchedulePromises => out_wait KBgSchedule next (SStore [ReadSchedules now (c_sbatch cfg)])
  | BTimeoutLocks => out_wait KBgLocks next (SStore [TimeoutLocks now])
  | BEnqueueTasks => out_wait KBgEnqueue next (SStore [ReadEnqueueableTasks (c_tbatch cfg)])
  | BTimeoutTasks => out_wait KBgTimeoutT next (SStore [ReadTasks [TEnqueued; TClaimed] now (c_tbatch cfg)])
  end.

(* ---------- continuing a sequential coroutine with the completion of the submission it awaited ---------- *)

Definition one_promise (c : cpl) : option (option promise) :=   (* Results[0].ReadPromise: 0 or 1 record *)
  match c with
  | CStore (RPromises _ _ recs :: _) => Some (hd_error recs)
  | _ => None
  end.
Definition one_alter (c : cpl) : option Z :=
  match c with
  | CStore (RAlter n :: _) => Some n
  | _ => None
  end.

Definition restart (q : request) (now : Z) (next : nat) : step_out := start_req q now next.

Definition req_of_create (r : create_promise_req) (tc : option create_task_cmd) (with_task : bool) (now : Z) (next : nat)
  : step_out :=
  (* the Go retry re-enters createPromiseAndTask with the SAME taskCmd (built once at the first start) *)
  out_wait (KCreate r tc with_task) next (SStore [ReadPromise (cpr_id r)]).

Definition created_promise (pc : create_promise_cmd) : promise :=
  mkP (cp_id pc) 0 Pending (cp_ph pc) (cp_pd pc) [] EmptyString (cp_timeout pc) (cp_ikey pc) None
      (cp_tags pc) (cp_created pc) None.

Definition task_of_cmd (tc : create_task_cmd) (root : string) : task :=
  mkT (ct_id tc) 0 (ct_pid tc) (ct_state tc) root (ct_recv tc) (ct_mesg tc) (ct_timeout tc) 1 0
      (ct_ttl tc) (ct_exp tc) (ct_created tc) None.

Definition set_ct_recv (tc : create_task_cmd) (recv : string) : create_task_cmd :=
  mkCT (ct_id tc) recv (ct_mesg tc) (ct_timeout tc) (ct_pid tc) (ct_state tc) (ct_ttl tc) (ct_exp tc) (ct_created tc).

(* createPromise(): which command the router completion leads to; None = the coroutine returns an error
   (40404: create-with-task on an unrouted promise; 50002: the router could not be consulted) *)
Definition create_cmd (pc : create_promise_cmd) (tc : option create_task_cmd) (rc : cpl)
  : option (command * option create_task_cmd) :=
  match rc with
  | CRouter (Some recv) =>
    let tc' := match tc with
               | Some t => set_ct_recv t recv
               | None => mkCT (invoke_task_id (cp_id pc)) recv (mkMesg "invoke" (cp_id pc) (cp_id pc))
                              (cp_timeout pc) None TInit 0 0 (cp_created pc)
               end in
    Some (CreatePromiseAndTask pc tc', Some tc')
  | CRouter None => (* not matched *)
    match tc with
    | Some _ => None
    | None => Some (CreatePromise pc, None)
    end
  | _ => None (* the router submission failed: the request fails (50002), nothing is written *)
  end.

Definition claimed_task (t : task) (pid : string) (ttl exp : Z) : task :=
  mkT (t_id t) 0 (Some pid) TClaimed (t_root t) (t_recv t) (t_mesg t) (t_timeout t) (t_counter t)
      (t_attempt t) ttl exp (t_created t) (t_completed t).

Definition completed_task (t : task) (completed : Z) : task :=
  mkT (t_id t) 0 None TCompleted (t_root t) (t_recv t) (t_mesg t) (t_timeout t) (t_counter t)
      0 0 0 (t_created t) (Some completed).

Definition schedule_of_cmd (c : create_schedule_cmd) : schedule :=
  mkS (cs_id c) 0 (cs_desc c) (cs_cron c) (cs_tags c) (cs_pid c) (cs_ptimeout c) (cs_pph c) (cs_ppd c)
      (cs_ptags c) None (cs_next c) (cs_ikey c) (cs_created c).

(* fan-out of completePromise children: one slot per overdue pending promise, submissions numbered from [next] *)
Fixpoint spawn_timeouts (ps : list promise) (now : Z) (next : nat) : list slot * list sub :=
  match ps with
  | [] => ([], [])
  | p :: ps' =>
    let '(sl, sb) := spawn_timeouts ps' now (S next) in
    (SlWait next :: sl, SStore (completion_txn (timeout_cmd p) now) :: sb)
  end.

Definition overdue (now : Z) (p : promise) : bool := (p_state p =? Pending) && (p_timeout p <=? now).

Definition seq_from (n : nat) (len : nat) : list nat := seq n len.

(* SchedulePromises: one createPromise child per schedule record *)
Definition schedule_child (cfg : config) (now : Z) (s : schedule) : option (create_promise_cmd * list command) :=
  match c_next cfg (s_cron s) (s_next s) with
  | None => None
  | Some next =>
    match expand (s_pid s) (s_id s) (dec (s_next s)) with
    | None => None
    | Some id =>
      let tags := smap_set "resonate:invocation" "true" (smap_set "resonate:schedule" (s_id s) (s_ptags s)) in
      Some (mkCP id (s_pph s) (s_ppd s) (add64 (s_ptimeout s) (s_next s)) None tags now,
            [UpdateSchedule (s_id s) (Some (s_next s)) next])
    end
  end.

Fixpoint spawn_schedules (cfg : config) (now : Z) (ss : list schedule) (next : nat) : list slot * list sub :=
  match ss with
  | [] => ([], [])
  | s :: ss' =>
    match schedule_child cfg now s with
    | None => let '(sl, sb) := spawn_schedules cfg now ss' next in (SlDone CErr :: sl, sb)
    | Some (pc, extra) =>
      let '(sl, sb) := spawn_schedules cfg now ss' (S next) in
      (SlRouter next pc extra :: sl, SRouter (created_promise pc) :: sb)
    end
  end.

(* EnqueueTasks, first loop *)
Definition enq_send (cfg : config) (t : task) (p : option promise) (exp : Z) : send_req :=
  mkSend (mkT (t_id t) 0 (t_pid t) TEnqueued (t_root t) (t_recv t) (t_mesg t) (t_timeout t) (t_counter t)
              (t_attempt t) (t_ttl t) exp (t_created t) (t_completed t))
         p
         (href (c_url cfg) "claim" (t_id t) (t_counter t))
         (href (c_url cfg) "complete" (t_id t) (t_counter t))
         (href (c_url cfg) "heartbeat" (t_id t) (t_counter t)).

Definition ut_timedout (t : task) : update_task_cmd :=
  mkUT (t_id t) None TTimedout (t_counter t) (t_attempt t) 0 0 (Some (t_timeout t)) [TInit] (t_counter t).

Fixpoint spawn_sends (cfg : config) (now exp : Z) (ts : list task) (rs : list result) (next : nat)
  : list slot * list sub * list command :=
  match ts with
  | [] => ([], [], [])
  | t :: ts' =>
    let p := match hd (RAlter 0) rs with RPromises _ _ recs => hd_error recs | _ => None end in
    if now <? t_timeout t then
      let '(sl, sb, pre) := spawn_sends cfg now exp ts' (tl rs) (S next) in
      (SlWait next :: sl, SSender (enq_send cfg t p exp) :: sb, pre)
    else
      let '(sl, sb, pre) := spawn_sends cfg now exp ts' (tl rs) next in
      (SlDone CErr :: sl, sb, UpdateTask (ut_timedout t) :: pre)
  end.

Definition is_notify (t : task) : bool := String.eqb (m_type (t_mesg t)) "notify".

(* EnqueueTasks, second loop: the command for an awaited hand-off *)
Definition enq_update (t : task) (exp : Z) (c : cpl) : command :=
  if is_notify t then
    UpdateTask (mkUT (t_id t) None TCompleted (t_counter t) (t_attempt t) 0 exp None [TInit] (t_counter t))
  else match c with
       | CSender true =>
         UpdateTask (mkUT (t_id t) None TEnqueued (t_counter t) (t_attempt t) 0 exp None [TInit] (t_counter t))
       | _ =>
         UpdateTask (mkUT (t_id t) None TInit (t_counter t) (t_attempt t + 1) 0 exp None [TInit] (t_counter t))
       end.

Definition resume_seq (cfg : config) (k : kont) (c : cpl) (now : Z) (next : nat) : step_out :=
  let store_err := out_fin (RspError StStoreError) in
  match k with
  (* ----- ReadPromise ----- *)
  | KReadP id =>
    match one_promise c with
    | None => store_err
    | Some None => out_fin (RspPromise StPromiseNotFound None)
    | Some (Some p) =>
      if overdue now p then
        let cmd := timeout_cmd p in
        out_wait (KReadP_to id p cmd) next (SStore (completion_txn cmd now))
      else out_fin (RspPromise StOK (Some p))
    end
  | KReadP_to id p cmd =>
    match one_alter c with
    | None => store_err
    | Some n => if n =? 1 then out_fin (RspPromise StOK (Some (merged p cmd)))
                else restart (QReadPromise id) now next
    end
  (* ----- CreatePromise / CreatePromiseAndTask ----- *)
  | KCreate r tc wt =>
    match one_promise c with
    | None => store_err
    | Some None =>
      let pc := mkCP (cpr_id r) (cpr_ph r) (cpr_pd r) (cpr_timeout r) (cpr_ikey r) (cpr_tags r) now in
      out_wait (KCreate_router r tc wt pc) next (SRouter (created_promise pc))
    | Some (Some p) =>
      if overdue now p then
        let cmd := timeout_cmd p in
        out_wait (KCreate_to r tc wt p cmd) next (SStore (completion_txn cmd now))
      else
        let st := if negb (cpr_strict r && negb (p_state p =? Pending)) && ikey_match (p_ikc p) (cpr_ikey r)
                  then StOK else StPromiseAlreadyExists in
        out_fin (if wt then RspPromiseTask st (Some p) None else RspPromise st (Some p))
    end
  | KCreate_router r tc0 wt pc =>
    match create_cmd pc tc0 c with
    | None => out_fin (RspError (match c with CRouter _ => StRecvNotFound | _ => StMatchError end))
    | Some (cmd, tc) => out_wait (KCreate_store r tc0 wt pc tc) next (SStore [cmd])
    end
  | KCreate_store r tc0 wt pc tc =>
    match c with
    | CStore (RAlter n :: _) =>
      if wt then out_fin RspPanic    (* util.Assert: completion must be createPromiseAndTask *)
      else if n =? 0 then req_of_create r tc0 wt now next
      else out_fin (RspPromise StCreated (Some (created_promise pc)))
    | CStore (RAlter2 pr tr :: _) =>
      if negb (pr =? tr) then out_fin RspPanic
      else if pr =? 0 then
        (* the Go code mutated taskCmd.Recv in place: the retry carries the routed recv *)
        req_of_create r (if wt then tc else tc0) wt now next
      else
        let p := created_promise pc in
        out_fin (if wt then RspPromiseTask StCreated (Some p) (option_map (fun t => task_of_cmd t (p_id p)) tc)
                 else RspPromise StCreated (Some p))
    | _ => store_err
    end
  | KCreate_to r tc wt p cmd =>
    match one_alter c with
    | None => store_err
    | Some n =>
      if n =? 1 then
        let st := if negb (cpr_strict r) && ikey_match (p_ikc p) (cpr_ikey r) then StOK else StPromiseAlreadyExists in
        let p' := merged p cmd in
        out_fin (if wt then RspPromiseTask st (Some p') None else RspPromise st (Some p'))
      else req_of_create r tc wt now next
    end
  (* ----- CompletePromise ----- *)
  | KComplete r =>
    match one_promise c with
    | None => store_err
    | Some None => out_fin (RspPromise StPromiseNotFound None)
    | Some (Some p) =>
      if p_state p =? Pending then
        if now <? p_timeout p then
          let cmd := mkUP (cmr_id r) (cmr_state r) (cmr_vh r) (cmr_vd r) (cmr_ikey r) now in
          out_wait (KComplete_up r p cmd StCreated) next (SStore (completion_txn cmd now))
        else
          let cmd := mkUP (cmr_id r) (timedout_state (p_tags p)) [] EmptyString None (p_timeout p) in
          let st := if up_state cmd =? Resolved then StAlreadyResolved
                    else if cmr_strict r then StAlreadyTimedout else StOK in
          out_wait (KComplete_up r p cmd st) next (SStore (completion_txn cmd now))
      else
        let strict := cmr_strict r && negb (p_state p =? cmr_state r) in
        let timeout := negb (cmr_strict r) && (p_state p =? Timedout) in
        let st := if (negb strict && ikey_match (p_iku p) (cmr_ikey r)) || timeout then StOK
                  else already_completed_status (p_state p) in
        out_fin (RspPromise st (Some p))
    end
  | KComplete_up r p cmd st =>
    match one_alter c with
    | None => store_err
    | Some n => if n =? 1 then out_fin (RspPromise st (Some (merged p cmd)))
                else restart (QCompletePromise r) now next
    end
  (* ----- CreateCallback / CreateSubscription ----- *)
  | KCallback pid cbid m timeout recv =>
    match one_promise c with
    | None => store_err
    | Some None => out_fin (RspCallback StPromiseNotFound None None)
    | Some (Some p) =>
      if p_state p =? Pending then
        let cc := mkCC cbid pid recv m timeout now in
        out_wait (KCallback_ins p cc) next (SStore [CreateCallback cc])
      else out_fin (RspCallback StOK (Some p) None)
    end
  | KCallback_ins p cc =>
    match one_alter c with
    | None => store_err
    | Some n => if n =? 1 then out_fin (RspCallback StCreated (Some p) (Some (new_callback cc)))
                else (* no row inserted: the callback exists already or the promise was completed meanwhile;
                        the promise is read again so that the answer is never a stale pending promise *)
                  out_wait (KCallback_reread (cc_pid cc)) next (SStore [ReadPromise (cc_pid cc)])
    end
  | KCallback_reread pid =>
    match one_promise c with
    | None => store_err
    | Some None => out_fin RspPanic      (* util.Assert: promise must exist *)
    | Some (Some p) => out_fin (RspCallback StOK (Some p) None)
    end
  (* ----- SearchPromises ----- *)
  | KSearchP idq st tg lim sid =>
    match c with
    | CStore (RPromises rows last recs :: _) =>
      let od := filter (overdue now) recs in
      match od with
      | [] => out_fin (RspSearchP StOK (map p_unsorted recs) (if rows =? lim then Some last else None))
      | _ =>
        let '(sl, sb) := spawn_timeouts od now next in
        mkOut (CFan (FSearchP idq st tg lim sid) sl (seq_from 0 (List.length sl))) sb None
      end
    | _ => store_err
    end
  (* ----- schedules ----- *)
  | KReadS =>
    match c with
    | CStore (RSchedules _ _ recs :: _) =>
      match recs with
      | [] => out_fin (RspSchedule StScheduleNotFound None)
      | s :: _ => out_fin (RspSchedule StOK (Some s))
      end
    | _ => store_err
    end
  | KSearchS lim =>
    match c with
    | CStore (RSchedules rows last recs :: _) =>
      out_fin (RspSearchS StOK (map s_unsorted recs) (if rows =? lim then Some last else None))
    | _ => store_err
    end
  | KCreateS r =>
    match c with
    | CStore (RSchedules _ _ recs :: _) =>
      match recs with
      | s :: _ => out_fin (RspSchedule (if ikey_match (s_ikey s) (csr_ikey r) then StOK else StScheduleAlreadyExists) (Some s))
      | [] =>
        match c_next cfg (csr_cron r) now with
        | None => store_err
        | Some nx =>
          let cc := mkCS (csr_id r) (csr_desc r) (csr_cron r) (csr_tags r) (csr_pid r) (csr_ptimeout r)
                         (csr_pph r) (csr_ppd r) (csr_ptags r) nx (csr_ikey r) now in
          out_wait (KCreateS_ins r cc) next (SStore [CreateSchedule cc])
        end
      end
    | _ => store_err
    end
  | KCreateS_ins r cc =>
    match one_alter c with
    | None => store_err
    | Some n => if n =? 1 then out_fin (RspSchedule StCreated (Some (schedule_of_cmd cc)))
                else restart (QCreateSchedule r) now next
    end
  | KDeleteS =>
    match one_alter c with
    | None => store_err
    | Some n => out_fin (RspStatus (if n =? 1 then StNoContent else StScheduleNotFound))
    end
  (* ----- locks ----- *)
  | KAcquire res ex pr ttl exp =>
    match one_alter c with
    | None => store_err
    | Some n => if n =? 0 then out_fin (RspLock StLockAlreadyAcquired None)
                else out_fin (RspLock StCreated (Some (mkL res ex pr ttl exp)))
    end
  | KRelease =>
    match one_alter c with
    | None => store_err
    | Some n => out_fin (RspStatus (if n =? 0 then StLockNotFound else StNoContent))
    end
  | KHeartbeatL =>
    match one_alter c with
    | None => store_err
    | Some n => out_fin (RspCount StOK n)
    end
  (* ----- tasks ----- *)
  | KClaim id counter pid ttl =>
    match c with
    | CStore (RTasks _ recs :: _) =>
      match recs with
      | [] => out_fin (RspClaim StTaskNotFound None None None EmptyString EmptyString)
      | t :: _ =>
        let t0 := t_unsorted t in
        if t_state t =? TClaimed then out_fin (RspClaim StTaskAlreadyClaimed (Some t0) None None EmptyString EmptyString)
        else if (t_state t =? TCompleted) || (t_state t =? TTimedout)
        then out_fin (RspClaim StTaskAlreadyCompleted (Some t0) None None EmptyString EmptyString)
        else if negb (t_counter t =? counter)
        then out_fin (RspClaim StTaskInvalidCounter (Some t0) None None EmptyString EmptyString)
        else
          let exp := add64 now ttl in
          out_wait (KClaim_up id counter pid ttl t exp) next
                   (SStore [UpdateTask (mkUT id (Some pid) TClaimed counter (t_attempt t) ttl exp None
                                             [TInit; TEnqueued] counter)])
      end
    | _ => store_err
    end
  | KClaim_up id counter pid ttl t exp =>
    match one_alter c with
    | None => store_err
    | Some n =>
      if n =? 1 then
        let reads := ReadPromise (m_root (t_mesg t)) ::
                     (if String.eqb (m_type (t_mesg t)) "resume" then [ReadPromise (m_leaf (t_mesg t))] else []) in
        out_wait (KClaim_read (claimed_task t pid ttl exp)) next (SStore reads)
      else restart (QClaimTask id counter pid ttl) now next
    end
  | KClaim_read t =>
    match c with
    | CStore (RPromises _ _ r0 :: rest) =>
      let resume := String.eqb (m_type (t_mesg t)) "resume" in
      let lp := if resume then match rest with RPromises _ _ r1 :: _ => hd_error r1 | _ => None end else None in
      out_fin (RspClaim StCreated (Some t) (hd_error r0) lp
                        (promise_href (c_url cfg) (m_root (t_mesg t)))
                        (if resume then promise_href (c_url cfg) (m_leaf (t_mesg t)) else EmptyString))
    | _ => store_err
    end
  | KCompleteT id counter =>
    match c with
    | CStore (RTasks _ recs :: _) =>
      match recs with
      | [] => out_fin (RspTask StTaskNotFound None)
      | t :: _ =>
        let t0 := t_unsorted t in
        if (t_state t =? TCompleted) || (t_state t =? TTimedout) then out_fin (RspTask StOK (Some t0))
        else if (t_state t =? TInit) || (t_state t =? TEnqueued) then out_fin (RspTask StTaskInvalidState (Some t0))
        else if negb (t_counter t =? counter) then out_fin (RspTask StTaskInvalidCounter (Some t0))
        else
          out_wait (KCompleteT_up id counter t now) next
                   (SStore [UpdateTask (mkUT id None TCompleted counter 0 0 0 (Some now) [TClaimed] counter)])
      end
    | _ => store_err
    end
  | KCompleteT_up id counter t completed =>
    match one_alter c with
    | None => store_err
    | Some n => if n =? 1 then out_fin (RspTask StCreated (Some (completed_task t completed)))
                else restart (QCompleteTask id counter) now next
    end
  | KHeartbeatT =>
    match one_alter c with
    | None => store_err
    | Some n => out_fin (RspCount StOK n)
    end
  (* ----- background ----- *)
  | KBgTimeoutP =>
    match c with
    | CStore (RPromises _ _ recs :: _) =>
      if negb (forallb (overdue now) recs) then out_fin RspPanic      (* util.Assert in the sweep *)
      else
      let '(sl, sb) := spawn_timeouts recs now next in
      match sl with
      | [] => out_fin RspBgDone
      | _ => mkOut (CFan FBgTimeoutP sl (seq_from 0 (List.length sl))) sb None
      end
    | _ => out_fin RspBgDone
    end
  | KBgSchedule =>
    match c with
    | CStore (RSchedules _ _ recs :: _) =>
      let '(sl, sb) := spawn_schedules cfg now recs next in
      if forallb (fun s => match s with SlDone _ => true | _ => false end) sl then out_fin RspBgDone
      else mkOut (CFan FBgSchedule sl
                       (filter (fun i => match nth_error sl i with Some (SlDone _) => false | _ => true end)
                               (seq_from 0 (List.length sl)))) sb None
    | _ => out_fin RspBgDone
    end
  | KBgLocks => out_fin RspBgDone
  | KBgEnqueue =>
    match c with
    | CStore (RTasks _ recs :: _) =>
      match recs with
      | [] => out_fin RspBgDone
      | _ => out_wait (KBgEnqueue_promises recs) next (SStore (map (fun t => ReadPromise (t_root t)) recs))
      end
    | _ => out_fin RspBgDone
    end
  | KBgEnqueue_promises ts =>
    match c with
    | CStore rs =>
      let exp := add64 now (c_enq_delay cfg) in
      let '(sl, sb, pre) := spawn_sends cfg now exp ts rs next in
      match sb with
      | [] => (* every record is past its timeout: straight to the final transaction *)
        match pre with
        | [] => out_fin RspBgDone
        | _ => out_wait KBgFinal next (SStore pre)
        end
      | _ => mkOut (CFan (FBgEnqueue ts now exp pre) sl
                         (filter (fun i => match nth_error sl i with Some (SlDone _) => false | _ => true end)
                                 (seq_from 0 (List.length sl)))) sb None
      end
    | _ => out_fin RspBgDone
    end
  | KBgFinal => out_fin RspBgDone
  | KBgTimeoutT =>
    match c with
    | CStore (RTasks _ recs :: _) =>
      match recs with
      | [] => out_fin RspBgDone
      | _ =>
        out_wait KBgFinal next
          (SStore (map (fun t =>
             if now <? t_timeout t
             then UpdateTask (mkUT (t_id t) None TInit (t_counter t + 1) 0 0 0 None [t_state t] (t_counter t))
             else UpdateTask (mkUT (t_id t) None TTimedout (t_counter t) (t_attempt t) 0 0 (Some (t_timeout t))
                                   [t_state t] (t_counter t))) recs))
      end
    | _ => out_fin RspBgDone
    end
  end.

(* ---------- fan-outs ---------- *)

Fixpoint set_nth {A} (i : nat) (x : A) (l : list A) : list A :=
  match l, i with
  | [], _ => []
  | _ :: l', O => x :: l'
  | y :: l', S i' => y :: set_nth i' x l'
  end.

(* the completion of submission [n] arrives at the slot waiting for it *)
Definition slot_waits (n : nat) (s : slot) : bool :=
  match s with
  | SlWait m => Nat.eqb m n
  | SlRouter m _ _ => Nat.eqb m n
  | SlDone _ => false
  end.

(* one woken child runs: it either finishes or (createPromise child after the router) submits its store
   transaction and waits again *)
Definition wake_slot (s : slot) (c : cpl) (next : nat) : slot * list sub :=
  match s with
  | SlWait _ => (SlDone c, [])
  | SlRouter _ pc extra =>
    match create_cmd pc None c with
    | Some (cmd, _) => (SlWait next, [SStore (cmd :: extra)])
    | None => (SlDone CErr, [])
    end
  | SlDone _ => (s, [])
  end.

(* deliveries: (submission number, completion) pairs handed to a fan-out in this tick.
   Children run in awaiting-queue order [wake]; a child that waits again goes to the back. *)
Fixpoint run_wake (wake : list nat) (slots : list slot) (dl : list (nat * cpl)) (next : nat)
  : list slot * list nat (* still waiting, in order *) * list nat (* re-queued *) * list sub * nat :=
  match wake with
  | [] => (slots, [], [], [], next)
  | i :: wake' =>
    match nth_error slots i with
    | None => run_wake wake' slots dl next
    | Some s =>
      match find (fun d => slot_waits (fst d) s) dl with
      | None =>
        let '(sl, w, rq, sb, nx) := run_wake wake' slots dl next in (sl, i :: w, rq, sb, nx)
      | Some d =>
        let '(s', subs) := wake_slot s (snd d) next in
        let next' := (next + List.length subs)%nat in
        let '(sl, w, rq, sb, nx) := run_wake wake' (set_nth i s' slots) dl next' in
        match s' with
        | SlDone _ => (sl, w, rq, subs ++ sb, nx)
        | _ => (sl, w, i :: rq, subs ++ sb, nx)
        end
      end
    end
  end.

(* gocoro.Await on the children in order *)
Inductive awaited := AwBlocked | AwAll (cs : list cpl) | AwErrAt.
Fixpoint await_in_order (stop_on_err : bool) (slots : list slot) : awaited :=
  match slots with
  | [] => AwAll []
  | SlDone c :: rest =>
    match c, stop_on_err with
    | CErr, true => AwErrAt
    | _, _ => match await_in_order stop_on_err rest with
              | AwAll cs => AwAll (c :: cs)
              | r => r
              end
    end
  | _ :: _ => AwBlocked
  end.

Fixpoint enq_final (ts : list task) (now0 exp : Z) (slots : list slot) : list command :=
  match ts, slots with
  | t :: ts', s :: sl' =>
    (* a record that was past its timeout at the first loop has no hand-off: its command is in [pre] *)
    match s with
    | SlDone c => if now0 <? t_timeout t then enq_update t exp c :: enq_final ts' now0 exp sl'
                  else enq_final ts' now0 exp sl'
    | _ => enq_final ts' now0 exp sl'
    end
  | _, _ => []
  end.

Definition run_fan (cfg : config) (k : fkont) (slots : list slot) (wake : list nat) (dl : list (nat * cpl))
           (now : Z) (next : nat) : step_out :=
  let '(sl, w, rq, sb, nx) := run_wake wake slots dl next in
  let wake' := (w ++ rq)%list in
  match k with
  | FSearchP idq st tg lim sid =>
    match await_in_order true sl with
    | AwBlocked => mkOut (CFan k sl wake') sb None
    | AwErrAt => mkOut CDone sb (Some (RspError StStoreError))
    | AwAll _ =>
      let o := start_req (QSearchPromises idq st tg lim sid) now nx in
      mkOut (o_state o) (sb ++ o_subs o) (o_resp o)
    end
  | FBgTimeoutP | FBgSchedule =>
    match await_in_order false sl with
    | AwAll _ => mkOut CDone sb (Some RspBgDone)
    | _ => mkOut (CFan k sl wake') sb None
    end
  | FBgEnqueue ts now0 exp pre =>
    match await_in_order false sl with
    | AwAll cs =>
      let cmds := (pre ++ enq_final ts now0 exp sl)%list in
      match cmds with
      | [] => mkOut CDone sb (Some RspBgDone)
      | _ => mkOut (CSeq KBgFinal nx) (sb ++ [SStore cmds]) None
      end
    | _ => mkOut (CFan k sl wake') sb None
    end
  end.

(* ---------- an instance proceeds with the deliveries of this tick ---------- *)

Definition run_inst (cfg : config) (st : cstate) (dl : list (nat * cpl)) (now : Z) (next : nat) : step_out :=
  match st with
  | CSeq k n =>
    match find (fun d => Nat.eqb (fst d) n) dl with
    | Some d => resume_seq cfg k (snd d) now next
    | None => mkOut st [] None
    end
  | CFan k slots wake => run_fan cfg k slots wake dl now next
  | CDone => mkOut CDone [] None
  end.
