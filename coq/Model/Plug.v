(* C13 / C19 — the transport worker of the http plugin: whatever the receiver data says, a hand-off ends in a reported
   outcome.  Receiver classes (decided by the harness from how it built the receiver): 0 a receiver that answers 200,
   1 a receiver that answers something else, 2 no answer can be had (unusable data or url, unsupported scheme,
   refused connection, answer slower than the configured timeout).  Executable Gallina only. *)
From Coq Require Export List ZArith Bool.
Export ListNotations.
Open Scope Z_scope.

Inductive plug_outcome := PDelivered | PFailed | PPanic.

Definition plug_expect (cls : Z) : plug_outcome := if cls =? 0 then PDelivered else PFailed.

(* observed: 0 delivered (success, no error); 1 failed (no success); 2 the worker panicked; 3 success with an error *)
Inductive pcase := CPlug (cls : Z) (obs : Z).

Definition pcase_ok (c : pcase) : bool :=
  match c with
  | CPlug cls obs => match plug_expect cls with PDelivered => obs =? 0 | PFailed => obs =? 1 | PPanic => false end
  end.

Fixpoint bad_pcases (j : nat) (cs : list pcase) : list nat :=
  match cs with
  | [] => []
  | c :: cs' => ((if pcase_ok c then [] else [j]) ++ bad_pcases (S j) cs')%list
  end.
Fixpoint plug_mismatches_from (i : nat) (l : list (list pcase)) : list (nat * nat * Z) :=
  match l with
  | [] => []
  | cs :: l' => (map (fun j => (i, j, 0)) (bad_pcases 0 cs) ++ plug_mismatches_from (S i) l')%list
  end.
Definition plug_mismatches := plug_mismatches_from 0.
