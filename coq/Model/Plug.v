(* C13 / C19 — the transport worker of the http plugin: whatever the receiver data says, a hand-off ends in a reported
   outcome.  Receiver classes (decided by the harness from how it built the receiver): 0 a receiver that answers 200,
   1 a receiver that answers something else, 2 no answer can be had (unusable data or url, unsupported scheme,
   refused connection, answer slower than the configured timeout).  Executable Gallina only. *)
From Coq Require Export List ZArith Bool.
Export ListNotations.
Open Scope Z_scope.

Inductive plug_outcome := PDelivered | PFailed | PPanic.

Definition plug_expect (cls : Z) : plug_outcome := if cls =? 0 then PDelivered else PFailed.

(* observed: 0 delivered (success, no error); 1 failed (no success); 2 the worker panicked; 3 success with an error *)
Inductive pcase := CPlug (cls : Z) (obs : Z).

Definition pcase_ok (c : pcase) : bool :=
  match c with
  | CPlug cls obs => match plug_expect cls with PDelivered => obs =? 0 | PFailed => obs =? 1 | PPanic => false end
  end.

Fixpoint bad_pcases (j : nat) (cs : list pcase) : list nat :=
  match cs with
  | [] => []
  | c :: cs' => ((if pcase_ok c then [] else [j]) ++ bad_pcases (S j) cs')%list
  end.
Fixpoint plug_mismatches_from (i : nat) (l : list (list pcase)) : list (nat * nat * Z) :=
  match l with
  | [] => []
  | cs :: l' => (map (fun j => (i, j, 0)) (bad_pcases 0 cs) ++ plug_mismatches_from (S i) l')%list
  end.
Definition plug_mismatches := plug_mismatches_from 0.

(* ---------- family `handoff`: the whole hand-off path as it runs in the server (production aio, Sender subsystem with
   its queue and worker goroutine, http plugin with its queue and worker goroutine, a loopback receiver) ----------
   receiver classes as above; observed: how many completions the submission got, whether the completion says the
   hand-off succeeded, and whether the request the receiver saw carried THIS task (id, counter and links) *)
Inductive hcase := CHand (cls : Z) (completions : nat) (success : bool) (receiver_saw_this_task : bool) (receiver_hits : nat).

Definition hcase_ok (c : hcase) : bool :=
  match c with
  | CHand cls n success saw hits =>
    Nat.eqb n 1 && Bool.eqb success (cls =? 0) &&
    (if (cls =? 0) || (cls =? 1) then saw && Nat.eqb hits 1 else Nat.eqb hits 0)
  end.

Fixpoint bad_hcases (j : nat) (cs : list hcase) : list nat :=
  match cs with
  | [] => []
  | c :: cs' => ((if hcase_ok c then [] else [j]) ++ bad_hcases (S j) cs')%list
  end.
Fixpoint handoff_mismatches_from (i : nat) (l : list (list hcase)) : list (nat * nat * Z) :=
  match l with
  | [] => []
  | cs :: l' => (map (fun j => (i, j, 0)) (bad_hcases 0 cs) ++ handoff_mismatches_from (S i) l')%list
  end.
Definition handoff_mismatches := handoff_mismatches_from 0.
