(* Replay of harness traces on the model (evaluated by vm_compute inside coqc). *)
From RV Require Export Sys.

Definition cron_fn (tbl : list (string * Z * option Z)) (c : string) (t : Z) : option Z :=
  match find (fun e => String.eqb (fst (fst e)) c && (snd (fst e) =? t)) tbl with
  | Some e => snd e
  | None => None
  end.

Fixpoint mismatches_from (i : nat) (l : list (config * list (directive * list obs)))
  : list (nat * nat * list obs) :=
  match l with
  | [] => []
  | (cfg, tr) :: l' =>
    match mismatch cfg tr with
    | Some (j, ob) => (i, j, ob) :: mismatches_from (S i) l'
    | None => mismatches_from (S i) l'
    end
  end.
Definition mismatches := mismatches_from 0.

Fixpoint failing_from (i : nat) (mon : list (directive * list obs) -> list (Z * nat))
         (l : list (config * list (directive * list obs))) : list (nat * list (Z * nat)) :=
  match l with
  | [] => []
  | (_, tr) :: l' => match mon tr with
                     | [] => failing_from (S i) mon l'
                     | vs => (i, vs) :: failing_from (S i) mon l'
                     end
  end.
Definition failing := failing_from 0.

(* monitors that need the configuration the trace was produced with (the cron oracle) *)
Fixpoint failing_cfg_from (i : nat) (mon : config -> list (directive * list obs) -> list (Z * nat))
         (l : list (config * list (directive * list obs))) : list (nat * list (Z * nat)) :=
  match l with
  | [] => []
  | (cfg, tr) :: l' => match mon cfg tr with
                       | [] => failing_cfg_from (S i) mon l'
                       | vs => (i, vs) :: failing_cfg_from (S i) mon l'
                       end
  end.
Definition failing_cfg := failing_cfg_from 0.

(* monitors over the final quiet phase: the harness says where it starts in each trace *)
Fixpoint failing_from_idx (i : nat) (mon : nat -> list (directive * list obs) -> list (Z * nat))
         (l : list (nat * list (directive * list obs))) : list (nat * list (Z * nat)) :=
  match l with
  | [] => []
  | (from, tr) :: l' => match mon from tr with
                        | [] => failing_from_idx (S i) mon l'
                        | vs => (i, vs) :: failing_from_idx (S i) mon l'
                        end
  end.
Definition failing_drain := failing_from_idx 0.

(* a trace is non-trivial when a conditional write lost (0 rows), a fault was injected, a crash happened,
   or a request was answered with a non-2xx status *)
Definition lost_write (r : result) : bool :=
  match r with RAlter 0 => true | RAlter2 0 _ => true | _ => false end.
Definition ev_nontrivial (e : directive * list obs) : bool :=
  match fst e with
  | DDrop _ _ => true
  | DCrash => true
  | DRouter _ _ None => true
  | DSender _ _ None => true
  | DExec b => existsb ex_lose b ||
               existsb (fun o => match o with
                                 | OExec _ (Some rss) _ => existsb (existsb lost_write) rss
                                 | OExec _ None _ => true
                                 | _ => false end) (snd e)
  | DTick _ _ _ _ =>
    existsb (fun o => match o with
                      | OInst _ _ (Some r) => negb ((20000 <=? status_of r) && (status_of r <? 30000))
                      | _ => false end) (snd e)
  | _ => false
  end.
Definition nontrivial (tr : list (directive * list obs)) : bool := existsb ev_nontrivial tr.

Definition tx (cs : list command) (hs : list (option (list string))) := (cs, hs).

(* ---------- store family: batches of transactions against exec_batch ---------- *)

Fixpoint store_mismatch_from (d : db) (tr : list (list (list command * list (option (list string))) * obs)) (i : nat)
  : option (nat * obs) :=
  match tr with
  | [] => None
  | (txns, ob_impl) :: tr' =>
    let '(d', ob) := match exec_batch d txns with
                     | Some (d', rss) => (d', OExec (map fst txns) (Some rss) d')
                     | None => (d, OExec (map fst txns) None d)
                     end in
    if obs_eqb ob ob_impl then store_mismatch_from d' tr' (S i) else Some (i, ob)
  end.

Fixpoint store_mismatches_from (i : nat) (l : list (list (list (list command * list (option (list string))) * obs)))
  : list (nat * nat * obs) :=
  match l with
  | [] => []
  | tr :: l' =>
    match store_mismatch_from db0 tr 0 with
    | Some (j, ob) => (i, j, ob) :: store_mismatches_from (S i) l'
    | None => store_mismatches_from (S i) l'
    end
  end.
Definition store_mismatches := store_mismatches_from 0.
