(* C08 — tasks are born and finished with their promise; dispatch is disciplined.  The executable statement.
   c08_chk is a per-step checker (commit deltas and what a coroutine hands to the sender); C08r_mon and
   C08s_mon are history folds that remember router verdicts and hand-off outcomes. *)
From RV Require Export Mon MonC07.

Definition is_invoke (t : task) : bool := String.eqb (m_type (t_mesg t)) "invoke".
Definition is_notify_t (t : task) : bool := String.eqb (m_type (t_mesg t)) "notify".
Definition has_task (d : db) (id : string) : bool := match find_task id d with Some _ => true | None => false end.
Definition has_promise (d : db) (id : string) : bool := match find_promise id d with Some _ => true | None => false end.
Definition pending_in (d : db) (id : string) : bool :=
  match find_promise id d with Some p => p_state p =? Pending | None => false end.

Definition names_task (id : string) (c : command) : bool :=
  match c with UpdateTask u => String.eqb (ut_id u) id | _ => false end.

Definition writes_tasks (c : command) : bool :=
  match c with
  | CreateTask _ | CreateTasks _ _ | CompleteTasks _ _ | UpdateTask _ | HeartbeatTasks _ _ | CreatePromiseAndTask _ _ => true
  | _ => false
  end.

Fixpoint uniq_s (l : list string) : bool :=
  match l with [] => true | x :: l' => negb (existsb (String.eqb x) l') && uniq_s l' end.

Definition root_busy_in (d : db) (root : string) : bool :=
  existsb (fun t => String.eqb (t_root t) root && ((t_state t =? TEnqueued) || (t_state t =? TClaimed))) (tasks d).

(* 805: what a dispatch cycle selected (the result of ReadEnqueueableTasks): only unclaimed (init) tasks, at most
   [limit], at most one per root promise, none whose root has a task recorded enqueued or claimed.  The last
   clause is checked against the state before the batch when no earlier transaction of the batch wrote tasks. *)
Definition c08_select (before : db) (quiet : bool) (limit : Z) (recs : list task) : list Z :=
  if forallb (fun t => t_state t =? TInit) recs && uniq_s (map t_root recs) && (Z.of_nat (List.length recs) <=? Z.max limit 0) &&
     (negb quiet || forallb (fun t => negb (root_busy_in before (t_root t)) &&
                                      existsb (fun t' => String.eqb (t_id t') (t_id t) && (t_state t' =? TInit) &&
                                                         (t_counter t' =? t_counter t)) (tasks before)) recs)
  then [] else [805].

Fixpoint c08_selects (before : db) (quiet : bool) (txns : list (list command)) (rss : list (list result)) : list Z :=
  match txns, rss with
  | t :: txns', r :: rss' =>
    (match t, r with
     | [ReadEnqueueableTasks lim], [RTasks _ recs] => c08_select before quiet lim recs
     | _, _ => []
     end ++ c08_selects before (quiet && negb (existsb writes_tasks t)) txns' rss')%list
  | _, _ => []
  end.

(* 801 an invocation task is born in the very commit that creates its promise, under the derived id, and a
       create-promise-and-task command never leaves one without the other
   803 when a promise leaves pending, every task of that root that existed before the commit is finished after it
   804 a notification (its promise is already complete) is only finished by an update naming it (hand-off recorded,
       or its own timeout), never by the completion of somebody else (DESIGN D18) *)
Definition c08_803 (before after : db) : bool :=
  forallb (fun p => negb (p_state p =? Pending) || pending_in after (p_id p) ||
                    forallb (fun t => negb (String.eqb (t_root t) (p_id p)) ||
                                      match find_task (t_id t) after with Some t' => t_finished t' | None => false end)
                            (tasks before)) (promises before).

Fixpoint c08_pairs (after : db) (cs : list command) (rs : list result) : bool :=
  match cs, rs with
  | c :: cs', r :: rs' =>
    match c, r with
    | CreatePromiseAndTask pc tc, RAlter2 pr tr =>
      (pr =? tr) && (negb (pr =? 1) || (has_task after (ct_id tc) && has_promise after (cp_id pc)))
    | CreatePromiseAndTask _ _, _ => false
    | _, _ => true
    end && c08_pairs after cs' rs'
  | _, _ => true
  end.
Fixpoint c08_batch_pairs (after : db) (txns : list (list command)) (rss : list (list result)) : bool :=
  match txns, rss with
  | t :: txns', r :: rss' => c08_pairs after t r && c08_batch_pairs after txns' rss'
  | _, _ => true
  end.

Definition c08_exec (txns : list (list command)) (rs : option (list (list result))) (before after : db) : list Z :=
  let cmds := List.concat txns in
  (if forallb (fun t => has_task before (t_id t) || negb (is_invoke t) ||
                        (String.eqb (t_id t) (invoke_task_id (t_root t)) && has_promise after (t_root t) &&
                         negb (has_promise before (t_root t)))) (tasks after) &&
      match rs with Some rss => c08_batch_pairs after txns rss | None => true end
   then [] else [801]) ++
  (if c08_803 before after then [] else [803]) ++
  (if forallb (fun t => negb (is_notify_t t) || t_finished t ||
                        match find_task (t_id t) after with
                        | Some t' => negb (t_finished t') || existsb (names_task (t_id t)) cmds
                        | None => true end) (tasks before)
   then [] else [804]).

(* 806 a dispatched message names the task it was read as: id and counter in the three links, and the row (id,
   root, receiver, message, timeout) is the durable one with a counter that is not ahead of the durable one *)
Fixpoint ends_with (suffix s : string) : bool :=
  if String.eqb suffix s then true
  else match s with EmptyString => false | String _ s' => ends_with suffix s' end.

Definition link_ok (kind : string) (t : task) (l : string) : bool :=
  ends_with ("/tasks/" ++ kind ++ "/" ++ t_id t ++ "/" ++ dec (t_counter t))%string l.

Definition c08_send (d : db) (m : send_req) : bool :=
  let t := sd_task m in
  link_ok "claim" t (sd_claim m) && link_ok "complete" t (sd_complete m) && link_ok "heartbeat" t (sd_heartbeat m) &&
  match find_task (t_id t) d with
  | Some t' => String.eqb (t_root t) (t_root t') && String.eqb (t_recv t) (t_recv t') && mesg_eqb (t_mesg t) (t_mesg t') &&
               (t_timeout t =? t_timeout t') && (t_counter t <=? t_counter t')
  | None => false
  end.

Definition c08_chk : checker := fun now d dir ob =>
  match dir with
  | DExec _ =>
    flat_map (fun o => match o with
                       | OExec txns rs snap =>
                         (c08_exec txns rs d snap ++
                          match rs with Some rss => c08_selects d true txns rss | None => [] end)%list
                       | _ => [] end) ob
  | DTick _ _ _ _ =>
    flat_map (fun o => match o with
                       | OInst _ subs _ =>
                         if forallb (fun s => match s with SSender m => c08_send d m | _ => true end) subs then [] else [806]
                       | _ => [] end) ob
  | _ => []
  end.

Definition C08_mon := mon c08_chk.

(* the clause proved for every schedule (Proofs/PC08.v): 803 *)
Definition c08p_chk : checker := fun now d dir ob =>
  match dir with
  | DExec _ => flat_map (fun o => match o with OExec _ _ snap => if c08_803 d snap then [] else [803] | _ => [] end) ob
  | _ => []
  end.
Definition C08p_mon := mon c08p_chk.

(* ---------- 808: the router's verdict decides the shape of the creating transaction ----------
   routed: the promise and its invocation task are created by ONE command carrying the routed receiver;
   not routed: the promise alone (create-with-task is refused, nothing is written);
   router unavailable: nothing is written (the request fails and can be retried). *)
Definition verdict := (string * nat * option (option string))%type.

Definition creates_promise (s : sub) : bool :=
  match s with
  | SStore (CreatePromise _ :: _) | SStore (CreatePromiseAndTask _ _ :: _) => true
  | _ => false
  end.

Definition c08r_shape (v : option (option string)) (subs : list sub) : bool :=
  match v with
  | Some (Some recv) =>
    existsb (fun s => match s with
                      | SStore (CreatePromiseAndTask pc tc :: _) =>
                        String.eqb (ct_recv tc) recv && String.eqb (ct_id tc) (invoke_task_id (cp_id pc)) &&
                        String.eqb (m_type (ct_mesg tc)) "invoke" && String.eqb (m_root (ct_mesg tc)) (cp_id pc)
                      | _ => false end) subs &&
    negb (existsb (fun s => match s with SStore (CreatePromise _ :: _) => true | _ => false end) subs)
  | Some None =>
    negb (existsb (fun s => match s with SStore (CreatePromiseAndTask _ _ :: _) => true | _ => false end) subs)
  | None => negb (existsb creates_promise subs)
  end.

Fixpoint c08r_from (vs : list verdict) (i : nat) (tr : list (directive * list obs)) : list viol :=
  match tr with
  | [] => []
  | (DRouter id n res, _) :: tr' => c08r_from ((id, n, res) :: vs) (S i) tr'
  | (DCrash, _) :: tr' => c08r_from [] (S i) tr'
  | (DTick _ deliver _ _, ob) :: tr' =>
    let delivered := filter (fun v => existsb (fun dn => String.eqb (fst dn) (fst (fst v)) && Nat.eqb (snd dn) (snd (fst v))) deliver) vs in
    let rest := filter (fun v => negb (existsb (fun dn => String.eqb (fst dn) (fst (fst v)) && Nat.eqb (snd dn) (snd (fst v))) deliver)) vs in
    (flat_map (fun v =>
                 let id := fst (fst v) in
                 (* only when this is the one verdict delivered to that coroutine in this tick *)
                 if (List.length (filter (fun w => String.eqb (fst (fst w)) id) delivered) =? 1)%nat then
                   match find (fun o => match o with OInst id' _ _ => String.eqb id' id | _ => false end) ob with
                   | Some (OInst _ subs _) => if c08r_shape (snd v) subs then [] else [(808, i)]
                   | _ => match snd v with Some (Some _) => [(808, i)] | _ => [] end
                   end
                 else []) delivered ++ c08r_from rest (S i) tr')%list
  | _ :: tr' => c08r_from vs (S i) tr'
  end.
Definition C08r_mon (tr : list (directive * list obs)) : list viol := c08r_from [] 0 tr.

(* ---------- 807: a task is recorded enqueued only after a successful hand-off; a failed hand-off is retried
   (back to init, attempt + 1); a notification is finished after its first recorded attempt ---------- *)
Definition send_rec := (string * nat * task)%type.
Definition out_rec := (string * nat * option bool)%type.

Fixpoint count_id (id : string) (cnt : list (string * nat)) : nat :=
  match cnt with [] => O | (k, n) :: c' => if String.eqb k id then n else count_id id c' end.
Definition bump_id (id : string) (k : nat) (cnt : list (string * nat)) : list (string * nat) :=
  (id, (count_id id cnt + k)%nat) :: filter (fun e => negb (String.eqb (fst e) id)) cnt.

Fixpoint sends_of (id : string) (n : nat) (subs : list sub) : list send_rec :=
  match subs with
  | [] => []
  | SSender m :: subs' => (id, n, sd_task m) :: sends_of id (S n) subs'
  | _ :: subs' => sends_of id (S n) subs'
  end.

Definition outcome_of (outs : list out_rec) (id : string) (n : nat) : option (option bool) :=
  match find (fun o => String.eqb (fst (fst o)) id && Nat.eqb (snd (fst o)) n) outs with
  | Some o => Some (snd o)
  | None => None
  end.

(* the update the dispatch cycle writes for task record t after hand-off outcome oc *)
Definition c08s_update (sends : list send_rec) (outs : list out_rec) (id : string) (u : update_task_cmd) : bool :=
  match find (fun s => String.eqb (fst (fst s)) id && String.eqb (t_id (snd s)) (ut_id u) &&
                       (t_counter (snd s) =? ut_cur_counter u)) sends with
  | Some s =>
    let t := snd s in
    match outcome_of outs id (snd (fst s)) with
    | None => negb (ut_state u =? TEnqueued) && negb (ut_state u =? TCompleted)   (* no outcome yet: nothing may be recorded *)
    | Some oc =>
      if is_notify_t t then ut_state u =? TCompleted
      else match oc with
           | Some true => ut_state u =? TEnqueued
           | _ => (ut_state u =? TInit) && (ut_attempt u =? t_attempt t + 1) && (ut_counter u =? t_counter t)
           end
    end
  | None => negb (ut_state u =? TEnqueued)       (* enqueued without any hand-off of this cycle *)
  end.

Fixpoint c08s_from (cnt : list (string * nat)) (sends : list send_rec) (outs : list out_rec) (i : nat)
         (tr : list (directive * list obs)) : list viol :=
  match tr with
  | [] => []
  | (DSender id n res, _) :: tr' => c08s_from cnt sends ((id, n, res) :: outs) (S i) tr'
  | (DCrash, _) :: tr' => c08s_from [] [] [] (S i) tr'
  | (DTick _ _ _ _, ob) :: tr' =>
    let step := fold_left (fun acc o =>
                  match o with
                  | OInst id subs _ =>
                    let '(cnt0, sends0, vs0) := acc in
                    let bad := existsb (fun s => match s with
                                                 | SStore cs => existsb (fun c => match c with
                                                                                 | UpdateTask u =>
                                                                                   (* only the dispatch cycle's own updates: guarded by {init} *)
                                                                                   list_eqb Z.eqb (ut_cur_states u) [TInit] &&
                                                                                   negb (ut_state u =? TTimedout) && negb (ut_state u =? TClaimed) &&
                                                                                   negb (c08s_update sends0 outs id u)
                                                                                 | _ => false end) cs
                                                 | _ => false end) subs in
                    (bump_id id (List.length subs) cnt0,
                     (sends_of id (count_id id cnt0) subs ++ sends0)%list,
                     (if bad then (807, i) :: vs0 else vs0))
                  | _ => acc
                  end) ob (cnt, sends, []) in
    let '(cnt1, sends1, vs) := step in
    (vs ++ c08s_from cnt1 sends1 outs (S i) tr')%list
  | _ :: tr' => c08s_from cnt sends outs (S i) tr'
  end.
Definition C08s_mon (tr : list (directive * list obs)) : list viol := c08s_from [] [] [] 0 tr.

(* the per-step monitor without the clause the pinned code violates (DESIGN D18), for the properties that only
   need the dispatch clauses *)
Definition C08_mon_no804 (tr : list (directive * list obs)) : list viol :=
  filter (fun v => negb (fst v =? 804)) (C08_mon tr).
