(* C04 — timeouts are exact: never pending after the deadline, never timed out before it. *)
From RV Require Export Mon.

Definition opt_list4 {A} (o : option A) : list A := match o with Some x => [x] | None => [] end.
Definition timed_bodies_b (r : response) : list promise :=
  match r with
  | RspPromise _ p => opt_list4 p
  | RspPromiseTask _ p _ => opt_list4 p
  | RspSearchP _ ps _ => ps
  | _ => []
  end.

(* 401 a read / complete / search / create-on-existing answer produced at tick time t shows a promise pending
       although t >= its timeout
   402 the answer 20100 to a create shows the new promise pending although t >= its timeout (DESIGN D12) *)
Definition c04_resp (t : Z) (r : response) : list Z :=
  if forallb (fun p => negb (p_state p =? Pending) || (t <? p_timeout p)) (timed_bodies_b r) then []
  else if status_of r =? 20100 then [402] else [401].

Definition user_state_b (s : Z) : bool := (s =? Resolved) || (s =? Rejected) || (s =? Canceled).

(* the shape of every completed row, relative to the server clock [now]:
   either a time-out (completion time = timeout <= now, state timed-out - or resolved when tagged -, empty value,
   no completion key) or a completion decided strictly before the timeout (and not in the future) *)
Definition compl_shape_b (now : Z) (q : promise) : bool :=
  match p_completed q with
  | None => false
  | Some c =>
    ((c =? p_timeout q) && (p_timeout q <=? now) && (p_state q =? timedout_state (p_tags q)) &&
     smap_eqb (p_vh q) [] && String.eqb (p_vd q) EmptyString && match p_iku q with None => true | Some _ => false end) ||
    ((c <? p_timeout q) && (c <=? now) && user_state_b (p_state q))
  end.

(* 403 a row is stored completed in a shape that is neither: timed out before its deadline, a caller's state or
       value installed at or after the deadline, a time-out with a value or a wrong completion time *)
Definition c04_exec (now : Z) (after : db) : list Z :=
  if forallb (fun q => (p_state q =? Pending) || compl_shape_b now q) (promises after) then [] else [403].

Definition c04_chk : checker := fun now d dir ob =>
  match dir with
  | DExec _ => flat_map (fun o => match o with OExec _ _ snap => c04_exec now snap | _ => [] end) ob
  | DTick t _ _ _ => flat_map (fun o => match o with OInst _ _ (Some r) => c04_resp t r | _ => [] end) ob
  | _ => []
  end.

Definition C04_mon := mon c04_chk.
(* the monitor without the clause the pinned code violates (create with a timeout already in the past) *)
Definition C04_mon_partial (tr : list (directive * list obs)) : list viol :=
  filter (fun v => negb (fst v =? 402)) (C04_mon tr).

(* 404 (evaluated at the moment a coroutine hands a completion to the store, tick time t): the command either is the
   time-out of a promise whose deadline has been reached (completion time = timeout <= t, the time-out state, empty
   value, no key) or installs a caller's state decided NOW and strictly before the deadline (completion time = t <
   timeout).  A request handled at or after the deadline can therefore never install the caller's state or value,
   whatever completion time it stamps. *)
Definition c04_emit (t : Z) (d : db) (u : update_promise_cmd) : bool :=
  match find_promise (up_id u) d with
  | None => true      (* nothing to complete: the guarded update will not find a pending row *)
  | Some q =>
    ((up_completed u =? p_timeout q) && (p_timeout q <=? t) && (up_state u =? timedout_state (p_tags q)) &&
     smap_eqb (up_vh u) [] && String.eqb (up_vd u) EmptyString && match up_ikey u with None => true | Some _ => false end) ||
    ((up_completed u =? t) && (t <? p_timeout q) && user_state_b (up_state u))
  end.

Definition c04e_chk : checker := fun now d dir ob =>
  match dir with
  | DTick t _ _ _ =>
    flat_map (fun o => match o with
                       | OInst _ subs _ =>
                         flat_map (fun s => match s with
                                            | SStore cs => flat_map (fun c => match c with
                                                                              | UpdatePromise u => if c04_emit t d u then [] else [404]
                                                                              | _ => [] end) cs
                                            | _ => [] end) subs
                       | _ => [] end) ob
  | _ => []
  end.
Definition C04e_mon := mon c04e_chk.
