(* C18 — the poll transport's connection registry and delivery, as the single worker goroutine runs it: a
   sequential state machine over connects, disconnects, drains (what a listener's handler has written to its
   client) and messages.  The "any one of the group" choice is relational: the replay checks that the listener the
   code picked is one the rule allows.  Executable Gallina only. *)
From RV Require Export Base.
From Coq Require Export List String ZArith Bool Arith.
Import ListNotations.

Record pconn := mkPC { pc_group : string; pc_id : string; pc_cid : nat; pc_cap : nat; pc_buf : list string }.
Record pstate := mkPS { ps_conns : list pconn; ps_max : nat }.     (* registration order *)

Definition same_slot (g id : string) (c : pconn) : bool := String.eqb (pc_group c) g && String.eqb (pc_id c) id.

Fixpoint remove_first {A} (f : A -> bool) (l : list A) : list A :=
  match l with
  | [] => []
  | x :: l' => if f x then l' else x :: remove_first f l'
  end.

(* connections.add: the connection with the same group and id is replaced (closed); at the limit the NEW
   connection is closed at once and not registered *)
Definition p_connect (st : pstate) (g id : string) (cid cap : nat) : pstate :=
  let cs := remove_first (same_slot g id) (ps_conns st) in
  if Nat.leb (ps_max st) (List.length cs) then mkPS cs (ps_max st)
  else mkPS (cs ++ [mkPC g id cid cap []]) (ps_max st).

(* connections.rmv(conn, true): only the very connection (same channel) is removed *)
Definition p_disconnect (st : pstate) (cid : nat) : pstate :=
  mkPS (remove_first (fun c => Nat.eqb (pc_cid c) cid) (ps_conns st)) (ps_max st).

Definition in_group (g : string) (c : pconn) : bool := String.eqb (pc_group c) g.

(* which listeners the rule allows for a message addressed to (g, id) *)
Definition allowed (st : pstate) (notify : bool) (g id : string) : list pconn :=
  let grp := filter (in_group g) (ps_conns st) in
  let exact := if String.eqb id EmptyString then [] else filter (fun c => String.eqb (pc_id c) id) grp in
  match exact with
  | c :: _ => [c]                                   (* the addressed id is connected: that listener *)
  | [] => if notify then [] else grp                (* otherwise any one of the group; notifications only to the exact id *)
  end.

Definition push (cid : nat) (body : string) (c : pconn) : pconn :=
  if Nat.eqb (pc_cid c) cid then mkPC (pc_group c) (pc_id c) (pc_cid c) (pc_cap c) (pc_buf c ++ [body]) else c.

(* a message: [got] is the listener whose buffer grew (None: nobody's), [ok] what was reported.
   Returns None when the outcome is not one the rule allows. *)
Definition p_send (st : pstate) (notify : bool) (g id body : string) (ok : bool) (got : option nat) : option pstate :=
  match got with
  | Some cid =>
    match find (fun c => Nat.eqb (pc_cid c) cid) (allowed st notify g id) with
    | Some c => if ok && Nat.ltb (List.length (pc_buf c)) (pc_cap c)
                then Some (mkPS (map (push cid body) (ps_conns st)) (ps_max st)) else None
    | None => None                                  (* handed to a listener the rule does not allow *)
    end
  | None =>
    (* nobody got it: right only if reported undelivered and no allowed listener (the one the code must pick when
       the id is connected; every one of the group otherwise) had room -- or the code picked a full one *)
    if ok then None
    else match allowed st notify g id with
         | [] => Some st
         | cs => if existsb (fun c => negb (Nat.ltb (List.length (pc_buf c)) (pc_cap c))) cs then Some st else None
         end
  end.

Definition p_drain (st : pstate) (cid : nat) : pstate * list string * bool (* closed *) :=
  match find (fun c => Nat.eqb (pc_cid c) cid) (ps_conns st) with
  | Some c => (mkPS (map (fun x => if Nat.eqb (pc_cid x) cid then mkPC (pc_group x) (pc_id x) cid (pc_cap x) [] else x) (ps_conns st)) (ps_max st),
               pc_buf c, false)
  | None => (st, [], true)          (* not registered: its channel has been closed *)
  end.

(* ---------- replay ---------- *)
Definition prow := (string * string * nat * nat)%type.
Definition rows_of (st : pstate) : list prow := map (fun c => (pc_group c, pc_id c, pc_cid c, List.length (pc_buf c))) (ps_conns st).

(* the listener address a long-poll request names: /group/id - the group is the first path segment, the id everything
   after it, slashes included (ids are free-form: "a", "a/b", "a/", "" are four different listeners) *)
Fixpoint cut_slash (s : string) : string * option string :=
  match s with
  | EmptyString => (EmptyString, None)
  | String c s' => if Ascii.eqb c "/" then (EmptyString, Some s')
                   else let '(a, b) := cut_slash s' in (String c a, b)
  end.
Definition poll_path (p : string) : option (string * string) :=
  match p with
  | String c rest =>
    if Ascii.eqb c "/" then match cut_slash rest with (g, Some id) => Some (g, id) | (_, None) => None end
    else None
  | EmptyString => None
  end.

Inductive pcase :=
| PPath (path : string) (obs : option (string * string))
| PInit (max : nat)
| PConnect (g id : string) (cid cap : nat) (obs : list prow * nat)
| PDisconnect (cid : nat) (obs : list prow * nat)
| PDrain (cid : nat) (bodies : list string) (closed : bool) (obs : list prow * nat)
| PSend (notify : bool) (g id body : string) (ok : bool) (got : option nat) (obs : list prow * nat).

Definition prow_eqb (a b : prow) : bool :=
  let '(g, i, c, n) := a in let '(g', i', c', n') := b in
  String.eqb g g' && String.eqb i i' && Nat.eqb c c' && Nat.eqb n n'.

Definition obs_ok (st : pstate) (obs : list prow * nat) : bool :=
  list_eqb prow_eqb (rows_of st) (fst obs) && Nat.eqb (List.length (ps_conns st)) (snd obs).

Definition pstep (st : pstate) (c : pcase) : option pstate :=
  match c with
  | PPath path obs => if opt_eqb (pair_eqb String.eqb String.eqb) (poll_path path) obs then Some st else None
  | PInit max => Some (mkPS [] max)
  | PConnect g id cid cap obs => let st' := p_connect st g id cid cap in if obs_ok st' obs then Some st' else None
  | PDisconnect cid obs => let st' := p_disconnect st cid in if obs_ok st' obs then Some st' else None
  | PDrain cid bodies closed obs =>
    let '(st', bs, cl) := p_drain st cid in
    (* a closed channel may still hold what was buffered before it was closed: only the registry is compared then *)
    if (Bool.eqb cl closed) && (cl || list_eqb String.eqb bs bodies) && obs_ok st' obs then Some st' else None
  | PSend notify g id body ok got obs =>
    match p_send st notify g id body ok got with
    | Some st' => if obs_ok st' obs then Some st' else None
    | None => None
    end
  end.

Fixpoint prun (st : pstate) (j : nat) (cs : list pcase) : option nat :=   (* index of the first step that disagrees *)
  match cs with
  | [] => None
  | c :: cs' => match pstep st c with Some st' => prun st' (S j) cs' | None => Some j end
  end.

Fixpoint poll_mismatches_from (i : nat) (l : list (list pcase)) : list (nat * nat * Z) :=
  match l with
  | [] => []
  | cs :: l' => (match prun (mkPS [] 0) 0 cs with Some j => [(i, j, 0%Z)] | None => [] end ++ poll_mismatches_from (S i) l')%list
  end.
Definition poll_mismatches := poll_mismatches_from 0.
