(* L1: the durable state (five tables) and the 27 store commands, one clause per SQL clause of
   internal/app/subsystems/aio/store/sqlite/sqlite.go.  Executable Gallina only; no proofs here. *)
From RV Require Export Base.

(* ---------- rows ---------- *)

Record mesg := mkMesg { m_type : string; m_root : string; m_leaf : string }.

Record promise := mkP {
  p_id : string; p_sort : Z; p_state : Z;
  p_ph : smap; p_pd : string;          (* param headers / data *)
  p_vh : smap; p_vd : string;          (* value headers / data; NULL is represented as empty *)
  p_timeout : Z;
  p_ikc : option string; p_iku : option string;   (* idempotency key for create / complete *)
  p_tags : smap; p_created : Z; p_completed : option Z }.

Record callback := mkCb {
  cb_id : string; cb_pid : string; cb_root : string; cb_recv : string; cb_mesg : mesg;
  cb_timeout : Z; cb_created : Z }.

Record schedule := mkS {
  s_id : string; s_sort : Z; s_desc : string; s_cron : string; s_tags : smap;
  s_pid : string; s_ptimeout : Z; s_pph : smap; s_ppd : string; s_ptags : smap;
  s_last : option Z; s_next : Z; s_ikey : option string; s_created : Z }.

Record lock := mkL { l_res : string; l_exec : string; l_proc : string; l_ttl : Z; l_exp : Z }.

Record task := mkT {
  t_id : string; t_sort : Z; t_pid : option string; t_state : Z; t_root : string;
  t_recv : string; t_mesg : mesg; t_timeout : Z; t_counter : Z; t_attempt : Z;
  t_ttl : Z; t_exp : Z; t_created : Z; t_completed : option Z }.

Record db := mkDb {
  promises : list promise; callbacks : list callback; schedules : list schedule;
  locks : list lock; tasks : list task;
  next_p : Z; next_s : Z; next_t : Z }.

Definition db0 : db := mkDb [] [] [] [] [] 1 1 1.

(* promise states *)
Definition Pending : Z := 1.
Definition Resolved : Z := 2.
Definition Rejected : Z := 4.
Definition Canceled : Z := 8.
Definition Timedout : Z := 16.
(* task states *)
Definition TInit : Z := 1.
Definition TEnqueued : Z := 2.
Definition TClaimed : Z := 4.
Definition TCompleted : Z := 8.
Definition TTimedout : Z := 16.

(* ---------- decidable equality on rows (used by the replay to compare observations) ---------- *)

Definition mesg_eqb (a b : mesg) : bool :=
  String.eqb (m_type a) (m_type b) && String.eqb (m_root a) (m_root b) && String.eqb (m_leaf a) (m_leaf b).

Definition promise_eqb (a b : promise) : bool :=
  String.eqb (p_id a) (p_id b) && (p_sort a =? p_sort b) && (p_state a =? p_state b) &&
  smap_eqb (p_ph a) (p_ph b) && String.eqb (p_pd a) (p_pd b) &&
  smap_eqb (p_vh a) (p_vh b) && String.eqb (p_vd a) (p_vd b) &&
  (p_timeout a =? p_timeout b) && opt_eqb String.eqb (p_ikc a) (p_ikc b) &&
  opt_eqb String.eqb (p_iku a) (p_iku b) && smap_eqb (p_tags a) (p_tags b) &&
  (p_created a =? p_created b) && opt_eqb Z.eqb (p_completed a) (p_completed b).

Definition callback_eqb (a b : callback) : bool :=
  String.eqb (cb_id a) (cb_id b) && String.eqb (cb_pid a) (cb_pid b) && String.eqb (cb_root a) (cb_root b) &&
  String.eqb (cb_recv a) (cb_recv b) && mesg_eqb (cb_mesg a) (cb_mesg b) &&
  (cb_timeout a =? cb_timeout b) && (cb_created a =? cb_created b).

Definition schedule_eqb (a b : schedule) : bool :=
  String.eqb (s_id a) (s_id b) && (s_sort a =? s_sort b) && String.eqb (s_desc a) (s_desc b) &&
  String.eqb (s_cron a) (s_cron b) && smap_eqb (s_tags a) (s_tags b) && String.eqb (s_pid a) (s_pid b) &&
  (s_ptimeout a =? s_ptimeout b) && smap_eqb (s_pph a) (s_pph b) && String.eqb (s_ppd a) (s_ppd b) &&
  smap_eqb (s_ptags a) (s_ptags b) && opt_eqb Z.eqb (s_last a) (s_last b) && (s_next a =? s_next b) &&
  opt_eqb String.eqb (s_ikey a) (s_ikey b) && (s_created a =? s_created b).

Definition lock_eqb (a b : lock) : bool :=
  String.eqb (l_res a) (l_res b) && String.eqb (l_exec a) (l_exec b) && String.eqb (l_proc a) (l_proc b) &&
  (l_ttl a =? l_ttl b) && (l_exp a =? l_exp b).

Definition task_eqb (a b : task) : bool :=
  String.eqb (t_id a) (t_id b) && (t_sort a =? t_sort b) && opt_eqb String.eqb (t_pid a) (t_pid b) &&
  (t_state a =? t_state b) && String.eqb (t_root a) (t_root b) && String.eqb (t_recv a) (t_recv b) &&
  mesg_eqb (t_mesg a) (t_mesg b) && (t_timeout a =? t_timeout b) && (t_counter a =? t_counter b) &&
  (t_attempt a =? t_attempt b) && (t_ttl a =? t_ttl b) && (t_exp a =? t_exp b) &&
  (t_created a =? t_created b) && opt_eqb Z.eqb (t_completed a) (t_completed b).

(* the five tables as an observer connection sees them (AUTOINCREMENT counters are not visible) *)
Definition db_eqb (a b : db) : bool :=
  list_eqb promise_eqb (promises a) (promises b) && list_eqb callback_eqb (callbacks a) (callbacks b) &&
  list_eqb schedule_eqb (schedules a) (schedules b) && list_eqb lock_eqb (locks a) (locks b) &&
  list_eqb task_eqb (tasks a) (tasks b).

(* ---------- commands and results ---------- *)

Record create_promise_cmd := mkCP {
  cp_id : string; cp_ph : smap; cp_pd : string; cp_timeout : Z; cp_ikey : option string;
  cp_tags : smap; cp_created : Z }.

Record update_promise_cmd := mkUP {
  up_id : string; up_state : Z; up_vh : smap; up_vd : string; up_ikey : option string; up_completed : Z }.

Record create_callback_cmd := mkCC {
  cc_id : string; cc_pid : string; cc_recv : string; cc_mesg : mesg; cc_timeout : Z; cc_created : Z }.

Record create_schedule_cmd := mkCS {
  cs_id : string; cs_desc : string; cs_cron : string; cs_tags : smap; cs_pid : string; cs_ptimeout : Z;
  cs_pph : smap; cs_ppd : string; cs_ptags : smap; cs_next : Z; cs_ikey : option string; cs_created : Z }.

Record create_task_cmd := mkCT {
  ct_id : string; ct_recv : string; ct_mesg : mesg; ct_timeout : Z; ct_pid : option string; ct_state : Z;
  ct_ttl : Z; ct_exp : Z; ct_created : Z }.

Record update_task_cmd := mkUT {
  ut_id : string; ut_pid : option string; ut_state : Z; ut_counter : Z; ut_attempt : Z; ut_ttl : Z;
  ut_exp : Z; ut_completed : option Z; ut_cur_states : list Z; ut_cur_counter : Z }.

Inductive command :=
| ReadPromise (id : string)
| ReadPromises (time : Z) (limit : Z)
| SearchPromises (idq : string) (states : list Z) (tags : smap) (limit : Z) (sortid : option Z)
| CreatePromise (c : create_promise_cmd)
| UpdatePromise (c : update_promise_cmd)
| CreateCallback (c : create_callback_cmd)
| DeleteCallbacks (pid : string)
| ReadSchedule (id : string)
| ReadSchedules (time : Z) (limit : Z)
| SearchSchedules (idq : string) (tags : smap) (limit : Z) (sortid : option Z)
| CreateSchedule (c : create_schedule_cmd)
| UpdateSchedule (id : string) (last : option Z) (next : Z)
| DeleteSchedule (id : string)
| ReadTask (id : string)
| ReadEnqueueableTasks (limit : Z)
| ReadTasks (states : list Z) (time : Z) (limit : Z)
| CreateTask (c : create_task_cmd)
| CreateTasks (pid : string) (created : Z)
| CompleteTasks (root : string) (completed : Z)
| UpdateTask (c : update_task_cmd)
| HeartbeatTasks (pid : string) (time : Z)
| CreatePromiseAndTask (pc : create_promise_cmd) (tc : create_task_cmd)
| ReadLock (res : string)
| AcquireLock (res exec proc : string) (ttl exp : Z)
| ReleaseLock (res exec : string)
| HeartbeatLocks (proc : string) (time : Z)
| TimeoutLocks (time : Z).

Inductive result :=
| RPromises (rows : Z) (last : Z) (recs : list promise)
| RSchedules (rows : Z) (last : Z) (recs : list schedule)
| RTasks (rows : Z) (recs : list task)
| RLocks (rows : Z) (recs : list lock)
| RAlter (rows : Z)
| RAlter2 (prows trows : Z).

Definition result_eqb (a b : result) : bool :=
  match a, b with
  | RPromises r l rs, RPromises r' l' rs' => (r =? r') && (l =? l') && list_eqb promise_eqb rs rs'
  | RSchedules r l rs, RSchedules r' l' rs' => (r =? r') && (l =? l') && list_eqb schedule_eqb rs rs'
  | RTasks r rs, RTasks r' rs' => (r =? r') && list_eqb task_eqb rs rs'
  | RLocks r rs, RLocks r' rs' => (r =? r') && list_eqb lock_eqb rs rs'
  | RAlter r, RAlter r' => r =? r'
  | RAlter2 p t, RAlter2 p' t' => (p =? p') && (t =? t')
  | _, _ => false
  end.

(* ---------- LIKE as SQLite implements it: % any run, _ one UTF-8 character, ASCII case-insensitive ---------- *)

Definition lower (c : ascii) : ascii :=
  let n := nat_of_ascii c in
  if (Nat.leb 65 n && Nat.leb n 90)%bool then ascii_of_nat (n + 32) else c.

Definition is_cont (c : ascii) : bool :=   (* UTF-8 continuation byte 10xxxxxx *)
  let n := nat_of_ascii c in (Nat.leb 128 n && Nat.leb n 191)%bool.

Fixpoint drop_cont (s : string) : string :=
  match s with
  | String c s' => if is_cont c then drop_cont s' else s
  | EmptyString => s
  end.

Definition pct : ascii := "%"%char.
Definition usc : ascii := "_"%char.
Definition star : ascii := "*"%char.

Fixpoint like (p s : string) : bool :=
  match p with
  | EmptyString => match s with EmptyString => true | _ => false end
  | String pc p' =>
    if Ascii.eqb pc pct then
      (fix any (s : string) : bool :=
         like p' s || match s with EmptyString => false | String _ s' => any s' end) s
    else if Ascii.eqb pc usc then
      match s with EmptyString => false | String _ s' => like p' (drop_cont s') end
    else
      match s with EmptyString => false | String c s' => Ascii.eqb (lower pc) (lower c) && like p' s' end
  end.

(* strings.ReplaceAll(q, "*", "%") *)
Fixpoint star_to_pct (s : string) : string :=
  match s with
  | EmptyString => EmptyString
  | String c s' => String (if Ascii.eqb c star then pct else c) (star_to_pct s')
  end.

(* json_extract(tags, '$.' || k) = v  on a flat string map.  Keys that are not a plain JSON-path label
   are classified by [key_class]; see Search.v / DESIGN D15. *)
Inductive key_class := KPlain | KNested | KBad.
Definition dot : ascii := "."%char.
Definition lbr : ascii := "["%char.
Definition dq : ascii := """"%char.
Fixpoint str_has (c : ascii) (s : string) : bool :=
  match s with EmptyString => false | String d s' => Ascii.eqb c d || str_has c s' end.
Definition key_class_of (k : string) : key_class :=
  if str_has dq k then KBad
  else if str_has dot k || str_has lbr k then KNested
  else match k with EmptyString => KBad | _ => KPlain end.

Definition tag_match1 (tags : smap) (kv : string * string) : option bool :=
  match key_class_of (fst kv) with
  | KPlain => Some (opt_eqb String.eqb (lookup (fst kv) tags) (Some (snd kv)))
  | KNested => Some false
  | KBad => None
  end.

Fixpoint tags_match (tags : smap) (q : smap) : option bool :=
  match q with
  | [] => Some true
  | kv :: q' =>
    match tag_match1 tags kv, tags_match tags q' with
    | Some a, Some b => Some (a && b)
    | _, _ => None
    end
  end.

(* ---------- the commands ---------- *)

Definition find_promise (id : string) (d : db) : option promise :=
  find (fun p => String.eqb (p_id p) id) (promises d).
Definition find_task (id : string) (d : db) : option task :=
  find (fun t => String.eqb (t_id t) id) (tasks d).
Definition find_schedule (id : string) (d : db) : option schedule :=
  find (fun s => String.eqb (s_id s) id) (schedules d).
Definition find_lock (res : string) (d : db) : option lock :=
  find (fun l => String.eqb (l_res l) res) (locks d).
Definition find_callback (id : string) (d : db) : option callback :=
  find (fun c => String.eqb (cb_id c) id) (callbacks d).

Definition limit_take {A} (limit : Z) (l : list A) : list A :=
  if limit <? 0 then l else take (Z.to_nat limit) l.

Definition set_promises (d : db) (ps : list promise) : db :=
  mkDb ps (callbacks d) (schedules d) (locks d) (tasks d) (next_p d) (next_s d) (next_t d).
Definition set_callbacks (d : db) (cs : list callback) : db :=
  mkDb (promises d) cs (schedules d) (locks d) (tasks d) (next_p d) (next_s d) (next_t d).
Definition set_schedules (d : db) (ss : list schedule) : db :=
  mkDb (promises d) (callbacks d) ss (locks d) (tasks d) (next_p d) (next_s d) (next_t d).
Definition set_locks (d : db) (ls : list lock) : db :=
  mkDb (promises d) (callbacks d) (schedules d) ls (tasks d) (next_p d) (next_s d) (next_t d).
Definition set_tasks (d : db) (ts : list task) : db :=
  mkDb (promises d) (callbacks d) (schedules d) (locks d) ts (next_p d) (next_s d) (next_t d).

Definition p_unsorted (p : promise) : promise :=   (* PROMISE_SELECT_STATEMENT does not select sort_id *)
  mkP (p_id p) 0 (p_state p) (p_ph p) (p_pd p) (p_vh p) (p_vd p) (p_timeout p) (p_ikc p) (p_iku p)
      (p_tags p) (p_created p) (p_completed p).

Definition last_sort_p (l : list promise) : Z := last (map p_sort l) 0.
Definition last_sort_s (l : list schedule) : Z := last (map s_sort l) 0.

Definition ex_read_promise (d : db) (id : string) : result :=
  match find_promise id d with
  | Some p => RPromises 1 0 [p_unsorted p]
  | None => RPromises 0 0 []
  end.

Definition ex_read_promises (d : db) (time limit : Z) : result :=
  let rs := limit_take limit (filter (fun p => (p_state p =? 1) && (p_timeout p <=? time)) (promises d)) in
  RPromises (blen rs) (last_sort_p rs) rs.

Definition below (sortid : option Z) (x : Z) : bool :=
  match sortid with None => true | Some s => x <? s end.

Definition ex_search_promises (d : db) (idq : string) (states : list Z) (tags : smap) (limit : Z)
           (sortid : option Z) : option result :=
  let pat := star_to_pct idq in
  let mask := mask_of states in
  let step (p : promise) (acc : option (list promise)) : option (list promise) :=
      match acc with
      | None => None
      | Some l =>
        if below sortid (p_sort p) && like pat (p_id p) && in_mask (p_state p) mask then
          match tags_match (p_tags p) tags with
          | Some true => Some (p :: l)
          | Some false => Some l
          | None => None
          end
        else Some l
      end in
  match fold_right step (Some []) (promises d) with
  | None => None
  | Some asc =>
    let rs := limit_take limit (rev asc) in
    Some (RPromises (blen rs) (last_sort_p rs) rs)
  end.

Definition new_promise (c : create_promise_cmd) (sort : Z) : promise :=
  mkP (cp_id c) sort 1 (cp_ph c) (cp_pd c) [] EmptyString (cp_timeout c) (cp_ikey c) None
      (cp_tags c) (cp_created c) None.

(* ON CONFLICT(id) DO NOTHING: the AUTOINCREMENT value is consumed even when the row is not inserted
   (observed on SQLite 3.40: the rowid is allocated before the UNIQUE check on id) *)
Definition bump_p (d : db) : db :=
  mkDb (promises d) (callbacks d) (schedules d) (locks d) (tasks d) (next_p d + 1) (next_s d) (next_t d).
Definition bump_s (d : db) : db :=
  mkDb (promises d) (callbacks d) (schedules d) (locks d) (tasks d) (next_p d) (next_s d + 1) (next_t d).
Definition bump_t (d : db) : db :=
  mkDb (promises d) (callbacks d) (schedules d) (locks d) (tasks d) (next_p d) (next_s d) (next_t d + 1).

Definition ex_create_promise (d : db) (c : create_promise_cmd) : db * Z :=
  match find_promise (cp_id c) d with
  | Some _ => (bump_p d, 0)
  | None =>
    (mkDb (promises d ++ [new_promise c (next_p d)]) (callbacks d) (schedules d) (locks d) (tasks d)
          (next_p d + 1) (next_s d) (next_t d), 1)
  end.

Definition complete_p (c : update_promise_cmd) (p : promise) : promise :=
  mkP (p_id p) (p_sort p) (up_state c) (p_ph p) (p_pd p) (up_vh c) (up_vd c) (p_timeout p) (p_ikc p)
      (up_ikey c) (p_tags p) (p_created p) (Some (up_completed c)).

Definition upd_guard (c : update_promise_cmd) (p : promise) : bool :=
  String.eqb (p_id p) (up_id c) && (p_state p =? 1).

Definition ex_update_promise (d : db) (c : update_promise_cmd) : db * Z :=
  let ps := map (fun p => if upd_guard c p then complete_p c p else p) (promises d) in
  (set_promises d ps, blen (filter (upd_guard c) (promises d))).

Definition new_callback (c : create_callback_cmd) : callback :=
  mkCb (cc_id c) (cc_pid c) (m_root (cc_mesg c)) (cc_recv c) (cc_mesg c) (cc_timeout c) (cc_created c).

Definition ex_create_callback (d : db) (c : create_callback_cmd) : db * Z :=
  if existsb (fun p => String.eqb (p_id p) (cc_pid c) && (p_state p =? 1)) (promises d)
     && negb (existsb (fun x => String.eqb (cb_id x) (cc_id c)) (callbacks d))
  then (set_callbacks d (callbacks d ++ [new_callback c]), 1)
  else (d, 0).

Definition ex_delete_callbacks (d : db) (pid : string) : db * Z :=
  (set_callbacks d (filter (fun c => negb (String.eqb (cb_pid c) pid)) (callbacks d)),
   blen (filter (fun c => String.eqb (cb_pid c) pid) (callbacks d))).

(* SCHEDULE_SELECT_ALL selects id, cron, promise_id, promise_timeout, promise_param_*, promise_tags,
   last_run_time, next_run_time: the other record fields keep their Go zero values *)
Definition s_project_all (s : schedule) : schedule :=
  mkS (s_id s) 0 EmptyString (s_cron s) [] (s_pid s) (s_ptimeout s) (s_pph s) (s_ppd s) (s_ptags s)
      (s_last s) (s_next s) None 0.
(* SCHEDULE_SEARCH selects id, cron, tags, last_run_time, next_run_time, idempotency_key, created_on, sort_id *)
Definition s_project_search (s : schedule) : schedule :=
  mkS (s_id s) (s_sort s) EmptyString (s_cron s) (s_tags s) EmptyString 0 [] EmptyString []
      (s_last s) (s_next s) (s_ikey s) (s_created s).
Definition s_unsorted (s : schedule) : schedule :=
  mkS (s_id s) 0 (s_desc s) (s_cron s) (s_tags s) (s_pid s) (s_ptimeout s) (s_pph s) (s_ppd s) (s_ptags s)
      (s_last s) (s_next s) (s_ikey s) (s_created s).

Definition ex_read_schedule (d : db) (id : string) : result :=
  match find_schedule id d with
  | Some s => RSchedules 1 0 [s_unsorted s]
  | None => RSchedules 0 0 []
  end.

Definition sched_le (a b : schedule) : bool :=
  (s_next a <? s_next b) || ((s_next a =? s_next b) && (s_sort a <=? s_sort b)).

Definition ex_read_schedules (d : db) (time limit : Z) : result :=
  let rs := limit_take limit (sort_by sched_le (filter (fun s => s_next s <=? time) (schedules d))) in
  RSchedules (blen rs) 0 (map s_project_all rs).

Definition ex_search_schedules (d : db) (idq : string) (tags : smap) (limit : Z) (sortid : option Z)
  : option result :=
  let pat := star_to_pct idq in
  let step (s : schedule) (acc : option (list schedule)) : option (list schedule) :=
      match acc with
      | None => None
      | Some l =>
        if below sortid (s_sort s) && like pat (s_id s) then
          match tags_match (s_tags s) tags with
          | Some true => Some (s :: l)
          | Some false => Some l
          | None => None
          end
        else Some l
      end in
  match fold_right step (Some []) (schedules d) with
  | None => None
  | Some asc =>
    let rs := limit_take limit (rev asc) in
    Some (RSchedules (blen rs) (last_sort_s rs) (map s_project_search rs))
  end.

Definition new_schedule (c : create_schedule_cmd) (sort : Z) : schedule :=
  mkS (cs_id c) sort (cs_desc c) (cs_cron c) (cs_tags c) (cs_pid c) (cs_ptimeout c) (cs_pph c) (cs_ppd c)
      (cs_ptags c) None (cs_next c) (cs_ikey c) (cs_created c).

Definition ex_create_schedule (d : db) (c : create_schedule_cmd) : db * Z :=
  match find_schedule (cs_id c) d with
  | Some _ => (bump_s d, 0)
  | None =>
    (mkDb (promises d) (callbacks d) (schedules d ++ [new_schedule c (next_s d)]) (locks d) (tasks d)
          (next_p d) (next_s d + 1) (next_t d), 1)
  end.

Definition us_guard (id : string) (last : option Z) (s : schedule) : bool :=
  String.eqb (s_id s) id && match last with Some l => s_next s =? l | None => false end.

Definition advance_s (next : Z) (s : schedule) : schedule :=
  mkS (s_id s) (s_sort s) (s_desc s) (s_cron s) (s_tags s) (s_pid s) (s_ptimeout s) (s_pph s) (s_ppd s)
      (s_ptags s) (Some (s_next s)) next (s_ikey s) (s_created s).

Definition ex_update_schedule (d : db) (id : string) (last : option Z) (next : Z) : db * Z :=
  (set_schedules d (map (fun s => if us_guard id last s then advance_s next s else s) (schedules d)),
   blen (filter (us_guard id last) (schedules d))).

Definition ex_delete_schedule (d : db) (id : string) : db * Z :=
  (set_schedules d (filter (fun s => negb (String.eqb (s_id s) id)) (schedules d)),
   blen (filter (fun s => String.eqb (s_id s) id) (schedules d))).

(* tasks *)

(* TaskRecord has no sort id field: records never show it *)
Definition t_unsorted (t : task) : task :=
  mkT (t_id t) 0 (t_pid t) (t_state t) (t_root t) (t_recv t) (t_mesg t) (t_timeout t) (t_counter t)
      (t_attempt t) (t_ttl t) (t_exp t) (t_created t) (t_completed t).


Definition ex_read_task (d : db) (id : string) : result :=
  match find_task id d with
  | Some t => RTasks 1 [t_unsorted t]
  | None => RTasks 0 []
  end.

Definition task_le (a b : task) : bool :=
  match String.compare (t_root a) (t_root b) with
  | Lt => true
  | Eq => t_sort a <=? t_sort b
  | Gt => false
  end.

Definition ex_read_tasks (d : db) (states : list Z) (time limit : Z) : result :=
  let mask := mask_of states in
  let rs := limit_take limit (sort_by task_le
              (filter (fun t => in_mask (t_state t) mask && ((t_exp t <=? time) || (t_timeout t <=? time)))
                      (tasks d))) in
  RTasks (blen rs) (map t_unsorted rs).

(* TASK_SELECT_ENQUEUEABLE: init tasks whose root has no enqueued/claimed task, one per root
   (GROUP BY root_promise_id with bare columns: WHICH row of the group is returned is not determined by
   SQL; [hint] lists the task ids the implementation returned and [enq_hint_ok] says the choice is legal),
   ordered by root, first [limit] groups. *)
Definition root_busy (d : db) (root : string) : bool :=
  existsb (fun t => String.eqb (t_root t) root && ((t_state t =? 2) || (t_state t =? 4))) (tasks d).
Definition enqueueable (d : db) (t : task) : bool :=
  (t_state t =? 1) && negb (root_busy d (t_root t)).

Fixpoint dedup_roots (l : list task) : list string :=   (* l sorted by root: distinct roots in order *)
  match l with
  | [] => []
  | t :: l' =>
    match l' with
    | t' :: _ => if String.eqb (t_root t) (t_root t') then dedup_roots l' else t_root t :: dedup_roots l'
    | [] => [t_root t]
    end
  end.

Definition enq_roots (d : db) (limit : Z) : list string :=
  limit_take limit (dedup_roots (sort_by task_le (filter (enqueueable d) (tasks d)))).

Definition enq_default (d : db) (limit : Z) : list task :=   (* the choice SQLite makes in practice: see harness *)
  let elig := sort_by task_le (filter (enqueueable d) (tasks d)) in
  map (fun r => last (filter (fun t => String.eqb (t_root t) r) elig)
                     (mkT EmptyString 0 None 0 r EmptyString (mkMesg EmptyString EmptyString EmptyString) 0 0 0 0 0 0 None))
      (enq_roots d limit).

Definition enq_by_hint (d : db) (limit : Z) (hint : list string) : option (list task) :=
  let roots := enq_roots d limit in
  let picked := map (fun id => find_task id d) hint in
  if (List.length hint =? List.length roots)%nat &&
     forallb (fun x => match x with
                       | (Some t, r) => enqueueable d t && String.eqb (t_root t) r
                       | (None, _) => false end) (combine picked roots)
  then Some (flat_map (fun x => match x with Some t => [t] | None => [] end) picked)
  else None.

Definition ex_read_enqueueable (d : db) (limit : Z) (hint : option (list string)) : option result :=
  match hint with
  | None => let rs := enq_default d limit in Some (RTasks (blen rs) (map t_unsorted rs))
  | Some h => match enq_by_hint d limit h with
              | Some rs => Some (RTasks (blen rs) (map t_unsorted rs))
              | None => None
              end
  end.

Definition new_task (c : create_task_cmd) (sort : Z) : task :=
  mkT (ct_id c) sort (ct_pid c) (ct_state c) (m_root (ct_mesg c)) (ct_recv c) (ct_mesg c) (ct_timeout c)
      1 0 (ct_ttl c) (ct_exp c) (ct_created c) None.

Definition ex_create_task (d : db) (c : create_task_cmd) : db * Z :=
  match find_task (ct_id c) d with
  | Some _ => (bump_t d, 0)
  | None =>
    (mkDb (promises d) (callbacks d) (schedules d) (locks d) (tasks d ++ [new_task c (next_t d)])
          (next_p d) (next_s d) (next_t d + 1), 1)
  end.

Definition task_of_cb (created : Z) (c : callback) (sort : Z) : task :=
  mkT (cb_id c) sort None 1 (cb_root c) (cb_recv c) (cb_mesg c) (cb_timeout c) 1 0 0 0 created None.

Fixpoint number_from {A B} (f : A -> Z -> B) (n : Z) (l : list A) : list B :=
  match l with
  | [] => []
  | x :: l' => f x n :: number_from f (n + 1) l'
  end.

Definition cb_le (a b : callback) : bool := String.leb (cb_id a) (cb_id b).

(* TASK_INSERT_ALL has no ON CONFLICT clause: a UNIQUE violation on tasks.id is an SQL error *)
Definition ex_create_tasks (d : db) (pid : string) (created : Z) : option (db * Z) :=
  let cbs := sort_by cb_le (filter (fun c => String.eqb (cb_pid c) pid) (callbacks d)) in
  if existsb (fun c => match find_task (cb_id c) d with Some _ => true | None => false end) cbs
  then None
  else Some (mkDb (promises d) (callbacks d) (schedules d) (locks d)
                  (tasks d ++ number_from (task_of_cb created) (next_t d) cbs)
                  (next_p d) (next_s d) (next_t d + blen cbs), blen cbs).

Definition ct_guard (root : string) (t : task) : bool :=
  String.eqb (t_root t) root && ((t_state t =? 1) || (t_state t =? 2) || (t_state t =? 4)).

Definition finish_t (completed : Z) (t : task) : task :=
  mkT (t_id t) (t_sort t) (t_pid t) 8 (t_root t) (t_recv t) (t_mesg t) (t_timeout t) (t_counter t)
      (t_attempt t) (t_ttl t) (t_exp t) (t_created t) (Some completed).

Definition ex_complete_tasks (d : db) (root : string) (completed : Z) : db * Z :=
  (set_tasks d (map (fun t => if ct_guard root t then finish_t completed t else t) (tasks d)),
   blen (filter (ct_guard root) (tasks d))).

Definition ut_guard (c : update_task_cmd) (t : task) : bool :=
  String.eqb (t_id t) (ut_id c) && in_mask (t_state t) (mask_of (ut_cur_states c)) &&
  (t_counter t =? ut_cur_counter c).

Definition update_t (c : update_task_cmd) (t : task) : task :=
  mkT (t_id t) (t_sort t) (ut_pid c) (ut_state c) (t_root t) (t_recv t) (t_mesg t) (t_timeout t)
      (ut_counter c) (ut_attempt c) (ut_ttl c) (ut_exp c) (t_created t) (ut_completed c).

Definition ex_update_task (d : db) (c : update_task_cmd) : db * Z :=
  (set_tasks d (map (fun t => if ut_guard c t then update_t c t else t) (tasks d)),
   blen (filter (ut_guard c) (tasks d))).

Definition hb_t_guard (pid : string) (t : task) : bool :=
  opt_eqb String.eqb (t_pid t) (Some pid) && (t_state t =? 4).

Definition set_t_exp (e : Z) (t : task) : task :=
  mkT (t_id t) (t_sort t) (t_pid t) (t_state t) (t_root t) (t_recv t) (t_mesg t) (t_timeout t) (t_counter t)
      (t_attempt t) (t_ttl t) e (t_created t) (t_completed t).

Definition ex_heartbeat_tasks (d : db) (pid : string) (time : Z) : db * Z :=
  (set_tasks d (map (fun t => if hb_t_guard pid t then set_t_exp (time + t_ttl t) t else t) (tasks d)),
   blen (filter (hb_t_guard pid) (tasks d))).

Definition ex_create_promise_and_task (d : db) (pc : create_promise_cmd) (tc : create_task_cmd) : db * (Z * Z) :=
  let '(d1, pr) := ex_create_promise d pc in
  if pr =? 0 then (d1, (0, 0))
  else let '(d2, tr) := ex_create_task d1 tc in (d2, (pr, tr)).

(* locks *)

Definition ex_read_lock (d : db) (res : string) : result :=
  match find_lock res d with
  | Some l => RLocks 1 [l]
  | None => RLocks 0 []
  end.

Definition ex_acquire_lock (d : db) (res exec proc : string) (ttl exp : Z) : db * Z :=
  match find_lock res d with
  | None => (set_locks d (locks d ++ [mkL res exec proc ttl exp]), 1)
  | Some l =>
    if String.eqb (l_exec l) exec
    then (set_locks d (map (fun x => if String.eqb (l_res x) res then mkL (l_res x) (l_exec x) proc ttl exp else x)
                           (locks d)), 1)
    else (d, 0)
  end.

Definition rl_guard (res exec : string) (l : lock) : bool :=
  String.eqb (l_res l) res && String.eqb (l_exec l) exec.

Definition ex_release_lock (d : db) (res exec : string) : db * Z :=
  (set_locks d (filter (fun l => negb (rl_guard res exec l)) (locks d)),
   blen (filter (rl_guard res exec) (locks d))).

Definition ex_heartbeat_locks (d : db) (proc : string) (time : Z) : db * Z :=
  (set_locks d (map (fun l => if String.eqb (l_proc l) proc
                              then mkL (l_res l) (l_exec l) (l_proc l) (l_ttl l) (time + l_ttl l) else l) (locks d)),
   blen (filter (fun l => String.eqb (l_proc l) proc) (locks d))).

Definition ex_timeout_locks (d : db) (time : Z) : db * Z :=
  (set_locks d (filter (fun l => negb (l_exp l <=? time)) (locks d)),
   blen (filter (fun l => l_exp l <=? time) (locks d))).

(* ---------- exec: one command; None = the statement raised an SQL error ---------- *)

Definition alter (x : db * Z) : option (db * result) := Some (fst x, RAlter (snd x)).

Definition exec (d : db) (c : command) (hint : option (list string)) : option (db * result) :=
  match c with
  | ReadPromise id => Some (d, ex_read_promise d id)
  | ReadPromises time limit => Some (d, ex_read_promises d time limit)
  | SearchPromises q st tg lim sid =>
    match ex_search_promises d q st tg lim sid with Some r => Some (d, r) | None => None end
  | CreatePromise c => alter (ex_create_promise d c)
  | UpdatePromise c => alter (ex_update_promise d c)
  | CreateCallback c => alter (ex_create_callback d c)
  | DeleteCallbacks pid => alter (ex_delete_callbacks d pid)
  | ReadSchedule id => Some (d, ex_read_schedule d id)
  | ReadSchedules time limit => Some (d, ex_read_schedules d time limit)
  | SearchSchedules q tg lim sid =>
    match ex_search_schedules d q tg lim sid with Some r => Some (d, r) | None => None end
  | CreateSchedule c => alter (ex_create_schedule d c)
  | UpdateSchedule id last next => alter (ex_update_schedule d id last next)
  | DeleteSchedule id => alter (ex_delete_schedule d id)
  | ReadTask id => Some (d, ex_read_task d id)
  | ReadEnqueueableTasks limit =>
    match ex_read_enqueueable d limit hint with Some r => Some (d, r) | None => None end
  | ReadTasks st time limit => Some (d, ex_read_tasks d st time limit)
  | CreateTask c => alter (ex_create_task d c)
  | CreateTasks pid created =>
    match ex_create_tasks d pid created with Some x => alter x | None => None end
  | CompleteTasks root completed => alter (ex_complete_tasks d root completed)
  | UpdateTask c => alter (ex_update_task d c)
  | HeartbeatTasks pid time => alter (ex_heartbeat_tasks d pid time)
  | CreatePromiseAndTask pc tc =>
    let '(d', (pr, tr)) := ex_create_promise_and_task d pc tc in Some (d', RAlter2 pr tr)
  | ReadLock res => Some (d, ex_read_lock d res)
  | AcquireLock res ex pr ttl exp => alter (ex_acquire_lock d res ex pr ttl exp)
  | ReleaseLock res ex => alter (ex_release_lock d res ex)
  | HeartbeatLocks proc time => alter (ex_heartbeat_locks d proc time)
  | TimeoutLocks time => alter (ex_timeout_locks d time)
  end.

(* a transaction: commands in order; the hints of its under-specified reads are given per command *)
Fixpoint exec_txn (d : db) (cs : list command) (hints : list (option (list string))) : option (db * list result) :=
  match cs with
  | [] => Some (d, [])
  | c :: cs' =>
    match exec d c (hd None hints) with
    | None => None
    | Some (d1, r) =>
      match exec_txn d1 cs' (tl hints) with
      | None => None
      | Some (d2, rs) => Some (d2, r :: rs)
      end
    end
  end.

(* a batch (store.Process + Execute): all transactions inside one SQL transaction, all or nothing *)
Fixpoint exec_batch (d : db) (txns : list (list command * list (option (list string))))
  : option (db * list (list result)) :=
  match txns with
  | [] => Some (d, [])
  | (cs, hs) :: txns' =>
    match exec_txn d cs hs with
    | None => None
    | Some (d1, rs) =>
      match exec_batch d1 txns' with
      | None => None
      | Some (d2, rss) => Some (d2, rs :: rss)
      end
    end
  end.
