(* C02 — one client, one request in flight: the whole kernel stack must answer every request with the answer the
   coroutine model gives when it runs alone on the current tables, and move the tables as that run moves them (the
   sequential specification).  Executable Gallina only. *)
From RV Require Export MonC02 Replay.

Fixpoint seq_go_db (fuel : nat) (cfg : config) (d : db) (o : step_out) (t : Z) (rv : option (option string))
  : option (response * db) :=
  match fuel with
  | O => None
  | S f =>
    match o_resp o with
    | Some r => Some (r, d)
    | None =>
      match o_state o, o_subs o with
      | CSeq k n, [s] =>
        match seq_sub d s rv with
        | Some (d', c) => seq_go_db f cfg d' (resume_seq cfg k c t (S n)) t rv
        | None => None
        end
      | _, _ => None
      end
    end
  end.

(* nothing is routed in this family: the router's verdict is "no receiver" *)
Definition seq_answer_db (cfg : config) (d : db) (q : request) (t : Z) : option (response * db) :=
  seq_go_db 12 cfg d (start_req q t 0) t (Some None).

Inductive scase := CStack (q : request) (t : Z) (rsp : response).

Fixpoint stack_from (cfg : config) (d : db) (j : nat) (cs : list scase) : option nat :=
  match cs with
  | [] => None
  | CStack q t rsp :: cs' =>
    match seq_answer_db cfg d q t with
    | Some (r, d') => if response_eqb r rsp then stack_from cfg d' (S j) cs' else Some j
    | None => Some j
    end
  end.

Fixpoint stack_mismatches_from (i : nat) (l : list (config * list scase)) : list (nat * nat * Z) :=
  match l with
  | [] => []
  | (cfg, cs) :: l' =>
    match stack_from cfg db0 0 cs with
    | Some j => (i, j, 0) :: stack_mismatches_from (S i) l'
    | None => stack_mismatches_from (S i) l'
    end
  end.
Definition stack_mismatches := stack_mismatches_from 0.
