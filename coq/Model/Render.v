(* C15 (first half) — what both front ends must make of a kernel outcome: for every operation, every status the kernel
   defines and every shape of the accompanying response.  Executable Gallina only. *)
From Coq Require Export List String ZArith Bool.
Export ListNotations.
Open Scope string_scope.
Open Scope Z_scope.

Definition successful (s : Z) : bool := (20000 <=? s) && (s <? 30000).

Definition http_expected (s : Z) : Z := s / 100.

(* gRPC codes: OK 0, InvalidArgument 3, NotFound 5, AlreadyExists 6, PermissionDenied 7, Internal 13, Unavailable 14 *)
Definition grpc_expected (s : Z) : Z :=
  let h := s / 100 in
  if successful s then 0
  else if h =? 400 then 3
  else if h =? 403 then 7
  else if h =? 404 then 5
  else if h =? 409 then 6
  else if h =? 500 then 13
  else if h =? 503 then 14
  else -1.

Definition StOK := 20000.
Definition StCreated := 20100.
Definition StNoContent := 20400.

Definition is_op (a b : string) : bool := String.eqb a b.
Definition op_in (op : string) (l : list string) : bool := existsb (String.eqb op) l.

(* the outcome flag of each operation's gRPC reply and the status it stands for *)
Definition flags_expected (op : string) (s : Z) : list (string * bool) :=
  if op_in op ["CreatePromise"; "CreatePromiseAndTask"; "ResolvePromise"; "RejectPromise"; "CancelPromise";
               "CreateCallback"; "CreateSubscription"; "CreateSchedule"]%string then [("Noop"%string, s =? StOK)]
  else if is_op op "AcquireLock" then [("Acquired"%string, s =? StCreated)]
  else if is_op op "ReleaseLock" then [("Released"%string, s =? StNoContent)]
  else if is_op op "ClaimTask" then [("Claimed"%string, s =? StCreated)]
  else if is_op op "CompleteTask" then [("Completed"%string, s =? StCreated)]
  else [].

(* EXACT: the promise object of the reply carries every field of the stub promise, value for value, under the names of
   the protocol (HTTP JSON keys / protobuf fields).
   the resources that must be visible in a successful reply when the kernel supplied them (shape 0: all optional
   fields set; 2: optional fields nil; 1: resources absent).  HTTP 204 carries no body. *)
Definition markers_http (op : string) (s : Z) (shape : Z) (resume : bool) : list string :=
  if (shape =? 1) && negb (is_op op "ClaimTask" && (s =? StCreated)) && negb (op_in op ["HeartbeatLocks"; "HeartbeatTasks"]%string) then []
  else if s =? StNoContent then []
  else if op_in op ["ReadPromise"; "SearchPromises"; "CreatePromise"; "ResolvePromise"; "RejectPromise"; "CancelPromise"]%string
       then "PRM" :: (if shape =? 0 then ["IKEY"; "EXACT"] else [])
  else if is_op op "CreatePromiseAndTask" then "PRM" :: "TSK" :: (if shape =? 0 then ["IKEY"; "EXACT"] else [])
  else if op_in op ["CreateCallback"; "CreateSubscription"]%string then "PRM" :: "CBK" :: (if shape =? 0 then ["IKEY"; "EXACT"] else [])
  else if op_in op ["ReadSchedule"; "SearchSchedules"; "CreateSchedule"]%string then "SCH" :: (if shape =? 0 then ["IKEY"] else [])
  else if is_op op "AcquireLock" then ["LCK"]
  else if op_in op ["HeartbeatLocks"; "HeartbeatTasks"]%string then ["7777"]
  else if is_op op "CompleteTask" then ["TSK"]
  else if is_op op "ClaimTask" then
    (if s =? StCreated then
       "ROOT" :: (if resume then ["LEAF"] else []) ++
       (if shape =? 1 then [] else "RPRM" :: (if resume then ["LPRM"] else [])) ++
       (if shape =? 0 then "HREFR" :: (if resume then ["HREFL"] else []) else [])
     else [])
  else [].

(* the gRPC messages carry less: no task in CreatePromiseAndTask, no lock in AcquireLock, no task in CompleteTask *)
Definition markers_grpc (op : string) (s : Z) (shape : Z) (resume : bool) : list string :=
  if (shape =? 1) && negb (is_op op "ClaimTask" && (s =? StCreated)) && negb (op_in op ["HeartbeatLocks"; "HeartbeatTasks"]%string) then []
  else if op_in op ["ReadPromise"; "SearchPromises"; "CreatePromise"; "CreatePromiseAndTask"; "ResolvePromise"; "RejectPromise"; "CancelPromise"]%string
       then "PRM" :: (if shape =? 0 then ["IKEY"; "EXACT"] else [])
  else if op_in op ["CreateCallback"; "CreateSubscription"]%string then "PRM" :: "CBK" :: (if shape =? 0 then ["IKEY"; "EXACT"] else [])
  else if op_in op ["ReadSchedule"; "SearchSchedules"; "CreateSchedule"]%string then "SCH" :: (if shape =? 0 then ["IKEY"] else [])
  else if op_in op ["HeartbeatLocks"; "HeartbeatTasks"]%string then ["7777"]
  else if is_op op "ClaimTask" then
    (if s =? StCreated then
       "ROOT" :: (if resume then ["LEAF"] else []) ++
       (if shape =? 1 then [] else "RPRM" :: (if resume then ["LPRM"] else [])) ++
       (if shape =? 0 then "HREFR" :: (if resume then ["HREFL"] else []) else [])
     else [])
  else [].

Definition subset (a b : list string) : bool := forallb (fun x => existsb (String.eqb x) b) a.

Inductive hobs := HPanic | HReply (code : Z) (json_ok : bool) (errcode : option Z) (markers : list string).
Inductive gobs := GPanic | GReply (code : Z) (flags : list (string * bool)) (markers : list string).
Inductive rcase := CRender (op : string) (status shape : Z) (resume : bool) (h : hobs) (g : gobs).

Definition flag_eqb (a b : string * bool) : bool := String.eqb (fst a) (fst b) && Bool.eqb (snd a) (snd b).
Fixpoint flags_eqb (a b : list (string * bool)) : bool :=
  match a, b with
  | [], [] => true
  | x :: a', y :: b' => flag_eqb x y && flags_eqb a' b'
  | _, _ => false
  end.

Definition hobs_ok (op : string) (s shape : Z) (resume : bool) (h : hobs) : bool :=
  match h with
  | HPanic => false
  | HReply code json_ok errcode markers =>
    (code =? http_expected s) && (json_ok || (code =? 204)) &&
    (if successful s then match errcode with None => subset (markers_http op s shape resume) markers | Some _ => false end
     else match errcode with Some c => c =? s | None => false end)
  end.

Definition gobs_ok (op : string) (s shape : Z) (resume : bool) (g : gobs) : bool :=
  match g with
  | GPanic => false
  | GReply code flags markers =>
    (code =? grpc_expected s) &&
    (if successful s then flags_eqb flags (flags_expected op s) && subset (markers_grpc op s shape resume) markers else true)
  end.

(* code 1: HTTP rendering wrong; 2: gRPC rendering wrong; 3: both; 4 added: a status the kernel does not define *)
Definition rcase_code (statuses : list Z) (c : rcase) : Z :=
  match c with
  | CRender op s shape resume h g =>
    (if hobs_ok op s shape resume h then 0 else 1) + (if gobs_ok op s shape resume g then 0 else 2) +
    (if existsb (Z.eqb s) statuses then 0 else 4)
  end.

Fixpoint bad_rcases (statuses : list Z) (j : nat) (cs : list rcase) : list (nat * Z) :=
  match cs with
  | [] => []
  | c :: cs' => ((if rcase_code statuses c =? 0 then [] else [(j, rcase_code statuses c)]) ++ bad_rcases statuses (S j) cs')%list
  end.
Fixpoint render_mismatches_from (statuses : list Z) (i : nat) (l : list (list rcase)) : list (nat * nat * Z) :=
  match l with
  | [] => []
  | cs :: l' => (map (fun jc => (i, fst jc, snd jc)) (bad_rcases statuses 0 cs) ++ render_mismatches_from statuses (S i) l')%list
  end.

(* the statuses come from the source (Gen/Status.v); a group must also cover every one of them (code 8 otherwise) *)
From RV Require Import Gen.Status.
Definition kernel_statuses : list Z := map snd status_consts.
Definition rcase_status (c : rcase) : Z := match c with CRender _ s _ _ _ _ => s end.
Definition covers_all (cs : list rcase) : bool := forallb (fun s => existsb (fun c => rcase_status c =? s) cs) kernel_statuses.
Fixpoint coverage_gaps (i : nat) (l : list (list rcase)) : list (nat * nat * Z) :=
  match l with
  | [] => []
  | cs :: l' => ((if covers_all cs then [] else [(i, 0%nat, 8)]) ++ coverage_gaps (S i) l')%list
  end.
Definition render_mismatches (l : list (list rcase)) : list (nat * nat * Z) :=
  (render_mismatches_from kernel_statuses 0 l ++ coverage_gaps 0 l)%list.
