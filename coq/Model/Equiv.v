(* C15 (second half) — "equivalent HTTP and gRPC requests are translated into the same kernel request".
   A logical request [lreq] is what a client wants to say; [http_front] and [grpc_front] model what the HTTP handler
   (gin binding rules + explicit checks) and the gRPC handler (explicit checks only) of that operation make of it when
   it is expressed in the protocol in the obvious way: None = rejected with a client error, nothing reaches the
   kernel; Some q = the kernel request submitted.  Executable Gallina only. *)
From RV Require Export Valid.

Inductive lreq :=
| LReq (q : request) (cbid : string)       (* every operation but search; cbid: the Id field of a callback request *)
| LSearchP (idq : string) (state : Z) (tags : smap) (limit : Z)   (* state: 0 all, 1 pending, 2 resolved, 3 rejected *)
| LSearchS (idq : string) (tags : smap) (limit : Z).

(* the cron expressions the generator uses; ValidateCron accepts exactly the first list (checked by the harness) *)
Definition good_crons : list string := ["* * * * *"; "*/5 * * * *"; "0 0 * * 1"; "15 3 1 1 *"]%string.
Definition cron_good (c : string) : bool := existsb (String.eqb c) good_crons.

Definition search_states (state : Z) : option (list Z) :=
  if state =? 0 then Some [Pending; Resolved; Rejected; Timedout; Canceled]
  else if state =? 1 then Some [Pending]
  else if state =? 2 then Some [Resolved]
  else if state =? 3 then Some [Rejected; Timedout; Canceled]
  else None.

(* api.SearchPromises / api.SearchSchedules: the helper both front ends share *)
Definition search_limit (limit : Z) : option Z :=
  let l := if limit =? 0 then 100 else limit in
  if (l <? 1) || (100 <? l) then None else Some l.

Definition helper_search_p (idq : string) (state : Z) (tags : smap) (limit : Z) : option request :=
  if negb (nonempty idq) then None else
  match search_states state, search_limit limit with
  | Some sts, Some l => Some (QSearchPromises idq sts tags l None)
  | _, _ => None
  end.

Definition helper_search_s (idq : string) (tags : smap) (limit : Z) : option request :=
  if negb (nonempty idq) then None else
  match search_limit limit with
  | Some l => Some (QSearchSchedules idq tags l None)
  | None => None
  end.

Definition guard (b : bool) (q : request) : option request := if b then Some q else None.

(* gin: `required` on a string = non-empty, on an int = non-zero, on raw JSON = present; `min=0` = non-negative;
   the query binding of search (`omitempty,gte=0,lte=100`) is subsumed by the helper *)
Definition http_front (l : lreq) : option request :=
  match l with
  | LSearchP idq state tags limit => helper_search_p idq state tags limit
  | LSearchS idq tags limit => helper_search_s idq tags limit
  | LReq q cbid =>
    match q with
    | QReadPromise id | QReadSchedule id | QDeleteSchedule id => guard (nonempty id) q      (* path parameter *)
    | QSearchPromises _ _ _ _ _ | QSearchSchedules _ _ _ _ => None
    | QCreatePromise r => guard (nonempty (cpr_id r)) q
    | QCreatePromiseAndTask r pid ttl => guard (nonempty (cpr_id r) && nonempty pid && (0 <=? ttl)) q
    | QCompletePromise r => guard (nonempty (cmr_id r) && user_state_b (cmr_state r)) q
    | QCreateCallback pid root _ recv => guard (nonempty cbid && nonempty pid && nonempty root && nonempty recv) q
    | QCreateSubscription id pid _ recv => guard (nonempty id && nonempty pid && nonempty recv) q
    | QCreateSchedule r => guard (nonempty (csr_id r) && nonempty (csr_cron r) && nonempty (csr_pid r) && cron_good (csr_cron r)) q
    | QAcquireLock res ex pr ttl => guard (nonempty res && nonempty ex && nonempty pr && (0 <=? ttl)) q
    | QReleaseLock res ex => guard (nonempty res && nonempty ex) q
    | QHeartbeatLocks pr => guard (nonempty pr) q
    | QClaimTask id counter pid ttl => guard (nonempty id && negb (counter =? 0) && nonempty pid && (0 <=? ttl)) q
    | QCompleteTask id counter => guard (nonempty id && negb (counter =? 0)) q
    | QHeartbeatTasks pid => guard (nonempty pid) q
    end
  end.

Definition grpc_front (l : lreq) : option request :=
  match l with
  | LSearchP idq state tags limit => helper_search_p idq state tags limit
  | LSearchS idq tags limit => helper_search_s idq tags limit
  | LReq q cbid =>
    match q with
    | QSearchPromises _ _ _ _ _ | QSearchSchedules _ _ _ _ => None
    | QCreatePromiseAndTask r pid ttl => guard (0 <=? ttl) q
    | QCompletePromise r => guard (user_state_b (cmr_state r)) q       (* one RPC per state: others cannot be said *)
    | QCreateCallback _ _ _ recv | QCreateSubscription _ _ _ recv => guard (nonempty recv) q
    | QCreateSchedule r => guard (cron_good (csr_cron r)) q
    | QClaimTask id counter pid ttl => guard (nonempty pid && (0 <=? ttl)) q
    | _ => Some q
    end
  end.

(* a well-formed logical request: every identifying field present, counters as the server hands them out (>= 1 in
   fact; non-zero is what matters here), non-negative lifetimes, a page size the API documents, a valid cron *)
Definition lreq_wf (l : lreq) : bool :=
  match l with
  | LSearchP idq state _ limit => nonempty idq && (0 <=? state) && (state <=? 3) && (0 <=? limit) && (limit <=? 100)
  | LSearchS idq _ limit => nonempty idq && (0 <=? limit) && (limit <=? 100)
  | LReq q cbid =>
    match q with
    | QReadPromise id | QReadSchedule id | QDeleteSchedule id => nonempty id
    | QSearchPromises _ _ _ _ _ | QSearchSchedules _ _ _ _ => false
    | QCreatePromise r => nonempty (cpr_id r)
    | QCreatePromiseAndTask r pid ttl => nonempty (cpr_id r) && nonempty pid && (0 <=? ttl)
    | QCompletePromise r => nonempty (cmr_id r) && user_state_b (cmr_state r)
    | QCreateCallback pid root _ recv => nonempty cbid && nonempty pid && nonempty root && nonempty recv
    | QCreateSubscription id pid _ recv => nonempty id && nonempty pid && nonempty recv
    | QCreateSchedule r => nonempty (csr_id r) && nonempty (csr_pid r) && cron_good (csr_cron r)
    | QAcquireLock res ex pr ttl => nonempty res && nonempty ex && nonempty pr && (0 <=? ttl)
    | QReleaseLock res ex => nonempty res && nonempty ex
    | QHeartbeatLocks pr => nonempty pr
    | QClaimTask id counter pid ttl => nonempty id && negb (counter =? 0) && nonempty pid && (0 <=? ttl)
    | QCompleteTask id counter => nonempty id && negb (counter =? 0)
    | QHeartbeatTasks pid => nonempty pid
    end
  end.

(* ---------- equality of kernel requests ---------- *)
Definition cpr_eqb (a b : create_promise_req) : bool :=
  String.eqb (cpr_id a) (cpr_id b) && opt_eqb String.eqb (cpr_ikey a) (cpr_ikey b) && Bool.eqb (cpr_strict a) (cpr_strict b) &&
  smap_eqb (cpr_ph a) (cpr_ph b) && String.eqb (cpr_pd a) (cpr_pd b) && (cpr_timeout a =? cpr_timeout b) && smap_eqb (cpr_tags a) (cpr_tags b).
Definition cmr_eqb (a b : complete_promise_req) : bool :=
  String.eqb (cmr_id a) (cmr_id b) && opt_eqb String.eqb (cmr_ikey a) (cmr_ikey b) && Bool.eqb (cmr_strict a) (cmr_strict b) &&
  (cmr_state a =? cmr_state b) && smap_eqb (cmr_vh a) (cmr_vh b) && String.eqb (cmr_vd a) (cmr_vd b).
Definition csr_eqb (a b : create_schedule_req) : bool :=
  String.eqb (csr_id a) (csr_id b) && String.eqb (csr_desc a) (csr_desc b) && String.eqb (csr_cron a) (csr_cron b) &&
  smap_eqb (csr_tags a) (csr_tags b) && String.eqb (csr_pid a) (csr_pid b) && (csr_ptimeout a =? csr_ptimeout b) &&
  smap_eqb (csr_pph a) (csr_pph b) && String.eqb (csr_ppd a) (csr_ppd b) && smap_eqb (csr_ptags a) (csr_ptags b) &&
  opt_eqb String.eqb (csr_ikey a) (csr_ikey b).

Definition request_eqb (a b : request) : bool :=
  match a, b with
  | QReadPromise x, QReadPromise y | QReadSchedule x, QReadSchedule y | QDeleteSchedule x, QDeleteSchedule y
  | QHeartbeatLocks x, QHeartbeatLocks y | QHeartbeatTasks x, QHeartbeatTasks y => String.eqb x y
  | QSearchPromises i s t l c, QSearchPromises i' s' t' l' c' =>
    String.eqb i i' && list_eqb Z.eqb s s' && smap_eqb t t' && (l =? l') && opt_eqb Z.eqb c c'
  | QSearchSchedules i t l c, QSearchSchedules i' t' l' c' => String.eqb i i' && smap_eqb t t' && (l =? l') && opt_eqb Z.eqb c c'
  | QCreatePromise r, QCreatePromise r' => cpr_eqb r r'
  | QCreatePromiseAndTask r p t, QCreatePromiseAndTask r' p' t' => cpr_eqb r r' && String.eqb p p' && (t =? t')
  | QCompletePromise r, QCompletePromise r' => cmr_eqb r r'
  | QCreateCallback p r t v, QCreateCallback p' r' t' v' => String.eqb p p' && String.eqb r r' && (t =? t') && String.eqb v v'
  | QCreateSubscription i p t v, QCreateSubscription i' p' t' v' => String.eqb i i' && String.eqb p p' && (t =? t') && String.eqb v v'
  | QCreateSchedule r, QCreateSchedule r' => csr_eqb r r'
  | QAcquireLock a1 a2 a3 t, QAcquireLock b1 b2 b3 t' => String.eqb a1 b1 && String.eqb a2 b2 && String.eqb a3 b3 && (t =? t')
  | QReleaseLock a1 a2, QReleaseLock b1 b2 => String.eqb a1 b1 && String.eqb a2 b2
  | QClaimTask i c p t, QClaimTask i' c' p' t' => String.eqb i i' && (c =? c') && String.eqb p p' && (t =? t')
  | QCompleteTask i c, QCompleteTask i' c' => String.eqb i i' && (c =? c')
  | _, _ => false
  end.

(* ---------- replay of the equivalence family ---------- *)
(* what one front end made of the logical request: rejected with a client error and nothing reached the kernel;
   one kernel request submitted (with the callback Id it carried); anything else (panic, 5xx, both) *)
Inductive fout := FRejected | FReached (q : request) (cbid : string) | FBroken.

Inductive ecase := CEquiv (l : lreq) (http grpc : fout).

Definition lreq_cbid (l : lreq) : string := match l with LReq (QCreateCallback _ _ _ _) cbid => cbid | _ => EmptyString end.

Definition fout_ok (l : lreq) (model : option request) (o : fout) : bool :=
  match model, o with
  | None, FRejected => true
  | Some q, FReached q' cbid' => request_eqb q q' && String.eqb (lreq_cbid l) cbid'
  | _, _ => false
  end.

(* code 1: the HTTP front end differs from its model; 2: the gRPC front end; 3: both *)
Definition ecase_code (c : ecase) : Z :=
  match c with
  | CEquiv l h g => (if fout_ok l (http_front l) h then 0 else 1) + (if fout_ok l (grpc_front l) g then 0 else 2)
  end.

Fixpoint bad_ecases (j : nat) (cs : list ecase) : list (nat * Z) :=
  match cs with
  | [] => []
  | c :: cs' => ((if ecase_code c =? 0 then [] else [(j, ecase_code c)]) ++ bad_ecases (S j) cs')%list
  end.
Fixpoint equiv_mismatches_from (i : nat) (l : list (list ecase)) : list (nat * nat * Z) :=
  match l with
  | [] => []
  | cs :: l' => (map (fun jc => (i, fst jc, snd jc)) (bad_ecases 0 cs) ++ equiv_mismatches_from (S i) l')%list
  end.
Definition equiv_mismatches := equiv_mismatches_from 0.
