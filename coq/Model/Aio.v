(* C11 / C12 — the aio layer between the kernel thread and the subsystems: dispatch of submissions, the bounded
   completion queue, collection of completions.  One goroutine (the kernel's) calls Dispatch and DequeueCQE; the
   subsystem workers call EnqueueCQE.  Executable Gallina only. *)
From Coq Require Export List ZArith Bool Arith Lia.
Export ListNotations.
Open Scope Z_scope.

Inductive aop :=
| ADispatch (id : nat) (accept : bool)     (* the subsystem takes the submission, or refuses it (its queue is full) *)
| AComplete (id : nat)                     (* a worker puts the completion of an accepted submission on the queue *)
| ADequeue (n : Z).                        (* the kernel collects completions and runs their callbacks *)

Record astate := mkA { a_cq : list nat; a_inflight : list nat }.
Definition a0 := mkA [] [].

Definition remove_id (id : nat) (l : list nat) : list nat := filter (fun x => negb (Nat.eqb x id)) l.

(* DequeueCQE(n) stops as soon as i >= n - collected: it collects ceil(n/2) entries at most *)
Definition dequeue_take (n : Z) (avail : nat) : nat := Nat.min (Z.to_nat ((n + 1) / 2)) avail.

(* one operation: new state, whether the call returns, the callbacks that run during it (id, success) *)
Definition astep (size : Z) (s : astate) (o : aop) : astate * bool * list (nat * bool) :=
  match o with
  | ADispatch id true => (mkA (a_cq s) (id :: a_inflight s), true, [])
  | ADispatch id false => (s, true, [(id, false)])        (* refused: completed with an error at once, never queued *)
  | AComplete id =>
    if existsb (Nat.eqb id) (a_inflight s) && (Z.of_nat (length (a_cq s)) <? size)
    then (mkA (a_cq s ++ [id]) (remove_id id (a_inflight s)), true, [])
    else (s, true, [])
  | ADequeue n =>
    let k := dequeue_take n (length (a_cq s)) in
    (mkA (skipn k (a_cq s)) (a_inflight s), true, map (fun id => (id, true)) (firstn k (a_cq s)))
  end.

Fixpoint arun (size : Z) (s : astate) (ops : list aop) : astate * list (nat * bool) :=
  match ops with
  | [] => (s, [])
  | o :: ops' =>
    let '(s1, _, ans) := astep size s o in
    let '(s2, ans') := arun size s1 ops' in (s2, ans ++ ans')
  end.

(* ---------- replay ---------- *)
Inductive aobs := AOp (o : aop) (returned : bool) (answers : list (nat * bool)).
Inductive acase := CAio (size : Z) (ops : list aobs).

Definition ans_eqb (a b : nat * bool) : bool := Nat.eqb (fst a) (fst b) && Bool.eqb (snd a) (snd b).
Fixpoint anss_eqb (a b : list (nat * bool)) : bool :=
  match a, b with
  | [], [] => true
  | x :: a', y :: b' => ans_eqb x y && anss_eqb a' b'
  | _, _ => false
  end.

Definition dispatched (ops : list aobs) : list (nat * bool) :=
  flat_map (fun x => match x with AOp (ADispatch id acc) _ _ => [(id, acc)] | _ => [] end) ops.
Definition all_answers (ops : list aobs) : list (nat * bool) := flat_map (fun x => match x with AOp _ _ a => a end) ops.
Definition count_ans (id : nat) (l : list (nat * bool)) : nat := length (filter (fun a => Nat.eqb (fst a) id) l).

(* the property: every call returned, and (the harness drains at the end) every dispatched submission was completed
   exactly once, with success iff the subsystem accepted it *)
Definition acase_property (c : acase) : bool :=
  match c with
  | CAio _ ops =>
    forallb (fun x => match x with AOp _ r _ => r end) ops &&
    forallb (fun d => Nat.eqb (count_ans (fst d) (all_answers ops)) 1 &&
                      existsb (ans_eqb d) (all_answers ops)) (dispatched ops)
  end.

(* operational agreement: each operation ran the callbacks the model says, in that order *)
Fixpoint aops_agree (size : Z) (s : astate) (ops : list aobs) : bool :=
  match ops with
  | [] => true
  | AOp o r ans :: ops' =>
    let '(s1, r', ans') := astep size s o in
    Bool.eqb r r' && anss_eqb ans ans' && aops_agree size s1 ops'
  end.

(* code 1: the property fails on this operation sequence; 100: it holds, but the code did something else than the
   model on the way (a broken tie, not a failing input) *)
Definition acase_code (c : acase) : Z :=
  if negb (acase_property c) then 1
  else match c with CAio size ops => if aops_agree size a0 ops then 0 else 100 end.

Fixpoint bad_acases (j : nat) (cs : list acase) : list (nat * Z) :=
  match cs with
  | [] => []
  | c :: cs' => ((if acase_code c =? 0 then [] else [(j, acase_code c)]) ++ bad_acases (S j) cs')%list
  end.
Fixpoint aio_mismatches_from (i : nat) (l : list (list acase)) : list (nat * nat * Z) :=
  match l with
  | [] => []
  | cs :: l' => (map (fun jc => (i, fst jc, snd jc)) (bad_acases 0 cs) ++ aio_mismatches_from (S i) l')%list
  end.
Definition aio_mismatches := aio_mismatches_from 0.
