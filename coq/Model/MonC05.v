(* C05 — no lost wake-ups: registrations become tasks atomically with completion.  The executable statement. *)
From RV Require Export Mon.

Fixpoint uniq_str (l : list string) : bool :=
  match l with
  | [] => true
  | x :: l' => negb (existsb (String.eqb x) l') && uniq_str l'
  end.

Definition task_for_b (c : callback) (t : task) : bool :=
  String.eqb (t_id t) (cb_id c) && String.eqb (t_root t) (cb_root c) && String.eqb (t_recv t) (cb_recv c) &&
  mesg_eqb (t_mesg t) (cb_mesg c) && (t_timeout t =? cb_timeout c).

Definition has_pending (d : db) (pid : string) : bool :=
  existsb (fun p => String.eqb (p_id p) pid && (p_state p =? Pending)) (promises d).

(* 501 a registration outlives its promise (callback row on a missing or completed promise)
   502 two callbacks or two tasks with one id (a registration would yield a second task)
   503 a registration disappeared without leaving its task (same id, root, receiver, message, timeout) *)
Definition c05_exec (before after : db) : list Z :=
  (if forallb (fun c => has_pending after (cb_pid c)) (callbacks after) then [] else [501]) ++
  (if uniq_str (map cb_id (callbacks after)) && uniq_str (map t_id (tasks after)) then [] else [502]) ++
  (if forallb (fun c => existsb (callback_eqb c) (callbacks after) || existsb (task_for_b c) (tasks after))
              (callbacks before) then [] else [503]).

Definition c05_chk : checker := fun now d dir ob =>
  match dir with
  | DExec _ => flat_map (fun o => match o with OExec _ _ snap => c05_exec d snap | _ => [] end) ob
  | _ => []
  end.

Definition C05_mon := mon c05_chk.

(* 506 (needs more than the last snapshot, so it is a separate fold): a registration request was answered
   "20000, promise pending, no callback" although its conditional insert had lost against a completion of the
   promise: nothing is registered and no task will ever be created (DESIGN D1).  The insert that lost is
   recognised when it executes: CreateCallback with 0 rows on a promise that is not pending. *)
Definition lost_insert (d : db) (txn : list command) (rs : list result) : bool :=
  match txn, rs with
  | [CreateCallback c], [RAlter 0] => negb (has_pending d (cc_pid c)) &&
                                      negb (existsb (fun x => String.eqb (cb_id x) (cc_id c)) (callbacks d))
  | _, _ => false
  end.

Fixpoint doomed_ids (d : db) (items : list exec_item) (txns : list (list command)) (rss : list (list result)) : list string :=
  match items, txns, rss with
  | e :: items', t :: txns', r :: rss' =>
    (if lost_insert d t r then [ex_id e] else []) ++ doomed_ids d items' txns' rss'
  | _, _, _ => []
  end.

Fixpoint c05x_from (doomed : list string) (d : db) (i : nat) (tr : list (directive * list obs)) : list viol :=
  match tr with
  | [] => []
  | (DExec items, [OExec txns (Some rss) snap]) :: tr' =>
    (* NB: inside one batch an earlier transaction may complete the promise; the conservative test uses the
       snapshot BEFORE the batch, so only inserts that had already lost when the batch began are recorded *)
    c05x_from (doomed_ids d items txns rss ++ doomed) snap (S i) tr'
  | (DTick _ _ _ _, ob) :: tr' =>
    (flat_map (fun o => match o with
                        | OInst id _ (Some (RspCallback 20000 (Some p) None)) =>
                          if (p_state p =? Pending) && existsb (String.eqb id) doomed then [(506, i)] else []
                        | _ => [] end) ob ++ c05x_from doomed d (S i) tr')%list
  | (_, ob) :: tr' => c05x_from doomed (last_snap d ob) (S i) tr'
  end.
Definition C05x_mon (tr : list (directive * list obs)) : list viol := c05x_from [] db0 0 tr.
Definition C05_full_mon (tr : list (directive * list obs)) : list viol := (C05_mon tr ++ C05x_mon tr)%list.

(* 507 (history fold that remembers which request each id carries): an acknowledged registration that shows the
   promise PENDING and reports no new callback is only right when the registration already exists, i.e. the
   durable state holds the callback with the derived id (or, if the promise completed in the meantime, the task
   that callback became).  Otherwise the caller is told to wait for a wake-up nobody will send. *)
Definition reg_id (q : request) : option string :=
  match q with
  | QCreateCallback pid root _ _ => Some (callback_id root pid)
  | QCreateSubscription id pid _ _ => Some (subscription_id pid id)
  | _ => None
  end.

Definition registered (d : db) (rid : string) : bool :=
  existsb (fun c => String.eqb (cb_id c) rid) (callbacks d) || existsb (fun t => String.eqb (t_id t) rid) (tasks d).

Fixpoint c05y_from (reqs : list (string * request)) (d : db) (i : nat) (tr : list (directive * list obs)) : list viol :=
  match tr with
  | [] => []
  | (DTick _ _ _ arrive, ob) :: tr' =>
    let reqs' := (arrive ++ reqs)%list in
    (flat_map (fun o => match o with
                        | OInst id _ (Some (RspCallback 20000 (Some p) None)) =>
                          if p_state p =? Pending then
                            match find (fun e => String.eqb (fst e) id) reqs' with
                            | Some (_, q) => match reg_id q with
                                             | Some rid => if registered d rid then [] else [(507, i)]
                                             | None => []
                                             end
                            | None => []
                            end
                          else []
                        | _ => [] end) ob ++ c05y_from reqs' d (S i) tr')%list
  | (_, ob) :: tr' => c05y_from reqs (last_snap d ob) (S i) tr'
  end.
Definition C05y_mon (tr : list (directive * list obs)) : list viol := c05y_from [] db0 0 tr.

(* 504 / 505 (per commit; evaluated): a registration that is converted must leave a task that can still be
   dispatched: the task that carries its id, if it is new in this commit, is not already finished.
   504: it is born finished although only ONE completion of its promise ran in the commit (the conversion itself
        swallowed the wake-up) - unless it is a resume task whose root promise completed in the same commit; 505: several completions of that promise ran in the commit and a losing one finished
        the winner's new task (DESIGN D18, known finding of C08). *)
Definition t_done (t : task) : bool := (t_state t =? TCompleted) || (t_state t =? TTimedout).
Definition completions_of (pid : string) (cmds : list command) : nat :=
  List.length (filter (fun c => match c with UpdatePromise u => String.eqb (up_id u) pid | _ => false end) cmds).

(* a resume task whose own root promise has completed as well (e.g. both promises time out in one commit) is rightly
   finished with it (C08, clause 803); a notification's root is the completed promise itself, so it never is *)
Definition root_pending (d : db) (root : string) : bool :=
  match find_promise root d with Some p => p_state p =? Pending | None => false end.

Definition c05w_exec (cmds : list command) (before after : db) : list Z :=
  flat_map (fun c =>
              if existsb (callback_eqb c) (callbacks after) then []
              else match find (fun t => String.eqb (t_id t) (cb_id c)) (tasks after) with
                   | Some t =>
                     if existsb (fun t0 => String.eqb (t_id t0) (cb_id c)) (tasks before) then []
                     else if t_done t && (String.eqb (m_type (t_mesg t)) "notify" || root_pending after (t_root t))
                          then (if Nat.leb 2 (completions_of (cb_pid c) cmds) then [505] else [504]) else []
                   | None => []
                   end) (callbacks before).

Definition c05w_chk : checker := fun now d dir ob =>
  match dir with
  | DExec _ => flat_map (fun o => match o with OExec txns _ snap => c05w_exec (List.concat txns) d snap | _ => [] end) ob
  | _ => []
  end.
Definition C05w_mon := mon c05w_chk.

