(* C05 — no lost wake-ups: registrations become tasks atomically with completion.  The executable statement. *)
From RV Require Export Mon.

Fixpoint uniq_str (l : list string) : bool :=
  match l with
  | [] => true
  | x :: l' => negb (existsb (String.eqb x) l') && uniq_str l'
  end.

Definition task_for_b (c : callback) (t : task) : bool :=
  String.eqb (t_id t) (cb_id c) && String.eqb (t_root t) (cb_root c) && String.eqb (t_recv t) (cb_recv c) &&
  mesg_eqb (t_mesg t) (cb_mesg c) && (t_timeout t =? cb_timeout c).

Definition has_pending (d : db) (pid : string) : bool :=
  existsb (fun p => String.eqb (p_id p) pid && (p_state p =? Pending)) (promises d).

(* 501 a registration outlives its promise (callback row on a missing or completed promise)
   502 two callbacks or two tasks with one id (a registration would yield a second task)
   503 a registration disappeared without leaving its task (same id, root, receiver, message, timeout) *)
Definition c05_exec (before after : db) : list Z :=
  (if forallb (fun c => has_pending after (cb_pid c)) (callbacks after) then [] else [501]) ++
  (if uniq_str (map cb_id (callbacks after)) && uniq_str (map t_id (tasks after)) then [] else [502]) ++
  (if forallb (fun c => existsb (callback_eqb c) (callbacks after) || existsb (task_for_b c) (tasks after))
              (callbacks before) then [] else [503]).

Definition c05_chk : checker := fun now d dir ob =>
  match dir with
  | DExec _ => flat_map (fun o => match o with OExec _ _ snap => c05_exec d snap | _ => [] end) ob
  | _ => []
  end.

Definition C05_mon := mon c05_chk.

(* 506 (needs more than the last snapshot, so it is a separate fold): a registration request was answered
   "20000, promise pending, no callback" although its conditional insert had lost against a completion of the
   promise: nothing is registered and no task will ever be created (DESIGN D1).  The insert that lost is
   recognised when it executes: CreateCallback with 0 rows on a promise that is not pending. *)
Definition lost_insert (d : db) (txn : list command) (rs : list result) : bool :=
  match txn, rs with
  | [CreateCallback c], [RAlter 0] => negb (has_pending d (cc_pid c)) &&
                                      negb (existsb (fun x => String.eqb (cb_id x) (cc_id c)) (callbacks d))
  | _, _ => false
  end.

Fixpoint doomed_ids (d : db) (items : list exec_item) (txns : list (list command)) (rss : list (list result)) : list string :=
  match items, txns, rss with
  | e :: items', t :: txns', r :: rss' =>
    (if lost_insert d t r then [ex_id e] else []) ++ doomed_ids d items' txns' rss'
  | _, _, _ => []
  end.

Fixpoint c05x_from (doomed : list string) (d : db) (i : nat) (tr : list (directive * list obs)) : list viol :=
  match tr with
  | [] => []
  | (DExec items, [OExec txns (Some rss) snap]) :: tr' =>
    (* NB: inside one batch an earlier transaction may complete the promise; the conservative test uses the
       snapshot BEFORE the batch, so only inserts that had already lost when the batch began are recorded *)
    c05x_from (doomed_ids d items txns rss ++ doomed) snap (S i) tr'
  | (DTick _ _ _ _, ob) :: tr' =>
    (flat_map (fun o => match o with
                        | OInst id _ (Some (RspCallback 20000 (Some p) None)) =>
                          if (p_state p =? Pending) && existsb (String.eqb id) doomed then [(506, i)] else []
                        | _ => [] end) ob ++ c05x_from doomed d (S i) tr')%list
  | (_, ob) :: tr' => c05x_from doomed (last_snap d ob) (S i) tr'
  end.
Definition C05x_mon (tr : list (directive * list obs)) : list viol := c05x_from [] db0 0 tr.
Definition C05_full_mon (tr : list (directive * list obs)) : list viol := (C05_mon tr ++ C05x_mon tr)%list.
