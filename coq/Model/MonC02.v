(* C02 — API histories are linearizable to the sequential spec.  Executable statement, response side:
   201: a request was answered with a response that a single-threaded server -- the SAME coroutine run alone, to
        completion, on an unchanging database -- would not give on ANY database state that existed between the
        request's arrival and its answer, at ANY tick time in that interval.
   202: the same for a successful claim whose task part IS the sequential answer but whose promise bodies were read
        at another instant (DESIGN D19).
   The sequential spec is the model's own coroutine, run atomically (seq_answer); answers that report a failure
   (injected store / router faults: the request may or may not have taken effect) are not judged. *)
From RV Require Export Mon.

Definition seq_sub (d : db) (s : sub) (rv : option (option string)) : option (db * cpl) :=
  match s with
  | SStore cs => match exec_txn d cs [] with Some (d', rs) => Some (d', CStore rs) | None => None end
  | SRouter _ => match rv with Some v => Some (d, CRouter v) | None => None end
  | SSender _ => None
  end.

Fixpoint seq_go (fuel : nat) (cfg : config) (d : db) (o : step_out) (t : Z) (rv : option (option string)) : option response :=
  match fuel with
  | O => None
  | S f =>
    match o_resp o with
    | Some r => Some r
    | None =>
      match o_state o, o_subs o with
      | CSeq k n, [s] =>
        match seq_sub d s rv with
        | Some (d', c) => seq_go f cfg d' (resume_seq cfg k c t (S n)) t rv
        | None => None
        end
      | _, _ => None                     (* fan-outs (a search that has to time promises out first) are not judged *)
      end
    end
  end.

(* t0: the instant the coroutine starts (it stamps what it builds at once, e.g. the task of create-with-task);
   t: the instant of its later steps *)
Definition seq_answer (cfg : config) (d : db) (q : request) (t0 t : Z) (rv : option (option string)) : option response :=
  seq_go 12 cfg d (start_req q t0 0) t rv.

Definition judged (r : response) : bool :=
  match r with RspError _ | RspPanic | RspBgDone => false | _ => true end.

Record c02_state := mkC02 {
  c2_reqs : list (string * (request * nat));           (* id -> request, index of the arrival event *)
  c2_verdicts : list (string * option (option string));
  c2_dbs : list (nat * db);                            (* most recent first: (event index, tables after it) *)
  c2_ticks : list (nat * Z) }.

(* the database states that existed from the arrival on: every later one, and the one in force at the arrival *)
Fixpoint dbs_since (a : nat) (l : list (nat * db)) : list db :=
  match l with
  | [] => []
  | (i, d) :: l' => if Nat.leb a i then d :: dbs_since a l' else [d]
  end.

(* the states after each transaction of a batch but the last (the last one is the snapshot) *)
Fixpoint inter_dbs (d : db) (txns : list (list command)) (hints : list (list (option (list string)))) : list db :=
  match txns with
  | [] | [_] => []
  | t :: txns' =>
    match exec_txn d t (hd [] hints) with
    | Some (d', _) => d' :: inter_dbs d' txns' (tl hints)
    | None => []
    end
  end.

(* a successful claim whose task part is the sequential one but whose promise bodies come from another instant *)
Definition claim_eq_mod_promises (a b : response) : bool :=
  match a, b with
  | RspClaim s t _ _ rh lh, RspClaim s' t' _ _ rh' lh' =>
    (s =? s') && opt_eqb task_eqb t t' && String.eqb rh rh' && String.eqb lh lh'
  | _, _ => false
  end.

Definition c02_check (cfg : config) (st : c02_state) (id : string) (rsp : response) (t_now : Z) : Z :=
  if negb (judged rsp) then 0
  else match find (fun e => String.eqb (fst e) id) (c2_reqs st) with
       | None => 0
       | Some (_, (q, a)) =>
         let rv := match find (fun e => String.eqb (fst e) id) (c2_verdicts st) with Some (_, v) => v | None => Some None end in
         let dbs := dbs_since a (c2_dbs st) in
         let ts := t_now :: map snd (filter (fun e => Nat.leb a (fst e)) (c2_ticks st)) in
         (* undecidable sequential runs (fan-outs, missing verdict) are not judged *)
         let t0s := match q with QCreatePromiseAndTask _ _ _ => ts | _ => [] end in
         let answers := flat_map (fun d => flat_map (fun t => seq_answer cfg d q t t rv :: map (fun t0 => seq_answer cfg d q t0 t rv) t0s) ts) dbs in
         if existsb (fun a => match a with None => true | Some r => response_eqb r rsp end) answers then 0
         else if existsb (fun a => match a with None => false | Some r => claim_eq_mod_promises r rsp end) answers then 202
         else 201
       end.

Fixpoint c02_from (cfg : config) (st : c02_state) (i : nat) (tr : list (directive * list obs)) : list viol :=
  match tr with
  | [] => []
  | (DTick t _ _ arrive, ob) :: tr' =>
    let st1 := mkC02 (map (fun e => (fst e, (snd e, i))) arrive ++ c2_reqs st) (c2_verdicts st) (c2_dbs st) (c2_ticks st) in
    (flat_map (fun o => match o with
                        | OInst id _ (Some rsp) => let c := c02_check cfg st1 id rsp t in if c =? 0 then [] else [(c, i)]
                        | _ => [] end) ob ++
     c02_from cfg (mkC02 (c2_reqs st1) (c2_verdicts st1) (c2_dbs st1) ((i, t) :: c2_ticks st1)) (S i) tr')%list
  | (DRouter id _ res, _) :: tr' =>
    c02_from cfg (mkC02 (c2_reqs st) ((id, res) :: c2_verdicts st) (c2_dbs st) (c2_ticks st)) (S i) tr'
  | (DCrash, _) :: tr' =>
    c02_from cfg (mkC02 [] [] (c2_dbs st) (c2_ticks st)) (S i) tr'
  | (DExec items, [OExec txns (Some _) snap]) :: tr' =>
    (* the states inside the batch existed too (its transactions run one after the other) *)
    let before := match c2_dbs st with (_, d) :: _ => d | [] => db0 end in
    let inner := map (fun d => (i, d)) (rev (inter_dbs before txns (map ex_hints items))) in
    c02_from cfg (mkC02 (c2_reqs st) (c2_verdicts st) ((i, snap) :: inner ++ c2_dbs st) (c2_ticks st)) (S i) tr'
  | (_, ob) :: tr' =>
    match ob with
    | [OExec _ _ snap] => c02_from cfg (mkC02 (c2_reqs st) (c2_verdicts st) ((i, snap) :: c2_dbs st) (c2_ticks st)) (S i) tr'
    | _ => c02_from cfg st (S i) tr'
    end
  end.
Definition C02_mon (cfg : config) (tr : list (directive * list obs)) : list viol :=
  c02_from cfg (mkC02 [] [] [(0%nat, db0)] []) 0 tr.
