(* C11 — background processing converges.  Executable statement over the final QUIET phase of a trace (from event
   index [from] on: no client requests, no injected faults, every hand-off succeeds, one clock unit per tick):
   nothing that is due stays due for more than [bound] consecutive ticks:
   1101 a promise pending although its timeout has passed
   1102 a lock although its lease has run out
   1103 a schedule whose next run time has passed (the same occurrence; catching up resets the age)
   1104 an enqueued or claimed task past its lease, or an unfinished task past its own timeout (same counter)
   1105 a dispatchable task (init, no task of its root enqueued or claimed) left undispatched
   The bound is in ticks; one background cycle takes three to five ticks of the scripted kernel. *)
From RV Require Export Mon MonC07.

Definition c11_bound : nat := 45.

Definition root_busy11 (d : db) (root : string) : bool :=
  existsb (fun t => String.eqb (t_root t) root && ((t_state t =? TEnqueued) || (t_state t =? TClaimed))) (tasks d).

Definition due_keys (now : Z) (d : db) : list (Z * string) :=
  (map (fun p => (1101, ("P:" ++ p_id p)%string)) (filter (fun p => (p_state p =? Pending) && (p_timeout p <=? now)) (promises d)) ++
   map (fun l => (1102, ("L:" ++ l_res l)%string)) (filter (fun l => l_exp l <=? now) (locks d)) ++
   map (fun s => (1103, ("S:" ++ s_id s ++ "@" ++ dec (s_next s))%string)) (filter (fun s => s_next s <=? now) (schedules d)) ++
   map (fun t => (1104, ("T:" ++ t_id t ++ "@" ++ dec (t_counter t))%string))
       (filter (fun t => negb (t_finished t) &&
                         ((((t_state t =? TEnqueued) || (t_state t =? TClaimed)) && (t_exp t <=? now)) || (t_timeout t <=? now))) (tasks d)) ++
   map (fun t => (1105, ("D:" ++ t_id t ++ "@" ++ dec (t_counter t))%string))
       (filter (fun t => (t_state t =? TInit) && negb (root_busy11 d (t_root t)) && (now <? t_timeout t)) (tasks d)))%list.

Fixpoint age_of (k : string) (ages : list (string * nat)) : nat :=
  match ages with [] => O | (k', n) :: a' => if String.eqb k k' then n else age_of k a' end.

Fixpoint c11_from (bound from : nat) (ages : list (string * nat)) (d : db) (i : nat) (tr : list (directive * list obs)) : list viol :=
  match tr with
  | [] => []
  | (DTick t _ _ _, ob) :: tr' =>
    if Nat.leb from i then
      let keys := due_keys t d in
      let ages' := map (fun ck => (snd ck, S (age_of (snd ck) ages))) keys in
      (flat_map (fun ck => if Nat.eqb (S (age_of (snd ck) ages)) (S bound) then [(fst ck, i)] else []) keys ++
       c11_from bound from ages' (last_snap d ob) (S i) tr')%list
    else c11_from bound from ages (last_snap d ob) (S i) tr'
  | (_, ob) :: tr' => c11_from bound from ages (last_snap d ob) (S i) tr'
  end.
Definition C11_mon_b (bound from : nat) (tr : list (directive * list obs)) : list viol := c11_from bound from [] db0 0 tr.
Definition C11_mon := C11_mon_b c11_bound.
