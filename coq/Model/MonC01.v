(* C01 — promise completion is write-once and creation fields are immutable: the executable statement. *)
From RV Require Export Mon.

Definition creation_eqb (p q : promise) : bool :=
  String.eqb (p_id p) (p_id q) && (p_sort p =? p_sort q) && smap_eqb (p_ph p) (p_ph q) && String.eqb (p_pd p) (p_pd q) &&
  (p_timeout p =? p_timeout q) && opt_eqb String.eqb (p_ikc p) (p_ikc q) && smap_eqb (p_tags p) (p_tags q) &&
  (p_created p =? p_created q).

Definition final_b (s : Z) : bool := (s =? Resolved) || (s =? Rejected) || (s =? Canceled) || (s =? Timedout).
Definition is_some {A} (o : option A) : bool := match o with Some _ => true | None => false end.

(* a row may only grow: creation fields and sort id fixed; a completed row is frozen; a pending row stays as it
   is or becomes completed (final state, completion time set) *)
Definition row_le_b (p q : promise) : bool :=
  creation_eqb p q &&
  (if p_state p =? Pending then promise_eqb p q || (final_b (p_state q) && is_some (p_completed q))
   else promise_eqb p q).

Definition fresh_b (q : promise) : bool :=
  (p_state q =? Pending) && smap_eqb (p_vh q) [] && String.eqb (p_vd q) EmptyString &&
  negb (is_some (p_iku q)) && negb (is_some (p_completed q)).
Definition new_ok_b (q : promise) : bool := fresh_b q || (final_b (p_state q) && is_some (p_completed q)).

Fixpoint uniq_ids (l : list string) : bool :=
  match l with
  | [] => true
  | x :: l' => negb (existsb (String.eqb x) l') && uniq_ids l'
  end.

(* 101 a promise row disappeared, or its creation fields / sort id changed, or a completed row changed, or a
       pending row moved to something that is not a completion
   102 two rows with one id
   104 a new row that is neither a fresh pending promise nor a completed one *)
Definition c01_exec (before after : db) : list Z :=
  (if forallb (fun p => match find_promise (p_id p) after with Some q => row_le_b p q | None => false end)
              (promises before) then [] else [101]) ++
  (if uniq_ids (map p_id (promises after)) then [] else [102]) ++
  (if forallb (fun q => match find_promise (p_id q) before with Some _ => true | None => new_ok_b q end)
              (promises after) then [] else [104]).

(* a promise body shown to anybody agrees with the durable row: creation fields always, completion fields as
   soon as the body shows a completed state *)
Definition ceq_b (p q : promise) : bool :=
  String.eqb (p_id p) (p_id q) && smap_eqb (p_ph p) (p_ph q) && String.eqb (p_pd p) (p_pd q) &&
  (p_timeout p =? p_timeout q) && opt_eqb String.eqb (p_ikc p) (p_ikc q) && smap_eqb (p_tags p) (p_tags q) &&
  (p_created p =? p_created q).
Definition compl_eqb (p q : promise) : bool :=
  (p_state p =? p_state q) && smap_eqb (p_vh p) (p_vh q) && String.eqb (p_vd p) (p_vd q) &&
  opt_eqb String.eqb (p_iku p) (p_iku q) && opt_eqb Z.eqb (p_completed p) (p_completed q).
Definition body_ok (d : db) (p : promise) : bool :=
  match find_promise (p_id p) d with
  | Some q => ceq_b p q && ((p_state p =? Pending) || compl_eqb p q)
  | None => false
  end.

Definition opt_list {A} (o : option A) : list A := match o with Some x => [x] | None => [] end.
Definition resp_bodies (r : response) : list promise :=
  match r with
  | RspPromise _ p => opt_list p
  | RspPromiseTask _ p _ => opt_list p
  | RspSearchP _ ps _ => ps
  | RspCallback _ p _ => opt_list p
  | RspClaim _ _ rp lp _ _ => opt_list rp ++ opt_list lp
  | _ => []
  end.
Definition sub_bodies (s : sub) : list promise :=
  match s with SSender m => opt_list (sd_promise m) | _ => [] end.

(* 103 a response (read, create, complete, search, callback, subscription, claim) shows a promise body that
       differs from the durable row;  105 a dispatched message (notification / invocation payload) does *)
Definition c01_inst (d : db) (subs : list sub) (r : option response) : list Z :=
  (if forallb (body_ok d) (match r with Some x => resp_bodies x | None => [] end) then [] else [103]) ++
  (if forallb (body_ok d) (flat_map sub_bodies subs) then [] else [105]).

Definition c01_chk : checker := fun now d dir ob =>
  match dir with
  | DExec _ => flat_map (fun o => match o with OExec _ _ snap => c01_exec d snap | _ => [] end) ob
  | DTick _ _ _ _ => flat_map (fun o => match o with OInst _ subs r => c01_inst d subs r | _ => [] end) ob
  | _ => []
  end.

Definition C01_mon := mon c01_chk.
