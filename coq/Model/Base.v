(* Base definitions shared by every model file. Executable Gallina only; no proofs here. *)
From Coq Require Export List ZArith String Ascii Bool.
Export ListNotations.
#[global] Open Scope Z_scope.

Definition smap := list (string * string).

Fixpoint lookup (k : string) (m : smap) : option string :=
  match m with
  | [] => None
  | (k', v) :: m' => if String.eqb k k' then Some v else lookup k m'
  end.

Definition opt_eqb {A} (eqb : A -> A -> bool) (a b : option A) : bool :=
  match a, b with
  | None, None => true
  | Some x, Some y => eqb x y
  | _, _ => false
  end.

Definition pair_eqb {A B} (ea : A -> A -> bool) (eb : B -> B -> bool) (x y : A * B) : bool :=
  ea (fst x) (fst y) && eb (snd x) (snd y).

Fixpoint list_eqb {A} (eqb : A -> A -> bool) (l1 l2 : list A) : bool :=
  match l1, l2 with
  | [], [] => true
  | x :: l1', y :: l2' => eqb x y && list_eqb eqb l1' l2'
  | _, _ => false
  end.

Definition smap_eqb : smap -> smap -> bool := list_eqb (pair_eqb String.eqb String.eqb).

(* int64 arithmetic as Go performs it: two's-complement wrap. *)
Definition two63 : Z := 9223372036854775808.
Definition two64 : Z := 18446744073709551616.
Definition wrap64 (x : Z) : Z := ((x + two63) mod two64) - two63.
Definition add64 (x y : Z) : Z := wrap64 (x + y).
Definition in64 (x : Z) : bool := (- two63 <=? x) && (x <? two63).

(* idempotency.Key.Match: both present and equal *)
Definition ikey_match (a b : option string) : bool :=
  match a, b with
  | Some x, Some y => String.eqb x y
  | _, _ => false
  end.

(* bit test as SQL `state & mask != 0` for the one-hot state encodings 1,2,4,8,16 *)
Definition in_mask (state mask : Z) : bool := negb (Z.land state mask =? 0).

Fixpoint mask_of (l : list Z) : Z :=
  match l with [] => 0 | x :: l' => Z.lor x (mask_of l') end.

Definition sum_Z (l : list Z) : Z := fold_right Z.add 0 l.

Definition blen {A} (l : list A) : Z := Z.of_nat (List.length l).

Fixpoint take {A} (n : nat) (l : list A) : list A :=
  match n, l with
  | O, _ => []
  | _, [] => []
  | S n', x :: l' => x :: take n' l'
  end.

(* insertion sort by a key, stable *)
Fixpoint insert_by {A} (le : A -> A -> bool) (x : A) (l : list A) : list A :=
  match l with
  | [] => [x]
  | y :: l' => if le x y then x :: l else y :: insert_by le x l'
  end.
Definition sort_by {A} (le : A -> A -> bool) (l : list A) : list A :=
  fold_right (insert_by le) [] l.
