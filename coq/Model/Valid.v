(* C13 — what the kernel requires of a request (req_asserts: the util.Assert conditions on request fields in the
   coroutines; violating one is a Go panic in a coroutine goroutine, i.e. the server process dies) and what the front
   ends must therefore let through at most (req_wf_b).  Executable Gallina only. *)
From RV Require Export Coro.

Definition nonempty (s : string) : bool := negb (String.eqb s EmptyString).

(* the request-field assertions of internal/app/coroutines/*.go *)
Definition req_asserts (q : request) : bool :=
  match q with
  | QClaimTask _ _ pid ttl => nonempty pid && (0 <=? ttl)
  | QSearchPromises idq _ _ limit _ => nonempty idq && (0 <? limit)
  | QSearchSchedules idq _ limit _ => nonempty idq && (0 <? limit)
  | _ => true
  end.

Definition user_state_b (s : Z) : bool := (s =? Resolved) || (s =? Rejected) || (s =? Canceled).

(* what both front ends must guarantee about every request they hand to the kernel: the assertions above, and a
   completion names one of the three states a client may ask for (what the trace theorems assume: Discipline.req_wf) *)
Definition req_wf_b (q : request) : bool :=
  req_asserts q &&
  match q with
  | QCompletePromise r => user_state_b (cmr_state r)
  | _ => true
  end.

(* ---------- replay of the front-end family ---------- *)
(* one hostile raw request sent through a real front end with a stub kernel behind it:
   protocol, whether the handler panicked, the status class the client saw, and the request the kernel saw (if any) *)
Inductive fcase := CFront (grpc : bool) (panicked : bool) (client_error : bool) (seen : option request).

Definition fcase_ok (c : fcase) : bool :=
  match c with
  | CFront _ panicked client_error seen =>
    negb panicked &&
    match seen with
    | Some q => req_wf_b q          (* whatever reaches the kernel is something the kernel can take *)
    | None => true
    end
  end.

Fixpoint bad_fcases (j : nat) (cs : list fcase) : list nat :=
  match cs with
  | [] => []
  | c :: cs' => ((if fcase_ok c then [] else [j]) ++ bad_fcases (S j) cs')%list
  end.
Fixpoint front_mismatches_from (i : nat) (l : list (list fcase)) : list (nat * nat * Z) :=
  match l with
  | [] => []
  | cs :: l' => (map (fun j => (i, j, 0)) (bad_fcases 0 cs) ++ front_mismatches_from (S i) l')%list
  end.
Definition front_mismatches := front_mismatches_from 0.

(* one hostile KERNEL request run through the real coroutine in a child process: did the process die? *)
Inductive acase := CAssert (q : request) (died : bool).
Definition acase_ok (c : acase) : bool := match c with CAssert q died => Bool.eqb died (negb (req_asserts q)) end.
Fixpoint bad_acases (j : nat) (cs : list acase) : list nat :=
  match cs with
  | [] => []
  | c :: cs' => ((if acase_ok c then [] else [j]) ++ bad_acases (S j) cs')%list
  end.
Fixpoint asserts_mismatches_from (i : nat) (l : list (list acase)) : list (nat * nat * Z) :=
  match l with
  | [] => []
  | cs :: l' => (map (fun j => (i, j, 0)) (bad_acases 0 cs) ++ asserts_mismatches_from (S i) l')%list
  end.
Definition asserts_mismatches := asserts_mismatches_from 0.
