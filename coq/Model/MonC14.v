(* C14 — search with cursors returns exactly the matching set, once each, newest first.  Executable statement
   of what one PAGE must be (the traversal theorem of Proofs/PC14.v turns correct pages into a correct traversal):
   1401 a returned promise does not match the query (id pattern, state set, tags)
   1402 more rows than the requested page size
   1403 a cursor is missing although the page is full / present although it is not / is not the sort id of the
        last returned row
   1404 the store's answer to SearchPromises is not the first [limit] matching rows below the cursor, newest first
   1405 the page is not strictly newest-first, or reaches above the cursor it was asked with *)
From RV Require Export Mon.

Definition c14_matches (idq : string) (states : list Z) (tags : smap) (p : promise) : bool :=
  like (star_to_pct idq) (p_id p) && in_mask (p_state p) (mask_of states) &&
  match tags_match (p_tags p) tags with Some true => true | _ => false end.

Definition durable_sort (d : db) (p : promise) : option Z :=
  match find_promise (p_id p) d with Some q => Some (p_sort q) | None => None end.

Fixpoint strictly_desc (l : list (option Z)) : bool :=
  match l with
  | Some a :: ((Some b :: _) as l') => (b <? a) && strictly_desc l'
  | [Some _] => true
  | [] => true
  | _ => false
  end.

Definition c14_resp (d : db) (q : request) (rsp : response) : list Z :=
  match q, rsp with
  | QSearchPromises idq states tags limit sortid, RspSearchP 20000 ps cursor =>
    let sorts := map (durable_sort d) ps in
    (if forallb (c14_matches idq states tags) ps then [] else [1401]) ++
    (if Z.of_nat (List.length ps) <=? limit then [] else [1402]) ++
    (if match cursor with
        | Some c => (Z.of_nat (List.length ps) =? limit) && opt_eqb Z.eqb (last sorts None) (Some c)
        | None => negb (Z.of_nat (List.length ps) =? limit)
        end then [] else [1403]) ++
    (if strictly_desc sorts &&
        match sortid, sorts with
        | Some s, Some a :: _ => a <? s
        | _, _ => true
        end then [] else [1405])
  | _, _ => []
  end.

Definition writes_promises (c : command) : bool :=
  match c with
  | CreatePromise _ | UpdatePromise _ | CreatePromiseAndTask _ _ => true
  | _ => false
  end.

Fixpoint c14_store (before : db) (quiet : bool) (txns : list (list command)) (rss : list (list result)) : list Z :=
  match txns, rss with
  | t :: txns', r :: rss' =>
    (match t, r with
     | [SearchPromises q st tg lim sid], [res] =>
       if quiet then
         match ex_search_promises before q st tg lim sid with
         | Some expected => if result_eqb expected res then [] else [1404]
         | None => []
         end
       else []
     | _, _ => []
     end ++ c14_store before (quiet && negb (existsb writes_promises t)) txns' rss')%list
  | _, _ => []
  end.

Fixpoint c14_from (reqs : list (string * request)) (d : db) (i : nat) (tr : list (directive * list obs)) : list viol :=
  match tr with
  | [] => []
  | (DTick _ _ _ arrive, ob) :: tr' =>
    let reqs' := (arrive ++ reqs)%list in
    (flat_map (fun o => match o with
                        | OInst id _ (Some rsp) =>
                          match find (fun e => String.eqb (fst e) id) reqs' with
                          | Some (_, q) => map (fun c => (c, i)) (c14_resp d q rsp)
                          | None => []
                          end
                        | _ => [] end) ob ++ c14_from reqs' d (S i) tr')%list
  | (DExec _, [OExec txns (Some rss) snap]) :: tr' =>
    (map (fun c => (c, i)) (c14_store d true txns rss) ++ c14_from reqs snap (S i) tr')%list
  | (_, ob) :: tr' => c14_from reqs (last_snap d ob) (S i) tr'
  end.
Definition C14_mon (tr : list (directive * list obs)) : list viol := c14_from [] db0 0 tr.
