(* C12 — every request gets exactly one response.  The request path of the kernel: api.EnqueueSQE (submission queue,
   shutting-down flag), System.Tick (completions first, then at most ceil(batch/2) dequeued requests, each either
   admitted to the coroutine pool or answered "scheduler queue full"), coroutines that answer at once or after one
   IO, System.Done.  One step per call, as the single kernel goroutine runs them.  Executable Gallina only. *)
From RV Require Export Base.
From Coq Require Export List String ZArith Bool Arith.
Import ListNotations.

Definition ShuttingDown : Z := 50300%Z.
Definition ApiQueueFull : Z := 50301%Z.
Definition SchedulerQueueFull : Z := 50303%Z.
Definition AnswerNow : Z := 40001%Z.       (* the request whose coroutine answers without IO (callback on itself) *)
Definition AnswerLater : Z := 40400%Z.     (* the request whose coroutine answers after one store round trip (read of a missing id) *)

Record kst := mkK {
  k_cap : nat; k_pool : nat; k_batch : nat; k_cbatch : nat;
  k_sq : list (string * bool);      (* accepted, not yet dequeued: (id, answers-now?) *)
  k_live : list string;             (* coroutines waiting for their IO, in awaiting order *)
  k_ready : list string;            (* IOs finished, completion not yet delivered *)
  k_done : bool }.

Definition k_init (cap pool batch cbatch : nat) : kst := mkK cap pool batch cbatch [] [] [] false.

(* api.EnqueueSQE: answered at once with an error, or accepted *)
Definition k_enq (st : kst) (id : string) (now : bool) : kst * option Z :=
  if k_done st then (st, Some ShuttingDown)
  else if Nat.ltb (List.length (k_sq st)) (k_cap st)
       then (mkK (k_cap st) (k_pool st) (k_batch st) (k_cbatch st) (k_sq st ++ [(id, now)]) (k_live st) (k_ready st) (k_done st), None)
       else (st, Some ApiQueueFull).

Definition k_shutdown (st : kst) : kst :=
  mkK (k_cap st) (k_pool st) (k_batch st) (k_cbatch st) (k_sq st) (k_live st) (k_ready st) true.

(* the IO subsystem finishes the IO of a waiting coroutine *)
Definition k_complete (st : kst) (id : string) : kst :=
  if existsb (String.eqb id) (k_live st) && negb (existsb (String.eqb id) (k_ready st))
  then mkK (k_cap st) (k_pool st) (k_batch st) (k_cbatch st) (k_sq st) (k_live st) (k_ready st ++ [id]) (k_done st)
  else st.

(* DequeueSQE(n): the loop bound shrinks as entries are collected: at most ceil(n/2) *)
Definition dequeue_count (batch : nat) (queued : nat) : nat := Nat.min (Nat.div (batch + 1) 2) queued.

(* pool_admit the dequeued requests in order while the pool's input queue has room *)
Fixpoint pool_admit (slots : nat) (reqs : list (string * bool)) : list (string * bool) * list (string * Z) :=
  match reqs with
  | [] => ([], [])
  | r :: reqs' =>
    match slots with
    | O => let '(a, rej) := pool_admit O reqs' in (a, (fst r, SchedulerQueueFull) :: rej)
    | S s => let '(a, rej) := pool_admit s reqs' in (r :: a, rej)
    end
  end.

Definition k_tick (st : kst) : kst * list (string * Z) :=
  let delivered := firstn (k_cbatch st) (k_ready st) in
  let ready' := skipn (k_cbatch st) (k_ready st) in
  let live' := filter (fun i => negb (existsb (String.eqb i) delivered)) (k_live st) in
  let n := dequeue_count (k_batch st) (List.length (k_sq st)) in
  let '(admitted, rejected) := pool_admit (k_pool st) (firstn n (k_sq st)) in
  let now_ids := map fst (filter snd admitted) in
  let later_ids := map fst (filter (fun r => negb (snd r)) admitted) in
  (mkK (k_cap st) (k_pool st) (k_batch st) (k_cbatch st) (skipn n (k_sq st)) (live' ++ later_ids) ready' (k_done st),
   rejected ++ map (fun i => (i, AnswerNow)) now_ids ++ map (fun i => (i, AnswerLater)) delivered)%list.

Definition k_is_done (st : kst) : bool :=
  k_done st && match k_sq st with [] => true | _ => false end && match k_live st with [] => true | _ => false end.

(* ---------- replay ---------- *)
Inductive kcase :=
| KInit (cap pool batch cbatch : nat)
| KEnq (id : string) (now : bool) (obs : option Z)
| KShutdown
| KComplete (id : string)
| KTick (obs : list (string * Z)) (done : bool).

Fixpoint insert_resp (x : string * Z) (l : list (string * Z)) : list (string * Z) :=
  match l with
  | [] => [x]
  | y :: l' => if String.leb (fst x) (fst y) then x :: l else y :: insert_resp x l'
  end.
Definition sort_resp (l : list (string * Z)) : list (string * Z) := fold_right insert_resp [] l.

Definition resp_eqb (a b : string * Z) : bool := String.eqb (fst a) (fst b) && Z.eqb (snd a) (snd b).

Definition kstep (st : kst) (c : kcase) : option kst :=
  match c with
  | KInit cap pool batch cbatch => Some (k_init cap pool batch cbatch)
  | KEnq id now obs => let '(st', r) := k_enq st id now in if opt_eqb Z.eqb r obs then Some st' else None
  | KShutdown => Some (k_shutdown st)
  | KComplete id => Some (k_complete st id)
  | KTick obs done =>
    let '(st', rs) := k_tick st in
    if list_eqb resp_eqb (sort_resp rs) (sort_resp obs) && Bool.eqb (k_is_done st') done then Some st' else None
  end.

Fixpoint krun (st : kst) (j : nat) (cs : list kcase) : option nat :=
  match cs with
  | [] => None
  | c :: cs' => match kstep st c with Some st' => krun st' (S j) cs' | None => Some j end
  end.

Fixpoint kernel_mismatches_from (i : nat) (l : list (list kcase)) : list (nat * nat * Z) :=
  match l with
  | [] => []
  | cs :: l' => (match krun (k_init 0 0 0 0) 0 cs with Some j => [(i, j, 0%Z)] | None => [] end ++ kernel_mismatches_from (S i) l')%list
  end.
Definition kernel_mismatches := kernel_mismatches_from 0.
