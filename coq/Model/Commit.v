(* C06 / C16 — a batch whose COMMIT fails (here: a reader holds the database file, the commit cannot get its lock)
   is a batch that failed: the store must report the failure for every transaction of the batch and the durable
   state is the one before the batch.  (A batch of read statements only never takes the write lock and succeeds.)  Everything else is the store family.  Executable Gallina only. *)
From RV Require Export Replay.

Inductive ccase := CCommit (blocked : bool) (txns : list (list command * list (option (list string)))) (ob : obs).

(* statements that only read: a transaction made of these never takes the write lock and has nothing to commit *)
Definition reads_only (c : command) : bool :=
  match c with
  | ReadPromise _ | ReadPromises _ _ | SearchPromises _ _ _ _ _ | ReadSchedule _ | ReadSchedules _ _ | SearchSchedules _ _ _ _
  | ReadTask _ | ReadEnqueueableTasks _ | ReadTasks _ _ _ | ReadLock _ => true
  | _ => false
  end.
Definition batch_reads_only (txns : list (list command * list (option (list string)))) : bool :=
  forallb (fun t => forallb reads_only (fst t)) txns.

(* what the store must report for a batch, and the durable state afterwards *)
Definition commit_outcome (d : db) (blocked : bool) (txns : list (list command * list (option (list string)))) : db * obs :=
  match exec_batch d txns with
  | Some (d', rss) =>
    (* a transaction that only read has nothing to commit and succeeds even when blocked *)
    if blocked && negb (batch_reads_only txns) then (d, OExec (map fst txns) None d)
    else (d', OExec (map fst txns) (Some rss) d')
  | None => (d, OExec (map fst txns) None d)
  end.

Fixpoint commit_mismatch_from (d : db) (tr : list ccase) (i : nat) : option (nat * Z) :=
  match tr with
  | [] => None
  | CCommit blocked txns ob_impl :: tr' =>
    let '(d', ob) := commit_outcome d blocked txns in
    if obs_eqb ob ob_impl then commit_mismatch_from d' tr' (S i) else Some (i, if blocked then 1 else 0)
  end.

Fixpoint commit_mismatches_from (i : nat) (l : list (list ccase)) : list (nat * nat * Z) :=
  match l with
  | [] => []
  | tr :: l' =>
    match commit_mismatch_from db0 tr 0 with
    | Some (j, c) => (i, j, c) :: commit_mismatches_from (S i) l'
    | None => commit_mismatches_from (S i) l'
    end
  end.
Definition commit_mismatches := commit_mismatches_from 0.
