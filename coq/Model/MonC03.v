(* C03 — create and complete are idempotent under retries; at most one takes effect.  The executable statement.
   What a repeat may do to the durable rows is stated by the monitors of C01 (rows only grow, completed rows are
   frozen) and C04 (a time-out taking effect has exactly the time-out shape); this file states what the ANSWER to
   every create / complete request must be, as a function of the request and of the promise the answer shows,
   and that at most one create and one complete per id is ever answered "took effect" (20100). *)
From RV Require Export Mon.

(* the answer the sequential rule prescribes for a complete that did not take effect, given the promise as it stands *)
Definition complete_spec (r : complete_promise_req) (p : promise) : Z :=
  let strict_mismatch := cmr_strict r && negb (p_state p =? cmr_state r) in
  let lenient_timeout := negb (cmr_strict r) && (p_state p =? Timedout) in
  if (negb strict_mismatch && ikey_match (p_iku p) (cmr_ikey r)) || lenient_timeout then 20000
  else already_completed_status (p_state p).

Definition create_spec (r : create_promise_req) (p : promise) : Z :=
  if ikey_match (p_ikc p) (cpr_ikey r) && negb (cpr_strict r && negb (p_state p =? Pending)) then 20000 else 40900.

Definition c03_complete (r : complete_promise_req) (rsp : response) : bool :=
  match rsp with
  | RspPromise st (Some p) =>
    String.eqb (p_id p) (cmr_id r) &&
    if st =? 20100 then
      (p_state p =? cmr_state r) && smap_eqb (p_vh p) (cmr_vh r) && String.eqb (p_vd p) (cmr_vd r) &&
      opt_eqb String.eqb (p_iku p) (cmr_ikey r)
    else negb (p_state p =? Pending) && (st =? complete_spec r p)
  | RspPromise st None => st =? 40400
  | _ => true
  end.

Definition c03_created (r : create_promise_req) (p : promise) : bool :=
  String.eqb (p_id p) (cpr_id r) && (p_state p =? Pending) && smap_eqb (p_ph p) (cpr_ph r) && String.eqb (p_pd p) (cpr_pd r) &&
  (p_timeout p =? cpr_timeout r) && opt_eqb String.eqb (p_ikc p) (cpr_ikey r) && smap_eqb (p_tags p) (cpr_tags r) &&
  smap_eqb (p_vh p) [] && String.eqb (p_vd p) EmptyString &&
  match p_iku p, p_completed p with None, None => true | _, _ => false end.

Definition c03_create (r : create_promise_req) (rsp : response) : bool :=
  match rsp with
  | RspPromise st (Some p) =>
    if st =? 20100 then c03_created r p else String.eqb (p_id p) (cpr_id r) && (st =? create_spec r p)
  | RspPromiseTask st (Some p) t =>
    if st =? 20100 then c03_created r p && match t with Some _ => true | None => false end
    else String.eqb (p_id p) (cpr_id r) && (st =? create_spec r p) && match t with None => true | Some _ => false end
  | RspPromise _ None | RspPromiseTask _ None _ => false
  | _ => true
  end.

Definition c03_resp (q : request) (rsp : response) : bool :=
  match q with
  | QCreatePromise r => c03_create r rsp
  | QCreatePromiseAndTask r _ _ => c03_create r rsp
  | QCompletePromise r => c03_complete r rsp
  | _ => true
  end.

Definition took_effect (q : request) (rsp : response) : option (bool * string) :=   (* (is_create, promise id) *)
  match q, rsp with
  | QCreatePromise r, RspPromise st _ => if st =? 20100 then Some (true, cpr_id r) else None
  | QCreatePromiseAndTask r _ _, RspPromiseTask st _ _ => if st =? 20100 then Some (true, cpr_id r) else None
  | QCompletePromise r, RspPromise st _ => if st =? 20100 then Some (false, cmr_id r) else None
  | _, _ => None
  end.

(* 301 the answer to a create / complete is not the one the rule prescribes for the promise it shows
   302 a second create (or a second complete) of one id was answered "took effect" *)
Fixpoint c03_from (reqs : list (string * request)) (done : list (bool * string)) (i : nat)
         (tr : list (directive * list obs)) : list viol :=
  match tr with
  | [] => []
  | (DTick _ _ _ arrive, ob) :: tr' =>
    let reqs' := (arrive ++ reqs)%list in
    let step := fold_left (fun acc o =>
                  match o with
                  | OInst id _ (Some rsp) =>
                    match find (fun e => String.eqb (fst e) id) reqs' with
                    | Some (_, q) =>
                      let '(dn, vs) := acc in
                      let vs1 := if c03_resp q rsp then vs else (301, i) :: vs in
                      match took_effect q rsp with
                      | Some k => if existsb (fun e => Bool.eqb (fst e) (fst k) && String.eqb (snd e) (snd k)) dn
                                  then (dn, (302, i) :: vs1) else (k :: dn, vs1)
                      | None => (dn, vs1)
                      end
                    | None => acc
                    end
                  | _ => acc
                  end) ob (done, []) in
    (snd step ++ c03_from reqs' (fst step) (S i) tr')%list
  | _ :: tr' => c03_from reqs done (S i) tr'
  end.
Definition C03_mon (tr : list (directive * list obs)) : list viol := c03_from [] [] 0 tr.

(* ---------- 301 alone, as a monitor with state (proved empty for every schedule: Proofs/PT03.v) ----------
   The state maps a coroutine id to the request it carries; an id taken by a background coroutine maps to None. *)
Definition rmap := list (string * option request).

Definition lookup_req (id : string) (m : rmap) : option request :=
  match find (fun e => String.eqb (fst e) id) m with Some (_, Some q) => Some q | _ => None end.

Definition h301 (m : rmap) (now : Z) (d : db) (dir : directive) (ob : list obs) : rmap * list Z :=
  match dir with
  | DTick _ _ bgs arrive =>
    let m' := (map (fun x => (fst x, None)) bgs ++ map (fun x => (fst x, Some (snd x))) arrive ++ m)%list in
    (m', flat_map (fun o => match o with
                            | OInst id _ (Some rsp) =>
                              match lookup_req id m' with
                              | Some q => if c03_resp q rsp then [] else [301]
                              | None => []
                              end
                            | _ => [] end) ob)
  | _ => (m, [])
  end.

Definition C03a_mon (tr : list (directive * list obs)) : list viol := hmon_from rmap h301 [] 0 db0 0 tr.

(* ---------- 302 alone, as a monitor with state (proved empty for every schedule: Proofs/PT03b.v) ----------
   The state is the request map of 301 and the list of (kind, promise id) already answered "took effect". *)
Definition key_eqb (a b : bool * string) : bool := Bool.eqb (fst a) (fst b) && String.eqb (snd a) (snd b).

Definition obs302 (m : rmap) (acc : list (bool * string) * list Z) (o : obs) : list (bool * string) * list Z :=
  match o with
  | OInst id _ (Some rsp) =>
    match lookup_req id m with
    | Some q =>
      match took_effect q rsp with
      | Some k => if existsb (key_eqb k) (fst acc) then (fst acc, 302 :: snd acc) else (k :: fst acc, snd acc)
      | None => acc
      end
    | None => acc
    end
  | _ => acc
  end.

Definition h302 (st : rmap * list (bool * string)) (now : Z) (d : db) (dir : directive) (ob : list obs)
  : (rmap * list (bool * string)) * list Z :=
  match dir with
  | DTick _ _ bgs arrive =>
    let m' := (map (fun x => (fst x, None)) bgs ++ map (fun x => (fst x, Some (snd x))) arrive ++ fst st)%list in
    let acc := fold_left (obs302 m') ob (snd st, []) in
    ((m', fst acc), snd acc)
  | _ => (st, [])
  end.

Definition C03b_mon (tr : list (directive * list obs)) : list viol :=
  hmon_from (rmap * list (bool * string)) h302 ([], []) 0 db0 0 tr.
