(* C09 — locks are mutually exclusive and leases are honoured: the executable statement. *)
From RV Require Export Mon.

Definition touches (l : lock) (c : command) : bool :=
  match c with
  | ReleaseLock r e => String.eqb r (l_res l) && String.eqb e (l_exec l)
  | AcquireLock r e _ _ _ => String.eqb r (l_res l) && String.eqb e (l_exec l)
  | HeartbeatLocks p _ => String.eqb p (l_proc l)
  | _ => false
  end.

(* an acquire by the execution that holds row l (a later heartbeat in the same batch may have moved its expiry) *)
Definition creates (l : lock) (c : command) : bool :=
  match c with
  | AcquireLock r e p t _ => String.eqb r (l_res l) && String.eqb e (l_exec l) && String.eqb p (l_proc l) && (t =? l_ttl l)
  | _ => false
  end.
(* an acquire that wrote exactly row l *)
Definition acq_exact (l : lock) (c : command) : bool :=
  match c with
  | AcquireLock r e p t x => String.eqb r (l_res l) && String.eqb e (l_exec l) && String.eqb p (l_proc l) && (t =? l_ttl l) && (x =? l_exp l)
  | _ => false
  end.

Definition hb_for (l : lock) (c : command) : bool :=
  match c with
  | HeartbeatLocks p t => String.eqb p (l_proc l) && (l_exp l =? t + l_ttl l)
  | _ => false
  end.

Definition same4b (l' l : lock) : bool :=
  String.eqb (l_res l) (l_res l') && String.eqb (l_exec l) (l_exec l') && String.eqb (l_proc l) (l_proc l') &&
  (l_ttl l =? l_ttl l').

Fixpoint uniq_b (l : list string) : bool :=
  match l with
  | [] => true
  | x :: l' => negb (existsb (String.eqb x) l') && uniq_b l'
  end.

(* codes: 901 two holders of one resource; 902 a lock row disappeared or changed although its lease had not
   run out on the server clock and its holder did nothing; 903 a lock row appeared that no acquire created
   (or a heartbeat did more than extend a lease): a row that is new or changed is exactly the row an acquire of
   the batch wrote (resource, execution, process, ttl, expiry), or that row with its expiry moved by a heartbeat
   of the batch, or an old row with its expiry moved by a heartbeat *)
Definition c09_exec (now : Z) (before : db) (cmds : list command) (after : db) : list Z :=
  (if uniq_b (map l_res (locks after)) then [] else [901]) ++
  (if forallb (fun l => existsb (lock_eqb l) (locks after) || (l_exp l <=? now) || existsb (touches l) cmds)
              (locks before) then [] else [902]) ++
  (if forallb (fun l' => existsb (lock_eqb l') (locks before) || existsb (acq_exact l') cmds ||
                        (existsb (creates l') cmds && existsb (hb_for l') cmds) ||
                        (existsb (hb_for l') cmds && existsb (same4b l') (locks before)))
              (locks after) then [] else [903]).

(* 904: a lease is "time of the acquire / heartbeat plus ttl" and the sweep uses the clock: checked where the
   command is handed to the store, at the tick whose time the coroutine saw *)
Definition c09_cmd (t : Z) (c : command) : bool :=
  match c with
  | AcquireLock _ _ _ ttl exp => exp =? add64 t ttl
  | HeartbeatLocks _ time => time =? t
  | TimeoutLocks time => time =? t
  | _ => true
  end.
Definition c09_sub (t : Z) (s : sub) : bool :=
  match s with SStore cs => forallb (c09_cmd t) cs | _ => true end.

Definition c09_chk : checker := fun now d dir ob =>
  match dir with
  | DExec _ =>
    flat_map (fun o => match o with OExec txns _ snap => c09_exec now d (List.concat txns) snap | _ => [] end) ob
  | DTick t _ _ _ =>
    flat_map (fun o => match o with OInst _ subs _ => if forallb (c09_sub t) subs then [] else [904] | _ => [] end) ob
  | _ => []
  end.

Definition C09_mon := mon c09_chk.
Definition C09_ok := mon_ok c09_chk.

(* 905 (D13): the lease of an acquire is the MATHEMATICAL "time of the acquire plus ttl".  The code adds in 64 bits: a
   ttl so large that time + ttl leaves the range wraps to a lease end in the past, the next sweep removes the lock
   and another execution acquires the resource although the holder's lease has not run out.  Evaluated on its own
   (C09_mon states the lease as the code computes it, add64). *)
Definition c09w_cmd (t : Z) (c : command) : bool :=
  match c with AcquireLock _ _ _ ttl exp => exp =? t + ttl | _ => true end.
Definition c09w_chk : checker := fun now d dir ob =>
  match dir with
  | DTick t _ _ _ =>
    flat_map (fun o => match o with
                       | OInst _ subs _ =>
                         if forallb (fun s => match s with SStore cs => forallb (c09w_cmd t) cs | _ => true end) subs then [] else [905]
                       | _ => [] end) ob
  | _ => []
  end.
Definition C09w_mon := mon c09w_chk.
