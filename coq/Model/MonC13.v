(* C13 — no client input can crash or wedge the server or poison stored state: the part visible in a system trace.
   1301: a coroutine hit one of its internal assertions (the model's RspPanic: in the Go code a panic in a coroutine
         goroutine, i.e. the server process dies) -- on the implementation side the harness process dies instead and
         the run is reported as crashed. *)
From RV Require Export Mon.

Definition c13_chk : checker := fun now d dir ob =>
  match dir with
  | DTick _ _ _ _ => flat_map (fun o => match o with OInst _ _ (Some RspPanic) => [1301] | OStuck => [1301] | _ => [] end) ob
  | _ => []
  end.
Definition C13_mon := mon c13_chk.

(* 1302: a store batch failed as a whole because one of its commands hit a constraint - every submission of the batch
   is answered with an error and none of their writes is kept.  Client-chosen ids can do that: the derived callback /
   task ids "__resume:<root>:<promise>" and "__notify:<promise>:<id>" are not injective when ids contain ':'
   (Props/C05.v, C05_derived_id_injective_refuted), so the completion of a promise can try to create a task whose id
   is taken; that completion - by a client, by a lazy time-out or by the sweep - fails every time it is tried, and
   takes the other transactions of its batch down with it: stored state that poisons the server (DESIGN D2). *)
Definition c13p_chk : checker := fun now d dir ob =>
  match dir with
  | DExec _ => flat_map (fun o => match o with OExec _ None _ => [1302] | _ => [] end) ob
  | _ => []
  end.
Definition C13p_mon := mon c13p_chk.
