(* C13 — no client input can crash or wedge the server or poison stored state: the part visible in a system trace.
   1301: a coroutine hit one of its internal assertions (the model's RspPanic: in the Go code a panic in a coroutine
         goroutine, i.e. the server process dies) -- on the implementation side the harness process dies instead and
         the run is reported as crashed. *)
From RV Require Export Mon.

Definition c13_chk : checker := fun now d dir ob =>
  match dir with
  | DTick _ _ _ _ => flat_map (fun o => match o with OInst _ _ (Some RspPanic) => [1301] | OStuck => [1301] | _ => [] end) ob
  | _ => []
  end.
Definition C13_mon := mon c13_chk.
