(* C07 — a task has at most one holder; stale holders are fenced; counters never decrease; finished is final.
   (the lease clause is the history monitor C07x at the end of this file) *)
From RV Require Export Mon.

Definition t_finished (t : task) : bool := (t_state t =? TCompleted) || (t_state t =? TTimedout).
Definition claimed_with (c : Z) (t : task) : bool := (t_state t =? TClaimed) && (t_counter t =? c).

(* commands that explain a transition of task [id] *)
Definition is_sweep (id : string) (c : command) : bool :=
  match c with
  | UpdateTask u => String.eqb (ut_id u) id && (ut_state u =? TInit) && (ut_counter u =? ut_cur_counter u + 1)
  | _ => false
  end.
Definition is_claim (id : string) (cnt : Z) (c : command) : bool :=
  match c with
  | UpdateTask u => String.eqb (ut_id u) id && (ut_state u =? TClaimed) && (ut_counter u =? cnt) && (ut_cur_counter u =? cnt) &&
                    list_eqb Z.eqb (ut_cur_states u) [TInit; TEnqueued]
  | CreateTask tc => String.eqb (ct_id tc) id && (ct_state tc =? TClaimed) && (cnt =? 1)
  | CreatePromiseAndTask _ tc => String.eqb (ct_id tc) id && (ct_state tc =? TClaimed) && (cnt =? 1)
  | _ => false
  end.
(* what may take a task away from its holder: the holder's own completion, a sweep of that (state, counter),
   or the completion of its root promise *)
Definition is_leave (id root : string) (cnt : Z) (c : command) : bool :=
  match c with
  | UpdateTask u => String.eqb (ut_id u) id && (ut_cur_counter u =? cnt) && existsb (Z.eqb TClaimed) (ut_cur_states u) &&
                    negb (ut_state u =? TClaimed)
  | CompleteTasks r _ => String.eqb r root
  | _ => false
  end.

(* 700 a task row disappeared or its identity columns (id, sort id, root, receiver, message, timeout, creation
       time) changed
   701 a counter decreased            702 a finished task changed (became active again / changed counter)
   703 a counter increased without a lease sweep of that task in the commit
   704 a task became claimed (with its current counter) without a claim of exactly that counter guarded by
       {init, enqueued}
   706 a claimed task left its (claimed, counter) state without the holder's completion, a sweep of that
       (state, counter) or the completion of its root promise
   708 a task stayed claimed with the same counter but changed hands (another process became its holder)
   709 a task that left its (claimed, counter) state is neither finished nor carries a higher counter *)
Definition c07_row (cmds : list command) (t t' : task) : list Z :=
  (if String.eqb (t_id t) (t_id t') && (t_sort t =? t_sort t') && String.eqb (t_root t) (t_root t') &&
      String.eqb (t_recv t) (t_recv t') && mesg_eqb (t_mesg t) (t_mesg t') && (t_timeout t =? t_timeout t') &&
      (t_created t =? t_created t') then [] else [700]) ++
  (if t_counter t <=? t_counter t' then [] else [701]) ++
  (if t_finished t then (if task_eqb t t' then [] else [702]) else []) ++
  (if (t_counter t <? t_counter t') && negb (existsb (is_sweep (t_id t)) cmds) then [703] else []) ++
  (if claimed_with (t_counter t') t' && negb (claimed_with (t_counter t') t) &&
      negb (existsb (is_claim (t_id t) (t_counter t')) cmds) then [704] else []) ++
  (if (t_state t =? TClaimed) && negb (claimed_with (t_counter t) t') &&
      negb (existsb (is_leave (t_id t) (t_root t) (t_counter t)) cmds) then [706] else []) ++
  (if (t_state t =? TClaimed) && claimed_with (t_counter t) t' && negb (opt_eqb String.eqb (t_pid t) (t_pid t')) then [708] else []) ++
  (if (t_state t =? TClaimed) && negb (claimed_with (t_counter t) t') && negb (t_finished t' || (t_counter t <? t_counter t'))
   then [709] else []).

Definition c07_exec (cmds : list command) (before after : db) : list Z :=
  flat_map (fun t => match find_task (t_id t) after with
                     | Some t' => c07_row cmds t t'
                     | None => [700]
                     end) (tasks before).

(* 705 the lease of a claim is "tick time + ttl"; heartbeats and the sweep read use the tick time *)
Definition c07_cmd (t : Z) (c : command) : bool :=
  match c with
  | UpdateTask u => negb (ut_state u =? TClaimed) || (ut_exp u =? add64 t (ut_ttl u))
  | HeartbeatTasks _ time => time =? t
  | ReadTasks _ time _ => time =? t
  | _ => true
  end.
Definition c07_sub (t : Z) (s : sub) : bool :=
  match s with SStore cs => forallb (c07_cmd t) cs | _ => true end.

Definition c07_chk : checker := fun now d dir ob =>
  match dir with
  | DExec _ => flat_map (fun o => match o with OExec txns _ snap => c07_exec (List.concat txns) d snap | _ => [] end) ob
  | DTick t _ _ _ => flat_map (fun o => match o with OInst _ subs _ => if forallb (c07_sub t) subs then [] else [705] | _ => [] end) ob
  | _ => []
  end.

Definition C07_mon := mon c07_chk.

(* ---------- C07x: the lease clause (history monitor; evaluated on traces, not proved for all schedules) ----------
   Per task the monitor keeps the lease it owes the current holder: set to the stored expiry when the task
   becomes claimed; extended by a heartbeat of the holding process executed while that lease had not yet run
   out (heartbeat time < lease); a heartbeat that comes too late extends nothing.
   707: a claimed task is taken away from its holder (not completed by the holder, root promise still
        pending, task timeout not reached) although the owed lease has not expired on the server clock. *)
Definition lease_map := list (string * Z).
Fixpoint lease_get (id : string) (m : lease_map) : option Z :=
  match m with [] => None | (k, v) :: m' => if String.eqb k id then Some v else lease_get id m' end.
Definition lease_set (id : string) (v : Z) (m : lease_map) : lease_map :=
  (id, v) :: filter (fun kv => negb (String.eqb (fst kv) id)) m.

Definition hb_time (pid : option string) (cmds : list command) : option Z :=
  match pid with
  | None => None
  | Some p =>
    fold_left (fun acc c => match c with
                            | HeartbeatTasks q t => if String.eqb q p then Some t else acc
                            | _ => acc end) cmds None
  end.

Definition holder_completes (id : string) (cnt : Z) (cmds : list command) : bool :=
  existsb (fun c => match c with
                    | UpdateTask u => String.eqb (ut_id u) id && (ut_state u =? TCompleted) && (ut_cur_counter u =? cnt) &&
                                      list_eqb Z.eqb (ut_cur_states u) [TClaimed]
                    | _ => false end) cmds.

Definition promise_pending (d : db) (id : string) : bool :=
  match find_promise id d with Some p => p_state p =? Pending | None => false end.

Definition c07x_task (now : Z) (cmds : list command) (after : db) (m : lease_map) (t : task) : lease_map * list Z :=
  match find_task (t_id t) after with
  | None => (m, [])
  | Some t' =>
    if (t_state t =? TClaimed) then
      if claimed_with (t_counter t) t' then
        (* still held: a timely heartbeat extends the owed lease *)
        match hb_time (t_pid t) cmds, lease_get (t_id t) m with
        | Some th, Some L => if (th <? L) && negb (t_exp t' =? t_exp t) then (lease_set (t_id t) (t_exp t') m, []) else (m, [])
        | _, _ => (m, [])
        end
      else
        let excused := holder_completes (t_id t) (t_counter t) cmds || negb (promise_pending after (t_root t)) ||
                       (t_timeout t <=? now) in
        match lease_get (t_id t) m with
        | Some L => (m, if excused || (L <=? now) then [] else [707])
        | None => (m, [])
        end
    else if claimed_with (t_counter t') t' then (lease_set (t_id t) (t_exp t') m, [])
    else (m, [])
  end.

Fixpoint c07x_tasks (now : Z) (cmds : list command) (after : db) (m : lease_map) (ts : list task) : lease_map * list Z :=
  match ts with
  | [] => (m, [])
  | t :: ts' => let '(m1, v1) := c07x_task now cmds after m t in
                let '(m2, v2) := c07x_tasks now cmds after m1 ts' in (m2, (v1 ++ v2)%list)
  end.

(* tasks created claimed in this commit (create-with-task) *)
Definition new_claimed (before after : db) (m : lease_map) : lease_map :=
  fold_left (fun acc t => match find_task (t_id t) before with
                          | None => if t_state t =? TClaimed then lease_set (t_id t) (t_exp t) acc else acc
                          | Some _ => acc end) (tasks after) m.

Fixpoint c07x_from (m : lease_map) (now : Z) (d : db) (i : nat) (tr : list (directive * list obs)) : list viol :=
  match tr with
  | [] => []
  | (DExec _, [OExec txns _ snap]) :: tr' =>
    let '(m1, vs) := c07x_tasks now (List.concat txns) snap m (tasks d) in
    (map (fun c => (c, i)) vs ++ c07x_from (new_claimed d snap m1) now snap (S i) tr')%list
  | (dir, ob) :: tr' => c07x_from m (mon_now now dir) (last_snap d ob) (S i) tr'
  end.
Definition C07x_mon (tr : list (directive * list obs)) : list viol := c07x_from [] 0 db0 0 tr.
