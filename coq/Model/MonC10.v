(* C10 — schedules fire every cron occurrence exactly once, in order, atomically.  The executable statement, per
   commit, given the cron oracle nx (util.Next) the schedule coroutine uses:
   1001 a schedule advanced, but not from the occurrence it was at to the NEXT occurrence of its cron expression
        (last run time = the occurrence fired, next run time = cron successor of that occurrence, exactly one
        update naming that occurrence in the commit): an occurrence was skipped, repeated or fired out of order
   1002 a schedule advanced although the server clock had not reached the occurrence
   1003 the schedule was not advanced by ONE transaction that also creates that occurrence's promise (id = the id
        template expanded with the schedule id and the occurrence time, timeout = occurrence + promise timeout, the
        configured parameter, the configured tags plus the two marker tags; a no-op if the id exists already), or no
        promise with that id exists after the commit
   1004 a column of a schedule other than last/next run time changed
   1005 a schedule disappeared without a delete naming it, or appeared without a create carrying its columns
        (next run time = cron successor of its creation time, no last run time) *)
From RV Require Export Mon.

Definition same_sched (a b : schedule) : bool := String.eqb (s_id a) (s_id b) && (s_sort a =? s_sort b).

Definition sched_static_eqb (a b : schedule) : bool :=
  String.eqb (s_desc a) (s_desc b) && String.eqb (s_cron a) (s_cron b) && smap_eqb (s_tags a) (s_tags b) &&
  String.eqb (s_pid a) (s_pid b) && (s_ptimeout a =? s_ptimeout b) && smap_eqb (s_pph a) (s_pph b) &&
  String.eqb (s_ppd a) (s_ppd b) && smap_eqb (s_ptags a) (s_ptags b) && opt_eqb String.eqb (s_ikey a) (s_ikey b) &&
  (s_created a =? s_created b).

(* the transaction that advances schedule s from occurrence (s_next s) creates that occurrence's promise in the
   same atomic step: its first command is a create carrying the expected columns (it is a no-op when a promise
   with that id exists already), and afterwards a promise with that id exists *)
Definition expected_cp (s : schedule) (id : string) (pc : create_promise_cmd) : bool :=
  String.eqb (cp_id pc) id && (cp_timeout pc =? add64 (s_ptimeout s) (s_next s)) && smap_eqb (cp_ph pc) (s_pph s) &&
  String.eqb (cp_pd pc) (s_ppd s) &&
  smap_eqb (cp_tags pc) (smap_set "resonate:invocation" "true" (smap_set "resonate:schedule" (s_id s) (s_ptags s))) &&
  match cp_ikey pc with None => true | Some _ => false end.

Definition firing_txn (s : schedule) (id : string) (t : list command) : bool :=
  match t with
  | [CreatePromise pc; UpdateSchedule i (Some l) _] => expected_cp s id pc && String.eqb i (s_id s) && (l =? s_next s)
  | [CreatePromiseAndTask pc tc; UpdateSchedule i (Some l) _] =>
    expected_cp s id pc && String.eqb i (s_id s) && (l =? s_next s) && String.eqb (ct_id tc) (invoke_task_id id)
  | _ => false
  end.

Definition fired_promise_ok (txns : list (list command)) (after : db) (s : schedule) : bool :=
  match expand (s_pid s) (s_id s) (dec (s_next s)) with
  | None => false
  | Some id => existsb (firing_txn s id) txns && match find_promise id after with Some _ => true | None => false end
  end.

Definition updates_of (id : string) (occ : Z) (cmds : list command) : list Z :=
  flat_map (fun c => match c with
                     | UpdateSchedule i (Some l) n => if String.eqb i id && (l =? occ) then [n] else []
                     | _ => [] end) cmds.

Definition c10_row (nx : string -> Z -> option Z) (now : Z) (txns : list (list command)) (after : db) (s s' : schedule) : list Z :=
  let cmds := List.concat txns in
  (if sched_static_eqb s s' then [] else [1004]) ++
  if s_next s' =? s_next s then (if opt_eqb Z.eqb (s_last s') (s_last s) then [] else [1001])
  else
    (if opt_eqb Z.eqb (s_last s') (Some (s_next s)) && opt_eqb Z.eqb (nx (s_cron s) (s_next s)) (Some (s_next s')) &&
        list_eqb Z.eqb (updates_of (s_id s) (s_next s) cmds) [s_next s'] then [] else [1001]) ++
    (if s_next s <=? now then [] else [1002]) ++
    (if fired_promise_ok txns after s then [] else [1003]).

Definition created_by (nx : string -> Z -> option Z) (s' : schedule) (c : command) : bool :=
  match c with
  | CreateSchedule cc =>
    String.eqb (cs_id cc) (s_id s') && String.eqb (cs_desc cc) (s_desc s') && String.eqb (cs_cron cc) (s_cron s') &&
    smap_eqb (cs_tags cc) (s_tags s') && String.eqb (cs_pid cc) (s_pid s') && (cs_ptimeout cc =? s_ptimeout s') &&
    smap_eqb (cs_pph cc) (s_pph s') && String.eqb (cs_ppd cc) (s_ppd s') && smap_eqb (cs_ptags cc) (s_ptags s') &&
    opt_eqb String.eqb (cs_ikey cc) (s_ikey s') && (cs_created cc =? s_created s') &&
    opt_eqb Z.eqb (nx (cs_cron cc) (cs_created cc)) (Some (cs_next cc))
  | _ => false
  end.

Definition deletes (id : string) (c : command) : bool :=
  match c with DeleteSchedule i => String.eqb i id | _ => false end.

Definition c10_exec (nx : string -> Z -> option Z) (now : Z) (txns : list (list command)) (before after : db) : list Z :=
  let cmds := List.concat txns in
  flat_map (fun s => match find (same_sched s) (schedules after) with
                     | Some s' => c10_row nx now txns after s s'
                     | None => if existsb (deletes (s_id s)) cmds then [] else [1005]
                     end) (schedules before) ++
  flat_map (fun s' => match find (same_sched s') (schedules before) with
                      | Some _ => []
                      | None =>
                        (* created in this commit; it may have fired already in the same batch *)
                        if existsb (created_by nx s') cmds then [] else [1005]
                      end) (schedules after).

(* 1006 the converse of 1003: the promise of a schedule occurrence (it carries the schedule's id in the tag
   resonate:schedule, which only the firing coroutine sets) is created ONLY by a transaction that also advances that
   schedule from its occurrence - otherwise the schedule stays on the occurrence, fires it again and again and
   skips the later ones *)
Definition scheduled_for (c : command) : option string :=
  let tags := match c with
              | CreatePromise pc => Some (cp_tags pc)
              | CreatePromiseAndTask pc _ => Some (cp_tags pc)
              | _ => None end in
  match tags with
  | Some tg => match find (fun kv => String.eqb (fst kv) "resonate:schedule") tg with
               | Some kv => if existsb (fun kv' => String.eqb (fst kv') "resonate:invocation") tg then Some (snd kv) else None
               | None => None end
  | None => None
  end.

Definition c10_creates (txns : list (list command)) : list Z :=
  flat_map (fun t => flat_map (fun c => match scheduled_for c with
                                        | Some sid =>
                                          if existsb (fun c' => match c' with UpdateSchedule i (Some _) _ => String.eqb i sid | _ => false end) t
                                          then [] else [1006]
                                        | None => [] end) t) txns.

Definition c10_chk (nx : string -> Z -> option Z) : checker := fun now d dir ob =>
  match dir with
  | DExec _ => flat_map (fun o => match o with OExec txns _ snap => (c10_exec nx now txns d snap ++ c10_creates txns)%list | _ => [] end) ob
  | _ => []
  end.

Definition C10_mon (cfg : config) := mon (c10_chk (c_next cfg)).
