(* C06 — acknowledged writes are durable; requests are all-or-nothing across crashes.
   601: what a (re)started server finds -- an execution round without commands -- differs from the tables as they
        were after the last commit: an acknowledged (or any committed) write did not survive, or something changed
        without a transaction.
   The all-or-nothing clauses are the commit invariants of C05 (501-503: no completed promise keeps registrations,
   none is dropped), C08 (803) and C01 (101-105); a crash may stand between ANY two steps of a schedule, so
   "invariant after every commit" is "invariant at every crash point". *)
From RV Require Export Mon.

Definition c06_chk : checker := fun now d dir ob =>
  match dir with
  | DExec _ =>
    flat_map (fun o => match o with
                       | OExec [] _ snap => if db_eqb d snap then [] else [601]
                       | _ => [] end) ob
  | _ => []
  end.
Definition C06_mon := mon c06_chk.
