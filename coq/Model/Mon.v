(* Monitors: executable statements of the properties over observation traces.  A monitor folds a
   per-step check over the trace; the only state it keeps is what an outside observer knows: the clock
   (time of the last tick) and the five tables after the last commit.  No proofs here. *)
From RV Require Export Sys.

Definition viol := (Z * nat)%type.        (* violation code, index of the event *)

Definition mon_now (now : Z) (d : directive) : Z :=
  match d with DTick t _ _ _ => t | _ => now end.

Fixpoint last_snap (d : db) (ob : list obs) : db :=
  match ob with
  | [] => d
  | OExec _ _ snap :: ob' => last_snap snap ob'
  | _ :: ob' => last_snap d ob'
  end.

(* chk now db_before directive observations : violation codes *)
Definition checker := Z -> db -> directive -> list obs -> list Z.

Fixpoint mon_from (chk : checker) (now : Z) (d : db) (i : nat) (tr : list (directive * list obs)) : list viol :=
  match tr with
  | [] => []
  | (dir, ob) :: tr' =>
    (map (fun c => (c, i)) (chk now d dir ob) ++ mon_from chk (mon_now now dir) (last_snap d ob) (S i) tr')%list
  end.

Definition mon (chk : checker) (tr : list (directive * list obs)) : list viol := mon_from chk 0 db0 0 tr.

Definition mon_ok (chk : checker) (tr : list (directive * list obs)) : bool :=
  match mon chk tr with [] => true | _ => false end.

(* the trace of a schedule on the model: directives paired with the model's observations *)
Fixpoint events_from (cfg : config) (s : sys) (sch : list directive) : list (directive * list obs) :=
  match sch with
  | [] => []
  | d :: sch' =>
    match step cfg s d with
    | Some (s', ob) => (d, ob) :: events_from cfg s' sch'
    | None => []
    end
  end.
Definition events (cfg : config) (sch : list directive) := events_from cfg (sys0 db0) sch.

(* monitors that keep a state of their own (e.g. which request each coroutine id carries): the state is threaded
   through the same fold *)
Section HMon.
  Variable M : Type.
  Variable hstep : M -> Z -> db -> directive -> list obs -> M * list Z.
  Fixpoint hmon_from (m : M) (now : Z) (d : db) (i : nat) (tr : list (directive * list obs)) : list viol :=
    match tr with
    | [] => []
    | (dir, ob) :: tr' =>
      let '(m', vs) := hstep m now d dir ob in
      (map (fun c => (c, i)) vs ++ hmon_from m' (mon_now now dir) (last_snap d ob) (S i) tr')%list
    end.
End HMon.
