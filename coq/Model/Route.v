(* C19 — receiver resolution.  The decision logic of the router's tag source and of the sender's resolution, over
   the CLASSES the JSON and URL libraries assign to the raw bytes (the libraries are oracles: the correspondence
   check classifies every input with them and compares the real functions' outcomes with these).
   Executable Gallina only. *)
From RV Require Export Base.
From Coq Require Export List String ZArith Bool.
Import ListNotations.
Open Scope Z_scope.

(* a routing tag value, as the JSON library sees it *)
Inductive tag_class :=
| TNotJson (v : string)                 (* not valid JSON: a plain string *)
| TJsonRecv (ty : string) (data : string)   (* a JSON object with only the fields type (non-empty string) and data *)
| TJsonOther.                           (* any other valid JSON: literals, numbers, quoted strings, arrays, other objects *)

(* a receiver as stored in a task *)
Inductive recv :=
| RLogical (name : string)              (* a logical name, resolved at dispatch *)
| RPhysical (ty : string) (data : string)
| RNone | RBad | RPanic.

(* the router: a plain string is kept as a logical name, a JSON receiver object as a physical receiver,
   anything else (or no tag) does not route *)
Definition route (tag : option tag_class) : recv :=
  match tag with
  | None => RNone
  | Some (TNotJson v) => RLogical v
  | Some (TJsonRecv ty data) => RPhysical ty data
  | Some TJsonOther => RNone
  end.

(* a logical name, as the URL library sees it *)
Inductive url_class :=
| UHttp (full : string)                 (* scheme http / https; full = the parsed URL rendered back *)
| UPoll (group id : string)             (* poll://group/id ; id may be empty *)
| UOther.

Inductive body :=
| BTask (ty id : string) (counter : Z) (claim complete heartbeat : string)
| BNotify (promise_id : string).

Inductive outcome :=
| ODeliver (plugin : string) (data : string) (b : body)   (* handed to that transport with that address, reported delivered *)
| OFail                                                   (* an error completion: the hand-off failed and will be retried *)
| OLost | OPanic.

Definition targets := list (string * (string * string)).   (* name -> (type, data) *)

Fixpoint lookup_target (name : string) (t : targets) : option (string * string) :=
  match t with
  | [] => None
  | (n, r) :: t' => if String.eqb n name then Some r else lookup_target name t'
  end.

(* json.Marshal of the address maps the scheme-derived receivers are built from (keys sorted) *)
Definition http_data (full : string) : string := ("{""url"":""" ++ full ++ """}")%string.
Definition poll_data (group id : string) : string :=
  if String.eqb id EmptyString then ("{""group"":""" ++ group ++ """}")%string
  else ("{""group"":""" ++ group ++ """,""id"":""" ++ id ++ """}")%string.

(* which receiver a task's recv denotes: the configured target of that name first, otherwise by URL scheme *)
Definition resolve (t : targets) (r : recv) (u : url_class) : option (string * string) :=
  match r with
  | RLogical name =>
    match lookup_target name t with
    | Some x => Some x
    | None => match u with
              | UHttp full => Some ("http"%string, http_data full)
              | UPoll g i => Some ("poll"%string, poll_data g i)
              | UOther => None
              end
    end
  | RPhysical ty data => Some (ty, data)
  | _ => None
  end.

Fixpoint plugin_state (ty : string) (ps : list (string * bool)) : option bool :=
  match ps with
  | [] => None
  | (n, ok) :: ps' => if String.eqb n ty then Some ok else plugin_state ty ps'
  end.

(* the sender: resolve, find the transport of that type, hand the message over *)
Definition send (t : targets) (plugins : list (string * bool)) (r : recv) (u : url_class) (b : body) : outcome :=
  match resolve t r u with
  | None => OFail
  | Some (ty, data) =>
    match plugin_state ty plugins with
    | Some true => ODeliver ty data b
    | _ => OFail                        (* no such transport, or its queue is full *)
    end
  end.

(* ---------- replay ---------- *)
Inductive rcase :=
| CRoute (tag : option tag_class) (observed : recv)
| CSend (t : targets) (plugins : list (string * bool)) (r : recv) (u : url_class) (b : body) (observed : outcome).

Definition recv_eqb (a b : recv) : bool :=
  match a, b with
  | RLogical x, RLogical y => String.eqb x y
  | RPhysical t d, RPhysical t' d' => String.eqb t t' && String.eqb d d'
  | RNone, RNone | RBad, RBad | RPanic, RPanic => true
  | _, _ => false
  end.
Definition body_eqb (a b : body) : bool :=
  match a, b with
  | BTask t i c x y z, BTask t' i' c' x' y' z' =>
    String.eqb t t' && String.eqb i i' && (c =? c') && String.eqb x x' && String.eqb y y' && String.eqb z z'
  | BNotify p, BNotify q => String.eqb p q
  | _, _ => false
  end.
Definition outcome_eqb (a b : outcome) : bool :=
  match a, b with
  | ODeliver p d b1, ODeliver p' d' b2 => String.eqb p p' && String.eqb d d' && body_eqb b1 b2
  | OFail, OFail | OLost, OLost | OPanic, OPanic => true
  | _, _ => false
  end.

Definition rcase_ok (c : rcase) : bool :=
  match c with
  | CRoute tag obs => recv_eqb (route tag) obs
  | CSend t ps r u b obs => outcome_eqb (send t ps r u b) obs
  end.

Fixpoint bad_cases (j : nat) (cs : list rcase) : list nat :=
  match cs with
  | [] => []
  | c :: cs' => ((if rcase_ok c then [] else [j]) ++ bad_cases (S j) cs')%list
  end.

Fixpoint route_mismatches_from (i : nat) (l : list (list rcase)) : list (nat * nat * Z) :=
  match l with
  | [] => []
  | cs :: l' => (map (fun j => (i, j, 0)) (bad_cases 0 cs) ++ route_mismatches_from (S i) l')%list
  end.
Definition route_mismatches := route_mismatches_from 0.
