(* C05, clause 507 as a monitor with state. *)
From RV Require Export MonC05 MonC03.

(* 507 as a monitor with state (the form proved for every schedule in Proofs/PT05.v): the request map is the one
   of MonC03 (a background coroutine that takes over an id shadows the request that carried it before) *)
Definition c507_resp (d : db) (q : request) (rsp : response) : bool :=
  match rsp with
  | RspCallback st (Some p) None =>
    if (st =? 20000) && (p_state p =? Pending)
    then match reg_id q with Some rid => registered d rid | None => true end
    else true
  | RspPanic => match reg_id q with Some _ => false | None => true end   (* the re-read found no promise: util.Assert *)
  | _ => true
  end.

Definition h507 (m : rmap) (now : Z) (d : db) (dir : directive) (ob : list obs) : rmap * list Z :=
  match dir with
  | DTick _ _ bgs arrive =>
    let m' := (map (fun x => (fst x, None)) bgs ++ map (fun x => (fst x, Some (snd x))) arrive ++ m)%list in
    (m', flat_map (fun o => match o with
                            | OInst id _ (Some rsp) =>
                              match lookup_req id m' with
                              | Some q => if c507_resp d q rsp then [] else [507]
                              | None => []
                              end
                            | _ => [] end) ob)
  | _ => (m, [])
  end.

Definition C05ya_mon (tr : list (directive * list obs)) : list viol := hmon_from rmap h507 [] 0 db0 0 tr.
