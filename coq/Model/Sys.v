(* L3: the interleaving system.  A total function from schedules (what clients, clock, store worker,
   faults and crashes decide) to observations (what anybody outside the kernel can see).
   Executable Gallina only; no proofs here. *)
From RV Require Export Coro.

(* ---------- decidable equality on submissions (used by the replay) ---------- *)

Definition cp_eqb (a b : create_promise_cmd) : bool :=
  String.eqb (cp_id a) (cp_id b) && smap_eqb (cp_ph a) (cp_ph b) && String.eqb (cp_pd a) (cp_pd b) &&
  (cp_timeout a =? cp_timeout b) && opt_eqb String.eqb (cp_ikey a) (cp_ikey b) && smap_eqb (cp_tags a) (cp_tags b) &&
  (cp_created a =? cp_created b).
Definition up_eqb (a b : update_promise_cmd) : bool :=
  String.eqb (up_id a) (up_id b) && (up_state a =? up_state b) && smap_eqb (up_vh a) (up_vh b) &&
  String.eqb (up_vd a) (up_vd b) && opt_eqb String.eqb (up_ikey a) (up_ikey b) && (up_completed a =? up_completed b).
Definition cc_eqb (a b : create_callback_cmd) : bool :=
  String.eqb (cc_id a) (cc_id b) && String.eqb (cc_pid a) (cc_pid b) && String.eqb (cc_recv a) (cc_recv b) &&
  mesg_eqb (cc_mesg a) (cc_mesg b) && (cc_timeout a =? cc_timeout b) && (cc_created a =? cc_created b).
Definition cs_eqb (a b : create_schedule_cmd) : bool :=
  String.eqb (cs_id a) (cs_id b) && String.eqb (cs_desc a) (cs_desc b) && String.eqb (cs_cron a) (cs_cron b) &&
  smap_eqb (cs_tags a) (cs_tags b) && String.eqb (cs_pid a) (cs_pid b) && (cs_ptimeout a =? cs_ptimeout b) &&
  smap_eqb (cs_pph a) (cs_pph b) && String.eqb (cs_ppd a) (cs_ppd b) && smap_eqb (cs_ptags a) (cs_ptags b) &&
  (cs_next a =? cs_next b) && opt_eqb String.eqb (cs_ikey a) (cs_ikey b) && (cs_created a =? cs_created b).
Definition ct_eqb (a b : create_task_cmd) : bool :=
  String.eqb (ct_id a) (ct_id b) && String.eqb (ct_recv a) (ct_recv b) && mesg_eqb (ct_mesg a) (ct_mesg b) &&
  (ct_timeout a =? ct_timeout b) && opt_eqb String.eqb (ct_pid a) (ct_pid b) && (ct_state a =? ct_state b) &&
  (ct_ttl a =? ct_ttl b) && (ct_exp a =? ct_exp b) && (ct_created a =? ct_created b).
Definition ut_eqb (a b : update_task_cmd) : bool :=
  String.eqb (ut_id a) (ut_id b) && opt_eqb String.eqb (ut_pid a) (ut_pid b) && (ut_state a =? ut_state b) &&
  (ut_counter a =? ut_counter b) && (ut_attempt a =? ut_attempt b) && (ut_ttl a =? ut_ttl b) &&
  (ut_exp a =? ut_exp b) && opt_eqb Z.eqb (ut_completed a) (ut_completed b) &&
  list_eqb Z.eqb (ut_cur_states a) (ut_cur_states b) && (ut_cur_counter a =? ut_cur_counter b).

Definition command_eqb (a b : command) : bool :=
  match a, b with
  | ReadPromise x, ReadPromise y => String.eqb x y
  | ReadPromises t l, ReadPromises t' l' => (t =? t') && (l =? l')
  | SearchPromises q s g l i, SearchPromises q' s' g' l' i' =>
    String.eqb q q' && list_eqb Z.eqb s s' && smap_eqb g g' && (l =? l') && opt_eqb Z.eqb i i'
  | CreatePromise x, CreatePromise y => cp_eqb x y
  | UpdatePromise x, UpdatePromise y => up_eqb x y
  | CreateCallback x, CreateCallback y => cc_eqb x y
  | DeleteCallbacks x, DeleteCallbacks y => String.eqb x y
  | ReadSchedule x, ReadSchedule y => String.eqb x y
  | ReadSchedules t l, ReadSchedules t' l' => (t =? t') && (l =? l')
  | SearchSchedules q g l i, SearchSchedules q' g' l' i' =>
    String.eqb q q' && smap_eqb g g' && (l =? l') && opt_eqb Z.eqb i i'
  | CreateSchedule x, CreateSchedule y => cs_eqb x y
  | UpdateSchedule i l n, UpdateSchedule i' l' n' => String.eqb i i' && opt_eqb Z.eqb l l' && (n =? n')
  | DeleteSchedule x, DeleteSchedule y => String.eqb x y
  | ReadTask x, ReadTask y => String.eqb x y
  | ReadEnqueueableTasks l, ReadEnqueueableTasks l' => l =? l'
  | ReadTasks s t l, ReadTasks s' t' l' => list_eqb Z.eqb s s' && (t =? t') && (l =? l')
  | CreateTask x, CreateTask y => ct_eqb x y
  | CreateTasks p c, CreateTasks p' c' => String.eqb p p' && (c =? c')
  | CompleteTasks p c, CompleteTasks p' c' => String.eqb p p' && (c =? c')
  | UpdateTask x, UpdateTask y => ut_eqb x y
  | HeartbeatTasks p t, HeartbeatTasks p' t' => String.eqb p p' && (t =? t')
  | CreatePromiseAndTask p t, CreatePromiseAndTask p' t' => cp_eqb p p' && ct_eqb t t'
  | ReadLock x, ReadLock y => String.eqb x y
  | AcquireLock r e p t x, AcquireLock r' e' p' t' x' =>
    String.eqb r r' && String.eqb e e' && String.eqb p p' && (t =? t') && (x =? x')
  | ReleaseLock r e, ReleaseLock r' e' => String.eqb r r' && String.eqb e e'
  | HeartbeatLocks p t, HeartbeatLocks p' t' => String.eqb p p' && (t =? t')
  | TimeoutLocks t, TimeoutLocks t' => t =? t'
  | _, _ => false
  end.

Definition send_eqb (a b : send_req) : bool :=
  task_eqb (sd_task a) (sd_task b) && opt_eqb promise_eqb (sd_promise a) (sd_promise b) &&
  String.eqb (sd_claim a) (sd_claim b) && String.eqb (sd_complete a) (sd_complete b) &&
  String.eqb (sd_heartbeat a) (sd_heartbeat b).

Definition sub_eqb (a b : sub) : bool :=
  match a, b with
  | SStore x, SStore y => list_eqb command_eqb x y
  | SRouter p, SRouter q => promise_eqb p q
  | SSender m, SSender m' => send_eqb m m'
  | _, _ => false
  end.

(* ---------- system state ---------- *)

Record pend := mkPend {
  pd_id : string; pd_n : nat; pd_sub : sub; pd_group : Z;
  pd_ready : option cpl }.        (* None: not yet processed by its subsystem; Some: completion waiting in the cq *)

Record inst := mkInst { i_id : string; i_st : cstate; i_next : nat }.

Record sys := mkSys {
  s_db : db; s_now : Z; s_group : Z; s_insts : list inst; s_pend : list pend }.

Definition sys0 (d : db) : sys := mkSys d 0 0 [] [].

(* ---------- schedules and observations ---------- *)

Record exec_item := mkEx { ex_id : string; ex_n : nat; ex_hints : list (option (list string)); ex_lose : bool }.

Inductive directive :=
| DTick (t : Z) (deliver : list (string * nat)) (bgs : list (string * bgkind)) (arrive : list (string * request))
| DExec (batch : list exec_item)
| DDrop (id : string) (n : nat)
| DRouter (id : string) (n : nat) (res : option (option string))
| DSender (id : string) (n : nat) (res : option bool)
| DCrash.

Inductive obs :=
| OInst (id : string) (subs : list sub) (resp : option response)
| OExec (txns : list (list command)) (rs : option (list (list result))) (snap : db)
| OStuck.

Definition obs_eqb (a b : obs) : bool :=
  match a, b with
  | OInst i s r, OInst i' s' r' => String.eqb i i' && list_eqb sub_eqb s s' && opt_eqb response_eqb r r'
  | OExec tx rs d, OExec tx' rs' d' =>
    list_eqb (list_eqb command_eqb) tx tx' && opt_eqb (list_eqb (list_eqb result_eqb)) rs rs' && db_eqb d d'
  | OStuck, OStuck => true
  | _, _ => false
  end.

(* ---------- step ---------- *)

Definition pend_is (id : string) (n : nat) (p : pend) : bool := String.eqb (pd_id p) id && Nat.eqb (pd_n p) n.

Definition find_pend (id : string) (n : nat) (l : list pend) : option pend := find (pend_is id n) l.
Definition remove_pend (id : string) (n : nat) (l : list pend) : list pend :=
  filter (fun p => negb (pend_is id n p)) l.
(* the submission (id, n) -- the one find_pend returns -- gets its completion *)
Fixpoint set_ready (id : string) (n : nat) (c : cpl) (l : list pend) : list pend :=
  match l with
  | [] => []
  | p :: l' => if pend_is id n p then mkPend (pd_id p) (pd_n p) (pd_sub p) (pd_group p) (Some c) :: l'
               else p :: set_ready id n c l'
  end.

(* collect the deliveries of a tick: every (id, n) must be a completion waiting in the cq *)
Fixpoint take_deliveries (dl : list (string * nat)) (pl : list pend)
  : option (list (string * (nat * cpl)) * list pend) :=
  match dl with
  | [] => Some ([], pl)
  | (id, n) :: dl' =>
    match find_pend id n pl with
    | Some p =>
      match pd_ready p with
      | Some c =>
        match take_deliveries dl' (remove_pend id n pl) with
        | Some (ds, pl') => Some ((id, (n, c)) :: ds, pl')
        | None => None
        end
      | None => None
      end
    | None => None
    end
  end.

Definition deliveries_for (id : string) (ds : list (string * (nat * cpl))) : list (nat * cpl) :=
  map snd (filter (fun d => String.eqb (fst d) id) ds).

Fixpoint number_subs (id : string) (g : Z) (n : nat) (subs : list sub) : list pend :=
  match subs with
  | [] => []
  | s :: subs' => mkPend id n s g None :: number_subs id g (S n) subs'
  end.

(* the end of a background coroutine is not observable from outside the kernel *)
Definition visible_resp (r : option response) : option response :=
  match r with Some RspBgDone => None | _ => r end.

Definition inst_obs (id : string) (o : step_out) : list obs :=
  match o_subs o, visible_resp (o_resp o) with
  | [], None => []
  | _, r => [OInst id (o_subs o) r]
  end.

(* existing instances proceed with their deliveries, in arrival order *)
Fixpoint run_insts (cfg : config) (now g : Z) (ds : list (string * (nat * cpl))) (il : list inst)
  : list inst * list pend * list obs :=
  match il with
  | [] => ([], [], [])
  | i :: il' =>
    let o := run_inst cfg (i_st i) (deliveries_for (i_id i) ds) now (i_next i) in
    let '(il2, pl2, ob2) := run_insts cfg now g ds il' in
    let i' := mkInst (i_id i) (o_state o) (i_next i + List.length (o_subs o)) in
    let keep := match o_state o with CDone => il2 | _ => i' :: il2 end in
    (keep, (number_subs (i_id i) g (i_next i) (o_subs o) ++ pl2)%list, (inst_obs (i_id i) o ++ ob2)%list)
  end.

Fixpoint start_insts (starts : list (string * step_out)) (g : Z) : list inst * list pend * list obs :=
  match starts with
  | [] => ([], [], [])
  | (id, o) :: rest =>
    let '(il, pl, ob) := start_insts rest g in
    let i := mkInst id (o_state o) (List.length (o_subs o)) in
    let keep := match o_state o with CDone => il | _ => i :: il end in
    (keep, (number_subs id g 0 (o_subs o) ++ pl)%list, (inst_obs id o ++ ob)%list)
  end.

Definition is_store (p : pend) : bool := match pd_sub p with SStore _ => true | _ => false end.
Definition unready (p : pend) : bool := match pd_ready p with None => true | Some _ => false end.

Definition in_batch (batch : list exec_item) (p : pend) : bool :=
  existsb (fun e => pend_is (ex_id e) (ex_n e) p) batch.

(* gather the transactions of a batch, in batch order *)
Fixpoint batch_txns (batch : list exec_item) (pl : list pend)
  : option (list (list command * list (option (list string)))) :=
  match batch with
  | [] => Some []
  | e :: batch' =>
    match find_pend (ex_id e) (ex_n e) pl with
    | Some p =>
      match pd_sub p, pd_ready p with
      | SStore cs, None =>
        match batch_txns batch' pl with
        | Some l => Some ((cs, ex_hints e) :: l)
        | None => None
        end
      | _, _ => None
      end
    | None => None
    end
  end.

Fixpoint nodup_items (batch : list exec_item) : bool :=
  match batch with
  | [] => true
  | e :: b' => negb (existsb (fun e' => String.eqb (ex_id e) (ex_id e') && Nat.eqb (ex_n e) (ex_n e')) b') && nodup_items b'
  end.

Definition batch_max_group (batch : list exec_item) (pl : list pend) : Z :=
  fold_right (fun e acc => match find_pend (ex_id e) (ex_n e) pl with
                           | Some p => Z.max (pd_group p) acc
                           | None => acc end) (-1) batch.

(* c_fifo: a store submission dispatched in an earlier tick is executed (or dropped) before one dispatched
   in a later tick *)
Definition fifo_ok (batch : list exec_item) (pl : list pend) : bool :=
  let g := batch_max_group batch pl in
  forallb (fun p => negb (is_store p && unready p && (pd_group p <? g)) || in_batch batch p) pl.

Fixpoint set_batch_ready (batch : list exec_item) (rss : option (list (list result))) (pl : list pend) : list pend :=
  match batch with
  | [] => pl
  | e :: batch' =>
    let c := match rss with
             | Some (rs :: _) => if ex_lose e then CErr else CStore rs
             | _ => CErr
             end in
    set_batch_ready batch' (option_map (@tl _) rss) (set_ready (ex_id e) (ex_n e) c pl)
  end.

(* a coroutine id (Tags["id"]) names one live coroutine: an arriving request or a starting background
   coroutine must not reuse the id of an instance that is still running or has submissions in flight *)
Definition id_used (s : sys) (id : string) : bool :=
  existsb (fun i => String.eqb (i_id i) id) (s_insts s) || existsb (fun p => String.eqb (pd_id p) id) (s_pend s).
Fixpoint ids_fresh (s : sys) (ids : list string) : bool :=
  match ids with
  | [] => true
  | id :: ids' => negb (id_used s id) && negb (existsb (String.eqb id) ids') && ids_fresh s ids'
  end.

Definition step (cfg : config) (s : sys) (d : directive) : option (sys * list obs) :=
  match d with
  | DTick t deliver bgs arrive =>
    if t <? s_now s then None else
    if negb (ids_fresh s (map fst bgs ++ map fst arrive)) then None else
    match take_deliveries deliver (s_pend s) with
    | None => None
    | Some (ds, pl) =>
      let g := s_group s in
      let '(il1, pl1, ob1) := run_insts cfg t g ds (s_insts s) in
      let starts := (map (fun x => (fst x, start_bg cfg (snd x) t 0)) bgs ++
                     map (fun x => (fst x, start_req (snd x) t 0)) arrive)%list in
      let '(il2, pl2, ob2) := start_insts starts g in
      Some (mkSys (s_db s) t (g + 1) (il1 ++ il2) (pl ++ pl1 ++ pl2), (ob1 ++ ob2)%list)
    end
  | DExec batch =>
    match batch_txns batch (s_pend s) with
    | None => None
    | Some txns =>
      if negb (nodup_items batch) then None
      else if c_fifo cfg && negb (fifo_ok batch (s_pend s)) then None
      else
      match exec_batch (s_db s) txns with
      | Some (d', rss) =>
        Some (mkSys d' (s_now s) (s_group s) (s_insts s) (set_batch_ready batch (Some rss) (s_pend s)),
              [OExec (map fst txns) (Some rss) d'])
      | None =>
        Some (mkSys (s_db s) (s_now s) (s_group s) (s_insts s) (set_batch_ready batch None (s_pend s)),
              [OExec (map fst txns) None (s_db s)])
      end
    end
  | DDrop id n =>
    match find_pend id n (s_pend s) with
    | Some p => if unready p
                then Some (mkSys (s_db s) (s_now s) (s_group s) (s_insts s) (set_ready id n CErr (s_pend s)), [])
                else None
    | None => None
    end
  | DRouter id n res =>
    match find_pend id n (s_pend s) with
    | Some p =>
      match pd_sub p, pd_ready p with
      | SRouter _, None =>
        let c := match res with None => CErr | Some r => CRouter r end in
        Some (mkSys (s_db s) (s_now s) (s_group s) (s_insts s) (set_ready id n c (s_pend s)), [])
      | _, _ => None
      end
    | None => None
    end
  | DSender id n res =>
    match find_pend id n (s_pend s) with
    | Some p =>
      match pd_sub p, pd_ready p with
      | SSender _, None =>
        let c := match res with None => CErr | Some b => CSender b end in
        Some (mkSys (s_db s) (s_now s) (s_group s) (s_insts s) (set_ready id n c (s_pend s)), [])
      | _, _ => None
      end
    | None => None
    end
  | DCrash => Some (mkSys (s_db s) (s_now s) (s_group s) [] [], [])
  end.

(* run: the observations of a schedule, one list per directive; a directive that is not executable yields
   [OStuck] and the run stops *)
Fixpoint run_from (cfg : config) (s : sys) (sch : list directive) : list (list obs) :=
  match sch with
  | [] => []
  | d :: sch' =>
    match step cfg s d with
    | Some (s', ob) => ob :: run_from cfg s' sch'
    | None => [[OStuck]]
    end
  end.

Definition run (cfg : config) (sch : list directive) : list (list obs) := run_from cfg (sys0 db0) sch.

(* ---------- conformance: first directive index at which the implementation's observations differ ---------- *)

Fixpoint mismatch_from (cfg : config) (s : sys) (tr : list (directive * list obs)) (i : nat)
  : option (nat * list obs) :=
  match tr with
  | [] => None
  | (d, ob_impl) :: tr' =>
    match step cfg s d with
    | Some (s', ob) =>
      if list_eqb obs_eqb ob ob_impl then mismatch_from cfg s' tr' (S i) else Some (i, ob)
    | None => Some (i, [OStuck])
    end
  end.

Definition mismatch (cfg : config) (tr : list (directive * list obs)) : option (nat * list obs) :=
  mismatch_from cfg (sys0 db0) tr 0.
