(* C12 — the kernel loop as a whole (goroutines included): what must be true of a run of System.Loop whatever the
   moments at which requests and the shutdown arrive.  Executable Gallina only. *)
From Coq Require Export List ZArith Bool Arith.
Export ListNotations.
Open Scope Z_scope.

Inductive lop := LEnq (id : nat) | LShutdown | LStep.

(* the answer every request must get: processed when it was handed to the api before the shutdown, refused after *)
Fixpoint loop_expected (down : bool) (ops : list lop) : list (nat * bool) :=
  match ops with
  | [] => []
  | LEnq id :: ops' => (id, negb down) :: loop_expected down ops'
  | LShutdown :: ops' => loop_expected true ops'
  | LStep :: ops' => loop_expected down ops'
  end.

(* answers: per request id, how many times it was answered as processed and as refused *)
Inductive lcase := CLoop (ops : list lop) (answers : list (nat * nat * nat)) (returned : bool).

Definition answers_of (id : nat) (answers : list (nat * nat * nat)) : nat * nat :=
  match find (fun a => Nat.eqb (fst (fst a)) id) answers with Some a => (snd (fst a), snd a) | None => (O, O) end.

(* exactly one answer per request, of the expected kind; and the loop returns once it has been told to shut down *)
Definition lcase_ok (c : lcase) : bool :=
  match c with
  | CLoop ops answers returned =>
    returned &&
    forallb (fun e : nat * bool =>
               let pr := answers_of (fst e) answers in
               if snd e then Nat.eqb (fst pr) 1 && Nat.eqb (snd pr) 0
               else Nat.eqb (fst pr) 0 && Nat.eqb (snd pr) 1) (loop_expected false ops)
  end.

Fixpoint bad_lcases (j : nat) (cs : list lcase) : list nat :=
  match cs with
  | [] => []
  | c :: cs' => ((if lcase_ok c then [] else [j]) ++ bad_lcases (S j) cs')%list
  end.
Fixpoint loop_mismatches_from (i : nat) (l : list (list lcase)) : list (nat * nat * Z) :=
  match l with
  | [] => []
  | cs :: l' => (map (fun j => (i, j, 0)) (bad_lcases 0%nat cs) ++ loop_mismatches_from (S i) l')%list
  end.
Definition loop_mismatches := loop_mismatches_from 0%nat.
