(* Diagnosis only (not part of the proof development, not in _CoqProject): where do the regenerated SQL statements,
   bindings and worker control flow differ from the reviewed references / from the other back end? *)
From Coq Require Import List String Bool.
From RV Require Import Gen.Sql Gen.Flow Spec.SqlRef Spec.FlowRef Spec.Dialect.
Import ListNotations.
Fixpoint lk {A} (f : string) (l : list (string * A)) : option A :=
  match l with [] => None | (k, v) :: l' => if String.eqb k f then Some v else lk f l' end.
Definition oeq (a b : option string) : bool :=
  match a, b with Some x, Some y => String.eqb x y | None, None => true | _, _ => false end.
Definition changed (cur ref : list (string * string)) : list string :=
  filter (fun f => negb (oeq (lk f cur) (lk f ref))) (map fst cur ++ map fst ref).
Definition cat (l : list string) : string := fold_right (fun a b => (a ++ "|" ++ b)%string) ""%string l.
Definition flat (l : list (string * list string)) := map (fun x => (fst x, cat (snd x))) l.
Definition STATEMENTS_CHANGED_SQLITE := Eval vm_compute in changed (flat sqlite_stmts) (flat ref_sqlite_stmts).
Definition STATEMENTS_CHANGED_PG := Eval vm_compute in changed (flat pg_stmts) (flat ref_pg_stmts).
Definition WORKER_METHODS_DIFFERENT_BETWEEN_BACKENDS := Eval vm_compute in
  filter (fun f => negb (existsb (String.eqb f) flow_exceptions)) (changed pg_flow sqlite_flow).
Definition REVIEWED_EXCEPTION_METHODS_CHANGED_PG := Eval vm_compute in
  filter (fun f => existsb (String.eqb f) flow_exceptions) (changed pg_flow ref_pg_flow).
Definition REVIEWED_EXCEPTION_METHODS_CHANGED_SQLITE := Eval vm_compute in
  filter (fun f => existsb (String.eqb f) flow_exceptions) (changed sqlite_flow ref_sqlite_flow).
Print STATEMENTS_CHANGED_SQLITE. Print STATEMENTS_CHANGED_PG.
Print WORKER_METHODS_DIFFERENT_BETWEEN_BACKENDS.
Print REVIEWED_EXCEPTION_METHODS_CHANGED_PG. Print REVIEWED_EXCEPTION_METHODS_CHANGED_SQLITE.
