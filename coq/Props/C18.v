(* C18 -- Poll transport delivers each accepted message to exactly one right listener.
   THE THEOREMS OF THIS FILE ARE THE CLAIM; each is closed by `exact` of a lemma proved in Proofs/PC18.v.

   Model/Poll.v is the connection registry (connections.add / rmv / get) and PollWorker.Process as the single
   worker goroutine runs them: a sequential state machine over connects, disconnects, drains and messages, for every
   buffer size and connection limit.  The correspondence check drives the production registry and Process through an
   add-only hook with random operation sequences over two groups, colliding and slash-containing ids, buffer sizes
   0..2 and limits 1..4, and compares the registry (group, id, connection number, buffered count) after EVERY
   operation; the "any one of the group" choice (math/rand in the code) is relational.
   What the model cannot exhibit (hence partial): the goroutine-level timing of the connect / disconnect / message
   channels (the worker's select prioritisation), HTTP streaming to the client, and shutdown (closing all
   connections when the submission queue is closed). *)
From RV Require Import Poll PC18.

(* a message whose delivery is reported went to ONE registered listener of the addressed group: the one with the
   addressed id if it is connected, a notification only to the exact id; it was reported delivered, that
   listener's buffer had room, and exactly that buffer grew by exactly the body *)
Theorem C18_right_listener : forall st notify g id body ok cid st',
    p_send st notify g id body ok (Some cid) = Some st' ->
    exists c, In c (ps_conns st) /\ pc_cid c = cid /\ pc_group c = g /\
              (notify = true -> pc_id c = id) /\
              ((exists c', In c' (ps_conns st) /\ pc_group c' = g /\ pc_id c' = id) -> id <> EmptyString -> pc_id c = id) /\
              ok = true /\ (List.length (pc_buf c) < pc_cap c)%nat /\
              ps_conns st' = map (push cid body) (ps_conns st) /\ ps_max st' = ps_max st.
Proof. exact send_right_listener. Qed.
Print Assumptions C18_right_listener.

Theorem C18_only_one_buffer : forall cid body c,
    (pc_cid c <> cid -> push cid body c = c) /\
    (pc_cid c = cid -> pc_buf (push cid body c) = (pc_buf c ++ [body])%list /\ pc_group (push cid body c) = pc_group c /\ pc_id (push cid body c) = pc_id c).
Proof. exact send_only_one. Qed.

(* "delivered" is never reported when nobody's buffer accepted the message, and an undelivered message leaves no trace *)
Theorem C18_delivered_means_accepted : forall st notify g id body st', p_send st notify g id body true None = Some st' -> False.
Proof. exact delivered_means_accepted. Qed.
Theorem C18_undelivered_no_trace : forall st notify g id body st', p_send st notify g id body false None = Some st' -> st' = st.
Proof. exact undelivered_changes_nothing. Qed.
Print Assumptions C18_undelivered_no_trace.

(* the registry invariant -- at most one connection per (group, id), never more than the limit -- holds initially
   and is preserved by every operation: by induction, in every reachable state *)
Theorem C18_registry : wf (mkPS [] 0) /\
    (forall st g id cid cap, wf st -> wf (p_connect st g id cid cap)) /\
    (forall st cid, wf st -> wf (p_disconnect st cid)) /\
    (forall st notify g id body ok got st', wf st -> p_send st notify g id body ok got = Some st' -> wf st') /\
    (forall st cid, wf st -> wf (fst (fst (p_drain st cid)))).
Proof.
  split; [split; [constructor|cbn; auto]|]. split; [exact connect_wf|]. split; [exact disconnect_wf|]. split; [exact send_wf|exact drain_wf].
Qed.
Print Assumptions C18_registry.

(* a reconnect with the same group and id replaces the older connection *)
Theorem C18_reconnect_replaces : forall st g id cid cap c,
    wf st -> In c (ps_conns (p_connect st g id cid cap)) -> pc_group c = g -> pc_id c = id -> pc_cid c = cid /\ pc_buf c = [].
Proof. exact reconnect_replaces. Qed.
Print Assumptions C18_reconnect_replaces.

(* the listener a long-poll request registers is EXACTLY the one its path names: the group is the first segment, the id
   everything after it - slashes, trailing ones included - unaltered; "/g/a" and "/g/a/" are different listeners; a path
   without an id segment registers nothing *)
Theorem C18_path_names_the_listener : forall g id, no_slash g -> poll_path (String "/" (g ++ String "/" id)) = Some (g, id).
Proof. exact poll_path_exact. Qed.
Print Assumptions C18_path_names_the_listener.

Theorem C18_path_without_id_refused : forall g, no_slash g -> poll_path (String "/" g) = None.
Proof. exact poll_path_needs_id. Qed.
Print Assumptions C18_path_without_id_refused.

Example C18_path_example :
  poll_path "/foo/a" = Some ("foo", "a")%string /\ poll_path "/foo/a/" = Some ("foo", "a/")%string /\
  poll_path "/foo/a/b" = Some ("foo", "a/b")%string /\ poll_path "/foo/" = Some ("foo", "")%string /\ poll_path "/foo" = None.
Proof. vm_compute. repeat split; reflexivity. Qed.


(* ---------- a run ---------- *)
Definition run_ex :=
  let s0 := mkPS [] 2%nat in
  let s1 := p_connect s0 "g" "a" 1%nat 1%nat in
  let s2 := p_connect s1 "g" "b" 2%nat 1%nat in
  let s3 := p_connect s2 "g" "a" 3%nat 1%nat in          (* replaces connection 1 *)
  let s4 := p_connect s3 "h" "x" 4%nat 1%nat in          (* at the limit: closed at once *)
  (rows_of s4,
   p_send s4 true "g" "a" "n1" true (Some 3%nat),    (* notification to the exact id *)
   p_send s4 true "g" "zz" "n2" true (Some 2%nat),   (* a notification must not fall back to another listener *)
   p_send s4 false "g" "zz" "m" true (Some 2%nat),   (* an invocation may *)
   p_send s4 false "h" "x" "m" true (Some 2%nat)).   (* never across groups *)
Example C18_example :
  match run_ex with
  | (rows, Some _, None, Some _, None) => rows = [("g", "b", 2, 0); ("g", "a", 3, 0)]%string%nat
  | _ => False
  end.
Proof. vm_compute. reflexivity. Qed.

(* the replay rejects a transport that hands a notification for id a to listener b when a's buffer is full *)
Example C18_replay_detects :
  poll_mismatches [[PInit 4%nat; PConnect "g" "a" 1%nat 1%nat ([("g", "a", 1, 0)], 1)%string%nat;
                    PConnect "g" "b" 2%nat 1%nat ([("g", "a", 1, 0); ("g", "b", 2, 0)], 2)%string%nat;
                    PSend true "g" "a" "n1" true (Some 1%nat) ([("g", "a", 1, 1); ("g", "b", 2, 0)], 2)%string%nat;
                    PSend true "g" "a" "n2" true (Some 2%nat) ([("g", "a", 1, 1); ("g", "b", 2, 1)], 2)%string%nat]]
  = [(0%nat, 4%nat, 0%Z)].
Proof. vm_compute. reflexivity. Qed.
