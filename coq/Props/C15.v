(* C15 — HTTP and gRPC front ends render every kernel outcome faithfully and identically.
   The tables below are REGENERATED from the source on every run (Gen/Status.v, harness/verifh/gen_status.go);
   the theorems are finite computations over them (the whole finite domain, not a sample). *)
From Coq Require Import List String ZArith Bool.
From RV Require Import Gen.Status Spec.Front15 Model.Coro.
Import ListNotations.

(* every status code the kernel defines has a message (StatusCode.String has a case for it) ... *)
Theorem C15_string_total : string_total = true.
Proof. vm_compute. reflexivity. Qed.
Print Assumptions C15_string_total.

(* ... and a gRPC code (code() has a case for it): no status makes either renderer panic *)
Theorem C15_grpc_total : grpc_total = true.
Proof. vm_compute. reflexivity. Qed.
Print Assumptions C15_grpc_total.

(* the HTTP status is the kernel status divided by 100 *)
Theorem C15_http_code_is_div100 : http_code_body = "int(status) / 100"%string.
Proof. reflexivity. Qed.
Print Assumptions C15_http_code_is_div100.

(* the gRPC code of every status is the one its HTTP class (status / 100) determines: the two protocols classify
   every outcome identically *)
Theorem C15_grpc_agrees_with_http : grpc_agrees_with_http = true.
Proof. vm_compute. reflexivity. Qed.
Print Assumptions C15_grpc_agrees_with_http.

(* outcome flags of gRPC replies are compared with the status the coroutine returns on success *)
Theorem C15_flags_agree : flags_agree = true.
Proof. vm_compute. reflexivity. Qed.
Print Assumptions C15_flags_agree.

(* ... where "the status the coroutine returns on success" is a fact about the model of the coroutines: *)
Theorem C15_release_success_status : forall cfg n now next,
    n <> 0%Z -> o_resp (resume_seq cfg KRelease (CStore [RAlter n]) now next) = Some (RspStatus StNoContent).
Proof. intros cfg n now next H. cbn. destruct (n =? 0)%Z eqn:E; [apply Z.eqb_eq in E; contradiction|reflexivity]. Qed.
Print Assumptions C15_release_success_status.
Theorem C15_acquire_success_status : forall cfg res ex pr ttl exp n now next,
    n <> 0%Z -> o_resp (resume_seq cfg (KAcquire res ex pr ttl exp) (CStore [RAlter n]) now next)
                = Some (RspLock StCreated (Some (mkL res ex pr ttl exp))).
Proof. intros. cbn. destruct (n =? 0)%Z eqn:E; [apply Z.eqb_eq in E; contradiction|reflexivity]. Qed.
Print Assumptions C15_acquire_success_status.

(* Response.Status() knows every request kind *)
Theorem C15_response_status_total : response_status_total = true.
Proof. vm_compute. reflexivity. Qed.
Print Assumptions C15_response_status_total.
