(* C15 — HTTP and gRPC front ends render every kernel outcome faithfully and identically.
   The tables below are REGENERATED from the source on every run (Gen/Status.v, harness/verifh/gen_status.go);
   the theorems are finite computations over them (the whole finite domain, not a sample). *)
From Coq Require Import List String ZArith Bool.
From RV Require Import Gen.Status Spec.Front15 Model.Coro Model.Equiv Model.Render Proofs.PC15.
From Coq Require Import Lia ZifyBool.
Ltac Zify.zify_post_hook ::= Z.div_mod_to_equations.
Import ListNotations.

(* every status code the kernel defines has a message (StatusCode.String has a case for it) ... *)
Theorem C15_string_total : string_total = true.
Proof. vm_compute. reflexivity. Qed.
Print Assumptions C15_string_total.

(* ... and a gRPC code (code() has a case for it): no status makes either renderer panic *)
Theorem C15_grpc_total : grpc_total = true.
Proof. vm_compute. reflexivity. Qed.
Print Assumptions C15_grpc_total.

(* the HTTP status is the kernel status divided by 100 *)
Theorem C15_http_code_is_div100 : http_code_body = "int(status) / 100"%string.
Proof. reflexivity. Qed.
Print Assumptions C15_http_code_is_div100.

(* the gRPC code of every status is the one its HTTP class (status / 100) determines: the two protocols classify
   every outcome identically *)
Theorem C15_grpc_agrees_with_http : grpc_agrees_with_http = true.
Proof. vm_compute. reflexivity. Qed.
Print Assumptions C15_grpc_agrees_with_http.

(* outcome flags of gRPC replies are compared with the status the coroutine returns on success *)
Theorem C15_flags_agree : flags_agree = true.
Proof. vm_compute. reflexivity. Qed.
Print Assumptions C15_flags_agree.

(* ... where "the status the coroutine returns on success" is a fact about the model of the coroutines: *)
Theorem C15_release_success_status : forall cfg n now next,
    n <> 0%Z -> o_resp (resume_seq cfg KRelease (CStore [RAlter n]) now next) = Some (RspStatus StNoContent).
Proof. intros cfg n now next H. cbn. destruct (n =? 0)%Z eqn:E; [apply Z.eqb_eq in E; contradiction|reflexivity]. Qed.
Print Assumptions C15_release_success_status.
Theorem C15_acquire_success_status : forall cfg res ex pr ttl exp n now next,
    n <> 0%Z -> o_resp (resume_seq cfg (KAcquire res ex pr ttl exp) (CStore [RAlter n]) now next)
                = Some (RspLock StCreated (Some (mkL res ex pr ttl exp))).
Proof. intros. cbn. destruct (n =? 0)%Z eqn:E; [apply Z.eqb_eq in E; contradiction|reflexivity]. Qed.
Print Assumptions C15_acquire_success_status.

(* Response.Status() knows every request kind *)
Theorem C15_response_status_total : response_status_total = true.
Proof. vm_compute. reflexivity. Qed.
Print Assumptions C15_response_status_total.

(* ---------- equivalent HTTP and gRPC requests are translated into the same kernel request ----------
   http_front / grpc_front (Model/Equiv.v) are the models of the two handler sets (binding rules and explicit checks);
   the correspondence family "equiv" runs the production HTTP server and the production gRPC handlers (through the
   protobuf wire format) on the same logical requests and compares what reaches the kernel with these functions. *)
Theorem C15_equivalent_requests_same_kernel_request :
  forall l, lreq_wf l = true -> exists q, http_front l = Some q /\ grpc_front l = Some q.
Proof. exact front_equiv. Qed.
Print Assumptions C15_equivalent_requests_same_kernel_request.

(* the HTTP front end accepts exactly the well-formed logical requests, and whatever it accepts the gRPC front end
   translates identically (gRPC accepts more: it does not insist on identifiers being present) *)
Theorem C15_http_accepts_iff_wf : forall l, lreq_wf l = true <-> http_front l <> None.
Proof. exact http_accepts_iff_wf. Qed.
Print Assumptions C15_http_accepts_iff_wf.
Theorem C15_http_implies_grpc : forall l q, http_front l = Some q -> grpc_front l = Some q.
Proof. exact http_implies_grpc. Qed.
Print Assumptions C15_http_implies_grpc.

(* the kernel request is the one the client meant (search: with the documented normalisation of page size and state filter) *)
Theorem C15_translation_is_faithful :
  forall q cbid q', http_front (LReq q cbid) = Some q' \/ grpc_front (LReq q cbid) = Some q' -> q' = q.
Proof. exact front_is_identity. Qed.
Print Assumptions C15_translation_is_faithful.
Theorem C15_search_translation : forall idq st tags lim q,
    http_front (LSearchP idq st tags lim) = Some q \/ grpc_front (LSearchP idq st tags lim) = Some q ->
    exists sts, search_states st = Some sts /\ q = QSearchPromises idq sts tags (if lim =? 0 then 100 else lim) None /\ nonempty idq = true /\
                (1 <= (if lim =? 0 then 100 else lim) <= 100)%Z.
Proof. exact front_search_p. Qed.
Print Assumptions C15_search_translation.

(* the hypotheses are satisfiable, with the boundary values (ttl 0, counter 1, limit 0) *)
Example C15_wf_example :
  lreq_wf (LReq (QClaimTask "t" 1 "p" 0) "") = true /\ lreq_wf (LSearchP "*" 0 [] 0) = true /\
  http_front (LReq (QClaimTask "t" 1 "p" 0) "") = Some (QClaimTask "t" 1 "p" 0) /\
  http_front (LSearchP "*" 3 [] 0) = Some (QSearchPromises "*" [Rejected; Timedout; Canceled] [] 100 None).
Proof. vm_compute. repeat split; reflexivity. Qed.

(* ---------- rendering of every kernel outcome (Model/Render.v; family "render" runs the production HTTP server and
   gRPC handlers on every operation x every status x every response shape against these functions) ---------- *)
(* a success is rendered as HTTP 2xx and gRPC OK, and nothing else is: for EVERY integer status, not only the defined ones *)
Theorem C15_success_iff_2xx : forall s, successful s = true <-> (200 <= http_expected s < 300)%Z.
Proof. intro s. unfold successful, http_expected. lia. Qed.
Print Assumptions C15_success_iff_2xx.
Theorem C15_grpc_ok_iff_success : forall s, grpc_expected s = 0%Z <-> successful s = true.
Proof.
  intro s. unfold grpc_expected. destruct (successful s); [tauto|].
  repeat match goal with |- context [if ?b then _ else _] => destruct b end; split; intro H; discriminate H.
Qed.
Print Assumptions C15_grpc_ok_iff_success.

(* every status the kernel defines (regenerated from status.go) has an HTTP class and a gRPC code in the model ... *)
Theorem C15_render_total :
  forallb (fun c => negb (grpc_expected (snd c) =? -1)%Z &&
                    existsb (Z.eqb (http_expected (snd c))) [200; 201; 204; 400; 403; 404; 409; 500; 503]%Z) status_consts = true.
Proof. vm_compute. reflexivity. Qed.
Print Assumptions C15_render_total.

(* ... and the model's gRPC code is the one the regenerated code() switch returns *)
Definition grpc_code_name (c : Z) : string :=
  if (c =? 0)%Z then "codes.OK" else if (c =? 3)%Z then "codes.InvalidArgument" else if (c =? 5)%Z then "codes.NotFound"
  else if (c =? 6)%Z then "codes.AlreadyExists" else if (c =? 7)%Z then "codes.PermissionDenied" else if (c =? 13)%Z then "codes.Internal"
  else if (c =? 14)%Z then "codes.Unavailable" else "?".
Theorem C15_grpc_code_switch_is_the_model :
  forallb (fun c => match case_of (fst c) grpc_code_cases with
                    | Some r => String.eqb r (grpc_code_name (grpc_expected (snd c)))
                    | None => false end) status_consts = true.
Proof. vm_compute. reflexivity. Qed.
Print Assumptions C15_grpc_code_switch_is_the_model.

(* the outcome flags the handlers compute (regenerated from the handlers: operation, flag, status constant compared
   with) are exactly the flags of the model: every flag is set, with the right constant, and there is no other *)
Definition flag_ops : list string :=
  ["AcquireLock"; "CancelPromise"; "ClaimTask"; "CompleteTask"; "CreateCallback"; "CreatePromise"; "CreatePromiseAndTask";
   "CreateSchedule"; "CreateSubscription"; "DeleteSchedule"; "HeartbeatLocks"; "HeartbeatTasks"; "ReadPromise"; "ReadSchedule";
   "RejectPromise"; "ReleaseLock"; "ResolvePromise"; "SearchPromises"; "SearchSchedules"]%string.
Definition model_flag_table : list (string * string * string) :=
  flat_map (fun op => flat_map (fun c => match flags_expected op (snd c) with
                                         | [(f, true)] => [(op, f, fst c)]
                                         | _ => [] end)
                               [("StatusOK"%string, 20000%Z); ("StatusCreated"%string, 20100%Z); ("StatusNoContent"%string, 20400%Z)]) flag_ops.
Theorem C15_flags_are_the_model : grpc_flags = model_flag_table.
Proof. vm_compute. reflexivity. Qed.
Print Assumptions C15_flags_are_the_model.
