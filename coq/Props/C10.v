(* C10 -- Schedules fire every cron occurrence exactly once, in order, atomically.
   THE THEOREMS OF THIS FILE ARE THE CLAIM; each is closed by `exact` of a lemma proved in Proofs/PC10.v.

   Executable statement: Model/MonC10.v (per commit, given the cron oracle): 1001 a schedule only advances from the
   occurrence it is at to the cron successor of THAT occurrence, by exactly one update naming it (in order, none
   skipped, none twice, also when the clock has jumped over many occurrences: one commit per occurrence);
   1002 never before the occurrence time; 1003 by one transaction that also creates that occurrence's promise
   (template id, timeout = occurrence + promise timeout, configured param, tags + marker tags; a no-op if the id
   exists); 1004 no other column changes; 1005 rows appear / disappear only by create / delete.

   Proved, for ARBITRARY databases, commands, records and clocks:
   - C10_row_fate / C10_row_origin: whatever command runs, an existing schedule row stays, is deleted by a delete
     naming it, or is advanced by an update naming exactly its current occurrence (a stale or repeated firing of an
     occurrence that has already fired changes nothing: compare-and-set on next run time); a row of the new state
     is an old row, such an advanced row (all other columns equal, last run time = the occurrence), or the row a
     create command carries when the id is free (re-creating an id is a no-op).
   - C10_child / C10_firing_txn: the firing coroutine asks, for any record it reads, for the advance to the cron
     successor OF THE RECORD'S OCCURRENCE (not of the clock) and for that occurrence's promise, in ONE transaction.
   Not proved (hence partial): the trace-level monitor for every schedule of the system model (it is evaluated on
   every implementation trace); liveness ("every occurrence does fire") belongs to C11. The cron oracle itself
   (util.Next, a third-party parser) is an input of the model: c_next. *)
From RV Require Import Mon MonC10 PC10.

Theorem C10_row_fate : forall d c h d' r s,
    exec d c h = Some (d', r) -> In s (schedules d) ->
    In s (schedules d') \/
    (exists n, c = UpdateSchedule (s_id s) (Some (s_next s)) n /\ In (advance_s n s) (schedules d')) \/
    c = DeleteSchedule (s_id s).
Proof. exact schedule_row_fate. Qed.
Print Assumptions C10_row_fate.

Theorem C10_row_origin : forall d c h d' r s',
    exec d c h = Some (d', r) -> In s' (schedules d') ->
    In s' (schedules d) \/
    (exists s n, In s (schedules d) /\ c = UpdateSchedule (s_id s) (Some (s_next s)) n /\ s' = advance_s n s) \/
    (exists cc, c = CreateSchedule cc /\ s' = new_schedule cc (next_s d) /\ find_schedule (cs_id cc) d = None).
Proof. exact schedule_row_origin. Qed.
Print Assumptions C10_row_origin.

Theorem C10_advance : forall n s, sched_static_eqb s (advance_s n s) = true /\ s_last (advance_s n s) = Some (s_next s) /\
                                  s_next (advance_s n s) = n /\ same_sched s (advance_s n s) = true.
Proof. exact advance_static. Qed.
Print Assumptions C10_advance.

Theorem C10_child : forall cfg now s pc extra,
    schedule_child cfg now s = Some (pc, extra) ->
    exists n id,
      c_next cfg (s_cron s) (s_next s) = Some n /\
      expand (s_pid s) (s_id s) (dec (s_next s)) = Some id /\
      extra = [UpdateSchedule (s_id s) (Some (s_next s)) n] /\
      expected_cp s id pc = true /\ cp_created pc = now.
Proof. exact schedule_child_spec. Qed.
Print Assumptions C10_child.

Theorem C10_firing_txn : forall cfg now s pc extra c next sl subs id,
    schedule_child cfg now s = Some (pc, extra) ->
    expand (s_pid s) (s_id s) (dec (s_next s)) = Some id ->
    wake_slot (SlRouter 0 pc extra) c next = (sl, subs) ->
    subs = [] \/ exists t, subs = [SStore t] /\ firing_txn s id t = true.
Proof. exact firing_txn_spec. Qed.
Print Assumptions C10_firing_txn.

(* ---------- a run: the clock jumps over three occurrences; they fire one by one, in order ---------- *)
Definition every3 (c : string) (t : Z) : option Z := Some ((t / 3000 + 1) * 3000).
Definition cfg_ex : config := mkCfg "http://h" 1 1 1 1 every3 true.
Definition csr : create_schedule_req := mkCSR "s" "" "@every 3s" [] "{{.id}}.{{.timestamp}}" 1000 [] "" [] None.
Definition fire (k : Z) (t : Z) : list directive :=
  let id := ("SchedulePromises:" ++ dec k)%string in
  [ DTick t [] [(id, BSchedulePromises)] [];
    DExec [mkEx id 0 [] false];
    DTick (t + 1) [(id, 0%nat)] [] [];
    DRouter id 1 (Some None);
    DTick (t + 2) [(id, 1%nat)] [] [];
    DExec [mkEx id 2 [] false];
    DTick (t + 3) [(id, 2%nat)] [] [] ].
Definition sch_ex : list directive :=
  ([ DTick 100 [] [] [("c"%string, QCreateSchedule csr)];
     DExec [mkEx "c" 0 [] false];
     DTick 101 [("c"%string, 0%nat)] [] [];
     DExec [mkEx "c" 1 [] false];
     DTick 102 [("c"%string, 1%nat)] [] [] ] ++ fire 1 10000 ++ fire 2 10010 ++ fire 3 10020 ++ fire 4 10030)%list.

Example C10_example :
  C10_mon cfg_ex (events cfg_ex sch_ex) = [] /\
  map p_id (promises (last_snap db0 (flat_map snd (events cfg_ex sch_ex)))) = ["s.3000"; "s.6000"; "s.9000"]%string /\
  map (fun s => (s_last s, s_next s)) (schedules (last_snap db0 (flat_map snd (events cfg_ex sch_ex)))) = [(Some 9000, 12000)].
Proof. vm_compute. repeat split; reflexivity. Qed.

(* the monitor rejects a commit that advances the schedule from the clock instead of from the occurrence *)
Definition srow (last : option Z) (next : Z) := mkS "s" 1 "" "@every 3s" [] "{{.id}}.{{.timestamp}}" 1000 [] "" [] last next None 100.
Definition prow := mkP "s.3000" 1 1 [] "" [] "" 4000 None None [("resonate:invocation", "true"); ("resonate:schedule", "s")]%string 10000 None.
Definition bad_trace : list (directive * list obs) :=
  [ (DExec [], [OExec [[CreateSchedule (mkCS "s" "" "@every 3s" [] "{{.id}}.{{.timestamp}}" 1000 [] "" [] 3000 None 100)]] (Some [])
                      (mkDb [] [] [srow None 3000] [] [] 0 0 0)]);
    (DTick 10000 [] [] [], []);
    (DExec [], [OExec [[CreatePromise (mkCP "s.3000" [] "" 4000 None [("resonate:invocation", "true"); ("resonate:schedule", "s")]%string 10000);
                        UpdateSchedule "s" (Some 3000) 12000]] (Some [])
                      (mkDb [prow] [] [srow (Some 3000) 12000] [] [] 0 0 0)]) ].
Example C10_monitor_detects : C10_mon cfg_ex bad_trace = [(1001, 2%nat)].
Proof. vm_compute. reflexivity. Qed.
