(* C12 -- Every request gets exactly one response, also under backpressure and shutdown.
   THE THEOREMS OF THIS FILE ARE THE CLAIM; each is closed by `exact` of a lemma proved in Proofs/PC12.v.

   Model/Kernel.v is the request path of the kernel as its single goroutine runs it: api.EnqueueSQE (bounded
   submission queue, shutting-down flag), System.Tick (completions first, at most the completion batch; then at most
   ceil(batch/2) dequeued requests, each admitted to the coroutine pool's input queue or answered "scheduler queue
   full"), coroutines that answer at once or after one IO, System.Done.  The correspondence check drives the
   production api + System.Tick + coroutines under a scripted AIO with random arrival patterns, queue sizes 1..6, pool
   sizes 1..4, batches 1..6, completion batches 1..3 and a shutdown at a random moment, counts the response callbacks
   of every request, and compares every enqueue answer, every tick's responses and System.Done with the model.
   What the model cannot exhibit (hence partial): the goroutine interleaving of concurrent client goroutines with the
   kernel loop (Signal / buffer hand-off), the production aio completion queue and subsystem queues (aio.go), and
   subsystem failures; the coroutine-level responses to failures are covered by the system model (C01-C10 traces
   with injected faults). *)
From RV Require Import Kernel PC12.
From RV Require Aio PAio Loop.
From Coq Require Import Sorting.Permutation.

(* for EVERY sequence of enqueues (with pairwise distinct request ids), shutdown requests, IO completions and ticks,
   and every size of the submission queue, the coroutine pool and the batches:
   never two responses for one request; only requests that were handed in are answered; and once the kernel reports
   done (shutdown requested, queue drained, no coroutine left) every request handed in -- accepted or refused -- has
   been answered exactly once *)
Theorem C12_exactly_once : forall cap pool batch cbatch ops,
    NoDup (enq_ids ops) ->
    let st := fst (krun_ops (k_init cap pool batch cbatch) ops) in
    let answered := map fst (snd (krun_ops (k_init cap pool batch cbatch) ops)) in
    NoDup answered /\ (forall id, In id answered -> In id (enq_ids ops)) /\
    (k_is_done st = true -> Permutation (enq_ids ops) answered).
Proof. exact exactly_once. Qed.
Print Assumptions C12_exactly_once.

(* at every moment: requests handed in = requests answered + requests still inside (queue or live coroutine) *)
Theorem C12_accounting : forall ops st E R,
    Acc E R st -> NoDup (E ++ enq_ids ops) ->
    Acc (E ++ enq_ids ops) (R ++ map fst (snd (krun_ops st ops))) (fst (krun_ops st ops)).
Proof. exact run_acc. Qed.
Print Assumptions C12_accounting.

(* after shutdown is requested later requests are refused with the shutting-down error, for good *)
Theorem C12_shutdown_refuses : forall st id now, k_done st = true -> k_enq st id now = (st, Some ShuttingDown).
Proof. exact shutdown_refuses. Qed.
Theorem C12_shutdown_sticky : forall st o, k_done st = true -> k_done (fst (kapply st o)) = true.
Proof. exact shutdown_sticky. Qed.

(* every tick takes at least one request out of a non-empty queue: accepted requests are eventually dequeued *)
Theorem C12_progress : forall st, (1 <= k_batch st)%nat -> k_sq st <> [] ->
    (List.length (k_sq (fst (k_tick st))) < List.length (k_sq st))%nat.
Proof. exact tick_progress. Qed.
Print Assumptions C12_progress.

(* ---------- a run: queue of 3, pool of 1, batch of 10 (5 dequeued per tick) ---------- *)
Definition ops_ex : list kop :=
  [OEnq "q1" true; OEnq "q2" false; OEnq "q3" true; OEnq "q4" true;   (* q4: queue full *)
   OTick;                                                           (* q1 admitted and answered; q2, q3: pool full *)
   OEnq "q5" false; OShutdown; OEnq "q6" true;                      (* q6: shutting down *)
   OTick; OComplete "q5"; OTick].
Example C12_example :
  snd (krun_ops (k_init 3 1 10 1) ops_ex)
  = [("q4", ApiQueueFull); ("q2", SchedulerQueueFull); ("q3", SchedulerQueueFull); ("q1", AnswerNow);
     ("q6", ShuttingDown); ("q5", AnswerLater)]%string /\
  k_is_done (fst (krun_ops (k_init 3 1 10 1) ops_ex)) = true.
Proof. vm_compute. split; reflexivity. Qed.

(* the replay rejects a kernel that stops handling the dequeued batch at the first refused request *)
Example C12_replay_detects :
  kernel_mismatches [[KInit 3 1 10 1; KEnq "q1" true None; KEnq "q2" true None; KEnq "q3" true None;
                      KTick [("q1", AnswerNow); ("q2", SchedulerQueueFull)]%string false]] = [(0%nat, 4%nat, 0%Z)].
Proof. vm_compute. reflexivity. Qed.

(* ---------- the aio layer (Model/Aio.v; family `aio`: the production internal/aio driven from one goroutine with a
   scripted subsystem behind it): dispatch, the bounded completion queue, collection of completions ---------- *)
(* every call of the kernel thread into the aio layer returns: in particular a refused submission is completed at
   once and is never made to wait for room in the completion queue, whose only consumer is the caller itself *)
Theorem C12_aio_calls_return : forall size s o, snd (fst (Aio.astep size s o)) = true.
Proof. exact PAio.astep_returns. Qed.
Print Assumptions C12_aio_calls_return.

(* for every operation sequence and every queue size: dispatched = answered + queued + in flight (as multisets),
   hence once nothing is queued or in flight every dispatched submission has been completed exactly once *)
Theorem C12_aio_accounting : forall size ops s answered,
    NoDup (PAio.disp_ids ops ++ PAio.acct s answered) ->
    let '(s', ans) := PAio.arun_all size s ops in
    Permutation (PAio.acct s' (answered ++ ans)) (PAio.disp_ids ops ++ PAio.acct s answered).
Proof. exact PAio.aio_accounting. Qed.
Print Assumptions C12_aio_accounting.
Theorem C12_aio_exactly_once : forall size ops s' ans,
    NoDup (PAio.disp_ids ops) -> PAio.arun_all size Aio.a0 ops = (s', ans) -> Aio.a_cq s' = [] -> Aio.a_inflight s' = [] ->
    Permutation ans (PAio.disp_ids ops).
Proof. exact PAio.aio_exactly_once. Qed.
Print Assumptions C12_aio_exactly_once.

(* ---------- the loop as a whole (Model/Loop.v; family `loop`: the production System.Loop on its own goroutine with the
   production api and aio, requests and the shutdown injected while the loop sits in its select or while it waits for
   its signal goroutines) ---------- *)
(* what is demanded of every run: one answer per request handed to the api - processed when it came before the
   shutdown, refused after - and nothing else *)
Fixpoint enq_ids (ops : list Loop.lop) : list nat :=
  match ops with
  | [] => []
  | Loop.LEnq id :: ops' => id :: enq_ids ops'
  | _ :: ops' => enq_ids ops'
  end.
Theorem C12_loop_one_answer_each : forall ops down, map fst (Loop.loop_expected down ops) = enq_ids ops.
Proof.
  induction ops as [|o ops IH]; intros down; [reflexivity|]. destruct o; cbn; [f_equal; apply IH|apply IH|apply IH].
Qed.
Print Assumptions C12_loop_one_answer_each.
Theorem C12_loop_refused_after_shutdown : forall ops e, In e (Loop.loop_expected true ops) -> snd e = false.
Proof.
  induction ops as [|o ops IH]; intros e H; [contradiction|]. destruct o; cbn in H.
  - destruct H as [<-|H]; [reflexivity|apply IH; exact H].
  - apply IH; exact H.
  - apply IH; exact H.
Qed.
Print Assumptions C12_loop_refused_after_shutdown.
