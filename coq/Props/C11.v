(* C11 -- Background processing converges for every batch/queue configuration.
   THE THEOREMS OF THIS FILE ARE THE CLAIM; each is closed by `exact` of a lemma proved in Proofs/PC11.v.

   Executable statement: Model/MonC11.v -- over the final quiet phase of a run (clients have stopped, nothing fails,
   hand-offs succeed) nothing that is due stays due for more than a fixed number of ticks: 1101 overdue pending
   promises, 1102 expired locks, 1103 a schedule occurrence whose time has passed, 1104 enqueued / claimed tasks past
   their lease or unfinished tasks past their timeout, 1105 dispatchable tasks left undispatched.  It is evaluated on
   every implementation trace of the family `converge` (every kind of state, batch sizes 1..3 -- half of the runs with
   all batch sizes 1 --, faults and crashes before the quiet phase).

   Proved (progress per background cycle, for EVERY database and EVERY batch size >= 1 -- the bound of the property
   follows by iteration: n due items need at most n cycles, ceil(n/batch) when nothing new becomes due):
   - C11_sweep_reads: the time-out sweep reads exactly the first min(batch, #due) due promises (never none when one is due);
   - C11_timeout_progress: each winning time-out update it submits removes exactly one row from the due set;
   - C11_sweep_spawns_all: it submits one completion transaction per row it read;
   - C11_lock_sweep: one TimeoutLocks command leaves no lock whose lease has run out;
   - C11_task_sweep_reads: the lease sweep reads min(batch, #expired) expired enqueued / claimed tasks;
   - C11_bg_uses_config: every background coroutine asks with the configured batch size, at the tick time.
   Not proved (hence partial): the composition into one theorem over the interleaving system with failures
   ("transient failures delay but never prevent") and the bound on schedule catch-up (it needs the cron oracle to be
   strictly increasing); both are decided on the explored runs by the monitor. *)
From RV Require Import Mon MonC11 StorePromises PC11.
From Coq Require Import Lia.

Theorem C11_sweep_reads : forall d now lim,
    0 <= lim ->
    exists rs, ex_read_promises d now lim = RPromises (Z.of_nat (List.length rs)) (last_sort_p rs) rs /\
               rs = take (Z.to_nat lim) (due_rows now (promises d)) /\
               List.length rs = Nat.min (Z.to_nat lim) (List.length (due_rows now (promises d))).
Proof. exact read_promises_due. Qed.
Print Assumptions C11_sweep_reads.

Theorem C11_timeout_progress : forall d now p,
    prom_uniq d -> In p (promises d) -> due now p = true ->
    snd (ex_update_promise d (timeout_cmd p)) = 1 /\
    List.length (due_rows now (promises (fst (ex_update_promise d (timeout_cmd p))))) = (List.length (due_rows now (promises d)) - 1)%nat.
Proof. exact timeout_update_progress. Qed.
Print Assumptions C11_timeout_progress.

Theorem C11_sweep_spawns_all : forall ps now next, List.length (snd (spawn_timeouts ps now next)) = List.length ps.
Proof. exact sweep_spawns_all. Qed.

Theorem C11_lock_sweep : forall d time l, In l (locks (fst (ex_timeout_locks d time))) -> time < l_exp l.
Proof. exact lock_sweep_clears. Qed.
Print Assumptions C11_lock_sweep.

Theorem C11_task_sweep_reads : forall d time lim, 0 <= lim ->
    exists recs, ex_read_tasks d [TEnqueued; TClaimed] time lim = RTasks (Z.of_nat (List.length recs)) recs /\
                 List.length recs = Nat.min (Z.to_nat lim) (List.length (filter (expired_active time) (tasks d))).
Proof. exact read_tasks_due. Qed.
Print Assumptions C11_task_sweep_reads.

Theorem C11_bg_uses_config : forall cfg now next,
    o_subs (start_bg cfg BTimeoutPromises now next) = [SStore [ReadPromises now (c_pbatch cfg)]] /\
    o_subs (start_bg cfg BSchedulePromises now next) = [SStore [ReadSchedules now (c_sbatch cfg)]] /\
    o_subs (start_bg cfg BTimeoutLocks now next) = [SStore [TimeoutLocks now]] /\
    o_subs (start_bg cfg BEnqueueTasks now next) = [SStore [ReadEnqueueableTasks (c_tbatch cfg)]] /\
    o_subs (start_bg cfg BTimeoutTasks now next) = [SStore [ReadTasks [TEnqueued; TClaimed] now (c_tbatch cfg)]].
Proof. exact bg_uses_config. Qed.
Print Assumptions C11_bg_uses_config.

(* with batch size 1 a due row is still read *)
Example C11_batch_one :
  let p := mkP "p" 1 Pending [] "" [] "" 5 None None [] 1 None in
  let q := mkP "q" 2 Pending [] "" [] "" 6 None None [] 1 None in
  ex_read_promises (mkDb [p; q] [] [] [] [] 3 0 0) 10 1 = RPromises 1 1 [p].
Proof. vm_compute. reflexivity. Qed.

(* the monitor rejects a quiet phase in which an expired claimed task is never released *)
Definition trow := mkT "__invoke:p" 1 (Some "w"%string) TClaimed "p" "r" (mkMesg "invoke" "p" "p") 1000 1 0 5 3 1 None.
Definition dbad := mkDb [] [] [] [] [trow] 0 0 1.
Definition quiet_ticks (n : nat) : list (directive * list obs) :=
  map (fun k => (DTick (10 + Z.of_nat k) [] [] [], [])) (seq 0 n).
Example C11_monitor_detects :
  C11_mon 1 ((DExec [], [OExec [] (Some []) dbad]) :: quiet_ticks 50) = [(1104, 46%nat)].
Proof. vm_compute. reflexivity. Qed.
