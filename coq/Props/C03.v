(* C03 -- Create and complete are idempotent under retries; at most one takes effect.
   THE THEOREMS OF THIS FILE ARE THE CLAIM; each is closed by `exact` of a lemma proved in Proofs/.

   Executable statement: Model/MonC03.v (301: the answer to every create / complete is the one the idempotency rule
   prescribes for the promise it shows; 302: at most one create and one complete of an id is answered "took effect"),
   together with the row monitors of C01 (a repeat never changes a promise: rows only grow, completed rows are
   frozen, ids unique) and C04 (the only change a repeat may let happen, an overdue time-out, has exactly the
   time-out shape: no caller value, no caller key).

   Proved:
   - C03_rows: for EVERY schedule the row monitors are empty (all interleavings, failures, crash points).
   - C03_create_answers / C03_complete_answers: for EVERY coroutine state reachable from the start of a create /
     complete request and EVERY store answer, the response is the prescribed one and the next state is again such
     a state (an inductive invariant of the coroutine, including its restarts after a lost conditional write).
   - C03_answers_every_schedule: for EVERY schedule of the interleaving system the history monitor for clause 301
     (C03a_mon: it remembers which request each coroutine id carries) is empty: the answer to every create /
     create-with-task / complete request is the prescribed one, whatever is interleaved, lost, retried or crashed.
   - C03_took_effect_once (clause 302 at store level): over the whole life of a database - any number of batches of
     any transactions of accepted commands, failed batches rolled back - no id is reported created twice and no id
     is reported completed twice (rows affected <> 0), nothing that exists is reported created, nothing completed is
     reported completed.  C03_created_needs_report / C03_completed_needs_report: the create / complete coroutines
     answer 201 ONLY when resumed with such a report for the id of their request.
   - C03_at_most_one_takes_effect_every_schedule (clause 302 at trace level): for EVERY schedule of the interleaving
     system the history monitor C03b_mon (it remembers which request each coroutine id carries and which (kind, id)
     were already answered 201) is empty: a report lives in one completion slot of the completion queue or, once
     turned into an answer, in the monitor's list - never in two places - and a second report of the same kind for
     the same id cannot be produced (Proofs/PT03b.v).
   C03_mon (301 and 302 in one monitor) is evaluated on every implementation trace as well. *)
From RV Require Import Mon MonC01 MonC04 MonC03 SysInv PC01 PC04 PC03 PT03 StorePromises PC03once PT03b.

Theorem C03_rows : forall cfg sch, sch_wf sch -> C01_mon (events cfg sch) = [] /\ C04_mon_partial (events cfg sch) = [].
Proof. intros cfg sch H. split; [exact (C01_trace cfg sch H)|exact (C04_trace_partial cfg sch H)]. Qed.
Print Assumptions C03_rows.

Theorem C03_create_answers : forall cfg k c now next r,
    kcreate k r -> c_ok k c ->
    (forall rsp, o_resp (resume_seq cfg k c now next) = Some rsp -> c03_create r rsp = true) /\
    (forall k' n, o_state (resume_seq cfg k c now next) = CSeq k' n -> kcreate k' r).
Proof. exact create_step. Qed.
Print Assumptions C03_create_answers.

Theorem C03_complete_answers : forall cfg k c now next r,
    kcomplete k r -> c_ok k c ->
    (forall rsp, o_resp (resume_seq cfg k c now next) = Some rsp -> c03_complete r rsp = true) /\
    (forall k' n, o_state (resume_seq cfg k c now next) = CSeq k' n -> kcomplete k' r).
Proof. exact complete_step. Qed.
Print Assumptions C03_complete_answers.

Theorem C03_answers_every_schedule : forall cfg sch, sch_wf sch -> C03a_mon (events cfg sch) = [].
Proof. exact C03a_trace. Qed.
Print Assumptions C03_answers_every_schedule.

Theorem C03_at_most_one_takes_effect_every_schedule : forall cfg sch, sch_wf sch -> C03b_mon (events cfg sch) = [].
Proof. exact C03b_trace. Qed.
Print Assumptions C03_at_most_one_takes_effect_every_schedule.

Theorem C03_took_effect_once : forall bs, Forall batch_accepted bs ->
    NoDup (snd (life db0 bs)) /\
    forall d, prom_uniq d -> (forall id, In (true, id) (snd (life d bs)) -> forall q, In q (promises d) -> p_id q <> id) /\
                             (forall id, In (false, id) (snd (life d bs)) -> forall q, In q (promises d) -> p_id q = id -> p_state q = Pending).
Proof. exact took_effect_once. Qed.
Print Assumptions C03_took_effect_once.

Theorem C03_created_needs_report : forall cfg k c now next r rsp,
    kcreate k r -> o_resp (resume_seq cfg k c now next) = Some rsp -> status_of rsp = 20100 ->
    reports c = true /\ exists tc0 wt pc tc, k = KCreate_store r tc0 wt pc tc /\ cp_id pc = cpr_id r.
Proof. exact created_needs_report. Qed.
Print Assumptions C03_created_needs_report.

Theorem C03_completed_needs_report : forall cfg k c now next r rsp,
    kcomplete k r -> o_resp (resume_seq cfg k c now next) = Some rsp -> status_of rsp = 20100 ->
    reports c = true /\ exists p cmd, k = KComplete_up r p cmd 20100 /\ up_state cmd = cmr_state r.
Proof. exact completed_needs_report. Qed.
Print Assumptions C03_completed_needs_report.

Theorem C03_start : forall now next k n,
    (forall r, o_state (start_req (QCreatePromise r) now next) = CSeq k n -> kcreate k r) /\
    (forall r pid ttl, o_state (start_req (QCreatePromiseAndTask r pid ttl) now next) = CSeq k n -> kcreate k r) /\
    (forall r, o_state (start_req (QCompletePromise r) now next) = CSeq k n -> kcomplete k r).
Proof.
  intros now next k n. split; [|split].
  - intros r. apply start_create.
  - intros r pid ttl. apply start_create_task.
  - intros r. apply start_complete.
Qed.
Print Assumptions C03_start.

(* ---------- non-vacuity: a run with a retry that matches, one that does not, and a late complete ---------- *)
Definition cfg_ex : config := mkCfg "http://h" 1 1 1 1 (fun _ _ => None) true.
Definition cr (k : option string) (strict : bool) : create_promise_req := mkCPR "p" k strict [] "d" 100 [].
Definition sch_ex : list directive :=
  [ DTick 1 [] [] [("a"%string, QCreatePromise (cr (Some "k1"%string) false))];
    DExec [mkEx "a" 0 [] false];
    DTick 2 [("a"%string, 0%nat)] [] [];
    DRouter "a" 1 (Some None);
    DTick 3 [("a"%string, 1%nat)] [] [];
    DExec [mkEx "a" 2 [] false];
    DTick 4 [("a"%string, 2%nat)] [] [("b"%string, QCreatePromise (cr (Some "k1"%string) false));
                                       ("c"%string, QCreatePromise (cr (Some "k2"%string) false))];
    DExec [mkEx "b" 0 [] false; mkEx "c" 0 [] false];
    DTick 5 [("b"%string, 0%nat); ("c"%string, 0%nat)] [] [("d"%string, QCompletePromise (mkCMR "p" (Some "u1"%string) false Resolved [] "v"))];
    DExec [mkEx "d" 0 [] false];
    DTick 6 [("d"%string, 0%nat)] [] [];
    DExec [mkEx "d" 1 [] false];
    DTick 7 [("d"%string, 1%nat)] [] [("e"%string, QCompletePromise (mkCMR "p" (Some "u1"%string) true Rejected [] "w"));
                                       ("f"%string, QCompletePromise (mkCMR "p" (Some "u1"%string) false Rejected [] "w"))];
    DExec [mkEx "e" 0 [] false; mkEx "f" 0 [] false];
    DTick 8 [("e"%string, 0%nat); ("f"%string, 0%nat)] [] [] ].

Example C03_example :
  C03_mon (events cfg_ex sch_ex) = [] /\
  flat_map (fun e => flat_map (fun o => match o with OInst id _ (Some r) => [(id, status_of r)] | _ => [] end) (snd e)) (events cfg_ex sch_ex)
  = [("a", 20100); ("b", 20000); ("c", 40900); ("d", 20100); ("e", 40300); ("f", 20000)]%string.
Proof. vm_compute. split; reflexivity. Qed.

(* the monitor rejects a doctored history: a retry with a DIFFERENT key answered 20000, and a second "created" *)
Definition prow := mkP "p" 0 Pending [] "d" [] "" 100 (Some "k1"%string) None [] 1 None.
Definition bad_trace : list (directive * list obs) :=
  [ (DTick 1 [] [] [("a"%string, QCreatePromise (cr (Some "k1"%string) false))], [OInst "a" [] (Some (RspPromise 20100 (Some prow)))]);
    (DTick 2 [] [] [("b"%string, QCreatePromise (cr (Some "k2"%string) false))], [OInst "b" [] (Some (RspPromise 20000 (Some prow)))]);
    (DTick 3 [] [] [("c"%string, QCreatePromise (cr (Some "k1"%string) false))], [OInst "c" [] (Some (RspPromise 20100 (Some prow)))]) ].
Example C03_monitor_detects : C03_mon bad_trace = [(301, 1%nat); (302, 2%nat)] /\ C03a_mon bad_trace = [(301, 1%nat)] /\
                              C03b_mon bad_trace = [(302, 2%nat)] /\ C03b_mon (events cfg_ex sch_ex) = [].
Proof. vm_compute. repeat split; reflexivity. Qed.

(* non-vacuity of C03_took_effect_once: a life with a failed batch, a repeated create and a repeated completion *)
Definition cp_ex : create_promise_cmd := mkCP "p" [] "d" 100 None [] 1.
Definition up_ex (st : Z) : update_promise_cmd := mkUP "p" st [] "v" None 5.
Example C03_life_example :
  snd (life db0 [ [([CreatePromise cp_ex], [])]; [([CreatePromise cp_ex], []); (completion_txn (up_ex Resolved) 5, [])];
                  [(completion_txn (up_ex Rejected) 6, [])] ]) = [(true, "p"%string); (false, "p"%string)] /\
  Forall batch_accepted [ [([CreatePromise cp_ex], [])]; [(completion_txn (up_ex Resolved) 5, [])] ].
Proof. split; [vm_compute; reflexivity|repeat constructor]. Qed.
