(* C08 -- Tasks are born and finished with their promise; dispatch is disciplined.
   THE THEOREMS OF THIS FILE ARE THE CLAIM; each is closed by `exact` of a lemma proved in Proofs/PC08.v.

   The executable statement is the monitor family of Model/MonC08.v:
     C08_mon  (per commit / per tick)  801 803 804 805 806
     C08r_mon (router verdict -> shape of the creating transaction)  808
     C08s_mon (hand-off outcome -> what the dispatch cycle records)  807
   Proved for EVERY schedule of the system model: clause 803 (C08_holds_partial).  Clause 804 is REFUTED on the
   faithful model and on the code (DESIGN D18, known finding): C08_804_refuted.  The other clauses are decided
   on the schedules the correspondence check explores (evaluated on what the implementation showed). *)
From RV Require Import Mon MonC07 MonC08 SysInv PC08 PC08sel.

Theorem C08_holds_partial : forall cfg sch, sch_wf sch -> C08p_mon (events cfg sch) = [].
Proof. exact C08p_trace. Qed.
Print Assumptions C08_holds_partial.

(* the proved checker is the 803 component of the full one *)
Theorem C08_partial_is_803 : forall txns rs before after,
    In 803 (c08_exec txns rs before after) <-> c08_803 before after = false.
Proof.
  intros txns rs before after. unfold c08_exec. destruct (c08_803 before after); split; intros H.
  - exfalso. apply in_app_or in H. destruct H as [H|H].
    + destruct (_ && _) in H; [contradiction|]. destruct H as [H|[]]; discriminate.
    + cbn in H. destruct (forallb _ _) in H; [contradiction|]. destruct H as [H|[]]; discriminate.
  - discriminate.
  - reflexivity.
  - apply in_or_app. right. left. reflexivity.
Qed.
Print Assumptions C08_partial_is_803.

(* ---------- D18: the full monitor is refuted (a losing completion swallows the winner's notification) ---------- *)
Definition cfg_ex : config := mkCfg "http://h" 1 1 1 1 (fun _ _ => None) true.
Definition cr : create_promise_req := mkCPR "p" None false [] "" 100 [].
Definition sch_d18 : list directive :=
  [ DTick 1 [] [] [("a"%string, QCreatePromise cr)];
    DExec [mkEx "a" 0 [] false];
    DTick 2 [("a"%string, 0%nat)] [] [];
    DRouter "a" 1 (Some None);
    DTick 3 [("a"%string, 1%nat)] [] [];
    DExec [mkEx "a" 2 [] false];
    DTick 4 [("a"%string, 2%nat)] [] [("s"%string, QCreateSubscription "s1" "p" 200 """default""")];
    DExec [mkEx "s" 0 [] false];
    DTick 5 [("s"%string, 0%nat)] [] [];
    DExec [mkEx "s" 1 [] false];
    DTick 6 [("s"%string, 1%nat)] [] [("c1"%string, QCompletePromise (mkCMR "p" None false Resolved [] "v1"));
                                       ("c2"%string, QCompletePromise (mkCMR "p" None false Rejected [] "v2"))];
    DExec [mkEx "c1" 0 [] false; mkEx "c2" 0 [] false];          (* both read the promise pending *)
    DTick 7 [("c1"%string, 0%nat); ("c2"%string, 0%nat)] [] [];
    DExec [mkEx "c1" 1 [] false];                                (* the winner: the notification task is created *)
    DExec [mkEx "c2" 1 [] false] ].                              (* the loser: CompleteTasks p finishes it *)

Theorem C08_804_refuted : exists cfg sch, sch_wf sch /\ C08_mon (events cfg sch) = [(804, 14%nat)].
Proof.
  exists cfg_ex, sch_d18. split; [|vm_compute; reflexivity].
  repeat constructor; cbn; auto.
Qed.
Print Assumptions C08_804_refuted.

Example C08_d18_task_states :
  map (fun e => match snd e with [OExec _ _ d] => map (fun t => (t_id t, t_state t)) (tasks d) | _ => [] end)
      (skipn 13 (events cfg_ex sch_d18))
  = [[("__notify:p:s1"%string, TInit)]; [("__notify:p:s1"%string, TCompleted)]].
Proof. vm_compute. reflexivity. Qed.

(* non-vacuity: the proved clause is violated by a doctored commit that completes a promise and leaves its
   claimed task active *)
Definition prow (st : Z) := mkP "p" 1 st [] "" [] "" 100 None None [] 1 (if st =? 1 then None else Some 2).
Definition trow (st : Z) := mkT "__invoke:p" 1 (Some "w"%string) st "p" "r" (mkMesg "invoke" "p" "p") 100 1 0 5 9 1 None.
Definition bad_trace : list (directive * list obs) :=
  [ (DExec [], [OExec [] (Some []) (mkDb [prow 1] [] [] [] [trow 4] 0 0 0)]);
    (DExec [], [OExec [] (Some []) (mkDb [prow 2] [] [] [] [trow 4] 0 0 0)]) ].
Example C08_monitor_detects : C08p_mon bad_trace = [(803, 1%nat)] /\ C08_mon bad_trace = [(803, 1%nat)].
Proof. vm_compute. split; reflexivity. Qed.

(* clause 805 at store level, for ARBITRARY databases and batches (Proofs/PC08sel.v): whatever a dispatch cycle selects
   - whichever legal choice the SQL engine makes among the tasks of one root (the hint) - is legal: only unclaimed
   (init) tasks, at most [limit], at most one per root promise, none whose root has a task recorded enqueued or
   claimed; and this holds for every cycle of a batch (judged against the state before the batch for as long as no
   earlier transaction of the batch wrote tasks - exactly what the monitor evaluates).  The limits must not be
   negative (SQL reads a negative LIMIT as "no limit"): the coroutine asks for the configured task batch size; that
   it does so in every schedule is the part of 805 that stays evaluated. *)
Theorem C08_selection_legal : forall d lim hint d' r,
    (0 <= lim)%Z -> exec d (ReadEnqueueableTasks lim) hint = Some (d', r) ->
    d' = d /\ exists n recs, r = RTasks n recs /\ c08_select d true lim recs = [].
Proof. exact selection_spec. Qed.
Print Assumptions C08_selection_legal.

Theorem C08_batch_selections_legal : forall txns d rss d',
    limits_ok (map fst txns) -> exec_batch d txns = Some (d', rss) -> c08_selects d true (map fst txns) rss = [].
Proof. intros txns d rss d' Hl H. eapply batch_selections_ok; [|exact Hl|exact H]. intros _. reflexivity. Qed.
Print Assumptions C08_batch_selections_legal.
