(* C14 -- Search with cursors returns exactly the matching set, once each, newest first.
   THE THEOREMS OF THIS FILE ARE THE CLAIM; each is closed by `exact` of a lemma proved in Proofs/PC14.v.

   - C14_paging: over ANY strictly descending list, a client that follows the cursors (asks again while the page is
     full, with the sort id of the last row) receives, concatenated, exactly the rows below its first cursor: each
     once, in order, in pages of at most the page size -- for every page size >= 1 and every list length.
   - C14_store_page: the store's SearchPromises IS such a page over the matching rows (id pattern, state set, tags),
     newest first, for every database, query, page size and cursor.
   - C14_sort_ids: every database reachable by ANY command sequence keeps its promise rows strictly ascending by
     sort id (so "newest first" is a strict order and cursors are unambiguous).
   - C14_traversal: hence on a database that does not change during the traversal the pages concatenate to exactly
     the matching set, newest first.
   - C14_response: the coroutine hands out a cursor exactly when the store's page was full, and it is the sort id of
     the last row.
   Not proved (hence partial): the statement for databases that change between pages (the per-page monitor C14_mon
   is evaluated on such traces: 1401-1405), the lazily-timed-out view of overdue rows (decided by C04's 401), and
   the signature check of cursor tokens, which lives in the HTTP/gRPC layer outside this model. *)
From RV Require Import Mon MonC14 StorePromises PC14.
From Coq Require Import Lia.

Theorem C14_paging : forall (A : Type) (key : A -> Z) fuel lim s D,
    desc A key D -> (1 <= lim)%nat -> (List.length (filter (belowk A key s) D) < fuel)%nat ->
    List.concat (trav A key fuel lim s D) = filter (belowk A key s) D.
Proof. exact trav_complete. Qed.
Print Assumptions C14_paging.

Theorem C14_store_page : forall d idq states tags lim sid,
    tags_total tags d -> 0 <= lim ->
    ex_search_promises d idq states tags lim sid =
    let pg := page promise p_sort (Z.to_nat lim) sid (matching d idq states tags) in
    Some (RPromises (Z.of_nat (List.length pg)) (last_key promise p_sort pg) pg).
Proof. exact search_is_page. Qed.
Print Assumptions C14_store_page.

Theorem C14_sort_ids : sort_ok db0 /\ forall d c h d' r, exec d c h = Some (d', r) -> sort_ok d -> sort_ok d'.
Proof. split; [exact sort_ok_init|exact exec_sort_ok]. Qed.
Print Assumptions C14_sort_ids.

Theorem C14_traversal : forall d idq states tags lim fuel,
    sort_ok d -> (1 <= lim)%nat -> (List.length (matching d idq states tags) < fuel)%nat ->
    List.concat (trav promise p_sort fuel lim None (matching d idq states tags)) = matching d idq states tags.
Proof. exact search_traversal_complete. Qed.
Print Assumptions C14_traversal.

Theorem C14_response : forall cfg idq st tg lim sid rows last recs rest now next,
    filter (overdue now) recs = [] ->
    o_resp (resume_seq cfg (KSearchP idq st tg lim sid) (CStore (RPromises rows last recs :: rest)) now next)
    = Some (RspSearchP 20000 (map p_unsorted recs) (if rows =? lim then Some last else None)).
Proof. intros. cbn. rewrite H. reflexivity. Qed.
Print Assumptions C14_response.

(* ---------- a concrete traversal ---------- *)
Definition row (id : string) (sort st : Z) := mkP id sort st [] "" [] "" 100 None None [] 1 (if st =? 1 then None else Some 2).
Definition d_ex : db := mkDb [row "a1" 1 1; row "b" 2 1; row "a2" 3 2; row "a3" 5 1; row "a4" 6 1; row "a5" 9 1] [] [] [] [] 10 0 0.
Example C14_example :
  map (map p_id) (trav promise p_sort 10 2 None (matching d_ex "a*" [1] [])) = [["a5"; "a4"]; ["a3"; "a1"]; []]%string /\
  sort_ok d_ex.
Proof.
  split; [vm_compute; reflexivity|]. split.
  - repeat (constructor; [|repeat (constructor; [cbn; lia|])]); constructor.
  - repeat (constructor; [cbn; lia|]). constructor.
Qed.

(* the per-page monitor rejects the answer of a coroutine that drops the look-ahead row (cursor = sort id of a row
   that was not returned) *)
Definition bad_trace : list (directive * list obs) :=
  [ (DExec [], [OExec [] (Some []) d_ex]);
    (DTick 1 [] [] [("s"%string, QSearchPromises "a*" [1] [] 2 None)],
     [OInst "s" [] (Some (RspSearchP 20000 [p_unsorted (row "a5" 9 1); p_unsorted (row "a4" 6 1)] (Some 5)))]) ].
Example C14_monitor_detects : C14_mon bad_trace = [(1403, 1%nat)].
Proof. vm_compute. reflexivity. Qed.
