(* C13 -- No client input can crash or wedge the server or poison stored state.
   THE THEOREMS OF THIS FILE ARE THE CLAIM.

   Pieces, each tied to the code by its own correspondence family:
   - the kernel's demands on a request (Model/Valid.v req_asserts = the util.Assert conditions on request fields in the
     coroutines; family `asserts`: hostile kernel requests run through the production coroutines in child processes,
     the child dies exactly when req_asserts is false);
   - what the front ends let through (family `front`: hostile raw requests -- absent, null, empty, wrongly typed, huge,
     negative fields, garbage and FORGED-but-correctly-signed cursors -- through the production HTTP server and the
     production gRPC handlers with a stub kernel: no handler panics and every request that reaches the kernel
     satisfies req_wf_b);
   - C13_front_contract: req_wf_b implies req_asserts (no coroutine assertion can fire on a request a front end let
     through) and implies the well-formedness the trace theorems of C01-C10 assume (so their hypothesis sch_wf is
     what the front ends guarantee);
   - stored data: routing tags and receivers of every JSON shape resolve to a delivery or to a failed, retried
     hand-off, never to a panic or a lost completion (C13_no_lost_handoff = C19; family `route`); an id template
     that does not parse is skipped (C13_bad_template_skipped); hostile ids / data / tags pass through every request
     kind, the dispatch cycle and the sweeps of the production kernel without a crash (families `data`,
     `schedules`, `converge`; a crash of the real code is a violation) and background processing still converges
     afterwards (C11's monitor on `converge`: nothing wedges).
   Found and repaired by fix: commits: D3 D4 D6 D7a D7b D8 D10 D14 (see DESIGN section 0.3).
   Not proved (hence partial): that NO internal assertion of a multi-step coroutine can fire for any schedule (1301 is
   evaluated on every trace; two of the four assertion sites need an id-discipline invariant that is not proved);
   the wire layers (JSON / protobuf decoding) are the libraries'. *)
From RV Require Import Mon MonC13 MonC05 MonC03 MonC05h Valid Route Plug Discipline SysInv PC13 PT05 PT13 Spec.WitnessD2.

Theorem C13_front_contract :
  (forall q, req_wf_b q = true -> req_asserts q = true) /\
  (forall q, req_wf_b q = true -> req_wf q) /\
  (forall t dl bgs arrive, forallb (fun x => req_wf_b (snd x)) arrive = true -> dir_wf (DTick t dl bgs arrive)).
Proof. split; [exact wf_implies_asserts|]. split; [exact wf_implies_req_wf|exact arrivals_wf]. Qed.
Print Assumptions C13_front_contract.

(* every receiver, of whatever shape, is a delivery or a failed (retried) hand-off: never lost, never a panic *)
Theorem C13_no_lost_handoff : forall t ps r u b,
    send t ps r u b = OFail \/ exists ty data, send t ps r u b = ODeliver ty data b.
Proof.
  intros t ps r u b. unfold send. destruct (resolve t r u) as [[ty data]|]; [|left; reflexivity].
  destruct (plugin_state ty ps) as [[|]|]; [right; exists ty, data; reflexivity|left; reflexivity|left; reflexivity].
Qed.
Print Assumptions C13_no_lost_handoff.

Theorem C13_null_receiver_fails : forall t ps u b, send t ps RNone u b = OFail /\ route (Some TJsonOther) = RNone.
Proof. intros. split; reflexivity. Qed.

(* a schedule whose id template does not parse (or uses an unknown action) is skipped by the firing cycle *)
Theorem C13_bad_template_skipped : forall cfg now s,
    expand (s_pid s) (s_id s) (dec (s_next s)) = None -> schedule_child cfg now s = None.
Proof. intros cfg now s H. unfold schedule_child. destruct (c_next cfg (s_cron s) (s_next s)); [rewrite H|]; reflexivity. Qed.
Example C13_bad_template : forall id ts, expand "s.{{.timestamp" id ts = None /\ expand "{{.nope}}" id ts = None.
Proof. intros. split; reflexivity. Qed.
Print Assumptions C13_bad_template_skipped.

(* the front-end replay rejects a handler that lets a claim without process id through, and one that panics *)
Example C13_replay_detects :
  front_mismatches [[CFront true false false (Some (QClaimTask "t" 1 "" 5)); CFront false true false None;
                     CFront true false false (Some (QSearchPromises "*" [1] [] 0 None)); CFront false false true None]]
  = [(0%nat, 0%nat, 0); (0%nat, 1%nat, 0); (0%nat, 2%nat, 0)].
Proof. vm_compute. reflexivity. Qed.
Example C13_asserts_replay_detects :
  asserts_mismatches [[CAssert (QClaimTask "t" 1 "w" (-1)) false; CAssert (QClaimTask "t" 1 "w" 0) false]] = [(0%nat, 0%nat, 0)].
Proof. vm_compute. reflexivity. Qed.

(* the transport worker of the http plugin (Model/Plug.v; family `plug`: hostile receiver data - unusable json, urls
   that do not parse, unsupported schemes, refused connections, answers slower than the timeout, non-200 answers -
   through the production worker): every hand-off ends in a reported outcome, and only a receiver that answered 200
   counts as delivered; anything else is a failed hand-off, which C19_failed_is_retried turns into a retry *)
Theorem C13_transport_reports_an_outcome : forall cls,
    plug_expect cls <> PPanic /\ (plug_expect cls = PDelivered <-> cls = 0%Z).
Proof.
  intro cls. unfold plug_expect. destruct (cls =? 0)%Z eqn:E.
  - apply Z.eqb_eq in E. split; [discriminate|]. split; intros; [exact E|reflexivity].
  - apply Z.eqb_neq in E. split; [discriminate|]. split; intros H; [discriminate|contradiction].
Qed.
Print Assumptions C13_transport_reports_an_outcome.

(* REFUTED on the faithful model and on the code (DESIGN D2, known finding): "no client input can poison stored state".
   Ids containing ':' make the derived callback / task ids coincide; the schedule below (taken from an implementation
   trace of family `collide`, on which model and code agree event by event) ends in a store batch that fails as a whole:
   the completion of promise "a" tries to create the task "__notify:a:b:s1", which exists already. *)
Theorem C13_poison_refuted : exists cfg sch, sch_wf sch /\ C13p_mon (events cfg sch) = [(1302, 28%nat)].
Proof.
  exists cfg_d2, sch_d2. split; [|vm_compute; reflexivity].
  repeat constructor; cbn; auto.
Qed.
Print Assumptions C13_poison_refuted.

(* one of the internal assertions, for EVERY schedule (Proofs/PT05.v): the registration coroutine (create callback /
   create subscription) re-reads its promise after an insert that wrote nothing and asserts that the promise exists.
   The stateful monitor C05ya_mon judges an answer RspPanic to a registration request as a violation (c507_resp), and
   it is empty on every schedule: the promise was seen by the first read, promises are never deleted, so the re-read
   finds it whatever was committed in between.  (The sweep's "every row read is overdue" and the create-with-task
   "the completion is a create-with-task result" are proved below; "promise rows created = task rows created" of a
   create-with-task stays evaluated: clause 1301.) *)
Theorem C13_registration_never_asserts : forall cfg sch, sch_wf sch -> C05ya_mon (events cfg sch) = [].
Proof. exact C05ya_trace. Qed.
Print Assumptions C13_registration_never_asserts.

(* a second assertion site, for EVERY schedule (Proofs/PT13.v): the time-out sweep asserts that every promise it was
   handed is overdue.  In every state a schedule of well-formed requests can reach, the completion of a time-out read
   carries only rows that were pending and due at the time the read names, and it is delivered at a clock that is not
   before that time: the assertion cannot fire. *)
Theorem C13_sweep_never_asserts : forall cfg sch pe t l c now' next,
    sch_wf sch ->
    let s := state_after cfg (sys0 db0) sch in
    In pe (s_pend s) -> pd_sub pe = SStore [ReadPromises t l] -> pd_ready pe = Some c -> (s_now s <= now')%Z ->
    o_resp (resume_seq cfg KBgTimeoutP c now' next) <> Some RspPanic.
Proof. exact sweep_never_asserts. Qed.
Print Assumptions C13_sweep_never_asserts.

(* a third assertion site, for EVERY schedule (Proofs/PT13.v): createPromiseAndTask asserts that the completion it is
   handed is the result of a create-with-task command.  In every reachable state the submission awaited by a coroutine
   of a create-with-task request (wt = true) is the CreatePromiseAndTask command its continuation names, and a
   completion tells the truth about the command it answers: it is never the result of a plain create. *)
Theorem C13_create_with_task_never_asserts : forall cfg sch i r tc0 wt pc tc n pe c,
    sch_wf sch ->
    let s := state_after cfg (sys0 db0) sch in
    In i (s_insts s) -> i_st i = CSeq (KCreate_store r tc0 wt pc tc) n ->
    In pe (s_pend s) -> pd_id pe = i_id i -> pd_n pe = n -> pd_ready pe = Some c ->
    wt = true -> forall m rs, c <> CStore (RAlter m :: rs).
Proof. exact create_with_task_never_asserts. Qed.
Print Assumptions C13_create_with_task_never_asserts.
