(* C01 — Promise completion is write-once and creation fields are immutable.
   Only statements, closed by lemmas of Proofs/, and their assumptions. *)
From RV Require Import Mon MonC01 StoreLocks StorePromises Discipline SysInv PC01.

(* For EVERY schedule of well-formed requests (every set of concurrent create/complete/read/search/callback/
   claim requests, every interleaving and batching of their store transactions and of the background sweeps,
   every injected failure before/after commit, every crash point) the C01 monitor finds nothing:
   101/104 between any two consecutive commits every promise row is still there with identical id, sort id,
           parameter, timeout, tags, creation key and creation time; a completed row is identical in ALL
           columns; a pending row is unchanged or has moved to exactly one of resolved/rejected/canceled/
           timed-out; new rows are fresh pending promises (or promises created and completed in that batch);
   102     ids are unique;
   103/105 every promise body in every response (read, create, complete, search, callback, subscription,
           claim root/leaf) and in every dispatched message equals the durable row in all creation fields,
           and in state, value, completion time and completion key as soon as it shows a completed state. *)
Theorem C01_holds : forall cfg sch, sch_wf sch -> C01_mon (events cfg sch) = [].
Proof. exact C01_trace. Qed.
Print Assumptions C01_holds.

(* Store level, for ARBITRARY sequences of accepted commands (also ones no coroutine issues; "accepted" = the
   util.Assert preconditions of the store worker, i.e. an UpdatePromise names a final state). *)
Theorem C01_store_monotone : forall cs d d',
    prom_uniq d -> Forall (fun x => accepts (fst x) = true) cs -> exec_cmds d cs = Some d' -> prom_le d d' /\ prom_uniq d'.
Proof. exact exec_cmds_prom_le. Qed.
Print Assumptions C01_store_monotone.

(* a record a coroutine has ever read stays a view of the durable row whatever happens afterwards *)
Theorem C01_record_stays_valid : forall d d' p, prom_le d d' -> prec d p -> prec d' p.
Proof. exact prec_mono. Qed.
Print Assumptions C01_record_stays_valid.

(* Non-vacuity: two completions race on one promise; exactly one takes effect, the loser retries and reports
   the winner's state.  And a doctored trace (a completed row changes its value) on which the monitor raises 101. *)
Definition cfg_ex : config := mkCfg "http://h" 1 1 1 1 (fun _ _ => None) true.
Definition cr : create_promise_req := mkCPR "p" None false [] "x" 100 [].
Definition sch_ex : list directive :=
  [ DTick 1 [] [] [("a"%string, QCreatePromise cr)];
    DExec [mkEx "a" 0 [] false];
    DTick 2 [("a"%string, 0%nat)] [] [];
    DRouter "a" 1 (Some None);
    DTick 3 [("a"%string, 1%nat)] [] [];
    DExec [mkEx "a" 2 [] false];
    DTick 4 [("a"%string, 2%nat)] [] [("b"%string, QCompletePromise (mkCMR "p" None false Resolved [] "v1"));
                                       ("c"%string, QCompletePromise (mkCMR "p" None false Rejected [] "v2"))];
    DExec [mkEx "b" 0 [] false; mkEx "c" 0 [] false];
    DTick 5 [("b"%string, 0%nat); ("c"%string, 0%nat)] [] [];
    DExec [mkEx "c" 1 [] false; mkEx "b" 1 [] false];
    DTick 6 [("b"%string, 1%nat); ("c"%string, 1%nat)] [] [];
    DExec [mkEx "b" 2 [] false];
    DTick 7 [("b"%string, 2%nat)] [] [] ].

Example C01_example_wf : sch_wf sch_ex.
Proof. repeat constructor. Qed.

Example C01_example_runs :
  flat_map (fun e => flat_map (fun o => match o with OInst id _ (Some r) => [(id, status_of r,
                                          map (fun p => (p_state p, p_vd p)) (resp_bodies r))] | _ => [] end) (snd e))
           (events cfg_ex sch_ex)
  = [("a"%string, 20100, [(1, ""%string)]); ("c"%string, 20100, [(4, "v2"%string)]); ("b"%string, 40301, [(4, "v2"%string)])].
Proof. vm_compute. reflexivity. Qed.

Definition row (st : Z) (v : string) (c : option Z) := mkP "p" 1 st [] "x" [] v 100 None None [] 3 c.
Definition bad_trace : list (directive * list obs) :=
  [ (DExec [], [OExec [] (Some []) (mkDb [row 4 "v2" (Some 5)] [] [] [] [] 0 0 0)]);
    (DExec [], [OExec [] (Some []) (mkDb [row 4 "v1" (Some 5)] [] [] [] [] 0 0 0)]) ].
Example C01_monitor_detects : C01_mon bad_trace = [(101, 1%nat)].
Proof. vm_compute. reflexivity. Qed.
