(* C09 — Locks are mutually exclusive and leases are honoured.
   This file contains only statements, closed by lemmas proved in Proofs/, and their assumptions. *)
From RV Require Import Mon MonC09 StoreLocks Discipline SysInv PC09.

(* For EVERY schedule (every interleaving of acquire/release/heartbeat requests of any executions and
   processes with the expiry sweep, every batching, every injected failure, every crash point, every ttl and
   clock position) the C09 monitor finds nothing on the model's trace: at most one holder per resource (901);
   a lock row disappears or changes only when its lease has run out on the server clock or its own holder
   released / re-acquired / heartbeated it (902); rows appear only through an acquire, and a heartbeat only
   moves the expiry of rows of its own process (903); leases are "tick time + ttl" and the sweep uses the tick
   time (904). *)
Theorem C09_holds : forall cfg sch, sch_wf sch -> C09_mon (events cfg sch) = [].
Proof. exact C09_trace. Qed.
Print Assumptions C09_holds.

(* Store level, for ARBITRARY command sequences (also ones no coroutine issues). *)
Theorem C09_locks_unique : forall cs d d', locks_uniq d -> exec_cmds d cs = Some d' -> locks_uniq d'.
Proof. exact exec_cmds_uniq. Qed.
Print Assumptions C09_locks_unique.

Theorem C09_acquire_other_refused : forall d res exec proc ttl exp l,
    find_lock res d = Some l -> l_exec l <> exec -> ex_acquire_lock d res exec proc ttl exp = (d, 0).
Proof. exact acquire_other_refused. Qed.
Print Assumptions C09_acquire_other_refused.

Theorem C09_release_other_noop : forall d res exec,
    (forall l, In l (locks d) -> l_res l = res -> l_exec l <> exec) ->
    locks (fst (ex_release_lock d res exec)) = locks d /\ snd (ex_release_lock d res exec) = 0.
Proof. exact release_other_noop. Qed.
Print Assumptions C09_release_other_noop.

Theorem C09_heartbeat_never_creates_or_transfers : forall d proc time,
    map (fun l => (l_res l, l_exec l, l_proc l, l_ttl l)) (locks (fst (ex_heartbeat_locks d proc time))) =
    map (fun l => (l_res l, l_exec l, l_proc l, l_ttl l)) (locks d).
Proof. exact heartbeat_keeps_owners. Qed.
Print Assumptions C09_heartbeat_never_creates_or_transfers.

Theorem C09_sweep_only_expired : forall d time l,
    In l (locks d) -> (In l (locks (fst (ex_timeout_locks d time))) <-> time < l_exp l).
Proof. exact sweep_only_expired. Qed.
Print Assumptions C09_sweep_only_expired.

(* Non-vacuity: a concrete schedule in which e1 acquires r, e2 is refused, the sweep at the lease end removes
   the row and e2 then acquires; and a doctored trace on which the monitor does raise 902. *)
Definition cfg_ex : config := mkCfg "http://h" 1 1 1 1 (fun _ _ => None) true.
Definition sch_ex : list directive :=
  [ DTick 1 [] [] [("a"%string, QAcquireLock "r" "e1" "p" 2); ("b"%string, QAcquireLock "r" "e2" "p" 2)];
    DExec [mkEx "a" 0 [] false; mkEx "b" 0 [] false];
    DTick 3 [("a"%string, 0%nat); ("b"%string, 0%nat)] [("TimeoutLocks:3"%string, BTimeoutLocks)] [];
    DExec [mkEx "TimeoutLocks:3" 0 [] false];
    DTick 4 [("TimeoutLocks:3"%string, 0%nat)] [] [("c"%string, QAcquireLock "r" "e2" "p" 2)];
    DExec [mkEx "c" 0 [] false] ].

Example C09_example_wf : sch_wf sch_ex.
Proof. repeat constructor. Qed.

Example C09_example_runs :
  map (fun e => match snd e with [OExec _ (Some rs) d] => Some (rs, List.length (locks d)) | _ => None end) (events cfg_ex sch_ex)
  = [None; Some ([[RAlter 1]; [RAlter 0]], 1%nat); None; Some ([[RAlter 1]], 0%nat); None; Some ([[RAlter 1]], 1%nat)].
Proof. vm_compute. reflexivity. Qed.

Definition bad_trace : list (directive * list obs) :=
  [ (DTick 1 [] [] [], []);
    (DExec [], [OExec [[AcquireLock "r" "e1" "p" 5 6]] (Some [[RAlter 1]]) (mkDb [] [] [] [mkL "r" "e1" "p" 5 6] [] 0 0 0)]);
    (DExec [], [OExec [[AcquireLock "r" "e2" "p" 5 6]] (Some [[RAlter 1]]) (mkDb [] [] [] [mkL "r" "e2" "p" 5 6] [] 0 0 0)]) ].
Example C09_monitor_detects : C09_mon bad_trace = [(902, 2%nat)].
Proof. vm_compute. reflexivity. Qed.

(* The FULL property ("the holder keeps the lock until ... its lease (last acquire time plus ttl) has run out") is FALSE
   of the faithful model for one input shape: a ttl so large that time + ttl does not fit 64 bits (DESIGN D13, recorded
   in known_findings.json; the same requests fail on the implementation).  e1 acquires r for 2^63-1 ms at time 1000;
   the stored lease end is negative; the sweep at 1001 removes the lock; e2 acquires r at 1002. *)
Definition sch_d13 : list directive :=
  [ DTick 1000 [] [] [("a"%string, QAcquireLock "r" "e1" "p" 9223372036854775807)];
    DExec [mkEx "a" 0 [] false];
    DTick 1001 [("a"%string, 0%nat)] [("TimeoutLocks:1001"%string, BTimeoutLocks)] [];
    DExec [mkEx "TimeoutLocks:1001" 0 [] false];
    DTick 1002 [("TimeoutLocks:1001"%string, 0%nat)] [] [("b"%string, QAcquireLock "r" "e2" "p" 5)];
    DExec [mkEx "b" 0 [] false];
    DTick 1003 [("b"%string, 0%nat)] [] [] ].
Theorem C09_lease_refuted : exists cfg sch, sch_wf sch /\ C09w_mon (events cfg sch) <> [] /\
    (* and the consequence: both acquires are answered 201 within two milliseconds *)
    flat_map (fun e => flat_map (fun o => match o with OInst id _ (Some r) => [(id, status_of r)] | _ => [] end) (snd e)) (events cfg sch)
    = [("a"%string, 20100); ("b"%string, 20100)].
Proof. exists cfg_ex, sch_d13. split; [repeat constructor|]. vm_compute. split; [discriminate|reflexivity]. Qed.
Print Assumptions C09_lease_refuted.
