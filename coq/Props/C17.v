(* C17 — The Postgres backend decides and writes exactly what the SQLite backend does.
   There is no Postgres server in this sandbox: what is decided here is the TEXT of the statements, the
   argument lists bound to their placeholders and the scan targets, regenerated from postgres.go and sqlite.go on
   every run (Gen/Sql.v).  The meaning of the Postgres constructs themselves is trusted (DESIGN §8). *)
From Coq Require Import List String Bool.
From RV Require Import Gen.Sql Gen.Flow Spec.SqlRef Spec.FlowRef Spec.Dialect.
Import ListNotations.

(* every Postgres statement is the SQLite statement under the dialect map ($n -> ?, ::casts dropped, `locks.`
   qualifier dropped), except the five structurally different ones named in Dialect.structural_differences *)
Theorem C17_pg_eq_sqlite_modulo_dialect : same_modulo_dialect sqlite_stmts pg_stmts = true.
Proof. vm_compute. reflexivity. Qed.
Print Assumptions C17_pg_eq_sqlite_modulo_dialect.

(* both backends define the same statement names (DROP_TABLE is Postgres-only) *)
Theorem C17_same_statement_names :
  filter (fun k => negb (String.eqb k "DROP_TABLE_STATEMENT")) (names pg_stmts) = names sqlite_stmts.
Proof. vm_compute. reflexivity. Qed.
Print Assumptions C17_same_statement_names.

(* the statements that the model Store.exec was written against have not changed (SQLite = the backend the
   correspondence harness executes; Postgres = frozen reference reviewed against it) *)
Theorem C17_sqlite_statements_are_the_reference : sqlite_stmts = ref_sqlite_stmts.
Proof. vm_compute. reflexivity. Qed.
Print Assumptions C17_sqlite_statements_are_the_reference.
Theorem C17_pg_statements_are_the_reference : pg_stmts = ref_pg_stmts.
Proof. vm_compute. reflexivity. Qed.
Print Assumptions C17_pg_statements_are_the_reference.

(* the Go argument lists of every Exec/Query/QueryRow call and the Scan targets of both backends *)
Theorem C17_same_binding_sqlite : sqlite_calls = ref_sqlite_calls /\ sqlite_scans = ref_sqlite_scans.
Proof. vm_compute. split; reflexivity. Qed.
Print Assumptions C17_same_binding_sqlite.
Theorem C17_same_binding_pg : pg_calls = ref_pg_calls /\ pg_scans = ref_pg_scans.
Proof. vm_compute. split; reflexivity. Qed.
Print Assumptions C17_same_binding_pg.

(* every row read from either backend is scanned into the same record fields *)
Definition nonempty {A} (x : string * list A) : bool := match snd x with [] => false | _ => true end.
Theorem C17_same_scan_targets : filter nonempty sqlite_scans = filter nonempty pg_scans.
Proof. vm_compute. reflexivity. Qed.
Print Assumptions C17_same_scan_targets.

(* neither backend drops its data on shutdown by default (C06) *)
Theorem C17_default_keeps_data : sqlite_reset_default = "false"%string /\ pg_reset_default = "false"%string.
Proof. split; reflexivity. Qed.
Print Assumptions C17_default_keeps_data.

(* ---------- the Go control flow of the store workers (Gen/Flow.v: normal forms regenerated from both files) ----------
   Every method of the Postgres store worker has the same normal form as the method of the SQLite store worker --
   same guards, same statements in the same order, same row-count and record construction -- except the methods
   named in flow_exceptions, whose normal forms (in BOTH back ends) equal the reviewed references. *)
Fixpoint flow_of (f : string) (l : list (string * string)) : option string :=
  match l with [] => None | (k, v) :: l' => if String.eqb k f then Some v else flow_of f l' end.

Definition opt_str_eqb (a b : option string) : bool :=
  match a, b with Some x, Some y => String.eqb x y | None, None => true | _, _ => false end.

Theorem C17_same_worker_methods : map fst pg_flow = map fst sqlite_flow.
Proof. vm_compute. reflexivity. Qed.
Print Assumptions C17_same_worker_methods.

Theorem C17_same_control_flow :
  forallb (fun f => existsb (String.eqb f) flow_exceptions || opt_str_eqb (flow_of f pg_flow) (flow_of f sqlite_flow))
          (map fst sqlite_flow) = true.
Proof. vm_compute. reflexivity. Qed.
Print Assumptions C17_same_control_flow.

Theorem C17_flow_exceptions_are_the_reviewed_ones :
  forallb (fun f => opt_str_eqb (flow_of f pg_flow) (flow_of f ref_pg_flow) &&
                    opt_str_eqb (flow_of f sqlite_flow) (flow_of f ref_sqlite_flow)) flow_exceptions = true /\
  map fst ref_pg_flow = flow_exceptions /\ map fst ref_sqlite_flow = flow_exceptions.
Proof. vm_compute. repeat split; reflexivity. Qed.
Print Assumptions C17_flow_exceptions_are_the_reviewed_ones.
