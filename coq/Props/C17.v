(* C17 — The Postgres backend decides and writes exactly what the SQLite backend does.
   There is no Postgres server in this sandbox: what is decided here is the TEXT of the statements, the
   argument lists bound to their placeholders and the scan targets, regenerated from postgres.go and sqlite.go on
   every run (Gen/Sql.v).  The meaning of the Postgres constructs themselves is trusted (DESIGN §8). *)
From Coq Require Import List String Bool.
From RV Require Import Gen.Sql Spec.SqlRef Spec.Dialect.
Import ListNotations.

(* every Postgres statement is the SQLite statement under the dialect map ($n -> ?, ::casts dropped, `locks.`
   qualifier dropped), except the five structurally different ones named in Dialect.structural_differences *)
Theorem C17_pg_eq_sqlite_modulo_dialect : same_modulo_dialect sqlite_stmts pg_stmts = true.
Proof. vm_compute. reflexivity. Qed.
Print Assumptions C17_pg_eq_sqlite_modulo_dialect.

(* both backends define the same statement names (DROP_TABLE is Postgres-only) *)
Theorem C17_same_statement_names :
  filter (fun k => negb (String.eqb k "DROP_TABLE_STATEMENT")) (names pg_stmts) = names sqlite_stmts.
Proof. vm_compute. reflexivity. Qed.
Print Assumptions C17_same_statement_names.

(* the statements that the model Store.exec was written against have not changed (SQLite = the backend the
   correspondence harness executes; Postgres = frozen reference reviewed against it) *)
Theorem C17_sqlite_statements_are_the_reference : sqlite_stmts = ref_sqlite_stmts.
Proof. vm_compute. reflexivity. Qed.
Print Assumptions C17_sqlite_statements_are_the_reference.
Theorem C17_pg_statements_are_the_reference : pg_stmts = ref_pg_stmts.
Proof. vm_compute. reflexivity. Qed.
Print Assumptions C17_pg_statements_are_the_reference.

(* the Go argument lists of every Exec/Query/QueryRow call and the Scan targets of both backends *)
Theorem C17_same_binding_sqlite : sqlite_calls = ref_sqlite_calls /\ sqlite_scans = ref_sqlite_scans.
Proof. vm_compute. split; reflexivity. Qed.
Print Assumptions C17_same_binding_sqlite.
Theorem C17_same_binding_pg : pg_calls = ref_pg_calls /\ pg_scans = ref_pg_scans.
Proof. vm_compute. split; reflexivity. Qed.
Print Assumptions C17_same_binding_pg.

(* every row read from either backend is scanned into the same record fields *)
Definition nonempty {A} (x : string * list A) : bool := match snd x with [] => false | _ => true end.
Theorem C17_same_scan_targets : filter nonempty sqlite_scans = filter nonempty pg_scans.
Proof. vm_compute. reflexivity. Qed.
Print Assumptions C17_same_scan_targets.

(* neither backend drops its data on shutdown by default (C06) *)
Theorem C17_default_keeps_data : sqlite_reset_default = "false"%string /\ pg_reset_default = "false"%string.
Proof. split; reflexivity. Qed.
Print Assumptions C17_default_keeps_data.
