(* C07 — A task has at most one holder; leases are honoured, stale holders fenced.
   Only statements, closed by lemmas of Proofs/, and their assumptions. *)
From RV Require Import Mon MonC07 StoreLocks StorePromises StoreCallbacks Discipline SysInv PC05 PC07.

(* PROVED for EVERY schedule of well-formed requests (every interleaving of claim/complete/heartbeat requests of
   several workers - current, stale and future counters - with lease sweeps, dispatch cycles and promise
   completion, every ttl including 0, every failure and retry, every crash):
   700 a task never disappears and its id, sort id, root, receiver, message, timeout, creation time never change;
   701 counters never decrease;   702 a finished task (completed / timed out) never changes again;
   703 a counter increases only through a lease sweep of that task (enqueued/claimed -> init, counter + 1);
   704 a task becomes claimed only through a claim that names exactly its current counter and is guarded by
       {init, enqueued} - so after the counter has moved on, a claim or completion with the old counter cannot
       take effect, and a claimed task cannot be claimed again;
   705 the lease stored by a claim is "tick time + ttl"; heartbeats and the sweep's read use the tick time;
   706 a claimed task leaves its (claimed, counter) state only through its holder's completion, a sweep of
       exactly that (state, counter), or the completion of its root promise;
   708 while a task stays claimed with one counter its holder (process) does not change;
   709 a task that left its (claimed, counter) state is finished or carries a higher counter (so it can never
       be claimed with that counter again).
   NOT proved for all schedules (hence "partial"): the timing clause "not taken away before the lease has
   expired" - it needs the fifo order of the store queue and is stated by the history monitor C07x_mon (code
   707), evaluated on every implementation trace by the check; and the uniqueness of successful claim ANSWERS,
   which follows from 701-704 and "acknowledged after commit" (C06) but is not stated over responses here. *)
Theorem C07_holds_partial : forall cfg sch, sch_wf sch -> C07_mon (events cfg sch) = [].
Proof. exact C07_trace. Qed.
Print Assumptions C07_holds_partial.

(* store level: one disciplined UpdateTask explains the transition of the row it matches *)
Theorem C07_update_row : forall now d u t,
    cmd_at d now (UpdateTask u) -> ut_guard u t = true -> row_rel [UpdateTask u] t (update_t u t).
Proof. exact update_row. Qed.
Print Assumptions C07_update_row.

Theorem C07_transitions_compose : forall c cs t t1 t',
    tid_eq t t1 -> row_rel [c] t t1 -> row_rel cs t1 t' -> row_rel (c :: cs) t t'.
Proof. exact row_rel_comp. Qed.
Print Assumptions C07_transitions_compose.

(* Non-vacuity: a routed promise gets its task; a worker claims it with counter 1; a second claim with counter 1
   is refused 40305; the lease sweep after expiry bumps the counter; the old counter is then refused 40307. *)
Definition cfg_ex : config := mkCfg "http://h" 5 5 5 1 (fun _ _ => None) true.
Definition cr : create_promise_req := mkCPR "p" None false [] "" 100 [("resonate:invoke"%string, "w"%string)].
Definition sch_ex : list directive :=
  [ DTick 1 [] [] [("a"%string, QCreatePromise cr)];
    DExec [mkEx "a" 0 [] false];
    DTick 2 [("a"%string, 0%nat)] [] [];
    DRouter "a" 1 (Some (Some """w"""%string));
    DTick 3 [("a"%string, 1%nat)] [] [];
    DExec [mkEx "a" 2 [] false];
    DTick 4 [("a"%string, 2%nat)] [] [("c1"%string, QClaimTask "__invoke:p" 1 "w1" 2)];
    DExec [mkEx "c1" 0 [] false];
    DTick 5 [("c1"%string, 0%nat)] [] [];
    DExec [mkEx "c1" 1 [] false];
    DTick 6 [("c1"%string, 1%nat)] [] [("c2"%string, QClaimTask "__invoke:p" 1 "w2" 2)];
    DExec [mkEx "c1" 2 [] false; mkEx "c2" 0 [] false];
    DTick 8 [("c1"%string, 2%nat); ("c2"%string, 0%nat)] [("TimeoutTasks:8"%string, BTimeoutTasks)] [];
    DExec [mkEx "TimeoutTasks:8" 0 [] false];
    DTick 9 [("TimeoutTasks:8"%string, 0%nat)] [] [];
    DExec [mkEx "TimeoutTasks:8" 1 [] false];
    DTick 10 [("TimeoutTasks:8"%string, 1%nat)] [] [("c3"%string, QClaimTask "__invoke:p" 1 "w2" 2)];
    DExec [mkEx "c3" 0 [] false];
    DTick 11 [("c3"%string, 0%nat)] [] [] ].
Example C07_example_wf : sch_wf sch_ex.
Proof. repeat constructor. Qed.
Example C07_example_runs :
  flat_map (fun e => flat_map (fun o => match o with
                                        | OInst id _ (Some (RspClaim st t _ _ _ _)) => [(id, st, option_map t_counter t)]
                                        | _ => [] end) (snd e)) (events cfg_ex sch_ex)
  = [("c1"%string, 20100, Some 1); ("c2"%string, 40305, Some 1); ("c3"%string, 40307, Some 2)]
  /\ C07_mon (events cfg_ex sch_ex) = [] /\ C07x_mon (events cfg_ex sch_ex) = [].
Proof. vm_compute. repeat split; reflexivity. Qed.

Definition trow (st cnt : Z) (pid : option string) (exp : Z) :=
  mkT "t" 1 pid st "p" "" (mkMesg "invoke" "p" "p") 100 cnt 0 2 exp 1 None.
Definition prow := mkP "p" 1 1 [] "" [] "" 100 None None [] 1 None.
Definition bad_trace : list (directive * list obs) :=
  [ (DTick 4 [] [] [], []);
    (DExec [], [OExec [] (Some []) (mkDb [prow] [] [] [] [trow 4 1 (Some "w1"%string) 9] 0 0 0)]);
    (DExec [], [OExec [[UpdateTask (mkUT "t" (Some "w2"%string) 4 1 0 2 9 None [1; 2] 1)]] (Some [])
                      (mkDb [prow] [] [] [] [trow 4 1 (Some "w2"%string) 9] 0 0 0)]) ].
Example C07_monitor_detects : C07_mon bad_trace = [(708, 2%nat)].   (* a second claim took the task from its holder *)
Proof. vm_compute. reflexivity. Qed.
Definition bad_trace2 : list (directive * list obs) :=
  [ (DTick 4 [] [] [], []);
    (DExec [], [OExec [] (Some []) (mkDb [prow] [] [] [] [trow 4 1 (Some "w1"%string) 9] 0 0 0)]);
    (DExec [], [OExec [] (Some []) (mkDb [prow] [] [] [] [trow 1 1 None 0] 0 0 0)]) ].
Example C07_monitor_detects2 : C07_mon bad_trace2 = [(706, 2%nat); (709, 2%nat)] /\ C07x_mon bad_trace2 = [(707, 2%nat)].
Proof. vm_compute. split; reflexivity. Qed.
