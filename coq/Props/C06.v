(* C06 -- Acknowledged writes are durable; requests are all-or-nothing across crashes.
   THE THEOREMS OF THIS FILE ARE THE CLAIM; each is closed by `exact` of a lemma proved in Proofs/.

   A schedule of the system model may contain a crash (DCrash) between ANY two steps: before or after any store
   commit, between any two steps of any coroutine, in the middle of a background sweep, repeatedly.  Hence a
   theorem "for every schedule the commit invariant holds" is a theorem for every crash point.
   - C06_crash: a crash loses the kernel's volatile state (coroutines, queues, in-flight responses) and nothing
     else: the database is the one before the crash.
   - C06_holds_partial: for every schedule, (601) an execution round without commands -- what a restarted server
     finds -- shows the tables exactly as they were; no completed promise keeps a registration and no registration
     disappears without leaving its task (501-503); when a promise leaves pending the tasks of that root are finished
     in the same commit (803); rows only grow, answers and dispatched messages show durable rows (101-105): an
     acknowledged write is in the database when it is acknowledged and stays.
   - C06_default_keeps_data: both store back ends keep their data on shutdown by default (reset = false), read
     from the source by the translator.
   What the model cannot exhibit (hence partial): the byte-level durability of SQLite/Postgres commits under a
   real process kill or power loss (fsync, journal recovery) is the database's, not resonate's; the correspondence
   check restarts the kernel on the same database file without closing the old connection first and compares what
   the restarted server finds with the model. *)
From RV Require Import Mon MonC06 MonC01 MonC05 MonC08 SysInv PC06 PC01 PC05 PC08 Commit.
From RV Require Sql.

Theorem C06_crash : forall cfg s s' ob,
    step cfg s DCrash = Some (s', ob) -> s_db s' = s_db s /\ s_insts s' = [] /\ s_pend s' = [] /\ ob = [].
Proof. exact crash_keeps_db. Qed.
Print Assumptions C06_crash.

Theorem C06_holds_partial : forall cfg sch, sch_wf sch ->
    C06_mon (events cfg sch) = [] /\ C05_mon (events cfg sch) = [] /\ C08p_mon (events cfg sch) = [] /\ C01_mon (events cfg sch) = [].
Proof.
  intros cfg sch H. split; [exact (C06_trace cfg sch H)|]. split; [exact (C05_trace cfg sch H)|].
  split; [exact (C08p_trace cfg sch H)|exact (C01_trace cfg sch H)].
Qed.
Print Assumptions C06_holds_partial.

Theorem C06_default_keeps_data : Sql.sqlite_reset_default = "false"%string /\ Sql.pg_reset_default = "false"%string.
Proof. split; reflexivity. Qed.
Print Assumptions C06_default_keeps_data.

(* ---------- a run with a crash between the completion's commit and its acknowledgement ---------- *)
Definition cfg_ex : config := mkCfg "http://h" 1 1 1 1 (fun _ _ => None) true.
Definition cr : create_promise_req := mkCPR "p" None false [] "" 100 [].
Definition sch_ex : list directive :=
  [ DTick 1 [] [] [("a"%string, QCreatePromise cr)];
    DExec [mkEx "a" 0 [] false];
    DTick 2 [("a"%string, 0%nat)] [] [];
    DRouter "a" 1 (Some None);
    DTick 3 [("a"%string, 1%nat)] [] [];
    DExec [mkEx "a" 2 [] false];
    DTick 4 [("a"%string, 2%nat)] [] [("c1"%string, QCreateCallback "p" "r1" 200 """default""")];
    DExec [mkEx "c1" 0 [] false];
    DTick 5 [("c1"%string, 0%nat)] [] [];
    DExec [mkEx "c1" 1 [] false];
    DTick 6 [("c1"%string, 1%nat)] [] [("cm"%string, QCompletePromise (mkCMR "p" None false Resolved [] "v"))];
    DExec [mkEx "cm" 0 [] false];
    DTick 7 [("cm"%string, 0%nat)] [] [];
    DExec [mkEx "cm" 1 [] false];       (* the completion commits ... *)
    DCrash;                             (* ... and the server dies before answering *)
    DExec [];                           (* what the restarted server finds *)
    DTick 9 [] [] [("rd"%string, QReadPromise "p")];
    DExec [mkEx "rd" 0 [] false];
    DTick 10 [("rd"%string, 0%nat)] [] [] ].
Example C06_example :
  C06_mon (events cfg_ex sch_ex) = [] /\
  map (fun e => match snd e with [OExec _ _ d] => Some (map p_state (promises d), List.length (callbacks d), map t_id (tasks d)) | _ => None end)
      (firstn 2 (skipn 13 (events cfg_ex sch_ex)))
  = [Some ([Resolved], 0%nat, ["__resume:r1:p"%string]); None] /\
  match snd (nth 15 (events cfg_ex sch_ex) (DCrash, [])) with [OExec [] _ d] => map p_state (promises d) | _ => [] end = [Resolved] /\
  flat_map (fun e => flat_map (fun o => match o with OInst id _ (Some r) => [(id, status_of r)] | _ => [] end) (snd e)) (events cfg_ex sch_ex)
  = [("a", 20100); ("c1", 20100); ("rd", 20000)]%string.
Proof. vm_compute. repeat split; reflexivity. Qed.

(* the monitor rejects a restart that finds fewer rows than were committed *)
Definition prow := mkP "p" 1 1 [] "" [] "" 100 None None [] 1 None.
Definition bad_trace : list (directive * list obs) :=
  [ (DExec [], [OExec [[CreatePromise (mkCP "p" [] "" 100 None [] 1)]] (Some [[RAlter 1]]) (mkDb [prow] [] [] [] [] 1 0 0)]);
    (DCrash, []);
    (DExec [], [OExec [] (Some []) (mkDb [] [] [] [] [] 0 0 0)]) ].
Example C06_monitor_detects : C06_mon bad_trace = [(601, 2%nat)].
Proof. vm_compute. reflexivity. Qed.

(* a batch whose commit cannot be made (family `commit`: a reader holds the database file while the production store
   executes the batch) is reported as failed and leaves the durable state untouched; and whatever the store
   acknowledges is exactly what exec_batch made durable: acknowledged implies durable, failed implies unchanged *)
Theorem C06_acknowledged_is_durable : forall d blocked txns d' cs rs snap,
    commit_outcome d blocked txns = (d', OExec cs rs snap) ->
    snap = d' /\ match rs with
                 | Some rss => exec_batch d txns = Some (d', rss)
                 | None => d' = d
                 end.
Proof.
  intros d blocked txns d' cs rs snap H. unfold commit_outcome in H.
  destruct (exec_batch d txns) as [[d1 rss]|] eqn:E.
  - destruct (blocked && negb (batch_reads_only txns)); inversion H; subst; split; reflexivity.
  - inversion H; subst. split; reflexivity.
Qed.
Print Assumptions C06_acknowledged_is_durable.
