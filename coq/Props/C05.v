(* C05 — No lost wake-ups: registrations become tasks atomically with completion.
   Only statements, closed by lemmas of Proofs/, and their assumptions. *)
From RV Require Import Mon MonC05 MonC03 MonC05h StoreLocks StorePromises StoreCallbacks Discipline SysInv PC05 PT05.

(* PROVED for EVERY schedule of well-formed requests (every interleaving of registrations with every completion
   path - explicit completion, lazy time-out by read/create/complete/search, background sweep -, both orders
   inside one store batch, every failure and crash between the steps, every number of registrations, every id):
   501 no callback row on a missing or completed promise (no registration outlives its promise);
   502 callback ids and task ids are unique (re-registering never yields a second task);
   503 a registration only ever disappears by leaving its task - same id, root, receiver, message, timeout -
       in the very same commit.
   This is the property except for its clause about the ANSWER to a registration request ("an acknowledged
   registration either reports the promise completed or leaves a registration"), which is stated by the
   monitor C05x_mon (code 506), evaluated on every implementation trace by the check, and NOT proved for all
   schedules: hence the name.  On the pinned tree that clause was violated (DESIGN D1); the defect is repaired
   by a "fix:" commit and the former counterexample schedule is kept below as a regression example. *)
Theorem C05_holds_partial : forall cfg sch, sch_wf sch -> C05_mon (events cfg sch) = [].
Proof. exact C05_trace. Qed.
Print Assumptions C05_holds_partial.

(* clause 507 for EVERY schedule (Proofs/PT05.v): a registration request (callback / subscription) that is answered
   "nothing new, the promise is still pending" is durably registered at that moment - the callback row with the derived
   id exists, or the task that row became.  The invariant follows the registration coroutine through its three
   store round trips (read, guarded insert, re-read after an insert that wrote nothing - the repair of D1) and carries,
   across every interleaved commit, the monotone fact "registered, or the promise is no longer pending". *)
Theorem C05_registration_answers_every_schedule : forall cfg sch, sch_wf sch -> C05ya_mon (events cfg sch) = [].
Proof. exact C05ya_trace. Qed.
Print Assumptions C05_registration_answers_every_schedule.

(* the completion transaction, for ARBITRARY databases satisfying the invariant and arbitrary arguments *)
Theorem C05_completion_converts : forall d u t hs d' rs,
    CbInv d -> final_state (up_state u) = true ->
    exec_txn d (completion_txn u t) hs = Some (d', rs) ->
    CbInv d' /\ task_le d d' /\ prom_le d d' /\
    (forall c, In c (callbacks d) -> cb_pid c = up_id u -> exists x, In x (tasks d') /\ task_for c x) /\
    (forall c, In c (callbacks d') <-> (In c (callbacks d) /\ cb_pid c <> up_id u)).
Proof. exact completion_txn_ok. Qed.
Print Assumptions C05_completion_converts.

(* derived ids are injective when the first component has no ':' ... *)
Theorem C05_callback_id_injective : forall r l r' l', has_colon r = false -> has_colon r' = false ->
    callback_id r l = callback_id r' l' -> r = r' /\ l = l'.
Proof. exact callback_id_inj. Qed.
Print Assumptions C05_callback_id_injective.
Theorem C05_subscription_id_injective : forall p i p' i', has_colon p = false -> has_colon p' = false ->
    subscription_id p i = subscription_id p' i' -> p = p' /\ i = i'.
Proof. exact subscription_id_inj. Qed.
Print Assumptions C05_subscription_id_injective.
(* ... and NOT in general (DESIGN D2: the second pair's registration is silently dropped) *)
Theorem C05_derived_id_injective_refuted : exists r l r' l', (r, l) <> (r', l') /\ callback_id r l = callback_id r' l'.
Proof. exists "a:b"%string, "c"%string, "a"%string, "b:c"%string. split; [discriminate|reflexivity]. Qed.
Print Assumptions C05_derived_id_injective_refuted.

(* The former counterexample (DESIGN D1): registration and completion both read the promise pending, the
   completion commits first, the guarded insert affects 0 rows.  Before the fix the answer was "20000, promise
   PENDING, no callback" (nothing registered, no task ever); now the promise is read again and the answer shows
   it completed. *)
Definition cfg_ex : config := mkCfg "http://h" 1 1 1 1 (fun _ _ => None) true.
Definition cr : create_promise_req := mkCPR "p" None false [] "" 100 [].
Definition sch_d1 : list directive :=
  [ DTick 1 [] [] [("a"%string, QCreatePromise cr)];
    DExec [mkEx "a" 0 [] false];
    DTick 2 [("a"%string, 0%nat)] [] [];
    DRouter "a" 1 (Some None);
    DTick 3 [("a"%string, 1%nat)] [] [];
    DExec [mkEx "a" 2 [] false];
    DTick 4 [("a"%string, 2%nat)] [] [("cb"%string, QCreateCallback "p" "root" 200 """default""");
                                       ("cm"%string, QCompletePromise (mkCMR "p" None false Resolved [] "v"))];
    DExec [mkEx "cb" 0 [] false; mkEx "cm" 0 [] false];          (* both read the promise pending *)
    DTick 5 [("cb"%string, 0%nat); ("cm"%string, 0%nat)] [] [];
    DExec [mkEx "cm" 1 [] false];                                (* the completion commits first *)
    DExec [mkEx "cb" 1 [] false];                                (* the guarded insert affects 0 rows *)
    DTick 6 [("cb"%string, 1%nat); ("cm"%string, 1%nat)] [] [];
    DExec [mkEx "cb" 2 [] false];                                (* the promise is read again *)
    DTick 7 [("cb"%string, 2%nat)] [] [] ].

Example C05_d1_fixed :
  C05_full_mon (events cfg_ex sch_d1) = [] /\
  flat_map (fun e => flat_map (fun o => match o with
                                        | OInst "cb" _ (Some (RspCallback st (Some p) cb)) => [(st, p_state p, cb)]
                                        | _ => [] end) (snd e)) (events cfg_ex sch_d1) = [(20000, Resolved, None)].
Proof. vm_compute. split; reflexivity. Qed.

(* Non-vacuity of the proved part: two registrations on one promise are converted by its completion; and a
   doctored trace (completion commit that drops a registration) on which the monitor raises 501? no: 503. *)
Definition sch_ok : list directive :=
  [ DTick 1 [] [] [("a"%string, QCreatePromise cr)];
    DExec [mkEx "a" 0 [] false];
    DTick 2 [("a"%string, 0%nat)] [] [];
    DRouter "a" 1 (Some None);
    DTick 3 [("a"%string, 1%nat)] [] [];
    DExec [mkEx "a" 2 [] false];
    DTick 4 [("a"%string, 2%nat)] [] [("c1"%string, QCreateCallback "p" "r1" 200 """default""");
                                       ("c2"%string, QCreateSubscription "s" "p" 200 """default""")];
    DExec [mkEx "c1" 0 [] false; mkEx "c2" 0 [] false];
    DTick 5 [("c1"%string, 0%nat); ("c2"%string, 0%nat)] [] [];
    DExec [mkEx "c1" 1 [] false; mkEx "c2" 1 [] false];
    DTick 6 [("c1"%string, 1%nat); ("c2"%string, 1%nat)] [] [("cm"%string, QCompletePromise (mkCMR "p" None false Resolved [] "v"))];
    DExec [mkEx "cm" 0 [] false];
    DTick 7 [("cm"%string, 0%nat)] [] [];
    DExec [mkEx "cm" 1 [] false] ].
Example C05_example_runs :
  map (fun e => match snd e with [OExec _ _ d] => Some (List.length (callbacks d), map t_id (tasks d)) | _ => None end)
      (skipn 9 (events cfg_ex sch_ok))
  = [Some (2%nat, []); None; Some (2%nat, []); None; Some (0%nat, ["__notify:p:s"%string; "__resume:r1:p"%string])].
Proof. vm_compute. reflexivity. Qed.

Definition cbrow := mkCb "__resume:r:p" "p" "r" "x" (mkMesg "resume" "r" "p") 9 1.
Definition prow (st : Z) := mkP "p" 1 st [] "" [] "" 100 None None [] 1 (if st =? 1 then None else Some 2).
Definition bad_trace : list (directive * list obs) :=
  [ (DExec [], [OExec [] (Some []) (mkDb [prow 1] [cbrow] [] [] [] 0 0 0)]);
    (DExec [], [OExec [] (Some []) (mkDb [prow 2] [] [] [] [] 0 0 0)]) ].
Example C05_monitor_detects : C05_mon bad_trace = [(503, 1%nat)].
Proof. vm_compute. reflexivity. Qed.
