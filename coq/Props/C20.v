(* C20 -- Client data is stored and returned exactly as supplied.
   THE THEOREMS OF THIS FILE ARE THE CLAIM.

   In the model every client datum (ids, parameter and value bytes, header and tag maps, receiver descriptions,
   timeouts) is an opaque string / map / integer that no definition inspects except by exact comparison, so
   "returned exactly as supplied" is: (1) the create / complete coroutines copy the request's fields unchanged
   into the store command (C20_request_to_command, C20_complete_to_row), (2) the store writes the command's fields
   unchanged into a new row (C20_command_to_row) and never changes them afterwards and every answer, search result,
   claim payload and dispatched message shows the durable row (C20_row_to_answers = the C01 theorem, for every
   schedule), (3) ids are compared exactly (C20_ids_exact) and the ids the server derives embed the client id
   unaltered and injectively (C20_derived_ids). The correspondence check sends hostile data (slashes, separators,
   markup, non-ASCII, control characters, binary bytes, template syntax, 300-character ids, timeouts up to 2^63-1)
   through every request kind of the production kernel + SQLite and compares every observation with the model.
   What is NOT covered (hence partial): the HTTP / gRPC encoding layers (JSON, base64, protobuf, URL path escaping
   of ids: DESIGN D16) and a restart between write and read over a real socket; the kernel-level restart is C06.
   Found D5 (scheduled promise ids were HTML-escaped) and D4, repaired by fix: commits. *)
From RV Require Import Mon MonC01 MonC03 StorePromises SysInv PC01 PC03.
From Coq Require Import Lia.

Theorem C20_request_to_command : forall cfg k c now next r,
    kcreate k r -> c_ok k c ->
    (forall rsp, o_resp (resume_seq cfg k c now next) = Some rsp -> c03_create r rsp = true) /\
    (forall k' n, o_state (resume_seq cfg k c now next) = CSeq k' n -> kcreate k' r).
Proof. exact create_step. Qed.
Print Assumptions C20_request_to_command.

Theorem C20_complete_to_row : forall cfg k c now next r,
    kcomplete k r -> c_ok k c ->
    (forall rsp, o_resp (resume_seq cfg k c now next) = Some rsp -> c03_complete r rsp = true) /\
    (forall k' n, o_state (resume_seq cfg k c now next) = CSeq k' n -> kcomplete k' r).
Proof. exact complete_step. Qed.

(* the store writes the command's columns unchanged *)
Theorem C20_command_to_row : forall d c,
    find_promise (cp_id c) d = None ->
    exists p, promises (fst (ex_create_promise d c)) = (promises d ++ [p])%list /\
              p_id p = cp_id c /\ p_ph p = cp_ph c /\ p_pd p = cp_pd c /\ p_timeout p = cp_timeout c /\
              p_ikc p = cp_ikey c /\ p_tags p = cp_tags c /\ p_created p = cp_created c /\ p_state p = Pending.
Proof.
  intros d c H. unfold ex_create_promise. rewrite H. cbn. eexists. split; [reflexivity|]. cbn. repeat split; reflexivity.
Qed.
Print Assumptions C20_command_to_row.

Theorem C20_update_writes_value : forall c p, upd_guard c p = true ->
    p_vh (complete_p c p) = up_vh c /\ p_vd (complete_p c p) = up_vd c /\ p_iku (complete_p c p) = up_ikey c /\
    p_id (complete_p c p) = p_id p /\ p_ph (complete_p c p) = p_ph p /\ p_pd (complete_p c p) = p_pd p /\
    p_tags (complete_p c p) = p_tags p /\ p_timeout (complete_p c p) = p_timeout p.
Proof. intros. cbn. repeat split; reflexivity. Qed.

(* never changed afterwards; every answer, search result, claim payload and dispatched message shows the row *)
Theorem C20_row_to_answers : forall cfg sch, sch_wf sch -> C01_mon (events cfg sch) = [].
Proof. exact C01_trace. Qed.
Print Assumptions C20_row_to_answers.

(* ids are compared exactly: case- and whitespace-sensitive, no normalisation *)
Theorem C20_ids_exact : forall id d p, find_promise id d = Some p -> p_id p = id.
Proof. intros id d p H. unfold find_promise in H. apply find_some in H. destruct H as [_ H]. apply String.eqb_eq. exact H. Qed.
Example C20_ids_distinct :
  String.eqb "A" "a" = false /\ String.eqb " a" "a" = false /\ String.eqb "a/b" "a%2Fb" = false /\ String.eqb "a" "a " = false.
Proof. repeat split; reflexivity. Qed.

(* derived ids embed the client id unaltered, and distinct client ids give distinct derived ids *)
Lemma append_inj_l : forall p a b, (p ++ a)%string = (p ++ b)%string -> a = b.
Proof. induction p as [|c p IH]; intros a b H; cbn in H; [exact H|]. inversion H. apply IH; assumption. Qed.

Theorem C20_derived_ids : forall a b,
    invoke_task_id a = ("__invoke:" ++ a)%string /\
    (invoke_task_id a = invoke_task_id b -> a = b) /\
    (forall r, callback_id r a = ("__resume:" ++ r ++ ":" ++ a)%string) /\
    (forall p, subscription_id p a = ("__notify:" ++ p ++ ":" ++ a)%string) /\
    (forall url k n, href url k a n = (url ++ "/tasks/" ++ k ++ "/" ++ a ++ "/" ++ dec n)%string).
Proof.
  intros a b. split; [reflexivity|]. split; [apply append_inj_l|]. repeat split; reflexivity.
Qed.
Print Assumptions C20_derived_ids.

(* the id template embeds the schedule id unaltered (whatever characters it contains) *)
Lemma append_nil_r : forall s, (s ++ "")%string = s.
Proof. induction s as [|c s IH]; cbn; [reflexivity|]. rewrite IH. reflexivity. Qed.

Theorem C20_template_embeds_id : forall id ts,
    expand "{{.id}}.{{.timestamp}}" id ts = Some (id ++ "." ++ ts)%string /\
    expand "{{.id}}" id ts = Some id /\
    expand "x/{{.id}}/y" id ts = Some ("x/" ++ id ++ "/y")%string.
Proof.
  intros id ts. unfold expand. cbn. rewrite !append_nil_r. repeat split; reflexivity.
Qed.
Print Assumptions C20_template_embeds_id.

(* ---------- a run with hostile data ---------- *)
Definition cfg_ex : config := mkCfg "http://h" 1 1 1 1 (fun _ _ => None) true.
Definition nasty : string := "<a/b:c> &amp; ""q"" %2F {{.id}}".
Definition cr : create_promise_req := mkCPR nasty (Some " K "%string) false [(nasty, nasty)] nasty 9223372036854775807 [("t a g", nasty)]%string.
Definition sch_ex : list directive :=
  [ DTick 1 [] [] [("a"%string, QCreatePromise cr)];
    DExec [mkEx "a" 0 [] false];
    DTick 2 [("a"%string, 0%nat)] [] [];
    DRouter "a" 1 (Some None);
    DTick 3 [("a"%string, 1%nat)] [] [];
    DExec [mkEx "a" 2 [] false];
    DTick 4 [("a"%string, 2%nat)] [] [("r"%string, QReadPromise nasty); ("r2"%string, QReadPromise (nasty ++ " "))];
    DExec [mkEx "r" 0 [] false; mkEx "r2" 0 [] false];
    DTick 5 [("r"%string, 0%nat); ("r2"%string, 0%nat)] [] [] ].
Example C20_example :
  flat_map (fun e => flat_map (fun o => match o with
                                        | OInst id _ (Some (RspPromise st p)) =>
                                          [(id, st, option_map (fun p => (p_id p, p_ph p, p_pd p, p_timeout p, p_ikc p, p_tags p)) p)]
                                        | _ => [] end) (snd e)) (events cfg_ex sch_ex)
  = [("a"%string, 20100, Some (nasty, [(nasty, nasty)], nasty, 9223372036854775807, Some " K "%string, [("t a g"%string, nasty)]));
     ("r"%string, 20000, Some (nasty, [(nasty, nasty)], nasty, 9223372036854775807, Some " K "%string, [("t a g"%string, nasty)]));
     ("r2"%string, 40400, None)].
Proof. vm_compute. reflexivity. Qed.
