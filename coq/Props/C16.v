(* C16 — Store commands are conditional writes; batches are ordered, atomic (and, in SQLite, isolated).
   Only statements, closed by lemmas of Proofs/, and their assumptions.  The tie of Store.exec to the real
   store is the differential execution of tools/check C16 (all 27 command kinds, arbitrary arguments,
   random batching) and the regenerated SQL statements of Gen/Sql.v. *)
From RV Require Import Mon StoreLocks StorePromises PC16.

Theorem C16_create_iff_absent : forall d c,
    (find_promise (cp_id c) d = None ->
     snd (ex_create_promise d c) = 1 /\ promises (fst (ex_create_promise d c)) = (promises d ++ [new_promise c (next_p d)])%list) /\
    (find_promise (cp_id c) d <> None ->
     snd (ex_create_promise d c) = 0 /\ promises (fst (ex_create_promise d c)) = promises d).
Proof. exact create_iff_absent. Qed.
Print Assumptions C16_create_iff_absent.

Theorem C16_complete_iff_pending : forall d c,
    snd (ex_update_promise d c) = blen (filter (fun p => String.eqb (p_id p) (up_id c) && (p_state p =? 1)) (promises d)) /\
    promises (fst (ex_update_promise d c)) =
      map (fun p => if String.eqb (p_id p) (up_id c) && (p_state p =? 1) then complete_p c p else p) (promises d).
Proof. exact complete_iff_pending. Qed.
Print Assumptions C16_complete_iff_pending.

Theorem C16_complete_not_pending_noop : forall d c,
    (forall p, In p (promises d) -> p_id p = up_id c -> p_state p <> 1) ->
    promises (fst (ex_update_promise d c)) = promises d /\ snd (ex_update_promise d c) = 0.
Proof. exact complete_not_pending_noop. Qed.
Print Assumptions C16_complete_not_pending_noop.

Theorem C16_callback_iff_pending_and_new : forall d c,
    let ok := existsb (fun p => String.eqb (p_id p) (cc_pid c) && (p_state p =? 1)) (promises d) &&
              negb (existsb (fun x => String.eqb (cb_id x) (cc_id c)) (callbacks d)) in
    (ok = true -> ex_create_callback d c = (set_callbacks d (callbacks d ++ [new_callback c]), 1)) /\
    (ok = false -> ex_create_callback d c = (d, 0)).
Proof. exact callback_iff_pending_and_new. Qed.
Print Assumptions C16_callback_iff_pending_and_new.

Theorem C16_update_task_iff_state_counter : forall d c,
    snd (ex_update_task d c) = blen (filter (ut_guard c) (tasks d)) /\
    tasks (fst (ex_update_task d c)) = map (fun t => if ut_guard c t then update_t c t else t) (tasks d).
Proof. exact update_task_iff_state_counter. Qed.
Print Assumptions C16_update_task_iff_state_counter.

Theorem C16_update_task_guard : forall c t,
    ut_guard c t = true <-> (t_id t = ut_id c /\ in_mask (t_state t) (mask_of (ut_cur_states c)) = true /\ t_counter t = ut_cur_counter c).
Proof. exact update_task_guard. Qed.
Print Assumptions C16_update_task_guard.

Theorem C16_acquire_iff_free_or_same_exec : forall d res exec proc ttl exp,
    match find_lock res d with
    | None => ex_acquire_lock d res exec proc ttl exp = (set_locks d (locks d ++ [mkL res exec proc ttl exp]), 1)
    | Some l => if String.eqb (l_exec l) exec then snd (ex_acquire_lock d res exec proc ttl exp) = 1
                else ex_acquire_lock d res exec proc ttl exp = (d, 0)
    end.
Proof. exact acquire_iff_free_or_same_exec. Qed.
Print Assumptions C16_acquire_iff_free_or_same_exec.

Theorem C16_txn_in_order : forall d c cs hs,
    exec_txn d (c :: cs) hs =
    match exec d c (hd None hs) with
    | Some (d1, r) => match exec_txn d1 cs (tl hs) with Some (d2, rs) => Some (d2, r :: rs) | None => None end
    | None => None
    end.
Proof. exact txn_in_order. Qed.
Print Assumptions C16_txn_in_order.

Theorem C16_batch_is_sequential : forall txns d d' rss, exec_batch d txns = Some (d', rss) -> exec_cmds d (flat_batch txns) = Some d'.
Proof. exact batch_is_sequential. Qed.
Print Assumptions C16_batch_is_sequential.

Theorem C16_batch_results_aligned : forall txns d d' rss, exec_batch d txns = Some (d', rss) -> List.length rss = List.length txns.
Proof. exact batch_results_aligned. Qed.
Print Assumptions C16_batch_results_aligned.

Theorem C16_batch_all_or_nothing : forall cfg s batch s' ob txns,
    batch_txns batch (s_pend s) = Some txns -> exec_batch (s_db s) txns = None ->
    step cfg s (DExec batch) = Some (s', ob) ->
    s_db s' = s_db s /\ ob = [OExec (map fst txns) None (s_db s)] /\ s_pend s' = set_batch_ready batch None (s_pend s).
Proof. exact batch_all_or_nothing. Qed.
Print Assumptions C16_batch_all_or_nothing.

Theorem C16_failed_batch_only_errors : forall batch pl p, In p (set_batch_ready batch None pl) -> In p pl \/ pd_ready p = Some CErr.
Proof. exact failed_batch_only_errors. Qed.
Print Assumptions C16_failed_batch_only_errors.

(* Non-vacuity: a batch whose third command violates UNIQUE(tasks.id) rolls back the first two. *)
Definition d1 : db :=
  mkDb [mkP "a" 1 1 [] "" [] "" 9 None None [] 0 None]
       [mkCb "x" "a" "r" "" (mkMesg "resume" "r" "a") 9 0] [] []
       [mkT "x" 1 None 1 "r" "" (mkMesg "resume" "r" "a") 9 1 0 0 0 0 None] 2 1 2.
Example C16_example_rollback :
  exec_batch d1 [([UpdatePromise (mkUP "a" 2 [] "" None 1); CompleteTasks "a" 1; CreateTasks "a" 1; DeleteCallbacks "a"], [])] = None.
Proof. vm_compute. reflexivity. Qed.

(* the SQL text the model was written against is the text in the source (regenerated on every run) *)
From RV Require Import Gen.Sql Spec.SqlRef.
Theorem C16_sqlite_statements_are_the_reference : sqlite_stmts = ref_sqlite_stmts /\ sqlite_calls = ref_sqlite_calls.
Proof. vm_compute. split; reflexivity. Qed.
Print Assumptions C16_sqlite_statements_are_the_reference.
