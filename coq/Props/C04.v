(* C04 — Timeouts are exact: never pending after the deadline, never timed out before it.
   Only statements, closed by lemmas of Proofs/, and their assumptions. *)
From RV Require Import Mon MonC04 StoreLocks StorePromises Discipline SysInv PC04 PC04e.

(* PROVED for EVERY schedule of well-formed requests (every placement of request and sweep ticks relative to the
   timeout - before, exactly at, after -, every race between the lazy time-out of read/create/complete/search
   and the background sweep, every promise batch size, every failure and crash):
   401 no read / complete / search / create-on-existing answer produced at tick time t shows a promise pending
       when t >= its timeout;
   403 every completed row ever stored is either a time-out (completion time = timeout <= server clock, state
       timed-out - or resolved when tagged resonate:timeout=true -, empty value, no completion key) or a
       completion decided strictly before the timeout: nothing is stored timed out before its deadline, a
       completion handled at or after the deadline never installs the caller's state or value.
   NOT included (hence "partial"): 402, the answer to the create itself - see C04_full_refuted. *)
Theorem C04_holds_partial : forall cfg sch, sch_wf sch -> C04_mon_partial (events cfg sch) = [].
Proof. exact C04_trace_partial. Qed.
Print Assumptions C04_holds_partial.

(* clause 404 for EVERY schedule (Proofs/PC04e.v): whatever completion a coroutine hands to the store at tick t is the
   time-out of a promise whose deadline has been reached (completion time = timeout <= t, the time-out state, empty
   value, no key) or installs a caller's state decided at t, strictly before the deadline (completion time = t <
   timeout): "a completion request handled at or after the timeout never installs the caller's state or value",
   whatever completion time it stamps.  The emission discipline (Discipline.up_ok) states exactly this, at the tick of
   emission, for every program point of every coroutine. *)
Theorem C04_handled_before_the_deadline : forall cfg sch, sch_wf sch -> C04e_mon (events cfg sch) = [].
Proof. exact C04e_trace. Qed.
Print Assumptions C04_handled_before_the_deadline.

(* store level: one command under the emission discipline keeps every completed row in shape *)
Theorem C04_store_shape : forall now t d c h d' r,
    prom_uniq d -> cmd_at d t c -> t <= now -> exec d c h = Some (d', r) -> ShapeDb now d -> ShapeDb now d'.
Proof. exact exec_shape. Qed.
Print Assumptions C04_store_shape.

(* The FULL property is FALSE of the faithful model: a promise created with a timeout already in the past is
   answered 20100 and shown PENDING (DESIGN D12; recorded in known_findings.json, the same request fails on the
   implementation). *)
Definition cfg_ex : config := mkCfg "http://h" 1 1 1 1 (fun _ _ => None) true.
Definition sch_d12 : list directive :=
  [ DTick 10 [] [] [("a"%string, QCreatePromise (mkCPR "p" None false [] "" 5 []))];
    DExec [mkEx "a" 0 [] false];
    DTick 11 [("a"%string, 0%nat)] [] [];
    DRouter "a" 1 (Some None);
    DTick 12 [("a"%string, 1%nat)] [] [];
    DExec [mkEx "a" 2 [] false];
    DTick 13 [("a"%string, 2%nat)] [] [] ].
Theorem C04_full_refuted : exists cfg sch, sch_wf sch /\ C04_mon (events cfg sch) <> [].
Proof. exists cfg_ex, sch_d12. split; [repeat constructor|]. vm_compute. discriminate. Qed.
Print Assumptions C04_full_refuted.
Example C04_d12_witness : C04_mon (events cfg_ex sch_d12) = [(402, 6%nat)].
Proof. vm_compute. reflexivity. Qed.

(* Non-vacuity: a read exactly at the deadline times the promise out lazily (completion time = timeout, empty
   value) and answers with the timed-out state; and a doctored commit (timed out one tick early) raises 403. *)
Definition sch_ok : list directive :=
  [ DTick 1 [] [] [("a"%string, QCreatePromise (mkCPR "p" None false [] "" 5 []))];
    DExec [mkEx "a" 0 [] false];
    DTick 2 [("a"%string, 0%nat)] [] [];
    DRouter "a" 1 (Some None);
    DTick 3 [("a"%string, 1%nat)] [] [];
    DExec [mkEx "a" 2 [] false];
    DTick 4 [("a"%string, 2%nat)] [] [];
    DTick 5 [] [] [("r"%string, QReadPromise "p")];
    DExec [mkEx "r" 0 [] false];
    DTick 5 [("r"%string, 0%nat)] [] [];
    DExec [mkEx "r" 1 [] false];
    DTick 6 [("r"%string, 1%nat)] [] [] ].
Example C04_example_runs :
  flat_map (fun e => flat_map (fun o => match o with
                                        | OInst "r" _ (Some (RspPromise st (Some p))) => [(st, p_state p, p_completed p)]
                                        | _ => [] end) (snd e)) (events cfg_ex sch_ok) = [(20000, Timedout, Some 5)]
  /\ C04_mon (events cfg_ex sch_ok) = [].
Proof. vm_compute. split; reflexivity. Qed.

Definition early : promise := mkP "p" 1 16 [] "" [] "" 5 None None [] 1 (Some 5).
Definition bad_trace : list (directive * list obs) :=
  [ (DTick 4 [] [] [], []); (DExec [], [OExec [] (Some []) (mkDb [early] [] [] [] [] 0 0 0)]) ].
Example C04_monitor_detects : C04_mon bad_trace = [(403, 1%nat)].
Proof. vm_compute. reflexivity. Qed.
