(* C02 -- API histories are linearizable to the sequential durable-promise spec.
   THE THEOREMS OF THIS FILE ARE THE CLAIM.

   The sequential spec (Model/MonC02.v, seq_answer) is the model's own coroutine run alone, to completion, on an
   unchanging database: what a single-threaded server would answer.  The executable statement C02_mon says, for every
   answered request of a trace: the answer is the sequential answer on SOME database state that existed between
   the request's arrival and its answer (including the states inside a store batch), at some tick time in that
   interval (201; 202 for a successful claim whose task part is sequential but whose promise bodies were read at
   another instant).  Answers that report an injected failure are not judged (the request may or may not have
   taken effect).

   Proved:
   - C02_one_shot_linearizable: every request whose coroutine is one store transaction (acquire / release / heartbeat
     locks, read / delete schedule, heartbeat tasks) answers exactly the sequential answer on the database state its
     transaction ran against, whatever ran before or after: that transaction is its linearization point.
   - C02_effects_once (= C01): for every schedule a promise's durable row changes at most once after creation, in one
     transaction, and every answer shows durable rows; C02_answers (= C03): the answers of create / complete are the
     ones the sequential rule prescribes for the promise they show, for every store answer.
   - C02_202_refuted: the clause is FALSE for claims on the faithful model and on the code (DESIGN D19, known finding):
     ClaimTask commits the claim, then reads the root / leaf promises in a second transaction; if the root promise
     completes in between (which also takes the task away), the answer shows a claimed task next to a promise state
     that never coexisted with it.
   Not proved (hence partial): C02_mon = [] for every schedule of multi-transaction requests (it is evaluated on
   every implementation trace of the race-heavy families); the effect side of linearizability is covered through the
   commit monitors of C01/C05/C07/C08/C09/C10 rather than by a refinement proof. *)
From RV Require Import Mon MonC01 MonC02 MonC03 SysInv PC01 PC03 PC02.

Theorem C02_one_shot_linearizable : forall cfg q t n t' next d hs d' rs rv,
    one_shot q = true ->
    exists k c, start_req q t n = out_wait k n (SStore [c]) /\
                (exec_txn d [c] hs = Some (d', rs) ->
                 seq_answer cfg d q t t' rv = o_resp (resume_seq cfg k (CStore rs) t' next) /\
                 o_resp (resume_seq cfg k (CStore rs) t' next) <> None).
Proof. exact one_shot_linearizable. Qed.
Print Assumptions C02_one_shot_linearizable.

Theorem C02_effects_once : forall cfg sch, sch_wf sch -> C01_mon (events cfg sch) = [].
Proof. exact C01_trace. Qed.

Theorem C02_answers : forall cfg k c now next,
    (forall r, kcreate k r -> c_ok k c -> forall rsp, o_resp (resume_seq cfg k c now next) = Some rsp -> c03_create r rsp = true) /\
    (forall r, kcomplete k r -> c_ok k c -> forall rsp, o_resp (resume_seq cfg k c now next) = Some rsp -> c03_complete r rsp = true).
Proof.
  intros cfg k c now next. split; intros r Hk Hc.
  - exact (proj1 (create_step cfg k c now next r Hk Hc)).
  - exact (proj1 (complete_step cfg k c now next r Hk Hc)).
Qed.
Print Assumptions C02_answers.

(* ---------- D19 ---------- *)
Definition cfg_ex : config := mkCfg "http://h" 1 1 1 1 (fun _ _ => None) true.
Definition cr : create_promise_req := mkCPR "a" None false [] "" 5 [("resonate:invoke", "default")]%string.
Definition sch_d19 : list directive :=
  [ DTick 1 [] [] [("c"%string, QCreatePromise cr)];
    DExec [mkEx "c" 0 [] false];
    DTick 2 [("c"%string, 0%nat)] [] [];
    DRouter "c" 1 (Some (Some """default"""%string));
    DTick 3 [("c"%string, 1%nat)] [] [];
    DExec [mkEx "c" 2 [] false];
    DTick 4 [("c"%string, 2%nat)] [] [("k"%string, QClaimTask "__invoke:a" 1 "w" 10)];
    DExec [mkEx "k" 0 [] false];
    DTick 6 [("k"%string, 0%nat)] [("TimeoutPromises:6"%string, BTimeoutPromises)] [];
    DExec [mkEx "k" 1 [] false];                         (* the claim commits *)
    DExec [mkEx "TimeoutPromises:6" 0 [] false];
    DTick 7 [("k"%string, 1%nat); ("TimeoutPromises:6"%string, 0%nat)] [] [];
    DExec [mkEx "TimeoutPromises:6" 1 [] false];         (* the promise times out: the task is finished with it *)
    DExec [mkEx "k" 2 [] false];                         (* the claim reads the promise: timed out *)
    DTick 8 [("k"%string, 2%nat)] [] [] ].
Theorem C02_202_refuted : exists cfg sch, sch_wf sch /\ C02_mon cfg (events cfg sch) = [(202, 14%nat)].
Proof. exists cfg_ex, sch_d19. split; [repeat constructor; cbn; auto|vm_compute; reflexivity]. Qed.
Print Assumptions C02_202_refuted.

(* a linearizable run: two creates of one id race (both read before either writes); the loser restarts *)
Definition cr2 (k : string) : create_promise_req := mkCPR "p" (Some k) false [] "" 100 [].
Definition sch_ok : list directive :=
  [ DTick 1 [] [] [("a"%string, QCreatePromise (cr2 "k")); ("b"%string, QCreatePromise (cr2 "k"))];
    DExec [mkEx "a" 0 [] false; mkEx "b" 0 [] false];
    DTick 2 [("a"%string, 0%nat); ("b"%string, 0%nat)] [] [];
    DRouter "a" 1 (Some None); DRouter "b" 1 (Some None);
    DTick 3 [("a"%string, 1%nat); ("b"%string, 1%nat)] [] [];
    DExec [mkEx "b" 2 [] false; mkEx "a" 2 [] false];
    DTick 4 [("a"%string, 2%nat); ("b"%string, 2%nat)] [] [];
    DExec [mkEx "a" 3 [] false];
    DTick 5 [("a"%string, 3%nat)] [] [] ].
Example C02_example :
  C02_mon cfg_ex (events cfg_ex sch_ok) = [] /\
  flat_map (fun e => flat_map (fun o => match o with OInst id _ (Some r) => [(id, status_of r)] | _ => [] end) (snd e)) (events cfg_ex sch_ok)
  = [("b", 20100); ("a", 20000)]%string.
Proof. vm_compute. split; reflexivity. Qed.

(* the monitor rejects the answer of a create that lost the race and reported a conflict although the keys match *)
Definition prow := mkP "p" 0 Pending [] "" [] "" 100 (Some "k"%string) None [] 3 None.
Definition bad_trace : list (directive * list obs) :=
  [ (DExec [], [OExec [[CreatePromise (mkCP "p" [] "" 100 (Some "k"%string) [] 3)]] (Some [[RAlter 1]]) (mkDb [mkP "p" 1 Pending [] "" [] "" 100 (Some "k"%string) None [] 3 None] [] [] [] [] 1 0 0)]);
    (DTick 4 [] [] [("a"%string, QCreatePromise (cr2 "k"))], []);
    (DTick 5 [] [] [], [OInst "a" [] (Some (RspPromise 40900 (Some prow)))]) ].
Example C02_monitor_detects : C02_mon cfg_ex bad_trace = [(201, 2%nat)].
Proof. vm_compute. reflexivity. Qed.
