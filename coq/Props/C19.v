(* C19 -- Receiver resolution is deterministic: tasks go where the routing tag says.
   THE THEOREMS OF THIS FILE ARE THE CLAIM.  The model (Model/Route.v) is the decision logic of the router's tag
   source and of the sender's resolution over the classes the JSON / URL libraries assign to the raw bytes; the
   correspondence check runs the production router and the production SenderWorker.Process (stub transports that
   record what they are handed) on the same inputs, with hostile tag values, random target tables and plugin sets.
   Resolution is a function (deterministic by construction); the theorems say WHICH function, for every input. *)
From RV Require Import Route Coro.
From Coq Require Import Lia.

(* the router: a plain string is kept as a logical name, a JSON receiver object as a physical receiver,
   anything else (any other JSON value, or no tag) does not route *)
Theorem C19_route : forall v ty data,
    route (Some (TNotJson v)) = RLogical v /\ route (Some (TJsonRecv ty data)) = RPhysical ty data /\
    route (Some TJsonOther) = RNone /\ route None = RNone.
Proof. intros. repeat split; reflexivity. Qed.
Print Assumptions C19_route.

(* a logical name resolves to the configured target of that name, whatever the name looks like ... *)
Theorem C19_target_first : forall t name x u, lookup_target name t = Some x -> resolve t (RLogical name) u = Some x.
Proof. intros t name x u H. cbn. rewrite H. reflexivity. Qed.
Print Assumptions C19_target_first.

(* ... otherwise by URL scheme: http/https to the http transport with that URL, poll://group/id to the poll
   transport with that group and id; anything else is unknown *)
Theorem C19_scheme : forall t name, lookup_target name t = None ->
    (forall full, resolve t (RLogical name) (UHttp full) = Some ("http"%string, http_data full)) /\
    (forall g i, resolve t (RLogical name) (UPoll g i) = Some ("poll"%string, poll_data g i)) /\
    resolve t (RLogical name) UOther = None.
Proof. intros t name H. cbn. rewrite H. repeat split; reflexivity. Qed.
Print Assumptions C19_scheme.

(* a physical receiver is used as it is *)
Theorem C19_physical : forall t ty data u, resolve t (RPhysical ty data) u = Some (ty, data).
Proof. reflexivity. Qed.

(* never lost, never misdirected: the hand-off either fails (an error completion, which the dispatch cycle turns
   into "back to init, attempt + 1": a retry) or the message -- with exactly the given body, i.e. the task id,
   counter and links, or the completed promise -- is handed to the transport of the resolved type with the
   resolved address *)
Theorem C19_send : forall t ps r u b,
    send t ps r u b = OFail \/
    exists ty data, resolve t r u = Some (ty, data) /\ plugin_state ty ps = Some true /\ send t ps r u b = ODeliver ty data b.
Proof.
  intros t ps r u b. unfold send. destruct (resolve t r u) as [[ty data]|]; [|left; reflexivity].
  destruct (plugin_state ty ps) as [[|]|] eqn:E; [right; exists ty, data; tauto|left; reflexivity|left; reflexivity].
Qed.
Print Assumptions C19_send.

Theorem C19_unknown_fails : forall t ps name u b,
    lookup_target name t = None -> u = UOther -> send t ps (RLogical name) u b = OFail.
Proof. intros t ps name u b H ->. unfold send. cbn. rewrite H. reflexivity. Qed.

(* what the dispatch cycle does with a failed hand-off of an invocation or resumption: retry *)
Theorem C19_failed_is_retried : forall t exp,
    is_notify t = false ->
    enq_update t exp CErr = UpdateTask (mkUT (t_id t) None TInit (t_counter t) (t_attempt t + 1) 0 exp None [TInit] (t_counter t)).
Proof. intros t exp H. unfold enq_update. rewrite H. reflexivity. Qed.
Print Assumptions C19_failed_is_retried.

(* ---------- examples ---------- *)
Example C19_example :
  let t := [("http://old-host/x", ("http", "{""url"":""http://new-host/y""}")); ("default", ("poll", "{""group"":""default""}"))]%string in
  let b := BTask "invoke" "__invoke:p" 1 "c" "k" "h" in
  send t [("http", true); ("poll", true)]%string (RLogical "http://old-host/x") (UHttp "http://old-host/x") b
  = ODeliver "http" "{""url"":""http://new-host/y""}" b /\
  send t [("http", true); ("poll", true)]%string (RLogical "http://other/x") (UHttp "http://other/x") b
  = ODeliver "http" "{""url"":""http://other/x""}" b /\
  send t [("http", true)]%string (RLogical "poll://g/w1") (UPoll "g" "w1") b = OFail /\
  send t [("http", true); ("poll", true)]%string (RLogical "nobody") UOther b = OFail.
Proof. cbn. repeat split; reflexivity. Qed.

(* the replay rejects an implementation that looks at the URL scheme before the targets table *)
Example C19_replay_detects :
  route_mismatches [[CSend [("http://old-host/x", ("http", "{""url"":""http://new-host/y""}"))]%string [("http", true)]%string
                           (RLogical "http://old-host/x") (UHttp "http://old-host/x") (BNotify "p")
                           (ODeliver "http" "{""url"":""http://old-host/x""}" (BNotify "p"))]] = [(0%nat, 0%nat, 0)].
Proof. vm_compute. reflexivity. Qed.
