(* C15: the finite tables of the front ends, as regenerated from the source (Gen/Status.v). *)
From Coq Require Import List String ZArith Bool.
From RV Require Import Gen.Status.
Import ListNotations.
Open Scope Z_scope.

Fixpoint mem (k : string) (l : list string) : bool :=
  match l with [] => false | x :: l' => String.eqb k x || mem k l' end.

Definition domain (cases : list (list string * string)) : list string :=
  flat_map (fun c => if String.eqb (snd c) "panic" then [] else fst c) cases.

Fixpoint case_of (k : string) (cases : list (list string * string)) : option string :=
  match cases with
  | [] => None
  | (ks, r) :: cs => if mem k ks then Some r else case_of k cs
  end.

(* every status the kernel defines has a text and a gRPC code *)
Definition string_total : bool := forallb (fun c => mem (fst c) (domain status_string_cases)) status_consts.
Definition grpc_total : bool := forallb (fun c => mem (fst c) (domain grpc_code_cases)) status_consts.

(* the gRPC code of a status is determined by its HTTP class (status / 100), the same way for all statuses *)
Definition expected_grpc (v : Z) : string :=
  let h := v / 100 in
  if (h =? 200) || (h =? 201) || (h =? 204) then "codes.OK"
  else if h =? 400 then "codes.InvalidArgument"
  else if h =? 403 then "codes.PermissionDenied"
  else if h =? 404 then "codes.NotFound"
  else if h =? 409 then "codes.AlreadyExists"
  else if h =? 500 then "codes.Internal"
  else if h =? 503 then "codes.Unavailable"
  else "?".
Definition grpc_agrees_with_http : bool :=
  forallb (fun c => match case_of (fst c) grpc_code_cases with
                    | Some r => String.eqb r (expected_grpc (snd c))
                    | None => false end) status_consts.

(* outcome flags: the status constant each flag must be compared with is the one the coroutine returns on
   success (Coro.v: KAcquire -> StCreated, KRelease -> StNoContent, KClaim_read -> StCreated,
   KCompleteT_up -> StCreated; Noop = "nothing changed" = StOK) *)
Definition expected_flag (flag : string) : string :=
  if String.eqb flag "Acquired" then "StatusCreated"
  else if String.eqb flag "Released" then "StatusNoContent"
  else if String.eqb flag "Claimed" then "StatusCreated"
  else if String.eqb flag "Completed" then "StatusCreated"
  else if String.eqb flag "Noop" then "StatusOK"
  else "?".
Definition flags_agree : bool :=
  forallb (fun f => match f with (_, flag, const) => String.eqb const (expected_flag flag) end) grpc_flags.

Definition request_kinds : list string :=
  ["ReadPromise"; "SearchPromises"; "CreatePromise"; "CreatePromiseAndTask"; "CompletePromise"; "CreateCallback";
   "CreateSubscription"; "ReadSchedule"; "SearchSchedules"; "CreateSchedule"; "DeleteSchedule"; "AcquireLock";
   "ReleaseLock"; "HeartbeatLocks"; "ClaimTask"; "CompleteTask"; "HeartbeatTasks"]%string.
Definition response_status_total : bool := forallb (fun k => mem k (domain response_status_cases)) request_kinds.
