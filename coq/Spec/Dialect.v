(* C17: the Postgres statements equal the SQLite statements modulo a small, explicit dialect map; the
   statements that differ structurally are listed by name with the reason. *)
From Coq Require Import List String Ascii Bool Arith.
Import ListNotations.

Fixpoint lookup_stmt (k : string) (l : list (string * list string)) : list string :=
  match l with
  | [] => []
  | (k', v) :: l' => if String.eqb k k' then v else lookup_stmt k l'
  end.

Definition is_dollar (t : string) : bool :=
  match t with String c _ => Ascii.eqb c "$"%char | EmptyString => false end.

(* token-level dialect map: $n -> ?, drop `::int` / `::jsonb` casts, drop the `locks .` qualifier *)
Fixpoint dialect_skip (skip : nat) (ts : list string) : list string :=
  match ts with
  | [] => []
  | t :: ts' =>
    match skip with
    | S k => dialect_skip k ts'
    | O =>
      if is_dollar t then "?"%string :: dialect_skip 0 ts'
      else if String.eqb t "::" then dialect_skip 1 ts'                 (* drop the cast operator and its type *)
      else if String.eqb t "locks" && match ts' with d :: _ => String.eqb d "." | [] => false end
           then dialect_skip 1 ts'                                      (* drop the `locks .` qualifier *)
      else t :: dialect_skip 0 ts'
    end
  end.
Definition dialect := dialect_skip 0.

Fixpoint list_str_eqb (a b : list string) : bool :=
  match a, b with
  | [], [] => true
  | x :: a', y :: b' => String.eqb x y && list_str_eqb a' b'
  | _, _ => false
  end.

(* statements whose Postgres form is NOT the SQLite form under [dialect]; each is discharged by a named lemma of
   the model or documented as a dialect difference (DESIGN C17) *)
Definition structural_differences : list string :=
  [ "CREATE_TABLE_STATEMENT";                (* column types: JSONB/BYTEA/BIGINT/SERIAL, PRIMARY KEY placement *)
    "DROP_TABLE_STATEMENT";                  (* Postgres only: used by Reset *)
    "PROMISE_SEARCH_STATEMENT";              (* tags filter: jsonb containment vs json_extract conjunction *)
    "SCHEDULE_SEARCH_STATEMENT";             (* same *)
    "TASK_SELECT_ENQUEUEABLE_STATEMENT"      (* DISTINCT ON (root) ORDER BY root, sort_id  vs  GROUP BY root *)
  ]%string.

Definition names (l : list (string * list string)) : list string := map fst l.

Definition same_modulo_dialect (lite pg : list (string * list string)) : bool :=
  forallb (fun k => existsb (String.eqb k) structural_differences ||
                    list_str_eqb (dialect (lookup_stmt k pg)) (lookup_stmt k lite)) (names pg).

(* placeholders of a Postgres statement, in order of occurrence, as numbers *)
Definition digit_val (c : ascii) : nat := nat_of_ascii c - 48.
Fixpoint num_of (s : string) (acc : nat) : nat :=
  match s with EmptyString => acc | String c s' => num_of s' (acc * 10 + digit_val c) end.
Definition placeholder_indices (ts : list string) : list nat :=
  flat_map (fun t => match t with
                     | String c rest => if Ascii.eqb c "$"%char then [num_of rest 0] else []
                     | EmptyString => [] end) ts.
