Model/Base.vo Model/Base.glob Model/Base.v.beautified Model/Base.required_vo: Model/Base.v 
Model/Base.vio: Model/Base.v 
Model/Base.vos Model/Base.vok Model/Base.required_vos: Model/Base.v 
Model/Store.vo Model/Store.glob Model/Store.v.beautified Model/Store.required_vo: Model/Store.v Model/Base.vo
Model/Store.vio: Model/Store.v Model/Base.vio
Model/Store.vos Model/Store.vok Model/Store.required_vos: Model/Store.v Model/Base.vos
Model/Coro.vo Model/Coro.glob Model/Coro.v.beautified Model/Coro.required_vo: Model/Coro.v Model/Store.vo
Model/Coro.vio: Model/Coro.v Model/Store.vio
Model/Coro.vos Model/Coro.vok Model/Coro.required_vos: Model/Coro.v Model/Store.vos
Model/Sys.vo Model/Sys.glob Model/Sys.v.beautified Model/Sys.required_vo: Model/Sys.v Model/Coro.vo
Model/Sys.vio: Model/Sys.v Model/Coro.vio
Model/Sys.vos Model/Sys.vok Model/Sys.required_vos: Model/Sys.v Model/Coro.vos
Model/Replay.vo Model/Replay.glob Model/Replay.v.beautified Model/Replay.required_vo: Model/Replay.v Model/Sys.vo
Model/Replay.vio: Model/Replay.v Model/Sys.vio
Model/Replay.vos Model/Replay.vok Model/Replay.required_vos: Model/Replay.v Model/Sys.vos
