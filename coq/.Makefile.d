Gen/Sql.vo Gen/Sql.glob Gen/Sql.v.beautified Gen/Sql.required_vo: Gen/Sql.v 
Gen/Sql.vio: Gen/Sql.v 
Gen/Sql.vos Gen/Sql.vok Gen/Sql.required_vos: Gen/Sql.v 
Gen/Status.vo Gen/Status.glob Gen/Status.v.beautified Gen/Status.required_vo: Gen/Status.v 
Gen/Status.vio: Gen/Status.v 
Gen/Status.vos Gen/Status.vok Gen/Status.required_vos: Gen/Status.v 
Gen/Flow.vo Gen/Flow.glob Gen/Flow.v.beautified Gen/Flow.required_vo: Gen/Flow.v 
Gen/Flow.vio: Gen/Flow.v 
Gen/Flow.vos Gen/Flow.vok Gen/Flow.required_vos: Gen/Flow.v 
Spec/SqlRef.vo Spec/SqlRef.glob Spec/SqlRef.v.beautified Spec/SqlRef.required_vo: Spec/SqlRef.v 
Spec/SqlRef.vio: Spec/SqlRef.v 
Spec/SqlRef.vos Spec/SqlRef.vok Spec/SqlRef.required_vos: Spec/SqlRef.v 
Spec/FlowRef.vo Spec/FlowRef.glob Spec/FlowRef.v.beautified Spec/FlowRef.required_vo: Spec/FlowRef.v 
Spec/FlowRef.vio: Spec/FlowRef.v 
Spec/FlowRef.vos Spec/FlowRef.vok Spec/FlowRef.required_vos: Spec/FlowRef.v 
Spec/WitnessD2.vo Spec/WitnessD2.glob Spec/WitnessD2.v.beautified Spec/WitnessD2.required_vo: Spec/WitnessD2.v Model/Sys.vo Model/Replay.vo
Spec/WitnessD2.vio: Spec/WitnessD2.v Model/Sys.vio Model/Replay.vio
Spec/WitnessD2.vos Spec/WitnessD2.vok Spec/WitnessD2.required_vos: Spec/WitnessD2.v Model/Sys.vos Model/Replay.vos
Spec/Dialect.vo Spec/Dialect.glob Spec/Dialect.v.beautified Spec/Dialect.required_vo: Spec/Dialect.v 
Spec/Dialect.vio: Spec/Dialect.v 
Spec/Dialect.vos Spec/Dialect.vok Spec/Dialect.required_vos: Spec/Dialect.v 
Spec/Front15.vo Spec/Front15.glob Spec/Front15.v.beautified Spec/Front15.required_vo: Spec/Front15.v Gen/Status.vo
Spec/Front15.vio: Spec/Front15.v Gen/Status.vio
Spec/Front15.vos Spec/Front15.vok Spec/Front15.required_vos: Spec/Front15.v Gen/Status.vos
Model/Base.vo Model/Base.glob Model/Base.v.beautified Model/Base.required_vo: Model/Base.v 
Model/Base.vio: Model/Base.v 
Model/Base.vos Model/Base.vok Model/Base.required_vos: Model/Base.v 
Model/Route.vo Model/Route.glob Model/Route.v.beautified Model/Route.required_vo: Model/Route.v Model/Base.vo
Model/Route.vio: Model/Route.v Model/Base.vio
Model/Route.vos Model/Route.vok Model/Route.required_vos: Model/Route.v Model/Base.vos
Model/Poll.vo Model/Poll.glob Model/Poll.v.beautified Model/Poll.required_vo: Model/Poll.v Model/Base.vo
Model/Poll.vio: Model/Poll.v Model/Base.vio
Model/Poll.vos Model/Poll.vok Model/Poll.required_vos: Model/Poll.v Model/Base.vos
Model/Kernel.vo Model/Kernel.glob Model/Kernel.v.beautified Model/Kernel.required_vo: Model/Kernel.v Model/Base.vo
Model/Kernel.vio: Model/Kernel.v Model/Base.vio
Model/Kernel.vos Model/Kernel.vok Model/Kernel.required_vos: Model/Kernel.v Model/Base.vos
Model/Store.vo Model/Store.glob Model/Store.v.beautified Model/Store.required_vo: Model/Store.v Model/Base.vo
Model/Store.vio: Model/Store.v Model/Base.vio
Model/Store.vos Model/Store.vok Model/Store.required_vos: Model/Store.v Model/Base.vos
Model/Coro.vo Model/Coro.glob Model/Coro.v.beautified Model/Coro.required_vo: Model/Coro.v Model/Store.vo
Model/Coro.vio: Model/Coro.v Model/Store.vio
Model/Coro.vos Model/Coro.vok Model/Coro.required_vos: Model/Coro.v Model/Store.vos
Model/Valid.vo Model/Valid.glob Model/Valid.v.beautified Model/Valid.required_vo: Model/Valid.v Model/Coro.vo
Model/Valid.vio: Model/Valid.v Model/Coro.vio
Model/Valid.vos Model/Valid.vok Model/Valid.required_vos: Model/Valid.v Model/Coro.vos
Model/Equiv.vo Model/Equiv.glob Model/Equiv.v.beautified Model/Equiv.required_vo: Model/Equiv.v Model/Valid.vo
Model/Equiv.vio: Model/Equiv.v Model/Valid.vio
Model/Equiv.vos Model/Equiv.vok Model/Equiv.required_vos: Model/Equiv.v Model/Valid.vos
Model/Render.vo Model/Render.glob Model/Render.v.beautified Model/Render.required_vo: Model/Render.v Gen/Status.vo
Model/Render.vio: Model/Render.v Gen/Status.vio
Model/Render.vos Model/Render.vok Model/Render.required_vos: Model/Render.v Gen/Status.vos
Model/Plug.vo Model/Plug.glob Model/Plug.v.beautified Model/Plug.required_vo: Model/Plug.v 
Model/Plug.vio: Model/Plug.v 
Model/Plug.vos Model/Plug.vok Model/Plug.required_vos: Model/Plug.v 
Model/Commit.vo Model/Commit.glob Model/Commit.v.beautified Model/Commit.required_vo: Model/Commit.v Model/Replay.vo
Model/Commit.vio: Model/Commit.v Model/Replay.vio
Model/Commit.vos Model/Commit.vok Model/Commit.required_vos: Model/Commit.v Model/Replay.vos
Model/Aio.vo Model/Aio.glob Model/Aio.v.beautified Model/Aio.required_vo: Model/Aio.v 
Model/Aio.vio: Model/Aio.v 
Model/Aio.vos Model/Aio.vok Model/Aio.required_vos: Model/Aio.v 
Model/Loop.vo Model/Loop.glob Model/Loop.v.beautified Model/Loop.required_vo: Model/Loop.v 
Model/Loop.vio: Model/Loop.v 
Model/Loop.vos Model/Loop.vok Model/Loop.required_vos: Model/Loop.v 
Model/Stack.vo Model/Stack.glob Model/Stack.v.beautified Model/Stack.required_vo: Model/Stack.v Model/MonC02.vo Model/Replay.vo
Model/Stack.vio: Model/Stack.v Model/MonC02.vio Model/Replay.vio
Model/Stack.vos Model/Stack.vok Model/Stack.required_vos: Model/Stack.v Model/MonC02.vos Model/Replay.vos
Model/Sys.vo Model/Sys.glob Model/Sys.v.beautified Model/Sys.required_vo: Model/Sys.v Model/Coro.vo
Model/Sys.vio: Model/Sys.v Model/Coro.vio
Model/Sys.vos Model/Sys.vok Model/Sys.required_vos: Model/Sys.v Model/Coro.vos
Model/Replay.vo Model/Replay.glob Model/Replay.v.beautified Model/Replay.required_vo: Model/Replay.v Model/Sys.vo
Model/Replay.vio: Model/Replay.v Model/Sys.vio
Model/Replay.vos Model/Replay.vok Model/Replay.required_vos: Model/Replay.v Model/Sys.vos
Model/Mon.vo Model/Mon.glob Model/Mon.v.beautified Model/Mon.required_vo: Model/Mon.v Model/Sys.vo
Model/Mon.vio: Model/Mon.v Model/Sys.vio
Model/Mon.vos Model/Mon.vok Model/Mon.required_vos: Model/Mon.v Model/Sys.vos
Model/MonC09.vo Model/MonC09.glob Model/MonC09.v.beautified Model/MonC09.required_vo: Model/MonC09.v Model/Mon.vo
Model/MonC09.vio: Model/MonC09.v Model/Mon.vio
Model/MonC09.vos Model/MonC09.vok Model/MonC09.required_vos: Model/MonC09.v Model/Mon.vos
Model/MonC01.vo Model/MonC01.glob Model/MonC01.v.beautified Model/MonC01.required_vo: Model/MonC01.v Model/Mon.vo
Model/MonC01.vio: Model/MonC01.v Model/Mon.vio
Model/MonC01.vos Model/MonC01.vok Model/MonC01.required_vos: Model/MonC01.v Model/Mon.vos
Model/MonC05.vo Model/MonC05.glob Model/MonC05.v.beautified Model/MonC05.required_vo: Model/MonC05.v Model/Mon.vo
Model/MonC05.vio: Model/MonC05.v Model/Mon.vio
Model/MonC05.vos Model/MonC05.vok Model/MonC05.required_vos: Model/MonC05.v Model/Mon.vos
Model/MonC04.vo Model/MonC04.glob Model/MonC04.v.beautified Model/MonC04.required_vo: Model/MonC04.v Model/Mon.vo
Model/MonC04.vio: Model/MonC04.v Model/Mon.vio
Model/MonC04.vos Model/MonC04.vok Model/MonC04.required_vos: Model/MonC04.v Model/Mon.vos
Model/MonC07.vo Model/MonC07.glob Model/MonC07.v.beautified Model/MonC07.required_vo: Model/MonC07.v Model/Mon.vo
Model/MonC07.vio: Model/MonC07.v Model/Mon.vio
Model/MonC07.vos Model/MonC07.vok Model/MonC07.required_vos: Model/MonC07.v Model/Mon.vos
Model/MonC08.vo Model/MonC08.glob Model/MonC08.v.beautified Model/MonC08.required_vo: Model/MonC08.v Model/Mon.vo Model/MonC07.vo
Model/MonC08.vio: Model/MonC08.v Model/Mon.vio Model/MonC07.vio
Model/MonC08.vos Model/MonC08.vok Model/MonC08.required_vos: Model/MonC08.v Model/Mon.vos Model/MonC07.vos
Model/MonC03.vo Model/MonC03.glob Model/MonC03.v.beautified Model/MonC03.required_vo: Model/MonC03.v Model/Mon.vo
Model/MonC03.vio: Model/MonC03.v Model/Mon.vio
Model/MonC03.vos Model/MonC03.vok Model/MonC03.required_vos: Model/MonC03.v Model/Mon.vos
Model/MonC05h.vo Model/MonC05h.glob Model/MonC05h.v.beautified Model/MonC05h.required_vo: Model/MonC05h.v Model/MonC05.vo Model/MonC03.vo
Model/MonC05h.vio: Model/MonC05h.v Model/MonC05.vio Model/MonC03.vio
Model/MonC05h.vos Model/MonC05h.vok Model/MonC05h.required_vos: Model/MonC05h.v Model/MonC05.vos Model/MonC03.vos
Model/MonC14.vo Model/MonC14.glob Model/MonC14.v.beautified Model/MonC14.required_vo: Model/MonC14.v Model/Mon.vo
Model/MonC14.vio: Model/MonC14.v Model/Mon.vio
Model/MonC14.vos Model/MonC14.vok Model/MonC14.required_vos: Model/MonC14.v Model/Mon.vos
Model/MonC10.vo Model/MonC10.glob Model/MonC10.v.beautified Model/MonC10.required_vo: Model/MonC10.v Model/Mon.vo
Model/MonC10.vio: Model/MonC10.v Model/Mon.vio
Model/MonC10.vos Model/MonC10.vok Model/MonC10.required_vos: Model/MonC10.v Model/Mon.vos
Model/MonC06.vo Model/MonC06.glob Model/MonC06.v.beautified Model/MonC06.required_vo: Model/MonC06.v Model/Mon.vo
Model/MonC06.vio: Model/MonC06.v Model/Mon.vio
Model/MonC06.vos Model/MonC06.vok Model/MonC06.required_vos: Model/MonC06.v Model/Mon.vos
Model/MonC11.vo Model/MonC11.glob Model/MonC11.v.beautified Model/MonC11.required_vo: Model/MonC11.v Model/Mon.vo Model/MonC07.vo
Model/MonC11.vio: Model/MonC11.v Model/Mon.vio Model/MonC07.vio
Model/MonC11.vos Model/MonC11.vok Model/MonC11.required_vos: Model/MonC11.v Model/Mon.vos Model/MonC07.vos
Model/MonC02.vo Model/MonC02.glob Model/MonC02.v.beautified Model/MonC02.required_vo: Model/MonC02.v Model/Mon.vo
Model/MonC02.vio: Model/MonC02.v Model/Mon.vio
Model/MonC02.vos Model/MonC02.vok Model/MonC02.required_vos: Model/MonC02.v Model/Mon.vos
Model/MonC13.vo Model/MonC13.glob Model/MonC13.v.beautified Model/MonC13.required_vo: Model/MonC13.v Model/Mon.vo
Model/MonC13.vio: Model/MonC13.v Model/Mon.vio
Model/MonC13.vos Model/MonC13.vok Model/MonC13.required_vos: Model/MonC13.v Model/Mon.vos
Proofs/Framework.vo Proofs/Framework.glob Proofs/Framework.v.beautified Proofs/Framework.required_vo: Proofs/Framework.v Model/Mon.vo
Proofs/Framework.vio: Proofs/Framework.v Model/Mon.vio
Proofs/Framework.vos Proofs/Framework.vok Proofs/Framework.required_vos: Proofs/Framework.v Model/Mon.vos
Proofs/StoreLocks.vo Proofs/StoreLocks.glob Proofs/StoreLocks.v.beautified Proofs/StoreLocks.required_vo: Proofs/StoreLocks.v Model/Mon.vo Model/MonC09.vo
Proofs/StoreLocks.vio: Proofs/StoreLocks.v Model/Mon.vio Model/MonC09.vio
Proofs/StoreLocks.vos Proofs/StoreLocks.vok Proofs/StoreLocks.required_vos: Proofs/StoreLocks.v Model/Mon.vos Model/MonC09.vos
Proofs/StorePromises.vo Proofs/StorePromises.glob Proofs/StorePromises.v.beautified Proofs/StorePromises.required_vo: Proofs/StorePromises.v Model/Mon.vo Proofs/StoreLocks.vo
Proofs/StorePromises.vio: Proofs/StorePromises.v Model/Mon.vio Proofs/StoreLocks.vio
Proofs/StorePromises.vos Proofs/StorePromises.vok Proofs/StorePromises.required_vos: Proofs/StorePromises.v Model/Mon.vos Proofs/StoreLocks.vos
Proofs/StoreCallbacks.vo Proofs/StoreCallbacks.glob Proofs/StoreCallbacks.v.beautified Proofs/StoreCallbacks.required_vo: Proofs/StoreCallbacks.v Model/Mon.vo Proofs/StoreLocks.vo Proofs/StorePromises.vo
Proofs/StoreCallbacks.vio: Proofs/StoreCallbacks.v Model/Mon.vio Proofs/StoreLocks.vio Proofs/StorePromises.vio
Proofs/StoreCallbacks.vos Proofs/StoreCallbacks.vok Proofs/StoreCallbacks.required_vos: Proofs/StoreCallbacks.v Model/Mon.vos Proofs/StoreLocks.vos Proofs/StorePromises.vos
Proofs/Discipline.vo Proofs/Discipline.glob Proofs/Discipline.v.beautified Proofs/Discipline.required_vo: Proofs/Discipline.v Model/Mon.vo Proofs/StoreLocks.vo Proofs/StorePromises.vo
Proofs/Discipline.vio: Proofs/Discipline.v Model/Mon.vio Proofs/StoreLocks.vio Proofs/StorePromises.vio
Proofs/Discipline.vos Proofs/Discipline.vok Proofs/Discipline.required_vos: Proofs/Discipline.v Model/Mon.vos Proofs/StoreLocks.vos Proofs/StorePromises.vos
Proofs/SysInv.vo Proofs/SysInv.glob Proofs/SysInv.v.beautified Proofs/SysInv.required_vo: Proofs/SysInv.v Model/Mon.vo Proofs/StoreLocks.vo Proofs/StorePromises.vo Proofs/StoreCallbacks.vo Proofs/Discipline.vo
Proofs/SysInv.vio: Proofs/SysInv.v Model/Mon.vio Proofs/StoreLocks.vio Proofs/StorePromises.vio Proofs/StoreCallbacks.vio Proofs/Discipline.vio
Proofs/SysInv.vos Proofs/SysInv.vok Proofs/SysInv.required_vos: Proofs/SysInv.v Model/Mon.vos Proofs/StoreLocks.vos Proofs/StorePromises.vos Proofs/StoreCallbacks.vos Proofs/Discipline.vos
Proofs/Eqb.vo Proofs/Eqb.glob Proofs/Eqb.v.beautified Proofs/Eqb.required_vo: Proofs/Eqb.v Model/Mon.vo
Proofs/Eqb.vio: Proofs/Eqb.v Model/Mon.vio
Proofs/Eqb.vos Proofs/Eqb.vok Proofs/Eqb.required_vos: Proofs/Eqb.v Model/Mon.vos
Proofs/PC09.vo Proofs/PC09.glob Proofs/PC09.v.beautified Proofs/PC09.required_vo: Proofs/PC09.v Model/Mon.vo Model/MonC09.vo Proofs/Framework.vo Proofs/StoreLocks.vo Proofs/StorePromises.vo Proofs/Discipline.vo Proofs/SysInv.vo Proofs/Eqb.vo
Proofs/PC09.vio: Proofs/PC09.v Model/Mon.vio Model/MonC09.vio Proofs/Framework.vio Proofs/StoreLocks.vio Proofs/StorePromises.vio Proofs/Discipline.vio Proofs/SysInv.vio Proofs/Eqb.vio
Proofs/PC09.vos Proofs/PC09.vok Proofs/PC09.required_vos: Proofs/PC09.v Model/Mon.vos Model/MonC09.vos Proofs/Framework.vos Proofs/StoreLocks.vos Proofs/StorePromises.vos Proofs/Discipline.vos Proofs/SysInv.vos Proofs/Eqb.vos
Proofs/PC01.vo Proofs/PC01.glob Proofs/PC01.v.beautified Proofs/PC01.required_vo: Proofs/PC01.v Model/Mon.vo Model/MonC01.vo Proofs/Framework.vo Proofs/StoreLocks.vo Proofs/StorePromises.vo Proofs/Discipline.vo Proofs/SysInv.vo Proofs/Eqb.vo
Proofs/PC01.vio: Proofs/PC01.v Model/Mon.vio Model/MonC01.vio Proofs/Framework.vio Proofs/StoreLocks.vio Proofs/StorePromises.vio Proofs/Discipline.vio Proofs/SysInv.vio Proofs/Eqb.vio
Proofs/PC01.vos Proofs/PC01.vok Proofs/PC01.required_vos: Proofs/PC01.v Model/Mon.vos Model/MonC01.vos Proofs/Framework.vos Proofs/StoreLocks.vos Proofs/StorePromises.vos Proofs/Discipline.vos Proofs/SysInv.vos Proofs/Eqb.vos
Proofs/PC16.vo Proofs/PC16.glob Proofs/PC16.v.beautified Proofs/PC16.required_vo: Proofs/PC16.v Model/Mon.vo Proofs/StoreLocks.vo Proofs/StorePromises.vo Proofs/Eqb.vo
Proofs/PC16.vio: Proofs/PC16.v Model/Mon.vio Proofs/StoreLocks.vio Proofs/StorePromises.vio Proofs/Eqb.vio
Proofs/PC16.vos Proofs/PC16.vok Proofs/PC16.required_vos: Proofs/PC16.v Model/Mon.vos Proofs/StoreLocks.vos Proofs/StorePromises.vos Proofs/Eqb.vos
Proofs/PC05.vo Proofs/PC05.glob Proofs/PC05.v.beautified Proofs/PC05.required_vo: Proofs/PC05.v Model/Mon.vo Model/MonC05.vo Proofs/Framework.vo Proofs/StoreLocks.vo Proofs/StorePromises.vo Proofs/StoreCallbacks.vo Proofs/Discipline.vo Proofs/SysInv.vo Proofs/Eqb.vo
Proofs/PC05.vio: Proofs/PC05.v Model/Mon.vio Model/MonC05.vio Proofs/Framework.vio Proofs/StoreLocks.vio Proofs/StorePromises.vio Proofs/StoreCallbacks.vio Proofs/Discipline.vio Proofs/SysInv.vio Proofs/Eqb.vio
Proofs/PC05.vos Proofs/PC05.vok Proofs/PC05.required_vos: Proofs/PC05.v Model/Mon.vos Model/MonC05.vos Proofs/Framework.vos Proofs/StoreLocks.vos Proofs/StorePromises.vos Proofs/StoreCallbacks.vos Proofs/Discipline.vos Proofs/SysInv.vos Proofs/Eqb.vos
Proofs/PC04.vo Proofs/PC04.glob Proofs/PC04.v.beautified Proofs/PC04.required_vo: Proofs/PC04.v Model/Mon.vo Model/MonC04.vo Proofs/Framework.vo Proofs/StoreLocks.vo Proofs/StorePromises.vo Proofs/Discipline.vo Proofs/SysInv.vo Proofs/Eqb.vo
Proofs/PC04.vio: Proofs/PC04.v Model/Mon.vio Model/MonC04.vio Proofs/Framework.vio Proofs/StoreLocks.vio Proofs/StorePromises.vio Proofs/Discipline.vio Proofs/SysInv.vio Proofs/Eqb.vio
Proofs/PC04.vos Proofs/PC04.vok Proofs/PC04.required_vos: Proofs/PC04.v Model/Mon.vos Model/MonC04.vos Proofs/Framework.vos Proofs/StoreLocks.vos Proofs/StorePromises.vos Proofs/Discipline.vos Proofs/SysInv.vos Proofs/Eqb.vos
Proofs/PC04e.vo Proofs/PC04e.glob Proofs/PC04e.v.beautified Proofs/PC04e.required_vo: Proofs/PC04e.v Model/Mon.vo Model/MonC04.vo Proofs/Framework.vo Proofs/StorePromises.vo Proofs/Discipline.vo Proofs/SysInv.vo Proofs/Eqb.vo
Proofs/PC04e.vio: Proofs/PC04e.v Model/Mon.vio Model/MonC04.vio Proofs/Framework.vio Proofs/StorePromises.vio Proofs/Discipline.vio Proofs/SysInv.vio Proofs/Eqb.vio
Proofs/PC04e.vos Proofs/PC04e.vok Proofs/PC04e.required_vos: Proofs/PC04e.v Model/Mon.vos Model/MonC04.vos Proofs/Framework.vos Proofs/StorePromises.vos Proofs/Discipline.vos Proofs/SysInv.vos Proofs/Eqb.vos
Proofs/PC07.vo Proofs/PC07.glob Proofs/PC07.v.beautified Proofs/PC07.required_vo: Proofs/PC07.v Model/Mon.vo Model/MonC07.vo Proofs/Framework.vo Proofs/StoreLocks.vo Proofs/StorePromises.vo Proofs/StoreCallbacks.vo Proofs/Discipline.vo Proofs/SysInv.vo Proofs/Eqb.vo Proofs/PC16.vo Proofs/PC05.vo
Proofs/PC07.vio: Proofs/PC07.v Model/Mon.vio Model/MonC07.vio Proofs/Framework.vio Proofs/StoreLocks.vio Proofs/StorePromises.vio Proofs/StoreCallbacks.vio Proofs/Discipline.vio Proofs/SysInv.vio Proofs/Eqb.vio Proofs/PC16.vio Proofs/PC05.vio
Proofs/PC07.vos Proofs/PC07.vok Proofs/PC07.required_vos: Proofs/PC07.v Model/Mon.vos Model/MonC07.vos Proofs/Framework.vos Proofs/StoreLocks.vos Proofs/StorePromises.vos Proofs/StoreCallbacks.vos Proofs/Discipline.vos Proofs/SysInv.vos Proofs/Eqb.vos Proofs/PC16.vos Proofs/PC05.vos
Proofs/PC08.vo Proofs/PC08.glob Proofs/PC08.v.beautified Proofs/PC08.required_vo: Proofs/PC08.v Model/Mon.vo Model/MonC07.vo Model/MonC08.vo Proofs/Framework.vo Proofs/StoreLocks.vo Proofs/StorePromises.vo Proofs/StoreCallbacks.vo Proofs/Discipline.vo Proofs/SysInv.vo Proofs/Eqb.vo Proofs/PC16.vo Proofs/PC05.vo Proofs/PC07.vo
Proofs/PC08.vio: Proofs/PC08.v Model/Mon.vio Model/MonC07.vio Model/MonC08.vio Proofs/Framework.vio Proofs/StoreLocks.vio Proofs/StorePromises.vio Proofs/StoreCallbacks.vio Proofs/Discipline.vio Proofs/SysInv.vio Proofs/Eqb.vio Proofs/PC16.vio Proofs/PC05.vio Proofs/PC07.vio
Proofs/PC08.vos Proofs/PC08.vok Proofs/PC08.required_vos: Proofs/PC08.v Model/Mon.vos Model/MonC07.vos Model/MonC08.vos Proofs/Framework.vos Proofs/StoreLocks.vos Proofs/StorePromises.vos Proofs/StoreCallbacks.vos Proofs/Discipline.vos Proofs/SysInv.vos Proofs/Eqb.vos Proofs/PC16.vos Proofs/PC05.vos Proofs/PC07.vos
Proofs/PC08sel.vo Proofs/PC08sel.glob Proofs/PC08sel.v.beautified Proofs/PC08sel.required_vo: Proofs/PC08sel.v Model/Mon.vo Model/MonC08.vo Proofs/StoreCallbacks.vo
Proofs/PC08sel.vio: Proofs/PC08sel.v Model/Mon.vio Model/MonC08.vio Proofs/StoreCallbacks.vio
Proofs/PC08sel.vos Proofs/PC08sel.vok Proofs/PC08sel.required_vos: Proofs/PC08sel.v Model/Mon.vos Model/MonC08.vos Proofs/StoreCallbacks.vos
Proofs/PC03.vo Proofs/PC03.glob Proofs/PC03.v.beautified Proofs/PC03.required_vo: Proofs/PC03.v Model/Mon.vo Model/MonC03.vo Proofs/Eqb.vo
Proofs/PC03.vio: Proofs/PC03.v Model/Mon.vio Model/MonC03.vio Proofs/Eqb.vio
Proofs/PC03.vos Proofs/PC03.vok Proofs/PC03.required_vos: Proofs/PC03.v Model/Mon.vos Model/MonC03.vos Proofs/Eqb.vos
Proofs/Hist.vo Proofs/Hist.glob Proofs/Hist.v.beautified Proofs/Hist.required_vo: Proofs/Hist.v Model/Mon.vo Proofs/Framework.vo
Proofs/Hist.vio: Proofs/Hist.v Model/Mon.vio Proofs/Framework.vio
Proofs/Hist.vos Proofs/Hist.vok Proofs/Hist.required_vos: Proofs/Hist.v Model/Mon.vos Proofs/Framework.vos
Proofs/PT03.vo Proofs/PT03.glob Proofs/PT03.v.beautified Proofs/PT03.required_vo: Proofs/PT03.v Model/Mon.vo Model/MonC03.vo Proofs/Framework.vo Proofs/StoreLocks.vo Proofs/StorePromises.vo Proofs/StoreCallbacks.vo Proofs/Discipline.vo Proofs/SysInv.vo Proofs/Eqb.vo Proofs/PC03.vo Proofs/Hist.vo
Proofs/PT03.vio: Proofs/PT03.v Model/Mon.vio Model/MonC03.vio Proofs/Framework.vio Proofs/StoreLocks.vio Proofs/StorePromises.vio Proofs/StoreCallbacks.vio Proofs/Discipline.vio Proofs/SysInv.vio Proofs/Eqb.vio Proofs/PC03.vio Proofs/Hist.vio
Proofs/PT03.vos Proofs/PT03.vok Proofs/PT03.required_vos: Proofs/PT03.v Model/Mon.vos Model/MonC03.vos Proofs/Framework.vos Proofs/StoreLocks.vos Proofs/StorePromises.vos Proofs/StoreCallbacks.vos Proofs/Discipline.vos Proofs/SysInv.vos Proofs/Eqb.vos Proofs/PC03.vos Proofs/Hist.vos
Proofs/PC03once.vo Proofs/PC03once.glob Proofs/PC03once.v.beautified Proofs/PC03once.required_vo: Proofs/PC03once.v Model/Mon.vo Proofs/StorePromises.vo Model/MonC03.vo Proofs/PC03.vo
Proofs/PC03once.vio: Proofs/PC03once.v Model/Mon.vio Proofs/StorePromises.vio Model/MonC03.vio Proofs/PC03.vio
Proofs/PC03once.vos Proofs/PC03once.vok Proofs/PC03once.required_vos: Proofs/PC03once.v Model/Mon.vos Proofs/StorePromises.vos Model/MonC03.vos Proofs/PC03.vos
Proofs/PT03b.vo Proofs/PT03b.glob Proofs/PT03b.v.beautified Proofs/PT03b.required_vo: Proofs/PT03b.v Model/Mon.vo Model/MonC03.vo Proofs/Framework.vo Proofs/StoreLocks.vo Proofs/StorePromises.vo Proofs/StoreCallbacks.vo Proofs/Discipline.vo Proofs/SysInv.vo Proofs/Eqb.vo Proofs/PC03.vo Proofs/Hist.vo Proofs/PT03.vo Proofs/PC03once.vo
Proofs/PT03b.vio: Proofs/PT03b.v Model/Mon.vio Model/MonC03.vio Proofs/Framework.vio Proofs/StoreLocks.vio Proofs/StorePromises.vio Proofs/StoreCallbacks.vio Proofs/Discipline.vio Proofs/SysInv.vio Proofs/Eqb.vio Proofs/PC03.vio Proofs/Hist.vio Proofs/PT03.vio Proofs/PC03once.vio
Proofs/PT03b.vos Proofs/PT03b.vok Proofs/PT03b.required_vos: Proofs/PT03b.v Model/Mon.vos Model/MonC03.vos Proofs/Framework.vos Proofs/StoreLocks.vos Proofs/StorePromises.vos Proofs/StoreCallbacks.vos Proofs/Discipline.vos Proofs/SysInv.vos Proofs/Eqb.vos Proofs/PC03.vos Proofs/Hist.vos Proofs/PT03.vos Proofs/PC03once.vos
Proofs/Batch.vo Proofs/Batch.glob Proofs/Batch.v.beautified Proofs/Batch.required_vo: Proofs/Batch.v Model/Mon.vo Proofs/StoreLocks.vo Proofs/StorePromises.vo Proofs/StoreCallbacks.vo Proofs/Discipline.vo Proofs/SysInv.vo
Proofs/Batch.vio: Proofs/Batch.v Model/Mon.vio Proofs/StoreLocks.vio Proofs/StorePromises.vio Proofs/StoreCallbacks.vio Proofs/Discipline.vio Proofs/SysInv.vio
Proofs/Batch.vos Proofs/Batch.vok Proofs/Batch.required_vos: Proofs/Batch.v Model/Mon.vos Proofs/StoreLocks.vos Proofs/StorePromises.vos Proofs/StoreCallbacks.vos Proofs/Discipline.vos Proofs/SysInv.vos
Proofs/PT05.vo Proofs/PT05.glob Proofs/PT05.v.beautified Proofs/PT05.required_vo: Proofs/PT05.v Model/Mon.vo Model/MonC05.vo Model/MonC03.vo Model/MonC05h.vo Proofs/Framework.vo Proofs/StoreLocks.vo Proofs/StorePromises.vo Proofs/StoreCallbacks.vo Proofs/Discipline.vo Proofs/SysInv.vo Proofs/Eqb.vo Proofs/PC03.vo Proofs/PC05.vo Proofs/Hist.vo Proofs/PT03.vo Proofs/Batch.vo
Proofs/PT05.vio: Proofs/PT05.v Model/Mon.vio Model/MonC05.vio Model/MonC03.vio Model/MonC05h.vio Proofs/Framework.vio Proofs/StoreLocks.vio Proofs/StorePromises.vio Proofs/StoreCallbacks.vio Proofs/Discipline.vio Proofs/SysInv.vio Proofs/Eqb.vio Proofs/PC03.vio Proofs/PC05.vio Proofs/Hist.vio Proofs/PT03.vio Proofs/Batch.vio
Proofs/PT05.vos Proofs/PT05.vok Proofs/PT05.required_vos: Proofs/PT05.v Model/Mon.vos Model/MonC05.vos Model/MonC03.vos Model/MonC05h.vos Proofs/Framework.vos Proofs/StoreLocks.vos Proofs/StorePromises.vos Proofs/StoreCallbacks.vos Proofs/Discipline.vos Proofs/SysInv.vos Proofs/Eqb.vos Proofs/PC03.vos Proofs/PC05.vos Proofs/Hist.vos Proofs/PT03.vos Proofs/Batch.vos
Proofs/PT13.vo Proofs/PT13.glob Proofs/PT13.v.beautified Proofs/PT13.required_vo: Proofs/PT13.v Model/Mon.vo Proofs/Framework.vo Proofs/StoreLocks.vo Proofs/StorePromises.vo Proofs/StoreCallbacks.vo Proofs/Discipline.vo Proofs/SysInv.vo Proofs/Eqb.vo Proofs/PC05.vo Proofs/Batch.vo
Proofs/PT13.vio: Proofs/PT13.v Model/Mon.vio Proofs/Framework.vio Proofs/StoreLocks.vio Proofs/StorePromises.vio Proofs/StoreCallbacks.vio Proofs/Discipline.vio Proofs/SysInv.vio Proofs/Eqb.vio Proofs/PC05.vio Proofs/Batch.vio
Proofs/PT13.vos Proofs/PT13.vok Proofs/PT13.required_vos: Proofs/PT13.v Model/Mon.vos Proofs/Framework.vos Proofs/StoreLocks.vos Proofs/StorePromises.vos Proofs/StoreCallbacks.vos Proofs/Discipline.vos Proofs/SysInv.vos Proofs/Eqb.vos Proofs/PC05.vos Proofs/Batch.vos
Proofs/PC14.vo Proofs/PC14.glob Proofs/PC14.v.beautified Proofs/PC14.required_vo: Proofs/PC14.v Model/Mon.vo Proofs/Eqb.vo Proofs/StorePromises.vo
Proofs/PC14.vio: Proofs/PC14.v Model/Mon.vio Proofs/Eqb.vio Proofs/StorePromises.vio
Proofs/PC14.vos Proofs/PC14.vok Proofs/PC14.required_vos: Proofs/PC14.v Model/Mon.vos Proofs/Eqb.vos Proofs/StorePromises.vos
Proofs/PC10.vo Proofs/PC10.glob Proofs/PC10.v.beautified Proofs/PC10.required_vo: Proofs/PC10.v Model/Mon.vo Model/MonC10.vo Proofs/Eqb.vo
Proofs/PC10.vio: Proofs/PC10.v Model/Mon.vio Model/MonC10.vio Proofs/Eqb.vio
Proofs/PC10.vos Proofs/PC10.vok Proofs/PC10.required_vos: Proofs/PC10.v Model/Mon.vos Model/MonC10.vos Proofs/Eqb.vos
Proofs/PC06.vo Proofs/PC06.glob Proofs/PC06.v.beautified Proofs/PC06.required_vo: Proofs/PC06.v Model/Mon.vo Model/MonC06.vo Model/MonC01.vo Model/MonC05.vo Model/MonC08.vo Proofs/Framework.vo Proofs/StoreLocks.vo Proofs/StorePromises.vo Proofs/StoreCallbacks.vo Proofs/Discipline.vo Proofs/SysInv.vo Proofs/Eqb.vo Proofs/PC16.vo Proofs/PC05.vo Proofs/PC01.vo Proofs/PC08.vo
Proofs/PC06.vio: Proofs/PC06.v Model/Mon.vio Model/MonC06.vio Model/MonC01.vio Model/MonC05.vio Model/MonC08.vio Proofs/Framework.vio Proofs/StoreLocks.vio Proofs/StorePromises.vio Proofs/StoreCallbacks.vio Proofs/Discipline.vio Proofs/SysInv.vio Proofs/Eqb.vio Proofs/PC16.vio Proofs/PC05.vio Proofs/PC01.vio Proofs/PC08.vio
Proofs/PC06.vos Proofs/PC06.vok Proofs/PC06.required_vos: Proofs/PC06.v Model/Mon.vos Model/MonC06.vos Model/MonC01.vos Model/MonC05.vos Model/MonC08.vos Proofs/Framework.vos Proofs/StoreLocks.vos Proofs/StorePromises.vos Proofs/StoreCallbacks.vos Proofs/Discipline.vos Proofs/SysInv.vos Proofs/Eqb.vos Proofs/PC16.vos Proofs/PC05.vos Proofs/PC01.vos Proofs/PC08.vos
Proofs/PC18.vo Proofs/PC18.glob Proofs/PC18.v.beautified Proofs/PC18.required_vo: Proofs/PC18.v Model/Poll.vo
Proofs/PC18.vio: Proofs/PC18.v Model/Poll.vio
Proofs/PC18.vos Proofs/PC18.vok Proofs/PC18.required_vos: Proofs/PC18.v Model/Poll.vos
Proofs/PC12.vo Proofs/PC12.glob Proofs/PC12.v.beautified Proofs/PC12.required_vo: Proofs/PC12.v Model/Kernel.vo
Proofs/PC12.vio: Proofs/PC12.v Model/Kernel.vio
Proofs/PC12.vos Proofs/PC12.vok Proofs/PC12.required_vos: Proofs/PC12.v Model/Kernel.vos
Proofs/PC11.vo Proofs/PC11.glob Proofs/PC11.v.beautified Proofs/PC11.required_vo: Proofs/PC11.v Model/Mon.vo Model/MonC11.vo Proofs/StorePromises.vo Proofs/Eqb.vo
Proofs/PC11.vio: Proofs/PC11.v Model/Mon.vio Model/MonC11.vio Proofs/StorePromises.vio Proofs/Eqb.vio
Proofs/PC11.vos Proofs/PC11.vok Proofs/PC11.required_vos: Proofs/PC11.v Model/Mon.vos Model/MonC11.vos Proofs/StorePromises.vos Proofs/Eqb.vos
Proofs/PC02.vo Proofs/PC02.glob Proofs/PC02.v.beautified Proofs/PC02.required_vo: Proofs/PC02.v Model/Mon.vo Model/MonC02.vo
Proofs/PC02.vio: Proofs/PC02.v Model/Mon.vio Model/MonC02.vio
Proofs/PC02.vos Proofs/PC02.vok Proofs/PC02.required_vos: Proofs/PC02.v Model/Mon.vos Model/MonC02.vos
Proofs/PC13.vo Proofs/PC13.glob Proofs/PC13.v.beautified Proofs/PC13.required_vo: Proofs/PC13.v Model/Mon.vo Model/Valid.vo Proofs/Discipline.vo Proofs/SysInv.vo
Proofs/PC13.vio: Proofs/PC13.v Model/Mon.vio Model/Valid.vio Proofs/Discipline.vio Proofs/SysInv.vio
Proofs/PC13.vos Proofs/PC13.vok Proofs/PC13.required_vos: Proofs/PC13.v Model/Mon.vos Model/Valid.vos Proofs/Discipline.vos Proofs/SysInv.vos
Proofs/PC15.vo Proofs/PC15.glob Proofs/PC15.v.beautified Proofs/PC15.required_vo: Proofs/PC15.v Model/Equiv.vo
Proofs/PC15.vio: Proofs/PC15.v Model/Equiv.vio
Proofs/PC15.vos Proofs/PC15.vok Proofs/PC15.required_vos: Proofs/PC15.v Model/Equiv.vos
Proofs/PAio.vo Proofs/PAio.glob Proofs/PAio.v.beautified Proofs/PAio.required_vo: Proofs/PAio.v Model/Aio.vo
Proofs/PAio.vio: Proofs/PAio.v Model/Aio.vio
Proofs/PAio.vos Proofs/PAio.vok Proofs/PAio.required_vos: Proofs/PAio.v Model/Aio.vos
Props/C09.vo Props/C09.glob Props/C09.v.beautified Props/C09.required_vo: Props/C09.v Model/Mon.vo Model/MonC09.vo Proofs/StoreLocks.vo Proofs/Discipline.vo Proofs/SysInv.vo Proofs/PC09.vo
Props/C09.vio: Props/C09.v Model/Mon.vio Model/MonC09.vio Proofs/StoreLocks.vio Proofs/Discipline.vio Proofs/SysInv.vio Proofs/PC09.vio
Props/C09.vos Props/C09.vok Props/C09.required_vos: Props/C09.v Model/Mon.vos Model/MonC09.vos Proofs/StoreLocks.vos Proofs/Discipline.vos Proofs/SysInv.vos Proofs/PC09.vos
Props/C01.vo Props/C01.glob Props/C01.v.beautified Props/C01.required_vo: Props/C01.v Model/Mon.vo Model/MonC01.vo Proofs/StoreLocks.vo Proofs/StorePromises.vo Proofs/Discipline.vo Proofs/SysInv.vo Proofs/PC01.vo
Props/C01.vio: Props/C01.v Model/Mon.vio Model/MonC01.vio Proofs/StoreLocks.vio Proofs/StorePromises.vio Proofs/Discipline.vio Proofs/SysInv.vio Proofs/PC01.vio
Props/C01.vos Props/C01.vok Props/C01.required_vos: Props/C01.v Model/Mon.vos Model/MonC01.vos Proofs/StoreLocks.vos Proofs/StorePromises.vos Proofs/Discipline.vos Proofs/SysInv.vos Proofs/PC01.vos
Props/C16.vo Props/C16.glob Props/C16.v.beautified Props/C16.required_vo: Props/C16.v Model/Mon.vo Proofs/StoreLocks.vo Proofs/StorePromises.vo Proofs/PC16.vo Gen/Sql.vo Spec/SqlRef.vo
Props/C16.vio: Props/C16.v Model/Mon.vio Proofs/StoreLocks.vio Proofs/StorePromises.vio Proofs/PC16.vio Gen/Sql.vio Spec/SqlRef.vio
Props/C16.vos Props/C16.vok Props/C16.required_vos: Props/C16.v Model/Mon.vos Proofs/StoreLocks.vos Proofs/StorePromises.vos Proofs/PC16.vos Gen/Sql.vos Spec/SqlRef.vos
Props/C05.vo Props/C05.glob Props/C05.v.beautified Props/C05.required_vo: Props/C05.v Model/Mon.vo Model/MonC05.vo Model/MonC03.vo Model/MonC05h.vo Proofs/StoreLocks.vo Proofs/StorePromises.vo Proofs/StoreCallbacks.vo Proofs/Discipline.vo Proofs/SysInv.vo Proofs/PC05.vo Proofs/PT05.vo
Props/C05.vio: Props/C05.v Model/Mon.vio Model/MonC05.vio Model/MonC03.vio Model/MonC05h.vio Proofs/StoreLocks.vio Proofs/StorePromises.vio Proofs/StoreCallbacks.vio Proofs/Discipline.vio Proofs/SysInv.vio Proofs/PC05.vio Proofs/PT05.vio
Props/C05.vos Props/C05.vok Props/C05.required_vos: Props/C05.v Model/Mon.vos Model/MonC05.vos Model/MonC03.vos Model/MonC05h.vos Proofs/StoreLocks.vos Proofs/StorePromises.vos Proofs/StoreCallbacks.vos Proofs/Discipline.vos Proofs/SysInv.vos Proofs/PC05.vos Proofs/PT05.vos
Props/C04.vo Props/C04.glob Props/C04.v.beautified Props/C04.required_vo: Props/C04.v Model/Mon.vo Model/MonC04.vo Proofs/StoreLocks.vo Proofs/StorePromises.vo Proofs/Discipline.vo Proofs/SysInv.vo Proofs/PC04.vo Proofs/PC04e.vo
Props/C04.vio: Props/C04.v Model/Mon.vio Model/MonC04.vio Proofs/StoreLocks.vio Proofs/StorePromises.vio Proofs/Discipline.vio Proofs/SysInv.vio Proofs/PC04.vio Proofs/PC04e.vio
Props/C04.vos Props/C04.vok Props/C04.required_vos: Props/C04.v Model/Mon.vos Model/MonC04.vos Proofs/StoreLocks.vos Proofs/StorePromises.vos Proofs/Discipline.vos Proofs/SysInv.vos Proofs/PC04.vos Proofs/PC04e.vos
Props/C07.vo Props/C07.glob Props/C07.v.beautified Props/C07.required_vo: Props/C07.v Model/Mon.vo Model/MonC07.vo Proofs/StoreLocks.vo Proofs/StorePromises.vo Proofs/StoreCallbacks.vo Proofs/Discipline.vo Proofs/SysInv.vo Proofs/PC05.vo Proofs/PC07.vo
Props/C07.vio: Props/C07.v Model/Mon.vio Model/MonC07.vio Proofs/StoreLocks.vio Proofs/StorePromises.vio Proofs/StoreCallbacks.vio Proofs/Discipline.vio Proofs/SysInv.vio Proofs/PC05.vio Proofs/PC07.vio
Props/C07.vos Props/C07.vok Props/C07.required_vos: Props/C07.v Model/Mon.vos Model/MonC07.vos Proofs/StoreLocks.vos Proofs/StorePromises.vos Proofs/StoreCallbacks.vos Proofs/Discipline.vos Proofs/SysInv.vos Proofs/PC05.vos Proofs/PC07.vos
Props/C08.vo Props/C08.glob Props/C08.v.beautified Props/C08.required_vo: Props/C08.v Model/Mon.vo Model/MonC07.vo Model/MonC08.vo Proofs/SysInv.vo Proofs/PC08.vo Proofs/PC08sel.vo
Props/C08.vio: Props/C08.v Model/Mon.vio Model/MonC07.vio Model/MonC08.vio Proofs/SysInv.vio Proofs/PC08.vio Proofs/PC08sel.vio
Props/C08.vos Props/C08.vok Props/C08.required_vos: Props/C08.v Model/Mon.vos Model/MonC07.vos Model/MonC08.vos Proofs/SysInv.vos Proofs/PC08.vos Proofs/PC08sel.vos
Props/C03.vo Props/C03.glob Props/C03.v.beautified Props/C03.required_vo: Props/C03.v Model/Mon.vo Model/MonC01.vo Model/MonC04.vo Model/MonC03.vo Proofs/SysInv.vo Proofs/PC01.vo Proofs/PC04.vo Proofs/PC03.vo Proofs/PT03.vo Proofs/StorePromises.vo Proofs/PC03once.vo Proofs/PT03b.vo
Props/C03.vio: Props/C03.v Model/Mon.vio Model/MonC01.vio Model/MonC04.vio Model/MonC03.vio Proofs/SysInv.vio Proofs/PC01.vio Proofs/PC04.vio Proofs/PC03.vio Proofs/PT03.vio Proofs/StorePromises.vio Proofs/PC03once.vio Proofs/PT03b.vio
Props/C03.vos Props/C03.vok Props/C03.required_vos: Props/C03.v Model/Mon.vos Model/MonC01.vos Model/MonC04.vos Model/MonC03.vos Proofs/SysInv.vos Proofs/PC01.vos Proofs/PC04.vos Proofs/PC03.vos Proofs/PT03.vos Proofs/StorePromises.vos Proofs/PC03once.vos Proofs/PT03b.vos
Props/C14.vo Props/C14.glob Props/C14.v.beautified Props/C14.required_vo: Props/C14.v Model/Mon.vo Model/MonC14.vo Proofs/StorePromises.vo Proofs/PC14.vo
Props/C14.vio: Props/C14.v Model/Mon.vio Model/MonC14.vio Proofs/StorePromises.vio Proofs/PC14.vio
Props/C14.vos Props/C14.vok Props/C14.required_vos: Props/C14.v Model/Mon.vos Model/MonC14.vos Proofs/StorePromises.vos Proofs/PC14.vos
Props/C10.vo Props/C10.glob Props/C10.v.beautified Props/C10.required_vo: Props/C10.v Model/Mon.vo Model/MonC10.vo Proofs/PC10.vo
Props/C10.vio: Props/C10.v Model/Mon.vio Model/MonC10.vio Proofs/PC10.vio
Props/C10.vos Props/C10.vok Props/C10.required_vos: Props/C10.v Model/Mon.vos Model/MonC10.vos Proofs/PC10.vos
Props/C06.vo Props/C06.glob Props/C06.v.beautified Props/C06.required_vo: Props/C06.v Model/Mon.vo Model/MonC06.vo Model/MonC01.vo Model/MonC05.vo Model/MonC08.vo Proofs/SysInv.vo Proofs/PC06.vo Proofs/PC01.vo Proofs/PC05.vo Proofs/PC08.vo Model/Commit.vo Gen/Sql.vo
Props/C06.vio: Props/C06.v Model/Mon.vio Model/MonC06.vio Model/MonC01.vio Model/MonC05.vio Model/MonC08.vio Proofs/SysInv.vio Proofs/PC06.vio Proofs/PC01.vio Proofs/PC05.vio Proofs/PC08.vio Model/Commit.vio Gen/Sql.vio
Props/C06.vos Props/C06.vok Props/C06.required_vos: Props/C06.v Model/Mon.vos Model/MonC06.vos Model/MonC01.vos Model/MonC05.vos Model/MonC08.vos Proofs/SysInv.vos Proofs/PC06.vos Proofs/PC01.vos Proofs/PC05.vos Proofs/PC08.vos Model/Commit.vos Gen/Sql.vos
Props/C19.vo Props/C19.glob Props/C19.v.beautified Props/C19.required_vo: Props/C19.v Model/Route.vo Model/Coro.vo
Props/C19.vio: Props/C19.v Model/Route.vio Model/Coro.vio
Props/C19.vos Props/C19.vok Props/C19.required_vos: Props/C19.v Model/Route.vos Model/Coro.vos
Props/C18.vo Props/C18.glob Props/C18.v.beautified Props/C18.required_vo: Props/C18.v Model/Poll.vo Proofs/PC18.vo
Props/C18.vio: Props/C18.v Model/Poll.vio Proofs/PC18.vio
Props/C18.vos Props/C18.vok Props/C18.required_vos: Props/C18.v Model/Poll.vos Proofs/PC18.vos
Props/C20.vo Props/C20.glob Props/C20.v.beautified Props/C20.required_vo: Props/C20.v Model/Mon.vo Model/MonC01.vo Model/MonC03.vo Proofs/StorePromises.vo Proofs/SysInv.vo Proofs/PC01.vo Proofs/PC03.vo
Props/C20.vio: Props/C20.v Model/Mon.vio Model/MonC01.vio Model/MonC03.vio Proofs/StorePromises.vio Proofs/SysInv.vio Proofs/PC01.vio Proofs/PC03.vio
Props/C20.vos Props/C20.vok Props/C20.required_vos: Props/C20.v Model/Mon.vos Model/MonC01.vos Model/MonC03.vos Proofs/StorePromises.vos Proofs/SysInv.vos Proofs/PC01.vos Proofs/PC03.vos
Props/C12.vo Props/C12.glob Props/C12.v.beautified Props/C12.required_vo: Props/C12.v Model/Kernel.vo Proofs/PC12.vo Model/Aio.vo Proofs/PAio.vo Model/Loop.vo
Props/C12.vio: Props/C12.v Model/Kernel.vio Proofs/PC12.vio Model/Aio.vio Proofs/PAio.vio Model/Loop.vio
Props/C12.vos Props/C12.vok Props/C12.required_vos: Props/C12.v Model/Kernel.vos Proofs/PC12.vos Model/Aio.vos Proofs/PAio.vos Model/Loop.vos
Props/C11.vo Props/C11.glob Props/C11.v.beautified Props/C11.required_vo: Props/C11.v Model/Mon.vo Model/MonC11.vo Proofs/StorePromises.vo Proofs/PC11.vo
Props/C11.vio: Props/C11.v Model/Mon.vio Model/MonC11.vio Proofs/StorePromises.vio Proofs/PC11.vio
Props/C11.vos Props/C11.vok Props/C11.required_vos: Props/C11.v Model/Mon.vos Model/MonC11.vos Proofs/StorePromises.vos Proofs/PC11.vos
Props/C02.vo Props/C02.glob Props/C02.v.beautified Props/C02.required_vo: Props/C02.v Model/Mon.vo Model/MonC01.vo Model/MonC02.vo Model/MonC03.vo Proofs/SysInv.vo Proofs/PC01.vo Proofs/PC03.vo Proofs/PC02.vo
Props/C02.vio: Props/C02.v Model/Mon.vio Model/MonC01.vio Model/MonC02.vio Model/MonC03.vio Proofs/SysInv.vio Proofs/PC01.vio Proofs/PC03.vio Proofs/PC02.vio
Props/C02.vos Props/C02.vok Props/C02.required_vos: Props/C02.v Model/Mon.vos Model/MonC01.vos Model/MonC02.vos Model/MonC03.vos Proofs/SysInv.vos Proofs/PC01.vos Proofs/PC03.vos Proofs/PC02.vos
Props/C13.vo Props/C13.glob Props/C13.v.beautified Props/C13.required_vo: Props/C13.v Model/Mon.vo Model/MonC13.vo Model/MonC05.vo Model/MonC03.vo Model/MonC05h.vo Model/Valid.vo Model/Route.vo Model/Plug.vo Proofs/Discipline.vo Proofs/SysInv.vo Proofs/PC13.vo Proofs/PT05.vo Proofs/PT13.vo Spec/WitnessD2.vo
Props/C13.vio: Props/C13.v Model/Mon.vio Model/MonC13.vio Model/MonC05.vio Model/MonC03.vio Model/MonC05h.vio Model/Valid.vio Model/Route.vio Model/Plug.vio Proofs/Discipline.vio Proofs/SysInv.vio Proofs/PC13.vio Proofs/PT05.vio Proofs/PT13.vio Spec/WitnessD2.vio
Props/C13.vos Props/C13.vok Props/C13.required_vos: Props/C13.v Model/Mon.vos Model/MonC13.vos Model/MonC05.vos Model/MonC03.vos Model/MonC05h.vos Model/Valid.vos Model/Route.vos Model/Plug.vos Proofs/Discipline.vos Proofs/SysInv.vos Proofs/PC13.vos Proofs/PT05.vos Proofs/PT13.vos Spec/WitnessD2.vos
Props/C15.vo Props/C15.glob Props/C15.v.beautified Props/C15.required_vo: Props/C15.v Gen/Status.vo Spec/Front15.vo Model/Coro.vo Model/Equiv.vo Model/Render.vo Proofs/PC15.vo
Props/C15.vio: Props/C15.v Gen/Status.vio Spec/Front15.vio Model/Coro.vio Model/Equiv.vio Model/Render.vio Proofs/PC15.vio
Props/C15.vos Props/C15.vok Props/C15.required_vos: Props/C15.v Gen/Status.vos Spec/Front15.vos Model/Coro.vos Model/Equiv.vos Model/Render.vos Proofs/PC15.vos
Props/C17.vo Props/C17.glob Props/C17.v.beautified Props/C17.required_vo: Props/C17.v Gen/Sql.vo Gen/Flow.vo Spec/SqlRef.vo Spec/FlowRef.vo Spec/Dialect.vo
Props/C17.vio: Props/C17.v Gen/Sql.vio Gen/Flow.vio Spec/SqlRef.vio Spec/FlowRef.vio Spec/Dialect.vio
Props/C17.vos Props/C17.vok Props/C17.required_vos: Props/C17.v Gen/Sql.vos Gen/Flow.vos Spec/SqlRef.vos Spec/FlowRef.vos Spec/Dialect.vos
