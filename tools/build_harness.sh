#!/bin/bash
# Build the correspondence harness from /repo's CURRENT working tree.  The harness sources live in
# /verif/harness and are injected with `go build -overlay` (nothing is written to /repo).
set -euo pipefail
VERIF="$(cd "$(dirname "$0")/.." && pwd)"
REPO="${REPO:-/repo}"
export GOFLAGS=-mod=mod GOPROXY=off GOSUMDB=off GOTOOLCHAIN=local CGO_ENABLED=1
mkdir -p "$VERIF/build"
python3 - "$VERIF" "$REPO" > "$VERIF/build/overlay.json" <<'PY'
import json, os, sys
verif, repo = sys.argv[1], sys.argv[2]
rep = {}
# harness main package(s): /verif/harness/<name>/*.go -> <repo>/internal/<name>/*.go
for name in sorted(os.listdir(os.path.join(verif, "harness"))):
    d = os.path.join(verif, "harness", name)
    if not os.path.isdir(d) or name == "hooks":
        continue
    for f in sorted(os.listdir(d)):
        if f.endswith(".go"):
            rep[os.path.join(repo, "internal", name, f)] = os.path.join(d, f)
# hook files: /verif/harness/hooks/<path with __ for />/file.go -> <repo>/<path>/file.go
hooks = os.path.join(verif, "harness", "hooks")
if os.path.isdir(hooks):
    for sub in sorted(os.listdir(hooks)):
        d = os.path.join(hooks, sub)
        if not os.path.isdir(d):
            continue
        target = sub.replace("__", "/")
        for f in sorted(os.listdir(d)):
            if f.endswith(".go"):
                rep[os.path.join(repo, target, f)] = os.path.join(d, f)
json.dump({"Replace": rep}, sys.stdout, indent=1)
PY
cd "$REPO"
go build -tags verif -overlay "$VERIF/build/overlay.json" -o "$VERIF/build/verifh" ./internal/verifh
