#!/usr/bin/env python3
"""Regenerates MANIFEST.json from tools/props.py so the two never drift."""
import json, os, sys
sys.path.insert(0, os.path.dirname(os.path.abspath(__file__)))
from props import PROPS, NOT_APPLICABLE
V = os.path.dirname(os.path.dirname(os.path.abspath(__file__)))
checks = []
for pid in sorted(PROPS):
    sp = PROPS[pid]
    checks.append({
        'property_id': pid,
        'quick_cmd': 'tools/check %s --tier quick' % pid,
        'thorough_cmd': 'tools/check %s --tier thorough' % pid,
        'evidence_file': '/verif/evidence/%s.json' % pid,
        'replay_cmd_template': 'tools/check %s --replay {path}' % pid,
        'engine': 'rocq-model+correspondence',
        'level_claimed': {'category': 'proof', 'text': sp['level_text'], 'design_ref': sp.get('design_ref', 'DESIGN.md §9 ' + pid)},
        'level_note': sp['level_note'],
        'technique': sp.get('technique', 'machine-checked proof in Rocq (Coq 8.16.1) over an executable model; correspondence check (real code vs model, vm_compute replay) + regenerated definitions'),
    })
m = {
    'version': 1,
    'setup_cmd': 'tools/setup.sh',
    'hooks': {
        'guard': 'verif',
        'enable': 'go build -tags verif -overlay /verif/build/overlay.json ./internal/verifh  (tools/build_harness.sh; all harness and hook files live in /verif/harness and are injected by the overlay, /repo is not modified)',
        'baseline_off_cmd': 'cd /repo && GOFLAGS=-mod=mod go test -vet=off -count=1 ./...',
        'source_commits': [],
        'add_only': True,
    },
    'engines': [{'name': 'rocq-model+correspondence', 'path': '/verif/coq + /verif/harness + /verif/tools',
                 'serves_properties': sorted(PROPS), 'kind_free_text': 'Coq 8.16.1 development (model, proofs, property theorems), Go correspondence harness built into resonate with go build -overlay, Python driver'}],
    'checks': checks,
    'not_applicable': [{'property_id': p, 'reason': r} for p, r in sorted(NOT_APPLICABLE.items())],
    'notes': 'Every check rebuilds the harness from /repo\'s working tree, regenerates coq/Gen, runs make (full .vo), replays implementation traces on the model and evaluates the property monitor. See DESIGN.md.',
}
json.dump(m, open(os.path.join(V, 'MANIFEST.json'), 'w'), indent=1)
print('checks:', len(checks), 'not_applicable:', len(m['not_applicable']))
