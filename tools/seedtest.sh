#!/bin/bash
# applies a seeded change to /repo, runs the checks of the given properties, and ALWAYS reverts /repo
# usage: tools/seedtest.sh <seed-id> <tier> <property>...
set -u
V="$(cd "$(dirname "$0")/.." && pwd)"
SEED="$1"; TIER="$2"; shift 2
[ -z "$(git -C /repo status --porcelain)" ] || { echo "/repo is not clean"; exit 2; }
git -C /repo apply "$V/seeded/$SEED/patch.diff" || exit 2
# the evidence files are for clean-tree runs: keep them aside and put them back afterwards; rebuild the harness and the
# regenerated Coq files from the clean tree at the end
SAVE=$(mktemp -d)
cp -a "$V/evidence/." "$SAVE/" 2>/dev/null
trap 'git -C /repo checkout -- . ; git -C /repo clean -fdq; cp -a "$SAVE/." "$V/evidence/"; rm -rf "$SAVE"; "$V/tools/build_harness.sh" >/dev/null 2>&1; "$V/build/verifh" gen -repo /repo -out "$V/coq/Gen" >/dev/null 2>&1' EXIT
for P in "$@"; do
  OUT=$("$V/tools/check" "$P" --tier "$TIER" 2>&1); RC=$?
  echo "$OUT" > /tmp/seedtest_last.out 2>/dev/null
  echo "seed=$SEED property=$P tier=$TIER exit=$RC"
  echo "$OUT" | grep -E "^VIOLATION|^KNOWN" | head -5
  for f in $(echo "$OUT" | grep -oE "replay=[^ ]+" | head -1 | cut -d= -f2); do python3 - "$f" <<'PY'
import json,sys
try:
    r=json.load(open(sys.argv[1])); print('   replay kind:', r.get('kind'), '| codes:', r.get('codes') or r.get('violations') or '', '|', str(r.get('what',''))[:200])
except Exception as e: print('   (replay unreadable)', e)
PY
  done
done
