#!/bin/bash
# Confirms a seeded change kept under /verif/seeded/<id>: in a scratch worktree of /repo it must compile, pass the
# existing suite, and its demonstration must fail with the change and pass without it.
set -u
ID="$1"; DEMO_PKG="$2"; RUNARGS="${3:-}"
V="$(cd "$(dirname "$0")/.." && pwd)"
export GOFLAGS=-mod=mod GOPROXY=off GOSUMDB=off GOTOOLCHAIN=local
W=/tmp/seedchk_$ID
git -C /repo worktree remove --force $W 2>/dev/null
git -C /repo worktree add -q --detach $W HEAD || exit 2
cd $W
git apply "$V/seeded/$ID/patch.diff" || { echo "PATCH DOES NOT APPLY"; exit 2; }
go build ./... || { echo "BUILD FAILS"; exit 2; }
SUITE=$(go test -vet=off -count=1 ./... 2>&1 | grep -v "no test files" | grep -v "^ok" | head -5)
cp -r "$V/seeded/$ID/demo/." .
WITH=$(go test -vet=off -count=1 $RUNARGS $DEMO_PKG 2>&1 | tail -3 | tr '\n' ' ')
git apply -R "$V/seeded/$ID/patch.diff"
WITHOUT=$(go test -vet=off -count=1 $RUNARGS $DEMO_PKG 2>&1 | tail -3 | tr '\n' ' ')
echo "ID=$ID suite_failures=[${SUITE}] with_change=[${WITH}] without_change=[${WITHOUT}]"
cd /; git -C /repo worktree remove --force $W
