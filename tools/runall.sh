#!/bin/bash
# runs every claimed check (tier = $1, default quick) one after the other; prints one line per property
V="$(cd "$(dirname "$0")/.." && pwd)"
TIER="${1:-quick}"
for P in $(python3 -c "
import json;print(' '.join(c['property_id'] for c in json.load(open('$V/MANIFEST.json'))['checks']))"); do
  S=$(date +%s)
  OUT=$("$V/tools/check" "$P" --tier "$TIER" 2>&1); RC=$?
  echo "$P exit=$RC $(( $(date +%s) - S ))s $(echo "$OUT" | grep -E '^VIOLATION|^KNOWN' | cut -c1-120 | tr '\n' '|')"
done
