#!/bin/bash
# Re-checks every compiled property file (and everything it depends on) with Coq's independent checker and lists
# the axioms the whole development relies on.  Long (tens of minutes); run once per tree, output kept in
# /verif/coqchk_report.txt.
V="$(cd "$(dirname "$0")/.." && pwd)"
cd "$V/coq" || exit 2
MODS=$(ls Props/*.v | sed 's#Props/\(.*\)\.v#RV.Props.\1#' | tr '\n' ' ')
( echo "coqchk -silent -o -Q . RV $MODS"; date; timeout 7200 coqchk -silent -o -Q . RV $MODS 2>&1; echo "exit=$?"; date ) > "$V/coqchk_report.txt"
tail -25 "$V/coqchk_report.txt"
