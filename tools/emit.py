#!/usr/bin/env python3
"""Turn harness traces (JSON lines, generic terms; see harness/verifh/enc.go) into a Coq file that replays
them on the model with vm_compute.  Every distinct string, row and composite term is interned as a
top-level Definition (measured: two orders of magnitude faster than inline terms)."""
import json, sys

class Emitter:
    def __init__(self, threshold=48):
        self.defs = []          # (name, body)
        self.names = {}         # body -> name
        self.threshold = threshold
        self.n = 0

    def intern(self, body, force=False, ty=None):
        if not force and len(body) < self.threshold:
            return body
        nm = self.names.get(body)
        if nm is None:
            nm = "t%d" % self.n
            self.n += 1
            self.names[body] = nm
            self.defs.append((nm if ty is None else nm + ' : ' + ty, body))
        return nm

    def string(self, b):
        # b: bytes -> Coq string term
        if all(0x20 <= c <= 0x7e and c != 0x22 for c in b):
            return self.intern('"%s"%%string' % b.decode('ascii'), force=len(b) > 6)
        # general bytes: build with String (ascii_of_nat n)
        parts = []
        run = bytearray()
        def flush():
            if run:
                parts.append('"%s"%%string' % run.decode('ascii'))
                run.clear()
        for c in b:
            if 0x20 <= c <= 0x7e and c != 0x22:
                run.append(c)
            else:
                flush()
                parts.append('(String (ascii_of_nat %d) EmptyString)' % c)
        flush()
        body = parts[0] if len(parts) == 1 else '(' + ' ++ '.join(parts) + ')%string'
        return self.intern(body, force=True)

    def term(self, t):
        if t is None:
            return 'None'
        if t is True:
            return 'true'
        if t is False:
            return 'false'
        if isinstance(t, int):
            return '(%d)%%Z' % t
        if isinstance(t, dict):
            if 's' in t:
                return self.string(t['s'].encode('utf-8'))
            if 'x' in t:
                return self.string(bytes.fromhex(t['x']))
            if 'n' in t:
                return '%d%%nat' % t['n']
            if 'some' in t:
                return self.intern('(Some %s)' % self.term(t['some']))
            if 'l' in t:
                if not t['l']:
                    return '[]'
                return self.intern('[' + '; '.join(self.term(x) for x in t['l']) + ']')
            if 'p' in t:
                return self.intern('(' + ', '.join(self.term(x) for x in t['p']) + ')')
            raise ValueError('bad term %r' % t)
        if isinstance(t, list):
            if len(t) == 1:
                return t[0]
            return self.intern('(' + t[0] + ' ' + ' '.join(self.term(x) for x in t[1:]) + ')')
        raise ValueError('bad term %r' % (t,))

    def dump(self, out):
        for nm, body in self.defs:
            out.write('Definition %s := %s.\n' % (nm, body))
        self.defs = []


CFG_MONITORS = {'C10_mon', 'C02_mon'}
DRAIN_MONITORS = {'C11_mon'}


def emit_sys(traces, out, monitors):
    """traces: list of dicts from `verifh sys`.  monitors: list of Coq function names of type
    list (directive * list obs) -> bool evaluated on the implementation's observations."""
    em = Emitter()
    out.write('From RV Require Import Sys Replay Mon MonC09 MonC01 MonC05 MonC04 MonC07 MonC08 MonC03 MonC05h MonC14 MonC10 MonC06 MonC11 MonC02 MonC13.\n')
    names = []
    for k, tr in enumerate(traces):
        cfg = tr['cfg']
        crons = em.term({'l': tr.get('crons', [])})
        cfgt = '(mkCfg %s %d %d %d %d (cron_fn %s) %s)' % (
            em.term({'s': cfg['url']}), cfg['pbatch'], cfg['sbatch'], cfg['tbatch'], cfg['enq_delay'], crons,
            'true' if cfg.get('fifo', True) else 'false')
        evs = []
        for e in tr['events']:
            d = em.term(e['d'])
            o = em.term({'l': e['o']})
            evs.append(em.intern('(%s, %s)' % (d, o), force=True, ty='directive * list obs'))
        em.dump(out)
        out.write('Definition cfg_%d : config := %s.\n' % (k, cfgt))
        out.write('Definition tr_%d : list (directive * list obs) := [%s].\n' % (k, '; '.join(evs)))
        names.append(k)
    out.write('Definition all_traces := [%s].\n' % '; '.join('(cfg_%d, tr_%d)' % (k, k) for k in names))
    out.write('Definition MISMATCHES := Eval vm_compute in mismatches all_traces.\n')
    out.write('Print MISMATCHES.\n')
    out.write('Definition drain_traces := [%s].\n' % '; '.join('(%d%%nat, tr_%d)' % (traces[k].get('drain_from', -1) if traces[k].get('drain_from', -1) >= 0 else 5000, k) for k in names))
    for m in monitors:
        if m in DRAIN_MONITORS:
            out.write('Definition FAIL_%s := Eval vm_compute in failing_drain %s drain_traces.\n' % (m, m))
        else:
            out.write('Definition FAIL_%s := Eval vm_compute in %s %s all_traces.\n' % (m, 'failing_cfg' if m in CFG_MONITORS else 'failing', m))
        out.write('Print FAIL_%s.\n' % m)
    out.write('Definition NONTRIVIAL := Eval vm_compute in map (fun x => nontrivial (snd x)) all_traces.\n')
    out.write('Print NONTRIVIAL.\n')


CASE_MODULES = {'route': 'Route', 'poll': 'Poll', 'kernel': 'Kernel', 'front': 'Valid', 'asserts': 'Valid', 'equiv': 'Equiv', 'render': 'Render', 'plug': 'Plug', 'commit': 'Commit', 'aio': 'Aio', 'loop': 'Loop', 'handoff': 'Plug', 'stack': 'Stack'}


def emit_cases(fam, traces, out):
    """traces: dicts with a 'cases' list of terms of the case type of coq/Model/<Module>.v; the Coq function
    <fam>_mismatches : list (list case) -> list (nat * nat * Z) lists (group, case) pairs on which model and code differ."""
    em = Emitter()
    out.write('From RV Require Import %s.\n' % CASE_MODULES[fam])
    names = []
    for k, tr in enumerate(traces):
        cs = [em.term(c) for c in tr['cases']]
        url_t = em.term({'s': tr['cfg']['url']}) if 'cfg' in tr else None
        em.dump(out)
        if 'cfg' in tr:
            # a group that carries the kernel configuration of its run: the group is the pair (config, cases)
            cfg = tr['cfg']
            out.write('Definition ccfg_%d : config := (mkCfg %s %d %d %d %d (cron_fn []) %s).\n' % (
                k, url_t, cfg['pbatch'], cfg['sbatch'], cfg['tbatch'], cfg['enq_delay'],
                'true' if cfg.get('fifo', True) else 'false'))
            out.write('Definition cs_%d := (ccfg_%d, [%s]).\n' % (k, k, '; '.join(cs)))
        else:
            out.write('Definition cs_%d := [%s].\n' % (k, '; '.join(cs)))
        names.append(k)
    out.write('Definition all_cases := [%s].\n' % '; '.join('cs_%d' % k for k in names))
    out.write('Definition MISMATCHES := Eval vm_compute in %s_mismatches all_cases.\n' % fam)
    out.write('Print MISMATCHES.\n')


def emit_store(traces, out):
    em = Emitter()
    out.write('From RV Require Import Sys Replay Mon MonC09 MonC01 MonC05 MonC04 MonC07 MonC08 MonC03 MonC05h MonC14 MonC10 MonC06 MonC11 MonC02 MonC13.\n')
    names = []
    for k, tr in enumerate(traces):
        evs = []
        for e in tr['events']:
            d = em.term(e['d'])
            o = em.term(e['o'][0])
            evs.append(em.intern('(%s, %s)' % (d, o), force=True, ty='list (list command * list (option (list string))) * obs'))
        em.dump(out)
        out.write('Definition tr_%d : list (list (list command * list (option (list string))) * obs) := [%s].\n' % (k, '; '.join(evs)))
        names.append(k)
    out.write('Definition all_traces := [%s].\n' % '; '.join('tr_%d' % k for k in names))
    out.write('Definition MISMATCHES := Eval vm_compute in store_mismatches all_traces.\n')
    out.write('Print MISMATCHES.\n')


def main():
    import argparse
    ap = argparse.ArgumentParser()
    ap.add_argument('kind', choices=['sys', 'store'])
    ap.add_argument('infile')
    ap.add_argument('outfile')
    ap.add_argument('--monitors', default='')
    ap.add_argument('--start', type=int, default=0)
    ap.add_argument('--count', type=int, default=1 << 30)
    a = ap.parse_args()
    traces = []
    with open(a.infile) as f:
        for i, line in enumerate(f):
            if i < a.start or i >= a.start + a.count:
                continue
            traces.append(json.loads(line))
    with open(a.outfile, 'w') as out:
        if a.kind == 'sys':
            emit_sys(traces, out, [m for m in a.monitors.split(',') if m])
        else:
            emit_store(traces, out)

if __name__ == '__main__':
    main()
