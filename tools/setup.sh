#!/bin/bash
# Run once after a fresh restore (offline): build the harness and the Coq development from files on disk.
set -euo pipefail
cd "$(dirname "$0")/.."
export GOFLAGS=-mod=mod GOPROXY=off GOSUMDB=off GOTOOLCHAIN=local CGO_ENABLED=1
tools/build_harness.sh
mkdir -p coq/Gen evidence
build/verifh gen -repo "${REPO:-/repo}" -out coq/Gen
cd coq
coq_makefile -f _CoqProject -o Makefile >/dev/null
timeout 3000 make -j16
