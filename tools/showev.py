#!/usr/bin/env python3
import json,sys
f,ti,ei=sys.argv[1],int(sys.argv[2]),int(sys.argv[3])
ctx=int(sys.argv[4]) if len(sys.argv)>4 else 0
def show(t,ind=0):
    if isinstance(t,dict):
        if 's' in t: return json.dumps(t['s'])
        if 'x' in t: return 'x'+t['x']
        if 'n' in t: return str(t['n'])
        if 'some' in t: return 'Some('+show(t['some'])+')'
        if 'l' in t: return '['+'; '.join(show(x) for x in t['l'])+']'
        if 'p' in t: return '('+', '.join(show(x) for x in t['p'])+')'
    if isinstance(t,list): return '('+t[0]+' '+' '.join(show(x) for x in t[1:])+')' if len(t)>1 else t[0]
    return json.dumps(t)
for i,l in enumerate(open(f)):
    if i==ti:
        t=json.loads(l)
        for j in range(max(0,ei-ctx),ei+1):
            e=t['events'][j]
            print(j,'D',show(e['d'])); 
            for o in e['o']: print('   O',show(o))
