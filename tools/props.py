"""Per-property configuration of tools/check: scenario families (name, kind, traces quick, traces thorough),
monitors evaluated on the implementation's observations, and the meaning of monitor violation codes."""

KNOWN_CODES = {
    700: 'a task row disappeared or its identity columns changed', 701: 'a task counter decreased', 702: 'a finished task changed',
    703: 'a task counter increased without a lease sweep', 704: 'a task became claimed without a claim of exactly its current counter guarded by {init, enqueued}',
    705: 'a claim lease is not tick time + ttl, or a heartbeat / sweep read does not use the tick time',
    706: 'a claimed task left its (claimed, counter) state without holder completion, sweep or root-promise completion',
    707: 'a claimed task was taken away although the lease owed to its holder had not expired on the server clock',
    708: 'a task stayed claimed with the same counter but changed hands', 709: 'a task that left (claimed, counter) is neither finished nor has a higher counter',
    401: 'an answer produced at tick t shows a promise pending although t >= its timeout',
    402: 'the answer 20100 to a create shows the new promise pending although the clock has reached its timeout (D12)',
    403: 'a row is stored completed in an illegal shape (timed out before the deadline, caller state/value installed at or after it, time-out with a value or a wrong completion time)',
    501: 'a callback row on a missing or completed promise (a registration outlived its promise)',
    502: 'two callbacks or two tasks with one id',
    503: 'a registration disappeared without leaving its task',
    507: 'a registration request was answered 20000 with the promise shown PENDING and no callback although the durable state holds neither the registration nor the task it became',
    506: 'a registration request was answered 20000 with the promise shown PENDING and no callback although its insert had lost against a completion: nothing is registered (D1)',
    101: 'a promise row disappeared, its creation fields / sort id changed, a completed row changed, or a pending row moved to a non-final state',
    102: 'two promise rows with one id',
    103: 'a response shows a promise body that differs from the durable row',
    104: 'a new promise row that is neither fresh-pending nor completed',
    105: 'a dispatched message carries a promise body that differs from the durable row',
    901: 'two lock rows for one resource',
    902: 'a lock row disappeared or changed although its lease had not run out on the server clock and its holder did nothing',
    903: 'a lock row appeared that no acquire created, or a heartbeat did more than extend a lease',
    904: 'a lock lease was not computed as tick time + ttl, or the sweep did not use the tick time',
}

PROPS = {
    'C15': {
        'families': [],
        'monitors': [],
        'statement': 'Props/C15.v: status tables total, http = status/100, gRPC code determined by the HTTP class, outcome flags compared with the status the coroutine returns',
        'assumptions': ['the translator harness/verifh/gen_status.go reads the switch statements and flag comparisons correctly (its output is part of the evidence)'],
        'level_text': 'The finite tables of both front ends (status constants, StatusCode.String cases, gRPC code() cases, HTTP code body, outcome-flag comparisons, Response.Status kinds) are regenerated from the source on every run and the theorems are exhaustive computations over them: every status has a message and a gRPC code (no renderer panics), HTTP = status/100, the gRPC class of every status is the one its HTTP class determines, every outcome flag is compared with the status the coroutine model returns on success. Found D8 and D9, repaired by fix: commits.',
        'level_note': 'Trusted: Coq kernel + vm_compute; the go/ast translator. Not covered by this check: rendering of response bodies (exercised by the repository suite only).',
        'technique': 'machine-checked proof in Rocq (Coq 8.16.1): exhaustive computation over tables regenerated from the Go source by a go/ast translator',
    },
    'C17': {
        'families': [],
        'monitors': [],
        'statement': 'Props/C17.v: Postgres statements = SQLite statements modulo the dialect map, except five named structural differences; same scan targets; reference equality of statements and bindings',
        'assumptions': ['no Postgres server exists in this sandbox: the meaning of the Postgres constructs (jsonb @>, DISTINCT ON, SERIAL, $n::int) is trusted', 'the SQLite statements are tied to Store.exec by the differential check of C16'],
        'level_text': 'The statements, placeholder bindings and scan targets of postgres.go and sqlite.go are regenerated from the source on every run; theorems (by computation over all statements): each Postgres statement equals the SQLite statement under an explicit token-level dialect map except five structurally different statements that are listed by name; both backends scan every result row into the same record fields; the statements equal the frozen reference the model was reviewed against; both backends keep their data on shutdown by default.',
        'level_note': 'Trusted: Coq kernel + vm_compute; the go/ast + SQL-lexer translator; Postgres semantics. A change to a Postgres statement breaks a theorem and is reported with no-failing-input-found (no server to run it on).',
        'technique': 'machine-checked proof in Rocq (Coq 8.16.1): statement texts of both backends regenerated from the Go source by a translator and compared in Coq modulo a dialect map',
    },
    'C07': {
        'families': [('tasks', 'sys', 150, 1500)],
        'monitors': ['C07_mon', 'C07x_mon'],
        'statement': 'forall cfg sch, sch_wf sch -> C07_mon (events cfg sch) = []  (Props/C07.v: C07_holds_partial; the lease-timing clause, code 707, is the history monitor C07x_mon evaluated on traces)',
        'assumptions': ['the explored schedules execute store submissions of earlier ticks first (fifo), as the single store worker does; the lease-timing clause (707) is decided on the explored schedules only', 'tick time + ttl does not wrap int64 in the explored schedules'],
        'level_text': 'Theorem C07_holds_partial: for every schedule tasks never disappear nor change identity (700), counters never decrease (701), finished tasks never change (702), a counter increases only through a lease sweep (703), a task becomes claimed only through a claim naming its current counter guarded by {init,enqueued} (704), leases are tick+ttl (705), a claimed task leaves (claimed,counter) only by its holder completing, a sweep of exactly that state/counter or its root promise completing (706), the holder does not change while claimed (708), and after leaving it is finished or has a higher counter (709). The lease-timing clause (707) is evaluated on every implementation trace.',
        'level_note': 'Trusted: Coq kernel + vm_compute; harness/emitter; hand-written model of the Go coroutines (observation equality on explored schedules only); SQLite. No axioms. Partial: code 707 not proved for all schedules.',
    },
    'C04': {
        'families': [('promises', 'sys', 120, 1200), ('promise-race', 'sys', 80, 800), ('promises-crash', 'sys', 50, 500)],
        'monitors': ['C04_mon'],
        'statement': 'forall cfg sch, sch_wf sch -> C04_mon_partial (events cfg sch) = []  (Props/C04.v; the full monitor is refuted by D12: C04_full_refuted)',
        'assumptions': ['arriving CompletePromise requests name resolved/rejected/canceled', 'known finding D12 (code 402) is excluded from the proved statement'],
        'level_text': 'Theorem C04_holds_partial: for every schedule no read/complete/search/create-on-existing answer produced at tick t shows a promise pending when t >= timeout (401) and every completed row ever stored is either a time-out (completion time = timeout <= clock, time-out state, empty value, no key) or a completion decided strictly before the timeout (403). The clause for the answer to the create itself (402) is refuted on the faithful model and on the code (known finding D12).',
        'level_note': 'Trusted: Coq kernel + vm_compute; harness/emitter; hand-written model of the Go coroutines (observation equality on explored schedules only); SQLite. No axioms.',
    },
    'C05': {
        'families': [('promise-race', 'sys', 100, 1000), ('promises', 'sys', 100, 1000), ('promises-crash', 'sys', 50, 500), ('tasks', 'sys', 60, 600)],
        'monitors': ['C05_mon', 'C05x_mon', 'C05y_mon'],
        'statement': 'forall cfg sch, sch_wf sch -> C05_mon (events cfg sch) = []  (Props/C05.v: C05_holds_partial; the clause about the answer to a registration request, code 506, is evaluated on traces only)',
        'assumptions': ['arriving CompletePromise requests name resolved/rejected/canceled', 'the acknowledgement clause (506) is decided on the explored schedules only'],
        'level_text': 'Theorem C05_holds_partial: for every schedule of well-formed requests no callback row exists on a missing or completed promise (501), callback and task ids are unique (502) and a registration only disappears by leaving its task in the same commit (503); store theorem C05_completion_converts for arbitrary databases/arguments; derived-id injectivity proved under no-colon and refuted in general (D2). The clause about the answer to a registration request (506) is evaluated on every implementation trace (it found D1, repaired by a fix: commit).',
        'level_note': 'Trusted: Coq kernel + vm_compute; harness/emitter; hand-written model of the Go coroutines (observation equality on explored schedules only); SQLite. No axioms. Partial: code 506 not proved for all schedules.',
    },
    'C01': {
        'families': [('promise-race', 'sys', 100, 1000), ('promises', 'sys', 100, 1000), ('promises-crash', 'sys', 50, 500), ('tasks', 'sys', 50, 500)],
        'monitors': ['C01_mon'],
        'statement': 'forall cfg sch, sch_wf sch -> C01_mon (events cfg sch) = []  (Props/C01.v)',
        'assumptions': ['arriving CompletePromise requests name resolved/rejected/canceled (what both front ends let through)'],
        'level_text': 'Theorem C01_holds: for every schedule of well-formed requests (all interleavings, batchings, before/after-commit failures, crash points) the executable C01 monitor finds nothing: rows only grow (creation fields and sort id fixed, completed rows frozen, pending rows complete at most once to a final state), ids unique, and every promise body in every response and dispatched message equals the durable row. Store-level monotonicity theorem for arbitrary accepted command sequences. Tied to the code by replaying scripted schedules of the real coroutines + SQLite on the model and evaluating the same monitor on what the implementation showed.',
        'level_note': 'Trusted: Coq kernel + vm_compute; harness/emitter; hand-written model of the Go coroutines (observation equality on explored schedules only); SQLite. No axioms.',
    },
    'C09': {
        'families': [('locks', 'sys', 150, 1500)],
        'monitors': ['C09_mon'],
        'statement': 'forall cfg sch, C09_mon (events cfg sch) = []  (Props/C09.v)',
        'assumptions': ['ttl + tick time does not wrap int64 in the explored schedules (ttl 2^63-1 is known finding D13)'],
        'level_text': 'Theorem C09_holds: for every schedule of the system model (all interleavings, batchings, faults, crashes, ttls, clock positions) the executable C09 monitor finds nothing; store-level theorems for arbitrary command sequences (uniqueness, refused acquire, no-op release, heartbeat keeps owners, sweep removes exactly the expired). The model is tied to the code by replaying scripted schedules of the real coroutines + real SQLite store on the model and by evaluating the same monitor on what the implementation showed.',
        'level_note': 'Trusted: Coq kernel + vm_compute; harness/emitter; hand-written model of the Go coroutines (observation equality on explored schedules only); SQLite itself. No axioms.',
    },
    'C16': {
        'families': [('store', 'store', 60, 600)],
        'monitors': [],
        'mismatch_is_violation': True,   # Store.exec IS the statement of C16: a batch on which the real store differs is the failing input
        'crash_is_violation': True,
        'statement': 'per-command specifications and batch atomicity of Store.exec (Props/C16.v)',
        'assumptions': ['isolation between connections is SQLite\'s; observed through a second connection only after commit'],
        'level_text': 'Per-command specification theorems of Store.exec (conditional writes, exact row counts), transactions in order, batches all-or-nothing, for every database and every argument; tied to the code by differential execution of random transactions of all 27 command kinds against the real SqliteStore (results and all five tables compared after every batch) and by the regenerated SQL statements.',
        'level_note': 'Trusted: Coq kernel + vm_compute; harness/emitter; SQLite/go-sqlite3; isolation (visibility only at commit) is observed through a second connection after commit only. No axioms.',
    },
}

NOT_APPLICABLE = {}
for _p in ['C01','C02','C03','C04','C05','C06','C07','C08','C10','C11','C12','C13','C14','C15','C17','C18','C19','C20']:
    if _p not in PROPS:
        NOT_APPLICABLE[_p] = 'not claimed yet: the check for this property is still being built in this session (model and harness exist, theorems in progress); see DESIGN.md section 9'
