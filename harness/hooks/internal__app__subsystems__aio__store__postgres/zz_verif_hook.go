//go:build verif

package postgres

import (
	"database/sql"
	"time"

	"github.com/resonatehq/resonate/internal/metrics"
)

// VerifWorker builds the production Postgres store worker around a given database handle (what New() does per
// worker after opening the connection), so that the correspondence harness can run its Go code - the command loop,
// the guards around the statements, the row counting and record building - against a database it controls.
func VerifWorker(db *sql.DB, m *metrics.Metrics) *PostgresStoreWorker {
	return &PostgresStoreWorker{config: &Config{TxTimeout: 10 * time.Second}, db: db, metrics: m}
}
