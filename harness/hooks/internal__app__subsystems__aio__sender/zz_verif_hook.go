//go:build verif

package sender

import (
	"github.com/resonatehq/resonate/internal/aio"
	"github.com/resonatehq/resonate/internal/metrics"
	"github.com/resonatehq/resonate/pkg/receiver"
)

// VerifWorker builds the production worker around a given targets table and plugin set (what New() does
// after reading the configuration), so that the correspondence harness can drive Process directly.
func VerifWorker(targets map[string]*receiver.Recv, plugins []aio.Plugin, a aio.AIO, m *metrics.Metrics) *SenderWorker {
	w := &SenderWorker{plugins: map[string]aio.Plugin{}, targets: targets, aio: a, metrics: m}
	for _, p := range plugins {
		w.AddPlugin(p)
	}
	return w
}
