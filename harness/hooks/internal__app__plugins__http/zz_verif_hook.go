//go:build verif

package http

import (
	"net/http"
	"time"
)

// VerifWorker builds the production transport worker (what New() does per worker) without its queue and goroutine,
// so that the correspondence harness can call Process directly with a recover around each call.
func VerifWorker(timeout time.Duration) *HttpWorker {
	return &HttpWorker{client: &http.Client{Timeout: timeout}}
}
