//go:build verif

package grpc

import (
	i_api "github.com/resonatehq/resonate/internal/api"
	"github.com/resonatehq/resonate/internal/app/subsystems/api"
)

// VerifSrv is the production gRPC handler set (it implements the pb.*Server interfaces); the correspondence
// harness calls its methods directly, with a recover around each call, instead of going through a socket.
type VerifSrv = server

func VerifServer(a i_api.API) *VerifSrv { return &server{api: api.New(a, "grpc")} }
