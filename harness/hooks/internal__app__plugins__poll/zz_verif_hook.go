//go:build verif

package poll

import (
	"context"
	"net/http"
	"net/http/httptest"
	"sort"

	"github.com/prometheus/client_golang/prometheus"
	"github.com/resonatehq/resonate/internal/aio"
	"github.com/resonatehq/resonate/internal/metrics"
	"github.com/resonatehq/resonate/pkg/message"
)

// Verif drives the production PollWorker the way the plugin does: its worker goroutine runs the production Start()
// loop and receives connections, disconnections and messages over the three channels it selects on.  There are no
// sockets; a listener is the buffered channel its handler would read from.  After every operation a barrier message
// (receiver data that does not parse: Process answers it without touching any state) tells the harness that the single
// worker goroutine has finished everything sent before it.
type Verif struct {
	w          *PollWorker
	sq         chan *aio.Message
	connect    chan *connection
	disconnect chan *connection
	cids       map[chan []byte]int
	next       int
}

type VerifConn struct {
	c   *connection
	Cid int
}

type VerifRow struct {
	Group, Id string
	Cid, Len  int
}

func NewVerif(max int) *Verif {
	g := prometheus.NewGauge(prometheus.GaugeOpts{Name: "verif_poll_connections"})
	v := &Verif{cids: map[chan []byte]int{}, sq: make(chan *aio.Message), connect: make(chan *connection), disconnect: make(chan *connection)}
	v.w = &PollWorker{sq: v.sq, metrics: metrics.New(prometheus.NewRegistry()), counter: g, connect: v.connect, disconnect: v.disconnect,
		connections: connections{max: max, cnt: g, conns: map[string][]*connection{}}}
	go v.w.Start()
	return v
}

func (v *Verif) barrier() {
	done := make(chan struct{})
	v.sq <- &aio.Message{Type: message.Invoke, Data: []byte("{"), Done: func(bool, error) { close(done) }}
	<-done
}

// Close ends the worker goroutine (what stopping the plugin does).
func (v *Verif) Close() { close(v.connect) }

func (v *Verif) Connect(group, id string, buf int) *VerifConn {
	ch := make(chan []byte, buf)
	v.next++
	v.cids[ch] = v.next
	c := &connection{group: group, id: id, ch: ch}
	v.connect <- c
	v.barrier()
	return &VerifConn{c: c, Cid: v.next}
}

func (v *Verif) Disconnect(vc *VerifConn) {
	v.disconnect <- vc.c
	v.barrier()
}

func (v *Verif) Send(t message.Type, data, body []byte) (ok bool, err error) {
	done := make(chan struct{})
	v.sq <- &aio.Message{Type: t, Data: data, Body: body, Done: func(s bool, e error) { ok, err = s, e; close(done) }}
	<-done
	return
}

// Rows lists the registry in registration order (connection numbers grow with time; inside a group the
// registry keeps registration order).
func (v *Verif) Rows() (rows []VerifRow, total int) {
	groups := []string{}
	for g := range v.w.connections.conns {
		groups = append(groups, g)
	}
	sort.Strings(groups)
	for _, g := range groups {
		for _, c := range v.w.connections.conns[g] {
			rows = append(rows, VerifRow{Group: c.group, Id: c.id, Cid: v.cids[c.ch], Len: len(c.ch)})
		}
	}
	sort.SliceStable(rows, func(i, j int) bool { return rows[i].Cid < rows[j].Cid })
	return rows, v.w.connections.len
}

// Drain reads what the listener's handler would write to its client right now.
func (v *Verif) Drain(vc *VerifConn) (bodies [][]byte, closed bool) {
	for {
		select {
		case b, ok := <-vc.c.ch:
			if !ok {
				return bodies, true
			}
			bodies = append(bodies, b)
		default:
			return bodies, false
		}
	}
}

// VerifPath hands one long-poll request with the given URL path to the production PollHandler and reports under
// which (group, id) the handler registers the listener, or the status with which it refuses the request.  No socket:
// the request context is already cancelled, so the handler registers, sees the cancellation and unregisters.
func VerifPath(path string) (group, id string, registered bool, status int) {
	connect := make(chan *connection, 1)
	disconnect := make(chan *connection, 1)
	h := &PollHandler{config: &Config{BufferSize: 1}, metrics: metrics.New(prometheus.NewRegistry()), connect: connect, disconnect: disconnect}
	ctx, cancel := context.WithCancel(context.Background())
	cancel()
	req := httptest.NewRequest(http.MethodGet, "http://poll.invalid/", nil).WithContext(ctx)
	req.URL.Path = path
	rec := httptest.NewRecorder()
	h.ServeHTTP(rec, req)
	select {
	case c := <-connect:
		return c.group, c.id, true, rec.Code
	default:
		return "", "", false, rec.Code
	}
}
