//go:build verif

package poll

import (
	"sort"

	"github.com/prometheus/client_golang/prometheus"
	"github.com/resonatehq/resonate/internal/aio"
	"github.com/resonatehq/resonate/pkg/message"
)

// Verif drives the production connection registry (connections.add / rmv / get) and the production
// PollWorker.Process in the order the single worker goroutine would, without sockets and goroutines.
type Verif struct {
	w    *PollWorker
	cids map[chan []byte]int
	next int
}

type VerifConn struct {
	c   *connection
	Cid int
}

type VerifRow struct {
	Group, Id string
	Cid, Len  int
}

func NewVerif(max int) *Verif {
	g := prometheus.NewGauge(prometheus.GaugeOpts{Name: "verif_poll_connections"})
	return &Verif{cids: map[chan []byte]int{}, w: &PollWorker{counter: g, connections: connections{max: max, cnt: g, conns: map[string][]*connection{}}}}
}

func (v *Verif) Connect(group, id string, buf int) *VerifConn {
	ch := make(chan []byte, buf)
	v.next++
	v.cids[ch] = v.next
	c := &connection{group: group, id: id, ch: ch}
	v.w.connections.add(c)
	return &VerifConn{c: c, Cid: v.next}
}

func (v *Verif) Disconnect(vc *VerifConn) { v.w.connections.rmv(vc.c, true) }

func (v *Verif) Send(t message.Type, data, body []byte) (ok bool, err error) {
	v.w.Process(&aio.Message{Type: t, Data: data, Body: body, Done: func(s bool, e error) { ok, err = s, e }})
	return
}

// Rows lists the registry in registration order (connection numbers grow with time; inside a group the
// registry keeps registration order).
func (v *Verif) Rows() (rows []VerifRow, total int) {
	groups := []string{}
	for g := range v.w.connections.conns {
		groups = append(groups, g)
	}
	sort.Strings(groups)
	for _, g := range groups {
		for _, c := range v.w.connections.conns[g] {
			rows = append(rows, VerifRow{Group: c.group, Id: c.id, Cid: v.cids[c.ch], Len: len(c.ch)})
		}
	}
	sort.SliceStable(rows, func(i, j int) bool { return rows[i].Cid < rows[j].Cid })
	return rows, v.w.connections.len
}

// Drain reads what the listener's handler would write to its client right now.
func (v *Verif) Drain(vc *VerifConn) (bodies [][]byte, closed bool) {
	for {
		select {
		case b, ok := <-vc.c.ch:
			if !ok {
				return bodies, true
			}
			bodies = append(bodies, b)
		default:
			return bodies, false
		}
	}
}
