//go:build verif

package main

// Family "aio" (C11 / C12): the production aio (internal/aio/aio.go: submission dispatch, completion queue) with a
// scripted subsystem behind it that accepts or refuses each submission, driven from ONE goroutine the way the kernel
// thread drives it.  What matters: Dispatch always returns (the kernel thread is the only consumer of the completion
// queue, so a Dispatch that waits for room in that queue never returns), and every submission is completed exactly
// once - refused ones with an error, accepted ones with their completion.  coq/Model/Aio.v is the model.

import (
	"bufio"
	"encoding/json"
	"flag"
	"fmt"
	"os"
	"time"

	"github.com/prometheus/client_golang/prometheus"
	"github.com/resonatehq/resonate/internal/aio"
	"github.com/resonatehq/resonate/internal/kernel/bus"
	"github.com/resonatehq/resonate/internal/kernel/t_aio"
	"github.com/resonatehq/resonate/internal/metrics"
)

type scriptedSub struct {
	accept   bool
	accepted map[string]*bus.SQE[t_aio.Submission, t_aio.Completion]
}

func (s *scriptedSub) String() string           { return "scripted:echo" }
func (s *scriptedSub) Kind() t_aio.Kind         { return t_aio.Echo }
func (s *scriptedSub) Start(chan<- error) error { return nil }
func (s *scriptedSub) Stop() error              { return nil }
func (s *scriptedSub) Flush(int64)              {}
func (s *scriptedSub) Enqueue(sqe *bus.SQE[t_aio.Submission, t_aio.Completion]) bool {
	if !s.accept {
		return false
	}
	s.accepted[sqe.Id] = sqe
	return true
}

func cmdAio(args []string) {
	fs := flag.NewFlagSet("aio", flag.ExitOnError)
	seed := fs.Uint64("seed", 1, "base seed")
	n := fs.Int("n", 10, "number of case groups")
	out := fs.String("out", "-", "output file (JSON lines)")
	_ = fs.Int("workers", 1, "ignored")
	exact := fs.Uint64("seed-exact", 0, "run exactly this group seed (replay)")
	_ = fs.Parse(args)
	w := os.Stdout
	if *out != "-" {
		fh, err := os.Create(*out)
		if err != nil {
			panic(err)
		}
		defer fh.Close()
		w = fh
	}
	bw := bufio.NewWriterSize(w, 1<<20)
	defer bw.Flush()
	enc := json.NewEncoder(bw)
	m := metrics.New(prometheus.NewRegistry())

	for i := 0; i < *n; i++ {
		sd := *seed*1000003 + uint64(i)
		if *exact != 0 {
			sd = *exact
		}
		r := &rng{s: sd}
		cases := []term{}
		raws := []string{}
		stats := map[string]int{}
		for g := 0; g < 6; g++ {
			size := 1 + r.intn(3)
			a := aio.New(size, m)
			sub := &scriptedSub{accepted: map[string]*bus.SQE[t_aio.Submission, t_aio.Completion]{}}
			a.AddSubsystem(sub)
			inCQ := 0
			answers := []term{} // filled by callbacks
			next := 0
			inflight := []string{}
			ops := []term{}
			blocked := false
			stuck := false
			dispatch := func(accept bool) {
				id := fmt.Sprintf("%d", next)
				idn := next
				next++
				sub.accept = accept
				done := make(chan struct{})
				before := len(answers)
				go func() {
					a.Dispatch(&t_aio.Submission{Kind: t_aio.Echo, Tags: map[string]string{"id": id}, Echo: &t_aio.EchoSubmission{Data: id}}, func(c *t_aio.Completion, err error) {
						answers = append(answers, P(N(idn), err == nil))
					})
					close(done)
				}()
				returned := true
				select {
				case <-done:
				case <-time.After(2 * time.Second):
					returned = false
					blocked = true
				}
				if accept && returned {
					inflight = append(inflight, id)
				}
				var now []term
				if returned {
					now = append(now, answers[before:]...)
				}
				ops = append(ops, C("AOp", C("ADispatch", N(idn), accept), returned, L(append([]term{}, now...)...)))
				stats["dispatch"]++
			}
			complete := func() {
				if len(inflight) == 0 || inCQ >= size {
					return
				}
				k := r.intn(len(inflight))
				id := inflight[k]
				inflight = append(inflight[:k], inflight[k+1:]...)
				sqe := sub.accepted[id]
				var idn int
				fmt.Sscanf(id, "%d", &idn)
				done := make(chan struct{})
				go func() {
					a.EnqueueCQE(&bus.CQE[t_aio.Submission, t_aio.Completion]{Id: id, Callback: sqe.Callback,
						Completion: &t_aio.Completion{Kind: t_aio.Echo, Tags: sqe.Submission.Tags, Echo: &t_aio.EchoCompletion{Data: id}}})
					close(done)
				}()
				select {
				case <-done:
				case <-time.After(2 * time.Second):
					// by the harness's count the queue has room: something else is sitting in it
					ops = append(ops, C("AOp", C("AComplete", N(idn)), false, L()))
					stuck = true
					return
				}
				inCQ++
				ops = append(ops, C("AOp", C("AComplete", N(idn)), true, L()))
				stats["complete"]++
			}
			dequeue := func(k int) {
				before := len(answers)
				cqes := a.DequeueCQE(k)
				for _, cqe := range cqes {
					cqe.Callback(cqe.Completion, cqe.Error)
				}
				inCQ -= len(cqes)
				ops = append(ops, C("AOp", C("ADequeue", int64(k)), true, L(append([]term{}, answers[before:]...)...)))
				stats["dequeue"]++
			}
			steps := 6 + r.intn(10)
			for s := 0; s < steps && !blocked && !stuck; s++ {
				switch x := r.intn(10); {
				case x < 3:
					dispatch(true)
				case x < 6:
					dispatch(false) // the subsystem's own queue is full
				case x < 8:
					complete()
				default:
					dequeue(1 + r.intn(4))
				}
			}
			// drain: everything accepted completes, everything completed is dequeued
			for guard := 0; guard < 100 && !blocked && !stuck && (len(inflight) > 0 || inCQ > 0); guard++ {
				complete()
				dequeue(2)
			}
			cases = append(cases, C("CAio", int64(size), L(ops...)))
			raws = append(raws, fmt.Sprintf("completion queue size %d, %d operations, a Dispatch never returned: %v", size, len(ops), blocked))
			if blocked {
				stats["blocked"]++
			}
		}
		if err := enc.Encode(map[string]any{"family": "aio", "seed": sd, "cases": cases, "stats": stats, "raw": raws}); err != nil {
			panic(err)
		}
	}
}

func init() { extraCmds["aio"] = cmdAio }
