//go:build verif

package main

// The scripted kernel: production api + production System + production coroutines + production SQLite
// store + production router, with an aio.AIO (vaio) whose every decision (which pending submission is
// executed, in which batch, which fails before/after, which completion is delivered at which tick) is
// taken by the scenario and logged as a directive of coq/Model/Sys.v together with what was observed.

import (
	cronlib "github.com/robfig/cron/v3"
	"fmt"
	"os"
	"path/filepath"
	"time"

	"github.com/prometheus/client_golang/prometheus"
	"github.com/resonatehq/resonate/internal/api"
	"github.com/resonatehq/resonate/internal/app/coroutines"
	"github.com/resonatehq/resonate/internal/app/subsystems/aio/router"
	"github.com/resonatehq/resonate/internal/app/subsystems/aio/store/sqlite"
	"github.com/resonatehq/resonate/internal/kernel/bus"
	"github.com/resonatehq/resonate/internal/kernel/system"
	"github.com/resonatehq/resonate/internal/kernel/t_aio"
	"github.com/resonatehq/resonate/internal/kernel/t_api"
	"github.com/resonatehq/resonate/internal/metrics"
)

// ---------- PRNG (splitmix64): every random choice of a run derives from one state ----------

type rng struct{ s uint64 }

func (r *rng) next() uint64 {
	r.s += 0x9e3779b97f4a7c15
	z := r.s
	z = (z ^ (z >> 30)) * 0xbf58476d1ce4e5b9
	z = (z ^ (z >> 27)) * 0x94d049bb133111eb
	return z ^ (z >> 31)
}
func (r *rng) intn(n int) int {
	if n <= 0 {
		return 0
	}
	return int(r.next() % uint64(n))
}
func (r *rng) chance(p float64) bool { return float64(r.next()%1000000)/1000000.0 < p }
func pick[T any](r *rng, xs []T) T    { return xs[r.intn(len(xs))] }

// ---------- vaio ----------

type pendEntry struct {
	id    string
	n     int
	sqe   *bus.SQE[t_aio.Submission, t_aio.Completion]
	group int
	ready *bus.CQE[t_aio.Submission, t_aio.Completion]
}

type vaio struct {
	pend     []*pendEntry
	counters map[string]int
	deliver  []*bus.CQE[t_aio.Submission, t_aio.Completion]
	tickNew  []*pendEntry
	group    int
	seen     func(id string)
}

func newVaio() *vaio { return &vaio{counters: map[string]int{}} }

func (a *vaio) String() string        { return "vaio" }
func (a *vaio) Start() error          { return nil }
func (a *vaio) Stop() error           { return nil }
func (a *vaio) Shutdown()             {}
func (a *vaio) Errors() <-chan error  { return nil }
func (a *vaio) Flush(int64)           {}
func (a *vaio) Signal(<-chan interface{}) <-chan interface{} { panic("not used") }
func (a *vaio) EnqueueSQE(*bus.SQE[t_aio.Submission, t_aio.Completion]) { panic("not used") }
func (a *vaio) EnqueueCQE(*bus.CQE[t_aio.Submission, t_aio.Completion]) { panic("not used") }

func (a *vaio) Dispatch(sub *t_aio.Submission, cb func(*t_aio.Completion, error)) {
	id := sub.Tags["id"]
	n := a.counters[id]
	a.counters[id] = n + 1
	e := &pendEntry{id: id, n: n, group: a.group, sqe: &bus.SQE[t_aio.Submission, t_aio.Completion]{Id: id, Submission: sub, Callback: cb}}
	a.pend = append(a.pend, e)
	a.tickNew = append(a.tickNew, e)
	if a.seen != nil {
		a.seen(id)
	}
}

func (a *vaio) DequeueCQE(n int) []*bus.CQE[t_aio.Submission, t_aio.Completion] {
	d := a.deliver
	a.deliver = nil
	return d
}

func (a *vaio) remove(e *pendEntry) {
	for i, x := range a.pend {
		if x == e {
			a.pend = append(a.pend[:i], a.pend[i+1:]...)
			return
		}
	}
}

// ---------- a scenario family ----------

type world struct {
	now   int64
	r     *rng
	reqNo int
	// what the generators may look at: the last snapshot
	snap *snapshot
	// scratch for families
	mem map[string]any
}

type family struct {
	name     string
	bgs      []string // background coroutines registered
	requests int      // number of client requests per trace
	maxSteps int
	fault    float64 // probability of drop / lose per submission
	crash    float64 // probability of a crash per round
	gen      func(w *world) *t_api.Request
	config   func(r *rng) *system.Config
	senderOK float64
	timeStep func(w *world) int64
	fifo     bool
	// number of quiet ticks appended after the scenario (C11): no requests, no faults, every hand-off succeeds
	drainTicks int
}

// ---------- the runner ----------

type kernel struct {
	api    api.API
	aio    *vaio
	sys    *system.System
	store  *sqlite.SqliteStore
	router *router.Router
}

type event struct {
	D term   `json:"d"`
	O []term `json:"o"`
}

type trace struct {
	Family string         `json:"family"`
	Seed   uint64         `json:"seed"`
	Cfg    map[string]any `json:"cfg"`
	Crons  []term         `json:"crons"`
	Events []event        `json:"events"`
	Stats  map[string]int `json:"stats"`
	Error  string         `json:"error,omitempty"`
	// index of the first event of the final quiet phase (no client requests, no faults, hand-offs succeed); -1: none
	DrainFrom int `json:"drain_from"`
}

var bgCtors = map[string]func(*system.Config, map[string]string) coroutineFunc{}

func newKernel(path string, cfg *system.Config, bgs []string, reg *prometheus.Registry) (*kernel, error) {
	m := metrics.New(reg)
	a := api.New(1000, m)
	v := newVaio()
	st, err := sqlite.New(nil, m, &sqlite.Config{BatchSize: 100, Path: path, TxTimeout: 10 * time.Second})
	if err != nil {
		return nil, err
	}
	if err := st.Start(nil); err != nil {
		return nil, err
	}
	rt, err := router.New(nil, m, &router.Config{Workers: 1})
	if err != nil {
		return nil, err
	}
	s := system.New(a, v, cfg, m)
	s.AddOnRequest(t_api.ReadPromise, coroutines.ReadPromise)
	s.AddOnRequest(t_api.SearchPromises, coroutines.SearchPromises)
	s.AddOnRequest(t_api.CreatePromise, coroutines.CreatePromise)
	s.AddOnRequest(t_api.CreatePromiseAndTask, coroutines.CreatePromiseAndTask)
	s.AddOnRequest(t_api.CompletePromise, coroutines.CompletePromise)
	s.AddOnRequest(t_api.CreateCallback, coroutines.CreateCallback)
	s.AddOnRequest(t_api.CreateSubscription, coroutines.CreateSubscription)
	s.AddOnRequest(t_api.ReadSchedule, coroutines.ReadSchedule)
	s.AddOnRequest(t_api.SearchSchedules, coroutines.SearchSchedules)
	s.AddOnRequest(t_api.CreateSchedule, coroutines.CreateSchedule)
	s.AddOnRequest(t_api.DeleteSchedule, coroutines.DeleteSchedule)
	s.AddOnRequest(t_api.AcquireLock, coroutines.AcquireLock)
	s.AddOnRequest(t_api.ReleaseLock, coroutines.ReleaseLock)
	s.AddOnRequest(t_api.HeartbeatLocks, coroutines.HeartbeatLocks)
	s.AddOnRequest(t_api.ClaimTask, coroutines.ClaimTask)
	s.AddOnRequest(t_api.CompleteTask, coroutines.CompleteTask)
	s.AddOnRequest(t_api.HeartbeatTasks, coroutines.HeartbeatTasks)
	for _, b := range bgs {
		switch b {
		case "TimeoutPromises":
			s.AddBackground(b, coroutines.TimeoutPromises)
		case "SchedulePromises":
			s.AddBackground(b, coroutines.SchedulePromises)
		case "TimeoutLocks":
			s.AddBackground(b, coroutines.TimeoutLocks)
		case "EnqueueTasks":
			s.AddBackground(b, coroutines.EnqueueTasks)
		case "TimeoutTasks":
			s.AddBackground(b, coroutines.TimeoutTasks)
		}
	}
	return &kernel{api: a, aio: v, sys: s, store: st, router: rt}, nil
}

type coroutineFunc = any

var bgKind = map[string]string{
	"TimeoutPromises": "BTimeoutPromises", "SchedulePromises": "BSchedulePromises", "TimeoutLocks": "BTimeoutLocks",
	"EnqueueTasks": "BEnqueueTasks", "TimeoutTasks": "BTimeoutTasks",
}

func bgName(id string) (string, bool) {
	for name := range bgKind {
		if len(id) > len(name) && id[:len(name)+1] == name+":" {
			return name, true
		}
	}
	return "", false
}

type runner struct {
	f       *family
	w       *world
	k       *kernel
	cfg     *system.Config
	path    string
	obs     *observer
	tr      *trace
	order   []string          // coroutine ids in arrival order
	known   map[string]bool   // ids in order
	resp    map[string]term   // responses produced in the current tick
	crons   map[string]bool   // (cron, t) pairs already tabled
	cronSet map[string]bool   // crons seen in requests
	left    int               // client requests still to send
	inflight map[string]bool  // request ids not yet answered
	reg     *prometheus.Registry
	afterCrash bool
	quiet   bool
}

func (rn *runner) noteCron(cron string, t int64) {
	key := fmt.Sprintf("%s\x00%d", cron, t)
	if rn.crons[key] {
		return
	}
	rn.crons[key] = true
	nx, err := cronOracle(t, cron)
	var v term
	if err == nil {
		v = Some(nx)
	}
	rn.tr.Crons = append(rn.tr.Crons, P(S(cron), t, v))
	if err == nil && nx > t && nx < t+100000 {
		// successors are needed when the schedule fires
		rn.noteCronLazy(cron, nx)
	}
}

func (rn *runner) noteCronLazy(cron string, t int64) {
	key := fmt.Sprintf("%s\x00%d", cron, t)
	if rn.crons[key] {
		return
	}
	rn.crons[key] = true
	nx, err := cronOracle(t, cron)
	var v term
	if err == nil {
		v = Some(nx)
	}
	rn.tr.Crons = append(rn.tr.Crons, P(S(cron), t, v))
}

func (rn *runner) stat(k string) { rn.tr.Stats[k]++ }

func runTrace(f *family, seed uint64, dir string) (tr *trace) {
	r := &rng{s: seed}
	w := &world{r: r, mem: map[string]any{}}
	cfg := f.config(r)
	path := filepath.Join(dir, fmt.Sprintf("t%d.db", seed))
	_ = os.Remove(path)
	tr = &trace{Family: f.name, Seed: seed, Stats: map[string]int{}, Crons: []term{}, DrainFrom: -1}
	tr.Cfg = map[string]any{
		"url": cfg.Url, "pbatch": cfg.PromiseBatchSize, "sbatch": cfg.ScheduleBatchSize, "tbatch": cfg.TaskBatchSize,
		"enq_delay": cfg.TaskEnqueueDelay.Milliseconds(), "fifo": f.fifo,
	}
	rn := &runner{f: f, w: w, cfg: cfg, path: path, tr: tr, known: map[string]bool{}, crons: map[string]bool{},
		cronSet: map[string]bool{}, left: f.requests, inflight: map[string]bool{}}
	defer func() {
		if e := recover(); e != nil {
			tr.Error = fmt.Sprintf("harness panic: %v", e)
		}
		if rn.obs != nil {
			rn.obs.close()
		}
		if rn.k != nil {
			_ = rn.k.store.Stop()
		}
		_ = os.Remove(path)
		_ = os.Remove(path + "-journal")
	}()
	var err error
	rn.reg = prometheus.NewRegistry()
	rn.k, err = newKernel(path, cfg, f.bgs, rn.reg)
	if err != nil {
		tr.Error = err.Error()
		return
	}
	rn.obs, err = newObserver(path)
	if err != nil {
		tr.Error = err.Error()
		return
	}
	rn.w.snap, _ = rn.obs.snap()

	for step := 0; step < f.maxSteps; step++ {
		if rn.left == 0 && len(rn.k.aio.pend) == 0 && len(rn.inflight) == 0 && step > 2 {
			// quiescent: a few more ticks let background work run
			if w.mem["drain"] == nil {
				w.mem["drain"] = 0
			}
			if w.mem["drain"].(int) >= 3 {
				break
			}
			w.mem["drain"] = w.mem["drain"].(int) + 1
		}
		rn.tick()
		rn.process()
		if f.crash > 0 && r.chance(f.crash) {
			rn.crash()
		}
	}
	if f.drainTicks > 0 {
		// the quiet phase: clients have stopped, nothing fails any more, every hand-off succeeds
		rn.quiet = true
		rn.left = 0
		tr.DrainFrom = len(tr.Events)
		for i := 0; i < f.drainTicks; i++ {
			rn.tick()
			rn.process()
		}
	}
	return
}

// ---------- tick ----------

func (rn *runner) tick() {
	w, r, k := rn.w, rn.w.r, rn.k
	step := rn.f.timeStep(w)
	if rn.quiet {
		step = 1
	}
	if rn.afterCrash && step < 1 {
		// a restarted kernel names its background coroutines <name>:<t>; keep those ids fresh
		step = 1
	}
	rn.afterCrash = false
	w.now += step
	t := w.now

	// deliveries: a subset of the ready completions
	delivered := []term{}
	var cqes []*bus.CQE[t_aio.Submission, t_aio.Completion]
	for _, e := range append([]*pendEntry{}, k.aio.pend...) {
		if e.ready != nil && (rn.quiet || r.chance(0.85)) {
			cqes = append(cqes, e.ready)
			delivered = append(delivered, P(S(e.id), N(e.n)))
			k.aio.remove(e)
		}
	}
	k.aio.deliver = cqes

	// arrivals
	arrivals := []term{}
	arrivedIds := []string{}
	nreq := 0
	if rn.left > 0 {
		nreq = r.intn(4)
		if nreq > rn.left {
			nreq = rn.left
		}
	}
	rn.resp = map[string]term{}
	for i := 0; i < nreq; i++ {
		req := rn.f.gen(w)
		if req == nil {
			continue
		}
		rn.left--
		w.reqNo++
		id := fmt.Sprintf("r%d", w.reqNo)
		req.Tags = map[string]string{"id": id, "name": req.Kind.String()}
		if req.Kind == t_api.CreateSchedule {
			rn.cronSet[req.CreateSchedule.Cron] = true
		}
		arrivals = append(arrivals, P(S(id), RequestT(req)))
		arrivedIds = append(arrivedIds, id)
		rn.inflight[id] = true
		rid := id
		k.api.EnqueueSQE(&bus.SQE[t_api.Request, t_api.Response]{Id: id, Submission: req, Callback: func(res *t_api.Response, err error) {
			rn.resp[rid] = ResponseT(res, err)
			delete(rn.inflight, rid)
			// a client following cursors: the next page request is the one the cursor carries
			if err == nil && res != nil && res.Kind == t_api.SearchPromises && res.SearchPromises != nil && res.SearchPromises.Cursor != nil {
				w.mem["nextSearch"] = res.SearchPromises.Cursor.Next
			}
		}})
		rn.stat("req:" + req.Kind.String())
	}
	for c := range rn.cronSet {
		rn.noteCron(c, t)
	}

	// background coroutines that start in this tick are seen at their first dispatch
	bgs := []term{}
	arrivedSet := map[string]bool{}
	for _, id := range arrivedIds {
		arrivedSet[id] = true
	}
	k.aio.tickNew = nil
	k.aio.seen = func(id string) {
		if rn.known[id] || arrivedSet[id] {
			return
		}
		if name, ok := bgName(id); ok {
			rn.known[id] = true
			rn.order = append(rn.order, id)
			bgs = append(bgs, P(S(id), C(bgKind[name])))
			rn.stat("bg:" + name)
		}
	}
	k.sys.Tick(t)
	k.aio.seen = nil
	k.aio.group++
	for _, id := range arrivedIds {
		rn.known[id] = true
		rn.order = append(rn.order, id)
	}

	// observations, in arrival order of the coroutines
	byId := map[string][]term{}
	for _, e := range k.aio.tickNew {
		byId[e.id] = append(byId[e.id], SubT(e.sqe.Submission))
	}
	obs := []term{}
	for _, id := range rn.order {
		subs, hasSubs := byId[id]
		resp, hasResp := rn.resp[id]
		// a background coroutine that finished is not observable through the api: the model reports RspBgDone
		// only for instances, which the harness cannot see; both sides therefore omit bg completion
		if !hasSubs && !hasResp {
			continue
		}
		var rt term
		if hasResp {
			rt = Some(resp)
			rn.stat(fmt.Sprintf("status:%v", statusOf(resp)))
		}
		obs = append(obs, C("OInst", S(id), L(subs...), rt))
	}
	rn.tr.Events = append(rn.tr.Events, event{D: C("DTick", t, L(delivered...), L(bgs...), L(arrivals...)), O: obs})
}

func statusOf(resp term) any {
	if l, ok := resp.([]any); ok && len(l) > 1 {
		return l[1]
	}
	return "?"
}

// ---------- between ticks: the subsystems process pending submissions ----------

func (rn *runner) process() {
	r, k := rn.w.r, rn.k
	// router and sender submissions
	for _, e := range append([]*pendEntry{}, k.aio.pend...) {
		if e.ready != nil {
			continue
		}
		switch e.sqe.Submission.Kind {
		case t_aio.Router:
			if !rn.quiet && r.chance(0.1) {
				continue // later
			}
			if !rn.quiet && r.chance(rn.f.fault) {
				e.ready = &bus.CQE[t_aio.Submission, t_aio.Completion]{Id: e.id, Callback: e.sqe.Callback, Error: fmt.Errorf("injected router failure")}
				rn.tr.Events = append(rn.tr.Events, event{D: C("DRouter", S(e.id), N(e.n), nil), O: []term{}})
				rn.stat("fault:router")
				continue
			}
			cqe := k.router.Process([]*bus.SQE[t_aio.Submission, t_aio.Completion]{e.sqe})[0]
			e.ready = cqe
			var res term
			if cqe.Completion.Router.Matched {
				res = Some(B(cqe.Completion.Router.Recv))
			}
			rn.tr.Events = append(rn.tr.Events, event{D: C("DRouter", S(e.id), N(e.n), Some(res)), O: []term{}})
		case t_aio.Sender:
			if !rn.quiet && r.chance(0.1) {
				continue
			}
			var res term
			cqe := &bus.CQE[t_aio.Submission, t_aio.Completion]{Id: e.id, Callback: e.sqe.Callback}
			x := float64(r.intn(1000)) / 1000.0
			if rn.quiet || x < rn.f.senderOK {
				cqe.Completion = &t_aio.Completion{Kind: t_aio.Sender, Tags: e.sqe.Submission.Tags, Sender: &t_aio.SenderCompletion{Success: true}}
				res = Some(true)
			} else if x < rn.f.senderOK+(1-rn.f.senderOK)/2 {
				cqe.Completion = &t_aio.Completion{Kind: t_aio.Sender, Tags: e.sqe.Submission.Tags, Sender: &t_aio.SenderCompletion{Success: false}}
				res = Some(false)
			} else {
				cqe.Error = fmt.Errorf("injected sender failure")
			}
			e.ready = cqe
			rn.tr.Events = append(rn.tr.Events, event{D: C("DSender", S(e.id), N(e.n), res), O: []term{}})
			rn.stat("sender")
		}
	}

	// store submissions: oldest tick group first (fifo), random order inside a group, random batches
	for {
		var store []*pendEntry
		for _, e := range k.aio.pend {
			if e.ready == nil && e.sqe.Submission.Kind == t_aio.Store {
				store = append(store, e)
			}
		}
		if len(store) == 0 {
			return
		}
		if !rn.quiet && r.chance(0.12) {
			return // leave the rest for a later round
		}
		minGroup := store[0].group
		for _, e := range store {
			if e.group < minGroup {
				minGroup = e.group
			}
		}
		var cand []*pendEntry
		for _, e := range store {
			if !rn.f.fifo || e.group == minGroup {
				cand = append(cand, e)
			}
		}
		// shuffle
		for i := len(cand) - 1; i > 0; i-- {
			j := r.intn(i + 1)
			cand[i], cand[j] = cand[j], cand[i]
		}
		// pre-failure of one submission
		if !rn.quiet && r.chance(rn.f.fault) {
			e := cand[0]
			e.ready = &bus.CQE[t_aio.Submission, t_aio.Completion]{Id: e.id, Callback: e.sqe.Callback, Error: fmt.Errorf("injected failure before processing")}
			rn.tr.Events = append(rn.tr.Events, event{D: C("DDrop", S(e.id), N(e.n)), O: []term{}})
			rn.stat("fault:drop")
			continue
		}
		n := 1 + r.intn(3)
		if n > len(cand) {
			n = len(cand)
		}
		rn.exec(cand[:n])
	}
}

func (rn *runner) exec(batch []*pendEntry) {
	r, k := rn.w.r, rn.k
	sqes := make([]*bus.SQE[t_aio.Submission, t_aio.Completion], len(batch))
	for i, e := range batch {
		sqes[i] = e.sqe
	}
	cqes := k.store.Process(sqes)
	items := []term{}
	var results term
	all := []term{}
	txns := []term{}
	failed := false
	for i, e := range batch {
		txns = append(txns, TxnT(e.sqe.Submission.Store.Transaction))
		cqe := cqes[i]
		lose := false
		hints := []term{}
		if cqe.Error != nil {
			failed = true
		} else {
			for j, res := range cqe.Completion.Store.Results {
				if res.Kind == t_aio.ReadEnqueueableTasks {
					for len(hints) < j {
						hints = append(hints, nil)
					}
					ids := []term{}
					for _, rec := range res.ReadEnqueueableTasks.Records {
						ids = append(ids, S(rec.Id))
					}
					hints = append(hints, Some(L(ids...)))
				}
			}
			all = append(all, ResultsT(cqe.Completion.Store.Results))
			if !rn.quiet && r.chance(rn.f.fault) {
				lose = true
				cqe = &bus.CQE[t_aio.Submission, t_aio.Completion]{Id: e.id, Callback: cqe.Callback, Error: fmt.Errorf("injected failure after processing")}
				rn.stat("fault:lose")
			}
		}
		e.ready = cqe
		items = append(items, C("mkEx", S(e.id), N(e.n), L(hints...), lose))
	}
	if !failed {
		results = Some(L(all...))
	} else {
		rn.stat("exec:sqlerror")
	}
	snap, err := rn.obs.snap()
	if err != nil {
		panic(err)
	}
	rn.w.snap = snap
	for _, s := range snap.schedules {
		rn.noteCronLazy(s.Cron, s.NextRunTime)
	}
	rn.stat("exec")
	rn.stat(fmt.Sprintf("batch:%d", len(batch)))
	rn.tr.Events = append(rn.tr.Events, event{D: C("DExec", L(items...)), O: []term{C("OExec", L(txns...), results, snap.term())}})
}

func (rn *runner) crash() {
	// the process dies: kernel, coroutines, queues and the store connection are gone; the database file stays.
	// The new process opens the file while the old connection has not been closed (no graceful shutdown).
	old := rn.k
	rn.reg = prometheus.NewRegistry()
	k, err := newKernel(rn.path, rn.cfg, rn.f.bgs, rn.reg)
	if err != nil {
		panic(err)
	}
	rn.k = k
	rn.inflight = map[string]bool{}
	rn.tr.Events = append(rn.tr.Events, event{D: C("DCrash"), O: []term{}})
	// what the restarted server finds: an empty batch shows the tables after the restart
	snap, err := rn.obs.snap()
	if err != nil {
		panic(err)
	}
	rn.w.snap = snap
	rn.tr.Events = append(rn.tr.Events, event{D: C("DExec", L()), O: []term{C("OExec", L(), Some(L()), snap.term())}})
	_ = old.store.Stop()
	rn.afterCrash = true
	rn.stat("crash")
}

// cronOracle is the cron library itself (robfig/cron v3, seconds optional, descriptors allowed: the documented format),
// asked for the first occurrence strictly after the instant t (milliseconds, exact).  It does not go through the
// server's own helpers (internal/util), which are code under test.
func cronOracle(t int64, spec string) (nx int64, err error) {
	defer func() {
		if e := recover(); e != nil {
			err = fmt.Errorf("cron library panicked: %v", e)
		}
	}()
	sched, err := cronlib.NewParser(cronlib.SecondOptional | cronlib.Minute | cronlib.Hour | cronlib.Dom | cronlib.Month | cronlib.Dow | cronlib.Descriptor).Parse(spec)
	if err != nil {
		return 0, err
	}
	return sched.Next(time.UnixMilli(t)).UnixMilli(), nil
}
