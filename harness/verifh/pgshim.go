//go:build verif

package main

// A database/sql driver that lets the production POSTGRES store worker run against an SQLite file: every statement is
// rewritten by the dialect map of coq/Spec/Dialect.v ($n -> ?n, `::type` casts dropped, the `locks.` qualifier
// dropped) before SQLite prepares it.  Props/C17.v proves that under this map every Postgres statement IS the SQLite
// statement, except five structurally different ones (table creation / drop, the two tag searches, the enqueueable
// selection): the harness creates the tables with the SQLite schema and never sends the enqueueable selection here.
// The two tag searches DO run here: their only Postgres-specific operator, `tags @> $n` (JSON containment of a flat
// string map), is rewritten to a function registered on the SQLite connection (pg_contains), so that the Go code
// around the statement - pattern conversion, state mask, argument order, scanning - is exercised.

import (
	"database/sql"
	"database/sql/driver"
	"encoding/json"
	"regexp"
	"strings"

	sqlite3 "github.com/mattn/go-sqlite3"
)

type pgShimDriver struct{ inner *sqlite3.SQLiteDriver }

type pgShimConn struct{ driver.Conn }

func (d *pgShimDriver) Open(dsn string) (driver.Conn, error) {
	c, err := d.inner.Open(dsn)
	if err != nil {
		return nil, err
	}
	return &pgShimConn{c}, nil
}

func (c *pgShimConn) Prepare(q string) (driver.Stmt, error) { return c.Conn.Prepare(pgToSqlite(q)) }

func isIdent(b byte) bool {
	return b == '_' || (b >= 'a' && b <= 'z') || (b >= 'A' && b <= 'Z') || (b >= '0' && b <= '9')
}

// pgToSqlite is the token-level dialect map; string literals are copied untouched
func pgToSqlite(q string) string {
	var sb strings.Builder
	for i := 0; i < len(q); {
		switch {
		case q[i] == '\'':
			j := i + 1
			for j < len(q) && q[j] != '\'' {
				j++
			}
			if j < len(q) {
				j++
			}
			sb.WriteString(q[i:j])
			i = j
		case q[i] == '$' && i+1 < len(q) && q[i+1] >= '0' && q[i+1] <= '9':
			sb.WriteByte('?')
			i++
		case q[i] == ':' && i+1 < len(q) && q[i+1] == ':':
			j := i + 2
			for j < len(q) && isIdent(q[j]) {
				j++
			}
			i = j
		case strings.HasPrefix(q[i:], "locks.") && (i == 0 || !isIdent(q[i-1])):
			i += len("locks.")
		default:
			sb.WriteByte(q[i])
			i++
		}
	}
	return containsRe.ReplaceAllString(sb.String(), "pg_contains($1, $2)")
}

var containsRe = regexp.MustCompile(`(\w+)\s*@>\s*(\?\d+)`)

// pgContains is `a @> b` for JSON objects with string values: every pair of b is a pair of a (NULL operands: false)
func pgContains(a, b any) bool {
	as, ok1 := toStr(a)
	bs, ok2 := toStr(b)
	if !ok1 || !ok2 {
		return false
	}
	var am, bm map[string]any
	if json.Unmarshal([]byte(as), &am) != nil || json.Unmarshal([]byte(bs), &bm) != nil {
		return false
	}
	for k, v := range bm {
		w, ok := am[k]
		if !ok {
			return false
		}
		x, _ := json.Marshal(v)
		y, _ := json.Marshal(w)
		if string(x) != string(y) {
			return false
		}
	}
	return true
}

func toStr(v any) (string, bool) {
	switch x := v.(type) {
	case string:
		return x, true
	case []byte:
		return string(x), true
	}
	return "", false
}

func init() {
	sql.Register("pgshim", &pgShimDriver{inner: &sqlite3.SQLiteDriver{ConnectHook: func(c *sqlite3.SQLiteConn) error {
		return c.RegisterFunc("pg_contains", pgContains, true)
	}}})
}
