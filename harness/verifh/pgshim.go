//go:build verif

package main

// A database/sql driver that lets the production POSTGRES store worker run against an SQLite file: every statement is
// rewritten by the dialect map of coq/Spec/Dialect.v ($n -> ?n, `::type` casts dropped, the `locks.` qualifier
// dropped) before SQLite prepares it.  Props/C17.v proves that under this map every Postgres statement IS the SQLite
// statement, except five structurally different ones (table creation / drop, the two tag searches, the enqueueable
// selection): the harness creates the tables with the SQLite schema and never sends those three commands here.

import (
	"database/sql"
	"database/sql/driver"
	"strings"

	sqlite3 "github.com/mattn/go-sqlite3"
)

type pgShimDriver struct{ inner *sqlite3.SQLiteDriver }

type pgShimConn struct{ driver.Conn }

func (d *pgShimDriver) Open(dsn string) (driver.Conn, error) {
	c, err := d.inner.Open(dsn)
	if err != nil {
		return nil, err
	}
	return &pgShimConn{c}, nil
}

func (c *pgShimConn) Prepare(q string) (driver.Stmt, error) { return c.Conn.Prepare(pgToSqlite(q)) }

func isIdent(b byte) bool {
	return b == '_' || (b >= 'a' && b <= 'z') || (b >= 'A' && b <= 'Z') || (b >= '0' && b <= '9')
}

// pgToSqlite is the token-level dialect map; string literals are copied untouched
func pgToSqlite(q string) string {
	var sb strings.Builder
	for i := 0; i < len(q); {
		switch {
		case q[i] == '\'':
			j := i + 1
			for j < len(q) && q[j] != '\'' {
				j++
			}
			if j < len(q) {
				j++
			}
			sb.WriteString(q[i:j])
			i = j
		case q[i] == '$' && i+1 < len(q) && q[i+1] >= '0' && q[i+1] <= '9':
			sb.WriteByte('?')
			i++
		case q[i] == ':' && i+1 < len(q) && q[i+1] == ':':
			j := i + 2
			for j < len(q) && isIdent(q[j]) {
				j++
			}
			i = j
		case strings.HasPrefix(q[i:], "locks.") && (i == 0 || !isIdent(q[i-1])):
			i += len("locks.")
		default:
			sb.WriteByte(q[i])
			i++
		}
	}
	return sb.String()
}

func init() { sql.Register("pgshim", &pgShimDriver{inner: &sqlite3.SQLiteDriver{}}) }
