//go:build verif

package main

// Translator, part 1: the SQL statements of both store backends, the argument lists bound to their
// placeholders and the record fields their result columns are scanned into -> coq/Gen/Sql.v.

import (
	"fmt"
	"go/ast"
	"go/parser"
	"go/token"
	"go/types"
	"path/filepath"
	"sort"
	"strconv"
	"strings"
	"unicode"
)

func coqStr(s string) string {
	var b strings.Builder
	b.WriteString("\"")
	for _, c := range []byte(s) {
		if c == '"' {
			b.WriteString("\"\"")
		} else if c < 0x20 || c > 0x7e {
			b.WriteString("?")
		} else {
			b.WriteByte(c)
		}
	}
	b.WriteString("\"%string")
	return b.String()
}

func coqList(items []string) string {
	if len(items) == 0 {
		return "[]"
	}
	return "[" + strings.Join(items, "; ") + "]"
}

func coqStrList(items []string) string {
	q := make([]string, len(items))
	for i, s := range items {
		q[i] = coqStr(s)
	}
	return coqList(q)
}

// sqlTokens: a small SQL lexer. Comments (-- ...) are dropped, identifiers and keywords are lower-cased,
// whitespace is irrelevant. Placeholders (?, $n, %s), numbers, strings, operators and punctuation are tokens.
func sqlTokens(src string) []string {
	var toks []string
	r := []rune(src)
	i := 0
	for i < len(r) {
		c := r[i]
		switch {
		case unicode.IsSpace(c):
			i++
		case c == '-' && i+1 < len(r) && r[i+1] == '-':
			for i < len(r) && r[i] != '\n' {
				i++
			}
		case unicode.IsLetter(c) || c == '_':
			j := i
			for j < len(r) && (unicode.IsLetter(r[j]) || unicode.IsDigit(r[j]) || r[j] == '_') {
				j++
			}
			toks = append(toks, strings.ToLower(string(r[i:j])))
			i = j
		case unicode.IsDigit(c):
			j := i
			for j < len(r) && unicode.IsDigit(r[j]) {
				j++
			}
			toks = append(toks, string(r[i:j]))
			i = j
		case c == '$':
			j := i + 1
			for j < len(r) && unicode.IsDigit(r[j]) {
				j++
			}
			toks = append(toks, string(r[i:j]))
			i = j
		case c == '%' && i+1 < len(r) && r[i+1] == 's':
			toks = append(toks, "%s")
			i += 2
		case c == '\'':
			j := i + 1
			for j < len(r) && r[j] != '\'' {
				j++
			}
			toks = append(toks, string(r[i:min(j+1, len(r))]))
			i = j + 1
		default:
			// two-character operators
			if i+1 < len(r) {
				two := string(r[i : i+2])
				switch two {
				case "<=", ">=", "!=", "<>", "::", "@>", "||":
					toks = append(toks, two)
					i += 2
					continue
				}
			}
			toks = append(toks, string(c))
			i++
		}
	}
	return toks
}

type sqlFile struct {
	stmts  map[string][]string // const name -> tokens
	order  []string
	calls  map[string][][]string // func name -> list of (callee, arg exprs...)
	scans  map[string][][]string // func name -> list of scan target lists
	funcs  []string
	resets string // default of the Reset config field
}

func parseSqlFile(path string) (*sqlFile, error) {
	fset := token.NewFileSet()
	f, err := parser.ParseFile(fset, path, nil, 0)
	if err != nil {
		return nil, err
	}
	sf := &sqlFile{stmts: map[string][]string{}, calls: map[string][][]string{}, scans: map[string][][]string{}}
	for _, d := range f.Decls {
		switch gd := d.(type) {
		case *ast.GenDecl:
			if gd.Tok == token.CONST {
				for _, sp := range gd.Specs {
					vs := sp.(*ast.ValueSpec)
					for i, n := range vs.Names {
						if i < len(vs.Values) {
							if bl, ok := vs.Values[i].(*ast.BasicLit); ok && bl.Kind == token.STRING && strings.HasSuffix(n.Name, "_STATEMENT") {
								s, err := strconv.Unquote(bl.Value)
								if err != nil {
									return nil, err
								}
								sf.stmts[n.Name] = sqlTokens(s)
								sf.order = append(sf.order, n.Name)
							}
						}
					}
				}
			}
			if gd.Tok == token.TYPE {
				for _, sp := range gd.Specs {
					ts := sp.(*ast.TypeSpec)
					if st, ok := ts.Type.(*ast.StructType); ok && ts.Name.Name == "Config" {
						for _, fld := range st.Fields.List {
							for _, n := range fld.Names {
								if n.Name == "Reset" && fld.Tag != nil {
									tag, _ := strconv.Unquote(fld.Tag.Value)
									sf.resets = structTag(tag, "default")
								}
							}
						}
					}
				}
			}
		case *ast.FuncDecl:
			if gd.Body == nil {
				continue
			}
			name := gd.Name.Name
			ast.Inspect(gd.Body, func(n ast.Node) bool {
				ce, ok := n.(*ast.CallExpr)
				if !ok {
					return true
				}
				sel, ok := ce.Fun.(*ast.SelectorExpr)
				if !ok {
					return true
				}
				switch sel.Sel.Name {
				case "Exec", "Query", "QueryRow":
					item := []string{sel.Sel.Name}
					for _, a := range ce.Args {
						item = append(item, types.ExprString(a))
					}
					sf.calls[name] = append(sf.calls[name], item)
				case "Scan":
					item := []string{}
					for _, a := range ce.Args {
						item = append(item, types.ExprString(a))
					}
					sf.scans[name] = append(sf.scans[name], item)
				}
				return true
			})
			if len(sf.calls[name]) > 0 || len(sf.scans[name]) > 0 {
				sf.funcs = append(sf.funcs, name)
			}
		}
	}
	sort.Strings(sf.funcs)
	return sf, nil
}

func structTag(tag, key string) string {
	for _, part := range strings.Fields(tag) {
		if strings.HasPrefix(part, key+":") {
			v, err := strconv.Unquote(strings.TrimPrefix(part, key+":"))
			if err == nil {
				return v
			}
		}
	}
	// values with spaces
	idx := strings.Index(tag, key+":\"")
	if idx >= 0 {
		rest := tag[idx+len(key)+2:]
		if j := strings.Index(rest, "\""); j >= 0 {
			return rest[:j]
		}
	}
	return ""
}

func emitSqlFile(prefix string, sf *sqlFile) string {
	var b strings.Builder
	items := []string{}
	for _, n := range sf.order {
		items = append(items, fmt.Sprintf("(%s, %s)", coqStr(n), coqStrList(sf.stmts[n])))
	}
	fmt.Fprintf(&b, "Definition %s_stmts : list (string * list string) :=\n  [%s].\n\n", prefix, strings.Join(items, ";\n   "))
	calls := []string{}
	scans := []string{}
	for _, fn := range sf.funcs {
		cs := []string{}
		for _, c := range sf.calls[fn] {
			cs = append(cs, coqStrList(c))
		}
		calls = append(calls, fmt.Sprintf("(%s, %s)", coqStr(fn), coqList(cs)))
		ss := []string{}
		for _, c := range sf.scans[fn] {
			ss = append(ss, coqStrList(c))
		}
		scans = append(scans, fmt.Sprintf("(%s, %s)", coqStr(fn), coqList(ss)))
	}
	fmt.Fprintf(&b, "Definition %s_calls : list (string * list (list string)) :=\n  [%s].\n\n", prefix, strings.Join(calls, ";\n   "))
	fmt.Fprintf(&b, "Definition %s_scans : list (string * list (list string)) :=\n  [%s].\n\n", prefix, strings.Join(scans, ";\n   "))
	fmt.Fprintf(&b, "Definition %s_reset_default : string := %s.\n\n", prefix, coqStr(sf.resets))
	return b.String()
}

func genSql(repo string) (string, error) {
	lite, err := parseSqlFile(filepath.Join(repo, "internal/app/subsystems/aio/store/sqlite/sqlite.go"))
	if err != nil {
		return "", err
	}
	pg, err := parseSqlFile(filepath.Join(repo, "internal/app/subsystems/aio/store/postgres/postgres.go"))
	if err != nil {
		return "", err
	}
	var b strings.Builder
	b.WriteString("(* GENERATED by `verifh gen` from internal/app/subsystems/aio/store/{sqlite,postgres}/*.go -- do not edit. *)\n")
	b.WriteString("From Coq Require Import List String.\nImport ListNotations.\n\n")
	b.WriteString(emitSqlFile("sqlite", lite))
	b.WriteString(emitSqlFile("pg", pg))
	return b.String(), nil
}

func init() {
	genFiles = append(genFiles, genFile{name: "Sql.v", body: genSql})
}
