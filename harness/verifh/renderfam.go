//go:build verif

package main

// Family "render" (C15): every operation of both protocols crossed with every status the kernel defines and every
// shape of the accompanying response.  A stub kernel answers a fixed well-formed request of the operation with the
// chosen (status, shape); the production HTTP server and gRPC handlers render it.  coq/Model/Render.v predicts the
// HTTP status, the error code in the body, the gRPC code, the outcome flags and which resources must be echoed.

import (
	"bufio"
	"context"
	"encoding/json"
	"errors"
	"flag"
	"fmt"
	"io"
	"net/http"
	"os"
	"reflect"
	"strings"
	"time"

	grpcApi "github.com/resonatehq/resonate/internal/app/subsystems/api/grpc"
	"github.com/resonatehq/resonate/internal/app/subsystems/api/grpc/pb"
	httpApi "github.com/resonatehq/resonate/internal/app/subsystems/api/http"
	"github.com/resonatehq/resonate/internal/kernel/t_api"
	"github.com/resonatehq/resonate/pkg/callback"
	"github.com/resonatehq/resonate/pkg/idempotency"
	"github.com/resonatehq/resonate/pkg/lock"
	"github.com/resonatehq/resonate/pkg/message"
	"github.com/resonatehq/resonate/pkg/promise"
	"github.com/resonatehq/resonate/pkg/schedule"
	"github.com/resonatehq/resonate/pkg/task"
	"google.golang.org/grpc/status"
	"google.golang.org/protobuf/encoding/protojson"
	"google.golang.org/protobuf/proto"
)

// the closed set of kernel outcomes (internal/kernel/t_api/status.go); Model/Render.v checks every case's status
// against the list regenerated from the source (Gen/Status.v)
var allStatuses = []t_api.StatusCode{
	t_api.StatusOK, t_api.StatusCreated, t_api.StatusNoContent,
	t_api.StatusFieldValidationError, t_api.StatusCallbackInvalidPromise,
	t_api.StatusPromiseAlreadyResolved, t_api.StatusPromiseAlreadyRejected, t_api.StatusPromiseAlreadyCanceled, t_api.StatusPromiseAlreadyTimedout,
	t_api.StatusLockAlreadyAcquired, t_api.StatusTaskAlreadyClaimed, t_api.StatusTaskAlreadyCompleted, t_api.StatusTaskInvalidCounter, t_api.StatusTaskInvalidState,
	t_api.StatusPromiseNotFound, t_api.StatusScheduleNotFound, t_api.StatusLockNotFound, t_api.StatusTaskNotFound, t_api.StatusPromiseRecvNotFound,
	t_api.StatusPromiseAlreadyExists, t_api.StatusScheduleAlreadyExists,
	t_api.StatusInternalServerError, t_api.StatusAIOEchoError, t_api.StatusAIOMatchError, t_api.StatusAIOQueueError, t_api.StatusAIOStoreError,
	t_api.StatusSystemShuttingDown, t_api.StatusAPISubmissionQueueFull, t_api.StatusAIOSubmissionQueueFull, t_api.StatusSchedulerQueueFull,
}

var renderOps = []string{"ReadPromise", "SearchPromises", "CreatePromise", "CreatePromiseAndTask", "ResolvePromise", "RejectPromise", "CancelPromise",
	"CreateCallback", "CreateSubscription", "ReadSchedule", "SearchSchedules", "CreateSchedule", "DeleteSchedule",
	"AcquireLock", "ReleaseLock", "HeartbeatLocks", "ClaimTask", "CompleteTask", "HeartbeatTasks"}

// one fixed well-formed request per operation
func renderLogical(op string) logical {
	recvB, _ := json.Marshal("default")
	recvP := &pb.Recv{Recv: &pb.Recv_Logical{Logical: "default"}}
	cpr := &t_api.CreatePromiseRequest{Id: "q", Timeout: 10}
	srch := func(p bool) logical {
		return logical{search: &struct {
			promises bool
			id       string
			state    int
			tags     map[string]string
			limit    int
		}{p, "*", 0, nil, 10}}
	}
	switch op {
	case "ReadPromise":
		return logical{want: &t_api.Request{Kind: t_api.ReadPromise, ReadPromise: &t_api.ReadPromiseRequest{Id: "q"}}}
	case "SearchPromises":
		return srch(true)
	case "CreatePromise":
		return logical{want: &t_api.Request{Kind: t_api.CreatePromise, CreatePromise: cpr}}
	case "CreatePromiseAndTask":
		return logical{want: &t_api.Request{Kind: t_api.CreatePromiseAndTask, CreatePromiseAndTask: &t_api.CreatePromiseAndTaskRequest{Promise: cpr, Task: &t_api.CreateTaskRequest{PromiseId: "q", ProcessId: "w", Ttl: 5, Timeout: 10}}}}
	case "ResolvePromise", "RejectPromise", "CancelPromise":
		st := map[string]promise.State{"ResolvePromise": promise.Resolved, "RejectPromise": promise.Rejected, "CancelPromise": promise.Canceled}[op]
		return logical{want: &t_api.Request{Kind: t_api.CompletePromise, CompletePromise: &t_api.CompletePromiseRequest{Id: "q", State: st}}}
	case "CreateCallback":
		return logical{cbid: "c", recv: recvP, want: &t_api.Request{Kind: t_api.CreateCallback, CreateCallback: &t_api.CreateCallbackRequest{Id: "c", PromiseId: "q", RootPromiseId: "r", Timeout: 10, Recv: recvB}}}
	case "CreateSubscription":
		return logical{recv: recvP, want: &t_api.Request{Kind: t_api.CreateSubscription, CreateSubscription: &t_api.CreateSubscriptionRequest{Id: "c", PromiseId: "q", Timeout: 10, Recv: recvB}}}
	case "ReadSchedule":
		return logical{want: &t_api.Request{Kind: t_api.ReadSchedule, ReadSchedule: &t_api.ReadScheduleRequest{Id: "s"}}}
	case "SearchSchedules":
		return srch(false)
	case "CreateSchedule":
		return logical{want: &t_api.Request{Kind: t_api.CreateSchedule, CreateSchedule: &t_api.CreateScheduleRequest{Id: "s", Cron: "* * * * *", PromiseId: "x", PromiseTimeout: 10}}}
	case "DeleteSchedule":
		return logical{want: &t_api.Request{Kind: t_api.DeleteSchedule, DeleteSchedule: &t_api.DeleteScheduleRequest{Id: "s"}}}
	case "AcquireLock":
		return logical{want: &t_api.Request{Kind: t_api.AcquireLock, AcquireLock: &t_api.AcquireLockRequest{ResourceId: "r", ExecutionId: "e", ProcessId: "w", Ttl: 5}}}
	case "ReleaseLock":
		return logical{want: &t_api.Request{Kind: t_api.ReleaseLock, ReleaseLock: &t_api.ReleaseLockRequest{ResourceId: "r", ExecutionId: "e"}}}
	case "HeartbeatLocks":
		return logical{want: &t_api.Request{Kind: t_api.HeartbeatLocks, HeartbeatLocks: &t_api.HeartbeatLocksRequest{ProcessId: "w"}}}
	case "ClaimTask":
		return logical{want: &t_api.Request{Kind: t_api.ClaimTask, ClaimTask: &t_api.ClaimTaskRequest{Id: "t", Counter: 1, ProcessId: "w", Ttl: 5}}}
	case "CompleteTask":
		return logical{want: &t_api.Request{Kind: t_api.CompleteTask, CompleteTask: &t_api.CompleteTaskRequest{Id: "t", Counter: 1}}}
	case "HeartbeatTasks":
		return logical{want: &t_api.Request{Kind: t_api.HeartbeatTasks, HeartbeatTasks: &t_api.HeartbeatTasksRequest{ProcessId: "w"}}}
	}
	panic(op)
}

// shape 0: every resource present with every optional field set; 1: every resource absent (where the handlers'
// documented contract allows it); 2: resources present with every optional field nil
func shapedResponse(kind t_api.Kind, st t_api.StatusCode, shape int, resume bool, pstate promise.State) *t_api.Response {
	now := int64(1)
	key := idempotency.Key("IKEY")
	pid := "PROC"
	mkP := func(id string) *promise.Promise {
		switch shape {
		case 1:
			return nil
		case 2:
			return &promise.Promise{Id: id, State: pstate}
		}
		return &promise.Promise{Id: id, State: pstate, Timeout: 10, Param: promise.Value{Headers: map[string]string{"h": "v"}, Data: []byte("d")},
			Value: promise.Value{Headers: map[string]string{"h": "v"}, Data: []byte("d")}, Tags: map[string]string{"t": "v"},
			IdempotencyKeyForCreate: &key, IdempotencyKeyForComplete: &key, CreatedOn: &now, CompletedOn: &now}
	}
	typ := message.Type(message.Invoke)
	if resume {
		typ = message.Type(message.Resume)
	}
	mkT := func(forClaim bool) *task.Task {
		switch {
		case shape == 1 && !forClaim:
			return nil
		case shape == 2 || shape == 1:
			return &task.Task{Id: "TSK", Counter: 1, Mesg: &message.Mesg{Type: typ, Root: "ROOT", Leaf: "LEAF"}}
		}
		return &task.Task{Id: "TSK", Counter: 1, Timeout: 10, ProcessId: &pid, Mesg: &message.Mesg{Type: typ, Root: "ROOT", Leaf: "LEAF"}, CreatedOn: &now, CompletedOn: &now}
	}
	mkS := func() *schedule.Schedule {
		switch shape {
		case 1:
			return nil
		case 2:
			return &schedule.Schedule{Id: "SCH", Cron: "* * * * *", PromiseId: "x"}
		}
		return &schedule.Schedule{Id: "SCH", Description: "d", Cron: "* * * * *", Tags: map[string]string{"t": "v"}, PromiseId: "x", PromiseTimeout: 10,
			PromiseParam: promise.Value{Headers: map[string]string{"h": "v"}, Data: []byte("d")}, PromiseTags: map[string]string{"t": "v"}, LastRunTime: &now, NextRunTime: 2, IdempotencyKey: &key, CreatedOn: 1}
	}
	mkC := func() *callback.Callback {
		if shape == 1 {
			return nil
		}
		return &callback.Callback{Id: "CBK", PromiseId: "PRM", Timeout: 10, CreatedOn: 1}
	}
	res := &t_api.Response{Kind: kind}
	switch kind {
	case t_api.ReadPromise:
		res.ReadPromise = &t_api.ReadPromiseResponse{Status: st, Promise: mkP("PRM")}
	case t_api.SearchPromises:
		x := &t_api.SearchPromisesResponse{Status: st}
		if shape != 1 {
			x.Promises = []*promise.Promise{mkP("PRM")}
		}
		if shape == 0 {
			sid := int64(3)
			x.Cursor = &t_api.Cursor[t_api.SearchPromisesRequest]{Next: &t_api.SearchPromisesRequest{Id: "*", States: []promise.State{promise.Pending}, Tags: map[string]string{}, Limit: 10, SortId: &sid}}
		}
		res.SearchPromises = x
	case t_api.CreatePromise:
		res.CreatePromise = &t_api.CreatePromiseResponse{Status: st, Promise: mkP("PRM")}
	case t_api.CreatePromiseAndTask:
		res.CreatePromiseAndTask = &t_api.CreatePromiseAndTaskResponse{Status: st, Promise: mkP("PRM"), Task: mkT(false)}
	case t_api.CompletePromise:
		res.CompletePromise = &t_api.CompletePromiseResponse{Status: st, Promise: mkP("PRM")}
	case t_api.CreateCallback:
		res.CreateCallback = &t_api.CreateCallbackResponse{Status: st, Promise: mkP("PRM"), Callback: mkC()}
	case t_api.CreateSubscription:
		res.CreateSubscription = &t_api.CreateSubscriptionResponse{Status: st, Promise: mkP("PRM"), Callback: mkC()}
	case t_api.ReadSchedule:
		res.ReadSchedule = &t_api.ReadScheduleResponse{Status: st, Schedule: mkS()}
	case t_api.SearchSchedules:
		x := &t_api.SearchSchedulesResponse{Status: st}
		if shape != 1 {
			x.Schedules = []*schedule.Schedule{mkS()}
		}
		if shape == 0 {
			sid := int64(3)
			x.Cursor = &t_api.Cursor[t_api.SearchSchedulesRequest]{Next: &t_api.SearchSchedulesRequest{Id: "*", Tags: map[string]string{}, Limit: 10, SortId: &sid}}
		}
		res.SearchSchedules = x
	case t_api.CreateSchedule:
		res.CreateSchedule = &t_api.CreateScheduleResponse{Status: st, Schedule: mkS()}
	case t_api.DeleteSchedule:
		res.DeleteSchedule = &t_api.DeleteScheduleResponse{Status: st}
	case t_api.AcquireLock:
		x := &t_api.AcquireLockResponse{Status: st}
		if shape != 1 {
			x.Lock = &lock.Lock{ResourceId: "LCK", ExecutionId: "e", ProcessId: "w", Ttl: 5, ExpiresAt: 6}
		}
		res.AcquireLock = x
	case t_api.ReleaseLock:
		res.ReleaseLock = &t_api.ReleaseLockResponse{Status: st}
	case t_api.HeartbeatLocks:
		res.HeartbeatLocks = &t_api.HeartbeatLocksResponse{Status: st, LocksAffected: 7777}
	case t_api.ClaimTask:
		x := &t_api.ClaimTaskResponse{Status: st, Task: mkT(true), RootPromise: mkP("RPRM"), LeafPromise: mkP("LPRM")}
		if shape == 0 {
			x.RootPromiseHref, x.LeafPromiseHref = "HREFR", "HREFL"
		}
		res.ClaimTask = x
	case t_api.CompleteTask:
		res.CompleteTask = &t_api.CompleteTaskResponse{Status: st, Task: mkT(false)}
	case t_api.HeartbeatTasks:
		res.HeartbeatTasks = &t_api.HeartbeatTasksResponse{Status: st, TasksAffected: 7777}
	}
	return res
}

var renderMarkers = []string{"PRM", "TSK", "SCH", "CBK", "LCK", "ROOT", "LEAF", "RPRM", "LPRM", "7777", "HREFR", "HREFL", "IKEY"}

func markersIn(s string) term {
	out := []term{}
	for _, m := range renderMarkers {
		// whole-token match: RPRM / LPRM contain PRM
		found := false
		for i := 0; i+len(m) <= len(s); i++ {
			if s[i:i+len(m)] == m && (i == 0 || !isWord(s[i-1])) && (i+len(m) == len(s) || !isWord(s[i+len(m)])) {
				found = true
				break
			}
		}
		if found {
			out = append(out, S(m))
		}
	}
	return L(out...)
}

// the promise object of an HTTP reply body, wherever the operation puts it
func findPromiseJSON(op string, parsed any) map[string]any {
	m, ok := parsed.(map[string]any)
	if !ok {
		return nil
	}
	switch op {
	case "ReadPromise", "CreatePromise", "ResolvePromise", "RejectPromise", "CancelPromise":
		return m
	case "CreatePromiseAndTask", "CreateCallback", "CreateSubscription":
		if pm, ok := m["promise"].(map[string]any); ok {
			return pm
		}
	case "SearchPromises":
		if l, ok := m["promises"].([]any); ok && len(l) == 1 {
			if pm, ok := l[0].(map[string]any); ok {
				return pm
			}
		}
	}
	return nil
}

var stateNames = map[promise.State]string{promise.Pending: "PENDING", promise.Resolved: "RESOLVED", promise.Rejected: "REJECTED",
	promise.Canceled: "REJECTED_CANCELED", promise.Timedout: "REJECTED_TIMEDOUT"}

// the fully populated stub promise (shape 0), field by field, under the names of the HTTP API
func promiseJSONExact(m map[string]any, st promise.State) bool {
	val := func(v any) bool {
		x, ok := v.(map[string]any)
		if !ok {
			return false
		}
		h, ok := x["headers"].(map[string]any)
		return ok && len(h) == 1 && h["h"] == "v" && x["data"] == "ZA==" // base64("d")
	}
	tags, ok := m["tags"].(map[string]any)
	return ok && len(tags) == 1 && tags["t"] == "v" && m["id"] == "PRM" && m["state"] == stateNames[st] && m["timeout"] == float64(10) &&
		val(m["param"]) && val(m["value"]) && m["idempotencyKeyForCreate"] == "IKEY" && m["idempotencyKeyForComplete"] == "IKEY" &&
		m["createdOn"] == float64(1) && m["completedOn"] == float64(1) && len(m) == 10
}

func findPromisePB(reply any) *pb.Promise {
	switch r := reply.(type) {
	case *pb.ReadPromiseResponse:
		return r.GetPromise()
	case *pb.CreatePromiseResponse:
		return r.GetPromise()
	case *pb.CreatePromiseAndTaskResponse:
		return r.GetPromise()
	case *pb.ResolvePromiseResponse:
		return r.GetPromise()
	case *pb.RejectPromiseResponse:
		return r.GetPromise()
	case *pb.CancelPromiseResponse:
		return r.GetPromise()
	case *pb.CreateCallbackResponse:
		return r.GetPromise()
	case *pb.CreateSubscriptionResponse:
		return r.GetPromise()
	case *pb.SearchPromisesResponse:
		if len(r.GetPromises()) == 1 {
			return r.GetPromises()[0]
		}
	}
	return nil
}

var pbStates = map[promise.State]pb.State{promise.Pending: pb.State_PENDING, promise.Resolved: pb.State_RESOLVED, promise.Rejected: pb.State_REJECTED,
	promise.Canceled: pb.State_REJECTED_CANCELED, promise.Timedout: pb.State_REJECTED_TIMEDOUT}

func promisePBExact(p *pb.Promise, st promise.State) bool {
	val := func(v *pb.Value) bool {
		return v != nil && len(v.Headers) == 1 && v.Headers["h"] == "v" && string(v.Data) == "d"
	}
	return p.Id == "PRM" && p.State == pbStates[st] && val(p.Param) && val(p.Value) && p.Timeout == 10 &&
		p.IdempotencyKeyForCreate == "IKEY" && p.IdempotencyKeyForComplete == "IKEY" && p.CreatedOn == 1 && p.CompletedOn == 1 &&
		len(p.Tags) == 1 && p.Tags["t"] == "v"
}

func isWord(c byte) bool { return c >= 'A' && c <= 'Z' || c >= '0' && c <= '9' }

// boolean outcome flags of a gRPC reply message, by reflection over its exported bool fields
func boolFlags(m any) term {
	out := []term{}
	v := reflect.ValueOf(m)
	if v.Kind() == reflect.Ptr && !v.IsNil() {
		v = v.Elem()
		for i := 0; i < v.NumField(); i++ {
			f := v.Type().Field(i)
			if f.IsExported() && f.Type.Kind() == reflect.Bool {
				out = append(out, P(S(f.Name), v.Field(i).Bool()))
			}
		}
	}
	return L(out...)
}

func cmdRender(args []string) {
	fs := flag.NewFlagSet("render", flag.ExitOnError)
	seed := fs.Uint64("seed", 1, "base seed")
	n := fs.Int("n", 10, "number of case groups")
	out := fs.String("out", "-", "output file (JSON lines)")
	_ = fs.Int("workers", 1, "ignored")
	exact := fs.Uint64("seed-exact", 0, "run exactly this group seed (replay)")
	_ = fs.Parse(args)
	w := os.Stdout
	if *out != "-" {
		fh, err := os.Create(*out)
		if err != nil {
			panic(err)
		}
		defer fh.Close()
		w = fh
	}
	bw := bufio.NewWriterSize(w, 1<<20)
	defer bw.Flush()
	enc := json.NewEncoder(bw)

	stub := &stubAPI{}
	hs, err := httpApi.New(stub, &httpApi.Config{Addr: "127.0.0.1:0", Timeout: time.Second, TaskFrequency: time.Minute})
	if err != nil {
		panic(err)
	}
	errs := make(chan error, 1)
	go hs.Start(errs)
	time.Sleep(50 * time.Millisecond)
	defer hs.Stop()
	base := "http://" + hs.Addr()
	client := &http.Client{Timeout: 2 * time.Second}
	gs := grpcApi.VerifServer(stub)
	ctx := context.Background()

	// a group = one operation, all statuses, all shapes; group i covers operation i mod 19 (the whole table is
	// covered by 19 groups; further groups vary the promise state and the message type)
	for i := 0; i < *n; i++ {
		sd := *seed*1000003 + uint64(i)
		if *exact != 0 {
			sd = *exact
		}
		r := &rng{s: sd}
		op := renderOps[int(sd%uint64(len(renderOps)))]
		l := renderLogical(op)
		cases := []term{}
		raws := []string{}
		stats := map[string]int{}
		for _, st := range allStatuses {
			shapes := []int{0}
			if st.IsSuccessful() {
				shapes = []int{0, 1, 2}
			}
			for _, shape := range shapes {
				resume := r.chance(0.5)
				pstate := pick(r, []promise.State{promise.Pending, promise.Resolved, promise.Rejected, promise.Canceled, promise.Timedout})
				causeShape := r.intn(5)
				stub.reply = func(q *t_api.Request) (*t_api.Response, error) {
					if st >= 50000 {
						// platform-level outcomes arrive as errors, with or without an underlying cause (the api's own
						// refusals - shutting down, submission queue full - carry none)
						// the cause may itself be a resonate error raised further down (a coroutine that wraps the aio
						// layer's refusal): the reply is still the one of the OUTER status
						inner := t_api.StatusAIOSubmissionQueueFull
						if st == inner {
							inner = t_api.StatusAIOStoreError
						}
						switch causeShape {
						case 0:
							return nil, t_api.NewError(st, nil)
						case 1:
							return nil, t_api.NewError(st, errors.New("injected"))
						case 2:
							return nil, t_api.NewError(st, t_api.NewError(inner, nil))
						case 3:
							return nil, t_api.NewError(st, t_api.NewError(inner, errors.New("injected")))
						default:
							return nil, t_api.NewError(st, fmt.Errorf("wrapped: %w", t_api.NewError(inner, nil)))
						}
					}
					return shapedResponse(q.Kind, st, shape, resume, pstate), nil
				}
				// ---- HTTP ----
				c := exprHTTP(l)
				var hobs term
				req, err := http.NewRequest(c.method, base+c.path, strings.NewReader(c.body))
				if err != nil {
					panic(err)
				}
				if c.body != "" {
					req.Header.Set("Content-Type", "application/json")
				}
				resp, err := client.Do(req)
				if err != nil {
					hobs = C("HPanic")
					stats["http-panic"]++
				} else {
					body, _ := io.ReadAll(resp.Body)
					resp.Body.Close()
					var parsed any
					jsonOK := json.Unmarshal(body, &parsed) == nil
					var ecode term
					if m, ok := parsed.(map[string]any); ok {
						if e, ok := m["error"].(map[string]any); ok {
							if cf, ok := e["code"].(float64); ok {
								ecode = Some(int64(cf))
							}
						}
					}
					marks := markersIn(string(body))
					if pm := findPromiseJSON(op, parsed); pm != nil && promiseJSONExact(pm, pstate) {
						marks = L(append(marks.(map[string]any)["l"].([]term), S("EXACT"))...)
					}
					hobs = C("HReply", int64(resp.StatusCode), jsonOK, ecode, marks)
					stats[fmt.Sprintf("http-%d", resp.StatusCode)]++
				}
				// ---- gRPC ----
				var gobs term
				var reply any
				var gerr error
				panicked := false
				func() {
					defer func() {
						if e := recover(); e != nil {
							panicked = true
						}
					}()
					reply, gerr = callGRPC(gs, ctx, l)
				}()
				switch {
				case panicked:
					gobs = C("GPanic")
					stats["grpc-panic"]++
				case gerr != nil:
					code := int64(-1)
					if s, ok := status.FromError(gerr); ok {
						code = int64(s.Code())
					}
					gobs = C("GReply", code, L(), L())
					stats[fmt.Sprintf("grpc-code-%d", code)]++
				default:
					text := ""
					if pm, ok := reply.(proto.Message); ok && !reflect.ValueOf(reply).IsNil() {
						b, _ := protojson.Marshal(pm)
						text = string(b)
					}
					gmarks := markersIn(text)
					if pp := findPromisePB(reply); pp != nil && promisePBExact(pp, pstate) {
						gmarks = L(append(gmarks.(map[string]any)["l"].([]term), S("EXACT"))...)
					}
					gobs = C("GReply", int64(0), boolFlags(reply), gmarks)
					stats["grpc-ok"]++
				}
				cases = append(cases, C("CRender", S(op), int64(st), int64(shape), resume, hobs, gobs))
				raws = append(raws, fmt.Sprintf("%s status=%d shape=%d resume=%v promise-state=%v", op, st, shape, resume, pstate))
			}
		}
		stub.reply = nil
		if err := enc.Encode(map[string]any{"family": "render", "seed": sd, "cases": cases, "stats": stats, "raw": raws}); err != nil {
			panic(err)
		}
	}
}

// like exprGRPC, keeping the reply message
func callGRPC(gs *grpcApi.VerifSrv, ctx context.Context, l logical) (any, error) {
	if s := l.search; s != nil {
		if s.promises {
			return gs.SearchPromises(ctx, &pb.SearchPromisesRequest{Id: s.id, Limit: int32(s.limit)})
		}
		return gs.SearchSchedules(ctx, &pb.SearchSchedulesRequest{Id: s.id, Limit: int32(s.limit)})
	}
	w := l.want
	switch w.Kind {
	case t_api.ReadPromise:
		return gs.ReadPromise(ctx, &pb.ReadPromiseRequest{Id: w.ReadPromise.Id})
	case t_api.CreatePromise:
		return gs.CreatePromise(ctx, pbCPR(w.CreatePromise))
	case t_api.CreatePromiseAndTask:
		x := w.CreatePromiseAndTask
		return gs.CreatePromiseAndTask(ctx, &pb.CreatePromiseAndTaskRequest{Promise: pbCPR(x.Promise), Task: &pb.CreatePromiseTaskRequest{ProcessId: x.Task.ProcessId, Ttl: int32(x.Task.Ttl)}})
	case t_api.CompletePromise:
		x := w.CompletePromise
		switch x.State {
		case promise.Resolved:
			return gs.ResolvePromise(ctx, &pb.ResolvePromiseRequest{Id: x.Id})
		case promise.Rejected:
			return gs.RejectPromise(ctx, &pb.RejectPromiseRequest{Id: x.Id})
		default:
			return gs.CancelPromise(ctx, &pb.CancelPromiseRequest{Id: x.Id})
		}
	case t_api.CreateCallback:
		x := w.CreateCallback
		return gs.CreateCallback(ctx, &pb.CreateCallbackRequest{Id: x.Id, PromiseId: x.PromiseId, RootPromiseId: x.RootPromiseId, Timeout: x.Timeout, Recv: l.recv})
	case t_api.CreateSubscription:
		x := w.CreateSubscription
		return gs.CreateSubscription(ctx, &pb.CreateSubscriptionRequest{Id: x.Id, PromiseId: x.PromiseId, Timeout: x.Timeout, Recv: l.recv})
	case t_api.ReadSchedule:
		return gs.ReadSchedule(ctx, &pb.ReadScheduleRequest{Id: w.ReadSchedule.Id})
	case t_api.DeleteSchedule:
		return gs.DeleteSchedule(ctx, &pb.DeleteScheduleRequest{Id: w.DeleteSchedule.Id})
	case t_api.CreateSchedule:
		x := w.CreateSchedule
		return gs.CreateSchedule(ctx, &pb.CreateScheduleRequest{Id: x.Id, Cron: x.Cron, PromiseId: x.PromiseId, PromiseTimeout: x.PromiseTimeout})
	case t_api.AcquireLock:
		x := w.AcquireLock
		return gs.AcquireLock(ctx, &pb.AcquireLockRequest{ResourceId: x.ResourceId, ExecutionId: x.ExecutionId, ProcessId: x.ProcessId, Ttl: x.Ttl})
	case t_api.ReleaseLock:
		x := w.ReleaseLock
		return gs.ReleaseLock(ctx, &pb.ReleaseLockRequest{ResourceId: x.ResourceId, ExecutionId: x.ExecutionId})
	case t_api.HeartbeatLocks:
		return gs.HeartbeatLocks(ctx, &pb.HeartbeatLocksRequest{ProcessId: w.HeartbeatLocks.ProcessId})
	case t_api.ClaimTask:
		x := w.ClaimTask
		return gs.ClaimTask(ctx, &pb.ClaimTaskRequest{Id: x.Id, Counter: int32(x.Counter), ProcessId: x.ProcessId, Ttl: int32(x.Ttl)})
	case t_api.CompleteTask:
		x := w.CompleteTask
		return gs.CompleteTask(ctx, &pb.CompleteTaskRequest{Id: x.Id, Counter: int32(x.Counter)})
	case t_api.HeartbeatTasks:
		return gs.HeartbeatTasks(ctx, &pb.HeartbeatTasksRequest{ProcessId: w.HeartbeatTasks.ProcessId})
	}
	panic("callGRPC: kind")
}

func init() { extraCmds["render"] = cmdRender }
